#!/usr/bin/env python3
"""Translator: regenerates the table/enum/constant part of the Lean model from
the Rust sources of /repo (current working tree).

    gen_model.py <repo> <out_dir>      writes <out_dir>/Tables.lean, Consts.lean

It tokenises the Rust files, locates the named items and reads `match` arms
(pattern => expression) structurally.  Anything it cannot parse makes it exit
non-zero ("fails closed"); `check` then treats the tie as broken.
"""
import re
import sys
import os


class TranslateError(Exception):
    pass


# ---------------------------------------------------------------- tokeniser
TOKEN_RE = re.compile(r"""
    (?P<ws>\s+)
  | (?P<lcomment>//[^\n]*)
  | (?P<bcomment>/\*.*?\*/)
  | (?P<rstr>b?r(?P<hashes>\#*)".*?"(?P=hashes))
  | (?P<str>b?"(?:\\.|[^"\\])*")
  | (?P<char>b?'(?:\\.|[^'\\])')
  | (?P<lifetime>'[A-Za-z_][A-Za-z0-9_]*)
  | (?P<num>0[xX][0-9a-fA-F_]+|0[bB][01_]+|0[oO][0-7_]+|[0-9][0-9_]*)(?P<suffix>(?:u8|u16|u32|u64|usize|i32|i64)?)
  | (?P<ident>[A-Za-z_][A-Za-z0-9_]*)
  | (?P<op>::|=>|->|<<|>>|<=|>=|==|!=|&&|\|\||\.\.=|\.\.|[{}()\[\]<>,;:=&|!+\-*/%.#?@^~$])
""", re.X | re.S)


def tokenize(src):
    toks = []
    pos = 0
    while pos < len(src):
        m = TOKEN_RE.match(src, pos)
        if not m:
            raise TranslateError("cannot tokenise at %r" % src[pos:pos + 30])
        pos = m.end()
        k = m.lastgroup
        if m.group('ws') or m.group('lcomment') or m.group('bcomment'):
            continue
        if m.group('num') is not None:
            t = m.group('num').replace('_', '')
            toks.append(('num', int(t, 0)))
        elif m.group('ident') is not None:
            toks.append(('id', m.group('ident')))
        elif m.group('op') is not None:
            toks.append(('op', m.group('op')))
        elif m.group('rstr') is not None:
            toks.append(('str', m.group('rstr')))
        elif m.group('str') is not None:
            toks.append(('str', m.group('str')))
        elif m.group('char') is not None:
            toks.append(('char', m.group('char')))
        elif m.group('lifetime') is not None:
            toks.append(('lt', m.group('lifetime')))
        else:
            raise TranslateError("token kind " + str(k))
    return toks


def match_close(toks, i):
    """toks[i] is an opening bracket; return index of its matching closer."""
    pairs = {'{': '}', '(': ')', '[': ']'}
    o = toks[i][1]
    c = pairs[o]
    depth = 0
    j = i
    while j < len(toks):
        if toks[j] == ('op', o):
            depth += 1
        elif toks[j] == ('op', c):
            depth -= 1
            if depth == 0:
                return j
        j += 1
    raise TranslateError("unbalanced bracket")


def find_seq(toks, seq, start=0):
    """index of the first occurrence of token-value sequence `seq`."""
    n = len(seq)
    for i in range(start, len(toks) - n + 1):
        if all(toks[i + k][1] == seq[k] for k in range(n)):
            return i
    return -1


# ---------------------------------------------------------------- items
def parse_enum(toks, name):
    i = find_seq(toks, ['enum', name, '{'])
    if i < 0:
        raise TranslateError("enum %s not found" % name)
    j = match_close(toks, i + 2)
    body = toks[i + 3:j]
    variants = []
    k = 0
    while k < len(body):
        t = body[k]
        if t == ('op', '#'):  # attribute
            k = match_close(body, k + 1) + 1
            continue
        if t[0] != 'id':
            raise TranslateError("enum %s: unexpected token %r" % (name, t))
        vname = t[1]
        k += 1
        payload = None
        if k < len(body) and body[k] == ('op', '('):
            e = match_close(body, k)
            inner = body[k + 1:e]
            if len(inner) != 1 or inner[0][0] != 'id':
                raise TranslateError("enum %s: payload of %s" % (name, vname))
            payload = inner[0][1]
            k = e + 1
        if k < len(body):
            if body[k] != ('op', ','):
                raise TranslateError("enum %s: expected ',' after %s" % (name, vname))
            k += 1
        variants.append((vname, payload))
    return variants


def find_fn_body(toks, header_seq, fn_name, start=0):
    """Find `header_seq` (e.g. impl From < u16 > for CoapOption) then the
    body of `fn fn_name` inside that impl. Returns token list of the fn body."""
    i = find_seq(toks, header_seq, start)
    if i < 0:
        raise TranslateError("item %s not found" % ' '.join(header_seq))
    b = i + len(header_seq)
    while toks[b] != ('op', '{'):
        b += 1
    e = match_close(toks, b)
    impl = toks[b + 1:e]
    f = find_seq(impl, ['fn', fn_name])
    if f < 0:
        raise TranslateError("fn %s not found in %s" % (fn_name, ' '.join(header_seq)))
    fb = f
    while impl[fb] != ('op', '{'):
        fb += 1
    fe = match_close(impl, fb)
    return impl[fb + 1:fe]


def find_match(body, scrutinee_hint=None):
    """first `match ... {` in body; returns (scrutinee tokens, arm tokens)."""
    i = find_seq(body, ['match'])
    if i < 0:
        raise TranslateError("no match expression")
    b = i + 1
    while body[b] != ('op', '{'):
        b += 1
    e = match_close(body, b)
    return body[i + 1:b], body[b + 1:e]


def split_arms(arm_toks):
    arms = []
    k = 0
    n = len(arm_toks)
    while k < n:
        # pattern up to =>
        p0 = k
        depth = 0
        while k < n and not (depth == 0 and arm_toks[k] == ('op', '=>')):
            if arm_toks[k][0] == 'op' and arm_toks[k][1] in '({[':
                depth += 1
            elif arm_toks[k][0] == 'op' and arm_toks[k][1] in ')}]':
                depth -= 1
            k += 1
        if k >= n:
            raise TranslateError("arm without =>")
        pat = arm_toks[p0:k]
        k += 1
        # expression: braces block or up to top-level comma
        if arm_toks[k] == ('op', '{'):
            e = match_close(arm_toks, k)
            expr = arm_toks[k + 1:e]
            k = e + 1
            if k < n and arm_toks[k] == ('op', ','):
                k += 1
        else:
            e0 = k
            depth = 0
            while k < n and not (depth == 0 and arm_toks[k] == ('op', ',')):
                if arm_toks[k][0] == 'op' and arm_toks[k][1] in '({[':
                    depth += 1
                elif arm_toks[k][0] == 'op' and arm_toks[k][1] in ')}]':
                    depth -= 1
                k += 1
            expr = arm_toks[e0:k]
            k += 1
        arms.append((pat, expr))
    return arms


# ---------------------------------------------------------------- terms
class P:  # tiny recursive-descent parser for patterns / expressions
    def __init__(self, toks, aliases):
        self.t = toks
        self.i = 0
        self.aliases = aliases

    def peek(self):
        return self.t[self.i] if self.i < len(self.t) else None

    def eat(self, v=None):
        tok = self.peek()
        if tok is None or (v is not None and tok[1] != v):
            raise TranslateError("expected %r, got %r" % (v, tok))
        self.i += 1
        return tok

    def term(self):
        tok = self.peek()
        if tok is None:
            raise TranslateError("empty term")
        if tok == ('op', '&'):
            self.eat()
            return self.term()
        if tok == ('id', 'ref') or tok == ('id', 'mut'):
            self.eat()
            return self.term()
        if tok == ('id', 'return'):
            self.eat()
            return ('return', self.term())
        if tok[0] == 'num':
            self.eat()
            return ('int', tok[1])
        if tok == ('id', '_'):
            self.eat()
            return ('wild',)
        if tok[0] == 'id':
            path = [self.eat()[1]]
            while self.peek() == ('op', '::'):
                self.eat()
                path.append(self.eat()[1])
            path = [self.aliases.get(p, p) for p in path]
            args = None
            if self.peek() == ('op', '('):
                self.eat()
                args = []
                while self.peek() != ('op', ')'):
                    args.append(self.term())
                    if self.peek() == ('op', ','):
                        self.eat()
                self.eat(')')
            return ('path', path, args)
        raise TranslateError("unexpected token in term: %r" % (tok,))

    def whole(self):
        t = self.term()
        if self.i != len(self.t):
            raise TranslateError("trailing tokens in term: %r" % (self.t[self.i:],))
        return t


def parse_aliases(toks):
    al = {}
    for i in range(len(toks) - 2):
        if toks[i][0] == 'id' and toks[i + 1] == ('id', 'as') and toks[i + 2][0] == 'id':
            # only `use ... X as Y` (type-level) – skip casts like `x as u8`
            if toks[i + 2][1] in ('u8', 'u16', 'u32', 'u64', 'usize', 'i32', 'i64', 'char'):
                continue
            al[toks[i + 2][1]] = toks[i][1]
    return al


# ---------------------------------------------------------------- Lean emit
LEAN_KEYWORDS = {'class', 'instance', 'structure', 'inductive', 'def', 'theorem', 'end', 'open', 'namespace', 'section', 'variable', 'universe', 'at', 'from', 'have', 'show', 'fun', 'match', 'with', 'do', 'then', 'else', 'if', 'let', 'in', 'where', 'deriving', 'type', 'Type', 'Prop', 'Sort', 'local', 'private', 'protected', 'mutual', 'macro', 'syntax', 'notation', 'prefix', 'infix', 'postfix', 'import', 'export', 'axiom', 'example', 'abbrev', 'opaque', 'extends', 'this', 'by', 'calc', 'return', 'for', 'unless', 'try', 'catch', 'finally', 'nomatch', 'nofun', 'sorry'}

ENUM_TYPES = ['CoapOption', 'ContentFormat', 'ObserveOption', 'RequestType',
              'ResponseType', 'MessageType', 'MessageClass']


def lean_term(t, binders):
    """Lean syntax for a constructor term/pattern."""
    k = t[0]
    if k == 'int':
        return str(t[1])
    if k == 'wild':
        return '_'
    if k == 'path':
        path, args = t[1], t[2]
        if len(path) == 1 and args is None:
            nm = path[0]
            if nm in ('None',):
                return 'none'
            if nm in LEAN_KEYWORDS:
                return '«%s»' % nm
            return nm  # a binder
        if path[0] in ('Ok', 'Some') and args is not None and len(path) == 1:
            return '(some %s)' % lean_term(args[0], binders)
        if path[0] == 'Err' and len(path) == 1:
            return 'none'
        if path[0] in ENUM_TYPES and len(path) == 2:
            head = '%s.%s' % (path[0], path[1])
            if args is None:
                return head
            return '(%s %s)' % (head, ' '.join(lean_term(a, binders) for a in args))
        raise TranslateError("cannot translate path %r" % (path,))
    if k == 'return':
        return lean_term(t[1], binders)
    raise TranslateError("cannot translate term %r" % (t,))


def emit_enum(name, variants):
    out = ['inductive %s where' % name]
    for v, payload in variants:
        if payload is None:
            out.append('  | %s' % v)
        else:
            out.append('  | %s (n : Nat)' % v)
    out.append('  deriving DecidableEq, Repr, Inhabited')
    out.append('')
    out.append('/-- constructor index in declaration order (what `#[derive(PartialOrd)]` compares first) -/')
    out.append('def %s.idx : %s → Nat' % (name, name))
    for k, (v, payload) in enumerate(variants):
        if payload is None:
            out.append('  | .%s => %d' % (v, k))
        else:
            out.append('  | .%s _ => %d' % (v, k))
    out.append('')
    out.append('def %s.ctorName : %s → String' % (name, name))
    for k, (v, payload) in enumerate(variants):
        if payload is None:
            out.append('  | .%s => "%s"' % (v, v))
        else:
            out.append('  | .%s _ => "%s"' % (v, v))
    out.append('')
    nullary = [v for v, p in variants if p is None]
    out.append('def %s.allNullary : List %s := [%s]' % (name, name, ', '.join('.' + v for v in nullary)))
    out.append('')
    return out


def emit_match_fn(defname, argname, argtype, rettype, arms, aliases):
    out = ['def %s (%s : %s) : %s :=' % (defname, argname, argtype, rettype),
           '  match %s with' % argname]
    for pat, expr in arms:
        # or-patterns `A | B => e`: split at top-level `|`
        alts, cur, depth = [], [], 0
        for tok in pat:
            if tok[0] == 'op' and tok[1] in '({[':
                depth += 1
            elif tok[0] == 'op' and tok[1] in ')}]':
                depth -= 1
            if tok == ('op', '|') and depth == 0:
                alts.append(cur)
                cur = []
            else:
                cur.append(tok)
        alts.append(cur)
        if alts and alts[0] == []:
            alts = alts[1:]  # leading `|`
        ps = [lean_term(P(a, aliases).whole(), None) for a in alts]
        e = P(expr, aliases).whole()
        out.append('  | %s => %s' % (' | '.join(ps), lean_term(e, None)))
    out.append('')
    return out


def eval_const_expr(toks, env_toks=None, depth=0):
    """integer constant expressions: literals, + - * / % << >> | & ( ), `as <int type>` casts, and
    names of other `const`s of the same file (resolved recursively)"""
    s = ''
    i = 0
    while i < len(toks):
        k, v = toks[i]
        if k == 'num':
            s += str(v)
        elif k == 'op' and v in ('+', '-', '*', '(', ')', '<<', '>>', '|', '&', '%'):
            s += v
        elif k == 'op' and v == '/':
            s += '//'
        elif (k, v) == ('id', 'as') and i + 1 < len(toks) and toks[i + 1][1] in ('u8', 'u16', 'u32', 'u64', 'usize', 'i32', 'i64'):
            i += 1
        elif k == 'id' and env_toks is not None and depth < 8:
            j = find_seq(env_toks, ['const', v, ':'])
            if j < 0:
                raise TranslateError("const expr: unknown name %s" % v)
            a = j
            while env_toks[a] != ('op', '='):
                a += 1
            e = a
            while env_toks[e] != ('op', ';'):
                e += 1
            s += '(%d)' % eval_const_expr(env_toks[a + 1:e], env_toks, depth + 1)
        else:
            raise TranslateError("const expr token %r" % ((k, v),))
        i += 1
    try:
        return int(eval(s, {'__builtins__': {}}))
    except Exception as e:
        raise TranslateError("const expr %r: %s" % (s, e))


def find_consts(toks, name):
    """all `const NAME : T = expr ;` – returns list of (cfg_tokens_or_None, value)."""
    res = []
    i = 0
    while True:
        i = find_seq(toks, ['const', name, ':'], i)
        if i < 0:
            break
        j = i
        while toks[j] != ('op', '='):
            j += 1
        e = j
        while toks[e] != ('op', ';'):
            e += 1
        val = eval_const_expr(toks[j + 1:e], toks)
        # look back for #[cfg(...)] directly before (skipping `pub`)
        b = i - 1
        while b >= 0 and toks[b] == ('id', 'pub'):
            b -= 1
        cfg = None
        if b >= 0 and toks[b] == ('op', ']'):
            # find matching '['
            depth = 0
            k = b
            while k >= 0:
                if toks[k] == ('op', ']'):
                    depth += 1
                elif toks[k] == ('op', '['):
                    depth -= 1
                    if depth == 0:
                        break
                k -= 1
            cfg = ' '.join(str(v) for _, v in toks[k:b + 1])
        res.append((cfg, val))
        i = e
    return res


# ---------------------------------------------------------------- struct shapes / global state
def strip_guarded(toks):
    """drop items / statements guarded by #[cfg(test)] or #[cfg(.. coap_lite_verif ..)]
    (the verification hooks and the unit tests are not part of the modelled code)"""
    out = []
    i = 0
    n = len(toks)
    while i < n:
        if toks[i] == ('op', '#') and i + 2 < n and toks[i + 1] == ('op', '[') and toks[i + 2] == ('id', 'cfg'):
            e = match_close(toks, i + 1)
            inner = toks[i + 2:e]
            if ('id', 'test') in inner or ('id', 'coap_lite_verif') in inner:
                # skip the guarded item: up to the end of its first top-level brace block, or ';'
                j = e + 1
                while j < n:
                    t = toks[j]
                    if t == ('op', '#') and j + 1 < n and toks[j + 1] == ('op', '['):
                        j = match_close(toks, j + 1) + 1
                        continue
                    if t[0] == 'op' and t[1] in '([':
                        j = match_close(toks, j) + 1
                        continue
                    if t == ('op', '{'):
                        j = match_close(toks, j) + 1
                        break
                    if t == ('op', ';'):
                        j += 1
                        break
                    j += 1
                i = j
                continue
        out.append(toks[i])
        i += 1
    return out


def type_str(toks):
    """a type as written, normalised so that spelling changes do not matter: module paths are reduced
    to their last segment (`core::fmt::Error` -> `Error`), lifetimes are dropped"""
    out = []
    i = 0
    while i < len(toks):
        k, v = toks[i]
        if k == 'lt':
            i += 1
            if i < len(toks) and toks[i] == ('op', ',') and out and out[-1] == '<':
                i += 1  # `<'a, T>` -> `<T>`
            continue
        if k == 'id' and i + 1 < len(toks) and toks[i + 1] == ('op', '::'):
            i += 2
            continue
        out.append(str(v))
        i += 1
    txt = ''.join(out)
    return txt.replace('<>', '').replace(',>', '>')


def parse_struct(toks, name):
    """fields of `struct name<..> { .. }` as (field, type) with the type's tokens glued together"""
    i = find_seq(toks, ['struct', name])
    if i < 0:
        raise TranslateError("struct %s not found" % name)
    b = i + 2
    tuple_struct = False
    depth = 0
    while not (toks[b] == ('op', '{') and depth == 0):
        if toks[b] == ('op', '<'):
            depth += 1
        elif toks[b] == ('op', '>'):
            depth -= 1
        elif toks[b] == ('op', ';'):
            raise TranslateError("struct %s: unit struct" % name)
        elif toks[b] == ('op', '(') and depth == 0:
            tuple_struct = True
            break
        b += 1
    e = match_close(toks, b)
    body = toks[b + 1:e]
    fields = []
    k = 0
    if tuple_struct:
        idx = 0
        while k < len(body):
            if body[k] == ('op', '#'):
                k = match_close(body, k + 1) + 1
                continue
            if body[k] == ('id', 'pub'):
                k += 1
                if k < len(body) and body[k] == ('op', '('):
                    k = match_close(body, k) + 1
                continue
            start = k
            depth = 0
            while k < len(body):
                v = body[k]
                if v[0] == 'op' and v[1] in '<([{':
                    depth += 1
                elif v[0] == 'op' and v[1] in '>)]}':
                    depth -= 1
                elif v == ('op', '>>'):
                    depth -= 2
                elif v == ('op', ',') and depth == 0:
                    break
                k += 1
            if k > start:
                fields.append((str(idx), type_str(body[start:k])))
                idx += 1
            k += 1
        return fields
    while k < len(body):
        t = body[k]
        if t == ('op', '#'):
            k = match_close(body, k + 1) + 1
            continue
        if t == ('id', 'pub'):
            k += 1
            if k < len(body) and body[k] == ('op', '('):
                k = match_close(body, k) + 1
            continue
        if t[0] != 'id' or k + 1 >= len(body) or body[k + 1] != ('op', ':'):
            raise TranslateError("struct %s: unexpected token %r" % (name, t))
        fname = t[1]
        k += 2
        start = k
        depth = 0
        while k < len(body):
            v = body[k]
            if v[0] == 'op' and v[1] in '<([{':
                depth += 1
            elif v[0] == 'op' and v[1] in '>)]}':
                depth -= 1
            elif v == ('op', '>>'):
                depth -= 2
            elif v == ('op', ',') and depth == 0:
                break
            k += 1
        fields.append((fname, type_str(body[start:k])))
        k += 1
    return fields


GLOBAL_STATE_IDS = {'thread_local', 'lazy_static', 'OnceCell', 'OnceLock', 'Lazy', 'LazyLock',
                    'Cell', 'RefCell', 'UnsafeCell', 'Mutex', 'RwLock', 'AtomicBool', 'AtomicU8', 'AtomicU16',
                    'AtomicU32', 'AtomicU64', 'AtomicUsize', 'AtomicI32', 'AtomicI64', 'AtomicIsize', 'AtomicPtr'}


def global_state(files):
    """identifiers that introduce state outside the values the API passes around (the model is a
    set of pure functions of those values): statics, thread-locals, interior mutability"""
    found = []
    for name, toks in files:
        for i, (k, v) in enumerate(toks):
            if k == 'id' and v in GLOBAL_STATE_IDS:
                found.append('%s:%s' % (name, v))
            if (k, v) == ('id', 'static') and i + 1 < len(toks) and toks[i + 1] == ('id', 'mut'):
                found.append('%s:static mut' % name)
    return sorted(set(found))


def pub_api(toks):
    """the public entry points of a source file: `pub fn` items at the top level, `pub fn` methods of
    inherent impls, and every method of a trait impl – as (qualified name, receiver) with receiver one of
    `&self`, `&mut self`, `self`, `-`. Private helpers are NOT listed: refactorings that add or rename
    them leave this list unchanged."""
    out = []
    n = len(toks)

    def skip_angles(i):
        # toks[i] == '<': index after the matching '>'
        depth = 0
        while i < n:
            t = toks[i]
            if t == ('op', '<'):
                depth += 1
            elif t == ('op', '<<'):
                depth += 2
            elif t == ('op', '>'):
                depth -= 1
            elif t == ('op', '>>'):
                depth -= 2
            i += 1
            if depth <= 0:
                return i
        return i

    def receiver(i):
        # toks[i] == '(' of a fn's parameter list
        e = match_close(toks, i)
        inner = toks[i + 1:e]
        vals = [t[1] for t in inner[:4]]
        if vals[:1] == ['self'] or vals[:2] == ['mut', 'self']:
            return 'self'
        if vals[:2] == ['&', 'self']:
            return '&self'
        if vals[:3] == ['&', 'mut', 'self']:
            return '&mut self'
        if len(vals) >= 3 and vals[0] == '&' and inner[1][0] == 'lt':
            if vals[2] == 'self':
                return '&self'
            if vals[2:4] == ['mut', 'self']:
                return '&mut self'
        return '-'

    def fns_in(body_start, body_end, label, need_pub):
        i = body_start
        while i < body_end:
            t = toks[i]
            if t[0] == 'op' and t[1] in '{([':
                i = match_close(toks, i) + 1
                continue
            if t == ('id', 'fn') and i + 1 < body_end and toks[i + 1][0] == 'id':
                is_pub = False
                k = i - 1
                while k >= body_start and toks[k][0] == 'id' and toks[k][1] in ('const', 'unsafe', 'async', 'extern'):
                    k -= 1
                if k >= body_start and toks[k] == ('op', ')'):
                    # pub(crate) etc.: not part of the public surface
                    is_pub = False
                elif k >= body_start and toks[k] == ('id', 'pub'):
                    is_pub = True
                name = toks[i + 1][1]
                j = i + 2
                if j < body_end and toks[j] == ('op', '<'):
                    j = skip_angles(j)
                if j < body_end and toks[j] == ('op', '('):
                    if is_pub or not need_pub:
                        out.append(((label + '::' if label else '') + name, receiver(j)))
                    j = match_close(toks, j) + 1
                i = j
                continue
            i += 1

    i = 0
    top_segments = []
    last = 0
    while i < n:
        t = toks[i]
        if t == ('id', 'impl'):
            j = i + 1
            if j < n and toks[j] == ('op', '<'):
                j = skip_angles(j)
            # header up to '{'
            hdr = []
            depth = 0
            while j < n and not (toks[j] == ('op', '{') and depth == 0):
                if toks[j] == ('op', '<'):
                    depth += 1
                elif toks[j] == ('op', '>'):
                    depth -= 1
                elif toks[j] == ('op', '>>'):
                    depth -= 2
                if depth == 0 and toks[j] == ('id', 'where'):
                    # skip the where clause
                    while j < n and toks[j] != ('op', '{'):
                        j += 1
                    break
                if depth == 0 or toks[j] == ('id', 'for'):
                    hdr.append(toks[j])
                j += 1
            if j >= n:
                break
            e = match_close(toks, j)
            names = [x[1] for x in hdr if x[0] == 'id']
            if 'for' in names:
                k = names.index('for')
                trait = names[:k][-1] if names[:k] else '?'
                ty = names[k + 1] if k + 1 < len(names) else '?'
                fns_in(j + 1, e, '<%s as %s>' % (ty, trait), False)
            else:
                ty = names[0] if names else '?'
                fns_in(j + 1, e, ty, True)
            top_segments.append((last, i))
            last = e + 1
            i = e + 1
            continue
        if t == ('id', 'mod') and i + 2 < n and toks[i + 2] == ('op', '{'):
            e = match_close(toks, i + 2)
            top_segments.append((last, i))
            last = e + 1
            i = e + 1
            continue
        if t == ('id', 'trait'):
            j = i
            while j < n and toks[j] != ('op', '{'):
                j += 1
            e = match_close(toks, j) if j < n else n
            top_segments.append((last, i))
            last = e + 1
            i = e + 1
            continue
        i += 1
    top_segments.append((last, n))
    for a, b in top_segments:
        fns_in(a, b, '', True)
    return sorted(set(out))



def lean_str(s):
    return '"' + s.replace('\\', '\\\\').replace('"', '\\"') + '"'


def main():
    repo, out_dir = sys.argv[1], sys.argv[2]
    os.makedirs(out_dir, exist_ok=True)
    rd = lambda p: open(os.path.join(repo, 'src', p)).read()
    packet = tokenize(rd('packet.rs'))
    header = tokenize(rd('header.rs'))
    request = tokenize(rd('request.rs'))
    response = tokenize(rd('response.rs'))
    observe = tokenize(rd('observe.rs'))
    block = tokenize(rd('block_handler/mod.rs'))

    L = ['-- GENERATED by translator/gen_model.py from /repo/src – do not edit.',
         'namespace CoapLite', '']
    # enums (order matters: payload-free first so MessageClass can refer to them)
    for name, toks in [('RequestType', header), ('ResponseType', header), ('MessageType', header),
                       ('MessageClass', header), ('CoapOption', packet), ('ContentFormat', packet),
                       ('ObserveOption', packet)]:
        variants = parse_enum(toks, name)
        if name == 'MessageClass':
            out = ['inductive MessageClass where']
            for v, payload in variants:
                if payload is None:
                    out.append('  | %s' % v)
                elif payload in ('RequestType', 'ResponseType'):
                    out.append('  | %s (r : %s)' % (v, payload))
                elif payload == 'u8':
                    out.append('  | %s (n : Nat)' % v)
                else:
                    raise TranslateError('MessageClass payload ' + payload)
            out.append('  deriving DecidableEq, Repr, Inhabited')
            out.append('')
            out.append('def MessageClass.idx : MessageClass → Nat')
            for k, (v, payload) in enumerate(variants):
                out.append('  | .%s%s => %d' % (v, '' if payload is None else ' _', k))
            out.append('')
            L += out
        else:
            L += emit_enum(name, variants)

    al_p = parse_aliases(packet)
    al_h = parse_aliases(header)
    al_rq = parse_aliases(request)
    al_rs = parse_aliases(response)

    # Tables that the correspondence domain TBL (or RESP) compares with the binary over their WHOLE
    # finite domain fall back, when the source no longer has a shape the translator reads (a `match`
    # rewritten as a cast or a lookup array, say), to the text generated from the last tree on which it
    # did (translator/last_good/, committed). The fallback is reported (fallbacks.json); `check` then
    # runs the exhaustive comparison for every property, so a table whose meaning changed still shows
    # up, with the number as the failing input.
    last_good = os.path.join(os.path.dirname(os.path.abspath(__file__)), 'last_good')
    update_last_good = '--update-last-good' in sys.argv
    fallbacks = []

    def soft(defname, thunk):
        p = os.path.join(last_good, defname.replace('?', '_opt') + '.lean')
        try:
            lines = thunk()
        except (TranslateError, IndexError, KeyError) as e:
            if not os.path.exists(p):
                raise
            fallbacks.append(dict(item=defname, reason=str(e)))
            return open(p).read().split('\n')
        if update_last_good:
            os.makedirs(last_good, exist_ok=True)
            open(p, 'w').write('\n'.join(lines))
        return lines

    def table(toks, hdr, fn, defname, argname, argtype, rettype, aliases):
        def thunk():
            body = find_fn_body(toks, hdr, fn)
            scrut, arms = find_match(body)
            return emit_match_fn(defname, argname, argtype, rettype, split_arms(arms), aliases)
        return soft(defname, thunk)

    L += table(packet, ['impl', 'From', '<', 'u16', '>', 'for', 'CoapOption'], 'from',
               'CoapOption.ofU16', 'number', 'Nat', 'CoapOption', al_p)
    L += table(packet, ['impl', 'From', '<', 'CoapOption', '>', 'for', 'u16'], 'from',
               'CoapOption.toU16', 'option', 'CoapOption', 'Nat', al_p)
    L += table(packet, ['impl', 'TryFrom', '<', 'usize', '>', 'for', 'ContentFormat'], 'try_from',
               'ContentFormat.ofUsize?', 'number', 'Nat', 'Option ContentFormat', al_p)
    L += table(packet, ['impl', 'From', '<', 'ContentFormat', '>', 'for', 'usize'], 'from',
               'ContentFormat.toUsize', 'format', 'ContentFormat', 'Nat', al_p)
    L += table(packet, ['impl', 'TryFrom', '<', 'usize', '>', 'for', 'ObserveOption'], 'try_from',
               'ObserveOption.ofUsize?', 'number', 'Nat', 'Option ObserveOption', al_p)
    L += table(packet, ['impl', 'From', '<', 'ObserveOption', '>', 'for', 'usize'], 'from',
               'ObserveOption.toUsize', 'observe', 'ObserveOption', 'Nat', al_p)
    L += table(header, ['impl', 'From', '<', 'u8', '>', 'for', 'MessageClass'], 'from',
               'MessageClass.ofU8', 'number', 'Nat', 'MessageClass', al_h)
    L += table(header, ['impl', 'From', '<', 'MessageClass', '>', 'for', 'u8'], 'from',
               'MessageClass.toU8', 'cls', 'MessageClass', 'Nat', al_h)

    # Header::set_type / get_type
    def t_tobits():
        body = find_fn_body(header, ['impl', 'Header', '{'][:2], 'set_type')
        scrut, arms = find_match(body)
        return emit_match_fn('MessageType.toBits', 't', 'MessageType', 'Nat', split_arms(arms), al_h)
    L += soft('MessageType.toBits', t_tobits)

    def t_ofbits():
        body = find_fn_body(header, ['impl', 'Header'], 'get_type')
        scrut, arms = find_match(body)
        arms2 = []
        for pat, expr in split_arms(arms):
            if expr and expr[0] == ('id', 'unreachable'):
                # `_ => unreachable!()` – the scrutinee is a 2-bit field; keep as none
                arms2.append((pat, [('id', 'None')]))
            else:
                arms2.append((pat, [('id', 'Some'), ('op', '(')] + expr + [('op', ')')]))
        return emit_match_fn('MessageType.ofBits?', 'tn', 'Nat', 'Option MessageType', arms2, al_h)
    L += soft('MessageType.ofBits?', t_ofbits)

    # CoapRequest::get_method, CoapResponse::get_status, CoapResponse::new
    def t_method():
        body = find_fn_body(request, ['impl', '<', 'Endpoint', '>', 'CoapRequest', '<', 'Endpoint', '>'], 'get_method')
        scrut, arms = find_match(body)
        return emit_match_fn('getMethodTable', 'code', 'MessageClass', 'RequestType', split_arms(arms), al_rq)
    L += soft('getMethodTable', t_method)

    def t_status():
        body = find_fn_body(response, ['impl', 'CoapResponse'], 'get_status')
        scrut, arms = find_match(body)
        return emit_match_fn('getStatusTable', 'code', 'MessageClass', 'ResponseType', split_arms(arms), al_rs)
    L += soft('getStatusTable', t_status)

    def t_resptype():
        body = find_fn_body(response, ['impl', 'CoapResponse'], 'new')
        scrut, arms = find_match(body)
        arms2 = []
        for pat, expr in split_arms(arms):
            if expr[:2] == [('id', 'return'), ('id', 'None')]:
                arms2.append((pat, [('id', 'None')]))
            else:
                arms2.append((pat, [('id', 'Some'), ('op', '(')] + expr + [('op', ')')]))
        return emit_match_fn('responseTypeFor', 't', 'MessageType', 'Option MessageType', arms2, al_rs)
    L += soft('responseTypeFor', t_resptype)

    # HandlingError constructors: the response code each one carries
    error = tokenize(rd('error.rs'))
    L += ['', '-- HandlingError::<ctor>().code, read from src/error.rs', 'namespace HandlingErrorCode']
    for fn, lean in [('not_handled', 'notHandled'), ('not_found', 'notFound'), ('bad_request', 'badRequest'),
                     ('internal', 'internal'), ('method_not_supported', 'methodNotSupported')]:
        body = find_fn_body(error, ['impl', 'HandlingError'], fn)
        i = find_seq(body, ['with_code', '(', 'ResponseType', '::'])
        j = find_seq(body, ['code', ':', 'None'])
        i2 = find_seq(body, ['code', ':', 'Some', '(', 'ResponseType', '::'])
        if i < 0 and i2 >= 0:
            i = i2 + 2
        if i >= 0 and j < 0:
            L.append('def %s : Option ResponseType := some .%s' % (lean, body[i + 4][1]))
        elif j >= 0 and i < 0:
            L.append('def %s : Option ResponseType := none' % lean)
        else:
            raise TranslateError('HandlingError::%s: unrecognised body' % fn)
    body = find_fn_body(error, ['impl', 'HandlingError'], 'with_code')
    if find_seq(body, ['code', ':', 'Some', '(', 'code', ')']) < 0:
        raise TranslateError('HandlingError::with_code: unrecognised body')
    L += ['end HandlingErrorCode', '']

    L += ['end CoapLite', '']
    open(os.path.join(out_dir, 'Tables.lean'), 'w').write('\n'.join(L))

    # ---------------- constants
    C = ['-- GENERATED by translator/gen_model.py from /repo/src – do not edit.',
         'namespace CoapLite.Consts', '']
    ms = find_consts(packet, 'MAX_SIZE')
    if len(ms) != 2:
        raise TranslateError('expected two cfg-selected MAX_SIZE consts, got %r' % (ms,))
    for cfg, val in ms:
        if cfg is None:
            raise TranslateError('MAX_SIZE without cfg')
        if 'not' in cfg and 'udp' in cfg:
            C.append('def maxSize : Nat := %d' % val)
        elif 'udp' in cfg:
            C.append('def maxSizeUdp : Nat := %d' % val)
        else:
            raise TranslateError('MAX_SIZE cfg %r' % cfg)
    for rust, lean, toks in [('BLOCK_OPTIONS_MAX_LENGTH', 'blockOptionsMaxLength', block),
                             ('MAXIMUM_UNCOMMITTED_BUFFER_RESERVE_LENGTH', 'maxUncommittedReserve', block),
                             ('MAXIMUM_TOKEN_LENGTH', 'maximumTokenLength', block),
                             ('MAXIMUM_BLOCK_SIZE', 'maximumBlockSize', block),
                             ('DEFAULT_MAX_TOTAL_MESSAGE_SIZE', 'defaultMaxTotalMessageSize', block),
                             ('DEFAULT_UNACKNOWLEDGED_LIMIT', 'defaultUnackLimit', observe)]:
        cs = find_consts(toks, rust)
        if len(cs) != 1:
            raise TranslateError('const %s: %r' % (rust, cs))
        C.append('def %s : Nat := %d' % (lean, cs[0][1]))
    # HeaderRaw::default
    body = find_fn_body(header, ['impl', 'Default', 'for', 'HeaderRaw'], 'default')
    for fld, lean in [('ver_type_tkl', 'headerDefaultVtt'), ('code', 'headerDefaultCode'),
                      ('message_id', 'headerDefaultMid')]:
        i = find_seq(body, [fld, ':'])
        if i < 0 or body[i + 2][0] != 'num':
            raise TranslateError('HeaderRaw::default field ' + fld)
        C.append('def %s : Nat := %d' % (lean, body[i + 2][1]))
    C += ['', 'end CoapLite.Consts', '']
    open(os.path.join(out_dir, 'Consts.lean'), 'w').write('\n'.join(C))

    # ---------------- shapes of the state-bearing structs + global state
    all_files = [(p, strip_guarded(tokenize(rd(p)))) for p in
                 ['lib.rs', 'packet.rs', 'header.rs', 'request.rs', 'response.rs', 'observe.rs', 'option_value.rs',
                  'error.rs', 'link_format.rs', 'block_handler/mod.rs', 'block_handler/block_value.rs',
                  'impl_coap_message.rs', 'impl_coap_message_0_3.rs']]
    byname = dict(all_files)
    S = ['-- GENERATED by translator/gen_model.py from /repo/src – do not edit.',
         '-- Field lists (sorted by field name; types as written, module paths and lifetimes dropped) of the structs that carry the state the',
         '-- model describes, and every identifier that introduces state outside those values.',
         'namespace CoapLite.Shapes', '']
    for lean, file, struct in [('observer', 'observe.rs', 'Observer'), ('resource', 'observe.rs', 'Resource'),
                               ('subject', 'observe.rs', 'Subject'),
                               ('blockHandler', 'block_handler/mod.rs', 'BlockHandler'),
                               ('blockHandlerConfig', 'block_handler/mod.rs', 'BlockHandlerConfig'),
                               ('requestCacheKey', 'block_handler/mod.rs', 'RequestCacheKey'),
                               ('blockState', 'block_handler/mod.rs', 'BlockState'),
                               ('blockValue', 'block_handler/block_value.rs', 'BlockValue'),
                               ('headerRaw', 'header.rs', 'HeaderRaw'), ('header', 'header.rs', 'Header'),
                               ('packet', 'packet.rs', 'Packet'),
                               ('coapRequest', 'request.rs', 'CoapRequest'),
                               ('coapResponse', 'response.rs', 'CoapResponse'),
                               ('linkFormatWrite', 'link_format.rs', 'LinkFormatWrite'),
                               ('linkAttributeWrite', 'link_format.rs', 'LinkAttributeWrite'),
                               ('linkFormatParser', 'link_format.rs', 'LinkFormatParser'),
                               ('linkAttributeParser', 'link_format.rs', 'LinkAttributeParser'),
                               ('unquote', 'link_format.rs', 'Unquote')]:
        fields = sorted(parse_struct(byname[file], struct))
        S.append('def %s : List (String × String) := [%s]' % (
            lean, ', '.join('(%s, %s)' % (lean_str(a), lean_str(b)) for a, b in fields)))
    S.append('def globalState : List String := [%s]' % ', '.join(lean_str(x) for x in global_state(all_files)))
    S.append('')
    S.append('-- the public entry points of the modelled files (qualified name, receiver); private helpers are not listed')
    for lean, file in [('apiObserve', 'observe.rs'), ('apiBlockHandler', 'block_handler/mod.rs'),
                       ('apiBlockValue', 'block_handler/block_value.rs'), ('apiPacket', 'packet.rs'),
                       ('apiHeader', 'header.rs'), ('apiRequest', 'request.rs'), ('apiResponse', 'response.rs'),
                       ('apiLinkFormat', 'link_format.rs')]:
        S.append('def %s : List (String × String) := [%s]' % (
            lean, ', '.join('(%s, %s)' % (lean_str(a), lean_str(b)) for a, b in pub_api(byname[file]))))
    S += ['', 'end CoapLite.Shapes', '']
    open(os.path.join(out_dir, 'Shapes.lean'), 'w').write('\n'.join(S))
    import json
    json.dump(fallbacks, open(os.path.join(out_dir, 'fallbacks.json'), 'w'), indent=1)


if __name__ == '__main__':
    try:
        main()
    except TranslateError as e:
        print('TRANSLATOR-ERROR: %s' % e, file=sys.stderr)
        sys.exit(2)
