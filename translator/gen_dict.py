#!/usr/bin/env python3
"""Harvest the literals of the crate's source (string, byte-string, char and integer literals)
into a libFuzzer dictionary, so that a comparison against a constant that appears in the
source (a special segment, a magic length, a code point) can be satisfied by the search.
   gen_dict.py <repo> <out>"""
import glob, os, re, sys
repo, out = sys.argv[1], sys.argv[2]
lits = set()
def esc(b):
    return ''.join('\\x%02x' % x for x in b)
for f in sorted(glob.glob(os.path.join(repo, 'src', '**', '*.rs'), recursive=True)):
    src = open(f, encoding='utf-8', errors='replace').read()
    # drop doc / line comments (keep it simple: literals inside comments only add entries)
    for m in re.finditer(r'b?"((?:[^"\\\n]|\\.)*)"', src):
        raw = m.group(1)
        try:
            val = bytes(raw, 'utf-8').decode('unicode_escape').encode('latin-1', 'replace') if '\\' in raw else raw.encode('utf-8')
        except Exception:
            val = raw.encode('utf-8')
        if 0 < len(val) <= 24:
            lits.add(bytes(val))
    for m in re.finditer(r"'(\\u\{[0-9a-fA-F]+\}|\\x[0-9a-fA-F]{2}|\\.|[^'\\\n])'", src):
        c = m.group(1)
        try:
            if c.startswith('\\u'):
                ch = chr(int(c[3:-1], 16))
            elif c.startswith('\\x'):
                ch = chr(int(c[2:], 16))
            elif c.startswith('\\'):
                ch = {'n': '\n', 'r': '\r', 't': '\t', '0': '\0', '\\': '\\', "'": "'", '"': '"'}.get(c[1], c[1])
            else:
                ch = c
            lits.add(ch.encode('utf-8'))
        except Exception:
            pass
    for m in re.finditer(r'(?<![\w.])(0x[0-9a-fA-F_]+|0b[01_]+|\d[\d_]*)(?:u8|u16|u32|u64|usize|i32|i64)?\b', src):
        t = m.group(1).replace('_', '')
        try:
            v = int(t, 0) if t[:2] in ('0x', '0b') else int(t)
        except ValueError:
            continue
        for d in (-1, 0, 1):
            w = v + d
            if w < 0 or w >= 1 << 64:
                continue
            for n in (1, 2, 4, 8):
                if w < 1 << (8 * n):
                    lits.add(w.to_bytes(n, 'little'))
                    lits.add(w.to_bytes(n, 'big'))
                    break
with open(out, 'w') as fo:
    for i, b in enumerate(sorted(lits)):
        fo.write('"%s"\n' % esc(b))
print(len(lits), 'dictionary entries')
