#!/usr/bin/env python3
"""Converts the hand-written spec/registry.json into Lean (Spec/Registry.lean).
Pure syntax conversion: the numbers come from registry.json only."""
import json, sys
reg = json.load(open(sys.argv[1]))
out = ['-- GENERATED from spec/registry.json (hand-transcribed IANA/RFC registries) – do not edit.',
       'import CoapLite.Generated.Tables', 'namespace CoapLite.Registry', '']
def lst(name, ty, items):
    out.append('def %s : List (%s × Nat) := [' % (name, ty))
    out.append(',\n'.join('  (%s.%s, %d)' % (ty, k, v) for k, v in items.items()))
    out.append(']')
    out.append('')
lst('options', 'CoapOption', reg['options'])
lst('contentFormats', 'ContentFormat', reg['content_formats'])
lst('methods', 'RequestType', reg['methods'])
lst('responses', 'ResponseType', reg['responses'])
lst('types', 'MessageType', reg['types'])
lst('observe', 'ObserveOption', reg['observe'])
out += ['end CoapLite.Registry', '']
open(sys.argv[2], 'w').write('\n'.join(out))
