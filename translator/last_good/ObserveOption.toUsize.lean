def ObserveOption.toUsize (observe : ObserveOption) : Nat :=
  match observe with
  | ObserveOption.Register => 0
  | ObserveOption.Deregister => 1
