def getStatusTable (code : MessageClass) : ResponseType :=
  match code with
  | (MessageClass.Response status) => status
  | _ => ResponseType.UnKnown
