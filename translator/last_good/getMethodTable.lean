def getMethodTable (code : MessageClass) : RequestType :=
  match code with
  | (MessageClass.Request RequestType.Get) => RequestType.Get
  | (MessageClass.Request RequestType.Post) => RequestType.Post
  | (MessageClass.Request RequestType.Put) => RequestType.Put
  | (MessageClass.Request RequestType.Delete) => RequestType.Delete
  | (MessageClass.Request RequestType.Fetch) => RequestType.Fetch
  | (MessageClass.Request RequestType.Patch) => RequestType.Patch
  | (MessageClass.Request RequestType.IPatch) => RequestType.IPatch
  | _ => RequestType.UnKnown
