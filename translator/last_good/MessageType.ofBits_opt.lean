def MessageType.ofBits? (tn : Nat) : Option MessageType :=
  match tn with
  | 0 => (some MessageType.Confirmable)
  | 1 => (some MessageType.NonConfirmable)
  | 2 => (some MessageType.Acknowledgement)
  | 3 => (some MessageType.Reset)
  | _ => none
