def MessageType.toBits (t : MessageType) : Nat :=
  match t with
  | MessageType.Confirmable => 0
  | MessageType.NonConfirmable => 1
  | MessageType.Acknowledgement => 2
  | MessageType.Reset => 3
