def responseTypeFor (t : MessageType) : Option MessageType :=
  match t with
  | MessageType.Confirmable => (some MessageType.Acknowledgement)
  | MessageType.NonConfirmable => (some MessageType.NonConfirmable)
  | _ => none
