def ObserveOption.ofUsize? (number : Nat) : Option ObserveOption :=
  match number with
  | 0 => (some ObserveOption.Register)
  | 1 => (some ObserveOption.Deregister)
  | _ => none
