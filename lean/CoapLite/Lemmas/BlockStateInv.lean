/-
Lifting a per-state invariant of the block handler to every state of every reachable handler: if a
predicate holds of the default state and is preserved by both cores (`coreEv`), then after ANY history
of calls (any keys, any interleaving, any monotone timestamps, entries expiring and being evicted) the
state in effect for EVERY key at EVERY later time satisfies it. Instantiated with `Recorded` (D21): the
size exponent stored with a cached response is the one negotiated for it.
-/
import CoapLite.Lemmas.BlockClamp

namespace CoapLite.Block
open CoapLite

theorem state_inv_gen (M : Nat) (P : BlockState → Prop) (hd : P BlockState.default)
    (hstep : ∀ e st, P st → P (coreEv M e st).2.1) :
    ∀ (evs : List Ev) (t0 : Nat) (h0 : Handler),
      h0.maxSize = M → Lru.Inv h0.cache t0 → Mono t0 evs →
      (∀ κ now', t0 ≤ now' → P (effective h0 κ now')) →
      ∀ κ now', t0 ≤ now' → (∀ e ∈ evs, e.now ≤ now') →
        P (effective (evs.foldl (fun h e => (stepEv h e).1) h0) κ now') := by
  intro evs
  induction evs with
  | nil => intro t0 h0 _ _ _ hP κ now' ht _; exact hP κ now' ht
  | cons e es ih =>
    intro t0 h0 hM hi hm hP κ now' ht hall
    obtain ⟨hte, hm'⟩ := hm
    have hi' := Lru.inv_mono _ _ _ hi hte
    obtain ⟨_, M₁, _, I₁, P₁, Q₁, _⟩ := stepEv_spec h0 e hi'
    have hen : e.now ≤ now' := hall e (by simp)
    simp only [List.foldl_cons]
    apply ih e.now (stepEv h0 e).1 (by rw [M₁, hM]) I₁ hm' ?_ κ now' hen
      (fun e' he' => hall e' (by simp [he']))
    intro κ' t' ht'
    unfold effective
    by_cases hk : κ' = e.key
    · rw [hk, P₁ t' ht']
      split
      · simp only [Option.getD_some]
        rw [hM]
        exact hstep e _ (hP e.key e.now hte)
      · exact hd
    · rw [Q₁ κ' t' hk ht']
      exact hP κ' t' (Nat.le_trans hte ht')

/-- in every handler reachable from `Handler.new` by any monotone history, the state in effect for any
key at any later time records, for a cached response, the exponent negotiated for exactly that packet -/
theorem handler_states_recorded (M ttl : Nat) (evs : List Ev) (hm : Mono 0 evs) (κ : Key) (now' : Nat)
    (hall : ∀ e ∈ evs, e.now ≤ now') :
    Recorded M (effective (evs.foldl (fun h e => (stepEv h e).1) (Handler.new M ttl)) κ now') := by
  refine state_inv_gen M (Recorded M) (recorded_default M) ?_ evs 0 (Handler.new M ttl) rfl
    (Lru.inv_empty _ _) hm ?_ κ now' (Nat.zero_le _) hall
  · intro e st h
    unfold coreEv
    split
    · exact coreResponse_recorded M _ _ h
    · exact coreRequest_recorded M _ _ h
  · intro κ' t' _
    have : effective (Handler.new M ttl) κ' t' = BlockState.default := rfl
    rw [this]
    exact recorded_default M

/-- D21 AT THE LEVEL OF THE HANDLER, inside arbitrary traffic: after ANY monotone history of calls on a
fresh handler, a request `e` (for any key, at any later time) whose Block1 stage passes and whose Block2
option – naming ANY size – is served from the cache gets, as `intercept_request`'s observable result, a
reply with at most as many payload bytes as the size `b` negotiated for the cached response under this
handler's budget; they are the bytes at the offset the client named. -/
theorem served_follow_up_in_any_handler_history (M ttl : Nat) (evs : List Ev) (hm : Mono 0 evs) (e : Ev)
    (hreq : e.isResp = false) (hlate : ∀ e' ∈ evs, e'.now ≤ e.now)
    (req1 req' : Request) (st1 st' : BlockState) (b2 : BlockValue) :
    let h := evs.foldl (fun h e => (stepEv h e).1) (Handler.new M ttl)
    handleBlock1 e.req M (effective h e.key e.now) = (req1, st1, .ok false) →
    firstBlock req1.message block2Num = some b2 →
    handleBlock2 req1 st1 = (req', st', .ok true) →
    (stepEv h e).2 = (req', .ok true) ∧
    ∃ cached resp' lb size b, st1.cachedResponse = some cached ∧ req'.response = some resp' ∧
      (∀ r, lb = some r → BvOk r) ∧ computeMessageSize cached = .ok size ∧
      cached.getOption block2Num = none ∧
      negotiate lb (size + tokenReserve cached) cached.payload.length M = .ok (some b) ∧
      resp'.payload.length ≤ b.size ∧
      resp'.payload = (cached.payload.drop (b2.num * b2.size)).take (2 ^ (min b2.szx b.szx + 4)) := by
  intro h h1 hb h2
  have hrec := handler_states_recorded M ttl evs hm e.key e.now hlate
  have hM : h.maxSize = M := (reach_gen evs 0 (Handler.new M ttl) (Lru.inv_empty _ _) hm
    (by intro x hx; simp [Handler.new, Lru.empty] at hx)).1
  have hi : Lru.Inv h.cache e.now := (reach_gen evs 0 (Handler.new M ttl) (Lru.inv_empty _ _) hm
    (by intro x hx; simp [Handler.new, Lru.empty] at hx)).2.2.1 e.now (Nat.zero_le _) hlate
  obtain ⟨ho, _⟩ := stepEv_spec h e hi
  have hcore : coreEv h.maxSize e (effective h e.key e.now) = (req', st', .ok true) := by
    unfold coreEv
    rw [hreq, hM]
    simp only [Bool.false_eq_true, ↓reduceIte, coreRequest, h1, h2]
  -- the state after the Block1 stage is still `Recorded`
  have hrec1 : Recorded M st1 := by
    have hf := handleBlock1_frame e.req M (effective h e.key e.now)
    have hs := handleBlock1_szx e.req M (effective h e.key e.now)
    rw [h1] at hf hs
    refine ⟨by rw [hf.2.2.2.2.2.1]; exact hrec.1, ?_⟩
    intro cached hc
    rw [hf.2.2.2.2.2.2] at hc
    rw [hs]
    exact hrec.2 cached hc
  refine ⟨by rw [ho, hcore], ?_⟩
  have hc : ∃ cached, st1.cachedResponse = some cached := by
    cases hcr : st1.cachedResponse with
    | some c => exact ⟨c, rfl⟩
    | none =>
      rw [handleBlock2_pass _ _ (Or.inr hcr)] at h2
      simp at h2
  obtain ⟨cached, hcached⟩ := hc
  obtain ⟨x, lb, size, b, hx, hlb, hsz, hn, hbx, hno⟩ := hrec1.2 cached hcached
  obtain ⟨cached', resp', hc', hr, hlen, hpay⟩ := handleBlock2_served_within req1 st1 b2 x req' st' hb hx h2
  rw [hcached] at hc'
  simp only [Option.some.injEq] at hc'
  subst hc'
  subst hbx
  exact ⟨cached, resp', lb, size, b, hcached, hr, hlb, hsz, hno, hn, hlen, hpay⟩

end CoapLite.Block
