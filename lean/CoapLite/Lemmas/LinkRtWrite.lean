/-
The fault-free link-format writer's output as a pure function of the document.
Used by Lemmas/LinkRoundtrip.
-/
import CoapLite.Model.LinkFormat
import CoapLite.Lemmas.LinkWrite

namespace CoapLite.Link.R
open CoapLite.Link

/-- backslash-escape `"` and `\` -/
def escape : List Char → List Char
  | [] => []
  | c :: cs => if c = '"' || c = '\\' then '\\' :: c :: escape cs else c :: escape cs

def quote (v : List Char) : List Char := '"' :: (escape v ++ ['"'])

def keyOf : AttrSpec → List Char
  | .plain k _ => k
  | .quoted k _ => k
  | .num k _ => k

/-- the value text as written -/
def valText : AttrSpec → List Char
  | .plain _ v => if v.any (fun c => !isAsciiAlnum c) then quote v else v
  | .quoted _ v => quote v
  | .num _ n => Nat.toDigits 10 n

/-- `key=value` -/
def attrText (a : AttrSpec) : List Char := keyOf a ++ '=' :: valText a

/-- `;key=value;key=value…` -/
def block : List AttrSpec → List Char
  | [] => []
  | a :: as => ';' :: (attrText a ++ block as)

def outLink (l : List Char × List AttrSpec) : List Char :=
  '<' :: (l.1 ++ '>' :: block l.2)

def wsOf (nl : Bool) : List Char := if nl then ['\n', '\r'] else []

/-- what follows a link: `,` (newline) and the next links -/
def sepText (nl : Bool) : Doc → List Char
  | [] => []
  | l :: d => ',' :: (wsOf nl ++ (outLink l ++ sepText nl d))

def outDoc (nl : Bool) : Doc → List Char
  | [] => []
  | l :: d => outLink l ++ sepText nl d

/-- `w` with `calls` replaced and `s` appended to the sink -/
def app (w : W) (c : Nat) (s : List Char) : W := { w with calls := c, sink := w.sink ++ s }

@[simp] theorem app_error (w : W) (c s) : (app w c s).error = w.error := rfl
@[simp] theorem app_isFirst (w : W) (c s) : (app w c s).isFirst = w.isFirst := rfl
@[simp] theorem app_nl (w : W) (c s) : (app w c s).nl = w.nl := rfl
@[simp] theorem app_sink (w : W) (c s) : (app w c s).sink = w.sink ++ s := rfl

theorem app_app (w : W) (c c' s s') : app (app w c s) c' s' = app w c' (s ++ s') := by
  simp [app, List.append_assoc]

theorem app_congr (w : W) (c : Nat) {s s' : List Char} (h : s = s') : app w c s = app w c s' := by
  rw [h]

theorem put_ok (w : W) (s : List Char) (h : w.error = false) :
    W.put noFault w s = app w (w.calls + 1) s := by
  simp [W.put, h, noFault, app]

theorem put_app (w : W) (c s t) (h : w.error = false) :
    W.put noFault (app w c s) t = app w (c + 1) (s ++ t) := by
  rw [put_ok _ _ (by simpa using h), app_app]; rfl

theorem keyEq_ok (w : W) (k : List Char) (h : w.error = false) :
    ∃ c, W.keyEq noFault w k = app w c (';' :: (k ++ ['='])) := by
  refine ⟨w.calls + 1 + 1 + 1, ?_⟩
  unfold W.keyEq
  rw [put_ok _ _ h, put_app _ _ _ _ h, put_app _ _ _ _ h]
  simp

/-- one step of the escaping loop of `attr_quoted` -/
def escStep (w : W) (c : Char) : W :=
  W.put noFault (if c = '"' || c = '\\' then w.put noFault ['\\'] else w) [c]

theorem foldEsc_ok (v : List Char) : ∀ (w : W) (c : Nat) (s : List Char), w.error = false →
    ∃ c', v.foldl escStep (app w c s) = app w c' (s ++ escape v) := by
  induction v with
  | nil => intro w c s _; exact ⟨c, by simp [escape]⟩
  | cons x xs ih =>
    intro w c s h
    rw [List.foldl_cons]
    by_cases hx : (x = '"' || x = '\\') = true
    · have h1 : escStep (app w c s) x = app w (c + 1 + 1) (s ++ ['\\'] ++ [x]) := by
        unfold escStep
        rw [if_pos hx, put_app _ _ _ _ h, put_app _ _ _ _ h]
      rw [h1]
      obtain ⟨c', hc'⟩ := ih w (c + 1 + 1) (s ++ ['\\'] ++ [x]) h
      refine ⟨c', ?_⟩
      rw [hc']; simp [escape, hx]
    · have h1 : escStep (app w c s) x = app w (c + 1) (s ++ [x]) := by
        unfold escStep
        rw [if_neg hx, put_app _ _ _ _ h]
      rw [h1]
      obtain ⟨c', hc'⟩ := ih w (c + 1) (s ++ [x]) h
      refine ⟨c', ?_⟩
      rw [hc']; simp [escape, hx]

theorem attrQuoted_ok (w : W) (k v : List Char) (h : w.error = false) :
    ∃ c, W.attrQuoted noFault w k v = app w c (';' :: (k ++ '=' :: quote v)) := by
  obtain ⟨c1, h1⟩ := keyEq_ok w k h
  obtain ⟨c2, h2⟩ := foldEsc_ok v w (c1 + 1) (';' :: (k ++ ['=']) ++ ['"']) h
  refine ⟨c2 + 1, ?_⟩
  show W.put noFault (v.foldl escStep (W.put noFault (W.keyEq noFault w k) ['"'])) ['"'] = _
  rw [h1, put_app _ _ _ _ h, h2, put_app _ _ _ _ h]
  simp [quote]

theorem attrSpec_ok (w : W) (a : AttrSpec) (h : w.error = false) :
    ∃ c, W.attrSpec noFault w a = app w c (';' :: attrText a) := by
  cases a with
  | plain k v =>
    show ∃ c, W.attr noFault w k v = app w c (';' :: (k ++ '=' ::
      (if v.any (fun c => !isAsciiAlnum c) then quote v else v)))
    unfold W.attr
    by_cases hv : v.any (fun c => !isAsciiAlnum c) = true
    · rw [if_pos hv, if_pos hv]; exact attrQuoted_ok w k v h
    · rw [if_neg hv, if_neg hv]
      obtain ⟨c1, h1⟩ := keyEq_ok w k h
      refine ⟨c1 + 1, ?_⟩
      rw [h1, put_app _ _ _ _ h]
      simp
  | quoted k v => exact attrQuoted_ok w k v h
  | num k n =>
    show ∃ c, W.put noFault (W.keyEq noFault w k) (Nat.toDigits 10 n) =
      app w c (';' :: (k ++ '=' :: Nat.toDigits 10 n))
    obtain ⟨c1, h1⟩ := keyEq_ok w k h
    refine ⟨c1 + 1, ?_⟩
    rw [h1, put_app _ _ _ _ h]
    simp

theorem attrs_ok (as : List AttrSpec) : ∀ (w : W) (c : Nat) (s : List Char), w.error = false →
    ∃ c', as.foldl (W.attrSpec noFault) (app w c s) = app w c' (s ++ block as) := by
  induction as with
  | nil => intro w c s _; exact ⟨c, by simp [block]⟩
  | cons a as ih =>
    intro w c s h
    rw [List.foldl_cons]
    obtain ⟨c1, h1⟩ := attrSpec_ok (app w c s) a (by simpa using h)
    rw [h1, app_app]
    obtain ⟨c2, h2⟩ := ih w c1 (s ++ ';' :: attrText a) h
    exact ⟨c2, by rw [h2]; simp [block]⟩

/-- a link (with its attributes) written when it is not the first one -/
theorem linkAttrs_next (w : W) (l : List Char × List AttrSpec) (h : w.error = false)
    (hf : w.isFirst = false) :
    ∃ c, l.2.foldl (W.attrSpec noFault) (W.link noFault w l.1) =
      app w c (',' :: (wsOf w.nl ++ outLink l)) := by
  have h0 : ∃ c, W.link noFault w l.1 = app w c (',' :: (wsOf w.nl ++ '<' :: (l.1 ++ ['>']))) := by
    unfold W.link
    simp only [hf, Bool.false_eq_true, if_false]
    by_cases hn : w.nl = true
    · rw [if_pos hn, put_ok _ _ h, put_app _ _ _ _ h, put_app _ _ _ _ h, put_app _ _ _ _ h,
        put_app _ _ _ _ h]
      exact ⟨_, app_congr _ _ (by simp [wsOf, hn])⟩
    · rw [if_neg hn, put_ok _ _ h, put_app _ _ _ _ h, put_app _ _ _ _ h, put_app _ _ _ _ h]
      exact ⟨_, app_congr _ _ (by simp [wsOf, hn])⟩
  obtain ⟨c0, hc0⟩ := h0
  rw [hc0]
  obtain ⟨c, hc⟩ := attrs_ok l.2 w c0 _ h
  exact ⟨c, by rw [hc]; simp [outLink]⟩

theorem doc_next (nl : Bool) (d : Doc) : ∀ (w : W), w.error = false → w.isFirst = false →
    w.nl = nl →
    (d.foldl (fun w l => l.2.foldl (W.attrSpec noFault) (w.link noFault l.1)) w).sink =
      w.sink ++ sepText nl d := by
  induction d with
  | nil => intro w _ _ _; simp [sepText]
  | cons l d ih =>
    intro w h hf hn
    rw [List.foldl_cons]
    obtain ⟨c, hc⟩ := linkAttrs_next w l h hf
    rw [hc, ih _ (by simpa using h) (by simpa using hf) (by simpa using hn)]
    simp [sepText, hn]

theorem writeDoc_sink (nl : Bool) (d : Doc) : (writeDoc noFault nl d).sink = outDoc nl d := by
  unfold writeDoc
  cases d with
  | nil => rfl
  | cons l d =>
    rw [List.foldl_cons]
    have h0 : W.link noFault (W.new nl) l.1 =
        app { W.new nl with isFirst := false } 3 ('<' :: (l.1 ++ ['>'])) := by
      have e : ({ W.new nl with isFirst := false } : W).error = false := rfl
      show W.put noFault (W.put noFault (W.put noFault { W.new nl with isFirst := false } ['<']) l.1)
        ['>'] = _
      rw [put_ok _ ['<'] e, put_app _ _ _ _ e, put_app _ _ _ _ e]
      exact app_congr _ _ (by simp)
    rw [h0]
    obtain ⟨c, hc⟩ := attrs_ok l.2 { W.new nl with isFirst := false } 3 ('<' :: (l.1 ++ ['>'])) rfl
    rw [hc, doc_next nl d _ rfl rfl rfl]
    simp [outDoc, outLink, W.new]

end CoapLite.Link.R
