/-
The whole Block2 download at the level of the handler, inside arbitrary traffic: from the call of
`intercept_response` with the application's reply to the last follow-up, for a key whose calls are
interleaved at will with calls for other keys. Composes `transfer_in_any_history` (what a key observes in
any history is what the per-key core computes for its calls alone) with `download_from_reply`.
-/
import CoapLite.Lemmas.BlockSession
import CoapLite.Lemmas.DownloadFull
import CoapLite.Lemmas.BlockClamp

namespace CoapLite.Block
open CoapLite

theorem runKey_append (M : Nat) : ∀ (a b : List Ev) (st : BlockState),
    runKey M st (a ++ b) = runKey M st a ++ runKey M (finalState M st a) b := by
  intro a
  induction a with
  | nil => intro b st; rfl
  | cons e es ih =>
    intro b st
    simp only [List.cons_append, runKey, finalState, ih]

theorem runKey_length (M : Nat) : ∀ (a : List Ev) (st : BlockState), (runKey M st a).length = a.length := by
  intro a
  induction a with
  | nil => intro st; rfl
  | cons e es ih => intro st; simp [runKey, ih]

/-- WHOLE DOWNLOAD, handler level. Fresh handler, ANY monotone history `evs`. The calls for key `κ`, at
most `ttl` apart, are: any earlier calls `pre`, then `e0` = `intercept_response` with the application's
reply `resp` (no Block2 option of its own; `rb2` = block 0 is what the negotiation gives in the state `pre`
left behind, and the body is longer than one block), then the request-side follow-ups `fus` for blocks
1, 2, … up to the last block, at the negotiated size. What the caller observes for `e0` and the follow-ups:
every one is answered by the handler (`ok true`; the application produced the body ONCE), and the reply
payloads, concatenated, are byte for byte the body – whatever other transfers do in between. -/
theorem download_in_any_history (M ttl : Nat) (evs : List Ev) (κ : Key) (hm : Mono 0 evs)
    (hsp : Spaced ttl (evs.filter (fun e => e.key = κ)))
    (pre : List Ev) (e0 : Ev) (fus : List Ev) (reqs : List Request)
    (hκ : evs.filter (fun e => e.key = κ) = pre ++ e0 :: fus)
    (h0 : e0.isResp = true) (hfr : ∀ e ∈ fus, e.isResp = false) (hreqs : fus.map (·.req) = reqs)
    (resp : Packet) (size : Nat) (rb2 : BlockValue)
    (hr : e0.req.response = some resp) (hno : resp.getOption block2Num = none)
    (hs : resp.options.Sorted) (hk : ∀ kv ∈ resp.options, kv.1 ≤ 65535)
    (hsz : computeMessageSize resp = .ok size)
    (hn : negotiate (finalState M BlockState.default pre).lastBlock2 (size + tokenReserve resp)
            resp.payload.length M = .ok (some rb2))
    (hbv : BvOk rb2) (hz : rb2.num = 0) (hmore : rb2.size < resp.payload.length)
    (hfu : ∀ i (h : i < reqs.length), IsFollowUp M reqs[i] (1 + i) rb2.szx)
    (hne : reqs ≠ [])
    (hlast : (1 + reqs.length - 1) * 2 ^ (rb2.szx + 4) < resp.payload.length)
    (hcover : resp.payload.length ≤ (1 + reqs.length) * 2 ^ (rb2.szx + 4)) :
    let obs := ((runEvs (Handler.new M ttl) evs).filter (fun o => o.1 = κ)).map (·.2)
    let tail := obs.drop pre.length
    tail.length = 1 + fus.length ∧ (∀ o ∈ tail, o.2 = .ok true) ∧
    tail.flatMap (fun o => (o.1.response.map (·.payload)).getD []) = resp.payload := by
  intro obs tail
  let st := finalState M BlockState.default pre
  have hobs : obs = runKey M BlockState.default pre ++
      (((coreResponse M e0.req st).1, (coreResponse M e0.req st).2.2) ::
        runKey M (coreResponse M e0.req st).2.1 fus) := by
    show ((runEvs (Handler.new M ttl) evs).filter (fun o => o.1 = κ)).map (·.2) = _
    rw [transfer_in_any_history M ttl evs κ hm hsp, hκ, runKey_append]
    simp only [runKey, coreEv, h0, ↓reduceIte]
    rfl
  have htail : tail = ((coreResponse M e0.req st).1, (coreResponse M e0.req st).2.2) ::
      runKey M (coreResponse M e0.req st).2.1 fus := by
    show obs.drop pre.length = _
    rw [hobs, List.drop_left' (runKey_length M pre _)]
  obtain ⟨d1, d2, d3, d4, _⟩ := download_from_reply M e0.req st resp size rb2 hr hno hs hk hsz hn hbv hz hmore
    reqs hfu hne hlast hcover
  have hrk : runKey M (coreResponse M e0.req st).2.1 fus =
      (runCore M (coreResponse M e0.req st).2.1 (reqs.map (fun r => (0, r)))).2 := by
    rw [runKey_requests M fus _ hfr, ← hreqs, List.map_map]
    rfl
  have hfa := (fetchAll_eq_runCore M reqs (coreResponse M e0.req st).2.1).1
  rw [htail]
  refine ⟨by simp [runKey_length]; omega, ?_, ?_⟩
  · intro o ho
    simp only [List.mem_cons] at ho
    rcases ho with rfl | ho
    · exact d1
    · rw [hrk] at ho
      have := d4 (((o.1.response.map (·.payload)).getD [], o.2)) (by
        rw [hfa]; exact List.mem_map.2 ⟨o, ho, rfl⟩)
      exact this
  · simp only [List.flatMap_cons]
    rw [hrk]
    have e1 : ((coreResponse M e0.req st).1.response.map (·.payload)).getD [] = resp.payload.take rb2.size := by
      rw [d2]; rfl
    rw [e1]
    rw [hfa, List.flatMap_map] at d3
    exact d3

end CoapLite.Block
