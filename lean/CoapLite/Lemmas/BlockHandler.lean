/-
Handler-level lemmas about Model/Block.lean: frame / determinism on the
effective cached state, reply correlation, totality and error shape, buffer
bounds, what a served block / an upload step looks like.
Used by Props/C08, C09, C11, C12, C20.
-/
import CoapLite.Model.Block
import CoapLite.Lemmas.LruLemmas
import CoapLite.Lemmas.BlockArith
import CoapLite.Lemmas.CodecFwd
import CoapLite.Lemmas.OptMapExtra

namespace CoapLite.Block

/-- the state the handler works on for key `k` at time `now`: the live cached
state, or the default when there is none or it has expired -/
def effective (h : Handler) (k : Key) (now : Nat) : BlockState :=
  (Lru.peek h.cache k now).getD BlockState.default

/-! ### entry points = core on the effective state (C12, C20) -/

theorem interceptRequest_eq (h : Handler) (now : Nat) (req : Request) (hi : Lru.Inv h.cache now) :
    let out := interceptRequest h now req
    let core := coreRequest h.maxSize req (effective h (keyOf req) now)
    out.2.1 = core.1 ∧ out.2.2 = core.2.2 ∧
    out.1.maxSize = h.maxSize ∧ out.1.cache.ttl = h.cache.ttl ∧ Lru.Inv out.1.cache now ∧
    (∀ now', now ≤ now' → Lru.peek out.1.cache (keyOf req) now' =
        if now' ≤ now + h.cache.ttl then some core.2.1 else none) ∧
    (∀ k' now', k' ≠ keyOf req → now ≤ now' → Lru.peek out.1.cache k' now' = Lru.peek h.cache k' now') ∧
    (∀ e ∈ out.1.cache.entries, now ≤ e.2.2 + h.cache.ttl) := by
  sorry

theorem interceptResponse_eq (h : Handler) (now : Nat) (req : Request) (hi : Lru.Inv h.cache now) :
    let out := interceptResponse h now req
    let core := coreResponse h.maxSize req (effective h (keyOf req) now)
    out.2.1 = core.1 ∧ out.2.2 = core.2.2 ∧
    out.1.maxSize = h.maxSize ∧ out.1.cache.ttl = h.cache.ttl ∧ Lru.Inv out.1.cache now ∧
    (∀ now', now ≤ now' → Lru.peek out.1.cache (keyOf req) now' =
        if now' ≤ now + h.cache.ttl then some core.2.1 else none) ∧
    (∀ k' now', k' ≠ keyOf req → now ≤ now' → Lru.peek out.1.cache k' now' = Lru.peek h.cache k' now') ∧
    (∀ e ∈ out.1.cache.entries, now ≤ e.2.2 + h.cache.ttl) := by
  sorry

/-! ### replies belong to the current request (C12) -/

/-- message id and token of a reply -/
def corr (p : Packet) : Nat × Bytes := (p.header.mid, p.token)

theorem coreRequest_corr (M : Nat) (req : Request) (st : BlockState) :
    let out := coreRequest M req st
    out.1.response.map corr = req.response.map corr ∧
    out.1.source = req.source ∧ out.1.message.header = req.message.header ∧
    out.1.message.token = req.message.token ∧ out.1.message.options = req.message.options := by
  sorry

theorem coreResponse_corr (M : Nat) (req : Request) (st : BlockState) :
    let out := coreResponse M req st
    out.1.response.map corr = req.response.map corr ∧ out.1.message = req.message ∧
    out.1.source = req.source := by
  sorry

/-! ### hostile traffic (C11) -/

theorem coreRequest_never_panics (M : Nat) (req : Request) (st : BlockState) :
    (coreRequest M req st).2.2 ≠ .panic := by
  sorry

theorem coreResponse_never_panics (M : Nat) (req : Request) (st : BlockState) :
    (coreResponse M req st).2.2 ≠ .panic := by
  sorry

/-- every handling error can be rendered: a code-less error (`not_handled`)
arises only when there is no prepared reply to render into; every coded error
is 4.00 or 5.00 -/
theorem coreRequest_err (M : Nat) (req : Request) (st : BlockState) (c : Option ResponseType)
    (h : (coreRequest M req st).2.2 = .herr c) :
    (c = none → req.response = none) ∧
    (∀ rt, c = some rt → rt = .InternalServerError ∨ rt = .BadRequest) := by
  sorry

theorem coreResponse_err (M : Nat) (req : Request) (st : BlockState) (c : Option ResponseType)
    (h : (coreResponse M req st).2.2 = .herr c) :
    (c = none → req.response = none) ∧
    (∀ rt, c = some rt → rt = .InternalServerError ∨ rt = .BadRequest) := by
  sorry

/-- no single request makes the buffered upload grow by more than the 16 KiB
reserve beyond the request's own payload -/
theorem coreRequest_buffer_growth (M : Nat) (req : Request) (st : BlockState) :
    ((coreRequest M req st).2.1.cachedPayload.getD []).length ≤
      (st.cachedPayload.getD []).length + Consts.maxUncommittedReserve + req.message.payload.length := by
  sorry

/-- a block whose end lies more than the reserve beyond the buffered data is
rejected with an error and leaves the buffered data unchanged -/
theorem coreRequest_oversize_jump (M : Nat) (req : Request) (st : BlockState) (rb1 resp1 : BlockValue)
    (size : Nat)
    (hb : firstBlock req.message block1Num = some rb1)
    (hsz : computeMessageSize req.message = .ok size)
    (hn : negotiate (some rb1) size req.message.payload.length M = .ok (some resp1))
    (hjump : rb1.num * rb1.size + rb1.size - (st.cachedPayload.getD []).length > Consts.maxUncommittedReserve) :
    (coreRequest M req st).2.2 = .herr (some .InternalServerError) ∧
    (coreRequest M req st).2.1.cachedPayload.getD [] = st.cachedPayload.getD [] := by
  sorry

/-- the response does not change its response-present status -/
theorem core_response_isSome (M : Nat) (req : Request) (st : BlockState) :
    (coreRequest M req st).1.response.isSome = req.response.isSome ∧
    (coreResponse M req st).1.response.isSome = req.response.isSome := by
  sorry

/-! ### a block served from the cache (C08) -/

/-- what `serveCached` puts into the reply: the chunk, the Block2 echo with the
`more` flag, the cached reply's code and options, and the *request's* message id
and token -/
theorem serveCached_spec (req : Request) (resp : Packet) (rb2 : BlockValue) (cached : Packet)
    (chunk : Bytes) (more : Bool)
    (hr : req.response = some resp) (hb : BvOk rb2)
    (hs : resp.options.Sorted) (hcs : cached.options.Sorted)
    (hck : ∀ kv ∈ cached.options, kv.1 ≤ 65535)
    (hc : chunkAt cached.payload rb2.size rb2.num = some (chunk, more)) :
    ∃ resp' bs, serveCached req rb2 cached = ({ req with response := some resp' }, .ok more) ∧
      ({ rb2 with more := more } : BlockValue).enc = .ok bs ∧
      resp'.payload = chunk ∧ corr resp' = corr resp ∧
      resp'.header.code = cached.header.code ∧
      resp'.getOption block2Num = some [bs] ∧
      (∀ n, n ≠ block2Num → (cached.getOption n).isSome → resp'.getOption n = cached.getOption n) ∧
      (∀ n, n ≠ block2Num → cached.getOption n = none → resp'.getOption n = resp.getOption n) := by
  sorry

theorem serveCached_out_of_range (req : Request) (resp : Packet) (rb2 : BlockValue) (cached : Packet)
    (hr : req.response = some resp)
    (hc : chunkAt cached.payload rb2.size rb2.num = none) :
    (serveCached req rb2 cached).2 = .herr (some .BadRequest) := by
  sorry

/-- follow-up block request while a response is cached: served from the cache
(the application is not consulted: result `ok true`), entry released iff this
was the final block -/
theorem handleBlock2_cached (req : Request) (st : BlockState) (b2 : BlockValue) (cached : Packet)
    (hb : firstBlock req.message block2Num = some b2) (hc : st.cachedResponse = some cached) :
    handleBlock2 req st =
      match serveCached req b2 cached with
      | (req', .ok more) =>
        (req', { st with lastBlock2 := some b2, cachedResponse := if more then some cached else none }, .ok true)
      | (req', r) => (req', { st with lastBlock2 := some b2 }, r) := by
  sorry

/-- without a cached response (none yet, released, or expired) or without a
Block2 option the request goes to the application -/
theorem handleBlock2_pass (req : Request) (st : BlockState)
    (h : firstBlock req.message block2Num = none ∨ st.cachedResponse = none) :
    handleBlock2 req st = (req, { st with lastBlock2 := firstBlock req.message block2Num }, .ok false) := by
  sorry

/-- first block of a fragmented response: the application's reply is cached iff
more blocks follow -/
theorem coreResponse_fragment (M : Nat) (req : Request) (st : BlockState) (resp : Packet) (size : Nat)
    (rb2 : BlockValue)
    (hr : req.response = some resp) (hno : resp.getOption block2Num = none)
    (hsz : computeMessageSize resp = .ok size)
    (hn : negotiate st.lastBlock2 size resp.payload.length M = .ok (some rb2)) :
    coreResponse M req st =
      match serveCached req rb2 resp with
      | (req', .ok true) => (req', { st with cachedResponse := some resp }, .ok true)
      | (req', r) => (req', st, r) := by
  sorry

theorem coreResponse_unfragmented (M : Nat) (req : Request) (st : BlockState) (resp : Packet) (size : Nat)
    (hr : req.response = some resp) (hno : resp.getOption block2Num = none)
    (hsz : computeMessageSize resp = .ok size)
    (hn : negotiate st.lastBlock2 size resp.payload.length M = .ok none) :
    coreResponse M req st = (req, st, .ok false) := by
  sorry

/-! ### an upload step (C09) -/

theorem handleBlock1_step (req : Request) (M : Nat) (st : BlockState) (rb1 resp1 : BlockValue)
    (size : Nat) (resp : Packet) (buf' : Bytes)
    (hb : firstBlock req.message block1Num = some rb1)
    (hsz : computeMessageSize req.message = .ok size)
    (hn : negotiate (some rb1) size req.message.payload.length M = .ok (some resp1))
    (hr : req.response = some resp) (hok : BvOk resp1)
    (hsp : extendingSplice (if rb1.num = 0 then [] else st.cachedPayload.getD [])
             (rb1.num * rb1.size) (rb1.num * rb1.size + rb1.size) req.message.payload
             Consts.maxUncommittedReserve = some buf') :
    ∃ bs resp', resp1.enc = .ok bs ∧ resp' = resp.addOption block1Num bs ∧
      handleBlock1 req M st =
        if rb1.more then
          ({ req with response := some (setCode resp' .Continue) },
           { st with cachedPayload := some buf' }, .ok true)
        else
          ({ req with message := { req.message with payload := buf' }, response := some resp' },
           { st with cachedPayload := none }, .ok false) := by
  sorry

/-- a request too large for the budget that carries no Block1 option is answered
4.13 with a Block1 size hint instead of being processed -/
theorem handleBlock1_too_large (req : Request) (M : Nat) (st : BlockState) (resp1 : BlockValue)
    (size : Nat) (resp : Packet)
    (hb : firstBlock req.message block1Num = none)
    (hsz : computeMessageSize req.message = .ok size)
    (hn : negotiate none size req.message.payload.length M = .ok (some resp1))
    (hr : req.response = some resp) (hok : BvOk resp1) :
    ∃ bs, resp1.enc = .ok bs ∧
      handleBlock1 req M st =
        ({ req with response := some (setCode (resp.addOption block1Num bs) .RequestEntityTooLarge) }, st, .ok true) := by
  sorry

theorem handleBlock1_pass (req : Request) (M : Nat) (st : BlockState) (size : Nat)
    (hb : firstBlock req.message block1Num = none)
    (hsz : computeMessageSize req.message = .ok size)
    (hn : negotiate none size req.message.payload.length M = .ok none) :
    handleBlock1 req M st = (req, st, .ok false) := by
  sorry

/-! ### keys (C12) -/

theorem keyOf_eq_iff (r₁ r₂ : Request) :
    keyOf r₁ = keyOf r₂ ↔
      (MessageClass.toU8 (.Request r₁.getMethod) = MessageClass.toU8 (.Request r₂.getMethod) ∧
       (match r₁.getPathAsVec with | .ok l => l | _ => []) =
         (match r₂.getPathAsVec with | .ok l => l | _ => []) ∧
       r₁.source = r₂.source) := by
  sorry

end CoapLite.Block
