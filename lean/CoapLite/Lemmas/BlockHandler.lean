/-
Handler-level lemmas about Model/Block.lean: frame / determinism on the
effective cached state, reply correlation, totality and error shape, buffer
bounds, what a served block / an upload step looks like.
Used by Props/C08, C09, C11, C12, C20.
-/
import CoapLite.Model.Block
import CoapLite.Lemmas.LruLemmas
import CoapLite.Lemmas.BlockArith
import CoapLite.Lemmas.CodecFwd
import CoapLite.Lemmas.OptMapExtra
import CoapLite.Lemmas.BlockHandlerBasic

namespace CoapLite.Block

/-- the state the handler works on for key `k` at time `now`: the live cached
state, or the default when there is none or it has expired -/
def effective (h : Handler) (k : Key) (now : Nat) : BlockState :=
  (Lru.peek h.cache k now).getD BlockState.default

/-! ### entry points = core on the effective state (C12, C20) -/

/-- both entry points: look up / create the state, run a core `f`, write back -/
theorem intercept_generic (f : Request → BlockState → Request × BlockState × HRes Bool)
    (h : Handler) (now : Nat) (req : Request) (hi : Lru.Inv h.cache now) :
    let e := Lru.entryOrInsert h.cache (keyOf req) BlockState.default now
    let core := f req (effective h (keyOf req) now)
    let out : Handler × Request × HRes Bool :=
      ({ h with cache := Lru.store e.1 (keyOf req) (f req e.2).2.1 }, (f req e.2).1, (f req e.2).2.2)
    out.2.1 = core.1 ∧ out.2.2 = core.2.2 ∧
    out.1.maxSize = h.maxSize ∧ out.1.cache.ttl = h.cache.ttl ∧ Lru.Inv out.1.cache now ∧
    (∀ now', now ≤ now' → Lru.peek out.1.cache (keyOf req) now' =
        if now' ≤ now + h.cache.ttl then some core.2.1 else none) ∧
    (∀ k' now', k' ≠ keyOf req → now ≤ now' → Lru.peek out.1.cache k' now' = Lru.peek h.cache k' now') ∧
    (∀ e ∈ out.1.cache.entries, now ≤ e.2.2 + h.cache.ttl) := by
  intro e core out
  have hv : e.2 = effective h (keyOf req) now :=
    Lru.entry_value h.cache (keyOf req) BlockState.default now hi
  have he := Lru.entry_inv h.cache (keyOf req) BlockState.default now hi
  have hs := Lru.store_inv e.1 (keyOf req) (f req e.2).2.1 now he.1
  refine ⟨?_, ?_, rfl, ?_, hs.1, ?_, ?_, ?_⟩
  · show (f req e.2).1 = _
    rw [hv]
  · show (f req e.2).2.2 = _
    rw [hv]
  · show (Lru.store e.1 (keyOf req) (f req e.2).2.1).ttl = _
    rw [hs.2, he.2]
  · intro now' hle
    show Lru.peek (Lru.store e.1 (keyOf req) (f req e.2).2.1) (keyOf req) now' = _
    rw [Lru.peek_after_store_self h.cache (keyOf req) BlockState.default _ now now' hi hle, hv]
  · intro k' now' hne hle
    exact Lru.peek_after_store_other h.cache (keyOf req) k' BlockState.default _ now now' hi hne hle
  · exact Lru.reclaimed h.cache (keyOf req) BlockState.default _ now hi

theorem interceptRequest_eq (h : Handler) (now : Nat) (req : Request) (hi : Lru.Inv h.cache now) :
    let out := interceptRequest h now req
    let core := coreRequest h.maxSize req (effective h (keyOf req) now)
    out.2.1 = core.1 ∧ out.2.2 = core.2.2 ∧
    out.1.maxSize = h.maxSize ∧ out.1.cache.ttl = h.cache.ttl ∧ Lru.Inv out.1.cache now ∧
    (∀ now', now ≤ now' → Lru.peek out.1.cache (keyOf req) now' =
        if now' ≤ now + h.cache.ttl then some core.2.1 else none) ∧
    (∀ k' now', k' ≠ keyOf req → now ≤ now' → Lru.peek out.1.cache k' now' = Lru.peek h.cache k' now') ∧
    (∀ e ∈ out.1.cache.entries, now ≤ e.2.2 + h.cache.ttl) := by
  exact intercept_generic (coreRequest h.maxSize) h now req hi

theorem interceptResponse_eq (h : Handler) (now : Nat) (req : Request) (hi : Lru.Inv h.cache now) :
    let out := interceptResponse h now req
    let core := coreResponse h.maxSize req (effective h (keyOf req) now)
    out.2.1 = core.1 ∧ out.2.2 = core.2.2 ∧
    out.1.maxSize = h.maxSize ∧ out.1.cache.ttl = h.cache.ttl ∧ Lru.Inv out.1.cache now ∧
    (∀ now', now ≤ now' → Lru.peek out.1.cache (keyOf req) now' =
        if now' ≤ now + h.cache.ttl then some core.2.1 else none) ∧
    (∀ k' now', k' ≠ keyOf req → now ≤ now' → Lru.peek out.1.cache k' now' = Lru.peek h.cache k' now') ∧
    (∀ e ∈ out.1.cache.entries, now ≤ e.2.2 + h.cache.ttl) := by
  exact intercept_generic (coreResponse h.maxSize) h now req hi

/-! ### replies belong to the current request (C12) -/

/-- message id and token of a reply -/
def corr (p : Packet) : Nat × Bytes := (p.header.mid, p.token)

/-! ### helper lemmas: the three stages one by one -/

theorem addBlockOption_eq {b : BlockValue} (h : BvOk b) (p : Packet) (n : Nat) :
    addBlockOption p n b = .ok (p.addOption n (Spec.minimalBE b.scalar)) := by
  have := C13.enc_minimal b (by have := h.1; omega)
  simp only [addBlockOption, this, BlockValue.scalar]

theorem splice_bound {buf pl buf' : Bytes} {off sz R : Nat}
    (h : extendingSplice buf off (off + sz) pl R = some buf') :
    buf'.length ≤ buf.length + R + pl.length :=
  (splice_grow_bound buf off (off + sz) pl R buf' (by omega) h).1

theorem map_corr_isSome {a b : Option Packet} (h : a.map corr = b.map corr) : a.isSome = b.isSome := by
  cases a <;> cases b <;> simp_all

/-! `serveCached` -/

theorem serveCached_frame (req : Request) (rb2 : BlockValue) (cached : Packet) :
    (serveCached req rb2 cached).1.message = req.message ∧
    (serveCached req rb2 cached).1.source = req.source ∧
    (serveCached req rb2 cached).1.response.map corr = req.response.map corr := by
  unfold serveCached
  cases hr : req.response with
  | none => simp [hr]
  | some resp =>
    obtain ⟨r, hp⟩ := packetCloneLimited_total resp cached
    obtain ⟨h1, h2, -⟩ := packetCloneLimited_spec hp
    simp only [hp]
    repeat' split
    all_goals simp_all [corr, Packet.setOption]

theorem serveCached_ne_panic (req : Request) (rb2 : BlockValue) (cached : Packet) (hb : rb2.num ≤ 65535) :
    (serveCached req rb2 cached).2 ≠ .panic := by
  unfold serveCached
  cases hr : req.response with
  | none => simp [notHandled]
  | some resp =>
    obtain ⟨r, hp⟩ := packetCloneLimited_total resp cached
    simp only [hp]
    split
    · simp [badRequest]
    · rename_i chunk more _
      obtain ⟨bs, hbs⟩ := enc_ok_of_num (b := { rb2 with more := more }) hb
      simp [hbs]

theorem serveCached_err (req : Request) (rb2 : BlockValue) (cached : Packet) (c : Option ResponseType)
    (h : (serveCached req rb2 cached).2 = .herr c) :
    (c = none → req.response = none) ∧
    (∀ rt, c = some rt → rt = .InternalServerError ∨ rt = .BadRequest) := by
  unfold serveCached at h
  cases hr : req.response with
  | none =>
    simp only [hr, notHandled, HRes.herr.injEq] at h
    subst h; simp
  | some resp =>
    obtain ⟨r, hp⟩ := packetCloneLimited_total resp cached
    simp only [hr, hp] at h
    repeat' split at h
    all_goals simp_all [badRequest, internal]
    all_goals (subst h; simp)

/-! `handleBlock1` -/

theorem handleBlock1_frame (req : Request) (M : Nat) (st : BlockState) :
    (handleBlock1 req M st).1.response.map corr = req.response.map corr ∧
    (handleBlock1 req M st).1.source = req.source ∧
    (handleBlock1 req M st).1.message.header = req.message.header ∧
    (handleBlock1 req M st).1.message.token = req.message.token ∧
    (handleBlock1 req M st).1.message.options = req.message.options ∧
    (handleBlock1 req M st).2.1.lastBlock2 = st.lastBlock2 ∧
    (handleBlock1 req M st).2.1.cachedResponse = st.cachedResponse := by
  unfold handleBlock1
  simp only
  cases hsz : computeMessageSize req.message with
  | panic => simp
  | herr c => simp
  | ok size =>
    simp only
    cases hn : negotiate (firstBlock req.message block1Num) size req.message.payload.length M with
    | panic => simp
    | herr c => simp
    | ok r =>
      cases r with
      | none => simp only; split <;> simp_all
      | some resp1 =>
        have hok := addBlockOption_eq (negotiate_ok_bv hn)
        simp only
        repeat' split
        all_goals simp_all [corr, setCode, Packet.addOption]
        all_goals (subst_vars; simp)

theorem handleBlock1_ne_panic (req : Request) (M : Nat) (st : BlockState) :
    (handleBlock1 req M st).2.2 ≠ .panic := by
  unfold handleBlock1
  simp only
  cases hsz : computeMessageSize req.message with
  | panic => exact absurd hsz (computeMessageSize_ne_panic _)
  | herr c => simp
  | ok size =>
    simp only
    cases hn : negotiate (firstBlock req.message block1Num) size req.message.payload.length M with
    | panic => exact absurd hn (negotiate_never_panics _ _ _ _)
    | herr c => simp
    | ok r =>
      cases r with
      | none => simp only; split <;> simp_all
      | some resp1 =>
        have hok := addBlockOption_eq (negotiate_ok_bv hn)
        simp only
        repeat' split
        all_goals simp_all [internal, notHandled]

theorem handleBlock1_err (req : Request) (M : Nat) (st : BlockState) (c : Option ResponseType)
    (h : (handleBlock1 req M st).2.2 = .herr c) :
    (c = none → req.response = none) ∧
    (∀ rt, c = some rt → rt = .InternalServerError ∨ rt = .BadRequest) := by
  unfold handleBlock1 at h
  simp only at h
  cases hsz : computeMessageSize req.message with
  | panic => simp [hsz] at h
  | herr c' =>
    simp only [hsz, HRes.herr.injEq] at h
    subst h
    simp [computeMessageSize_err hsz]
  | ok size =>
    simp only [hsz] at h
    cases hn : negotiate (firstBlock req.message block1Num) size req.message.payload.length M with
    | panic => simp [hn] at h
    | herr c' =>
      simp only [hn, HRes.herr.injEq] at h
      subst h
      simp [negotiate_err _ _ _ _ _ hn]
    | ok r =>
      simp only [hn] at h
      cases r with
      | none => split at h <;> simp_all
      | some resp1 =>
        have hok := addBlockOption_eq (negotiate_ok_bv hn)
        repeat' split at h
        all_goals simp_all [internal, notHandled]
        all_goals (subst h; simp)

theorem handleBlock1_buffer (req : Request) (M : Nat) (st : BlockState) :
    ((handleBlock1 req M st).2.1.cachedPayload.getD []).length ≤
      (st.cachedPayload.getD []).length + Consts.maxUncommittedReserve + req.message.payload.length := by
  unfold handleBlock1
  simp only
  cases hsz : computeMessageSize req.message with
  | panic => simp only; omega
  | herr c => simp only; omega
  | ok size =>
    simp only
    cases hn : negotiate (firstBlock req.message block1Num) size req.message.payload.length M with
    | panic => simp only; omega
    | herr c => simp only; omega
    | ok r =>
      cases r with
      | none => simp only; split <;> first | (simp only; omega) | simp_all
      | some resp1 =>
        simp only
        repeat' split
        all_goals (try (have hsb := splice_bound ‹extendingSplice _ _ _ _ _ = some _›))
        all_goals simp_all
        all_goals omega

/-! `handleBlock2` -/

theorem handleBlock2_frame (req : Request) (st : BlockState) :
    (handleBlock2 req st).1.message = req.message ∧
    (handleBlock2 req st).1.source = req.source ∧
    (handleBlock2 req st).1.response.map corr = req.response.map corr ∧
    (handleBlock2 req st).2.1.cachedPayload = st.cachedPayload := by
  unfold handleBlock2
  simp only
  split
  · rename_i b2 cached _ _
    split
    · rename_i b2' _
      have hf := serveCached_frame req b2' cached
      rcases hsc : serveCached req b2' cached with ⟨req', r⟩
      rw [hsc] at hf
      cases r with
      | ok more => cases more <;> simpa using hf
      | herr c => simpa using hf
      | panic => simpa using hf
    · simp
    · simp
  · simp

theorem handleBlock2_ne_panic (req : Request) (st : BlockState) :
    (handleBlock2 req st).2.2 ≠ .panic := by
  unfold handleBlock2
  simp only
  split
  · rename_i b2 cached hb _
    split
    · rename_i b2' hc
      have hf := serveCached_ne_panic req b2' cached (clampBlock_ok_bv (firstBlock_ok hb) hc).1
      rcases hsc : serveCached req b2' cached with ⟨req', r⟩
      rw [hsc] at hf
      cases r with
      | ok more => simp
      | herr c => simp
      | panic => simp at hf
    · simp
    · rename_i hc
      exact absurd hc (clampBlock_ne_panic _ _)
  · simp

theorem handleBlock2_err (req : Request) (st : BlockState) (c : Option ResponseType)
    (h : (handleBlock2 req st).2.2 = .herr c) :
    (c = none → req.response = none) ∧
    (∀ rt, c = some rt → rt = .InternalServerError ∨ rt = .BadRequest) := by
  unfold handleBlock2 at h
  simp only at h
  split at h
  · rename_i b2 cached hb _
    split at h
    · rename_i b2' _
      have hf := serveCached_err req b2' cached c
      rcases hsc : serveCached req b2' cached with ⟨req', r⟩
      rw [hsc] at hf h
      cases r with
      | ok more => simp at h
      | herr c' => exact hf (by simpa using h)
      | panic => simp at h
    · rename_i c' hc
      have := clampBlock_err hc
      simp only [HRes.herr.injEq] at h
      subst h
      subst this
      simp
    · simp at h
  · simp at h

/-! the two cores as compositions of the stages -/

theorem coreRequest_cases (M : Nat) (req : Request) (st : BlockState) :
    (coreRequest M req st = handleBlock1 req M st ∧ (handleBlock1 req M st).2.2 ≠ .ok false) ∨
    ((handleBlock1 req M st).2.2 = .ok false ∧
      coreRequest M req st = handleBlock2 (handleBlock1 req M st).1 (handleBlock1 req M st).2.1) := by
  unfold coreRequest
  rcases h : handleBlock1 req M st with ⟨r1, s1, res⟩
  cases res with
  | ok b => cases b <;> simp
  | herr c => simp
  | panic => simp

theorem coreResponse_cases (M : Nat) (req : Request) (st : BlockState) :
    coreResponse M req st = (req, st, .ok false) ∨
    coreResponse M req st = (req, st, internal) ∨
    ∃ resp rb2, req.response = some resp ∧ BvOk rb2 ∧
      (coreResponse M req st).1 = (serveCached req rb2 resp).1 ∧
      (coreResponse M req st).2.2 = (serveCached req rb2 resp).2 ∧
      (coreResponse M req st).2.1.cachedPayload = st.cachedPayload := by
  unfold coreResponse
  cases hr : req.response with
  | none => simp
  | some resp =>
    simp only
    split
    · simp
    · cases hsz : computeMessageSize resp with
      | panic => exact absurd hsz (computeMessageSize_ne_panic _)
      | herr c => simp [computeMessageSize_err hsz, internal]
      | ok size =>
        simp only
        cases hn : negotiate st.lastBlock2 (size + tokenReserve resp) resp.payload.length M with
        | panic => exact absurd hn (negotiate_never_panics _ _ _ _)
        | herr c => simp [negotiate_err _ _ _ _ _ hn, internal]
        | ok r =>
          cases r with
          | none => simp
          | some rb2 =>
            right; right
            refine ⟨resp, rb2, rfl, negotiate_ok_bv hn, ?_⟩
            simp only
            rcases hsc : serveCached req rb2 resp with ⟨req', r⟩
            cases r with
            | ok more => cases more <;> simp
            | herr c => simp
            | panic => simp

theorem coreRequest_corr (M : Nat) (req : Request) (st : BlockState) :
    let out := coreRequest M req st
    out.1.response.map corr = req.response.map corr ∧
    out.1.source = req.source ∧ out.1.message.header = req.message.header ∧
    out.1.message.token = req.message.token ∧ out.1.message.options = req.message.options := by
  intro out
  have h1 := handleBlock1_frame req M st
  rcases coreRequest_cases M req st with ⟨h, _⟩ | ⟨_, h⟩
  · show (coreRequest M req st).1.response.map corr = _ ∧ (coreRequest M req st).1.source = _ ∧
      (coreRequest M req st).1.message.header = _ ∧ (coreRequest M req st).1.message.token = _ ∧
      (coreRequest M req st).1.message.options = _
    rw [h]
    exact ⟨h1.1, h1.2.1, h1.2.2.1, h1.2.2.2.1, h1.2.2.2.2.1⟩
  · have h2 := handleBlock2_frame (handleBlock1 req M st).1 (handleBlock1 req M st).2.1
    show (coreRequest M req st).1.response.map corr = _ ∧ (coreRequest M req st).1.source = _ ∧
      (coreRequest M req st).1.message.header = _ ∧ (coreRequest M req st).1.message.token = _ ∧
      (coreRequest M req st).1.message.options = _
    rw [h, h2.1, h2.2.1, h2.2.2.1]
    exact ⟨h1.1, h1.2.1, h1.2.2.1, h1.2.2.2.1, h1.2.2.2.2.1⟩

theorem coreResponse_corr (M : Nat) (req : Request) (st : BlockState) :
    let out := coreResponse M req st
    out.1.response.map corr = req.response.map corr ∧ out.1.message = req.message ∧
    out.1.source = req.source := by
  intro out
  show (coreResponse M req st).1.response.map corr = _ ∧ (coreResponse M req st).1.message = _ ∧
    (coreResponse M req st).1.source = _
  rcases coreResponse_cases M req st with h | h | ⟨resp, rb2, _, _, h, _, _⟩
  · rw [h]; exact ⟨rfl, rfl, rfl⟩
  · rw [h]; exact ⟨rfl, rfl, rfl⟩
  · rw [h]
    have hf := serveCached_frame req rb2 resp
    exact ⟨hf.2.2, hf.1, hf.2.1⟩

/-! ### hostile traffic (C11) -/

theorem coreRequest_never_panics (M : Nat) (req : Request) (st : BlockState) :
    (coreRequest M req st).2.2 ≠ .panic := by
  rcases coreRequest_cases M req st with ⟨h, _⟩ | ⟨_, h⟩
  · rw [h]; exact handleBlock1_ne_panic req M st
  · rw [h]; exact handleBlock2_ne_panic _ _

theorem coreResponse_never_panics (M : Nat) (req : Request) (st : BlockState) :
    (coreResponse M req st).2.2 ≠ .panic := by
  rcases coreResponse_cases M req st with h | h | ⟨resp, rb2, _, hb, _, h, _⟩
  · rw [h]; simp
  · rw [h]; simp [internal]
  · rw [h]; exact serveCached_ne_panic req rb2 resp hb.1

/-- every handling error can be rendered: a code-less error (`not_handled`)
arises only when there is no prepared reply to render into; every coded error
is 4.00 or 5.00 -/
theorem coreRequest_err (M : Nat) (req : Request) (st : BlockState) (c : Option ResponseType)
    (h : (coreRequest M req st).2.2 = .herr c) :
    (c = none → req.response = none) ∧
    (∀ rt, c = some rt → rt = .InternalServerError ∨ rt = .BadRequest) := by
  rcases coreRequest_cases M req st with ⟨h', _⟩ | ⟨_, h'⟩
  · rw [h'] at h; exact handleBlock1_err req M st c h
  · rw [h'] at h
    have h2 := handleBlock2_err _ _ c h
    refine ⟨fun hc => ?_, h2.2⟩
    have h3 := h2.1 hc
    have h4 := map_corr_isSome (handleBlock1_frame req M st).1
    rw [h3] at h4
    cases hr : req.response with
    | none => rfl
    | some r => rw [hr] at h4; simp at h4

theorem coreResponse_err (M : Nat) (req : Request) (st : BlockState) (c : Option ResponseType)
    (h : (coreResponse M req st).2.2 = .herr c) :
    (c = none → req.response = none) ∧
    (∀ rt, c = some rt → rt = .InternalServerError ∨ rt = .BadRequest) := by
  rcases coreResponse_cases M req st with h' | h' | ⟨resp, rb2, hr, _, _, h', _⟩
  · rw [h'] at h; simp at h
  · rw [h'] at h
    simp only [internal, HRes.herr.injEq] at h
    subst h; simp
  · rw [h'] at h
    have h2 := serveCached_err req rb2 resp c h
    refine ⟨fun hc => ?_, h2.2⟩
    have := h2.1 hc
    rw [hr] at this; simp at this

/-- no single request makes the buffered upload grow by more than the 16 KiB
reserve beyond the request's own payload -/
theorem coreRequest_buffer_growth (M : Nat) (req : Request) (st : BlockState) :
    ((coreRequest M req st).2.1.cachedPayload.getD []).length ≤
      (st.cachedPayload.getD []).length + Consts.maxUncommittedReserve + req.message.payload.length := by
  rcases coreRequest_cases M req st with ⟨h, _⟩ | ⟨_, h⟩
  · rw [h]; exact handleBlock1_buffer req M st
  · rw [h, (handleBlock2_frame _ _).2.2.2]; exact handleBlock1_buffer req M st

/-- a block whose end lies more than the reserve beyond the buffered data is
rejected with an error and leaves the buffered data unchanged -/
theorem coreRequest_oversize_jump (M : Nat) (req : Request) (st : BlockState) (rb1 resp1 : BlockValue)
    (size : Nat)
    (hb : firstBlock req.message block1Num = some rb1)
    (hsz : computeMessageSize req.message = .ok size)
    (hn : negotiate (some rb1) size req.message.payload.length M = .ok (some resp1))
    (hjump : rb1.num * rb1.size + rb1.size - (st.cachedPayload.getD []).length > Consts.maxUncommittedReserve) :
    (coreRequest M req st).2.2 = .herr (some .InternalServerError) ∧
    (coreRequest M req st).2.1.cachedPayload.getD [] = st.cachedPayload.getD [] := by
  have hbv := firstBlock_ok hb
  have hok := addBlockOption_eq (negotiate_ok_bv hn)
  have hsize : rb1.size ≤ 2048 := by
    unfold BlockValue.size
    have : 2 ^ (rb1.szx + 4) ≤ 2 ^ 11 := Nat.pow_le_pow_right (by omega) (by have := hbv.2; omega)
    simpa using this
  have hnum : ¬ rb1.num = 0 := by
    intro h0
    rw [h0] at hjump
    simp only [Consts.maxUncommittedReserve] at hjump
    omega
  have hrej := splice_reject (st.cachedPayload.getD []) (rb1.num * rb1.size)
    (rb1.num * rb1.size + rb1.size) req.message.payload _ hjump
  have h1 : handleBlock1 req M st =
      (req, { st with cachedPayload := some (st.cachedPayload.getD []) }, internal) := by
    simp only [handleBlock1, hb, hsz, hn, hnum, ↓reduceIte, hrej]
  simp only [coreRequest, h1]
  exact ⟨rfl, rfl⟩

/-- the response does not change its response-present status -/
theorem core_response_isSome (M : Nat) (req : Request) (st : BlockState) :
    (coreRequest M req st).1.response.isSome = req.response.isSome ∧
    (coreResponse M req st).1.response.isSome = req.response.isSome := by
  exact ⟨map_corr_isSome (coreRequest_corr M req st).1, map_corr_isSome (coreResponse_corr M req st).1⟩

/-! ### a block served from the cache (C08) -/

/-- what `serveCached` puts into the reply: the chunk, the Block2 echo with the
`more` flag, the cached reply's code and options, and the *request's* message id
and token -/
theorem serveCached_spec (req : Request) (resp : Packet) (rb2 : BlockValue) (cached : Packet)
    (chunk : Bytes) (more : Bool)
    (hr : req.response = some resp) (hb : BvOk rb2)
    (hs : resp.options.Sorted) (hcs : cached.options.Sorted)
    (hck : ∀ kv ∈ cached.options, kv.1 ≤ 65535)
    (hc : chunkAt cached.payload rb2.size rb2.num = some (chunk, more)) :
    ∃ resp' bs, serveCached req rb2 cached = ({ req with response := some resp' }, .ok more) ∧
      ({ rb2 with more := more } : BlockValue).enc = .ok bs ∧
      resp'.payload = chunk ∧ corr resp' = corr resp ∧
      resp'.header.code = cached.header.code ∧
      resp'.getOption block2Num = some [bs] ∧
      (∀ n, n ≠ block2Num → (cached.getOption n).isSome → resp'.getOption n = cached.getOption n) ∧
      (∀ n, n ≠ block2Num → cached.getOption n = none → resp'.getOption n = resp.getOption n) := by
  obtain ⟨r, hp⟩ := packetCloneLimited_total resp cached
  obtain ⟨h1, h2, -, h4, h5⟩ := packetCloneLimited_spec hp
  obtain ⟨bs, hbs⟩ := enc_ok_of_num (b := { rb2 with more := more }) hb.1
  refine ⟨({ r with payload := chunk } : Packet).setOption block2Num [bs], bs, ?_, hbs, rfl, ?_, h4, ?_, ?_, ?_⟩
  · simp only [serveCached, hr, hp, hc, hbs]
  · simp only [corr, Packet.setOption, h1, h2]
  · simp only [Packet.getOption, Packet.setOption, OptMap.get_insert, ↓reduceIte]
  · intro n hn hsome
    have := h5 hcs n
    simp only [Packet.getOption, Packet.setOption, OptMap.get_insert, hn, ↓reduceIte] at this hsome ⊢
    rw [this]
    cases hg : OptMap.get cached.options n with
    | none => rw [hg] at hsome; simp at hsome
    | some v => rfl
  · intro n hn hnone
    have := h5 hcs n
    simp only [Packet.getOption, Packet.setOption, OptMap.get_insert, hn, ↓reduceIte] at this hnone ⊢
    rw [this, hnone]

theorem serveCached_out_of_range (req : Request) (resp : Packet) (rb2 : BlockValue) (cached : Packet)
    (hr : req.response = some resp)
    (hc : chunkAt cached.payload rb2.size rb2.num = none) :
    (serveCached req rb2 cached).2 = .herr (some .BadRequest) := by
  obtain ⟨r, hp⟩ := packetCloneLimited_total resp cached
  simp only [serveCached, hr, hp, hc, badRequest]

/-- follow-up block request while a response is cached: served from the cache
(the application is not consulted: result `ok true`), entry released iff this
was the final block -/
theorem handleBlock2_cached_clamped (req : Request) (st : BlockState) (b2 b2' : BlockValue) (cached : Packet)
    (hb : firstBlock req.message block2Num = some b2) (hc : st.cachedResponse = some cached)
    (hcl : clampBlock b2 st.cachedSzx = .ok b2') :
    handleBlock2 req st =
      match serveCached req b2' cached with
      | (req', .ok more) =>
        (req', { st with lastBlock2 := some b2, cachedResponse := if more then some cached else none,
                         cachedSzx := if more then st.cachedSzx else none }, .ok true)
      | (req', r) => (req', { st with lastBlock2 := some b2 }, r) := by
  simp only [handleBlock2, hb, hc, hcl]
  rcases hsc : serveCached req b2' cached with ⟨req', r⟩
  cases r with
  | ok more => cases more <;> rfl
  | herr c => rfl
  | panic => rfl

/-- the follow-up does not name a larger size than the one negotiated (`hle`): served as asked -/
theorem handleBlock2_cached (req : Request) (st : BlockState) (b2 : BlockValue) (cached : Packet)
    (hb : firstBlock req.message block2Num = some b2) (hc : st.cachedResponse = some cached)
    (hle : ∀ x, st.cachedSzx = some x → b2.szx ≤ x) :
    handleBlock2 req st =
      match serveCached req b2 cached with
      | (req', .ok more) =>
        (req', { st with lastBlock2 := some b2, cachedResponse := if more then some cached else none,
                         cachedSzx := if more then st.cachedSzx else none }, .ok true)
      | (req', r) => (req', { st with lastBlock2 := some b2 }, r) :=
  handleBlock2_cached_clamped req st b2 b2 cached hb hc (clampBlock_le hle)

/-- a follow-up naming a LARGER size than the one negotiated and too high a block number for the
renumbering: 4.00, the state is kept -/
theorem handleBlock2_cached_bad (req : Request) (st : BlockState) (b2 : BlockValue) (cached : Packet)
    (c : Option ResponseType)
    (hb : firstBlock req.message block2Num = some b2) (hc : st.cachedResponse = some cached)
    (hcl : clampBlock b2 st.cachedSzx = .herr c) :
    handleBlock2 req st = (req, { st with lastBlock2 := some b2 }, .herr (some .BadRequest)) := by
  have := clampBlock_err hcl
  subst this
  simp only [handleBlock2, hb, hc, hcl]

/-- without a cached response (none yet, released, or expired) or without a
Block2 option the request goes to the application -/
theorem handleBlock2_pass (req : Request) (st : BlockState)
    (h : firstBlock req.message block2Num = none ∨ st.cachedResponse = none) :
    handleBlock2 req st = (req, { st with lastBlock2 := firstBlock req.message block2Num }, .ok false) := by
  unfold handleBlock2
  simp only
  split
  · rename_i b2 cached hb hc
    rcases h with h | h
    · rw [h] at hb; simp at hb
    · rw [h] at hc; simp at hc
  · rfl

/-- first block of a fragmented response: the application's reply is cached iff
more blocks follow -/
theorem coreResponse_fragment (M : Nat) (req : Request) (st : BlockState) (resp : Packet) (size : Nat)
    (rb2 : BlockValue)
    (hr : req.response = some resp) (hno : resp.getOption block2Num = none)
    (hsz : computeMessageSize resp = .ok size)
    (hn : negotiate st.lastBlock2 (size + tokenReserve resp) resp.payload.length M = .ok (some rb2)) :
    coreResponse M req st =
      match serveCached req rb2 resp with
      | (req', .ok true) => (req', { st with cachedResponse := some resp, cachedSzx := some rb2.szx }, .ok true)
      | (req', r) => (req', st, r) := by
  simp only [coreResponse, hr, hno, Option.isSome_none, Bool.false_eq_true, ↓reduceIte, hsz, hn]
  rfl

theorem coreResponse_unfragmented (M : Nat) (req : Request) (st : BlockState) (resp : Packet) (size : Nat)
    (hr : req.response = some resp) (hno : resp.getOption block2Num = none)
    (hsz : computeMessageSize resp = .ok size)
    (hn : negotiate st.lastBlock2 (size + tokenReserve resp) resp.payload.length M = .ok none) :
    coreResponse M req st = (req, st, .ok false) := by
  simp only [coreResponse, hr, hno, Option.isSome_none, Bool.false_eq_true, ↓reduceIte, hsz, hn]

/-! ### an upload step (C09) -/

theorem handleBlock1_step (req : Request) (M : Nat) (st : BlockState) (rb1 resp1 : BlockValue)
    (size : Nat) (resp : Packet) (buf' : Bytes)
    (hb : firstBlock req.message block1Num = some rb1)
    (hsz : computeMessageSize req.message = .ok size)
    (hn : negotiate (some rb1) size req.message.payload.length M = .ok (some resp1))
    (hr : req.response = some resp) (hok : BvOk resp1)
    (hsp : extendingSplice (if rb1.num = 0 then [] else st.cachedPayload.getD [])
             (rb1.num * rb1.size) (rb1.num * rb1.size + rb1.size) req.message.payload
             Consts.maxUncommittedReserve = some buf') :
    ∃ bs resp', resp1.enc = .ok bs ∧ resp' = resp.addOption block1Num bs ∧
      handleBlock1 req M st =
        if rb1.more then
          ({ req with response := some (setCode resp' .Continue) },
           { st with cachedPayload := some buf' }, .ok true)
        else
          ({ req with message := { req.message with payload := buf' }, response := some resp' },
           { st with cachedPayload := none }, .ok false) := by
  have hok := addBlockOption_eq hok resp block1Num
  refine ⟨_, _, C13.enc_minimal resp1 (by have := ‹BvOk resp1›.1; omega), rfl, ?_⟩
  by_cases h0 : rb1.num = 0
  · simp only [h0, ↓reduceIte, Nat.zero_mul, Nat.zero_add] at hsp
    cases hm : rb1.more
    · simp [handleBlock1, hb, hsz, hn, h0, hsp, hm, hr, hok, BlockValue.scalar]
    · simp [handleBlock1, hb, hsz, hn, h0, hsp, hm, hr, hok, BlockValue.scalar]
  · simp only [h0, ↓reduceIte] at hsp
    cases hm : rb1.more
    · simp [handleBlock1, hb, hsz, hn, h0, hsp, hm, hr, hok, BlockValue.scalar]
    · simp [handleBlock1, hb, hsz, hn, h0, hsp, hm, hr, hok, BlockValue.scalar]

/-- a request too large for the budget that carries no Block1 option is answered
4.13 with a Block1 size hint instead of being processed -/
theorem handleBlock1_too_large (req : Request) (M : Nat) (st : BlockState) (resp1 : BlockValue)
    (size : Nat) (resp : Packet)
    (hb : firstBlock req.message block1Num = none)
    (hsz : computeMessageSize req.message = .ok size)
    (hn : negotiate none size req.message.payload.length M = .ok (some resp1))
    (hr : req.response = some resp) (hok : BvOk resp1) :
    ∃ bs, resp1.enc = .ok bs ∧
      handleBlock1 req M st =
        ({ req with response := some (setCode (resp.addOption block1Num bs) .RequestEntityTooLarge) }, st, .ok true) := by
  have hok' := addBlockOption_eq hok resp block1Num
  refine ⟨_, C13.enc_minimal resp1 (by have := hok.1; omega), ?_⟩
  simp [handleBlock1, hb, hsz, hn, hr, hok', BlockValue.scalar]

theorem handleBlock1_pass (req : Request) (M : Nat) (st : BlockState) (size : Nat)
    (hb : firstBlock req.message block1Num = none)
    (hsz : computeMessageSize req.message = .ok size)
    (hn : negotiate none size req.message.payload.length M = .ok none) :
    handleBlock1 req M st = (req, st, .ok false) := by
  simp only [handleBlock1, hb, hsz, hn]

/-! ### keys (C12) -/

theorem keyOf_eq_iff (r₁ r₂ : Request) :
    keyOf r₁ = keyOf r₂ ↔
      (MessageClass.toU8 r₁.message.header.code = MessageClass.toU8 r₂.message.header.code ∧
       (r₁.message.getOption Request.uriPath).getD [] = (r₂.message.getOption Request.uriPath).getD [] ∧
       r₁.source = r₂.source) := by
  simp only [keyOf, Key.mk.injEq]

end CoapLite.Block
