/-
The low-level decoder model (`Model/CodecLow.lean`: index cursor, partial reads, fixed-width additions)
computes exactly what the high-level model `Codec.dec` computes, for every buffer a Rust slice can be.
Since `dec` has no panic outcome, none of the partial operations of `decLow` ever fails:
no read outside the buffer, no overflow, and the loop ends before its fuel does.
-/
import CoapLite.Model.CodecLow
import CoapLite.Lemmas.CodecInvBasic

namespace CoapLite.CodecLow
open CoapLite Codec Codec.Inv

theorem rd_ok (buf : Bytes) (i : Nat) (h : i < buf.length) : rd buf i = .ok buf[i] := by
  unfold rd
  rw [List.getElem?_eq_getElem h]

theorem slice_ok (buf : Bytes) (a b : Nat) (h1 : a ≤ b) (h2 : b ≤ buf.length) :
    slice buf a b = .ok ((buf.drop a).take (b - a)) := by
  unfold slice
  rw [if_pos ⟨h1, h2⟩]

theorem addW_ok (bits a b : Nat) (h : a + b < 2 ^ bits) : addW bits a b = .ok (a + b) := by
  unfold addW
  rw [if_pos h]

theorem drop_cons (buf : Bytes) (i : Nat) (h : i < buf.length) :
    buf.drop i = buf[i] :: buf.drop (i + 1) := by
  rw [List.drop_eq_getElem_cons h]

theorem two63 : (2 : Nat) ^ 63 + 2 ^ 63 = 2 ^ 64 := by decide

/-- one extension field: same value, and the cursor stands where the high-level model's rest begins -/
theorem rdExtLow_spec (d : Bool) (buf : Bytes) (nib idx : Nat) (hidx : idx ≤ buf.length)
    (hlen : buf.length < 2 ^ 63) (hnib : nib < 16) :
    match rdExt d nib (buf.drop idx) with
    | .ok (v, rest) => ∃ i', rdExtLow d buf nib idx = .ok (v, i') ∧ rest = buf.drop i' ∧
        idx ≤ i' ∧ i' ≤ buf.length ∧ v < 65536 + 269
    | .err e => rdExtLow d buf nib idx = .err e
    | .panic => False := by
  have h64 : (2 : Nat) ^ 63 < 2 ^ 64 := by decide
  have hbits : ∀ x : Nat, x < 65536 + 269 → x < 2 ^ (if d then 32 else usizeBits) := by
    intro x hx
    cases d <;> simp [usizeBits] <;> omega
  unfold rdExt rdExtLow
  by_cases h13 : nib = 13
  · simp only [h13, ↓reduceIte]
    by_cases hi : idx ≥ buf.length
    · have : buf.drop idx = [] := List.drop_eq_nil_of_le hi
      simp [this, hi]
    · have hi' : idx < buf.length := by omega
      rw [drop_cons buf idx hi']
      simp only [hi, ↓reduceIte, rd_ok buf idx hi']
      have hb : buf[idx].toNat < 256 := buf[idx].toNat_lt
      rw [addW_ok _ _ _ (hbits _ (by omega)), addW_ok usizeBits idx 1 (by simp only [usizeBits]; omega)]
      exact ⟨idx + 1, rfl, rfl, by omega, by omega, by omega⟩
  · simp only [h13, ↓reduceIte]
    by_cases h14 : nib = 14
    · simp only [h14, ↓reduceIte]
      rw [addW_ok usizeBits idx 1 (by simp only [usizeBits]; omega)]
      simp only
      by_cases hi : idx + 1 ≥ buf.length
      · rw [if_pos hi]
        by_cases hi0 : idx ≥ buf.length
        · have : buf.drop idx = [] := List.drop_eq_nil_of_le hi0
          simp [this]
        · have hi' : idx < buf.length := by omega
          rw [drop_cons buf idx hi']
          have : buf.drop (idx + 1) = [] := List.drop_eq_nil_of_le hi
          simp [this]
      · rw [if_neg hi]
        have hi0 : idx < buf.length := by omega
        have hi1 : idx + 1 < buf.length := by omega
        rw [drop_cons buf idx hi0, drop_cons buf (idx + 1) hi1]
        simp only [rd_ok buf idx hi0, rd_ok buf (idx + 1) hi1]
        have hb1 : buf[idx].toNat < 256 := buf[idx].toNat_lt
        have hb2 : buf[idx + 1].toNat < 256 := buf[idx + 1].toNat_lt
        rw [addW_ok _ _ _ (hbits _ (by omega)), addW_ok usizeBits idx 2 (by simp only [usizeBits]; omega)]
        exact ⟨idx + 2, rfl, rfl, by omega, by omega, by omega⟩
    · simp only [h14, ↓reduceIte]
      by_cases h15 : nib = 15
      · simp [h15]
      · simp only [h15, ↓reduceIte]
        exact ⟨idx, rfl, rfl, Nat.le_refl _, hidx, by omega⟩


theorem decOpts_nil (prev : Nat) (acc : OptMap) : decOpts prev acc [] = .ok (acc, []) := by
  rw [decOpts]

theorem decOpts_marker (prev : Nat) (acc : OptMap) (rest : Bytes) :
    decOpts prev acc (255 :: rest) = .ok (acc, rest) := by
  rw [decOpts]; simp

/-- the option loop: same options, and the final cursor stands on the payload marker or at the end -/
theorem loopLow_spec (buf : Bytes) (hlen : buf.length < 2 ^ 63) :
    ∀ (fuel idx number : Nat) (acc : OptMap), idx ≤ buf.length → buf.length - idx < fuel →
      number ≤ 65535 →
      match decOpts number acc (buf.drop idx) with
      | .ok (opts, pl) => ∃ j, loopLow buf fuel idx number acc = .ok (opts, j) ∧ j ≤ buf.length ∧
          pl = (if j < buf.length then buf.drop (j + 1) else [])
      | .err e => loopLow buf fuel idx number acc = .err e
      | .panic => False := by
  intro fuel
  induction fuel with
  | zero => intro idx number acc _ h; omega
  | succ fuel ih =>
    intro idx number acc hidx hfuel hnum
    unfold loopLow
    by_cases hi : idx < buf.length
    · simp only [hi, not_true_eq_false, ↓reduceIte]
      rw [drop_cons buf idx hi, rd_ok buf idx hi]
      simp only
      by_cases hm : buf[idx] = 255
      · rw [hm, decOpts_marker]
        simp only [↓reduceIte]
        exact ⟨idx, rfl, hidx, by rw [if_pos hi]⟩
      · simp only [hm, ↓reduceIte]
        rw [addW_ok usizeBits idx 1 (by simp only [usizeBits]; omega)]
        simp only
        have hnibd : buf[idx].toNat / 16 < 16 := by have := buf[idx].toNat_lt; omega
        have hnibl : buf[idx].toNat % 16 < 16 := Nat.mod_lt _ (by decide)
        have s1 := rdExtLow_spec true buf (buf[idx].toNat / 16) (idx + 1) (by omega) hlen hnibd
        cases h1 : rdExt true (buf[idx].toNat / 16) (buf.drop (idx + 1)) with
        | panic => rw [h1] at s1; exact s1.elim
        | err e =>
          rw [h1] at s1
          simp only at s1
          rw [decOpts_cons_err1 number acc buf[idx] _ hm h1, s1]
        | ok vr =>
          obtain ⟨delta, r1⟩ := vr
          rw [h1] at s1
          simp only at s1
          obtain ⟨i2, e2, hr1, hi2a, hi2b, hdelta⟩ := s1
          rw [e2]
          simp only
          have s2 := rdExtLow_spec false buf (buf[idx].toNat % 16) i2 hi2b hlen hnibl
          rw [← hr1] at s2
          cases h2 : rdExt false (buf[idx].toNat % 16) r1 with
          | panic => rw [h2] at s2; exact s2.elim
          | err e =>
            rw [h2] at s2
            simp only at s2
            rw [decOpts_cons_err2 number acc buf[idx] _ hm h1 h2, s2]
          | ok vr2 =>
            obtain ⟨len, r2⟩ := vr2
            rw [h2] at s2
            simp only at s2
            obtain ⟨i3, e3, hr2, hi3a, hi3b, hlenb⟩ := s2
            rw [e3]
            simp only
            rw [decOpts_cons number acc buf[idx] _ hm h1 h2]
            rw [addW_ok 32 number delta (by
              have : (2 : Nat) ^ 32 = 4294967296 := by decide
              omega)]
            simp only
            by_cases hov : number + delta > 65535
            · simp only [hov, ↓reduceIte]
            · simp only [hov, ↓reduceIte]
              rw [addW_ok usizeBits i3 len (by
                have : (2 : Nat) ^ 63 + 2 ^ 63 = 2 ^ 64 := by decide
                have : (65536 : Nat) + 269 < 2 ^ 63 := by decide
                simp only [usizeBits]; omega)]
              simp only
              have hr2len : r2.length = buf.length - i3 := by rw [hr2, List.length_drop]
              by_cases hbig : len > r2.length
              · have : i3 + len > buf.length := by omega
                simp only [hbig, this, ↓reduceIte]
              · have hle : ¬ i3 + len > buf.length := by omega
                simp only [hbig, hle, ↓reduceIte]
                rw [slice_ok buf i3 (i3 + len) (by omega) (by omega)]
                simp only
                have hv : (buf.drop i3).take (i3 + len - i3) = r2.take len := by
                  rw [hr2]; congr 1; omega
                have hd : r2.drop len = buf.drop (i3 + len) := by
                  rw [hr2, List.drop_drop]
                rw [hv, hd]
                exact ih (i3 + len) (number + delta) _ (by omega) (by omega) (by omega)
    · have hi' : idx = buf.length := by omega
      have : buf.drop idx = [] := List.drop_eq_nil_of_le (by omega)
      rw [this, decOpts_nil]
      simp only [hi, not_false_eq_true, ↓reduceIte]
      exact ⟨idx, rfl, hidx, by rw [if_neg hi]⟩


/-- REFINEMENT: for every buffer a Rust slice can be (shorter than 2^63 bytes), the low-level decoder –
index cursor, partial reads, fixed-width additions, bounded loop – computes exactly what the
high-level model computes -/
theorem decLow_eq_dec (buf : Bytes) (hlen : buf.length < 2 ^ 63) : decLow buf = dec buf := by
  unfold decLow dec
  match buf, hlen with
  | [], _ => simp
  | [_], _ => simp
  | [_, _], _ => simp
  | [_, _, _], _ => simp
  | b0 :: b1 :: b2 :: b3 :: rest, hlen =>
    have hl4 : ¬ (b0 :: b1 :: b2 :: b3 :: rest).length < 4 := by simp
    simp only [hl4, ↓reduceIte]
    have r0 : rd (b0 :: b1 :: b2 :: b3 :: rest) 0 = .ok b0 := rfl
    have r1 : rd (b0 :: b1 :: b2 :: b3 :: rest) 1 = .ok b1 := rfl
    have r2 : rd (b0 :: b1 :: b2 :: b3 :: rest) 2 = .ok b2 := rfl
    have r3 : rd (b0 :: b1 :: b2 :: b3 :: rest) 3 = .ok b3 := rfl
    rw [r0, r1, r2, r3]
    simp only
    have htkl : (0x0F &&& b0).toNat < 16 := by
      have : ∀ b : Fin 256, (0x0F &&& UInt8.ofNat b.val).toNat < 16 := by decide +kernel
      have h := this ⟨b0.toNat, b0.toNat_lt⟩
      simpa using h
    rw [addW_ok usizeBits 4 _ (by
      have : (2 : Nat) ^ 64 = 18446744073709551616 := by decide
      simp only [usizeBits]; omega)]
    simp only
    by_cases h8 : (0x0F &&& b0).toNat > 8
    · simp only [h8, ↓reduceIte]
    · simp only [h8, ↓reduceIte]
      have hlenr : (b0 :: b1 :: b2 :: b3 :: rest).length = rest.length + 4 := by simp
      by_cases hshort : (0x0F &&& b0).toNat > rest.length
      · have : 4 + (0x0F &&& b0).toNat > (b0 :: b1 :: b2 :: b3 :: rest).length := by omega
        simp only [hshort, this, ↓reduceIte]
      · have hns : ¬ 4 + (0x0F &&& b0).toNat > (b0 :: b1 :: b2 :: b3 :: rest).length := by omega
        simp only [hshort, hns, ↓reduceIte]
        rw [slice_ok _ 4 (4 + (0x0F &&& b0).toNat) (by omega) (by omega)]
        simp only
        have htok : ((b0 :: b1 :: b2 :: b3 :: rest).drop 4).take (4 + (0x0F &&& b0).toNat - 4) =
            rest.take (0x0F &&& b0).toNat := by
          have : 4 + (0x0F &&& b0).toNat - 4 = (0x0F &&& b0).toNat := by omega
          rw [this]; rfl
        have hdrop : (b0 :: b1 :: b2 :: b3 :: rest).drop (4 + (0x0F &&& b0).toNat) =
            rest.drop (0x0F &&& b0).toNat := by
          rw [← List.drop_drop]; rfl
        have sp := loopLow_spec (b0 :: b1 :: b2 :: b3 :: rest) hlen
          ((b0 :: b1 :: b2 :: b3 :: rest).length + 1) (4 + (0x0F &&& b0).toNat) 0 [] (by omega) (by omega)
          (by omega)
        rw [hdrop] at sp
        rw [htok]
        cases hd : decOpts 0 [] (rest.drop (0x0F &&& b0).toNat) with
        | panic => rw [hd] at sp; exact sp.elim
        | err e =>
          rw [hd] at sp
          simp only at sp
          rw [sp]
        | ok op =>
          obtain ⟨opts, pl⟩ := op
          rw [hd] at sp
          simp only at sp
          obtain ⟨j, hj, hjl, hpl⟩ := sp
          rw [hj]
          simp only
          by_cases hjlt : j < (b0 :: b1 :: b2 :: b3 :: rest).length
          · rw [if_pos hjlt] at hpl
            rw [if_pos hjlt, addW_ok usizeBits j 1 (by
              have : (2 : Nat) ^ 63 < 2 ^ 64 := by decide
              simp only [usizeBits]; omega)]
            simp only
            rw [slice_ok _ (j + 1) _ (by omega) (Nat.le_refl _)]
            simp only
            have : ((b0 :: b1 :: b2 :: b3 :: rest).drop (j + 1)).take
                ((b0 :: b1 :: b2 :: b3 :: rest).length - (j + 1)) =
                (b0 :: b1 :: b2 :: b3 :: rest).drop (j + 1) := by
              apply List.take_of_length_le
              rw [List.length_drop]
              exact Nat.le_refl _
            rw [this, hpl]
          · rw [if_neg hjlt] at hpl
            rw [if_neg hjlt, hpl]

/-- … hence NONE of the partial operations of the low-level decoder ever fails: no read outside the
buffer, no slice out of range, no addition overflowing its type, and the loop never runs out of fuel
– for every byte string -/
theorem decLow_never_panics (buf : Bytes) (hlen : buf.length < 2 ^ 63) : decLow buf ≠ .panic := by
  rw [decLow_eq_dec buf hlen]
  unfold dec
  split
  · simp only
    split
    · simp
    · split
      · simp
      · split
        · simp
        · simp
        · rename_i hd
          exact absurd hd (Inv.decOpts_ne_panic _ _ _)
  · simp

end CoapLite.CodecLow
