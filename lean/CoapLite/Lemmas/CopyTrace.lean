import CoapLite.Model.CopyTrace
import CoapLite.Lemmas.CodecFwd

namespace CoapLite
namespace Codec

/-! ### bounds -/

theorem boundsOk_append (a b : List CopyEv) (caps : Nat → Nat)
    (ha : boundsOk caps a = true) (hb : ∀ caps', boundsOk caps' b = true) :
    boundsOk caps (a ++ b) = true := by
  induction a generalizing caps with
  | nil => simpa using hb caps
  | cons e a ih =>
    cases e with
    | reserve v len add =>
      simp only [List.cons_append, boundsOk] at ha ⊢
      exact ih _ ha
    | copy v off n =>
      simp only [List.cons_append, boundsOk, Bool.and_eq_true] at ha ⊢
      exact ⟨ha.1, ih _ ha.2⟩

theorem boundsOk_ite (c : Prop) [Decidable c] (caps : Nat → Nat) (x y : List CopyEv)
    (hx : boundsOk caps x = true) (hy : boundsOk caps y = true) :
    boundsOk caps (if c then x else y) = true := by
  split <;> assumption

theorem optEvents_boundsOk (len prev num : Nat) (v : Bytes) (caps : Nat → Nat) :
    boundsOk caps (optEvents len prev num v) = true := by
  simp only [optEvents, boundsOk, Bool.and_eq_true, decide_eq_true_eq, if_true, and_true]
  constructor <;> omega

theorem valuesEvents_boundsOk (vs : List Bytes) (len prev num : Nat) (caps : Nat → Nat) :
    boundsOk caps (valuesEvents len prev num vs).1 = true := by
  induction vs generalizing len prev caps with
  | nil => simp [valuesEvents, boundsOk]
  | cons v vs ih =>
    simp only [valuesEvents]
    split
    · simp [boundsOk]
    · exact boundsOk_append _ _ _ (optEvents_boundsOk ..) (fun c => ih _ _ c)

theorem optsEvents_boundsOk (m : OptMap) (len prev : Nat) (caps : Nat → Nat) :
    boundsOk caps (optsEvents len prev m).1 = true := by
  induction m generalizing len prev caps with
  | nil => simp [optsEvents, boundsOk]
  | cons a rest ih =>
    obtain ⟨num, vs⟩ := a
    simp only [optsEvents]
    have hv := fun c => valuesEvents_boundsOk vs len prev num c
    split
    · rename_i evs len' prev' heq
      rw [heq] at hv
      exact boundsOk_append _ _ _ (hv caps) (fun c => ih _ _ c)
    · rename_i evs len' prev' heq
      rw [heq] at hv
      exact hv caps

/-- for every packet and limit, every raw-pointer copy of the serialiser lies
within the capacity guaranteed by the `reserve` calls made before it -/
theorem encTrace_boundsOk (p : Packet) (limit : Option Nat) :
    boundsOk (fun _ => 0) (encTrace p limit) = true := by
  have ho := fun c => optsEvents_boundsOk p.options 0 0 c
  unfold encTrace
  split
  · rename_i evs l heq
    rw [heq] at ho
    exact ho _
  · rename_i evs olen heq
    rw [heq] at ho
    have hfull : ∀ c, boundsOk c (evs ++
        [CopyEv.reserve 1 4 (p.token.length + olen), .copy 1 4 p.token.length,
                   .copy 1 (4 + p.token.length) olen] ++
        (if sent p then
          [CopyEv.reserve 1 (4 + p.token.length + olen + 1) p.payload.length,
           .copy 1 (4 + p.token.length + olen + 1) p.payload.length]
        else [])) = true := by
      intro c0
      rw [List.append_assoc]
      refine boundsOk_append _ _ _ (ho _) (fun c => ?_)
      refine boundsOk_append _ _ _ ?_ (fun c => ?_)
      · simp only [boundsOk, Bool.and_eq_true, decide_eq_true_eq, if_true, and_true]
        constructor <;> omega
      · split
        · simp only [boundsOk, Bool.and_eq_true, decide_eq_true_eq, if_true, and_true]
          omega
        · rfl
    cases limit with
    | none => exact hfull _
    | some l =>
      exact boundsOk_ite _ _ _ _ (ho _) (hfull _)

/-- the total number of bytes copied into the output buffer (vector 1) plus the
4 header bytes and the marker is the length of the result -/
def copied (v : Nat) : List CopyEv → Nat
  | [] => 0
  | .copy w _ n :: rest => (if w = v then n else 0) + copied v rest
  | .reserve _ _ _ :: rest => copied v rest

theorem copied_append (v : Nat) (a b : List CopyEv) :
    copied v (a ++ b) = copied v a + copied v b := by
  induction a with
  | nil => simp [copied]
  | cons e a ih =>
    cases e <;> simp [copied, ih, Nat.add_assoc]

theorem valuesEvents_ok (vs : List Bytes) (len prev num : Nat) (bytes : Bytes) (p' : Nat)
    (h : encValues prev num vs = .ok (bytes, p')) :
    ∃ evs, valuesEvents len prev num vs = (evs, len + bytes.length, p', true) ∧ copied 1 evs = 0 := by
  induction vs generalizing len prev bytes with
  | nil =>
    simp only [encValues, Res.ok.injEq, Prod.mk.injEq] at h
    obtain ⟨rfl, rfl⟩ := h
    exact ⟨[], by simp [valuesEvents], rfl⟩
  | cons v vs ih =>
    simp only [encValues, encOpt] at h
    simp only [valuesEvents]
    split at h
    · rename_i b hb
      split at hb
      · simp at hb
      · rename_i hlen
        rw [if_neg hlen]
        simp only [Res.ok.injEq] at hb
        split at h
        · rename_i bs q hrec
          simp only [Res.ok.injEq, Prod.mk.injEq] at h
          obtain ⟨rfl, rfl⟩ := h
          obtain ⟨evs, he, hc⟩ := ih (len + (1 + (ext (num - prev)).length + (ext v.length).length) + v.length) num bs hrec
          rw [he]
          refine ⟨optEvents len prev num v ++ evs, ?_, ?_⟩
          · simp only [Prod.mk.injEq, true_and, and_true]
            rw [← hb]
            simp only [List.length_append, List.length_cons]
            omega
          · rw [copied_append, hc]
            simp [optEvents, copied]
        · simp at h
        · simp at h
    · simp at h
    · simp at h

theorem optsEvents_ok (m : OptMap) (len prev : Nat) (ob : Bytes)
    (h : encOpts prev m = .ok ob) :
    ∃ evs, optsEvents len prev m = (evs, len + ob.length, true) ∧ copied 1 evs = 0 := by
  induction m generalizing len prev ob with
  | nil =>
    simp only [encOpts, Res.ok.injEq] at h
    subst h
    exact ⟨[], by simp [optsEvents], rfl⟩
  | cons a rest ih =>
    obtain ⟨num, vs⟩ := a
    simp only [encOpts] at h
    split at h
    · rename_i b q hv
      split at h
      · rename_i bs hrec
        simp only [Res.ok.injEq] at h
        subst h
        obtain ⟨evs, he, hc⟩ := valuesEvents_ok vs len prev num b q hv
        obtain ⟨evs2, he2, hc2⟩ := ih (len + b.length) q bs hrec
        simp only [optsEvents, he, he2]
        refine ⟨evs ++ evs2, ?_, ?_⟩
        · simp only [Prod.mk.injEq, true_and, and_true, List.length_append]
          omega
        · rw [copied_append, hc, hc2]
      · simp at h
      · simp at h
    · simp at h
    · simp at h

theorem encTrace_copied (p : Packet) (limit : Option Nat) (bs : Bytes) (h : enc p limit = .ok bs) :
    bs.length = 4 + copied 1 (encTrace p limit) + (if sent p then 1 else 0) := by
  unfold enc at h
  split at h
  · rename_i ob hob
    obtain ⟨evs, he, hc⟩ := optsEvents_ok p.options 0 0 ob hob
    simp only [Nat.zero_add] at he
    have hfull : (headerBytes p.header ++ p.token ++ ob ++ (if sent p then 0xFF :: p.payload else [])).length =
        4 + copied 1 (evs ++
        [CopyEv.reserve 1 4 (p.token.length + ob.length), .copy 1 4 p.token.length,
                   .copy 1 (4 + p.token.length) ob.length] ++
        (if sent p then
          [CopyEv.reserve 1 (4 + p.token.length + ob.length + 1) p.payload.length,
           .copy 1 (4 + p.token.length + ob.length + 1) p.payload.length]
        else [])) + (if sent p then 1 else 0) := by
      rw [copied_append, copied_append, hc]
      by_cases hs : sent p = true <;> simp [hs, headerBytes, copied] <;> omega
    unfold encTrace
    simp only [he]
    cases limit with
    | none =>
      simp only [Res.ok.injEq] at h
      subst h
      exact hfull
    | some l =>
      simp only at h
      by_cases hgt : 4 + p.token.length + ob.length + (if sent p then 1 + p.payload.length else 0) > l
      · rw [if_pos hgt] at h
        simp at h
      · rw [if_neg hgt] at h
        simp only [Res.ok.injEq] at h
        subst h
        simp only [decide_eq_true_eq, if_neg hgt]
        exact hfull
  · simp at h
  · simp at h

end Codec
end CoapLite
