/-
`extending_splice` at the level of `Vec::splice`'s own preconditions: `dst.splice(start..end, …)` PANICS when
`start > end` or `end > dst.len()`; `end_index_plus_1.checked_sub(dst.len())` decides whether the vector is
extended first. The block handler calls it with `start = num · size`, `end = start + size`. The low-level
function below makes those panics explicit and is proved equal to the model's `extendingSplice` whenever
`start ≤ end` – which the call site guarantees – hence the splice never panics (C11).
-/
import CoapLite.Model.Block

namespace CoapLite.Block

theorem extendingSpliceLow_eq (dst : Bytes) (start stop : Nat) (payload : Bytes) (maxReserve : Nat)
    (h : start ≤ stop) :
    extendingSpliceLow dst start stop payload maxReserve =
      .ok (extendingSplice dst start stop payload maxReserve) := by
  unfold extendingSpliceLow extendingSplice spliceLow
  by_cases hs : stop ≥ dst.length
  · simp only [hs, ↓reduceIte]
    by_cases hr : stop - dst.length > maxReserve
    · simp [hr]
    · simp only [hr, ↓reduceIte, List.length_append, List.length_replicate]
      rw [if_neg (by omega), if_neg (by omega)]
      rfl
  · simp only [hs, ↓reduceIte]
    rw [if_neg (by omega), if_neg (by omega)]
    rfl

/-- the call site: `payload_offset..payload_offset + size` -/
theorem block1_splice_never_panics (dst : Bytes) (num size : Nat) (payload : Bytes) (maxReserve : Nat) :
    extendingSpliceLow dst (num * size) (num * size + size) payload maxReserve ≠ .panic := by
  rw [extendingSpliceLow_eq _ _ _ _ _ (Nat.le_add_right _ _)]
  simp

end CoapLite.Block
