/-
End-to-end Block2 download: a client that fetches blocks k, k+1, … from a cached response,
one follow-up request per block, gets – concatenated – exactly the rest of the body; every
request is answered from the cache (`ok true`, the application is not consulted) and the cache
entry is released by the final block. Composes `follow_up_served` by induction over the requests.
-/
import CoapLite.Lemmas.BlockTransfer

namespace CoapLite.Block
open CoapLite

/-- a follow-up request for block `k` at size exponent `szx`: no Block1 option, small enough to
pass the Block1 stage untouched, a Block2 option naming block `k`, a prepared reply -/
structure IsFollowUp (M : Nat) (req : Request) (k szx : Nat) : Prop where
  nob1 : firstBlock req.message block1Num = none
  small : ∃ size, computeMessageSize req.message = .ok size ∧
      negotiate none size req.message.payload.length M = .ok none
  b2 : ∃ m, firstBlock req.message block2Num = some { num := k, more := m, szx := szx }
  resp : ∃ r, req.response = some r ∧ r.options.Sorted

/-- run the requests one after the other, threading the per-key state; per request: the reply's
payload and the handler's verdict -/
def fetchAll (M : Nat) : List Request → BlockState → List (Bytes × HRes Bool) × BlockState
  | [], st => ([], st)
  | r :: rs, st =>
    let out := coreRequest M r st
    let rest := fetchAll M rs out.2.1
    (((out.1.response.map (·.payload)).getD [], out.2.2) :: rest.1, rest.2)

theorem drop_split (l : Bytes) (a s : Nat) : l.drop a = (l.drop a).take s ++ l.drop (a + s) := by
  rw [← List.drop_drop]
  exact (List.take_append_drop s (l.drop a)).symm

/-- blocks `k, k+1, …, k+n-1` (`n = reqs.length ≥ 1`) where block `k+n-1` is the last one of the body -/
theorem download_tail (M : Nat) (cached : Packet) (szx : Nat)
    (hcs : cached.options.Sorted) (hck : ∀ kv ∈ cached.options, kv.1 ≤ 65535) :
    ∀ (reqs : List Request) (k : Nat) (st : BlockState),
      st.cachedResponse = some cached →
      (∀ x, st.cachedSzx = some x → szx ≤ x) →
      (∀ i (h : i < reqs.length), IsFollowUp M reqs[i] (k + i) szx) →
      reqs ≠ [] →
      (k + reqs.length - 1) * 2 ^ (szx + 4) < cached.payload.length →
      cached.payload.length ≤ (k + reqs.length) * 2 ^ (szx + 4) →
      ((fetchAll M reqs st).1.flatMap (·.1)) = cached.payload.drop (k * 2 ^ (szx + 4)) ∧
      (∀ o ∈ (fetchAll M reqs st).1, o.2 = .ok true) ∧
      (fetchAll M reqs st).2.cachedResponse = none := by
  intro reqs
  induction reqs with
  | nil => intro k st _ _ _ hne; exact absurd rfl hne
  | cons r rs ih =>
    intro k st hst hle hfu _ hlast hcover
    have h0 := hfu 0 (by simp)
    simp only [List.getElem_cons_zero, Nat.add_zero] at h0
    obtain ⟨sz, hsz, hneg⟩ := h0.small
    obtain ⟨m, hb2⟩ := h0.b2
    obtain ⟨resp, hresp, hrs⟩ := h0.resp
    let S := 2 ^ (szx + 4)
    have hSpos : 0 < S := Nat.pos_of_ne_zero (by simp [S])
    have hlen : (r :: rs).length = rs.length + 1 := rfl
    -- block k exists
    have hk : k * S < cached.payload.length := by
      have : k ≤ k + (r :: rs).length - 1 := by rw [hlen]; omega
      exact Nat.lt_of_le_of_lt (Nat.mul_le_mul_right S this) hlast
    have hsize : ({ num := k, more := m, szx := szx } : BlockValue).size = S := rfl
    have hchunk : chunkAt cached.payload S k =
        some ((cached.payload.drop (k * S)).take S, decide ((k + 1) * S < cached.payload.length)) := by
      unfold chunkAt; simp [hk]
    obtain ⟨resp', hcore, hpay, -, -, -, -⟩ :=
      follow_up_served r resp st { num := k, more := m, szx := szx } cached
        ((cached.payload.drop (k * S)).take S) (decide ((k + 1) * S < cached.payload.length)) M sz
        h0.nob1 hsz hneg hb2 hst hresp hrs hcs hck (by rw [hsize]; exact hchunk) hle
    have hfa : fetchAll M (r :: rs) st =
        ((((coreRequest M r st).1.response.map (·.payload)).getD [], (coreRequest M r st).2.2) ::
          (fetchAll M rs (coreRequest M r st).2.1).1, (fetchAll M rs (coreRequest M r st).2.1).2) := rfl
    rw [hfa, hcore]
    simp only [Option.map_some, Option.getD_some, hpay]
    cases rs with
    | nil =>
      -- last block: nothing remains after it
      have hfin : ¬ (k + 1) * S < cached.payload.length := by
        have : cached.payload.length ≤ (k + 1) * S := by simpa [hlen] using hcover
        omega
      have hdrop : cached.payload.drop (k * S + S) = [] := by
        apply List.drop_eq_nil_of_le
        have : (k + 1) * S = k * S + S := by rw [Nat.add_mul]; simp
        have : cached.payload.length ≤ (k + 1) * S := by simpa [hlen] using hcover
        omega
      refine ⟨?_, ?_, ?_⟩
      · simp only [fetchAll, List.flatMap_cons, List.flatMap_nil, List.append_nil]
        have hsplit := drop_split cached.payload (k * S) S
        rw [hdrop, List.append_nil] at hsplit
        exact hsplit.symm
      · intro o ho
        simp only [fetchAll, List.mem_singleton] at ho
        rw [ho]
      · simp [fetchAll, hfin]
    | cons r2 rs2 =>
      have hmore : (k + 1) * S < cached.payload.length := by
        have : k + 1 ≤ k + (r :: r2 :: rs2).length - 1 := by simp
        exact Nat.lt_of_le_of_lt (Nat.mul_le_mul_right S this) hlast
      simp only [hmore, decide_true, if_true]
      have ih' := ih (k + 1) { st with lastBlock2 := some { num := k, more := m, szx := szx }, cachedResponse := some cached }
        rfl hle
        (by
          intro i hi
          have := hfu (i + 1) (by simp at hi ⊢; omega)
          simpa [Nat.add_assoc, Nat.add_comm 1 i] using this)
        (by simp)
        (by
          have e : k + 1 + (r2 :: rs2).length - 1 = k + (r :: r2 :: rs2).length - 1 := by simp; omega
          rw [e]; exact hlast)
        (by
          have e : k + 1 + (r2 :: rs2).length = k + (r :: r2 :: rs2).length := by simp; omega
          rw [e]; exact hcover)
      obtain ⟨i1, i2, i3⟩ := ih'
      refine ⟨?_, ?_, i3⟩
      · simp only [List.flatMap_cons]
        rw [i1]
        show (cached.payload.drop (k * S)).take S ++ cached.payload.drop ((k + 1) * S) = cached.payload.drop (k * S)
        have e : (k + 1) * S = k * S + S := by rw [Nat.add_mul]; simp
        rw [e]
        exact (drop_split cached.payload (k * S) S).symm
      · intro o ho
        simp only [List.mem_cons] at ho
        rcases ho with rfl | ho
        · rfl
        · exact i2 o ho

end CoapLite.Block
