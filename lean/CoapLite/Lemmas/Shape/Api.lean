/-
API-surface tie: the public entry points of the modelled source files are exactly the ones the model was
written against. `Generated/Shapes.lean` (`Shapes.api*`) is re-read from /repo/src on every run: every
`pub fn` at the top level, every `pub fn` method of an inherent impl and every method of a trait impl, as
(qualified name, receiver). Private helpers are NOT listed, so refactorings that add, rename or remove them
leave the lists unchanged. A NEW public entry point – a method that mutates the registry, the handler's cache
or a packet behind the back of the operations the model knows – or a receiver that changes from `&self` to
`&mut self` makes the corresponding `rfl` fail: the properties quantify over every history of API calls, and
the model no longer describes all of them.

Which model definition mirrors which entry point: `Subject::{register, deregister, resource_changed,
acknowledge, set_unacknowledged_limit}` = `Observe.Subject.*` (Model/Observe.lean); `BlockHandler::{new,
intercept_request, intercept_response}` = `Block.Handler.new`, `interceptRequest`, `interceptResponse`;
`extending_splice` = `Block.extendingSplice`; `BlockValue::{new, size}`, the two conversions = Model/BlockValue.lean;
`Packet::*` = Model/Packet.lean, `from_bytes` / `to_bytes*` = `Codec.dec` / `Codec.enc`; `Header::*` = Model/Header.lean;
`CoapRequest::*`, `CoapResponse::*` = Model/Request.lean; the link-format iterators and writers = Model/LinkFormat.lean.
-/
import CoapLite.Generated.Shapes

namespace CoapLite.ShapeTie

def expectedApiObserve : List (String × String) :=
  [("<Subject as Default>::default", "-"),
   ("Subject::acknowledge", "&mut self"),
   ("Subject::deregister", "&mut self"),
   ("Subject::get_resource", "&self"),
   ("Subject::get_resource_observers", "&self"),
   ("Subject::register", "&mut self"),
   ("Subject::resource_changed", "&mut self"),
   ("Subject::set_unacknowledged_limit", "&mut self"),
   ("create_notification", "-")]

theorem apiObserve : Shapes.apiObserve = expectedApiObserve := rfl

def expectedApiBlockHandler : List (String × String) :=
  [("<BlockHandlerConfig as Default>::default", "-"),
   ("<RequestCacheKey as From>::from", "-"),
   ("BlockHandler::intercept_request", "&mut self"),
   ("BlockHandler::intercept_response", "&mut self"),
   ("BlockHandler::new", "-"),
   ("extending_splice", "-")]

theorem apiBlockHandler : Shapes.apiBlockHandler = expectedApiBlockHandler := rfl

def expectedApiBlockValue : List (String × String) :=
  [("<BlockValue as TryFrom>::try_from", "-"),
   ("<Vec as From>::from", "-"),
   ("BlockValue::new", "-"),
   ("BlockValue::size", "&self")]

theorem apiBlockValue : Shapes.apiBlockValue = expectedApiBlockValue := rfl

def expectedApiPacket : List (String × String) :=
  [("<CoapOption as From>::from", "-"),
   ("<ContentFormat as TryFrom>::try_from", "-"),
   ("<ObserveOption as TryFrom>::try_from", "-"),
   ("<u16 as From>::from", "-"),
   ("<usize as From>::from", "-"),
   ("Packet::add_option", "&mut self"),
   ("Packet::add_option_as", "&mut self"),
   ("Packet::clear_all_options", "&mut self"),
   ("Packet::clear_option", "&mut self"),
   ("Packet::from_bytes", "-"),
   ("Packet::get_content_format", "&self"),
   ("Packet::get_first_option", "&self"),
   ("Packet::get_first_option_as", "&self"),
   ("Packet::get_observe_value", "&self"),
   ("Packet::get_option", "&self"),
   ("Packet::get_options_as", "&self"),
   ("Packet::get_token", "&self"),
   ("Packet::new", "-"),
   ("Packet::options", "&self"),
   ("Packet::set_content_format", "&mut self"),
   ("Packet::set_observe_value", "&mut self"),
   ("Packet::set_option", "&mut self"),
   ("Packet::set_options_as", "&mut self"),
   ("Packet::set_token", "&mut self"),
   ("Packet::to_bytes", "&self"),
   ("Packet::to_bytes_unlimited", "&self"),
   ("Packet::to_bytes_with_limit", "&self")]

theorem apiPacket : Shapes.apiPacket = expectedApiPacket := rfl

def expectedApiHeader : List (String × String) :=
  [("<Header as Default>::default", "-"),
   ("<HeaderRaw as Default>::default", "-"),
   ("<HeaderRaw as TryFrom>::try_from", "-"),
   ("<MessageClass as Display>::fmt", "&self"),
   ("<MessageClass as From>::from", "-"),
   ("<u8 as From>::from", "-"),
   ("Header::from_raw", "-"),
   ("Header::get_code", "&self"),
   ("Header::get_token_length", "&self"),
   ("Header::get_type", "&self"),
   ("Header::get_version", "&self"),
   ("Header::new", "-"),
   ("Header::set_code", "&mut self"),
   ("Header::set_token_length", "&mut self"),
   ("Header::set_type", "&mut self"),
   ("Header::set_version", "&mut self"),
   ("Header::to_raw", "&self"),
   ("HeaderRaw::serialize_into", "&self"),
   ("ResponseType::is_error", "&self")]

theorem apiHeader : Shapes.apiHeader = expectedApiHeader := rfl

def expectedApiRequest : List (String × String) :=
  [("<CoapRequest as Default>::default", "-"),
   ("CoapRequest::apply_from_error", "&mut self"),
   ("CoapRequest::from_packet", "-"),
   ("CoapRequest::get_method", "&self"),
   ("CoapRequest::get_observe_flag", "&self"),
   ("CoapRequest::get_path", "&self"),
   ("CoapRequest::get_path_as_vec", "&self"),
   ("CoapRequest::new", "-"),
   ("CoapRequest::set_method", "&mut self"),
   ("CoapRequest::set_observe_flag", "&mut self"),
   ("CoapRequest::set_path", "&mut self")]

theorem apiRequest : Shapes.apiRequest = expectedApiRequest := rfl

def expectedApiResponse : List (String × String) :=
  [("CoapResponse::get_status", "&self"),
   ("CoapResponse::new", "-"),
   ("CoapResponse::set_status", "&mut self")]

theorem apiResponse : Shapes.apiResponse = expectedApiResponse := rfl

def expectedApiLinkFormat : List (String × String) :=
  [("<Cow as From>::from", "-"),
   ("<LinkAttributeParser as Iterator>::next", "&mut self"),
   ("<LinkFormatParser as Iterator>::next", "&mut self"),
   ("<Unquote as Display>::fmt", "&self"),
   ("<Unquote as Iterator>::next", "&mut self"),
   ("<Unquote as PartialEq>::eq", "&self"),
   ("LinkAttributeWrite::attr", "self"),
   ("LinkAttributeWrite::attr_quoted", "self"),
   ("LinkAttributeWrite::attr_u16", "self"),
   ("LinkAttributeWrite::attr_u32", "self"),
   ("LinkAttributeWrite::finish", "self"),
   ("LinkFormatParser::new", "-"),
   ("LinkFormatWrite::finish", "self"),
   ("LinkFormatWrite::link", "&mut self"),
   ("LinkFormatWrite::new", "-"),
   ("LinkFormatWrite::set_add_newlines", "&mut self"),
   ("Unquote::into_raw_str", "self"),
   ("Unquote::is_quoted", "&self"),
   ("Unquote::new", "-"),
   ("Unquote::to_cow", "&self")]

theorem apiLinkFormat : Shapes.apiLinkFormat = expectedApiLinkFormat := rfl

end CoapLite.ShapeTie
