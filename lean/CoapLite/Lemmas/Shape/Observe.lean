/-
Shape tie (Observe): the state the model carries is exactly the state the Rust structs carry.
`Generated/Shapes.lean` is re-read from /repo/src on every run (field names, types as written up to
module paths and lifetimes; order is irrelevant). The model was written against the field lists below – `Model/Observe.lean`: `Observer` = (endpoint, token, unacked, mid); `Resource` = (observers, sequence); `Subject` = (resources, limit).
A field added to, removed from or retyped in one of these structs (a memo, a marker, a digest instead
of the data, a narrower counter) makes the corresponding `rfl` fail: the hand-written model then no
longer accounts for all the state of the code, whatever the correspondence runs happen to explore.
-/
import CoapLite.Generated.Shapes

namespace CoapLite.ShapeTie

theorem observer : Shapes.observer =
    [("endpoint", "Endpoint"), ("message_id", "Option<u16>"), ("token", "Vec<u8>"), ("unacknowledged_messages", "u16")] := rfl

theorem resource : Shapes.resource =
    [("observers", "Vec<Observer<Endpoint>>"), ("sequence", "u32")] := rfl

theorem subject : Shapes.subject =
    [("phantom", "PhantomData<Endpoint>"), ("resources", "BTreeMap<ResourcePath,Resource<Endpoint>>"), ("unacknowledged_limit", "u8")] := rfl

end CoapLite.ShapeTie
