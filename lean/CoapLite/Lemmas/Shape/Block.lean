/-
Shape tie (Block): the state the model carries is exactly the state the Rust structs carry.
`Generated/Shapes.lean` is re-read from /repo/src on every run (field names, types as written up to
module paths and lifetimes; order is irrelevant). The model was written against the field lists below – `Model/Block.lean`: `Handler` = (maxSize, cache with its ttl); `Key` = (code byte, raw path segments, endpoint); `BlockState` = (lastBlock2, cachedResponse, cachedSzx, cachedPayload).
A field added to, removed from or retyped in one of these structs (a memo, a marker, a digest instead
of the data, a narrower counter) makes the corresponding `rfl` fail: the hand-written model then no
longer accounts for all the state of the code, whatever the correspondence runs happen to explore.
-/
import CoapLite.Generated.Shapes

namespace CoapLite.ShapeTie

theorem blockHandler : Shapes.blockHandler =
    [("config", "BlockHandlerConfig"), ("states", "LruCache<RequestCacheKey<Endpoint>,BlockState>")] := rfl

theorem blockHandlerConfig : Shapes.blockHandlerConfig =
    [("cache_expiry_duration", "Duration"), ("max_total_message_size", "usize")] := rfl

theorem requestCacheKey : Shapes.requestCacheKey =
    [("path", "Vec<Vec<u8>>"), ("request_type_ord", "u8"), ("requester", "Option<Endpoint>")] := rfl

theorem blockState : Shapes.blockState =
    [("cached_request_payload", "Option<Vec<u8>>"), ("cached_response", "Option<Packet>"),
     ("cached_response_size_exponent", "Option<u8>"), ("last_request_block2", "Option<BlockValue>")] := rfl

end CoapLite.ShapeTie
