/-
Shape tie (Packet): the state the model carries is exactly the state the Rust structs carry.
`Generated/Shapes.lean` is re-read from /repo/src on every run (field names, types as written up to
module paths and lifetimes; order is irrelevant). The model was written against the field lists below – `Model/Packet.lean` `Packet` = (header, token, options as a sorted association list, payload); `Model/Header.lean` `Header` = (vtt byte, code, mid).
A field added to, removed from or retyped in one of these structs (a memo, a marker, a digest instead
of the data, a narrower counter) makes the corresponding `rfl` fail: the hand-written model then no
longer accounts for all the state of the code, whatever the correspondence runs happen to explore.
-/
import CoapLite.Generated.Shapes

namespace CoapLite.ShapeTie

theorem packet : Shapes.packet =
    [("header", "Header"), ("options", "BTreeMap<u16,LinkedList<Vec<u8>>>"), ("payload", "Vec<u8>"), ("token", "Vec<u8>")] := rfl

theorem header : Shapes.header =
    [("code", "MessageClass"), ("message_id", "u16"), ("ver_type_tkl", "u8")] := rfl

theorem headerRaw : Shapes.headerRaw =
    [("code", "u8"), ("message_id", "u16"), ("ver_type_tkl", "u8")] := rfl

end CoapLite.ShapeTie
