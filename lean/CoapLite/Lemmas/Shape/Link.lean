/-
Shape tie (Link): the state the model carries is exactly the state the Rust structs carry.
`Generated/Shapes.lean` is re-read from /repo/src on every run (field names, types as written up to
module paths and lifetimes; order is irrelevant). The model was written against the field lists below – `Model/LinkFormat.lean`: writer state = (sink, isFirst, addNewlines, error); parsers = the remaining input; `Uq` = (rest, state).
A field added to, removed from or retyped in one of these structs (a memo, a marker, a digest instead
of the data, a narrower counter) makes the corresponding `rfl` fail: the hand-written model then no
longer accounts for all the state of the code, whatever the correspondence runs happen to explore.
-/
import CoapLite.Generated.Shapes

namespace CoapLite.ShapeTie

theorem linkFormatWrite : Shapes.linkFormatWrite =
    [("add_newlines", "bool"), ("error", "Option<Error>"), ("is_first", "bool"), ("write", "&mutT")] := rfl

theorem linkAttributeWrite : Shapes.linkAttributeWrite =
    [("0", "&mutLinkFormatWrite<T>")] := rfl

theorem linkFormatParser : Shapes.linkFormatParser =
    [("inner", "&str")] := rfl

theorem linkAttributeParser : Shapes.linkAttributeParser =
    [("inner", "&str")] := rfl

theorem unquote : Shapes.unquote =
    [("inner", "Chars"), ("state", "UnquoteState")] := rfl

end CoapLite.ShapeTie
