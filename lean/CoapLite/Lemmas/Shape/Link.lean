/-
Shape tie (Link): the state the model carries is exactly the state the Rust structs carry.
`Generated/Shapes.lean` is re-read from /repo/src on every run (field names, declaration order, types
as written). The model was written against the field lists below – `Model/LinkFormat.lean`: writer state = (sink, isFirst, addNewlines, error); parsers = the remaining input; `Uq` = (rest, state).
A field added to, removed from or retyped in one of these structs (a memo, a marker, a digest instead
of the data, a narrower counter) makes the corresponding `rfl` fail: the hand-written model then no
longer accounts for all the state of the code, whatever the correspondence runs happen to explore.
-/
import CoapLite.Generated.Shapes

namespace CoapLite.ShapeTie

theorem linkFormatWrite : Shapes.linkFormatWrite =
    [("write", "&'amutT"), ("is_first", "bool"), ("add_newlines", "bool"), ("error", "Option<core::fmt::Error>")] := rfl

theorem linkAttributeWrite : Shapes.linkAttributeWrite =
    [("0", "&'bmutLinkFormatWrite<'a,T>")] := rfl

theorem linkFormatParser : Shapes.linkFormatParser =
    [("inner", "&'astr")] := rfl

theorem linkAttributeParser : Shapes.linkAttributeParser =
    [("inner", "&'astr")] := rfl

theorem unquote : Shapes.unquote =
    [("inner", "core::str::Chars<'a>"), ("state", "UnquoteState")] := rfl

end CoapLite.ShapeTie
