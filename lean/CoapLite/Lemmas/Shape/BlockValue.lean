/-
Shape tie (BlockValue): the state the model carries is exactly the state the Rust structs carry.
`Generated/Shapes.lean` is re-read from /repo/src on every run (field names, types as written up to
module paths and lifetimes; order is irrelevant). The model was written against the field lists below – `Model/BlockValue.lean` `BlockValue` = (num, more, szx).
A field added to, removed from or retyped in one of these structs (a memo, a marker, a digest instead
of the data, a narrower counter) makes the corresponding `rfl` fail: the hand-written model then no
longer accounts for all the state of the code, whatever the correspondence runs happen to explore.
-/
import CoapLite.Generated.Shapes

namespace CoapLite.ShapeTie

theorem blockValue : Shapes.blockValue =
    [("more", "bool"), ("num", "u16"), ("size_exponent", "u8")] := rfl

end CoapLite.ShapeTie
