/-
Shape tie (global state): the model is a set of pure functions of the values the API passes around.
`Shapes.globalState` lists every `thread_local!`, `static mut` and interior-mutability / lock / atomic
type named anywhere in /repo/src outside `#[cfg(test)]` and the `#[cfg(coap_lite_verif)]` hooks
(re-read on every run). It must be empty: otherwise results may depend on state that no model
function receives (a per-thread memo, a global counter).
-/
import CoapLite.Generated.Shapes

namespace CoapLite.ShapeTie

theorem no_global_state : Shapes.globalState = [] := rfl

end CoapLite.ShapeTie
