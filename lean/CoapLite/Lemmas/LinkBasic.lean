/-
General facts about slices (`Sl`) of the link-format model: the sub-slice
relation and its closure under `take`/`drop`/trimming.
-/
import CoapLite.Model.LinkFormat

namespace CoapLite.Link.P

/-- `y` is a sub-slice of `x` (characters and offsets agree) -/
def Sub (y x : Sl) : Prop :=
  ∃ pre post, x.s = pre ++ y.s ++ post ∧ y.off = x.off + pre.length

theorem Sub.refl (x : Sl) : Sub x x := ⟨[], [], by simp, by simp⟩

theorem Sub.trans {z y x : Sl} (h1 : Sub z y) (h2 : Sub y x) : Sub z x := by
  obtain ⟨pre1, post1, e1, o1⟩ := h1
  obtain ⟨pre2, post2, e2, o2⟩ := h2
  refine ⟨pre2 ++ pre1, post1 ++ post2, ?_, ?_⟩
  · rw [e2, e1]; simp [List.append_assoc]
  · rw [o1, o2]; simp [Nat.add_assoc]

theorem Sub.bounds {y x : Sl} (h : Sub y x) :
    x.off ≤ y.off ∧ y.off + y.s.length ≤ x.off + x.s.length := by
  obtain ⟨pre, post, e, o⟩ := h
  have := congrArg List.length e
  simp at this
  omega

theorem sub_drop (x : Sl) (n : Nat) : Sub (x.drop n) x := by
  refine ⟨x.s.take n, [], ?_, ?_⟩
  · simp [Sl.drop]
  · simp [Sl.drop, List.length_take]

theorem sub_take (x : Sl) (n : Nat) : Sub (x.take n) x := by
  refine ⟨[], x.s.drop n, ?_, ?_⟩
  · simp [Sl.take]
  · simp [Sl.take]

theorem dropWhileEnd_append (p : Char → Bool) (l : List Char) :
    l = dropWhileEnd p l ++ (l.reverse.takeWhile p).reverse := by
  unfold dropWhileEnd
  rw [← List.reverse_append, List.takeWhile_append_dropWhile, List.reverse_reverse]

theorem sub_trimEnd (x : Sl) (p : Char → Bool) : Sub (x.trimEnd p) x := by
  refine ⟨[], (x.s.reverse.takeWhile p).reverse, ?_, ?_⟩
  · simpa [Sl.trimEnd] using dropWhileEnd_append p x.s
  · simp [Sl.trimEnd]

theorem sub_trimStart (x : Sl) (p : Char → Bool) : Sub (x.trimStart p) x := by
  refine ⟨x.s.takeWhile p, [], ?_, ?_⟩
  · simp [Sl.trimStart, List.takeWhile_append_dropWhile]
  · have := congrArg List.length (List.takeWhile_append_dropWhile (p := p) (l := x.s))
    rw [List.length_append] at this
    simp [Sl.trimStart]
    omega

theorem sub_trimBoth (x : Sl) (p : Char → Bool) : Sub (x.trimBoth p) x :=
  (sub_trimEnd _ p).trans (sub_trimStart x p)

theorem drop_off (x : Sl) (n : Nat) : (x.drop n).off = x.off + min n x.s.length := rfl

theorem drop_stop (x : Sl) (n : Nat) :
    (x.drop n).off + (x.drop n).s.length = x.off + x.s.length := by
  simp [Sl.drop]; omega

theorem take_off (x : Sl) (n : Nat) : (x.take n).off = x.off := rfl

theorem take_stop (x : Sl) (n : Nat) :
    (x.take n).off + (x.take n).s.length = x.off + min n x.s.length := by
  simp [Sl.take]

end CoapLite.Link.P
