/-
Inverse direction of the codec proofs: whatever the decoder accepts re-encodes
to the input (canonicity), totality, soundness w.r.t. the RFC image, and the
rejection classes.  Used by Props/C02, C03.
-/
import CoapLite.Model.CodecAbs
import CoapLite.Lemmas.CodecFwd

namespace CoapLite
namespace Codec
open Spec

theorem enc_dec (b : Bytes) (p : Packet) (h : dec b = .ok p) :
    ∃ pre, enc p none = .ok pre ∧
      (b = pre ∨
       (b = pre ++ [0xFF] ∧ p.payload = []) ∨
       (∃ pl, b = pre ++ 0xFF :: pl ∧ p.payload = pl ∧ b[1]? = some 0)) := by
  sorry

theorem enc_dec_exact (b : Bytes) (p : Packet) (h : dec b = .ok p)
    (hp : p.payload ≠ []) (hc : b[1]? ≠ some 0) : enc p none = .ok b := by
  sorry

theorem dec_injective (b₁ b₂ : Bytes) (p : Packet) (h₁ : dec b₁ = .ok p) (h₂ : dec b₂ = .ok p) :
    (∃ pre, enc p none = .ok pre ∧ pre <+: b₁ ∧ pre <+: b₂) ∧
    (p.payload ≠ [] → b₁ = b₂) := by
  sorry

theorem dec_never_panics (b : Bytes) : dec b ≠ .panic := by
  sorry

theorem dec_wf (b : Bytes) (p : Packet) (h : dec b = .ok p) : PktWF p := by
  sorry

theorem dec_sound (b : Bytes) (p : Packet) (h : dec b = .ok p) :
    b = wire (toMsg p) ∨ b = wire (toMsg p) ++ [0xFF] ∨
      (∃ pl, b = wire (toMsg p) ++ 0xFF :: pl ∧ b[1]? = some 0) := by
  sorry

theorem reject_short (b : Bytes) (h : b.length < 4) : dec b = .err .invalidHeader := by
  sorry

theorem reject_tkl (b0 b1 b2 b3 : UInt8) (rest : Bytes) (h : (0x0F &&& b0).toNat ≥ 9) :
    dec (b0 :: b1 :: b2 :: b3 :: rest) = .err .invalidTokenLength := by
  sorry

theorem reject_truncated_token (b0 b1 b2 b3 : UInt8) (rest : Bytes)
    (h : rest.length < (0x0F &&& b0).toNat) :
    (dec (b0 :: b1 :: b2 :: b3 :: rest)).isErr = true := by
  sorry

theorem reject_nibble15 (b0 b1 b2 b3 : UInt8) (tok : Bytes) (os : List (Nat × Bytes))
    (hb : UInt8) (tail : Bytes)
    (htk : (0x0F &&& b0).toNat = tok.length) (ht : tok.length ≤ 8)
    (hos : (os.map (·.1)).Pairwise (· ≤ ·) ∧ ∀ o ∈ os, o.1 ≤ 65535 ∧ o.2.length ≤ 65804)
    (h15 : hb.toNat / 16 = 15 ∨ hb.toNat % 16 = 15) (hff : hb ≠ 255) :
    (dec (b0 :: b1 :: b2 :: b3 :: (tok ++ wireOpts 0 os ++ (hb :: tail)))).isErr = true := by
  sorry

theorem reject_truncated_ext (b0 b1 b2 b3 : UInt8) (tok : Bytes) (os : List (Nat × Bytes))
    (hb : UInt8) (tail : Bytes)
    (htk : (0x0F &&& b0).toNat = tok.length) (ht : tok.length ≤ 8)
    (hos : (os.map (·.1)).Pairwise (· ≤ ·) ∧ ∀ o ∈ os, o.1 ≤ 65535 ∧ o.2.length ≤ 65804)
    (hff : hb ≠ 255)
    (hshort : tail.length < extBytesOf (hb.toNat / 16) + extBytesOf (hb.toNat % 16)) :
    (dec (b0 :: b1 :: b2 :: b3 :: (tok ++ wireOpts 0 os ++ (hb :: tail)))).isErr = true := by
  sorry

theorem reject_truncated_value (b0 b1 b2 b3 : UInt8) (tok : Bytes) (os : List (Nat × Bytes))
    (hb : UInt8) (tail : Bytes) (delta len : Nat) (r1 r2 : Bytes)
    (htk : (0x0F &&& b0).toNat = tok.length) (ht : tok.length ≤ 8)
    (hos : (os.map (·.1)).Pairwise (· ≤ ·) ∧ ∀ o ∈ os, o.1 ≤ 65535 ∧ o.2.length ≤ 65804)
    (hff : hb ≠ 255) (hd : rdExt true (hb.toNat / 16) tail = .ok (delta, r1))
    (hl : rdExt false (hb.toNat % 16) r1 = .ok (len, r2)) (hshort : r2.length < len) :
    (dec (b0 :: b1 :: b2 :: b3 :: (tok ++ wireOpts 0 os ++ (hb :: tail)))).isErr = true := by
  sorry

theorem reject_number_overflow (b0 b1 b2 b3 : UInt8) (tok : Bytes) (os : List (Nat × Bytes))
    (hb : UInt8) (tail : Bytes) (delta : Nat) (r : Bytes)
    (htk : (0x0F &&& b0).toNat = tok.length) (ht : tok.length ≤ 8)
    (hos : (os.map (·.1)).Pairwise (· ≤ ·) ∧ ∀ o ∈ os, o.1 ≤ 65535 ∧ o.2.length ≤ 65804)
    (hff : hb ≠ 255) (hd : rdExt true (hb.toNat / 16) tail = .ok (delta, r))
    (hover : (os.getLast?.map (·.1)).getD 0 + delta > 65535) :
    (dec (b0 :: b1 :: b2 :: b3 :: (tok ++ wireOpts 0 os ++ (hb :: tail)))).isErr = true := by
  sorry

end Codec
end CoapLite
