/-
Inverse direction of the codec proofs: whatever the decoder accepts re-encodes
to the input (canonicity), totality, soundness w.r.t. the RFC image, and the
rejection classes.  Used by Props/C02, C03.
-/
import CoapLite.Model.CodecAbs
import CoapLite.Lemmas.CodecFwd
import CoapLite.Lemmas.CodecInvBasic

namespace CoapLite
namespace Codec
open Spec

theorem enc_dec (b : Bytes) (p : Packet) (h : dec b = .ok p) :
    ∃ pre, enc p none = .ok pre ∧
      (b = pre ∨
       (b = pre ++ [0xFF] ∧ p.payload = []) ∨
       (∃ pl, b = pre ++ 0xFF :: pl ∧ p.payload = pl ∧ b[1]? = some 0)) := by
  obtain ⟨ob, he, hb, hc, _⟩ := Inv.dec_shape b p h
  refine ⟨_, Inv.enc_none_eq p ob he, ?_⟩
  rcases hb with ⟨hb, hp⟩ | hb
  · left
    have : sent p = false := by simp [sent, hp]
    simp [this, hb]
  · by_cases hp : p.payload = []
    · right; left
      have : sent p = false := by simp [sent, hp]
      rw [hp] at hb
      simp [this, hb, hp]
    · by_cases hcode : p.header.code = .Empty
      · right; right
        have : sent p = false := by simp [sent, hcode]
        refine ⟨p.payload, ?_, rfl, hc.2 hcode⟩
        simp [this, hb]
      · left
        have : sent p = true := by simp [sent, hcode, hp]
        simp [this, hb]

theorem enc_dec_exact (b : Bytes) (p : Packet) (h : dec b = .ok p)
    (hp : p.payload ≠ []) (hc : b[1]? ≠ some 0) : enc p none = .ok b := by
  obtain ⟨pre, he, rfl | ⟨_, h0⟩ | ⟨pl, _, _, h1⟩⟩ := enc_dec b p h
  · exact he
  · exact absurd h0 hp
  · exact absurd h1 hc

theorem dec_injective (b₁ b₂ : Bytes) (p : Packet) (h₁ : dec b₁ = .ok p) (h₂ : dec b₂ = .ok p) :
    (∃ pre, enc p none = .ok pre ∧ pre <+: b₁ ∧ pre <+: b₂) ∧
    (p.payload ≠ [] → b₁ = b₂) := by
  constructor
  · obtain ⟨pre, he, hb1⟩ := enc_dec b₁ p h₁
    obtain ⟨pre', he', hb2⟩ := enc_dec b₂ p h₂
    rw [he] at he'
    simp only [Res.ok.injEq] at he'
    subst he'
    refine ⟨pre, he, ?_, ?_⟩
    · rcases hb1 with rfl | ⟨rfl, _⟩ | ⟨pl, rfl, _, _⟩
      · exact List.prefix_refl _
      · exact List.prefix_append _ _
      · exact List.prefix_append _ _
    · rcases hb2 with rfl | ⟨rfl, _⟩ | ⟨pl, rfl, _, _⟩
      · exact List.prefix_refl _
      · exact List.prefix_append _ _
      · exact List.prefix_append _ _
  · intro hp
    obtain ⟨ob, he, hb1, _, _⟩ := Inv.dec_shape b₁ p h₁
    obtain ⟨ob', he', hb2, _, _⟩ := Inv.dec_shape b₂ p h₂
    rw [he] at he'
    simp only [Res.ok.injEq] at he'
    subst he'
    rcases hb1 with ⟨_, h0⟩ | hb1
    · exact absurd h0 hp
    rcases hb2 with ⟨_, h0⟩ | hb2
    · exact absurd h0 hp
    rw [hb1, hb2]

theorem dec_never_panics (b : Bytes) : dec b ≠ .panic := by
  unfold dec
  split
  · simp only
    split
    · simp
    · split
      · simp
      · split
        · simp
        · simp
        · rename_i hd
          exact absurd hd (Inv.decOpts_ne_panic _ _ _)
  · simp

theorem dec_wf (b : Bytes) (p : Packet) (h : dec b = .ok p) : PktWF p := by
  obtain ⟨_, _, _, _, hwf⟩ := Inv.dec_shape b p h
  exact hwf

theorem dec_sound (b : Bytes) (p : Packet) (h : dec b = .ok p) :
    b = wire (toMsg p) ∨ b = wire (toMsg p) ++ [0xFF] ∨
      (∃ pl, b = wire (toMsg p) ++ 0xFF :: pl ∧ b[1]? = some 0) := by
  obtain ⟨pre, he, hb⟩ := enc_dec b p h
  rw [enc_eq_wire p (dec_wf b p h)] at he
  simp only [Res.ok.injEq] at he
  subst he
  rcases hb with hb | ⟨hb, _⟩ | ⟨pl, hb, _, h1⟩
  · exact Or.inl hb
  · exact Or.inr (Or.inl hb)
  · exact Or.inr (Or.inr ⟨pl, hb, h1⟩)

theorem reject_short (b : Bytes) (h : b.length < 4) : dec b = .err .invalidHeader := by
  match b, h with
  | [], _ => rfl
  | [_], _ => rfl
  | [_, _], _ => rfl
  | [_, _, _], _ => rfl
  | _ :: _ :: _ :: _ :: _, h => simp at h; omega

theorem reject_tkl (b0 b1 b2 b3 : UInt8) (rest : Bytes) (h : (0x0F &&& b0).toNat ≥ 9) :
    dec (b0 :: b1 :: b2 :: b3 :: rest) = .err .invalidTokenLength := by
  simp only [dec]
  rw [if_pos (by omega)]

theorem reject_truncated_token (b0 b1 b2 b3 : UInt8) (rest : Bytes)
    (h : rest.length < (0x0F &&& b0).toNat) :
    (dec (b0 :: b1 :: b2 :: b3 :: rest)).isErr = true := by
  simp only [dec]
  by_cases h8 : (0x0F &&& b0).toNat > 8
  · rw [if_pos h8]; rfl
  · rw [if_neg h8, if_pos (by omega)]; rfl


theorem reject_nibble15 (b0 b1 b2 b3 : UInt8) (tok : Bytes) (os : List (Nat × Bytes))
    (hb : UInt8) (tail : Bytes)
    (htk : (0x0F &&& b0).toNat = tok.length) (ht : tok.length ≤ 8)
    (hos : (os.map (·.1)).Pairwise (· ≤ ·) ∧ ∀ o ∈ os, o.1 ≤ 65535 ∧ o.2.length ≤ 65804)
    (h15 : hb.toNat / 16 = 15 ∨ hb.toNat % 16 = 15) (hff : hb ≠ 255) :
    (dec (b0 :: b1 :: b2 :: b3 :: (tok ++ wireOpts 0 os ++ (hb :: tail)))).isErr = true := by
  apply Inv.dec_framed_err _ _ _ _ _ _ _ htk ht hos
  intro acc'
  cases h1 : rdExt true (hb.toNat / 16) tail with
  | err e => rw [Inv.decOpts_cons_err1 _ _ _ _ hff h1]; rfl
  | panic => exact absurd h1 (Inv.rdExt_ne_panic _ _ _)
  | ok r =>
    obtain ⟨delta, r1⟩ := r
    rcases h15 with h | h
    · rw [h] at h1
      obtain ⟨e, he⟩ := Inv.rdExt_15 true tail
      rw [he] at h1; simp at h1
    · obtain ⟨e, he⟩ := Inv.rdExt_15 false r1
      rw [← h] at he
      rw [Inv.decOpts_cons_err2 _ _ _ _ hff h1 he]; rfl

theorem reject_truncated_ext (b0 b1 b2 b3 : UInt8) (tok : Bytes) (os : List (Nat × Bytes))
    (hb : UInt8) (tail : Bytes)
    (htk : (0x0F &&& b0).toNat = tok.length) (ht : tok.length ≤ 8)
    (hos : (os.map (·.1)).Pairwise (· ≤ ·) ∧ ∀ o ∈ os, o.1 ≤ 65535 ∧ o.2.length ≤ 65804)
    (hff : hb ≠ 255)
    (hshort : tail.length < extBytesOf (hb.toNat / 16) + extBytesOf (hb.toNat % 16)) :
    (dec (b0 :: b1 :: b2 :: b3 :: (tok ++ wireOpts 0 os ++ (hb :: tail)))).isErr = true := by
  apply Inv.dec_framed_err _ _ _ _ _ _ _ htk ht hos
  intro acc'
  cases h1 : rdExt true (hb.toNat / 16) tail with
  | err e => rw [Inv.decOpts_cons_err1 _ _ _ _ hff h1]; rfl
  | panic => exact absurd h1 (Inv.rdExt_ne_panic _ _ _)
  | ok r =>
    obtain ⟨delta, r1⟩ := r
    have hlen := Inv.rdExt_len h1
    obtain ⟨e, he⟩ := Inv.rdExt_short (d := false) (nib := hb.toNat % 16) (bs := r1) (by omega)
    rw [Inv.decOpts_cons_err2 _ _ _ _ hff h1 he]; rfl

theorem reject_truncated_value (b0 b1 b2 b3 : UInt8) (tok : Bytes) (os : List (Nat × Bytes))
    (hb : UInt8) (tail : Bytes) (delta len : Nat) (r1 r2 : Bytes)
    (htk : (0x0F &&& b0).toNat = tok.length) (ht : tok.length ≤ 8)
    (hos : (os.map (·.1)).Pairwise (· ≤ ·) ∧ ∀ o ∈ os, o.1 ≤ 65535 ∧ o.2.length ≤ 65804)
    (hff : hb ≠ 255) (hd : rdExt true (hb.toNat / 16) tail = .ok (delta, r1))
    (hl : rdExt false (hb.toNat % 16) r1 = .ok (len, r2)) (hshort : r2.length < len) :
    (dec (b0 :: b1 :: b2 :: b3 :: (tok ++ wireOpts 0 os ++ (hb :: tail)))).isErr = true := by
  apply Inv.dec_framed_err _ _ _ _ _ _ _ htk ht hos
  intro acc'
  rw [Inv.decOpts_cons _ _ _ _ hff hd hl]
  by_cases hn : (os.getLast?.map (·.1)).getD 0 + delta > 65535
  · rw [if_pos hn]; rfl
  · rw [if_neg hn, if_pos (by omega)]; rfl

theorem reject_number_overflow (b0 b1 b2 b3 : UInt8) (tok : Bytes) (os : List (Nat × Bytes))
    (hb : UInt8) (tail : Bytes) (delta : Nat) (r : Bytes)
    (htk : (0x0F &&& b0).toNat = tok.length) (ht : tok.length ≤ 8)
    (hos : (os.map (·.1)).Pairwise (· ≤ ·) ∧ ∀ o ∈ os, o.1 ≤ 65535 ∧ o.2.length ≤ 65804)
    (hff : hb ≠ 255) (hd : rdExt true (hb.toNat / 16) tail = .ok (delta, r))
    (hover : (os.getLast?.map (·.1)).getD 0 + delta > 65535) :
    (dec (b0 :: b1 :: b2 :: b3 :: (tok ++ wireOpts 0 os ++ (hb :: tail)))).isErr = true := by
  apply Inv.dec_framed_err _ _ _ _ _ _ _ htk ht hos
  intro acc'
  cases h2 : rdExt false (hb.toNat % 16) r with
  | err e => rw [Inv.decOpts_cons_err2 _ _ _ _ hff hd h2]; rfl
  | panic => exact absurd h2 (Inv.rdExt_ne_panic _ _ _)
  | ok x =>
    obtain ⟨len, r2⟩ := x
    rw [Inv.decOpts_cons _ _ _ _ hff hd h2, if_pos hover]; rfl

end Codec
end CoapLite
