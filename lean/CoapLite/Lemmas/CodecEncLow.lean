/-
`encLow` (Model/CodecEncLow.lean: usize/u16 arithmetic that panics on overflow, vectors with a capacity,
raw copies that panic outside the allocation) computes exactly `enc` (Model/Codec.lean) for every message
whose option numbers ascend and fit 16 bits – what a `BTreeMap<u16, _>` holds – and whose total size is
below 2^63. Hence it never panics: no addition overflows, no copy leaves the allocation, `set_len` never
exceeds the capacity.
-/
import CoapLite.Model.CodecEncLow
import CoapLite.Lemmas.CodecFwd

namespace CoapLite
namespace CodecEncLow
open Codec CodecLow

theorem or_nib : ∀ a b : Fin 15, (a.val * 16 ||| b.val) = a.val * 16 + b.val := by decide
theorem asU8_eq (x : Nat) : asU8 x = UInt8.ofNat x := UInt8.ofNat_mod_size'
theorem nibble_le (x : Nat) : nibble x ≤ 14 := by
  unfold nibble; split
  · omega
  · split <;> omega

theorem headerByte_eq (delta len : Nat) :
    headerByte delta len = UInt8.ofNat (nibble delta * 16 + nibble len) := by
  have h := or_nib ⟨nibble delta, by have := nibble_le delta; omega⟩ ⟨nibble len, by have := nibble_le len; omega⟩
  simp only at h
  rw [← h]
  unfold headerByte nibble
  simp only
  by_cases d1 : delta ≤ 12 <;> by_cases d2 : delta < 269 <;> by_cases l1 : len ≤ 12 <;>
    by_cases l2 : len < 269 <;> simp only [d1, d2, l1, l2, ↓reduceIte] <;>
    first
      | rfl
      | (have a : delta * 16 % 256 = delta * 16 := Nat.mod_eq_of_lt (by omega)
         have b : len % 256 = len := Nat.mod_eq_of_lt (by omega)
         simp only [a, b])
      | (have a : delta * 16 % 256 = delta * 16 := Nat.mod_eq_of_lt (by omega)
         simp only [a])
      | (have b : len % 256 = len := Nat.mod_eq_of_lt (by omega)
         simp only [b])
      | omega

theorem ext_length_le (x : Nat) : (ext x).length ≤ 2 := by
  unfold ext; split
  · simp
  · split <;> simp

theorem optHeaderLow_spec (delta len : Nat) :
    optHeaderLow delta len =
      if len ≥ 269 ∧ len - 269 > 65535 then .err .invalidOptionLength
      else .ok (UInt8.ofNat (nibble delta * 16 + nibble len) :: (ext delta ++ ext len)) := by
  unfold optHeaderLow ext
  simp only [headerByte_eq, asU8_eq]
  repeat' split
  all_goals first | (exfalso; omega) | simp
theorem addW_ok {bits a b : Nat} (h : a + b < 2 ^ bits) : addW bits a b = .ok (a + b) := by
  unfold addW; rw [if_pos h]

theorem reserve_ok (v : Vec) (n : Nat) (h : v.data.length + n < 2 ^ 63) :
    v.reserve n = .ok { v with cap := max v.cap (v.data.length + n) } := by
  unfold Vec.reserve
  have : v.data.length + n < 2 ^ usizeBits := by
    have : (2 : Nat) ^ 63 < 2 ^ usizeBits := by unfold usizeBits; decide
    omega
  rw [addW_ok this]
  simp only [h, ↓reduceIte]

theorem appendRaw2_ok (v : Vec) (a b : Bytes) (hc : v.data.length + a.length + b.length ≤ v.cap)
    (h : v.data.length + a.length + b.length < 2 ^ 63) :
    v.appendRaw2 a b = .ok { v with data := v.data ++ a ++ b } := by
  have h64 : (2 : Nat) ^ 63 < 2 ^ usizeBits := by unfold usizeBits; decide
  unfold Vec.appendRaw2
  simp only
  rw [addW_ok (by omega)]
  simp only
  rw [if_neg (by omega), addW_ok (by omega)]
  simp only
  rw [if_neg (by omega)]

/-- one option instance -/
theorem encOptLow_spec (ob : Vec) (prev num : Nat) (v : Bytes)
    (hasc : prev ≤ num) (hn : num < 65536) (hsz : ob.data.length + 5 + v.length < 2 ^ 63) :
    (∀ b, encOpt prev num v = .ok b →
        ∃ c, encOptLow ob prev num v = .ok ({ data := ob.data ++ b, cap := c }, num)) ∧
    (∀ e, encOpt prev num v = .err e → encOptLow ob prev num v = .err e) := by
  have h64 : (2 : Nat) ^ 63 < 2 ^ usizeBits := by unfold usizeBits; decide
  unfold encOpt encOptLow subW
  simp only [hasc, ↓reduceIte, optHeaderLow_spec]
  by_cases hl : v.length ≥ 269 ∧ v.length - 269 > 65535
  · simp only [hl, and_self, ↓reduceIte]
    exact ⟨by intro b h; simp at h, by intro e h; simpa using h⟩
  · simp only [hl, ↓reduceIte]
    refine ⟨?_, by intro e h; simp at h⟩
    intro b hb
    simp only [Res.ok.injEq] at hb
    subst hb
    have e1 := ext_length_le (num - prev)
    have e2 := ext_length_le v.length
    rw [addW_ok (by show prev + (num - prev) < 2 ^ 16; omega)]
    simp only
    rw [addW_ok (by simp only [List.length_cons, List.length_append]; omega)]
    simp only
    rw [reserve_ok _ _ (by simp only [List.length_cons, List.length_append]; omega)]
    simp only
    rw [appendRaw2_ok _ _ _ (by simp only [List.length_cons, List.length_append]; omega)
      (by simp only [List.length_cons, List.length_append]; omega)]
    simp only
    have : prev + (num - prev) = num := by omega
    rw [this]
    refine ⟨max ob.cap (ob.data.length + ((UInt8.ofNat (nibble (num - prev) * 16 + nibble v.length) ::
      (ext (num - prev) ++ ext v.length)).length + v.length)), ?_⟩
    simp [List.append_assoc]

/-! ### the loops -/

/-- an upper bound of what a value list adds to `options_bytes`: at most 5 header bytes per value -/
def valuesSize (vs : List Bytes) : Nat := (vs.map (fun v => 5 + v.length)).sum

def optsSize : OptMap → Nat
  | [] => 0
  | (_, vs) :: rest => valuesSize vs + optsSize rest

/-- what a `BTreeMap<u16, _>` iterates over: numbers ascending (from `prev` on), each below 2^16 -/
def AscFrom : Nat → OptMap → Prop
  | _, [] => True
  | prev, (n, _) :: rest => prev ≤ n ∧ n < 65536 ∧ AscFrom n rest

theorem ascFrom_weaken : ∀ (m : OptMap) (a b : Nat), a ≤ b → AscFrom b m → AscFrom a m := by
  intro m
  cases m with
  | nil => intros; trivial
  | cons kv rest => intro a b hab h; exact ⟨Nat.le_trans hab h.1, h.2.1, h.2.2⟩

theorem encOpt_length {prev num : Nat} {v b : Bytes} (h : encOpt prev num v = .ok b) :
    b.length ≤ 5 + v.length := by
  unfold encOpt at h
  split at h
  · simp at h
  · simp only [Res.ok.injEq] at h
    subst h
    have e1 := ext_length_le (num - prev)
    have e2 := ext_length_le v.length
    simp only [List.length_cons, List.length_append]
    omega

theorem encValuesLow_spec (num : Nat) (hn : num < 65536) :
    ∀ (vs : List Bytes) (ob : Vec) (prev : Nat), prev ≤ num →
      ob.data.length + valuesSize vs < 2 ^ 63 →
      (∀ b p', encValues prev num vs = .ok (b, p') →
          ∃ c, encValuesLow ob prev num vs = .ok ({ data := ob.data ++ b, cap := c }, p') ∧ p' ≤ num ∧
            b.length ≤ valuesSize vs) ∧
      (∀ e, encValues prev num vs = .err e → encValuesLow ob prev num vs = .err e) := by
  intro vs
  induction vs with
  | nil =>
    intro ob prev hp _
    refine ⟨?_, by intro e h; simp [encValues] at h⟩
    intro b p' h
    simp only [encValues, Res.ok.injEq, Prod.mk.injEq] at h
    obtain ⟨rfl, rfl⟩ := h
    exact ⟨ob.cap, by simp [encValuesLow], hp, by simp [valuesSize]⟩
  | cons v vs ih =>
    intro ob prev hp hsz
    have hvs : valuesSize (v :: vs) = 5 + v.length + valuesSize vs := by simp [valuesSize]
    obtain ⟨hok, herr⟩ := encOptLow_spec ob prev num v hp hn (by omega)
    unfold encValues encValuesLow
    cases ho : encOpt prev num v with
    | panic => exact ⟨by intro b p' h; simp at h, by intro e h; simp at h⟩
    | err e0 =>
      rw [herr e0 ho]
      exact ⟨by intro b p' h; simp at h, by intro e h; simpa using h⟩
    | ok b0 =>
      obtain ⟨c, hlow⟩ := hok b0 ho
      have hb0 := encOpt_length ho
      rw [hlow]
      simp only
      obtain ⟨ihok, iherr⟩ := ih { data := ob.data ++ b0, cap := c } num (Nat.le_refl _)
        (by simp only [List.length_append]; omega)
      cases hv : encValues num num vs with
      | panic => exact ⟨by intro b p' h; simp at h, by intro e h; simp at h⟩
      | err e1 =>
        rw [iherr e1 hv]
        exact ⟨by intro b p' h; simp at h, by intro e h; simpa using h⟩
      | ok r =>
        obtain ⟨bs, p1⟩ := r
        obtain ⟨c', hl, hp1, hlen⟩ := ihok bs p1 hv
        refine ⟨?_, by intro e h; simp at h⟩
        intro b p' h
        simp only [Res.ok.injEq, Prod.mk.injEq] at h
        obtain ⟨rfl, rfl⟩ := h
        refine ⟨c', ?_, hp1, by simp only [List.length_append]; omega⟩
        rw [hl]
        simp [List.append_assoc]

theorem encOptsLow_spec : ∀ (m : OptMap) (ob : Vec) (prev : Nat), AscFrom prev m →
    ob.data.length + optsSize m < 2 ^ 63 →
    (∀ b, encOpts prev m = .ok b →
        ∃ c, encOptsLow ob prev m = .ok { data := ob.data ++ b, cap := c } ∧ b.length ≤ optsSize m) ∧
    (∀ e, encOpts prev m = .err e → encOptsLow ob prev m = .err e) := by
  intro m
  induction m with
  | nil =>
    intro ob prev _ _
    refine ⟨?_, by intro e h; simp [encOpts] at h⟩
    intro b h
    simp only [encOpts, Res.ok.injEq] at h
    subst h
    exact ⟨ob.cap, by simp [encOptsLow], by simp [optsSize]⟩
  | cons kv rest ih =>
    intro ob prev hasc hsz
    obtain ⟨num, vs⟩ := kv
    obtain ⟨hp, hn, hrest⟩ := hasc
    have hos : optsSize ((num, vs) :: rest) = valuesSize vs + optsSize rest := rfl
    obtain ⟨vok, verr⟩ := encValuesLow_spec num hn vs ob prev hp (by omega)
    unfold encOpts encOptsLow
    cases hv : encValues prev num vs with
    | panic => exact ⟨by intro b h; simp at h, by intro e h; simp at h⟩
    | err e0 =>
      rw [verr e0 hv]
      exact ⟨by intro b h; simp at h, by intro e h; simpa using h⟩
    | ok r =>
      obtain ⟨b0, p1⟩ := r
      obtain ⟨c, hl, hp1, hlen⟩ := vok b0 p1 hv
      rw [hl]
      simp only
      obtain ⟨ihok, iherr⟩ := ih { data := ob.data ++ b0, cap := c } p1 (ascFrom_weaken rest p1 num hp1 hrest)
        (by simp only [List.length_append]; omega)
      cases hr : encOpts p1 rest with
      | panic => exact ⟨by intro b h; simp at h, by intro e h; simp at h⟩
      | err e1 =>
        rw [iherr e1 hr]
        exact ⟨by intro b h; simp at h, by intro e h; simpa using h⟩
      | ok bs =>
        obtain ⟨c', hl', hlen'⟩ := ihok bs hr
        refine ⟨?_, by intro e h; simp at h⟩
        intro b h
        simp only [Res.ok.injEq] at h
        subst h
        refine ⟨c', ?_, by simp only [List.length_append]; omega⟩
        rw [hl']
        simp [List.append_assoc]

/-! ### the whole serialiser -/

theorem foldl_push_data (bs : Bytes) : ∀ (v : Vec), (bs.foldl Vec.push v).data = v.data ++ bs := by
  induction bs with
  | nil => intro v; simp
  | cons b bs ih => intro v; simp [List.foldl_cons, ih, Vec.push]

theorem foldl_push_cap (bs : Bytes) : ∀ (v : Vec), v.cap ≤ (bs.foldl Vec.push v).cap := by
  induction bs with
  | nil => intro v; simp
  | cons b bs ih =>
    intro v
    simp only [List.foldl_cons]
    exact Nat.le_trans (by simp [Vec.push]; exact Nat.le_max_left _ _) (ih _)

theorem headerBytes_length (h : Header) : (headerBytes h).length = 4 := rfl

theorem bufLengthLow_ok (p : Packet) (n : Nat) (h : 4 + p.token.length + n + 1 + p.payload.length < 2 ^ 63) :
    bufLengthLow p n = .ok (4 + p.token.length + n + (if sent p then 1 + p.payload.length else 0)) := by
  have h64 : (2 : Nat) ^ 63 < 2 ^ usizeBits := by unfold usizeBits; decide
  unfold bufLengthLow
  rw [addW_ok (by omega)]
  simp only
  by_cases hs : sent p = true
  · simp only [hs, ↓reduceIte]
    rw [addW_ok (by omega)]
    simp only
    rw [addW_ok (by omega)]
    simp only
    rw [addW_ok (by omega)]
    congr 1
    omega
  · simp only [hs, Bool.false_eq_true, ↓reduceIte]
    rw [addW_ok (by omega)]
    simp

theorem assemble_ok (p : Packet) (ob : Bytes)
    (h : 4 + p.token.length + ob.length + 1 + p.payload.length < 2 ^ 63) :
    assemble p ob (4 + p.token.length + ob.length + (if sent p then 1 + p.payload.length else 0)) =
      .ok (headerBytes p.header ++ p.token ++ ob ++ (if sent p then 0xFF :: p.payload else [])) := by
  have h64 : (2 : Nat) ^ 63 < 2 ^ usizeBits := by unfold usizeBits; decide
  unfold assemble Vec.withCapacity
  have hL : 4 + p.token.length + ob.length + (if sent p then 1 + p.payload.length else 0) < 2 ^ 63 := by
    split <;> omega
  rw [if_pos hL]
  simp only
  rw [if_neg (by omega)]
  rw [addW_ok (by omega)]
  simp only
  have hd : ((headerBytes p.header).foldl Vec.push
      { data := [], cap := 4 + p.token.length + ob.length + (if sent p then 1 + p.payload.length else 0) }).data =
      headerBytes p.header := by rw [foldl_push_data]; rfl
  rw [reserve_ok _ _ (by rw [hd, headerBytes_length]; omega)]
  simp only
  rw [appendRaw2_ok _ _ _ (by simp only [hd, headerBytes_length]; exact Nat.le_trans (by omega) (Nat.le_max_right _ _))
    (by simp only [hd, headerBytes_length]; omega)]
  simp only [hd]
  by_cases hs : sent p = true
  · simp only [hs, ↓reduceIte]
    rw [reserve_ok _ _ (by simp only [Vec.push, List.length_append, headerBytes_length, List.length_cons, List.length_nil]; omega)]
    simp only
    rw [appendRaw2_ok _ _ _ (by simp only [Vec.push, List.length_append, headerBytes_length, List.length_cons, List.length_nil]; exact Nat.le_trans (by omega) (Nat.le_max_right _ _))
      (by simp only [Vec.push, List.length_append, headerBytes_length, List.length_cons, List.length_nil]; omega)]
    simp [Vec.push, List.append_assoc]
  · simp only [hs, Bool.false_eq_true, ↓reduceIte, List.append_nil]

/-- the low-level serialiser computes exactly `enc` -/
theorem encLow_eq_enc (p : Packet) (limit : Option Nat) (hasc : AscFrom 0 p.options)
    (hsz : 4 + p.token.length + optsSize p.options + 1 + p.payload.length < 2 ^ 63) :
    encLow p limit = enc p limit := by
  obtain ⟨ook, oerr⟩ := encOptsLow_spec p.options Vec.empty 0 hasc (by simp only [Vec.empty, List.length_nil]; omega)
  cases ho : encOpts 0 p.options with
  | panic =>
    have : enc p limit = .panic := by unfold enc; rw [ho]
    exact absurd this (Codec.enc_never_panics p limit)
  | err e =>
    unfold encLow enc
    rw [oerr e ho, ho]
  | ok ob =>
    obtain ⟨c, hl, hlen⟩ := ook ob ho
    unfold encLow enc
    rw [hl, ho]
    simp only [Vec.empty, List.nil_append]
    rw [bufLengthLow_ok p ob.length (by omega)]
    simp only
    rw [assemble_ok p ob (by omega)]
    cases limit with
    | none => simp
    | some l =>
      simp only
      by_cases hov : 4 + p.token.length + ob.length + (if sent p then 1 + p.payload.length else 0) > l
      · simp [hov]
      · simp [hov]

/-- … hence it never panics: no `usize` / `u16` operation overflows, no raw copy leaves the allocation,
`set_len` never exceeds the capacity -/
theorem encLow_never_panics (p : Packet) (limit : Option Nat) (hasc : AscFrom 0 p.options)
    (hsz : 4 + p.token.length + optsSize p.options + 1 + p.payload.length < 2 ^ 63) :
    encLow p limit ≠ .panic := by
  rw [encLow_eq_enc p limit hasc hsz]
  exact Codec.enc_never_panics p limit

/-- the option map of a `Packet` – a `BTreeMap<u16, _>`: strictly ascending numbers that fit 16 bits – is
ascending in the sense of the loop invariant -/
theorem ascFrom_of_sorted : ∀ (m : OptMap) (prev : Nat), m.Sorted → (∀ kv ∈ m, kv.1 ≤ 65535) →
    (∀ kv ∈ m.head?, prev ≤ kv.1) → AscFrom prev m := by
  intro m
  induction m with
  | nil => intros; trivial
  | cons kv rest ih =>
    intro prev hs hk hp
    obtain ⟨n, vs⟩ := kv
    refine ⟨hp (n, vs) (by simp), by have := hk (n, vs) (by simp); simp only at this; omega, ?_⟩
    cases rest with
    | nil => trivial
    | cons kv2 rest2 =>
      obtain ⟨n2, vs2⟩ := kv2
      have hs' : n < n2 ∧ OptMap.Sorted ((n2, vs2) :: rest2) := hs
      apply ih n hs'.2 (fun kv h => hk kv (by simp [h]))
      intro kv h
      simp only [List.head?_cons, Option.mem_def, Option.some.injEq] at h
      subst h
      exact Nat.le_of_lt hs'.1

theorem encLow_refines (p : Packet) (limit : Option Nat) (hs : p.options.Sorted)
    (hk : ∀ kv ∈ p.options, kv.1 ≤ 65535)
    (hsz : 4 + p.token.length + optsSize p.options + 1 + p.payload.length < 2 ^ 63) :
    encLow p limit = enc p limit :=
  encLow_eq_enc p limit (ascFrom_of_sorted p.options 0 hs hk (fun _ _ => Nat.zero_le _)) hsz

end CodecEncLow
end CoapLite
