/-
Whole transfers: a client fetching the blocks of a cached response in order
(C08) and a client uploading the blocks of a body in order (C09), as folds of
the handler's core over the request sequence.
-/
import CoapLite.Lemmas.BlockHandler

namespace CoapLite.Block

/-! ### downloads (Block2) -/

/-- one fetched piece: block number, block size, the payload received, its `more` flag -/
structure Piece where
  num : Nat
  size : Nat
  chunk : Bytes
  more : Bool

/-- the pieces are what the handler serves for `body` and block numbers agree
with byte offsets: piece `j` starts where piece `j-1` ended (this covers one
fixed size as well as a size reduced at any point); all but the last have
`more` set, the last has it clear -/
def Tiles (body : Bytes) : Nat → List Piece → Prop
  | _, [] => False
  | off, [p] => p.num * p.size = off ∧ chunkAt body p.size p.num = some (p.chunk, p.more) ∧ p.more = false
  | off, p :: q :: rest =>
    p.num * p.size = off ∧ chunkAt body p.size p.num = some (p.chunk, p.more) ∧ p.more = true ∧
    Tiles body (off + p.chunk.length) (q :: rest)

/-- a client that requests blocks in increasing offset order reassembles exactly
the body; every non-final piece carries exactly `size` bytes -/
theorem tiles_reassemble (body : Bytes) (ps : List Piece) (h : Tiles body 0 ps)
    (hs : ∀ p ∈ ps, 0 < p.size) :
    (ps.flatMap (·.chunk)) = body ∧ (∀ p ∈ ps, p.more = true → p.chunk.length = p.size) := by
  sorry

/-- fetching blocks 0,1,…,n-1 at one size: the canonical tiling exists for
every body (including the empty one) -/
def canonicalPieces (body : Bytes) (size : Nat) : List Piece :=
  let n := if body.length = 0 then 1 else (body.length + size - 1) / size
  (List.range n).map (fun k =>
    { num := k, size := size,
      chunk := (body.drop (k * size)).take size,
      more := decide ((k + 1) * size < body.length) })

theorem canonical_tiles (body : Bytes) (size : Nat) (hs : 0 < size) :
    Tiles body 0 (canonicalPieces body size) := by
  sorry

/-- the follow-up request for block `b2` while `cached` is cached: served from
the cache with exactly the handler's chunk, and the entry is released iff it was
the last one; afterwards (released) the same request goes to the application -/
theorem follow_up_served (req : Request) (resp : Packet) (st : BlockState) (b2 : BlockValue) (cached : Packet)
    (chunk : Bytes) (more : Bool) (M : Nat) (size : Nat)
    (hb1 : firstBlock req.message block1Num = none)
    (hsz : computeMessageSize req.message = .ok size)
    (hn : negotiate none size req.message.payload.length M = .ok none)
    (hb : firstBlock req.message block2Num = some b2) (hc : st.cachedResponse = some cached)
    (hr : req.response = some resp) (hs : resp.options.Sorted) (hcs : cached.options.Sorted)
    (hck : ∀ kv ∈ cached.options, kv.1 ≤ 65535)
    (hch : chunkAt cached.payload b2.size b2.num = some (chunk, more)) :
    ∃ resp', coreRequest M req st =
        ({ req with response := some resp' },
         { st with lastBlock2 := some b2, cachedResponse := if more then some cached else none }, .ok true) ∧
      resp'.payload = chunk ∧ corr resp' = corr resp ∧ resp'.header.code = cached.header.code ∧
      (∃ bs, ({ b2 with more := more } : BlockValue).enc = .ok bs ∧ resp'.getOption block2Num = some [bs]) ∧
      (∀ n, n ≠ block2Num → (cached.getOption n).isSome → resp'.getOption n = cached.getOption n) := by
  sorry

/-! ### uploads (Block1) -/

def chunkOf (B : Bytes) (s i : Nat) : Bytes := (B.drop (i * s)).take s

/-- number of blocks of a body (the empty body is one empty block) -/
def nBlocks (B : Bytes) (s : Nat) : Nat := if B.length = 0 then 1 else (B.length + s - 1) / s

/-- `req` delivers block `i` of body `B` at size exponent `szx` under a budget
that admits the client's block size, and has a prepared reply -/
structure UploadReq (M : Nat) (B : Bytes) (szx i : Nat) (req : Request) : Prop where
  blk : firstBlock req.message block1Num =
    some { num := i, more := decide (i + 1 < nBlocks B (2 ^ (szx + 4))), szx := szx }
  pay : req.message.payload = chunkOf B (2 ^ (szx + 4)) i
  resp : req.response.isSome = true
  rsorted : ∀ r, req.response = some r → r.options.Sorted
  admits : ∃ size, computeMessageSize req.message = .ok size ∧
    2 ^ (szx + 4) ≤ blockBudget size req.message.payload.length M
  szx7 : szx ≤ 7
  num16 : i ≤ 65535

/-- a non-final block – first delivery or consecutive re-delivery, and for block
0 whatever an abandoned upload left in the buffer – is answered 2.31 Continue
with a Block1 option echoing its number and the client's size, does not reach
the application, and leaves exactly the first `i+1` blocks buffered -/
theorem upload_nonfinal (M : Nat) (B : Bytes) (szx i : Nat) (req : Request) (st : BlockState)
    (h : UploadReq M B szx i req) (hnf : i + 1 < nBlocks B (2 ^ (szx + 4)))
    (hbuf : i = 0 ∨ st.cachedPayload.getD [] = B.take (i * 2 ^ (szx + 4)) ∨
            st.cachedPayload.getD [] = B.take ((i + 1) * 2 ^ (szx + 4))) :
    ∃ req' st' resp' bs more',
      coreRequest M req st = (req', st', .ok true) ∧
      st'.cachedPayload = some (B.take ((i + 1) * 2 ^ (szx + 4))) ∧
      st'.cachedResponse = st.cachedResponse ∧
      req'.response = some resp' ∧ resp'.header.code = .Response .Continue ∧
      ({ num := i, more := more', szx := szx } : BlockValue).enc = .ok bs ∧
      (resp'.getOption block1Num).map (·.getLast?) = some (some bs) ∧
      req'.message = req.message := by
  sorry

/-- the final block hands the application the complete body and its reply
carries the Block1 acknowledgement; the buffer is released -/
theorem upload_final (M : Nat) (B : Bytes) (szx i : Nat) (req : Request) (st : BlockState)
    (h : UploadReq M B szx i req) (hf : i + 1 = nBlocks B (2 ^ (szx + 4)))
    (hbuf : i = 0 ∨ st.cachedPayload.getD [] = B.take (i * 2 ^ (szx + 4))) :
    (coreRequest M req st).1.message.payload = B ∧
    (coreRequest M req st).2.1.cachedPayload = none ∧
    ((firstBlock req.message block2Num = none ∨ st.cachedResponse = none) →
      ∃ resp' bs more',
        (coreRequest M req st).2.2 = .ok false ∧
        (coreRequest M req st).1.response = some resp' ∧
        ({ num := i, more := more', szx := szx } : BlockValue).enc = .ok bs ∧
        (resp'.getOption block1Num).map (·.getLast?) = some (some bs)) := by
  sorry

/-- in-order upload with consecutive duplicates: deliveries are pairs (block
index, request); the indices start at 0 and each next one repeats or advances
by one -/
def InOrder : Nat → List (Nat × Request) → Prop
  | _, [] => True
  | i, (j, _) :: rest => (j = i ∨ j = i + 1) ∧ InOrder j rest

/-- fold the handler core over a delivery list -/
def runCore (M : Nat) : BlockState → List (Nat × Request) → BlockState × List (Request × HRes Bool)
  | st, [] => (st, [])
  | st, (_, r) :: rest =>
    let out := coreRequest M r st
    let (st', outs) := runCore M out.2.1 rest
    (st', (out.1, out.2.2) :: outs)

/-- after any in-order sequence of non-final deliveries starting with block 0 –
each possibly delivered more than once in a row, and regardless of what an
earlier abandoned upload left behind – every delivery was answered `ok true`
(not passed to the application) and the buffer holds exactly the blocks sent -/
theorem upload_prefix (M : Nat) (B : Bytes) (szx : Nat) (st0 : BlockState)
    (d : Nat × Request) (ds : List (Nat × Request))
    (h0 : d.1 = 0) (hord : InOrder 0 (d :: ds))
    (hreq : ∀ x ∈ d :: ds, UploadReq M B szx x.1 x.2 ∧ x.1 + 1 < nBlocks B (2 ^ (szx + 4))) :
    let last := ((d :: ds).getLast?.map (·.1)).getD 0
    (runCore M st0 (d :: ds)).1.cachedPayload = some (B.take ((last + 1) * 2 ^ (szx + 4))) ∧
    ∀ o ∈ (runCore M st0 (d :: ds)).2, o.2 = .ok true := by
  sorry

end CoapLite.Block
