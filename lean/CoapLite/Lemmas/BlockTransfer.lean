/-
Whole transfers: a client fetching the blocks of a cached response in order
(C08) and a client uploading the blocks of a body in order (C09), as folds of
the handler's core over the request sequence.
-/
import CoapLite.Lemmas.BlockHandler

namespace CoapLite.Block

/-! ### downloads (Block2) -/

/-- one fetched piece: block number, block size, the payload received, its `more` flag -/
structure Piece where
  num : Nat
  size : Nat
  chunk : Bytes
  more : Bool

/-- the pieces are what the handler serves for `body` and block numbers agree
with byte offsets: piece `j` starts where piece `j-1` ended (this covers one
fixed size as well as a size reduced at any point); all but the last have
`more` set, the last has it clear -/
def Tiles (body : Bytes) : Nat → List Piece → Prop
  | _, [] => False
  | off, [p] => p.num * p.size = off ∧ chunkAt body p.size p.num = some (p.chunk, p.more) ∧ p.more = false
  | off, p :: q :: rest =>
    p.num * p.size = off ∧ chunkAt body p.size p.num = some (p.chunk, p.more) ∧ p.more = true ∧
    Tiles body (off + p.chunk.length) (q :: rest)

/-- a client that requests blocks in increasing offset order reassembles exactly
the body; every non-final piece carries exactly `size` bytes -/
theorem tiles_reassemble_aux (body : Bytes) (ps : List Piece) :
    ∀ off, Tiles body off ps → (∀ p ∈ ps, 0 < p.size) →
      body.take off ++ ps.flatMap (·.chunk) = body ∧
      (∀ p ∈ ps, p.more = true → p.chunk.length = p.size) := by
  induction ps with
  | nil => intro off h; exact absurd h (by simp [Tiles])
  | cons p rest ih =>
    intro off h hs
    cases rest with
    | nil =>
      simp only [Tiles] at h
      obtain ⟨hk, hc, hm⟩ := h
      have ht := tiling_step body off p.size p.num p.chunk p.more hk hc
      refine ⟨?_, ?_⟩
      · simp only [List.flatMap_cons, List.flatMap_nil, List.append_nil]
        rw [ht.1, ht.2 hm, List.take_length]
      · intro q hq hqm
        simp only [List.mem_singleton] at hq
        subst hq
        rw [hm] at hqm
        exact absurd hqm (by simp)
    | cons q rest' =>
      simp only [Tiles] at h
      obtain ⟨hk, hc, hm, hrest⟩ := h
      have ht := tiling_step body off p.size p.num p.chunk p.more hk hc
      have hl := chunkAt_length body p.size p.num p.chunk p.more hc (hs p (List.mem_cons_self ..))
      have ih' := ih (off + p.chunk.length) hrest (fun x hx => hs x (List.mem_cons_of_mem _ hx))
      refine ⟨?_, ?_⟩
      · rw [List.flatMap_cons, ← List.append_assoc, ht.1]
        exact ih'.1
      · intro x hx hxm
        rcases List.mem_cons.1 hx with hx | hx
        · subst hx
          exact hl.2.1 hxm
        · exact ih'.2 x hx hxm

theorem tiles_reassemble (body : Bytes) (ps : List Piece) (h : Tiles body 0 ps)
    (hs : ∀ p ∈ ps, 0 < p.size) :
    (ps.flatMap (·.chunk)) = body ∧ (∀ p ∈ ps, p.more = true → p.chunk.length = p.size) := by
  have := tiles_reassemble_aux body ps 0 h hs
  simpa using this

/-- fetching blocks 0,1,…,n-1 at one size: the canonical tiling exists for
every body (including the empty one) -/
def canonicalPieces (body : Bytes) (size : Nat) : List Piece :=
  let n := if body.length = 0 then 1 else (body.length + size - 1) / size
  (List.range n).map (fun k =>
    { num := k, size := size,
      chunk := (body.drop (k * size)).take size,
      more := decide ((k + 1) * size < body.length) })

/-- ceiling division: `n = ⌈len / size⌉` for `len > 0` satisfies
`(n-1)·size < len ≤ n·size` -/
theorem ceil_div_spec (len size : Nat) (hs : 0 < size) (hl : 0 < len) :
    ∃ n', (len + size - 1) / size = n' + 1 ∧ n' * size < len ∧ len ≤ (n' + 1) * size := by
  have h1 := Nat.div_add_mod (len + size - 1) size
  have h2 := Nat.mod_lt (len + size - 1) hs
  have h3 : 0 < (len + size - 1) / size := Nat.div_pos (by omega) hs
  obtain ⟨n', hn'⟩ : ∃ n', (len + size - 1) / size = n' + 1 := ⟨(len + size - 1) / size - 1, by omega⟩
  refine ⟨n', hn', ?_, ?_⟩
  · rw [hn', Nat.mul_add, Nat.mul_one, Nat.mul_comm] at h1
    omega
  · rw [hn', Nat.mul_add, Nat.mul_one, Nat.mul_comm] at h1
    rw [Nat.add_mul, Nat.one_mul]
    omega

def canonPiece (body : Bytes) (size k : Nat) : Piece :=
  { num := k, size := size,
    chunk := (body.drop (k * size)).take size,
    more := decide ((k + 1) * size < body.length) }

theorem canonical_tiles_aux (body : Bytes) (size : Nat) (m : Nat) :
    ∀ k, (∀ j, k ≤ j → j < k + (m + 1) → j * size < body.length ∨ (j = 0 ∧ body.length = 0)) →
      (∀ j, k ≤ j → j + 1 < k + (m + 1) → (j + 1) * size < body.length) →
      body.length ≤ (k + (m + 1)) * size →
      Tiles body (k * size) ((List.range' k (m + 1)).map (canonPiece body size)) := by
  induction m with
  | zero =>
    intro k H1 H2 H3
    have hc : chunkAt body size k =
        some ((body.drop (k * size)).take size, decide ((k + 1) * size < body.length)) := by
      rcases H1 k (Nat.le_refl _) (by omega) with h | ⟨h0, hl⟩
      · simp [chunkAt, h]
      · subst h0
        have hb : body = [] := List.eq_nil_of_length_eq_zero hl
        subst hb
        simp [chunkAt]
    have hm : ¬ ((k + 1) * size < body.length) := by
      have : (k + (0 + 1)) * size = (k + 1) * size := by simp
      omega
    simp only [Nat.zero_add, List.range'_one, List.map_cons, List.map_nil, Tiles, canonPiece]
    refine ⟨trivial, hc, ?_⟩
    simp [hm]
  | succ m ih =>
    intro k H1 H2 H3
    have hmore : (k + 1) * size < body.length := H2 k (Nat.le_refl _) (by omega)
    have hk : k * size < body.length := by
      have : (k + 1) * size = k * size + size := by rw [Nat.add_mul, Nat.one_mul]
      omega
    have hc : chunkAt body size k =
        some ((body.drop (k * size)).take size, decide ((k + 1) * size < body.length)) := by
      simp [chunkAt, hk]
    have hlen : ((body.drop (k * size)).take size).length = size := by
      have : (k + 1) * size = k * size + size := by rw [Nat.add_mul, Nat.one_mul]
      rw [List.length_take, List.length_drop]
      omega
    have hrec := ih (k + 1)
      (fun j h1 h2 => H1 j (by omega) (by omega))
      (fun j h1 h2 => H2 j (by omega) (by omega))
      (by have : k + 1 + (m + 1) = k + (m + 1 + 1) := by omega
          rw [this]; exact H3)
    rw [List.range'_succ, List.map_cons]
    rw [List.range'_succ, List.map_cons] at hrec ⊢
    simp only [Tiles]
    refine ⟨rfl, hc, by simp [canonPiece, hmore], ?_⟩
    have : k * size + (canonPiece body size k).chunk.length = (k + 1) * size := by
      simp only [canonPiece]
      rw [hlen, Nat.add_mul, Nat.one_mul]
    rw [this]
    exact hrec

theorem canonical_tiles (body : Bytes) (size : Nat) (hs : 0 < size) :
    Tiles body 0 (canonicalPieces body size) := by
  have hcp : canonicalPieces body size =
      (List.range' 0 (if body.length = 0 then 1 else (body.length + size - 1) / size)).map
        (canonPiece body size) := by
    rw [← List.range_eq_range']; rfl
  rw [hcp]
  by_cases hl : body.length = 0
  · have h := canonical_tiles_aux body size 0 0
      (fun j _ h2 => Or.inr ⟨by omega, hl⟩) (fun j _ h2 => by omega) (by omega)
    rw [if_pos hl]
    simpa using h
  · obtain ⟨n', hn, hlt, hle⟩ := ceil_div_spec body.length size hs (by omega)
    have h := canonical_tiles_aux body size n' 0
      (fun j _ h2 => Or.inl (by
        have : j * size ≤ n' * size := Nat.mul_le_mul_right _ (by omega)
        omega))
      (fun j _ h2 => by
        have : (j + 1) * size ≤ n' * size := Nat.mul_le_mul_right _ (by omega)
        omega)
      (by simpa using hle)
    rw [if_neg hl, hn]
    simpa using h

theorem firstBlock_bvok (p : Packet) (n : Nat) (b : BlockValue) (h : firstBlock p n = some b) :
    BvOk b := by
  unfold firstBlock at h
  cases hg : p.getFirstOption n with
  | none => simp [hg] at h
  | some bs =>
    simp only [hg] at h
    rw [C13.dec_spec] at h
    by_cases hc : bs.length ≤ 3 ∧ beValue bs / 16 ≤ 65535
    · rw [if_pos hc] at h
      simp only [Option.some.injEq] at h
      subst h
      exact ⟨hc.2, by simp only; omega⟩
    · rw [if_neg hc] at h
      simp at h

/-- the follow-up request for block `b2` while `cached` is cached: served from
the cache with exactly the handler's chunk, and the entry is released iff it was
the last one; afterwards (released) the same request goes to the application -/
theorem follow_up_served (req : Request) (resp : Packet) (st : BlockState) (b2 : BlockValue) (cached : Packet)
    (chunk : Bytes) (more : Bool) (M : Nat) (size : Nat)
    (hb1 : firstBlock req.message block1Num = none)
    (hsz : computeMessageSize req.message = .ok size)
    (hn : negotiate none size req.message.payload.length M = .ok none)
    (hb : firstBlock req.message block2Num = some b2) (hc : st.cachedResponse = some cached)
    (hr : req.response = some resp) (hs : resp.options.Sorted) (hcs : cached.options.Sorted)
    (hck : ∀ kv ∈ cached.options, kv.1 ≤ 65535)
    (hch : chunkAt cached.payload b2.size b2.num = some (chunk, more))
    (hle : ∀ x, st.cachedSzx = some x → b2.szx ≤ x) :
    ∃ resp', coreRequest M req st =
        ({ req with response := some resp' },
         { st with lastBlock2 := some b2, cachedResponse := if more then some cached else none,
                   cachedSzx := if more then st.cachedSzx else none }, .ok true) ∧
      resp'.payload = chunk ∧ corr resp' = corr resp ∧ resp'.header.code = cached.header.code ∧
      (∃ bs, ({ b2 with more := more } : BlockValue).enc = .ok bs ∧ resp'.getOption block2Num = some [bs]) ∧
      (∀ n, n ≠ block2Num → (cached.getOption n).isSome → resp'.getOption n = cached.getOption n) := by
  have hok : BvOk b2 := firstBlock_bvok _ _ _ hb
  obtain ⟨resp', bs, hsc, henc, hpay, hcorr, hcode, hopt, hcopt, _⟩ :=
    serveCached_spec req resp b2 cached chunk more hr hok hs hcs hck hch
  have h1 := handleBlock1_pass req M st size hb1 hsz hn
  have h2 := handleBlock2_cached req st b2 cached hb hc hle
  rw [hsc] at h2
  refine ⟨resp', ?_, hpay, hcorr, hcode, ⟨bs, henc, hopt⟩, hcopt⟩
  simp only [coreRequest, h1]
  exact h2

/-! ### uploads (Block1) -/

def chunkOf (B : Bytes) (s i : Nat) : Bytes := (B.drop (i * s)).take s

/-- number of blocks of a body (the empty body is one empty block) -/
def nBlocks (B : Bytes) (s : Nat) : Nat := if B.length = 0 then 1 else (B.length + s - 1) / s

/-- `req` delivers block `i` of body `B` at size exponent `szx` under a budget
that admits the client's block size, and has a prepared reply -/
structure UploadReq (M : Nat) (B : Bytes) (szx i : Nat) (req : Request) : Prop where
  blk : firstBlock req.message block1Num =
    some { num := i, more := decide (i + 1 < nBlocks B (2 ^ (szx + 4))), szx := szx }
  pay : req.message.payload = chunkOf B (2 ^ (szx + 4)) i
  resp : req.response.isSome = true
  rsorted : ∀ r, req.response = some r → r.options.Sorted
  admits : ∃ size, computeMessageSize req.message = .ok size ∧
    2 ^ (szx + 4) ≤ blockBudget size req.message.payload.length M
  szx7 : szx ≤ 7
  num16 : i ≤ 65535

theorem nBlocks_nonfinal (B : Bytes) (s i : Nat) (hs : 0 < s) (h : i + 1 < nBlocks B s) :
    (i + 1) * s < B.length := by
  unfold nBlocks at h
  by_cases hl : B.length = 0
  · rw [if_pos hl] at h; omega
  · rw [if_neg hl] at h
    obtain ⟨n', hn, hlt, _⟩ := ceil_div_spec B.length s hs (by omega)
    have : (i + 1) * s ≤ n' * s := Nat.mul_le_mul_right _ (by omega)
    omega

theorem nBlocks_final (B : Bytes) (s i : Nat) (hs : 0 < s) (h : i + 1 = nBlocks B s) :
    i * s ≤ B.length ∧ B.length ≤ (i + 1) * s := by
  unfold nBlocks at h
  by_cases hl : B.length = 0
  · rw [if_pos hl] at h
    have : i = 0 := by omega
    subst this
    omega
  · rw [if_neg hl] at h
    obtain ⟨n', hn, hlt, hle⟩ := ceil_div_spec B.length s hs (by omega)
    have : i = n' := by omega
    subst this
    omega

theorem size_le_reserve (szx : Nat) (h : szx ≤ 7) : 2 ^ (szx + 4) ≤ Consts.maxUncommittedReserve := by
  have h1 : 2 ^ (szx + 4) ≤ 2 ^ 11 := Nat.pow_le_pow_right (by omega) (by omega)
  have h2 : (2 : Nat) ^ 11 = 2048 := by decide
  have h3 : Consts.maxUncommittedReserve = 16384 := rfl
  omega

theorem computeMessageSize_ge (p : Packet) (size : Nat) (h : computeMessageSize p = .ok size) :
    p.payload.length ≤ size := by
  unfold computeMessageSize at h
  split at h
  · simp only [HRes.ok.injEq] at h; omega
  · simp [internal] at h
  · simp at h

theorem block1_reply_option (resp : Packet) (hs : resp.options.Sorted) (bs : Bytes) :
    ((resp.addOption block1Num bs).getOption block1Num).map (·.getLast?) = some (some bs) := by
  rw [Codec.addOption_get resp hs block1Num block1Num bs]
  simp

/-- one upload step through `handleBlock1`, given the splice result -/
theorem upload_step (M : Nat) (B : Bytes) (szx i : Nat) (req : Request) (st : BlockState)
    (h : UploadReq M B szx i req) (buf' : Bytes)
    (hsp : extendingSplice (if i = 0 then [] else st.cachedPayload.getD [])
             (i * 2 ^ (szx + 4)) (i * 2 ^ (szx + 4) + 2 ^ (szx + 4)) (chunkOf B (2 ^ (szx + 4)) i)
             Consts.maxUncommittedReserve = some buf') :
    ∃ resp bs more', req.response = some resp ∧ resp.options.Sorted ∧
      ({ num := i, more := more', szx := szx } : BlockValue).enc = .ok bs ∧
      handleBlock1 req M st =
        if decide (i + 1 < nBlocks B (2 ^ (szx + 4))) = true then
          ({ req with response := some (setCode (resp.addOption block1Num bs) .Continue) },
           { st with cachedPayload := some buf' }, .ok true)
        else
          ({ req with message := { req.message with payload := buf' },
                      response := some (resp.addOption block1Num bs) },
           { st with cachedPayload := none }, .ok false) := by
  obtain ⟨size, hsz, hfit⟩ := h.admits
  have hms := computeMessageSize_ge _ _ hsz
  have hr : BvOk { num := i, more := decide (i + 1 < nBlocks B (2 ^ (szx + 4))), szx := szx } :=
    ⟨h.num16, h.szx7⟩
  have hneg := negotiate_exact _ size req.message.payload.length M hr hms hfit h.szx7
  obtain ⟨resp, hresp⟩ := Option.isSome_iff_exists.1 h.resp
  have hsp' : extendingSplice (if i = 0 then [] else st.cachedPayload.getD [])
      (i * 2 ^ (szx + 4)) (i * 2 ^ (szx + 4) + 2 ^ (szx + 4)) req.message.payload
      Consts.maxUncommittedReserve = some buf' := by rw [h.pay]; exact hsp
  obtain ⟨bs, resp', henc, hresp', hstep⟩ :=
    handleBlock1_step req M st _ _ size resp buf' h.blk hsz hneg hresp ⟨h.num16, h.szx7⟩ hsp'
  subst hresp'
  exact ⟨resp, bs, _, hresp, h.rsorted resp hresp, henc, hstep⟩

theorem serveCached_messageT (req : Request) (rb2 : BlockValue) (cached : Packet) :
    (serveCached req rb2 cached).1.message = req.message := by
  unfold serveCached
  repeat' split
  all_goals rfl

/-- `handleBlock2` touches neither the request message nor the upload buffer -/
theorem handleBlock2_frameT (req : Request) (st : BlockState) :
    (handleBlock2 req st).1.message = req.message ∧
    (handleBlock2 req st).2.1.cachedPayload = st.cachedPayload :=
  ⟨(handleBlock2_frame req st).1, (handleBlock2_frame req st).2.2.2⟩

/-- a non-final block – first delivery or consecutive re-delivery, and for block
0 whatever an abandoned upload left in the buffer – is answered 2.31 Continue
with a Block1 option echoing its number and the client's size, does not reach
the application, and leaves exactly the first `i+1` blocks buffered -/
theorem upload_nonfinal (M : Nat) (B : Bytes) (szx i : Nat) (req : Request) (st : BlockState)
    (h : UploadReq M B szx i req) (hnf : i + 1 < nBlocks B (2 ^ (szx + 4)))
    (hbuf : i = 0 ∨ st.cachedPayload.getD [] = B.take (i * 2 ^ (szx + 4)) ∨
            st.cachedPayload.getD [] = B.take ((i + 1) * 2 ^ (szx + 4))) :
    ∃ req' st' resp' bs more',
      coreRequest M req st = (req', st', .ok true) ∧
      st'.cachedPayload = some (B.take ((i + 1) * 2 ^ (szx + 4))) ∧
      st'.cachedResponse = st.cachedResponse ∧
      req'.response = some resp' ∧ resp'.header.code = .Response .Continue ∧
      ({ num := i, more := more', szx := szx } : BlockValue).enc = .ok bs ∧
      (resp'.getOption block1Num).map (·.getLast?) = some (some bs) ∧
      req'.message = req.message := by
  have hs : 0 < 2 ^ (szx + 4) := Nat.two_pow_pos _
  have hR := size_le_reserve szx h.szx7
  have hlt := nBlocks_nonfinal B _ i hs hnf
  generalize hsdef : 2 ^ (szx + 4) = s at *
  have hmul : (i + 1) * s = i * s + s := by rw [Nat.add_mul, Nat.one_mul]
  have hsp : extendingSplice (if i = 0 then [] else st.cachedPayload.getD [])
      (i * s) (i * s + s) (chunkOf B s i) Consts.maxUncommittedReserve = some (B.take (i * s + s)) := by
    by_cases hi : i = 0
    · rw [if_pos hi]
      have := splice_in_order B s i Consts.maxUncommittedReserve hs hR (by omega)
      rw [hi] at this ⊢
      simpa [chunkOf] using this
    · rw [if_neg hi]
      rcases hbuf with h0 | hb | hb
      · exact absurd h0 hi
      · rw [hb]
        exact splice_in_order B s i Consts.maxUncommittedReserve hs hR (by omega)
      · rw [hb, hmul]
        exact splice_duplicate B s i Consts.maxUncommittedReserve hs hR (by omega)
  subst hsdef
  obtain ⟨resp, bs, more', hresp, hsorted, henc, hstep⟩ := upload_step M B szx i req st h _ hsp
  rw [decide_eq_true hnf, if_pos rfl] at hstep
  refine ⟨{ req with response := some (setCode (resp.addOption block1Num bs) .Continue) },
    { st with cachedPayload := some (B.take (i * 2 ^ (szx + 4) + 2 ^ (szx + 4))) },
    setCode (resp.addOption block1Num bs) .Continue, bs, more', ?_, ?_, rfl, rfl, rfl, henc, ?_, rfl⟩
  · simp only [coreRequest, hstep]
  · rw [Nat.add_mul, Nat.one_mul]
  · exact block1_reply_option resp hsorted bs

/-- the final block hands the application the complete body and its reply
carries the Block1 acknowledgement; the buffer is released -/
theorem upload_final (M : Nat) (B : Bytes) (szx i : Nat) (req : Request) (st : BlockState)
    (h : UploadReq M B szx i req) (hf : i + 1 = nBlocks B (2 ^ (szx + 4)))
    (hbuf : i = 0 ∨ st.cachedPayload.getD [] = B.take (i * 2 ^ (szx + 4))) :
    (coreRequest M req st).1.message.payload = B ∧
    (coreRequest M req st).2.1.cachedPayload = none ∧
    ((firstBlock req.message block2Num = none ∨ st.cachedResponse = none) →
      ∃ resp' bs more',
        (coreRequest M req st).2.2 = .ok false ∧
        (coreRequest M req st).1.response = some resp' ∧
        ({ num := i, more := more', szx := szx } : BlockValue).enc = .ok bs ∧
        (resp'.getOption block1Num).map (·.getLast?) = some (some bs)) := by
  have hs : 0 < 2 ^ (szx + 4) := Nat.two_pow_pos _
  have hR := size_le_reserve szx h.szx7
  obtain ⟨hlo, hhi⟩ := nBlocks_final B _ i hs hf
  generalize hsdef : 2 ^ (szx + 4) = s at *
  have hmul : (i + 1) * s = i * s + s := by rw [Nat.add_mul, Nat.one_mul]
  have htake : B.take (i * s + s) = B := List.take_of_length_le (by omega)
  have hsp : extendingSplice (if i = 0 then [] else st.cachedPayload.getD [])
      (i * s) (i * s + s) (chunkOf B s i) Consts.maxUncommittedReserve = some B := by
    by_cases hi : i = 0
    · rw [if_pos hi]
      have := splice_in_order B s i Consts.maxUncommittedReserve hs hR (by omega)
      rw [htake] at this
      rw [hi] at this ⊢
      simpa [chunkOf] using this
    · rw [if_neg hi]
      rcases hbuf with h0 | hb
      · exact absurd h0 hi
      · rw [hb]
        have := splice_in_order B s i Consts.maxUncommittedReserve hs hR (by omega)
        rw [htake] at this
        exact this
  subst hsdef
  obtain ⟨resp, bs, more', hresp, hsorted, henc, hstep⟩ := upload_step M B szx i req st h _ hsp
  have hnd : ¬ (i + 1 < nBlocks B (2 ^ (szx + 4))) := by omega
  rw [decide_eq_false hnd, if_neg (by simp)] at hstep
  have hcore : coreRequest M req st =
      handleBlock2 { req with message := { req.message with payload := B },
                              response := some (resp.addOption block1Num bs) }
        { st with cachedPayload := none } := by
    simp only [coreRequest, hstep]
  rw [hcore]
  refine ⟨?_, ?_, ?_⟩
  · rw [(handleBlock2_frameT _ _).1]
  · rw [(handleBlock2_frameT _ _).2]
  · intro hpass
    have hp := handleBlock2_pass
      { req with message := { req.message with payload := B },
                 response := some (resp.addOption block1Num bs) }
      { st with cachedPayload := none } hpass
    rw [hp]
    exact ⟨_, bs, more', rfl, rfl, henc, block1_reply_option resp hsorted bs⟩

/-- in-order upload with consecutive duplicates: deliveries are pairs (block
index, request); the indices start at 0 and each next one repeats or advances
by one -/
def InOrder : Nat → List (Nat × Request) → Prop
  | _, [] => True
  | i, (j, _) :: rest => (j = i ∨ j = i + 1) ∧ InOrder j rest

/-- fold the handler core over a delivery list -/
def runCore (M : Nat) : BlockState → List (Nat × Request) → BlockState × List (Request × HRes Bool)
  | st, [] => (st, [])
  | st, (_, r) :: rest =>
    let out := coreRequest M r st
    let (st', outs) := runCore M out.2.1 rest
    (st', (out.1, out.2.2) :: outs)

theorem runCore_cons (M : Nat) (st : BlockState) (j : Nat) (r : Request) (rest : List (Nat × Request)) :
    runCore M st ((j, r) :: rest) =
      ((runCore M (coreRequest M r st).2.1 rest).1,
       ((coreRequest M r st).1, (coreRequest M r st).2.2) ::
         (runCore M (coreRequest M r st).2.1 rest).2) := by
  rfl

theorem last_cons (x : Nat × Request) (rest : List (Nat × Request)) (j : Nat) :
    (((x :: rest).getLast?.map (·.1)).getD j) = ((rest.getLast?.map (·.1)).getD x.1) := by
  rw [List.getLast?_cons]
  cases rest.getLast? <;> rfl

theorem upload_run_aux (M : Nat) (B : Bytes) (szx : Nat) (ds : List (Nat × Request)) :
    ∀ (st : BlockState) (j : Nat), InOrder j ds →
      (∀ x ∈ ds, UploadReq M B szx x.1 x.2 ∧ x.1 + 1 < nBlocks B (2 ^ (szx + 4))) →
      st.cachedPayload = some (B.take ((j + 1) * 2 ^ (szx + 4))) →
      (runCore M st ds).1.cachedPayload =
          some (B.take (((ds.getLast?.map (·.1)).getD j + 1) * 2 ^ (szx + 4))) ∧
      ∀ o ∈ (runCore M st ds).2, o.2 = .ok true := by
  induction ds with
  | nil =>
    intro st j _ _ hb
    exact ⟨hb, fun o ho => absurd ho (by simp [runCore])⟩
  | cons x rest ih =>
    intro st j hord hreq hb
    obtain ⟨j', r⟩ := x
    obtain ⟨hj, hord'⟩ := hord
    obtain ⟨hu, hnf⟩ := hreq (j', r) (List.mem_cons_self ..)
    have hbuf : j' = 0 ∨ st.cachedPayload.getD [] = B.take (j' * 2 ^ (szx + 4)) ∨
        st.cachedPayload.getD [] = B.take ((j' + 1) * 2 ^ (szx + 4)) := by
      rw [hb]
      rcases hj with hj | hj
      · subst hj; exact Or.inr (Or.inr rfl)
      · subst hj; exact Or.inr (Or.inl rfl)
    obtain ⟨req', st', resp', bs, more', hcore, hbuf', _⟩ :=
      upload_nonfinal M B szx j' r st hu hnf hbuf
    have hrest := ih st' j' hord' (fun x hx => hreq x (List.mem_cons_of_mem _ hx)) hbuf'
    rw [runCore_cons, hcore, last_cons]
    refine ⟨hrest.1, ?_⟩
    intro o ho
    rcases List.mem_cons.1 ho with ho | ho
    · rw [ho]
    · exact hrest.2 o ho

/-- after any in-order sequence of non-final deliveries starting with block 0 –
each possibly delivered more than once in a row, and regardless of what an
earlier abandoned upload left behind – every delivery was answered `ok true`
(not passed to the application) and the buffer holds exactly the blocks sent -/
theorem upload_prefix (M : Nat) (B : Bytes) (szx : Nat) (st0 : BlockState)
    (d : Nat × Request) (ds : List (Nat × Request))
    (h0 : d.1 = 0) (hord : InOrder 0 (d :: ds))
    (hreq : ∀ x ∈ d :: ds, UploadReq M B szx x.1 x.2 ∧ x.1 + 1 < nBlocks B (2 ^ (szx + 4))) :
    let last := ((d :: ds).getLast?.map (·.1)).getD 0
    (runCore M st0 (d :: ds)).1.cachedPayload = some (B.take ((last + 1) * 2 ^ (szx + 4))) ∧
    ∀ o ∈ (runCore M st0 (d :: ds)).2, o.2 = .ok true := by
  obtain ⟨j0, r0⟩ := d
  simp only at h0
  subst h0
  have hord' : InOrder 0 ds := hord.2
  obtain ⟨hu, hnf⟩ := hreq (0, r0) (List.mem_cons_self ..)
  obtain ⟨req', st', resp', bs, more', hcore, hbuf', _⟩ :=
    upload_nonfinal M B szx 0 r0 st0 hu hnf (Or.inl rfl)
  have hrest := upload_run_aux M B szx ds st' 0 hord'
    (fun x hx => hreq x (List.mem_cons_of_mem _ hx)) hbuf'
  rw [runCore_cons, hcore]
  simp only [last_cons]
  refine ⟨hrest.1, ?_⟩
  intro o ho
  rcases List.mem_cons.1 ho with ho | ho
  · rw [ho]
  · exact hrest.2 o ho

end CoapLite.Block
