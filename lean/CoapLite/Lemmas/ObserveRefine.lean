/-
Refinement of the observer registry to a per-observer abstract specification.

The abstract state of ONE (resource path, endpoint) pair is `Option Observer`: whether that endpoint
currently observes the resource and, if so, with which token, how many confirmable notifications
it has left unacknowledged since its last registration / acknowledgement, and which message id it
is expected to acknowledge. `specStep` is the whole rule book for that pair, written without any
reference to lists or other observers. `view_step` shows that every operation of the registry acts
on the pair's view exactly as `specStep` says (given the shape invariant, which holds in every
reachable state); `view_run` lifts it to every history. Everything the property says about one
observer is then a statement about `specStep`.
-/
import CoapLite.Lemmas.Observe

namespace CoapLite.Observe
open CoapLite

/-- the observers of `p` -/
def obsOf (s : Subject) (p : String) : List Observer := ((s.get p).map (·.observers)).getD []

/-- the view of one (path, endpoint) pair -/
def viewOf (s : Subject) (p : String) (ep : Nat) : Option Observer :=
  (obsOf s p).find? (fun o => o.endpoint == ep)

/-- the abstract rule book for the pair (`p`, `ep`) under the limit in force -/
def specStep (limit : Nat) (p : String) (ep : Nat) (cur : Option Observer) : Op → Option Observer
  | .reg ep' p' t => if ep' = ep ∧ p' = p then some (fresh ep t) else cur
  | .dereg ep' p' t =>
    if ep' = ep ∧ p' = p then cur.bind (fun o => if o.token = t then none else some o) else cur
  | .chg p' m c =>
    if p' = p then cur.bind (fun o => if (bump m c o).unacked ≤ limit then some (bump m c o) else none)
    else cur
  | .ack ep' m => cur.map (ackOne ep' m)
  | .limit _ => cur

def specLimit (limit : Nat) : Op → Nat
  | .limit l => l
  | _ => limit

/-! ### list helpers -/

theorem find_none_of_not_mem (l : List Observer) (ep : Nat) (h : ep ∉ l.map (·.endpoint)) :
    l.find? (fun o => o.endpoint == ep) = none := by
  induction l with
  | nil => rfl
  | cons x xs ih =>
    simp only [List.map_cons, List.mem_cons, not_or] at h
    rw [List.find?_cons]
    have : (x.endpoint == ep) = false := by
      simp only [beq_eq_false_iff_ne, ne_eq]; exact fun e => h.1 e.symm
    rw [this]
    exact ih h.2

theorem not_mem_filter (l : List Observer) (q : Observer → Bool) (ep : Nat)
    (h : ep ∉ l.map (·.endpoint)) : ep ∉ (l.filter q).map (·.endpoint) := by
  intro hm
  obtain ⟨o, ho, he⟩ := List.mem_map.1 hm
  exact h (List.mem_map.2 ⟨o, (List.mem_filter.1 ho).1, he⟩)

theorem find_filter_nodup (l : List Observer) (q : Observer → Bool) (ep : Nat)
    (hn : (l.map (·.endpoint)).Nodup) :
    (l.filter q).find? (fun o => o.endpoint == ep) =
      (l.find? (fun o => o.endpoint == ep)).bind (fun o => if q o then some o else none) := by
  induction l with
  | nil => rfl
  | cons x xs ih =>
    simp only [List.map_cons, List.nodup_cons] at hn
    by_cases hx : x.endpoint = ep
    · have hx' : (x.endpoint == ep) = true := by simpa using hx
      rw [List.find?_cons, hx']
      simp only [Option.bind_some]
      by_cases hq : q x = true
      · rw [List.filter_cons, if_pos hq, List.find?_cons, hx', if_pos hq]
      · rw [List.filter_cons, if_neg hq, if_neg hq]
        exact find_none_of_not_mem _ _ (not_mem_filter xs q ep (hx ▸ hn.1))
    · have hx' : (x.endpoint == ep) = false := by simpa using hx
      rw [List.find?_cons, hx']
      by_cases hq : q x = true
      · rw [List.filter_cons, if_pos hq, List.find?_cons, hx']
        exact ih hn.2
      · rw [List.filter_cons, if_neg hq]
        exact ih hn.2

theorem find_map_keep (l : List Observer) (g : Observer → Observer) (ep : Nat)
    (hg : ∀ o, (g o).endpoint = o.endpoint) :
    (l.map g).find? (fun o => o.endpoint == ep) = (l.find? (fun o => o.endpoint == ep)).map g := by
  induction l with
  | nil => rfl
  | cons x xs ih =>
    rw [List.map_cons, List.find?_cons, List.find?_cons, hg x]
    cases (x.endpoint == ep) with
    | true => rfl
    | false => exact ih

theorem find_regList_self (l : List Observer) (ep : Nat) (tok : Bytes) :
    (regList l ep tok).find? (fun o => o.endpoint == ep) = some (fresh ep tok) := by
  unfold regList
  split
  · rename_i ha
    induction l with
    | nil => simp at ha
    | cons x xs ih =>
      rw [List.map_cons, List.find?_cons]
      by_cases hx : x.endpoint = ep
      · simp [hx, fresh]
      · have hx' : (x.endpoint == ep) = false := by simpa using hx
        simp only [hx', Bool.false_eq_true, ↓reduceIte]
        rw [List.any_cons, hx', Bool.false_or] at ha
        exact ih ha
  · rename_i ha
    have hn : l.find? (fun o => o.endpoint == ep) = none := by
      rw [List.find?_eq_none]
      intro o ho
      simp only [Bool.not_eq_true, List.any_eq_false] at ha
      simpa using ha o ho
    rw [List.find?_append, hn]
    simp [fresh]

theorem find_map_reg_other (l : List Observer) (ep ep' : Nat) (tok : Bytes) (hne : ep' ≠ ep) :
    (l.map (fun o => if o.endpoint == ep' then fresh ep' tok else o)).find? (fun o => o.endpoint == ep) =
      l.find? (fun o => o.endpoint == ep) := by
  induction l with
  | nil => rfl
  | cons x xs ih =>
    rw [List.map_cons, List.find?_cons, List.find?_cons]
    by_cases hx : x.endpoint = ep'
    · have h1 : (x.endpoint == ep') = true := by simpa using hx
      have h2 : (x.endpoint == ep) = false := by simp [hx, hne]
      have h3 : ((fresh ep' tok).endpoint == ep) = false := by simp [fresh, hne]
      simp only [h1, ↓reduceIte, h2, h3]
      exact ih
    · have h1 : (x.endpoint == ep') = false := by simpa using hx
      simp only [h1, Bool.false_eq_true, ↓reduceIte]
      cases (x.endpoint == ep) with
      | true => rfl
      | false => exact ih

theorem find_regList_other (l : List Observer) (ep ep' : Nat) (tok : Bytes) (hne : ep' ≠ ep) :
    (regList l ep' tok).find? (fun o => o.endpoint == ep) = l.find? (fun o => o.endpoint == ep) := by
  unfold regList
  split
  · exact find_map_reg_other l ep ep' tok hne
  · rw [List.find?_append]
    have : [fresh ep' tok].find? (fun o => o.endpoint == ep) = none := by
      simp [fresh, hne]
    rw [this]
    simp

/-! ### the view under each operation -/

theorem obsOf_nodup (s : Subject) (h : Inv s) (p : String) : ((obsOf s p).map (·.endpoint)).Nodup := by
  unfold obsOf Subject.get
  cases hf : s.resources.find? (fun kv => kv.1 == p) with
  | none => simp
  | some kv => simpa using h.2 kv (List.mem_of_find?_eq_some hf)

theorem obsOf_congr (s s' : Subject) (p : String) (h : s'.get p = s.get p) : obsOf s' p = obsOf s p := by
  unfold obsOf; rw [h]

theorem bump_endpoint (m : Nat) (c : Bool) (o : Observer) : (bump m c o).endpoint = o.endpoint := rfl

/-- ONE STEP: every registry operation acts on the view of every (path, endpoint) pair exactly as
the abstract rule book says -/
theorem view_step (s : Subject) (h : Inv s) (op : Op) (p : String) (ep : Nat) :
    viewOf (step s op) p ep = specStep s.limit p ep (viewOf s p ep) op ∧
    (step s op).limit = specLimit s.limit op := by
  cases op with
  | reg ep' p' t =>
    refine ⟨?_, rfl⟩
    simp only [step, specStep]
    by_cases hp : p' = p
    · subst hp
      have hs := (register_spec s h ep' p' t).1
      have ho : obsOf (register s ep' p' t) p' = regList (obsOf s p') ep' t := by
        unfold obsOf; rw [hs]; rfl
      unfold viewOf
      rw [ho]
      by_cases he : ep' = ep
      · subst he
        rw [if_pos ⟨rfl, rfl⟩]
        exact find_regList_self _ _ _
      · rw [if_neg (fun hh => he hh.1)]
        exact find_regList_other _ _ _ _ he
    · rw [if_neg (fun hh => hp hh.2)]
      unfold viewOf
      rw [obsOf_congr _ _ _ (frame s p' p (Ne.symm hp) ep' 0 t false).1]
  | dereg ep' p' t =>
    refine ⟨?_, rfl⟩
    simp only [step, specStep]
    by_cases hp : p' = p
    · subst hp
      have hs := (deregister_spec s h ep' p' t).1
      have ho : obsOf (deregister s ep' p' t) p' =
          (obsOf s p').filter (fun o => !(o.endpoint == ep' && o.token == t)) := by
        unfold obsOf; rw [hs]
        cases s.get p' <;> rfl
      unfold viewOf
      rw [ho, find_filter_nodup _ _ _ (obsOf_nodup s h p')]
      by_cases he : ep' = ep
      · subst he
        rw [if_pos ⟨rfl, rfl⟩]
        cases hf : (obsOf s p').find? (fun o => o.endpoint == ep') with
        | none => rfl
        | some o =>
          have hoe : o.endpoint = ep' := by simpa using List.find?_some hf
          simp only [Option.bind_some, hoe, beq_self_eq_true, Bool.true_and]
          by_cases ht : o.token = t
          · simp [ht]
          · simp [ht]
      · rw [if_neg (fun hh => he hh.1)]
        cases hf : (obsOf s p').find? (fun o => o.endpoint == ep) with
        | none => rfl
        | some o =>
          have hoe : o.endpoint = ep := by simpa using List.find?_some hf
          have : (o.endpoint == ep') = false := by
            simp only [hoe, beq_eq_false_iff_ne, ne_eq]; exact fun e => he e.symm
          simp only [Option.bind_some, this, Bool.false_and, Bool.not_false, ↓reduceIte]
    · rw [if_neg (fun hh => hp hh.2)]
      unfold viewOf
      rw [obsOf_congr _ _ _ (frame s p' p (Ne.symm hp) ep' 0 t false).2.1]
  | chg p' m c =>
    refine ⟨?_, rfl⟩
    simp only [step, specStep]
    by_cases hp : p' = p
    · subst hp
      rw [if_pos rfl]
      have hs := (changed_spec s h p' m c).1
      have ho : obsOf (resourceChanged s p' m c) p' =
          ((obsOf s p').map (bump m c)).filter (fun o => o.unacked ≤ s.limit) := by
        unfold obsOf; rw [hs]
        cases s.get p' <;> rfl
      unfold viewOf
      have hnd : (((obsOf s p').map (bump m c)).map (·.endpoint)).Nodup := by
        rw [List.map_map]
        exact obsOf_nodup s h p'
      rw [ho, find_filter_nodup _ _ _ hnd, find_map_keep _ _ _ (bump_endpoint m c)]
      cases (obsOf s p').find? (fun o => o.endpoint == ep) with
      | none => rfl
      | some o => simp
    · rw [if_neg hp]
      unfold viewOf
      rw [obsOf_congr _ _ _ (frame s p' p (Ne.symm hp) 0 m [] c).2.2]
  | ack ep' m =>
    refine ⟨?_, rfl⟩
    simp only [step, specStep]
    have hs := (acknowledge_spec s h ep' m p).1
    have ho : obsOf (acknowledge s ep' m) p = (obsOf s p).map (ackOne ep' m) := by
      unfold obsOf; rw [hs]
      cases s.get p <;> rfl
    unfold viewOf
    rw [ho, find_map_keep _ _ _ (ackOne_endpoint ep' m)]
  | limit l => exact ⟨rfl, rfl⟩

/-- the abstract run for one pair: (limit in force, view) folded over the history -/
def specRun (p : String) (ep : Nat) : List Op → Nat × Option Observer → Nat × Option Observer
  | [], st => st
  | op :: ops, st => specRun p ep ops (specLimit st.1 op, specStep st.1 p ep st.2 op)

theorem view_foldl (p : String) (ep : Nat) (ops : List Op) : ∀ (s : Subject), Inv s →
    ((ops.foldl step s).limit, viewOf (ops.foldl step s) p ep) =
      specRun p ep ops (s.limit, viewOf s p ep) := by
  induction ops with
  | nil => intro s _; rfl
  | cons op ops ih =>
    intro s h
    rw [List.foldl_cons, ih (step s op) (step_inv s op h)]
    obtain ⟨h1, h2⟩ := view_step s h op p ep
    rw [h1, h2]
    rfl

/-- EVERY HISTORY: what the registry holds for a (path, endpoint) pair after any history is what
the per-observer rule book computes for that pair from the same history, alone -/
theorem view_run (p : String) (ep : Nat) (ops : List Op) :
    ((run ops).limit, viewOf (run ops) p ep) = specRun p ep ops (Consts.defaultUnackLimit, none) :=
  view_foldl p ep ops Subject.default inv_default

end CoapLite.Observe
