/-
End-to-end Block1 upload: a client that delivers the blocks 0 … n-1 of a body in order – every
non-final block possibly several times in a row, whatever an abandoned earlier upload left in the
buffer – gets `ok true` (2.31 Continue, the application is not reached) for every non-final
delivery, and the single delivery of the final block hands the application exactly the body and
releases the buffer. Composes `upload_prefix` and `upload_final` by induction over the deliveries.
-/
import CoapLite.Lemmas.BlockTransfer

namespace CoapLite.Block
open CoapLite

theorem runCore_append (M : Nat) (ds es : List (Nat × Request)) : ∀ (st : BlockState),
    runCore M st (ds ++ es) =
      ((runCore M (runCore M st ds).1 es).1, (runCore M st ds).2 ++ (runCore M (runCore M st ds).1 es).2) := by
  induction ds with
  | nil => intro st; simp [runCore]
  | cons x rest ih =>
    intro st
    obtain ⟨j, r⟩ := x
    rw [List.cons_append, runCore_cons, runCore_cons, ih]
    simp

theorem runCore_single (M : Nat) (st : BlockState) (j : Nat) (r : Request) :
    runCore M st [(j, r)] = ((coreRequest M r st).2.1, [((coreRequest M r st).1, (coreRequest M r st).2.2)]) := by
  rw [runCore_cons]; simp [runCore]

/-- the in-order relation of a list followed by one more delivery: the list is in order and the
last delivery repeats or follows the last index of the list -/
theorem inOrder_snoc (ds : List (Nat × Request)) (f : Nat × Request) : ∀ (j : Nat),
    InOrder j (ds ++ [f]) →
      InOrder j ds ∧ (f.1 = (ds.getLast?.map (·.1)).getD j ∨ f.1 = (ds.getLast?.map (·.1)).getD j + 1) := by
  induction ds with
  | nil =>
    intro j h
    obtain ⟨fj, fr⟩ := f
    exact ⟨trivial, h.1⟩
  | cons x rest ih =>
    intro j h
    obtain ⟨xj, xr⟩ := x
    obtain ⟨hx, hrest⟩ := h
    obtain ⟨h1, h2⟩ := ih xj hrest
    refine ⟨⟨hx, h1⟩, ?_⟩
    rw [last_cons]
    exact h2

/-- the last index of an in-order list of non-final deliveries is itself non-final -/
theorem last_nonfinal (n : Nat) (ds : List (Nat × Request)) (j : Nat)
    (hj : j + 1 < n) (h : ∀ x ∈ ds, x.1 + 1 < n) : (ds.getLast?.map (·.1)).getD j + 1 < n := by
  cases hl : ds.getLast? with
  | none => simpa using hj
  | some l =>
    have := h l (List.mem_of_getLast? hl)
    simpa using this

/-- END TO END. `ds` are the deliveries of the non-final blocks (in order from block 0, each any
number of times in a row), `rf` the single delivery of the final block `n - 1`; `st0` is ANY prior
state of the transfer's cache entry (e.g. the left-over of an abandoned upload). Then no delivery
in `ds` reaches the application, the final one carries the complete body, and the buffer is
released. -/
theorem upload_whole (M : Nat) (B : Bytes) (szx : Nat) (st0 : BlockState)
    (ds : List (Nat × Request)) (f : Nat × Request)
    (hf1 : f.1 + 1 = nBlocks B (2 ^ (szx + 4)))
    (h0 : ∀ d ∈ (ds ++ [f]).head?, d.1 = 0)
    (hord : InOrder 0 (ds ++ [f]))
    (hreq : ∀ x ∈ ds, UploadReq M B szx x.1 x.2 ∧ x.1 + 1 < nBlocks B (2 ^ (szx + 4)))
    (hf : UploadReq M B szx f.1 f.2) :
    (∀ o ∈ (runCore M st0 ds).2, o.2 = .ok true) ∧
    (runCore M st0 (ds ++ [f])).2 =
      (runCore M st0 ds).2 ++ [((coreRequest M f.2 (runCore M st0 ds).1).1, (coreRequest M f.2 (runCore M st0 ds).1).2.2)] ∧
    (coreRequest M f.2 (runCore M st0 ds).1).1.message.payload = B ∧
    (runCore M st0 (ds ++ [f])).1.cachedPayload = none := by
  obtain ⟨fj, fr⟩ := f
  simp only at hf1 hf
  have happ : runCore M st0 (ds ++ [(fj, fr)]) =
      ((coreRequest M fr (runCore M st0 ds).1).2.1,
       (runCore M st0 ds).2 ++ [((coreRequest M fr (runCore M st0 ds).1).1, (coreRequest M fr (runCore M st0 ds).1).2.2)]) := by
    rw [runCore_append, runCore_single]
  cases ds with
  | nil =>
    have hfj : fj = 0 := h0 (fj, fr) (by simp)
    subst hfj
    have hfin := upload_final M B szx 0 fr st0 hf hf1 (Or.inl rfl)
    refine ⟨fun o ho => absurd ho (by simp [runCore]), ?_, ?_, ?_⟩
    · rw [happ]
    · simpa [runCore] using hfin.1
    · rw [happ]; simpa [runCore] using hfin.2.1
  | cons d rest =>
    have hd0 : d.1 = 0 := h0 d (by simp)
    obtain ⟨hord', hlast⟩ := inOrder_snoc (d :: rest) (fj, fr) 0 hord
    have hpre := upload_prefix M B szx st0 d rest hd0 hord' hreq
    simp only at hpre
    have hnf := last_nonfinal (nBlocks B (2 ^ (szx + 4))) (d :: rest) 0
      (by have := (hreq d (List.mem_cons_self ..)).2; omega) (fun x hx => (hreq x hx).2)
    have hfj : fj = ((d :: rest).getLast?.map (·.1)).getD 0 + 1 := by
      rcases hlast with h | h
      · simp only at h; omega
      · exact h
    have hbuf : fj = 0 ∨ (runCore M st0 (d :: rest)).1.cachedPayload.getD [] = B.take (fj * 2 ^ (szx + 4)) := by
      right
      rw [hpre.1, hfj]
      rfl
    have hfin := upload_final M B szx fj fr (runCore M st0 (d :: rest)).1 hf hf1 hbuf
    refine ⟨hpre.2, ?_, hfin.1, ?_⟩
    · rw [happ]
    · rw [happ]; exact hfin.2.1

end CoapLite.Block
