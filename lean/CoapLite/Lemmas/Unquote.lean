/-
`Unquote` as a state machine: `next` implements `rest`, and `to_cow` agrees with what the
iterator still yields in EVERY state (not only for a fresh value).
-/
import CoapLite.Lemmas.LinkParse

namespace CoapLite.Link
open CoapLite

namespace U

theorem uq_nil : unqQuoted [] = [] := by simp [unqQuoted]
theorem uq_quote (cs : List Char) : unqQuoted ('"' :: cs) = [] := by rw [unqQuoted.eq_def]; simp
theorem uq_esc_nil : unqQuoted ['\\'] = [] := by decide
theorem uq_esc (d : Char) (cs : List Char) : unqQuoted ('\\' :: d :: cs) = d :: unqQuoted cs := by
  rw [unqQuoted.eq_def]; simp
theorem uq_plain (c : Char) (cs : List Char) (h1 : c ≠ '"') (h2 : c ≠ '\\') :
    unqQuoted (c :: cs) = c :: unqQuoted cs := by
  rw [unqQuoted.eq_def]; simp [h1, h2]

theorem nextQuoted_spec (cs : List Char) :
    (Uq.nextQuoted cs).1 = (unqQuoted cs).head? ∧
    (Uq.nextQuoted cs).2.state = .quoted ∧
    unqQuoted (Uq.nextQuoted cs).2.inner = (unqQuoted cs).tail := by
  cases cs with
  | nil => simp [Uq.nextQuoted, uq_nil]
  | cons c cs =>
    unfold Uq.nextQuoted
    by_cases h1 : c = '"'
    · subst h1
      simp [uq_quote, uq_nil]
    · by_cases h2 : c = '\\'
      · subst h2
        cases cs with
        | nil => simp [uq_esc_nil, uq_nil]
        | cons d cs' => simp [uq_esc]
      · simp [h1, h2, uq_plain c cs h1 h2]

theorem rest_quoted (u : Uq) (h : u.state = .quoted) : u.rest = unqQuoted u.inner := by
  unfold Uq.rest; rw [h]

/-- one `next()` yields the head of `rest` and leaves its tail -/
theorem next_spec (u : Uq) : u.next.1 = u.rest.head? ∧ u.next.2.rest = u.rest.tail := by
  obtain ⟨inner, st⟩ := u
  cases st with
  | notStarted =>
    cases inner with
    | nil => simp [Uq.next, Uq.rest, unquote]
    | cons c cs =>
      by_cases h : c = '"'
      · subst h
        obtain ⟨a, b, d⟩ := nextQuoted_spec cs
        have hn : (Uq.next ⟨'"' :: cs, .notStarted⟩) = Uq.nextQuoted cs := by simp [Uq.next]
        have hr : (Uq.rest ⟨'"' :: cs, .notStarted⟩) = unqQuoted cs := by simp [Uq.rest, unquote]
        rw [hn, hr]
        exact ⟨a, by rw [rest_quoted _ b]; exact d⟩
      · have hu : unquote (c :: cs) = c :: cs := by
          unfold unquote
          split
          · rename_i heq; simp at heq; exact absurd heq.1 h
          · rfl
        simp [Uq.next, Uq.rest, h, hu]
  | notQuoted =>
    cases inner with
    | nil => simp [Uq.next, Uq.rest]
    | cons c cs => simp [Uq.next, Uq.rest]
  | quoted =>
    obtain ⟨a, b, d⟩ := nextQuoted_spec inner
    refine ⟨a, ?_⟩
    show (Uq.nextQuoted inner).2.rest = _
    rw [rest_quoted _ b]
    exact d

theorem advance_rest (k : Nat) (u : Uq) : (u.advance k).rest = u.rest.drop k := by
  induction k generalizing u with
  | zero => simp [Uq.advance]
  | succ n ih =>
    rw [Uq.advance, ih, (next_spec u).2]
    cases u.rest <;> simp

/-- `to_cow()` equals the remaining character-by-character output, whatever the state -/
theorem toCow_eq_rest (u : Uq) : u.toCow = u.rest := by
  obtain ⟨inner, st⟩ := u
  cases st with
  | notStarted =>
    have h := toCow_eq_unquote inner
    unfold Link.toCow at h
    unfold Uq.toCow Uq.isQuoted Uq.rest
    cases inner with
    | nil => simp [isQuoted, unquote]
    | cons c cs =>
      by_cases hc : c = '"'
      · subst hc
        simp only [isQuoted, if_true]
        simp only at h
        split
        · rfl
        · rename_i hb
          simp only [hb] at h
          simpa using h
      · have hq : isQuoted (c :: cs) = false := by
          unfold isQuoted
          split
          · rename_i heq; simp at heq; exact absurd heq.1 hc
          · rfl
        have hu : unquote (c :: cs) = c :: cs := by
          unfold unquote
          split
          · rename_i heq; simp at heq; exact absurd heq.1 hc
          · rfl
        simp [hq, hu]
  | notQuoted => simp [Uq.toCow, Uq.isQuoted, Uq.rest]
  | quoted =>
    unfold Uq.toCow Uq.isQuoted Uq.rest
    simp only [if_true]
    split
    · rfl
    · rename_i hb
      rw [P.unqQuoted_noesc]
      intro hm
      apply hb
      simp [hm]

end U

/-- after any number of `next()` calls, `to_cow()` is exactly what the iterator would still
yield: the unquoted text minus the characters already taken -/
theorem cow_after_steps (s : List Char) (k : Nat) :
    ((Uq.new s).advance k).toCow = (unquote s).drop k := by
  rw [U.toCow_eq_rest, U.advance_rest]
  rfl

/-- the characters `next()` yields one by one are the unquoted text -/
theorem next_yields_unquote (s : List Char) (k : Nat) :
    ((Uq.new s).advance k).next.1 = (unquote s)[k]? := by
  rw [(U.next_spec _).1, U.advance_rest]
  show ((unquote s).drop k).head? = _
  simp [List.head?_drop]

end CoapLite.Link
