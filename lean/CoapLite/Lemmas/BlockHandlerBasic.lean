/-
Helper lemmas for Lemmas/BlockHandler.lean: well-formedness of block values
coming out of `firstBlock` / `negotiate`, totality of the small building blocks
(`computeMessageSize`, `addBlockOption`, `packetCloneLimited`), and what the
option-copying fold of `packetCloneLimited` does.
-/
import CoapLite.Model.Block
import CoapLite.Lemmas.BlockArith
import CoapLite.Lemmas.CodecFwd
import CoapLite.Lemmas.OptMapExtra
import CoapLite.Props.C05

namespace CoapLite.Block

/-! ### block values -/

theorem firstBlock_ok {p : Packet} {n : Nat} {b : BlockValue} (h : firstBlock p n = some b) : BvOk b := by
  unfold firstBlock at h
  cases hg : p.getFirstOption n with
  | none => simp [hg] at h
  | some bs =>
    simp only [hg] at h
    rw [C13.dec_spec] at h
    by_cases hc : bs.length ≤ 3 ∧ beValue bs / 16 ≤ 65535
    · simp only [hc, and_self, ↓reduceIte, Option.some.injEq] at h
      subst h
      refine ⟨hc.2, ?_⟩
      show beValue bs % 8 ≤ 7
      omega
    · simp [hc] at h

theorem enc_ok_of_num {b : BlockValue} (h : b.num ≤ 65535) : ∃ bs, b.enc = .ok bs :=
  ⟨_, C13.enc_minimal b (by omega)⟩

theorem enc_ok_of_BvOk {b : BlockValue} (h : BvOk b) : ∃ bs, b.enc = .ok bs :=
  enc_ok_of_num h.1

theorem new_ok_bv {num : Nat} {more : Bool} {size : Nat} {b : BlockValue}
    (h : BlockValue.new num more size = .ok b) : BvOk b := by
  unfold BlockValue.new at h
  split at h
  · simp at h
  · simp only at h
    split at h
    · simp at h
    · split at h
      · simp at h
      · simp only [Res.ok.injEq] at h
        subst h
        constructor <;> simp only <;> omega

theorem new_ne_panic (num : Nat) (more : Bool) (size : Nat) : BlockValue.new num more size ≠ .panic := by
  unfold BlockValue.new
  split
  · simp
  · simp only
    split
    · simp
    · split <;> simp

/-! `clampBlock` (D21 fix) -/

theorem clampBlock_ne_panic (b : BlockValue) (s : Option Nat) : clampBlock b s ≠ .panic := by
  unfold clampBlock
  split
  · split
    · have := new_ne_panic (b.num * 2 ^ (b.szx - ‹Nat›)) b.more (16 * 2 ^ ‹Nat›)
      split <;> simp_all [badRequest]
    · simp
  · simp

theorem clampBlock_ok_bv {b b' : BlockValue} {s : Option Nat} (hb : BvOk b)
    (h : clampBlock b s = .ok b') : BvOk b' := by
  unfold clampBlock at h
  split at h
  · split at h
    · split at h
      · rename_i hn
        simp only [HRes.ok.injEq] at h
        subst h
        exact new_ok_bv hn
      · simp [badRequest] at h
      · simp at h
    · simp only [HRes.ok.injEq] at h
      subst h
      exact hb
  · simp only [HRes.ok.injEq] at h
    subst h
    exact hb

theorem clampBlock_err {b : BlockValue} {s : Option Nat} {c : Option ResponseType}
    (h : clampBlock b s = .herr c) : c = some .BadRequest := by
  unfold clampBlock at h
  split at h
  · split at h
    · split at h
      · simp at h
      · simpa [badRequest, eq_comm] using h
      · simp at h
    · simp at h
  · simp at h

/-- a follow-up that does not name a larger size than the negotiated one is served as it is -/
theorem clampBlock_le {b : BlockValue} {s : Option Nat} (h : ∀ x, s = some x → b.szx ≤ x) :
    clampBlock b s = .ok b := by
  unfold clampBlock
  split
  · rename_i x
    have := h x rfl
    rw [if_neg (by omega)]
  · rfl

/-- what a clamped follow-up is served: the same offset, at the negotiated size -/
theorem clampBlock_gt {b b' : BlockValue} {x : Nat} (hx : x < b.szx)
    (h : clampBlock b (some x) = .ok b') :
    b'.szx = x ∧ b'.num * b'.size = b.num * b.size ∧ b'.more = b.more := by
  unfold clampBlock at h
  simp only [hx, ↓reduceIte] at h
  split at h
  · rename_i bb hn
    simp only [HRes.ok.injEq] at h
    subst h
    have hsz : 16 * 2 ^ x = 2 ^ (x + 4) := by rw [Nat.pow_add]; omega
    have hpos : 1 ≤ 2 ^ (x + 4) := Nat.one_le_two_pow
    by_cases hbad : 16 * 2 ^ x = 0 ∨ 4096 ≤ 16 * 2 ^ x ∨ 65535 < b.num * 2 ^ (b.szx - x)
    · rw [C13.new_err _ _ _ hbad] at hn
      simp at hn
    · rw [C13.new_ok _ _ _ (by omega) (by omega) (by omega)] at hn
      simp only [Res.ok.injEq] at hn
      subst hn
      have hl : Nat.log2 (16 * 2 ^ x) = x + 4 := by rw [hsz, Nat.log2_two_pow]
      refine ⟨by simp only [hl]; omega, ?_, rfl⟩
      simp only [BlockValue.size, hl]
      have : x + 4 - 4 + 4 = x + 4 := by omega
      rw [this, Nat.mul_assoc, ← Nat.pow_add]
      congr 2
      omega
  · simp [badRequest] at h
  · simp at h

theorem newBlock_ok_bv {num : Nat} {more : Bool} {size : Nat} {b : BlockValue}
    (h : newBlock num more size = .ok (some b)) : BvOk b := by
  unfold newBlock at h
  split at h
  · rename_i b' hb
    simp only [HRes.ok.injEq, Option.some.injEq] at h
    subst h
    exact new_ok_bv hb
  · simp [internal] at h
  · simp at h

/-- any block chosen by `negotiate` is well-formed, whatever the client sent -/
theorem negotiate_ok_bv {rb : Option BlockValue} {ms tp M : Nat} {b : BlockValue}
    (h : negotiate rb ms tp M = .ok (some b)) : BvOk b := by
  unfold negotiate at h
  simp only at h
  split at h
  · simp [internal] at h
  · split at h
    · simp [internal] at h
    · split at h
      · exact newBlock_ok_bv h
      · split at h
        · simp at h
        · exact newBlock_ok_bv h

/-! ### totality of the building blocks -/

theorem getType_total (h : Header) : ∃ t, h.getType = .ok t := by
  have key : ∀ b : UInt8, (MessageType.ofBits? ((0x30 &&& b) >>> 4).toNat).isSome = true := by
    apply Codec.byte_forall
    decide +kernel
  obtain ⟨t, ht⟩ := Option.isSome_iff_exists.1 (key h.vtt)
  exact ⟨t, by simp only [Header.getType, Header.typeBits, ht]⟩

theorem computeMessageSize_ne_panic (p : Packet) : computeMessageSize p ≠ .panic := by
  unfold computeMessageSize
  split
  · simp
  · simp [internal]
  · rename_i h
    exact absurd h (Codec.enc_never_panics _ _)

theorem computeMessageSize_err {p : Packet} {c : Option ResponseType}
    (h : computeMessageSize p = .herr c) : c = some .InternalServerError := by
  unfold computeMessageSize at h
  split at h
  · simp at h
  · simp only [internal, HRes.herr.injEq] at h; exact h.symm
  · simp at h

theorem addBlockOption_ok {p : Packet} {n : Nat} {b : BlockValue} (h : b.num ≤ 65535) :
    ∃ bs, b.enc = .ok bs ∧ addBlockOption p n b = .ok (p.addOption n bs) := by
  obtain ⟨bs, hbs⟩ := enc_ok_of_num h
  exact ⟨bs, hbs, by simp only [addBlockOption, hbs]⟩

/-! ### `packetCloneLimited` -/

/-- the option-copying loop of `packet_clone_limited` -/
def copyOpts (l : OptMap) (d : Packet) : Packet :=
  l.foldl (fun d kv => d.setOption (CoapOption.toU16 (CoapOption.ofU16 kv.1)) kv.2) d

theorem copyOpts_nil (d : Packet) : copyOpts [] d = d := rfl

theorem copyOpts_cons (a : Nat) (va : List Bytes) (rest : OptMap) (d : Packet) :
    copyOpts ((a, va) :: rest) d = copyOpts rest (d.setOption a va) := by
  simp only [copyOpts, List.foldl_cons, C05.opt_num_name_num]

theorem copyOpts_frame (l : OptMap) (d : Packet) :
    (copyOpts l d).header = d.header ∧ (copyOpts l d).token = d.token ∧
    (copyOpts l d).payload = d.payload := by
  induction l generalizing d with
  | nil => simp [copyOpts_nil]
  | cons kv rest ih =>
    obtain ⟨a, va⟩ := kv
    rw [copyOpts_cons]
    have := ih (d.setOption a va)
    simpa [Packet.setOption] using this

theorem copyOpts_get (l : OptMap) (hs : l.Sorted) (d : Packet) (n : Nat) :
    (copyOpts l d).getOption n =
      match OptMap.get l n with
      | some v => some v
      | none => d.getOption n := by
  induction l generalizing d with
  | nil => simp [copyOpts_nil, OptMap.get]
  | cons kv rest ih =>
    obtain ⟨a, va⟩ := kv
    have hs' := (OptMap.X.sorted_cons a va rest).1 hs
    rw [copyOpts_cons, ih hs'.2]
    by_cases han : a = n
    · subst han
      have hnone : OptMap.get rest a = none :=
        OptMap.get_none_of_lt (fun b hb => hs'.1 b hb)
      simp [hnone, OptMap.get, Packet.getOption, Packet.setOption, OptMap.get_insert]
    · have hna : ¬ n = a := fun e => han e.symm
      simp only [OptMap.get, han, ↓reduceIte, Packet.getOption, Packet.setOption,
        OptMap.get_insert, hna]

theorem copyOpts_sorted (l : OptMap) (d : Packet) (hd : d.options.Sorted) :
    (copyOpts l d).options.Sorted := by
  induction l generalizing d with
  | nil => simpa [copyOpts_nil] using hd
  | cons kv rest ih =>
    obtain ⟨a, va⟩ := kv
    rw [copyOpts_cons]
    exact ih _ (OptMap.sorted_insert hd a va)

/-- `packet_clone_limited` never fails: it is the header tweak followed by the
option copy -/
theorem packetCloneLimited_eq (dst src : Packet) :
    ∃ t, src.header.getType = .ok t ∧
      packetCloneLimited dst src =
        .ok (copyOpts src.options
          { dst with header :=
              { ((dst.header.setVersion src.header.getVersion).setType t) with code := src.header.code } }) := by
  obtain ⟨t, ht⟩ := getType_total src.header
  exact ⟨t, ht, by simp only [packetCloneLimited, ht, copyOpts]⟩

theorem packetCloneLimited_total (dst src : Packet) : ∃ r, packetCloneLimited dst src = .ok r := by
  obtain ⟨t, _, h⟩ := packetCloneLimited_eq dst src
  exact ⟨_, h⟩

/-- what the limited clone keeps from the destination (message id, token,
payload, options the source does not have) and takes from the source (code,
options) -/
theorem packetCloneLimited_spec {dst src r : Packet} (h : packetCloneLimited dst src = .ok r) :
    r.header.mid = dst.header.mid ∧ r.token = dst.token ∧ r.payload = dst.payload ∧
    r.header.code = src.header.code ∧
    (src.options.Sorted → ∀ n, r.getOption n =
      match src.getOption n with
      | some v => some v
      | none => dst.getOption n) := by
  obtain ⟨t, _, h'⟩ := packetCloneLimited_eq dst src
  rw [h'] at h
  simp only [Res.ok.injEq] at h
  subst h
  obtain ⟨h1, h2, h3⟩ := copyOpts_frame src.options
    { dst with header :=
        { ((dst.header.setVersion src.header.getVersion).setType t) with code := src.header.code } }
  refine ⟨by rw [h1]; rfl, by rw [h2], by rw [h3], by rw [h1], ?_⟩
  intro hs n
  rw [copyOpts_get _ hs]
  rfl

end CoapLite.Block
