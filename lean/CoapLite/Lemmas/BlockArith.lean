/-
Pure facts about the block handler's helper functions (Model/Block.lean):
block-size negotiation, chunking / reassembly, the upload splice.  Used by
Props/C08, C09, C10, C11.
-/
import CoapLite.Model.Block
import CoapLite.Props.C13

namespace CoapLite.Block

/-- a block value as it can come out of `BlockValue.dec` / `BlockValue.new` -/
def BvOk (b : BlockValue) : Prop := b.num ≤ 65535 ∧ b.szx ≤ 7

/-! ### negotiation -/

/-- the block budget: what is left of `maxTotal` after the non-payload part of
the message and the 12 bytes reserved for block options -/
def blockBudget (messageSize totalPayload maxTotal : Nat) : Nat :=
  maxTotal - ((messageSize + Consts.blockOptionsMaxLength) - totalPayload)

/-! helpers -/

theorem size_bounds_of_szx (r : BlockValue) (h : r.szx ≤ 7) : 16 ≤ r.size ∧ r.size ≤ 2048 := by
  unfold BlockValue.size
  have h1 : 2 ^ 4 ≤ 2 ^ (r.szx + 4) := Nat.pow_le_pow_right (by omega) (by omega)
  have h2 : 2 ^ (r.szx + 4) ≤ 2 ^ 11 := Nat.pow_le_pow_right (by omega) (by omega)
  simpa using And.intro h1 h2

theorem log_szx (sz : Nat) (h1 : 1 ≤ sz) (h2 : sz < 4096) :
    Nat.log2 sz - 4 ≤ 7 ∧ (16 ≤ sz → 2 ^ (Nat.log2 sz - 4 + 4) ≤ sz) ∧
    (sz < 16 → Nat.log2 sz - 4 = 0) ∧ (sz < 2048 → Nat.log2 sz - 4 ≤ 6) := by
  have hne : sz ≠ 0 := by omega
  refine ⟨?_, ?_, ?_, ?_⟩
  · have : Nat.log2 sz < 12 := (Nat.log2_lt hne).2 (by simpa using h2)
    omega
  · intro h16
    have hge : 4 ≤ Nat.log2 sz := (Nat.le_log2 hne).2 (by simpa using h16)
    have he : Nat.log2 sz - 4 + 4 = Nat.log2 sz := by omega
    rw [he]
    exact Nat.log2_self_le hne
  · intro h16
    have : Nat.log2 sz < 4 := (Nat.log2_lt hne).2 (by simpa using h16)
    omega
  · intro h
    have : Nat.log2 sz < 11 := (Nat.log2_lt hne).2 (by simpa using h)
    omega

theorem newBlock_ok (num : Nat) (more : Bool) (sz : Nat)
    (h1 : 1 ≤ sz) (h2 : sz < 4096) (hn : num ≤ 65535) :
    newBlock num more sz = .ok (some { num := num, more := more, szx := Nat.log2 sz - 4 }) := by
  unfold newBlock
  rw [C13.new_ok num more sz h1 h2 hn]

theorem newBlock_err (num : Nat) (more : Bool) (sz : Nat)
    (h : sz = 0 ∨ 4096 ≤ sz ∨ 65535 < num) : newBlock num more sz = internal := by
  unfold newBlock
  rw [C13.new_err num more sz h]

theorem newBlock_cases (num : Nat) (more : Bool) (sz : Nat) :
    newBlock num more sz = internal ∨
    (1 ≤ sz ∧ sz < 4096 ∧ num ≤ 65535 ∧
      newBlock num more sz = .ok (some { num := num, more := more, szx := Nat.log2 sz - 4 })) := by
  by_cases h : sz = 0 ∨ 4096 ≤ sz ∨ 65535 < num
  · exact Or.inl (newBlock_err num more sz h)
  · have h1 : 1 ≤ sz := by omega
    have h2 : sz < 4096 := by omega
    have h3 : num ≤ 65535 := by omega
    exact Or.inr ⟨h1, h2, h3, newBlock_ok num more sz h1 h2 h3⟩

/-- normal form of `negotiate` in terms of the block budget -/
theorem negotiate_eq (rb : Option BlockValue) (ms tp M : Nat) :
    negotiate rb ms tp M =
      if blockBudget ms tp M = 0 then internal
      else match rb with
        | some r =>
          newBlock (r.num * r.size / min r.size (blockBudget ms tp M))
            (decide (r.num * r.size + min r.size (blockBudget ms tp M) < tp))
            (min r.size (blockBudget ms tp M))
        | none =>
          if tp < blockBudget ms tp M then .ok none
          else newBlock 0 true (min (blockBudget ms tp M) Consts.maximumBlockSize) := by
  unfold negotiate blockBudget
  simp only []
  by_cases h : M < ms + Consts.blockOptionsMaxLength - tp
  · have h0 : M - (ms + Consts.blockOptionsMaxLength - tp) = 0 := by omega
    simp [h, h0]
  · simp only [h, ↓reduceIte]
    cases rb <;> rfl

theorem internal_ne_ok {α} (a : α) : (internal : HRes α) ≠ .ok a := by
  unfold internal; intro h; cases h

theorem negotiate_never_panics (rb : Option BlockValue) (ms tp M : Nat) :
    negotiate rb ms tp M ≠ .panic := by
  rw [negotiate_eq]
  split
  · unfold internal; intro h; cases h
  · split
    · rename_i r
      rcases newBlock_cases (r.num * r.size / min r.size (blockBudget ms tp M))
        (decide (r.num * r.size + min r.size (blockBudget ms tp M) < tp))
        (min r.size (blockBudget ms tp M)) with h | ⟨_, _, _, h⟩ <;> rw [h]
      · unfold internal; intro h; cases h
      · intro h; cases h
    · split
      · intro h; cases h
      · rcases newBlock_cases 0 true (min (blockBudget ms tp M) Consts.maximumBlockSize) with h | ⟨_, _, _, h⟩ <;> rw [h]
        · unfold internal; intro h; cases h
        · intro h; cases h

/-- errors of `negotiate` carry the 5.00 code -/
theorem negotiate_err (rb : Option BlockValue) (ms tp M : Nat) (c : Option ResponseType)
    (h : negotiate rb ms tp M = .herr c) : c = some .InternalServerError := by
  rw [negotiate_eq] at h
  have hint : ∀ c, (internal : HRes (Option BlockValue)) = .herr c →
      c = some .InternalServerError := by
    intro c h; unfold internal at h; injection h with h; exact h.symm
  split at h
  · exact hint c h
  · split at h
    · rename_i r
      rcases newBlock_cases (r.num * r.size / min r.size (blockBudget ms tp M))
        (decide (r.num * r.size + min r.size (blockBudget ms tp M) < tp))
        (min r.size (blockBudget ms tp M)) with h' | ⟨_, _, _, h'⟩ <;> rw [h'] at h
      · exact hint c h
      · cases h
    · split at h
      · cases h
      · rcases newBlock_cases 0 true (min (blockBudget ms tp M) Consts.maximumBlockSize) with h' | ⟨_, _, _, h'⟩ <;> rw [h'] at h
        · exact hint c h
        · cases h

/-- whenever a block is chosen, it is well-formed, its size is a power of two
between 16 and the block budget's power-of-two floor, never larger than the
client's (if the client named one), and at most 2048 -/
theorem negotiate_some (rb : Option BlockValue) (ms tp M : Nat) (b : BlockValue)
    (hrb : ∀ r, rb = some r → BvOk r) (hms : tp ≤ ms)
    (h : negotiate rb ms tp M = .ok (some b)) :
    BvOk b ∧ b.size = 2 ^ (b.szx + 4) ∧
    (16 ≤ blockBudget ms tp M → b.size ≤ blockBudget ms tp M) ∧
    (∀ r, rb = some r → b.size ≤ r.size) ∧
    (rb = none → b.num = 0 ∧ b.more = true ∧ blockBudget ms tp M ≤ tp) := by
  have hbs : ∀ (n : Nat) (m : Bool) (s : Nat),
      BlockValue.size { num := n, more := m, szx := s } = 2 ^ (s + 4) := fun _ _ _ => rfl
  rw [negotiate_eq] at h
  split at h
  · exact absurd h (internal_ne_ok _)
  · rename_i hB
    split at h
    · rename_i r
      have hr := hrb r rfl
      have hsz := size_bounds_of_szx r hr.2
      rcases newBlock_cases (r.num * r.size / min r.size (blockBudget ms tp M))
        (decide (r.num * r.size + min r.size (blockBudget ms tp M) < tp))
        (min r.size (blockBudget ms tp M)) with h' | ⟨h1, h2, h3, h'⟩ <;> rw [h'] at h
      · exact absurd h (internal_ne_ok _)
      · injection h with h
        injection h with h
        subst h
        obtain ⟨l1, l2, l3, _⟩ := log_szx _ h1 h2
        refine ⟨⟨h3, l1⟩, rfl, ?_, ?_, ?_⟩
        · intro h16
          have := l2 (by omega)
          rw [hbs]
          omega
        · intro r' hr'
          injection hr' with hr'
          subst hr'
          rw [hbs]
          by_cases hc : 16 ≤ min r.size (blockBudget ms tp M)
          · have := l2 hc
            omega
          · have := l3 (by omega)
            rw [this]
            omega
        · intro hn; cases hn
    · split at h
      · cases h
      · rename_i htp
        rcases newBlock_cases 0 true (min (blockBudget ms tp M) Consts.maximumBlockSize) with h' | ⟨h1, h2, h3, h'⟩ <;> rw [h'] at h
        · exact absurd h (internal_ne_ok _)
        · injection h with h
          injection h with h
          subst h
          obtain ⟨l1, l2, l3, _⟩ := log_szx _ h1 h2
          refine ⟨⟨h3, l1⟩, rfl, ?_, ?_, ?_⟩
          · intro h16
            have hmb : Consts.maximumBlockSize = 1024 := by decide
            have := l2 (by omega)
            rw [hbs]
            omega
          · intro r' hr'; cases hr'
          · intro _
            exact ⟨rfl, rfl, by omega⟩

/-- with at least 16 bytes of block budget (i.e. `M ≥ overhead + 28`) and at
most 1280 in total, the size exponent stays in 0..6 (16..1024 bytes) -/
theorem negotiate_szx_le_6 (rb : Option BlockValue) (ms tp M : Nat) (b : BlockValue)
    (hrb : ∀ r, rb = some r → BvOk r) (hms : tp ≤ ms) (hM : M ≤ 1280)
    (h : negotiate rb ms tp M = .ok (some b)) : b.szx ≤ 6 := by
  have hB : blockBudget ms tp M ≤ 1280 := by unfold blockBudget; omega
  rw [negotiate_eq] at h
  split at h
  · exact absurd h (internal_ne_ok _)
  · split at h
    · rename_i r
      rcases newBlock_cases (r.num * r.size / min r.size (blockBudget ms tp M))
        (decide (r.num * r.size + min r.size (blockBudget ms tp M) < tp))
        (min r.size (blockBudget ms tp M)) with h' | ⟨h1, h2, h3, h'⟩ <;> rw [h'] at h
      · exact absurd h (internal_ne_ok _)
      · injection h with h
        injection h with h
        subst h
        obtain ⟨_, _, _, l4⟩ := log_szx _ h1 h2
        exact l4 (by omega)
    · split at h
      · cases h
      · rcases newBlock_cases 0 true (min (blockBudget ms tp M) Consts.maximumBlockSize) with h' | ⟨h1, h2, h3, h'⟩ <;> rw [h'] at h
        · exact absurd h (internal_ne_ok _)
        · injection h with h
          injection h with h
          subst h
          obtain ⟨_, _, _, l4⟩ := log_szx _ h1 h2
          exact l4 (by omega)

theorem log2_two_pow' (n : Nat) : Nat.log2 (2 ^ n) = n := by
  have hne : (2 : Nat) ^ n ≠ 0 := by
    have : 0 < 2 ^ n := Nat.two_pow_pos n
    omega
  have h1 : n ≤ Nat.log2 (2 ^ n) := (Nat.le_log2 hne).2 (Nat.le_refl _)
  have h2 : Nat.log2 (2 ^ n) < n + 1 :=
    (Nat.log2_lt hne).2 (Nat.pow_lt_pow_right (by omega) (by omega))
  omega

/-- when the client's size fits the budget, exactly that size and the client's
block number are used -/
theorem negotiate_exact (r : BlockValue) (ms tp M : Nat) (hr : BvOk r) (hms : tp ≤ ms)
    (hfit : r.size ≤ blockBudget ms tp M) (h4 : r.szx ≤ 7) :
    negotiate (some r) ms tp M =
      .ok (some { num := r.num, more := decide (r.num * r.size + r.size < tp), szx := r.szx }) := by
  have hsz := size_bounds_of_szx r h4
  rw [negotiate_eq]
  have hB : ¬ blockBudget ms tp M = 0 := by omega
  simp only [hB, ↓reduceIte]
  have hmin : min r.size (blockBudget ms tp M) = r.size := by omega
  rw [hmin]
  have hdiv : r.num * r.size / r.size = r.num := Nat.mul_div_cancel _ (by omega)
  rw [hdiv, newBlock_ok _ _ _ (by omega) (by omega) hr.1]
  have : Nat.log2 r.size - 4 = r.szx := by
    unfold BlockValue.size
    rw [log2_two_pow']
    omega
  rw [this]

/-- no block option is produced iff the client asked for none and the payload
is smaller than the budget -/
theorem negotiate_none (ms tp M : Nat) (hms : tp ≤ ms) :
    negotiate none ms tp M = .ok none ↔
      ((ms + Consts.blockOptionsMaxLength) - tp ≤ M ∧ tp < blockBudget ms tp M) := by
  rw [negotiate_eq]
  constructor
  · intro h
    split at h
    · exact absurd h (internal_ne_ok _)
    · rename_i hB
      simp only at h
      split at h
      · rename_i htp
        refine ⟨?_, htp⟩
        unfold blockBudget at hB
        omega
      · rcases newBlock_cases 0 true (min (blockBudget ms tp M) Consts.maximumBlockSize) with h' | ⟨h1, h2, h3, h'⟩ <;> rw [h'] at h
        · exact absurd h (internal_ne_ok _)
        · injection h with h
          cases h
  · intro ⟨_, h2⟩
    have hB : ¬ blockBudget ms tp M = 0 := by omega
    simp [hB, h2]

/-! ### chunks and reassembly -/

theorem chunkAt_length (body : Bytes) (size k : Nat) (c : Bytes) (more : Bool)
    (h : chunkAt body size k = some (c, more)) (hs : 0 < size) :
    c.length ≤ size ∧ (more = true → c.length = size) ∧
    c = (body.drop (k * size)).take size ∧
    (more = true ↔ (k + 1) * size < body.length) := by
  have hk : (k + 1) * size = k * size + size := Nat.succ_mul k size
  unfold chunkAt at h
  split at h
  · rename_i hlt
    injection h with h
    injection h with hc hm
    subst hc hm
    refine ⟨?_, ?_, rfl, ?_⟩
    · simp only [List.length_take, List.length_drop]; omega
    · simp only [List.length_take, List.length_drop, decide_eq_true_eq]
      intro h; omega
    · simp only [decide_eq_true_eq]
  · rename_i hge
    split at h
    · rename_i h0
      injection h with h
      injection h with hc hm
      subst hc hm
      obtain ⟨hk0, hl⟩ := h0
      have hb : body = [] := List.eq_nil_of_length_eq_zero hl
      subst hb hk0
      simp
    · cases h

theorem chunkAt_some_iff (body : Bytes) (size k : Nat) :
    (chunkAt body size k).isSome ↔ (k * size < body.length ∨ (k = 0 ∧ body = [])) := by
  unfold chunkAt
  split
  · rename_i h; simp [h]
  · rename_i h
    split
    · rename_i h0
      have hb : body = [] := List.eq_nil_of_length_eq_zero h0.2
      simp [h0.1, hb]
    · rename_i h0
      simp only [Option.isSome_none, Bool.false_eq_true, false_iff]
      intro hc
      rcases hc with hc | ⟨hc1, hc2⟩
      · exact h hc
      · exact h0 ⟨hc1, by simp [hc2]⟩

theorem chunkAt_fst (body : Bytes) (size k : Nat) :
    ((chunkAt body size k).map (·.1)).getD [] = (body.drop (k * size)).take size := by
  unfold chunkAt
  split
  · simp
  · rename_i h
    have : body.drop (k * size) = [] := List.drop_eq_nil_of_le (by omega)
    rw [this]
    split <;> simp

/-- fetching blocks 0,1,2,… at one size reassembles the body: the first `n`
chunks concatenate to the first `n·size` bytes -/
theorem chunks_concat (body : Bytes) (size n : Nat) (hs : 0 < size) :
    ((List.range n).flatMap (fun k => ((chunkAt body size k).map (·.1)).getD [])) = body.take (n * size) := by
  induction n with
  | zero => simp
  | succ n ih =>
    rw [List.range_succ, List.flatMap_append, ih, Nat.succ_mul, List.take_add]
    simp [chunkAt_fst]

/-- general tiling (covers a size reduced mid-transfer): if each fetched piece
is the chunk at the current offset, the pieces concatenate to a prefix of the
body and the offset advances by the piece's length -/
theorem tiling_step (body : Bytes) (off size k : Nat) (c : Bytes) (more : Bool)
    (hk : k * size = off) (h : chunkAt body size k = some (c, more)) :
    body.take off ++ c = body.take (off + c.length) ∧ (more = false → off + c.length = body.length) := by
  have hk1 : (k + 1) * size = k * size + size := Nat.succ_mul k size
  subst hk
  unfold chunkAt at h
  split at h
  · rename_i hlt
    injection h with h
    injection h with hc hm
    subst hc hm
    constructor
    · rw [List.take_add]
      congr 1
      rw [List.length_take, ← List.take_take, List.take_length]
    · intro hm
      simp only [decide_eq_false_iff_not] at hm
      simp only [List.length_take, List.length_drop]
      omega
  · split at h
    · rename_i h0
      injection h with h
      injection h with hc hm
      subst hc hm
      obtain ⟨hk0, hl⟩ := h0
      have hb : body = [] := List.eq_nil_of_length_eq_zero hl
      subst hb hk0
      simp
    · cases h

/-! ### the upload splice -/

theorem splice_grow_bound (dst : Bytes) (start stop : Nat) (payload : Bytes) (maxR : Nat) (r : Bytes)
    (hss : start ≤ stop) (h : extendingSplice dst start stop payload maxR = some r) :
    r.length ≤ dst.length + maxR + payload.length ∧
    r.length = max dst.length stop - (stop - start) + payload.length := by
  unfold extendingSplice at h
  simp only at h
  split at h
  · rename_i hge
    split at h
    · cases h
    · rename_i hR
      simp only [Option.map_some] at h
      injection h with h
      subst h
      simp only [List.length_append, List.length_take, List.length_drop, List.length_replicate]
      omega
  · rename_i hlt
    simp only [Option.map_some] at h
    injection h with h
    subst h
    simp only [List.length_append, List.length_take, List.length_drop]
    omega

/-- a block whose end would need a jump of more than the reserve is rejected -/
theorem splice_reject (dst : Bytes) (start stop : Nat) (payload : Bytes) (maxR : Nat)
    (h : stop - dst.length > maxR) : extendingSplice dst start stop payload maxR = none := by
  unfold extendingSplice
  have h1 : stop ≥ dst.length := by omega
  simp [h1, h]

/-- in-order delivery: with the first `k` full blocks buffered, block `k`
(full or final) extends the buffer to the first `k·s + |chunk|` bytes -/
theorem splice_in_order (B : Bytes) (s k : Nat) (maxR : Nat) (hs : 0 < s) (hR : s ≤ maxR)
    (hk : k * s ≤ B.length) :
    extendingSplice (B.take (k * s)) (k * s) (k * s + s) ((B.drop (k * s)).take s) maxR =
      some (B.take (k * s + s)) := by
  unfold extendingSplice
  have hl : (B.take (k * s)).length = k * s := by rw [List.length_take]; omega
  have h1 : k * s + s ≥ (B.take (k * s)).length := by omega
  have h2 : ¬ (k * s + s - (B.take (k * s)).length > maxR) := by omega
  simp only [h1, h2, ↓reduceIte, Option.map_some]
  congr 1
  have e1 : (List.take (k * s) B ++ List.replicate (k * s + s - (List.take (k * s) B).length) 0).take (k * s)
      = List.take (k * s) B := by
    rw [List.take_append_of_le_length (by omega), List.take_take, Nat.min_self]
  have e2 : (List.take (k * s) B ++ List.replicate (k * s + s - (List.take (k * s) B).length) 0).drop (k * s + s)
      = [] := by
    apply List.drop_of_length_le
    simp only [List.length_append, List.length_replicate]; omega
  rw [e1, e2, List.append_nil, List.take_add]

/-- re-delivery of the block just stored changes nothing -/
theorem splice_duplicate (B : Bytes) (s k : Nat) (maxR : Nat) (hs : 0 < s) (hR : s ≤ maxR)
    (hk : k * s + s ≤ B.length) :
    extendingSplice (B.take (k * s + s)) (k * s) (k * s + s) ((B.drop (k * s)).take s) maxR =
      some (B.take (k * s + s)) := by
  unfold extendingSplice
  have hl : (B.take (k * s + s)).length = k * s + s := by rw [List.length_take]; omega
  have h1 : k * s + s ≥ (B.take (k * s + s)).length := by omega
  have h2 : ¬ (k * s + s - (B.take (k * s + s)).length > maxR) := by omega
  simp only [h1, h2, ↓reduceIte, Option.map_some]
  congr 1
  have e1 : (List.take (k * s + s) B ++
      List.replicate (k * s + s - (List.take (k * s + s) B).length) 0).take (k * s)
      = List.take (k * s) B := by
    rw [List.take_append_of_le_length (by omega), List.take_take]
    congr 1
    omega
  have e2 : (List.take (k * s + s) B ++
      List.replicate (k * s + s - (List.take (k * s + s) B).length) 0).drop (k * s + s)
      = [] := by
    apply List.drop_of_length_le
    simp only [List.length_append, List.length_replicate]; omega
  rw [e1, e2, List.append_nil, List.take_add]

end CoapLite.Block
