/-
Pure facts about the block handler's helper functions (Model/Block.lean):
block-size negotiation, chunking / reassembly, the upload splice.  Used by
Props/C08, C09, C10, C11.
-/
import CoapLite.Model.Block
import CoapLite.Props.C13

namespace CoapLite.Block

/-- a block value as it can come out of `BlockValue.dec` / `BlockValue.new` -/
def BvOk (b : BlockValue) : Prop := b.num ≤ 65535 ∧ b.szx ≤ 7

/-! ### negotiation -/

/-- the block budget: what is left of `maxTotal` after the non-payload part of
the message and the 12 bytes reserved for block options -/
def blockBudget (messageSize totalPayload maxTotal : Nat) : Nat :=
  maxTotal - ((messageSize + Consts.blockOptionsMaxLength) - totalPayload)

theorem negotiate_never_panics (rb : Option BlockValue) (ms tp M : Nat) :
    negotiate rb ms tp M ≠ .panic := by
  sorry

/-- errors of `negotiate` carry the 5.00 code -/
theorem negotiate_err (rb : Option BlockValue) (ms tp M : Nat) (c : Option ResponseType)
    (h : negotiate rb ms tp M = .herr c) : c = some .InternalServerError := by
  sorry

/-- whenever a block is chosen, it is well-formed, its size is a power of two
between 16 and the block budget's power-of-two floor, never larger than the
client's (if the client named one), and at most 2048 -/
theorem negotiate_some (rb : Option BlockValue) (ms tp M : Nat) (b : BlockValue)
    (hrb : ∀ r, rb = some r → BvOk r) (hms : tp ≤ ms)
    (h : negotiate rb ms tp M = .ok (some b)) :
    BvOk b ∧ b.size = 2 ^ (b.szx + 4) ∧
    (16 ≤ blockBudget ms tp M → b.size ≤ blockBudget ms tp M) ∧
    (∀ r, rb = some r → b.size ≤ r.size) ∧
    (rb = none → b.num = 0 ∧ b.more = true ∧ blockBudget ms tp M ≤ tp) := by
  sorry

/-- with at least 16 bytes of block budget (i.e. `M ≥ overhead + 28`) and at
most 1280 in total, the size exponent stays in 0..6 (16..1024 bytes) -/
theorem negotiate_szx_le_6 (rb : Option BlockValue) (ms tp M : Nat) (b : BlockValue)
    (hrb : ∀ r, rb = some r → BvOk r) (hms : tp ≤ ms) (hM : M ≤ 1280)
    (h : negotiate rb ms tp M = .ok (some b)) : b.szx ≤ 6 := by
  sorry

/-- when the client's size fits the budget, exactly that size and the client's
block number are used -/
theorem negotiate_exact (r : BlockValue) (ms tp M : Nat) (hr : BvOk r) (hms : tp ≤ ms)
    (hfit : r.size ≤ blockBudget ms tp M) (h4 : r.szx ≤ 7) :
    negotiate (some r) ms tp M =
      .ok (some { num := r.num, more := decide (r.num * r.size + r.size < tp), szx := r.szx }) := by
  sorry

/-- no block option is produced iff the client asked for none and the payload
is smaller than the budget -/
theorem negotiate_none (ms tp M : Nat) (hms : tp ≤ ms) :
    negotiate none ms tp M = .ok none ↔
      ((ms + Consts.blockOptionsMaxLength) - tp ≤ M ∧ tp < blockBudget ms tp M) := by
  sorry

/-! ### chunks and reassembly -/

theorem chunkAt_length (body : Bytes) (size k : Nat) (c : Bytes) (more : Bool)
    (h : chunkAt body size k = some (c, more)) (hs : 0 < size) :
    c.length ≤ size ∧ (more = true → c.length = size) ∧
    c = (body.drop (k * size)).take size ∧
    (more = true ↔ (k + 1) * size < body.length) := by
  sorry

theorem chunkAt_some_iff (body : Bytes) (size k : Nat) :
    (chunkAt body size k).isSome ↔ (k * size < body.length ∨ (k = 0 ∧ body = [])) := by
  sorry

/-- fetching blocks 0,1,2,… at one size reassembles the body: the first `n`
chunks concatenate to the first `n·size` bytes -/
theorem chunks_concat (body : Bytes) (size n : Nat) (hs : 0 < size) :
    ((List.range n).flatMap (fun k => ((chunkAt body size k).map (·.1)).getD [])) = body.take (n * size) := by
  sorry

/-- general tiling (covers a size reduced mid-transfer): if each fetched piece
is the chunk at the current offset, the pieces concatenate to a prefix of the
body and the offset advances by the piece's length -/
theorem tiling_step (body : Bytes) (off size k : Nat) (c : Bytes) (more : Bool)
    (hk : k * size = off) (h : chunkAt body size k = some (c, more)) :
    body.take off ++ c = body.take (off + c.length) ∧ (more = false → off + c.length = body.length) := by
  sorry

/-! ### the upload splice -/

theorem splice_grow_bound (dst : Bytes) (start stop : Nat) (payload : Bytes) (maxR : Nat) (r : Bytes)
    (hss : start ≤ stop) (h : extendingSplice dst start stop payload maxR = some r) :
    r.length ≤ dst.length + maxR + payload.length ∧
    r.length = max dst.length stop - (stop - start) + payload.length := by
  sorry

/-- a block whose end would need a jump of more than the reserve is rejected -/
theorem splice_reject (dst : Bytes) (start stop : Nat) (payload : Bytes) (maxR : Nat)
    (h : stop - dst.length > maxR) : extendingSplice dst start stop payload maxR = none := by
  sorry

/-- in-order delivery: with the first `k` full blocks buffered, block `k`
(full or final) extends the buffer to the first `k·s + |chunk|` bytes -/
theorem splice_in_order (B : Bytes) (s k : Nat) (maxR : Nat) (hs : 0 < s) (hR : s ≤ maxR)
    (hk : k * s ≤ B.length) :
    extendingSplice (B.take (k * s)) (k * s) (k * s + s) ((B.drop (k * s)).take s) maxR =
      some (B.take (k * s + s)) := by
  sorry

/-- re-delivery of the block just stored changes nothing -/
theorem splice_duplicate (B : Bytes) (s k : Nat) (maxR : Nat) (hs : 0 < s) (hR : s ≤ maxR)
    (hk : k * s + s ≤ B.length) :
    extendingSplice (B.take (k * s + s)) (k * s) (k * s + s) ((B.drop (k * s)).take s) maxR =
      some (B.take (k * s + s)) := by
  sorry

end CoapLite.Block
