import CoapLite.Model.Uint
import CoapLite.Spec.Uint

namespace CoapLite
open Spec

theorem beValue_append_single (bs : Bytes) (b : UInt8) :
    beValue (bs ++ [b]) = beValue bs * 256 + b.toNat := by
  simp [beValue, List.foldl_append]

theorem beValue_nil : beValue [] = 0 := rfl

theorem beValue_cons_aux (bs : Bytes) (a : Nat) :
    bs.foldl (fun acc b => acc * 256 + b.toNat) a
      = a * 256 ^ bs.length + bs.foldl (fun acc b => acc * 256 + b.toNat) 0 := by
  induction bs generalizing a with
  | nil => simp
  | cons b bs ih =>
    simp only [List.foldl_cons, List.length_cons]
    rw [ih (a * 256 + b.toNat), ih (0 * 256 + b.toNat)]
    simp [Nat.pow_succ, Nat.add_mul, Nat.mul_assoc, Nat.add_assoc]
    rw [Nat.mul_comm (256 ^ bs.length) 256]

theorem beValue_cons (b : UInt8) (bs : Bytes) :
    beValue (b :: bs) = b.toNat * 256 ^ bs.length + beValue bs := by
  unfold beValue
  simp only [List.foldl_cons]
  rw [beValue_cons_aux]; simp

theorem beValue_lt (bs : Bytes) : beValue bs < 256 ^ bs.length := by
  induction bs with
  | nil => simp [beValue]
  | cons b bs ih =>
    rw [beValue_cons, List.length_cons, Nat.pow_succ]
    have hb : b.toNat < 256 := b.toNat_lt
    have : b.toNat * 256 ^ bs.length + 256 ^ bs.length ≤ 256 * 256 ^ bs.length := by
      have : (b.toNat + 1) * 256 ^ bs.length ≤ 256 * 256 ^ bs.length :=
        Nat.mul_le_mul_right _ (by omega)
      simpa [Nat.add_mul] using this
    rw [Nat.mul_comm (256 ^ bs.length) 256]
    omega

theorem minimalBE_zero : minimalBE 0 = [] := by
  rw [minimalBE]; simp

theorem minimalBE_pos {n : Nat} (h : n ≠ 0) :
    minimalBE n = minimalBE (n / 256) ++ [UInt8.ofNat (n % 256)] := by
  rw [minimalBE]; simp [h]

/-- the spec is a right inverse of the big-endian value -/
theorem beValue_minimalBE (n : Nat) : beValue (minimalBE n) = n := by
  induction n using Nat.strongRecOn with
  | _ n ih =>
    by_cases h : n = 0
    · subst h; simp [minimalBE_zero, beValue]
    · rw [minimalBE_pos h, beValue_append_single, ih (n / 256) (by omega)]
      have : (UInt8.ofNat (n % 256)).toNat = n % 256 := by
        simp
      rw [this]; omega

/-- no leading zero byte -/
theorem minimalBE_head_ne_zero (n : Nat) : (minimalBE n).head? ≠ some 0 := by
  induction n using Nat.strongRecOn with
  | _ n ih =>
    by_cases h : n = 0
    · subst h; simp [minimalBE_zero]
    · rw [minimalBE_pos h]
      by_cases h2 : n / 256 = 0
      · rw [h2, minimalBE_zero]
        simp only [List.nil_append, List.head?_cons, ne_eq, Option.some.injEq]
        intro hz
        have : (UInt8.ofNat (n % 256)).toNat = 0 := by rw [hz]; rfl
        simp [UInt8.toNat_ofNat] at this
        omega
      · have hne : minimalBE (n / 256) ≠ [] := by
          rw [minimalBE_pos h2]; simp
        have : (minimalBE (n / 256) ++ [UInt8.ofNat (n % 256)]).head? = (minimalBE (n / 256)).head? := by
          cases hm : minimalBE (n / 256) with
          | nil => exact absurd hm hne
          | cons a t => simp
        rw [this]
        exact ih (n / 256) (by omega)

theorem minimalBE_length_le (n w : Nat) (h : n < 256 ^ w) : (minimalBE n).length ≤ w := by
  induction w generalizing n with
  | zero =>
    have : n = 0 := by simpa using h
    subst this; simp [minimalBE_zero]
  | succ w ih =>
    by_cases hn : n = 0
    · subst hn; simp [minimalBE_zero]
    · rw [minimalBE_pos hn]
      simp only [List.length_append, List.length_cons, List.length_nil]
      have : n / 256 < 256 ^ w := by
        rw [Nat.pow_succ] at h
        exact Nat.div_lt_of_lt_mul (by rw [Nat.mul_comm]; exact h)
      have := ih (n / 256) this
      omega

/-- minimality: any byte string with the same value is at least as long -/
theorem minimalBE_shortest (bs : Bytes) : (minimalBE (beValue bs)).length ≤ bs.length :=
  minimalBE_length_le _ _ (beValue_lt bs)

/-- the drain loop computes the spec, given room for every byte -/
theorem drainUint_eq (w v : Nat) (acc : Bytes)
    (h : (minimalBE v).length + acc.length ≤ w) :
    drainUint w v acc = .ok (minimalBE v ++ acc) := by
  induction v using Nat.strongRecOn generalizing acc with
  | _ v ih =>
    rw [drainUint]
    by_cases hv : v = 0
    · subst hv; simp [minimalBE_zero]
    · rw [minimalBE_pos hv] at h ⊢
      simp only [List.length_append, List.length_cons, List.length_nil] at h
      simp only [hv, ↓reduceDIte]
      have hlt : acc.length < w := by omega
      simp only [hlt, ↓reduceIte]
      rw [ih (v / 256) (by omega) _ (by simp; omega)]
      simp

theorem optionFromUint_eq (v w : Nat) (h : v < 256 ^ w) :
    optionFromUint v w = .ok (minimalBE v) := by
  unfold optionFromUint
  by_cases h0 : v = 0
  · subst h0; simp [minimalBE_zero]
  · simp only [h0, ↓reduceIte]
    by_cases h1 : v < 256
    · simp only [h1, ↓reduceIte]
      rw [minimalBE_pos h0]
      have : v / 256 = 0 := by omega
      rw [this, minimalBE_zero]
      have : v % 256 = v := by omega
      simp [this]
    · simp only [h1, ↓reduceIte]
      rw [drainUint_eq w v [] (by simpa using minimalBE_length_le v w h)]
      simp

theorem optionToUint_eq (bs : Bytes) (w : Nat) :
    optionToUint bs w = if bs.length ≤ w then .ok (beValue bs) else .err .other := by
  unfold optionToUint
  by_cases h : bs.length > w
  · simp [h]
  · simp [h]

end CoapLite
