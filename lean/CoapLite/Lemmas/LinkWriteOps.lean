/-
The link-format writer as an API: ANY sequence of `link`, attribute calls and `set_add_newlines`
(also in the middle of a document) under an arbitrary sink fault schedule. Generalises
Lemmas/LinkWrite.lean (`writeDoc`) to `writeOps`; used by Props/C18.
-/
import CoapLite.Lemmas.LinkWrite

namespace CoapLite.Link
namespace P

/-- set both fault-independent flags -/
def setFN (w : W) (b n : Bool) : W := { w with isFirst := b, nl := n }

theorem setFN_self (w : W) : setFN w w.isFirst w.nl = w := by cases w; rfl

theorem setFN_setFN (w : W) (a b c d : Bool) : setFN (setFN w a b) c d = setFN w c d := rfl

theorem put_setFN (fails : Nat → Bool) (w : W) (b n : Bool) (s : List Char) :
    W.put fails (setFN w b n) s = setFN (W.put fails w s) b n := by
  unfold W.put setFN
  by_cases h1 : w.error = true <;> by_cases h2 : fails w.calls = true <;> simp [h1, h2]

theorem run_setFN (fails : Nat → Bool) (w : W) (b n : Bool) (cs : List (List Char)) :
    run fails (setFN w b n) cs = setFN (run fails w cs) b n := by
  induction cs generalizing w with
  | nil => rfl
  | cons c cs ih => simp only [run_cons, put_setFN, ih]

/-- an operation is a fixed script of sink calls (depending only on the two flags) plus an update
of the two flags -/
def ScriptedG (op : (Nat → Bool) → W → W) : Prop :=
  ∀ first nl : Bool, ∃ (cs : List (List Char)) (b n : Bool), ∀ (fails : Nat → Bool) (w : W),
    w.isFirst = first → w.nl = nl → op fails w = run fails (setFN w b n) cs

theorem Scripted.toG {op : (Nat → Bool) → W → W} (h : Scripted op) : ScriptedG op := by
  intro first nl
  obtain ⟨cs, b, e⟩ := h first nl
  refine ⟨cs, b, nl, ?_⟩
  intro fails w hf hn
  rw [e fails w hf hn]
  congr 1
  cases w
  simp only [setFirst, setFN] at hn ⊢
  simp [hn]

theorem ScriptedG.id : ScriptedG (fun _ w => w) := Scripted.toG Scripted.id

theorem ScriptedG.setNl (b : Bool) : ScriptedG (fun _ w => W.setNl w b) := by
  intro first nl
  refine ⟨[], first, b, ?_⟩
  intro fails w hf _
  rw [run_nil, ← hf]
  rfl

theorem ScriptedG.comp {op1 op2 : (Nat → Bool) → W → W} (h1 : ScriptedG op1) (h2 : ScriptedG op2) :
    ScriptedG (fun fails w => op2 fails (op1 fails w)) := by
  intro first nl
  obtain ⟨cs1, b1, n1, e1⟩ := h1 first nl
  obtain ⟨cs2, b2, n2, e2⟩ := h2 b1 n1
  refine ⟨cs1 ++ cs2, b2, n2, ?_⟩
  intro fails w hf hn
  have h3 : (run fails (setFN w b1 n1) cs1).isFirst = b1 := by rw [run_isFirst]; rfl
  have h4 : (run fails (setFN w b1 n1) cs1).nl = n1 := by rw [run_nl]; rfl
  show op2 fails (op1 fails w) = _
  rw [e1 fails w hf hn, e2 fails _ h3 h4, ← run_setFN, setFN_setFN, run_append]

theorem ScriptedG.foldl {α : Type} (f : α → (Nat → Bool) → W → W) (hf : ∀ a, ScriptedG (f a))
    (l : List α) : ScriptedG (fun fails w => l.foldl (fun w a => f a fails w) w) := by
  induction l with
  | nil => exact ScriptedG.id
  | cons a l ih => exact ScriptedG.comp (hf a) ih

theorem scriptedG_op (o : WOp) : ScriptedG (fun fails w => W.op fails w o) := by
  cases o with
  | link t => exact Scripted.toG (scripted_link t)
  | attr a => exact Scripted.toG (scripted_attrSpec a)
  | setNl b => exact ScriptedG.setNl b

/-- every API call sequence is one script of sink calls, independent of the fault schedule -/
theorem writeOps_script (nl : Bool) (ops : List WOp) : ∃ (cs : List (List Char)) (b n : Bool),
    ∀ fails, writeOps fails nl ops = run fails (setFN (W.new nl) b n) cs := by
  have h : ScriptedG (fun fails w => ops.foldl (fun w o => (fun o fails w => W.op fails w o) o fails w) w) :=
    ScriptedG.foldl _ scriptedG_op ops
  obtain ⟨cs, b, n, e⟩ := h true nl
  exact ⟨cs, b, n, fun fails => e fails (W.new nl) rfl rfl⟩

theorem noFault_factsG (nl : Bool) (ops : List WOp) {cs : List (List Char)} {b n : Bool}
    (e : ∀ fails, writeOps fails nl ops = run fails (setFN (W.new nl) b n) cs) :
    (writeOps noFault nl ops).calls = cs.length ∧ (writeOps noFault nl ops).sink = cs.flatten ∧
    (writeOps noFault nl ops).error = false := by
  have e0 := run_ok noFault (setFN (W.new nl) b n) cs rfl (fun _ _ _ => rfl)
  rw [e noFault, e0]
  simp [setFN, W.new]

theorem writeOps_faults (fails : Nat → Bool) (nl : Bool) (ops : List WOp) :
    ((writeOps fails nl ops).finish = false ↔
      ∃ k, k < (writeOps noFault nl ops).calls ∧ fails k = true) ∧
    (writeOps fails nl ops).sink <+: (writeOps noFault nl ops).sink ∧
    (match firstFail fails (writeOps noFault nl ops).calls with
     | some k => (writeOps fails nl ops).calls = k + 1 ∧ (writeOps fails nl ops).error = true
     | none => writeOps fails nl ops = writeOps noFault nl ops) := by
  obtain ⟨cs, b, n, e⟩ := writeOps_script nl ops
  obtain ⟨hc, hs, he⟩ := noFault_factsG nl ops e
  have e0 := run_ok noFault (setFN (W.new nl) b n) cs rfl (fun _ _ _ => rfl)
  rw [hc]
  cases hff : firstFail fails cs.length with
  | none =>
    have hall := firstFail_none hff
    have hw : writeOps fails nl ops = writeOps noFault nl ops := by
      rw [e fails, e noFault, e0,
        run_ok fails _ cs rfl (fun i _ hi => hall i (by simpa [setFN, W.new] using hi))]
    refine ⟨?_, ?_, hw⟩
    · rw [hw]
      simp only [W.finish, he]
      constructor
      · intro h; simp at h
      · rintro ⟨k, hk, hfk⟩
        rw [hall k hk] at hfk
        simp at hfk
    · rw [hw]; exact List.prefix_refl _
  | some k =>
    obtain ⟨hk, hfk, hlt⟩ := firstFail_some hff
    have hr := run_fail fails (setFN (W.new nl) b n) cs k rfl (Nat.zero_le _)
      (by simpa [setFN, W.new] using hk) hfk (fun i _ hi => hlt i hi)
    have hcalls : (writeOps fails nl ops).calls = k + 1 := by rw [e fails, hr]
    have herr : (writeOps fails nl ops).error = true := by rw [e fails, hr]
    have hsink : (writeOps fails nl ops).sink = (cs.take k).flatten := by
      rw [e fails, hr]; simp [setFN, W.new]
    refine ⟨?_, ?_, hcalls, herr⟩
    · simp only [W.finish, herr]
      constructor
      · intro _; exact ⟨k, hk, hfk⟩
      · intro _; rfl
    · rw [hsink, hs]
      have : cs.flatten = (cs.take k).flatten ++ (cs.drop k).flatten := by
        rw [← List.flatten_append, List.take_append_drop]
      rw [this]
      exact List.prefix_append _ _

end P

/-- a document written link by link is the operation sequence `Doc.ops` -/
theorem writeDoc_eq_writeOps (fails : Nat → Bool) (nl : Bool) (d : Doc) :
    writeDoc fails nl d = writeOps fails nl d.ops := by
  unfold writeDoc writeOps Doc.ops
  generalize W.new nl = w
  induction d generalizing w with
  | nil => rfl
  | cons l rest ih =>
    rw [List.foldl_cons, List.flatMap_cons, List.foldl_append, ih]
    congr 1
    rw [List.foldl_cons, List.foldl_map]
    rfl

end CoapLite.Link
