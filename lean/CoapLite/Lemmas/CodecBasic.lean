/-
Basic facts shared by the forward (CodecFwd) and inverse (CodecInv) codec
proofs: bit arithmetic on bytes, `nibble`/`ext`/`rdExt`/`optField`, and the
sorted association list `OptMap`.
-/
import CoapLite.Model.CodecAbs

namespace CoapLite
namespace Codec
open Spec

/-! ### byte / bit arithmetic -/

theorem and_ff (x : Nat) : x &&& 0xFF = x % 256 := Nat.and_two_pow_sub_one_eq_mod x 8

theorem shr8 (x : Nat) : x >>> 8 = x / 256 := Nat.shiftRight_eq_div_pow x 8

theorem shl4_or (d l : Nat) (hl : l < 16) : d <<< 4 ||| l = d * 16 + l := by
  rw [← Nat.shiftLeft_add_eq_or_of_lt (i := 4) (by simpa using hl) d, Nat.shiftLeft_eq]

theorem toNat_ofNat_lt {n : Nat} (h : n < 256) : (UInt8.ofNat n).toNat = n := by
  rw [UInt8.toNat_ofNat']; omega

theorem byte_forall (P : UInt8 → Prop) (h : ∀ i : Fin 256, P (UInt8.ofNat i.val)) (b : UInt8) : P b := by
  have := h ⟨b.toNat, UInt8.toNat_lt b⟩
  simpa using this

theorem and0F_toNat (b : UInt8) : (0x0F &&& b).toNat = b.toNat % 16 :=
  byte_forall (fun b => (0x0F &&& b).toNat = b.toNat % 16) (by decide +kernel) b

/-- the first header byte of the RFC image is the stored `vtt` byte -/
theorem vtt_recompose (b : UInt8) :
    UInt8.ofNat ((b.toNat / 64) <<< 6 ||| (b.toNat / 16 % 4) <<< 4 ||| b.toNat % 16) = b :=
  byte_forall (fun b => UInt8.ofNat ((b.toNat / 64) <<< 6 ||| (b.toNat / 16 % 4) <<< 4 ||| b.toNat % 16) = b)
    (by decide +kernel) b

theorem vtt_compose_aux : ∀ (v t : Fin 4) (k : Fin 9),
    (v.val <<< 6 ||| t.val <<< 4 ||| k.val) = v.val * 64 + t.val * 16 + k.val := by
  decide +kernel

theorem vtt_compose (v t k : Nat) (hv : v < 4) (ht : t < 4) (hk : k ≤ 8) :
    (v <<< 6 ||| t <<< 4 ||| k) = v * 64 + t * 16 + k :=
  vtt_compose_aux ⟨v, hv⟩ ⟨t, ht⟩ ⟨k, by omega⟩

theorem mid_bytes (mid : Nat) (h : mid < 65536) :
    (UInt8.ofNat (mid / 256)).toNat * 256 + (UInt8.ofNat (mid % 256)).toNat = mid := by
  rw [toNat_ofNat_lt (by omega), toNat_ofNat_lt (by omega)]; omega

/-! ### nibble / ext / optField / rdExt -/

theorem nibble_le (x : Nat) : nibble x ≤ 14 := by
  unfold nibble; split
  · omega
  · split <;> omega

theorem optField_eq (x : Nat) : optField x = (nibble x, ext x) := by
  unfold optField nibble ext
  by_cases h1 : x < 13
  · have : x ≤ 12 := by omega
    simp [h1, this]
  · have : ¬ x ≤ 12 := by omega
    by_cases h2 : x < 269
    · simp [h1, this, h2]
    · simp [h1, this, h2, shr8, and_ff]

theorem ext_length (x : Nat) : (ext x).length = fieldLen x := by
  unfold ext fieldLen
  by_cases h1 : x < 13
  · have : x ≤ 12 := by omega
    simp [h1, this]
  · have : ¬ x ≤ 12 := by omega
    by_cases h2 : x < 269 <;> simp [h1, this, h2]

/-- header byte of an option: value, quotient, remainder, never the marker -/
theorem optHdr_toNat (d l : Nat) (hd : d ≤ 14) (hl : l ≤ 14) :
    (UInt8.ofNat (d * 16 + l)).toNat = d * 16 + l := toNat_ofNat_lt (by omega)

theorem optHdr_ne_ff (d l : Nat) (hd : d ≤ 14) (hl : l ≤ 14) : UInt8.ofNat (d * 16 + l) ≠ 255 := by
  intro h
  have := congrArg UInt8.toNat h
  rw [optHdr_toNat d l hd hl] at this
  have h255 : (255 : UInt8).toNat = 255 := by decide
  omega

/-- reading back an encoded delta / length -/
theorem rdExt_ext (isDelta : Bool) (x : Nat) (r : Bytes) (hx : x ≤ 65804) :
    rdExt isDelta (nibble x) (ext x ++ r) = .ok (x, r) := by
  unfold nibble ext
  by_cases h1 : x ≤ 12
  · have a : x ≠ 13 := by omega
    have b : x ≠ 14 := by omega
    have c : x ≠ 15 := by omega
    simp [rdExt, h1, a, b, c]
  · by_cases h2 : x < 269
    · have e : (x - 13) % 256 + 13 = x := by omega
      simp [rdExt, h1, h2, e]
    · have e : (x - 269) / 256 % 256 * 256 + (x - 269) % 256 + 269 = x := by omega
      simp [rdExt, h1, h2, e]

/-! ### OptMap -/

end Codec

namespace OptMap

theorem sorted_iff_pairwise (m : OptMap) : Sorted m ↔ m.Pairwise (fun a b => a.1 < b.1) := by
  induction m with
  | nil => simp [Sorted]
  | cons a rest ih =>
    cases rest with
    | nil => simp [Sorted]
    | cons b rest' =>
      obtain ⟨ak, av⟩ := a
      obtain ⟨bk, bv⟩ := b
      simp only [Sorted]
      rw [ih, List.pairwise_cons (a := (ak, av))]
      constructor
      · rintro ⟨hab, hp⟩
        refine ⟨?_, hp⟩
        intro c hc
        rcases List.mem_cons.1 hc with rfl | hc
        · exact hab
        · exact Nat.lt_trans hab ((List.pairwise_cons.1 hp).1 c hc)
      · rintro ⟨ha, hp⟩
        exact ⟨ha _ (List.mem_cons_self), hp⟩

theorem sorted_cons (a : Nat × List Bytes) (m : OptMap) :
    Sorted (a :: m) ↔ (∀ b ∈ m, a.1 < b.1) ∧ Sorted m := by
  rw [sorted_iff_pairwise, sorted_iff_pairwise, List.pairwise_cons]

theorem sorted_nil : Sorted [] := trivial

theorem flatten_nil : flatten [] = [] := rfl

theorem flatten_cons (k : Nat) (vs : List Bytes) (m : OptMap) :
    flatten ((k, vs) :: m) = vs.map (fun v => (k, v)) ++ flatten m := by
  simp [flatten]

/-! membership (keys) after a mutation -/

theorem mem_insert_key {m : OptMap} {k : Nat} {vs : List Bytes} {b : Nat × List Bytes}
    (h : b ∈ insert m k vs) : b.1 = k ∨ ∃ b' ∈ m, b'.1 = b.1 := by
  induction m with
  | nil => simp [insert] at h; simp [h]
  | cons a m ih =>
    obtain ⟨k', v'⟩ := a
    unfold insert at h
    split at h
    · rcases List.mem_cons.1 h with rfl | h
      · exact Or.inl rfl
      · exact Or.inr ⟨b, h, rfl⟩
    · split at h
      · rcases List.mem_cons.1 h with rfl | h
        · exact Or.inl rfl
        · exact Or.inr ⟨b, List.mem_cons_of_mem _ h, rfl⟩
      · rcases List.mem_cons.1 h with rfl | h
        · exact Or.inr ⟨_, List.mem_cons_self, rfl⟩
        · rcases ih h with h | ⟨b', hb', e⟩
          · exact Or.inl h
          · exact Or.inr ⟨b', List.mem_cons_of_mem _ hb', e⟩

theorem mem_modify_key {m : OptMap} {k : Nat} {f : List Bytes → List Bytes} {b : Nat × List Bytes}
    (h : b ∈ modify m k f) : ∃ b' ∈ m, b'.1 = b.1 := by
  induction m with
  | nil => simp [modify] at h
  | cons a m ih =>
    obtain ⟨k', v'⟩ := a
    unfold modify at h
    split at h
    · rcases List.mem_cons.1 h with rfl | h
      · exact ⟨_, List.mem_cons_self, rfl⟩
      · exact ⟨b, List.mem_cons_of_mem _ h, rfl⟩
    · rcases List.mem_cons.1 h with rfl | h
      · exact ⟨_, List.mem_cons_self, rfl⟩
      · obtain ⟨b', hb', e⟩ := ih h
        exact ⟨b', List.mem_cons_of_mem _ hb', e⟩

theorem sorted_modify {m : OptMap} (hs : Sorted m) (k : Nat) (f : List Bytes → List Bytes) :
    Sorted (modify m k f) := by
  induction m with
  | nil => exact hs
  | cons a m ih =>
    obtain ⟨k', v'⟩ := a
    rw [sorted_cons] at hs
    unfold modify
    split
    · rw [sorted_cons]; exact hs
    · rw [sorted_cons]
      refine ⟨?_, ih hs.2⟩
      intro b hb
      obtain ⟨b', hb', e⟩ := mem_modify_key hb
      rw [← e]; exact hs.1 b' hb'

theorem sorted_insert {m : OptMap} (hs : Sorted m) (k : Nat) (vs : List Bytes) :
    Sorted (insert m k vs) := by
  induction m with
  | nil => simp [insert, Sorted]
  | cons a m ih =>
    obtain ⟨k', v'⟩ := a
    have hs' := hs
    rw [sorted_cons] at hs'
    unfold insert
    split
    · rename_i hlt
      rw [sorted_cons]
      refine ⟨?_, hs⟩
      intro b hb
      rcases List.mem_cons.1 hb with rfl | hb
      · exact hlt
      · exact Nat.lt_trans hlt (hs'.1 b hb)
    · split
      · rename_i _ heq
        rw [sorted_cons]
        refine ⟨?_, hs'.2⟩
        intro b hb
        simp only [heq]
        exact hs'.1 b hb
      · rw [sorted_cons]
        refine ⟨?_, ih hs'.2⟩
        intro b hb
        rcases mem_insert_key hb with e | ⟨b', hb', e⟩
        · simp only [e]; omega
        · rw [← e]; exact hs'.1 b' hb'

theorem sorted_add {m : OptMap} (hs : Sorted m) (k : Nat) (v : Bytes) : Sorted (add m k v) := by
  unfold add
  split
  · exact sorted_modify hs _ _
  · exact sorted_insert hs _ _

theorem mem_add_key {m : OptMap} {k : Nat} {v : Bytes} {b : Nat × List Bytes}
    (h : b ∈ add m k v) : b.1 = k ∨ ∃ b' ∈ m, b'.1 = b.1 := by
  unfold add at h
  split at h
  · exact Or.inr (mem_modify_key h)
  · exact mem_insert_key h

/-! get after a mutation (no sortedness needed: first occurrence semantics) -/

theorem get_modify (m : OptMap) (k k' : Nat) (f : List Bytes → List Bytes) :
    get (modify m k f) k' = if k' = k then (get m k).map f else get m k' := by
  induction m with
  | nil => simp [modify, get]
  | cons a m ih =>
    obtain ⟨a, va⟩ := a
    unfold modify
    by_cases h : a = k
    · subst h
      by_cases h' : k' = a
      · subst h'; simp [get]
      · have : ¬ a = k' := fun e => h' e.symm
        simp [get, h', this]
    · by_cases h' : k' = k
      · subst h'; simp [get, h, ih]
      · simp only [h, if_false, get, ih, h']

theorem get_insert (m : OptMap) (k k' : Nat) (vs : List Bytes) :
    get (insert m k vs) k' = if k' = k then some vs else get m k' := by
  induction m with
  | nil =>
    by_cases h' : k' = k
    · subst h'; simp [insert, get]
    · have : ¬ k = k' := fun e => h' e.symm
      simp [insert, get, this, h']
  | cons a m ih =>
    obtain ⟨a, va⟩ := a
    unfold insert
    by_cases h' : k' = k
    · subst h'
      split
      · simp [get]
      · split
        · simp [get]
        · rename_i h1 h2
          have : ¬ a = k' := fun e => h2 e.symm
          simp [get, this, ih]
    · have hne : ¬ k = k' := fun e => h' e.symm
      split
      · simp [get, hne]
      · split
        · rename_i h1 h2
          subst h2
          simp [get, hne]
        · simp [get, h', ih]

theorem get_add (m : OptMap) (n k' : Nat) (v : Bytes) :
    get (add m n v) k' = if k' = n then some ((get m n).getD [] ++ [v]) else get m k' := by
  unfold add
  split
  · rename_i l hl
    rw [get_modify, hl]; simp
  · rename_i hl
    rw [get_insert, hl]; simp

/-! `add` on a cons -/

theorem add_nil (n : Nat) (v : Bytes) : add [] n v = [(n, [v])] := by
  simp [add, get, insert]

theorem add_cons_eq (k : Nat) (l : List Bytes) (rest : OptMap) (v : Bytes) :
    add ((k, l) :: rest) k v = (k, l ++ [v]) :: rest := by
  simp [add, get, modify]

theorem add_cons_gt (k n : Nat) (l : List Bytes) (rest : OptMap) (v : Bytes) (h : k < n) :
    add ((k, l) :: rest) n v = (k, l) :: add rest n v := by
  have h1 : ¬ k = n := by omega
  have h2 : ¬ n < k := by omega
  have h3 : ¬ n = k := by omega
  unfold add
  simp only [get, h1, if_false]
  split <;> simp [modify, insert, h1, h2, h3]

theorem get_none_of_lt {m : OptMap} {n : Nat} (h : ∀ b ∈ m, n < b.1) : get m n = none := by
  induction m with
  | nil => rfl
  | cons a m ih =>
    obtain ⟨a, va⟩ := a
    have := h (a, va) List.mem_cons_self
    have hne : ¬ a = n := by simp at this; omega
    simp only [get, hne, if_false]
    exact ih (fun b hb => h b (List.mem_cons_of_mem _ hb))

theorem add_cons_lt (k n : Nat) (l : List Bytes) (rest : OptMap) (v : Bytes) (h : n < k)
    (hs : Sorted ((k, l) :: rest)) :
    add ((k, l) :: rest) n v = (n, [v]) :: (k, l) :: rest := by
  rw [sorted_cons] at hs
  have h1 : ¬ k = n := by omega
  have : get rest n = none := get_none_of_lt (fun b hb => Nat.lt_trans h (hs.1 b hb))
  unfold add
  simp [get, h1, this, insert, h]

/-- recursive presentation of `add` (valid on sorted maps) -/
def add' : OptMap → Nat → Bytes → OptMap
  | [], n, v => [(n, [v])]
  | (k, l) :: rest, n, v =>
    if n < k then (n, [v]) :: (k, l) :: rest
    else if n = k then (k, l ++ [v]) :: rest
    else (k, l) :: add' rest n v

theorem add_eq_add' {m : OptMap} (hs : Sorted m) (n : Nat) (v : Bytes) : add m n v = add' m n v := by
  induction m with
  | nil => simp [add_nil, add']
  | cons a m ih =>
    obtain ⟨k, l⟩ := a
    unfold add'
    split
    · rename_i h; exact add_cons_lt k n l m v h hs
    · split
      · rename_i _ h; subst h; exact add_cons_eq _ l m v
      · rw [add_cons_gt k n l m v (by omega), ih ((sorted_cons _ _).1 hs).2]

theorem add'_lt {k n : Nat} (l : List Bytes) (rest : OptMap) (v : Bytes) (h : n < k) :
    add' ((k, l) :: rest) n v = (n, [v]) :: (k, l) :: rest := by
  simp [add', h]

theorem add'_eq (k : Nat) (l : List Bytes) (rest : OptMap) (v : Bytes) :
    add' ((k, l) :: rest) k v = (k, l ++ [v]) :: rest := by
  simp [add']

theorem add'_gt {k n : Nat} (l : List Bytes) (rest : OptMap) (v : Bytes) (h : k < n) :
    add' ((k, l) :: rest) n v = (k, l) :: add' rest n v := by
  have h1 : ¬ n < k := by omega
  have h2 : ¬ n = k := by omega
  simp [add', h1, h2]

theorem add'_nil (n : Nat) (v : Bytes) : add' [] n v = [(n, [v])] := rfl

theorem add'_comm (m : OptMap) (n₁ n₂ : Nat) (v₁ v₂ : Bytes) (hne : n₁ ≠ n₂) :
    add' (add' m n₁ v₁) n₂ v₂ = add' (add' m n₂ v₂) n₁ v₁ := by
  induction m with
  | nil =>
    rw [add'_nil, add'_nil]
    rcases Nat.lt_or_gt_of_ne hne with c | c
    · rw [add'_gt _ _ _ c, add'_lt _ _ _ c, add'_nil]
    · rw [add'_lt _ _ _ c, add'_gt _ _ _ c, add'_nil]
  | cons a m ih =>
    obtain ⟨k, l⟩ := a
    rcases Nat.lt_trichotomy n₁ k with h1 | h1 | h1 <;> rcases Nat.lt_trichotomy n₂ k with h2 | h2 | h2
    · rcases Nat.lt_or_gt_of_ne hne with c | c
      · rw [add'_lt _ _ _ h1, add'_lt _ _ _ h2, add'_gt _ _ _ c, add'_lt _ _ _ c, add'_lt _ _ _ h2]
      · rw [add'_lt _ _ _ h1, add'_lt _ _ _ h2, add'_lt _ _ _ c, add'_gt _ _ _ c, add'_lt _ _ _ h1]
    · subst h2
      rw [add'_lt _ _ _ h1, add'_eq, add'_gt _ _ _ h1, add'_eq, add'_lt _ _ _ h1]
    · have c : n₁ < n₂ := by omega
      rw [add'_lt _ _ _ h1, add'_gt _ _ _ h2, add'_gt _ _ _ c, add'_gt _ _ _ h2, add'_lt _ _ _ h1]
    · subst h1
      rw [add'_eq, add'_lt _ _ _ h2, add'_lt _ _ _ h2, add'_gt _ _ _ h2, add'_eq]
    · omega
    · subst h1
      rw [add'_eq, add'_gt _ _ _ h2, add'_gt _ _ _ h2, add'_eq]
    · have c : n₂ < n₁ := by omega
      rw [add'_gt _ _ _ h1, add'_lt _ _ _ h2, add'_lt _ _ _ h2, add'_gt _ _ _ c, add'_gt _ _ _ h1]
    · subst h2
      rw [add'_gt _ _ _ h1, add'_eq, add'_eq, add'_gt _ _ _ h1]
    · rw [add'_gt _ _ _ h1, add'_gt _ _ _ h2, add'_gt _ _ _ h2, add'_gt _ _ _ h1, ih]

theorem add_comm {m : OptMap} (hs : Sorted m) (n₁ n₂ : Nat) (v₁ v₂ : Bytes) (hne : n₁ ≠ n₂) :
    add (add m n₁ v₁) n₂ v₂ = add (add m n₂ v₂) n₁ v₁ := by
  rw [add_eq_add' (sorted_add hs _ _), add_eq_add' hs, add_eq_add' (sorted_add hs _ _), add_eq_add' hs]
  exact add'_comm m n₁ n₂ v₁ v₂ hne

/-- appending at (or after) the largest key -/
theorem add_last {m : OptMap} (hs : Sorted m) (n : Nat) (v : Bytes) (hle : ∀ b ∈ m, b.1 ≤ n) :
    flatten (add m n v) = flatten m ++ [(n, v)] := by
  induction m with
  | nil => simp [add_nil, flatten]
  | cons a m ih =>
    obtain ⟨k, l⟩ := a
    rw [sorted_cons] at hs
    have hk : k ≤ n := hle (k, l) List.mem_cons_self
    by_cases h : k = n
    · subst h
      have : m = [] := by
        cases m with
        | nil => rfl
        | cons b m' =>
          have h1 := hs.1 b List.mem_cons_self
          have h2 := hle b (List.mem_cons_of_mem _ List.mem_cons_self)
          simp at h1; omega
      subst this
      simp [add_cons_eq, flatten]
    · rw [add_cons_gt k n l m v (by omega), flatten_cons, flatten_cons,
        ih hs.2 (fun b hb => hle b (List.mem_cons_of_mem _ hb))]
      simp

end OptMap

namespace Codec
open Spec

/-! ### encoder = RFC option image -/

theorem encOpt_ok (prev num : Nat) (v : Bytes) (h : v.length ≤ 65804) :
    encOpt prev num v = .ok (UInt8.ofNat (nibble (num - prev) * 16 + nibble v.length) ::
      (ext (num - prev) ++ ext v.length ++ v)) := by
  unfold encOpt
  have : ¬ (v.length ≥ 269 ∧ v.length - 269 > 65535) := by omega
  rw [if_neg this]

theorem encOpt_err (prev num : Nat) (v : Bytes) (h : ¬ v.length ≤ 65804) :
    encOpt prev num v = .err .invalidOptionLength := by
  unfold encOpt
  have : (v.length ≥ 269 ∧ v.length - 269 > 65535) := by omega
  rw [if_pos this]

theorem wireOpts_cons (prev n : Nat) (v : Bytes) (rest : List (Nat × Bytes)) :
    wireOpts prev ((n, v) :: rest) =
      UInt8.ofNat (nibble (n - prev) * 16 + nibble v.length) ::
        (ext (n - prev) ++ ext v.length ++ v ++ wireOpts n rest) := by
  simp only [wireOpts, optField_eq]
  rw [shl4_or _ _ (by have := nibble_le v.length; omega)]

theorem wireOpts_append_map (prev num : Nat) (vs : List Bytes) (os : List (Nat × Bytes)) :
    wireOpts prev (vs.map (fun v => (num, v)) ++ os) =
      wireOpts prev (vs.map (fun v => (num, v))) ++ wireOpts (if vs = [] then prev else num) os := by
  induction vs generalizing prev with
  | nil => simp [wireOpts]
  | cons v vs ih =>
    simp only [List.map_cons, List.cons_append, wireOpts_cons, ih]
    by_cases h : vs = [] <;> simp [h]

theorem encValues_ok (prev num : Nat) (vs : List Bytes) (h : ∀ v ∈ vs, v.length ≤ 65804) :
    encValues prev num vs =
      .ok (wireOpts prev (vs.map (fun v => (num, v))), if vs = [] then prev else num) := by
  induction vs generalizing prev with
  | nil => simp [encValues, wireOpts]
  | cons v vs ih =>
    have hv := h v (List.mem_cons_self)
    have hvs : ∀ v ∈ vs, v.length ≤ 65804 := fun w hw => h w (List.mem_cons_of_mem _ hw)
    simp only [encValues, encOpt_ok _ _ _ hv, ih num hvs, List.map_cons, wireOpts_cons]
    by_cases h : vs = [] <;> simp [h]

theorem encValues_err (prev num : Nat) (vs : List Bytes) (h : ¬ ∀ v ∈ vs, v.length ≤ 65804) :
    encValues prev num vs = .err .invalidOptionLength := by
  induction vs generalizing prev with
  | nil => simp at h
  | cons v vs ih =>
    by_cases hv : v.length ≤ 65804
    · have hvs : ¬ ∀ v ∈ vs, v.length ≤ 65804 := by
        intro hh; apply h; intro w hw
        rcases List.mem_cons.1 hw with rfl | hw
        · exact hv
        · exact hh w hw
      simp only [encValues, encOpt_ok _ _ _ hv, ih num hvs]
    · simp only [encValues, encOpt_err _ _ _ hv]

def Fit (m : OptMap) : Prop := ∀ kv ∈ m, ∀ v ∈ kv.2, v.length ≤ 65804

theorem encOpts_ok (prev : Nat) (m : OptMap) (h : Fit m) :
    encOpts prev m = .ok (wireOpts prev m.flatten) := by
  induction m generalizing prev with
  | nil => simp [encOpts, OptMap.flatten_nil, wireOpts]
  | cons kv m ih =>
    obtain ⟨num, vs⟩ := kv
    have hvs : ∀ v ∈ vs, v.length ≤ 65804 := h (num, vs) (List.mem_cons_self)
    have hm : Fit m := fun kv hkv => h kv (List.mem_cons_of_mem _ hkv)
    simp only [encOpts, encValues_ok _ _ _ hvs, ih _ hm, OptMap.flatten_cons, wireOpts_append_map]

theorem encOpts_err (prev : Nat) (m : OptMap) (h : ¬ Fit m) :
    encOpts prev m = .err .invalidOptionLength := by
  induction m generalizing prev with
  | nil => exact absurd (fun kv hkv => by simp at hkv) h
  | cons kv m ih =>
    obtain ⟨num, vs⟩ := kv
    by_cases hvs : ∀ v ∈ vs, v.length ≤ 65804
    · have hm : ¬ Fit m := by
        intro hh; apply h; intro kv hkv
        rcases List.mem_cons.1 hkv with rfl | hkv
        · exact hvs
        · exact hh kv hkv
      simp only [encOpts, encValues_ok _ _ _ hvs, ih _ hm]
    · simp only [encOpts, encValues_err _ _ _ hvs]

theorem wireOpts_length (prev : Nat) (os : List (Nat × Bytes)) :
    (wireOpts prev os).length = wireOptsLen prev os := by
  induction os generalizing prev with
  | nil => simp [wireOpts, wireOptsLen]
  | cons o os ih =>
    obtain ⟨n, v⟩ := o
    simp only [wireOpts_cons, wireOptsLen, List.length_cons, List.length_append, ext_length, ih]
    omega


/-! ### decoding one encoded option -/

theorem decOpts_step (prev n : Nat) (acc : OptMap) (v rest : Bytes)
    (hn : prev ≤ n) (hn2 : n ≤ 65535) (hv : v.length ≤ 65804) :
    decOpts prev acc (UInt8.ofNat (nibble (n - prev) * 16 + nibble v.length) ::
        (ext (n - prev) ++ ext v.length ++ v ++ rest)) = decOpts n (acc.add n v) rest := by
  have hd := nibble_le (n - prev)
  have hl := nibble_le v.length
  rw [decOpts]
  rw [if_neg (optHdr_ne_ff _ _ hd hl)]
  have e1 : (UInt8.ofNat (nibble (n - prev) * 16 + nibble v.length)).toNat / 16 = nibble (n - prev) := by
    rw [optHdr_toNat _ _ hd hl]; omega
  have e2 : (UInt8.ofNat (nibble (n - prev) * 16 + nibble v.length)).toNat % 16 = nibble v.length := by
    rw [optHdr_toNat _ _ hd hl]; omega
  have r1 := rdExt_ext true (n - prev) (ext v.length ++ v ++ rest) (by omega)
  have r2 := rdExt_ext false v.length (v ++ rest) hv
  split
  · rename_i delta r1' h1
    rw [e1] at h1
    simp only [List.append_assoc] at h1 r1
    rw [r1] at h1
    simp only [Res.ok.injEq, Prod.mk.injEq] at h1
    obtain ⟨rfl, rfl⟩ := h1
    split
    · rename_i len r2' h2
      rw [e2, r2] at h2
      simp only [Res.ok.injEq, Prod.mk.injEq] at h2
      obtain ⟨rfl, rfl⟩ := h2
      have : prev + (n - prev) = n := by omega
      rw [this]
      have : ¬ n > 65535 := by omega
      rw [if_neg this]
      have : ¬ v.length > (v ++ rest).length := by simp
      rw [if_neg this]
      simp
    · rename_i e h2
      rw [e2, r2] at h2; cases h2
    · rename_i h2
      rw [e2, r2] at h2; cases h2
  · rename_i e h1
    rw [e1] at h1
    simp only [List.append_assoc] at h1 r1
    rw [r1] at h1; cases h1
  · rename_i h1
    rw [e1] at h1
    simp only [List.append_assoc] at h1 r1
    rw [r1] at h1; cases h1

end Codec
end CoapLite
