/-
System level: one transfer inside an arbitrary history of the handler.

`noninterference` (BlockTrace) removes the other keys from a history; `retention_and_expiry` keeps a
key's state alive across calls spaced at most `ttl` apart. Together: in EVERY monotone history of
entry-point calls – any number of other transfers interleaved in any way – the calls of one
transfer whose consecutive calls are at most `ttl` apart observe exactly what the pure per-key core
(`coreRequest` / `coreResponse` threaded through one `BlockState`, starting from the default state)
computes for them. The end-to-end theorems about the core (C08 `whole_body`, C09
`upload_whole_body_partial`) therefore hold for the handler with its cache and its clock.
-/
import CoapLite.Lemmas.BlockTrace
import CoapLite.Lemmas.Upload
import CoapLite.Lemmas.Download

namespace CoapLite.Block
open CoapLite

/-- the per-key core, threaded through one `BlockState`: what each call observes -/
def runKey (M : Nat) : BlockState → List Ev → List (Request × HRes Bool)
  | _, [] => []
  | st, e :: es => ((coreEv M e st).1, (coreEv M e st).2.2) :: runKey M (coreEv M e st).2.1 es

/-- consecutive calls are at most `ttl` apart -/
def Spaced (ttl : Nat) : List Ev → Prop
  | [] => True
  | [_] => True
  | e₁ :: e₂ :: es => e₂.now ≤ e₁.now + ttl ∧ Spaced ttl (e₂ :: es)

theorem mono_weaken : ∀ (evs : List Ev) (t t' : Nat), t' ≤ t → Mono t evs → Mono t' evs := by
  intro evs
  cases evs with
  | nil => intros; trivial
  | cons e es => intro t t' h hm; exact ⟨Nat.le_trans h hm.1, hm.2⟩

theorem mono_filter (p : Ev → Bool) : ∀ (evs : List Ev) (t : Nat), Mono t evs → Mono t (evs.filter p) := by
  intro evs
  induction evs with
  | nil => intros; trivial
  | cons e es ih =>
    intro t hm
    by_cases hp : p e = true
    · rw [List.filter_cons_of_pos hp]
      exact ⟨hm.1, ih e.now hm.2⟩
    · rw [List.filter_cons_of_neg hp]
      exact mono_weaken _ _ _ hm.1 (ih e.now hm.2)

/-- a history of calls for ONE key, spaced at most `ttl` apart, run on a handler whose effective
state for that key at the time of the first call is `st`: every call observes what the core
computes, threading the state from call to call -/
theorem single_key_gen (κ : Key) : ∀ (evs : List Ev) (t : Nat) (h : Handler) (st : BlockState),
    Lru.Inv h.cache t → Mono t evs → (∀ e ∈ evs, e.key = κ) → Spaced h.cache.ttl evs →
    (∀ e ∈ evs.head?, effective h κ e.now = st) →
    (runEvs h evs).map (·.2) = runKey h.maxSize st evs := by
  intro evs
  induction evs with
  | nil => intros; rfl
  | cons e es ih =>
    intro t h st hi hm hk hsp hst
    obtain ⟨hte, hm'⟩ := hm
    have hi' := Lru.inv_mono _ _ _ hi hte
    obtain ⟨o₁, M₁, T₁, I₁, P₁, _, _⟩ := stepEv_spec h e hi'
    have hke : e.key = κ := hk e (List.mem_cons_self ..)
    have heff : effective h e.key e.now = st := by
      rw [hke]; exact hst e (by simp)
    rw [runEvs_cons, List.map_cons, runKey, o₁, heff]
    congr 1
    have := ih e.now (stepEv h e).1 (coreEv h.maxSize e st).2.1 I₁ hm'
      (fun e' he' => hk e' (List.mem_cons_of_mem _ he'))
      (by
        rw [T₁]
        cases es with
        | nil => trivial
        | cons e₂ es₂ => exact hsp.2)
      (by
        intro e₂ he₂
        cases es with
        | nil => simp at he₂
        | cons e₂' es₂ =>
          simp only [List.head?_cons, Option.mem_def, Option.some.injEq] at he₂
          subst he₂
          have h2 : e.now ≤ e₂'.now := hm'.1
          have h3 : e₂'.now ≤ e.now + h.cache.ttl := hsp.1
          unfold effective
          rw [← hke, P₁ _ h2, if_pos h3, heff]
          rfl)
    rw [M₁] at this
    exact this

theorem effective_new (M ttl : Nat) (κ : Key) (t : Nat) :
    effective (Handler.new M ttl) κ t = BlockState.default := by
  simp [effective, Handler.new, Lru.empty, Lru.peek, Lru.find]

/-- SYSTEM LEVEL. In every monotone history of handler calls – any number of transfers, interleaved
in any way – the calls for key `κ`, provided consecutive ones are at most `ttl` apart, observe
exactly what the per-key core computes for them alone, starting from the default state. -/
theorem transfer_in_any_history (M ttl : Nat) (evs : List Ev) (κ : Key) (hm : Mono 0 evs)
    (hsp : Spaced ttl (evs.filter (fun e => e.key = κ))) :
    ((runEvs (Handler.new M ttl) evs).filter (fun o => o.1 = κ)).map (·.2) =
      runKey M BlockState.default (evs.filter (fun e => e.key = κ)) := by
  rw [noninterference M ttl evs κ hm]
  exact single_key_gen κ _ 0 (Handler.new M ttl) BlockState.default (Lru.inv_empty _ _)
    (mono_filter _ evs 0 hm)
    (fun e he => by simpa using (List.mem_filter.1 he).2)
    hsp
    (fun e _ => effective_new M ttl κ e.now)


/-- the same from ANY reachable handler state `h` (cache invariant at `t`): the calls for `κ` in a
monotone history from `t` on, spaced at most `ttl` apart, observe what the core computes from the
state `st` that is in effect for `κ` at the first of them -/
theorem transfer_from_state (h : Handler) (t : Nat) (evs : List Ev) (κ : Key) (st : BlockState)
    (hi : Lru.Inv h.cache t) (hm : Mono t evs)
    (hsp : Spaced h.cache.ttl (evs.filter (fun e => e.key = κ)))
    (hst : ∀ e ∈ (evs.filter (fun e => e.key = κ)).head?, effective h κ e.now = st) :
    ((runEvs h evs).filter (fun o => o.1 = κ)).map (·.2) =
      runKey h.maxSize st (evs.filter (fun e => e.key = κ)) := by
  rw [nonint_gen κ evs t h h rfl rfl hi hi (fun _ _ => rfl) hm]
  exact single_key_gen κ _ t h st hi (mono_filter _ evs t hm)
    (fun e he => by simpa using (List.mem_filter.1 he).2) hsp hst

/-- `runCore` ignores the (ghost) block indices of its deliveries -/
theorem runCore_index_irrelevant (M : Nat) : ∀ (l l' : List (Nat × Request)) (st : BlockState),
    l.map (·.2) = l'.map (·.2) → runCore M st l = runCore M st l' := by
  intro l
  induction l with
  | nil =>
    intro l' st h
    cases l' with
    | nil => rfl
    | cons _ _ => simp at h
  | cons x xs ih =>
    intro l' st h
    cases l' with
    | nil => simp at h
    | cons y ys =>
      obtain ⟨xi, xr⟩ := x
      obtain ⟨yi, yr⟩ := y
      simp only [List.map_cons, List.cons.injEq] at h
      obtain ⟨h1, h2⟩ := h
      subst h1
      rw [runCore_cons, runCore_cons, ih ys _ h2]

/-- `fetchAll` is `runCore` read through the reply payloads -/
theorem fetchAll_eq_runCore (M : Nat) : ∀ (reqs : List Request) (st : BlockState),
    (fetchAll M reqs st).1 =
      (runCore M st (reqs.map (fun r => (0, r)))).2.map
        (fun o => ((o.1.response.map (·.payload)).getD [], o.2)) ∧
    (fetchAll M reqs st).2 = (runCore M st (reqs.map (fun r => (0, r)))).1 := by
  intro reqs
  induction reqs with
  | nil => intro st; exact ⟨rfl, rfl⟩
  | cons r rs ih =>
    intro st
    rw [List.map_cons, runCore_cons]
    simp only [fetchAll, List.map_cons]
    exact ⟨by rw [(ih _).1], (ih _).2⟩

/-- the core-level folds used by the end-to-end theorems are instances of `runKey`: a list of
request-side calls observes what `runCore` yields -/
theorem runKey_requests (M : Nat) : ∀ (evs : List Ev) (st : BlockState),
    (∀ e ∈ evs, e.isResp = false) →
    runKey M st evs = (runCore M st (evs.map (fun e => (0, e.req)))).2 := by
  intro evs
  induction evs with
  | nil => intros; rfl
  | cons e es ih =>
    intro st hreq
    have he : e.isResp = false := hreq e (List.mem_cons_self ..)
    rw [runKey, List.map_cons, runCore_cons]
    have hc : coreEv M e st = coreRequest M e.req st := by simp [coreEv, he]
    rw [hc, ih _ (fun e' he' => hreq e' (List.mem_cons_of_mem _ he'))]


/-! ### the end-to-end transfers, at the level of the handler -/

theorem runCore_length (M : Nat) : ∀ (ds : List (Nat × Request)) (st : BlockState),
    (runCore M st ds).2.length = ds.length := by
  intro ds
  induction ds with
  | nil => intro st; rfl
  | cons d rest ih =>
    intro st
    obtain ⟨j, r⟩ := d
    rw [runCore_cons]
    simp [ih]

theorem map_snd_pair (l : List Request) : (l.map (fun r => ((0 : Nat), r))).map (·.2) = l := by
  induction l with
  | nil => rfl
  | cons x xs ih => simp only [List.map_cons, ih]

theorem map_snd_ev (l : List Ev) : (l.map (fun e => ((0 : Nat), e.req))).map (·.2) = l.map (·.req) := by
  induction l with
  | nil => rfl
  | cons x xs ih => simp only [List.map_cons, ih]

/-- UPLOAD, handler level. Fresh handler, ANY monotone history `evs` (other transfers interleaved at
will). The calls for key `κ` are request-side calls, at most `ttl` apart, delivering the blocks of
body `B`: the non-final ones `ds` in order from block 0 (each any number of times in a row), then
the final one `f` once. Then every non-final delivery is answered by the handler (`ok true`), and
the request the final call hands on carries exactly `B`. -/
theorem upload_in_any_history (M ttl : Nat) (evs : List Ev) (κ : Key) (B : Bytes) (szx : Nat)
    (ds : List (Nat × Request)) (f : Nat × Request)
    (hm : Mono 0 evs) (hsp : Spaced ttl (evs.filter (fun e => e.key = κ)))
    (hreqs : ∀ e ∈ evs.filter (fun e => e.key = κ), e.isResp = false)
    (hκ : (evs.filter (fun e => e.key = κ)).map (·.req) = (ds ++ [f]).map (·.2))
    (hf1 : f.1 + 1 = nBlocks B (2 ^ (szx + 4)))
    (h0 : ∀ d ∈ (ds ++ [f]).head?, d.1 = 0)
    (hord : InOrder 0 (ds ++ [f]))
    (hreq : ∀ x ∈ ds, UploadReq M B szx x.1 x.2 ∧ x.1 + 1 < nBlocks B (2 ^ (szx + 4)))
    (hf : UploadReq M B szx f.1 f.2) :
    ∃ pre last,
      ((runEvs (Handler.new M ttl) evs).filter (fun o => o.1 = κ)).map (·.2) = pre ++ [last] ∧
      pre.length = ds.length ∧ (∀ o ∈ pre, o.2 = .ok true) ∧ last.1.message.payload = B := by
  rw [transfer_in_any_history M ttl evs κ hm hsp, runKey_requests M _ _ hreqs,
    runCore_index_irrelevant M _ (ds ++ [f]) _ (by rw [map_snd_ev]; exact hκ)]
  obtain ⟨a, b, c, _⟩ := upload_whole M B szx BlockState.default ds f hf1 h0 hord hreq hf
  exact ⟨(runCore M BlockState.default ds).2, _, b, runCore_length M ds _, a, c⟩

/-- DOWNLOAD, handler level. From any reachable handler state, ANY monotone history `evs`. The
calls for key `κ` are request-side follow-ups for blocks `k, k+1, …` up to the last block of the
response `cached` that is in effect for `κ` at the first of them, at most `ttl` apart. Their reply
payloads, concatenated, are exactly the rest of the body, and every one of them is answered from
the cache (`ok true`) – whatever other transfers do in between. -/
theorem follow_ups_in_any_history (h : Handler) (t : Nat) (evs : List Ev) (κ : Key) (st : BlockState)
    (cached : Packet) (szx k : Nat)
    (hi : Lru.Inv h.cache t) (hm : Mono t evs)
    (hsp : Spaced h.cache.ttl (evs.filter (fun e => e.key = κ)))
    (hst : ∀ e ∈ (evs.filter (fun e => e.key = κ)).head?, effective h κ e.now = st)
    (hreqs : ∀ e ∈ evs.filter (fun e => e.key = κ), e.isResp = false)
    (hcs : cached.options.Sorted) (hck : ∀ kv ∈ cached.options, kv.1 ≤ 65535)
    (hc : st.cachedResponse = some cached)
    (hle : ∀ x, st.cachedSzx = some x → szx ≤ x)
    (reqs : List Request) (hκ : (evs.filter (fun e => e.key = κ)).map (·.req) = reqs)
    (hfu : ∀ i (hlt : i < reqs.length), IsFollowUp h.maxSize reqs[i] (k + i) szx)
    (hne : reqs ≠ [])
    (hlast : (k + reqs.length - 1) * 2 ^ (szx + 4) < cached.payload.length)
    (hcover : cached.payload.length ≤ (k + reqs.length) * 2 ^ (szx + 4)) :
    let obs := ((runEvs h evs).filter (fun o => o.1 = κ)).map (·.2)
    obs.flatMap (fun o => (o.1.response.map (·.payload)).getD []) = cached.payload.drop (k * 2 ^ (szx + 4)) ∧
    ∀ o ∈ obs, o.2 = .ok true := by
  intro obs
  have hobs : obs = (runCore h.maxSize st (reqs.map (fun r => (0, r)))).2 := by
    show ((runEvs h evs).filter (fun o => o.1 = κ)).map (·.2) = _
    rw [transfer_from_state h t evs κ st hi hm hsp hst, runKey_requests _ _ _ hreqs,
      runCore_index_irrelevant _ _ (reqs.map (fun r => (0, r))) _
        (by rw [map_snd_ev, map_snd_pair]; exact hκ)]
  obtain ⟨d1, d2, _⟩ := download_tail h.maxSize cached szx hcs hck reqs k st hc hle hfu hne hlast hcover
  rw [(fetchAll_eq_runCore h.maxSize reqs st).1] at d1 d2
  rw [hobs]
  constructor
  · rw [← d1, List.flatMap_map]
  · intro o ho
    exact d2 _ (List.mem_map.2 ⟨o, ho, rfl⟩)

end CoapLite.Block
