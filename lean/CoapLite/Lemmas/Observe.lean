/-
Lemmas about Model/Observe.lean (observer registry).  Used by Props/C14, C15.
-/
import CoapLite.Model.Observe
import CoapLite.Lemmas.Request

namespace CoapLite.Observe
open CoapLite

/-- registry shape invariant: one entry per path, one observer per endpoint per resource -/
def Inv (s : Subject) : Prop :=
  (s.resources.map (·.1)).Nodup ∧ ∀ kv ∈ s.resources, (kv.2.observers.map (·.endpoint)).Nodup

/-- all `limit` operations of a history are u8 values -/
def LimitsOk (ops : List Op) : Prop := ∀ op ∈ ops, ∀ l, op = .limit l → l ≤ 255

def fresh (ep : Nat) (tok : Bytes) : Observer := { endpoint := ep, token := tok, unacked := 0, mid := none }

/-- what `register` does to one observer list -/
def regList (obs : List Observer) (ep : Nat) (tok : Bytes) : List Observer :=
  if obs.any (fun o => o.endpoint == ep) then obs.map (fun o => if o.endpoint == ep then fresh ep tok else o)
  else obs ++ [fresh ep tok]

/-- what a notification round does to one observer -/
def bump (mid : Nat) (con : Bool) (o : Observer) : Observer :=
  { o with mid := some mid, unacked := if con then o.unacked + 1 else o.unacked }

/-- what `acknowledge` does to one observer -/
def ackOne (ep mid : Nat) (o : Observer) : Observer :=
  if o.endpoint == ep && o.mid == some mid then { o with unacked := 0, mid := none } else o

theorem inv_default : Inv Subject.default := by
  sorry

theorem step_inv (s : Subject) (op : Op) (h : Inv s) : Inv (step s op) := by
  sorry

theorem inv_run (ops : List Op) : Inv (run ops) := by
  sorry

theorem register_spec (s : Subject) (h : Inv s) (ep : Nat) (path : String) (tok : Bytes) :
    (register s ep path tok).get path =
      some { sequence := ((s.get path).map (·.sequence)).getD 0,
             observers := regList (((s.get path).map (·.observers)).getD []) ep tok } ∧
    (register s ep path tok).limit = s.limit := by
  sorry

theorem deregister_spec (s : Subject) (h : Inv s) (ep : Nat) (path : String) (tok : Bytes) :
    (deregister s ep path tok).get path =
      (s.get path).map (fun r => { r with observers := r.observers.filter (fun o => !(o.endpoint == ep && o.token == tok)) }) ∧
    (deregister s ep path tok).limit = s.limit := by
  sorry

theorem changed_spec (s : Subject) (h : Inv s) (path : String) (mid : Nat) (con : Bool) :
    (resourceChanged s path mid con).get path =
      (s.get path).map (fun r =>
        { sequence := r.sequence + 1,
          observers := (r.observers.map (bump mid con)).filter (fun o => o.unacked ≤ s.limit) }) ∧
    (resourceChanged s path mid con).limit = s.limit := by
  sorry

theorem acknowledge_spec (s : Subject) (h : Inv s) (ep mid : Nat) (path : String) :
    (acknowledge s ep mid).get path =
      (s.get path).map (fun r => { r with observers := r.observers.map (ackOne ep mid) }) ∧
    (acknowledge s ep mid).limit = s.limit := by
  sorry

/-- operations on one resource never change another resource -/
theorem frame (s : Subject) (p p' : String) (hne : p' ≠ p) (ep mid : Nat) (tok : Bytes) (con : Bool) :
    (register s ep p tok).get p' = s.get p' ∧
    (deregister s ep p tok).get p' = s.get p' ∧
    (resourceChanged s p mid con).get p' = s.get p' := by
  sorry

theorem setLimit_frame (s : Subject) (l : Nat) (p : String) : (setLimit s l).get p = s.get p := by
  sorry

theorem changed_unobserved_noop (s : Subject) (path : String) (mid : Nat) (con : Bool)
    (h : s.get path = none) : resourceChanged s path mid con = s := by
  sorry

/-- counter bound: with u8 limits, no stored counter ever exceeds 255, so the
increment in a notification round stays below 2^16 (the width of the counter) -/
theorem unacked_le (ops : List Op) (hl : LimitsOk ops) :
    (run ops).limit ≤ 255 ∧ ∀ kv ∈ (run ops).resources, ∀ o ∈ kv.2.observers, o.unacked ≤ 255 := by
  sorry

/-- sequence numbers never decrease along a history, whatever the operation -/
theorem sequence_mono (s : Subject) (op : Op) (p : String) (r : Resource) (h : Inv s)
    (hr : s.get p = some r) :
    ∃ r', (step s op).get p = some r' ∧ r.sequence ≤ r'.sequence := by
  sorry

theorem notification_spec (mid : Nat) (tok : Bytes) (seq : Nat) (payload : Bytes) (con : Bool)
    (ht : tok.length ≤ 15) (hs : seq < 2 ^ 32) :
    ∃ p, createNotification mid tok seq payload con = .ok p ∧
      p.header.getVersion = 1 ∧
      p.header.getType = .ok (if con then .Confirmable else .NonConfirmable) ∧
      p.header.getTkl.toNat = tok.length ∧
      p.header.code = .Response .Content ∧ p.header.mid = mid ∧ p.token = tok ∧
      p.payload = payload ∧ p.options = [(6, [Spec.minimalBE seq])] ∧
      p.getObserveValue = some (.ok seq) := by
  sorry

end CoapLite.Observe
