/-
Lemmas about Model/Observe.lean (observer registry).  Used by Props/C14, C15.
-/
import CoapLite.Model.Observe
import CoapLite.Lemmas.Request

namespace CoapLite.Observe
open CoapLite

/-- registry shape invariant: one entry per path, one observer per endpoint per resource -/
def Inv (s : Subject) : Prop :=
  (s.resources.map (·.1)).Nodup ∧ ∀ kv ∈ s.resources, (kv.2.observers.map (·.endpoint)).Nodup

/-- all `limit` operations of a history are u8 values -/
def LimitsOk (ops : List Op) : Prop := ∀ op ∈ ops, ∀ l, op = .limit l → l ≤ 255

def fresh (ep : Nat) (tok : Bytes) : Observer := { endpoint := ep, token := tok, unacked := 0, mid := none }

/-- what `register` does to one observer list -/
def regList (obs : List Observer) (ep : Nat) (tok : Bytes) : List Observer :=
  if obs.any (fun o => o.endpoint == ep) then obs.map (fun o => if o.endpoint == ep then fresh ep tok else o)
  else obs ++ [fresh ep tok]

/-- what a notification round does to one observer -/
def bump (mid : Nat) (con : Bool) (o : Observer) : Observer :=
  { o with mid := some mid, unacked := if con then o.unacked + 1 else o.unacked }

/-- what `acknowledge` does to one observer -/
def ackOne (ep mid : Nat) (o : Observer) : Observer :=
  if o.endpoint == ep && o.mid == some mid then { o with unacked := 0, mid := none } else o

/-! ### association-list helpers -/

theorem keys_modifyRes (rs : List (String × Resource)) (p : String) (f : Resource → Resource) :
    (modifyRes rs p f).map (·.1) = rs.map (·.1) := by
  unfold modifyRes
  rw [List.map_map]
  apply List.map_congr_left
  intro kv _
  simp only [Function.comp]
  split <;> rfl

theorem find_modifyRes_self (rs : List (String × Resource)) (p : String) (f : Resource → Resource) :
    (modifyRes rs p f).find? (fun kv => kv.1 == p) =
      (rs.find? (fun kv => kv.1 == p)).map (fun kv => (kv.1, f kv.2)) := by
  induction rs with
  | nil => rfl
  | cons kv rest ih =>
    unfold modifyRes at ih ⊢
    rw [List.map_cons, List.find?_cons, List.find?_cons]
    by_cases hk : (kv.1 == p) = true
    · simp [hk]
    · have hk' : (kv.1 == p) = false := by simpa using hk
      simp only [hk', Bool.false_eq_true, ↓reduceIte]
      exact ih

theorem find_modifyRes_ne (rs : List (String × Resource)) (p p' : String) (f : Resource → Resource)
    (hne : p' ≠ p) :
    (modifyRes rs p f).find? (fun kv => kv.1 == p') = rs.find? (fun kv => kv.1 == p') := by
  induction rs with
  | nil => rfl
  | cons kv rest ih =>
    unfold modifyRes at ih ⊢
    rw [List.map_cons, List.find?_cons, List.find?_cons]
    by_cases hk : (kv.1 == p) = true
    · have : kv.1 = p := by simpa using hk
      have h2 : (kv.1 == p') = false := by simp [this]; exact fun h => hne h.symm
      simp [hk, h2]
      simpa using ih
    · have hk' : (kv.1 == p) = false := by simpa using hk
      simp only [hk', Bool.false_eq_true, ↓reduceIte]
      rw [ih]

theorem forall_modifyRes (P : Resource → Prop) (rs : List (String × Resource)) (p : String)
    (f : Resource → Resource) (h : ∀ kv ∈ rs, P kv.2) (hf : ∀ r, P r → P (f r)) :
    ∀ kv ∈ modifyRes rs p f, P kv.2 := by
  intro kv hkv
  unfold modifyRes at hkv
  rw [List.mem_map] at hkv
  obtain ⟨kv0, h0, rfl⟩ := hkv
  split
  · exact hf _ (h _ h0)
  · exact h _ h0

theorem any_eq_find (rs : List (String × Resource)) (p : String) :
    rs.any (fun kv => kv.1 == p) = (rs.find? (fun kv => kv.1 == p)).isSome := by
  induction rs with
  | nil => rfl
  | cons kv rest ih =>
    rw [List.any_cons, List.find?_cons]
    by_cases hk : (kv.1 == p) = true
    · simp [hk]
    · have hk' : (kv.1 == p) = false := by simpa using hk
      simp only [hk', Bool.false_or]; exact ih

theorem any_false_not_mem (rs : List (String × Resource)) (p : String)
    (h : rs.any (fun kv => kv.1 == p) = false) : p ∉ rs.map (·.1) := by
  intro hm
  rw [List.mem_map] at hm
  obtain ⟨kv, hkv, rfl⟩ := hm
  have : rs.any (fun kv' => kv'.1 == kv.1) = true := List.any_eq_true.mpr ⟨kv, hkv, by simp⟩
  rw [this] at h
  cases h


/-! ### observer-list helpers -/

/-- no element of `l` has endpoint `ep` -/
theorem map_id_of_not_mem (l : List Observer) (ep : Nat) (g : Observer → Observer)
    (h : ep ∉ l.map (·.endpoint)) :
    l.map (fun x => if x.endpoint == ep then g x else x) = l := by
  induction l with
  | nil => rfl
  | cons x xs ih =>
    rw [List.map_cons, List.mem_cons, not_or] at h
    have hx : (x.endpoint == ep) = false := by
      simp only [beq_eq_false_iff_ne, ne_eq]; exact fun e => h.1 e.symm
    rw [List.map_cons, ih h.2, hx]
    rfl

theorem any_false_of_not_mem (l : List Observer) (ep : Nat) (h : ep ∉ l.map (·.endpoint)) :
    l.any (fun x => x.endpoint == ep) = false := by
  rw [List.any_eq_false]
  intro x hx hc
  exact h (List.mem_map.mpr ⟨x, hx, by simpa using hc⟩)

theorem not_mem_of_any_false (l : List Observer) (ep : Nat)
    (h : l.any (fun x => x.endpoint == ep) = false) : ep ∉ l.map (·.endpoint) := by
  intro hm
  obtain ⟨x, hx, rfl⟩ := List.mem_map.mp hm
  rw [List.any_eq_false] at h
  exact h x hx (by simp)

theorem replaceFirst_eq (l : List Observer) (ep : Nat) (o : Observer)
    (hn : (l.map (·.endpoint)).Nodup) :
    replaceFirst (fun x => x.endpoint == ep) o l =
      if l.any (fun x => x.endpoint == ep) then
        some (l.map (fun x => if x.endpoint == ep then o else x))
      else none := by
  induction l with
  | nil => rfl
  | cons x xs ih =>
    rw [List.map_cons, List.nodup_cons] at hn
    unfold replaceFirst
    rw [List.any_cons, List.map_cons]
    by_cases hx : (x.endpoint == ep) = true
    · have hxe : x.endpoint = ep := by simpa using hx
      have := map_id_of_not_mem xs ep (fun _ => o) (hxe ▸ hn.1)
      simp only [hx, ↓reduceIte, Bool.true_or, this]
    · have hx' : (x.endpoint == ep) = false := by simpa using hx
      simp only [hx', Bool.false_eq_true, ↓reduceIte, Bool.false_or, ih hn.2]
      split <;> rfl

theorem regF_eq (r : Resource) (ep : Nat) (tok : Bytes) (hn : (r.observers.map (·.endpoint)).Nodup) :
    (match replaceFirst (fun x => x.endpoint == ep) (fresh ep tok) r.observers with
      | some l => { r with observers := l }
      | none => { r with observers := r.observers ++ [fresh ep tok] }) =
    { r with observers := regList r.observers ep tok } := by
  rw [replaceFirst_eq _ _ _ hn]
  unfold regList
  by_cases ha : (r.observers.any fun x => x.endpoint == ep) = true
  · simp only [ha, ↓reduceIte]
  · simp only [ha, Bool.false_eq_true, ↓reduceIte]

theorem regList_nodup (l : List Observer) (ep : Nat) (tok : Bytes)
    (hn : (l.map (·.endpoint)).Nodup) : ((regList l ep tok).map (·.endpoint)).Nodup := by
  unfold regList
  split
  · have : (l.map (fun o => if o.endpoint == ep then fresh ep tok else o)).map (·.endpoint) =
        l.map (·.endpoint) := by
      rw [List.map_map]
      apply List.map_congr_left
      intro o _
      simp only [Function.comp]
      split
      · rename_i h; simp only [fresh]; exact (by simpa using h : o.endpoint = ep).symm
      · rfl
    rw [this]; exact hn
  · rename_i h
    have h' : l.any (fun o => o.endpoint == ep) = false := by simpa using h
    have := not_mem_of_any_false l ep h'
    rw [List.map_append, List.nodup_append]
    refine ⟨hn, by simp, ?_⟩
    intro a ha b hb
    simp only [List.map_cons, List.map_nil, List.mem_singleton, fresh] at hb
    subst hb
    exact fun e => this (e ▸ ha)

theorem removeFirst_eq (l : List Observer) (ep : Nat) (tok : Bytes)
    (hn : (l.map (·.endpoint)).Nodup) :
    removeFirst (fun x => x.endpoint == ep && x.token == tok) l =
      l.filter (fun o => !(o.endpoint == ep && o.token == tok)) := by
  induction l with
  | nil => rfl
  | cons x xs ih =>
    rw [List.map_cons, List.nodup_cons] at hn
    unfold removeFirst
    rw [List.filter_cons]
    by_cases hx : (x.endpoint == ep && x.token == tok) = true
    · simp only [hx, ↓reduceIte, Bool.not_true, Bool.false_eq_true]
      have hxe : x.endpoint = ep := by
        simp only [Bool.and_eq_true, beq_iff_eq] at hx; exact hx.1
      symm
      rw [List.filter_eq_self]
      intro a ha
      have : a.endpoint ≠ ep := by
        intro e
        exact hn.1 (List.mem_map.mpr ⟨a, ha, by rw [e, hxe]⟩)
      simp [this]
    · have hx' : (x.endpoint == ep && x.token == tok) = false := by simpa using hx
      simp only [hx', Bool.false_eq_true, ↓reduceIte, Bool.not_false, ih hn.2]

theorem ackFirst_eq (l : List Observer) (ep mid : Nat)
    (hn : (l.map (·.endpoint)).Nodup) :
    ackFirst ep mid l = l.map (ackOne ep mid) := by
  induction l with
  | nil => rfl
  | cons x xs ih =>
    rw [List.map_cons, List.nodup_cons] at hn
    unfold ackFirst
    rw [List.map_cons]
    by_cases hx : (x.mid == some mid && x.endpoint == ep) = true
    · have hx2 : (x.endpoint == ep && x.mid == some mid) = true := by rw [Bool.and_comm]; exact hx
      have hxe : x.endpoint = ep := by
        simp only [Bool.and_eq_true, beq_iff_eq] at hx; exact hx.2
      have : xs.map (ackOne ep mid) = xs := by
        have h := map_id_of_not_mem xs ep (fun o => if o.mid == some mid then { o with unacked := 0, mid := none } else o) (hxe ▸ hn.1)
        refine Eq.trans ?_ h
        apply List.map_congr_left
        intro a _
        unfold ackOne
        by_cases h1 : (a.endpoint == ep) = true <;> simp [h1]
      rw [this]
      simp only [hx, ↓reduceIte, ackOne, hx2]
    · have hx' : (x.mid == some mid && x.endpoint == ep) = false := by simpa using hx
      have hx2 : (x.endpoint == ep && x.mid == some mid) = false := by rw [Bool.and_comm]; exact hx'
      simp only [hx', Bool.false_eq_true, ↓reduceIte, ih hn.2, ackOne, hx2]

theorem ackOne_endpoint (ep mid : Nat) (o : Observer) : (ackOne ep mid o).endpoint = o.endpoint := by
  unfold ackOne; split <;> rfl

theorem map_ackOne_endpoints (l : List Observer) (ep mid : Nat) :
    (l.map (ackOne ep mid)).map (·.endpoint) = l.map (·.endpoint) := by
  rw [List.map_map]
  apply List.map_congr_left
  intro o _
  exact ackOne_endpoint ep mid o

theorem changed_nodup (l : List Observer) (mid : Nat) (con : Bool) (lim : Nat)
    (hn : (l.map (·.endpoint)).Nodup) :
    (((l.map (bump mid con)).filter (fun o => o.unacked ≤ lim)).map (·.endpoint)).Nodup := by
  have h1 : (l.map (bump mid con)).map (·.endpoint) = l.map (·.endpoint) := by
    rw [List.map_map]; rfl
  have h2 := (List.filter_sublist (l := l.map (bump mid con)) (p := fun o => decide (o.unacked ≤ lim))).map (·.endpoint)
  rw [h1] at h2
  exact hn.sublist h2

theorem filter_nodup (l : List Observer) (q : Observer → Bool)
    (hn : (l.map (·.endpoint)).Nodup) : ((l.filter q).map (·.endpoint)).Nodup :=
  hn.sublist ((List.filter_sublist (l := l) (p := q)).map (·.endpoint))

/-! ### `upsertRes` -/

theorem find_upsertRes_self (rs : List (String × Resource)) (p : String) (f : Resource → Resource) :
    ((upsertRes rs p f).find? (fun kv => kv.1 == p)).map (·.2) =
      some (f (((rs.find? (fun kv => kv.1 == p)).map (·.2)).getD { observers := [], sequence := 0 })) := by
  unfold upsertRes
  rw [any_eq_find]
  cases hf : rs.find? (fun kv => kv.1 == p) with
  | none =>
    simp only [Option.isSome_none, Bool.false_eq_true, ↓reduceIte, Option.map_none, Option.getD_none]
    rw [List.find?_append, hf]
    simp
  | some kv =>
    simp only [Option.isSome_some, ↓reduceIte, Option.map_some, Option.getD_some]
    rw [find_modifyRes_self, hf]
    rfl

theorem find_upsertRes_ne (rs : List (String × Resource)) (p p' : String) (f : Resource → Resource)
    (hne : p' ≠ p) :
    (upsertRes rs p f).find? (fun kv => kv.1 == p') = rs.find? (fun kv => kv.1 == p') := by
  unfold upsertRes
  split
  · exact find_modifyRes_ne rs p p' f hne
  · rw [List.find?_append]
    have : (p == p') = false := by simp only [beq_eq_false_iff_ne, ne_eq]; exact fun e => hne e.symm
    simp [this]

theorem keys_upsertRes_nodup (rs : List (String × Resource)) (p : String) (f : Resource → Resource)
    (hn : (rs.map (·.1)).Nodup) : ((upsertRes rs p f).map (·.1)).Nodup := by
  unfold upsertRes
  split
  · rw [keys_modifyRes]; exact hn
  · rename_i h
    have h' : rs.any (fun kv => kv.1 == p) = false := Bool.eq_false_iff.mpr h
    have hnm := any_false_not_mem rs p h'
    rw [List.map_append, List.nodup_append]
    refine ⟨hn, by simp, ?_⟩
    intro a ha b hb
    simp only [List.map_cons, List.map_nil, List.mem_singleton] at hb
    subst hb
    exact fun e => hnm (e ▸ ha)

theorem forall_upsertRes (P : Resource → Prop) (rs : List (String × Resource)) (p : String)
    (f : Resource → Resource) (h : ∀ kv ∈ rs, P kv.2) (hf : ∀ r, P r → P (f r))
    (h0 : P { observers := [], sequence := 0 }) :
    ∀ kv ∈ upsertRes rs p f, P kv.2 := by
  unfold upsertRes
  split
  · exact forall_modifyRes P rs p f h hf
  · intro kv hkv
    rw [List.mem_append, List.mem_singleton] at hkv
    rcases hkv with hkv | rfl
    · exact h _ hkv
    · exact hf _ h0

/-! ### the invariant -/

theorem inv_default : Inv Subject.default := by
  refine ⟨List.nodup_nil, ?_⟩
  intro kv hkv
  cases hkv

theorem register_eq (s : Subject) (ep : Nat) (path : String) (tok : Bytes) :
    register s ep path tok = { s with resources := upsertRes s.resources path (fun r =>
      match replaceFirst (fun x => x.endpoint == ep) (fresh ep tok) r.observers with
      | some l => { r with observers := l }
      | none => { r with observers := r.observers ++ [fresh ep tok] }) } := rfl

theorem inv_mk (rs : List (String × Resource)) (l : Nat) (h1 : (rs.map (·.1)).Nodup)
    (h2 : ∀ kv ∈ rs, (kv.2.observers.map (·.endpoint)).Nodup) : Inv { resources := rs, limit := l } :=
  ⟨h1, h2⟩

theorem step_inv (s : Subject) (op : Op) (h : Inv s) : Inv (step s op) := by
  obtain ⟨hk, ho⟩ := h
  cases op with
  | reg ep p t =>
    show Inv (register s ep p t)
    rw [register_eq]
    refine inv_mk _ _ (keys_upsertRes_nodup _ _ _ hk) ?_
    apply forall_upsertRes (fun r => (r.observers.map (·.endpoint)).Nodup) _ _ _ ho
    · intro r hr
      rw [regF_eq r ep t hr]
      exact regList_nodup _ _ _ hr
    · exact List.nodup_nil
  | dereg ep p t =>
    show Inv (deregister s ep p t)
    unfold deregister
    refine inv_mk _ _ (by rw [keys_modifyRes]; exact hk) ?_
    apply forall_modifyRes (fun r => (r.observers.map (·.endpoint)).Nodup) _ _ _ ho
    intro r hr
    simp only
    rw [removeFirst_eq _ _ _ hr]
    exact filter_nodup _ _ hr
  | chg p m c =>
    show Inv (resourceChanged s p m c)
    unfold resourceChanged
    refine inv_mk _ _ (by rw [keys_modifyRes]; exact hk) ?_
    apply forall_modifyRes (fun r => (r.observers.map (·.endpoint)).Nodup) _ _ _ ho
    intro r hr
    exact changed_nodup r.observers m c s.limit hr
  | ack ep m =>
    show Inv (acknowledge s ep m)
    unfold acknowledge
    refine inv_mk _ _ (by rw [List.map_map]; exact hk) ?_
    intro kv hkv
    simp only [List.mem_map] at hkv
    obtain ⟨kv0, hkv0, rfl⟩ := hkv
    simp only
    rw [ackFirst_eq _ _ _ (ho _ hkv0), map_ackOne_endpoints]
    exact ho _ hkv0
  | limit l => exact ⟨hk, ho⟩

theorem inv_foldl (ops : List Op) : ∀ s, Inv s → Inv (ops.foldl step s) := by
  induction ops with
  | nil => intro s h; exact h
  | cons op ops ih => intro s h; exact ih _ (step_inv s op h)

theorem inv_run (ops : List Op) : Inv (run ops) := inv_foldl ops _ inv_default

/-! ### per-operation specifications -/

theorem register_spec (s : Subject) (h : Inv s) (ep : Nat) (path : String) (tok : Bytes) :
    (register s ep path tok).get path =
      some { sequence := ((s.get path).map (·.sequence)).getD 0,
             observers := regList (((s.get path).map (·.observers)).getD []) ep tok } ∧
    (register s ep path tok).limit = s.limit := by
  refine ⟨?_, rfl⟩
  rw [register_eq]
  unfold Subject.get
  simp only
  rw [find_upsertRes_self]
  cases hf : s.resources.find? (fun kv => kv.1 == path) with
  | none =>
    simp only [Option.map_none, Option.getD_none]
    rw [regF_eq { observers := [], sequence := 0 } ep tok List.nodup_nil]
  | some kv =>
    simp only [Option.map_some, Option.getD_some]
    rw [regF_eq _ ep tok (h.2 kv (List.mem_of_find?_eq_some hf))]

theorem deregister_spec (s : Subject) (h : Inv s) (ep : Nat) (path : String) (tok : Bytes) :
    (deregister s ep path tok).get path =
      (s.get path).map (fun r => { r with observers := r.observers.filter (fun o => !(o.endpoint == ep && o.token == tok)) }) ∧
    (deregister s ep path tok).limit = s.limit := by
  refine ⟨?_, rfl⟩
  unfold deregister Subject.get
  simp only
  rw [find_modifyRes_self]
  cases hf : s.resources.find? (fun kv => kv.1 == path) with
  | none => rfl
  | some kv =>
    simp only [Option.map_some]
    rw [removeFirst_eq _ _ _ (h.2 kv (List.mem_of_find?_eq_some hf))]

theorem changed_spec (s : Subject) (h : Inv s) (path : String) (mid : Nat) (con : Bool) :
    (resourceChanged s path mid con).get path =
      (s.get path).map (fun r =>
        { sequence := seqNext r.sequence,
          observers := (r.observers.map (bump mid con)).filter (fun o => o.unacked ≤ s.limit) }) ∧
    (resourceChanged s path mid con).limit = s.limit := by
  have _ := h
  refine ⟨?_, rfl⟩
  unfold resourceChanged Subject.get
  simp only
  rw [find_modifyRes_self]
  cases hf : s.resources.find? (fun kv => kv.1 == path) with
  | none => rfl
  | some kv => rfl

theorem acknowledge_spec (s : Subject) (h : Inv s) (ep mid : Nat) (path : String) :
    (acknowledge s ep mid).get path =
      (s.get path).map (fun r => { r with observers := r.observers.map (ackOne ep mid) }) ∧
    (acknowledge s ep mid).limit = s.limit := by
  refine ⟨?_, rfl⟩
  unfold acknowledge Subject.get
  simp only
  rw [List.find?_map]
  cases hf : s.resources.find? (fun kv => kv.1 == path) with
  | none =>
    have : s.resources.find? ((fun kv : String × Resource => kv.1 == path) ∘ fun kv =>
        (kv.1, { kv.2 with observers := ackFirst ep mid kv.2.observers })) = none := hf
    rw [this]; rfl
  | some kv =>
    have : s.resources.find? ((fun kv : String × Resource => kv.1 == path) ∘ fun kv =>
        (kv.1, { kv.2 with observers := ackFirst ep mid kv.2.observers })) = some kv := hf
    rw [this]
    simp only [Option.map_some]
    rw [ackFirst_eq _ _ _ (h.2 kv (List.mem_of_find?_eq_some hf))]

/-- operations on one resource never change another resource -/
theorem frame (s : Subject) (p p' : String) (hne : p' ≠ p) (ep mid : Nat) (tok : Bytes) (con : Bool) :
    (register s ep p tok).get p' = s.get p' ∧
    (deregister s ep p tok).get p' = s.get p' ∧
    (resourceChanged s p mid con).get p' = s.get p' := by
  refine ⟨?_, ?_, ?_⟩
  · unfold register Subject.get
    simp only
    rw [find_upsertRes_ne _ _ _ _ hne]
  · unfold deregister Subject.get
    simp only
    rw [find_modifyRes_ne _ _ _ _ hne]
  · unfold resourceChanged Subject.get
    simp only
    rw [find_modifyRes_ne _ _ _ _ hne]

theorem setLimit_frame (s : Subject) (l : Nat) (p : String) : (setLimit s l).get p = s.get p := rfl

theorem modifyRes_noop (rs : List (String × Resource)) (p : String) (f : Resource → Resource)
    (h : rs.find? (fun kv => kv.1 == p) = none) : modifyRes rs p f = rs := by
  unfold modifyRes
  rw [List.find?_eq_none] at h
  conv => rhs; rw [← List.map_id rs]
  apply List.map_congr_left
  intro kv hkv
  have := h kv hkv
  simp only [Bool.not_eq_true] at this
  simp only [this, Bool.false_eq_true, ↓reduceIte, id]

theorem changed_unobserved_noop (s : Subject) (path : String) (mid : Nat) (con : Bool)
    (h : s.get path = none) : resourceChanged s path mid con = s := by
  unfold Subject.get at h
  rw [Option.map_eq_none_iff] at h
  unfold resourceChanged
  rw [modifyRes_noop _ _ _ h]

/-! ### counter bound -/

/-- per-resource part of the counter invariant (carries the shape invariant) -/
theorem regList_bound (l : List Observer) (ep : Nat) (tok : Bytes) (B : Nat)
    (h : ∀ o ∈ l, o.unacked ≤ B) : ∀ o ∈ regList l ep tok, o.unacked ≤ B := by
  intro o ho
  unfold regList at ho
  split at ho
  · rw [List.mem_map] at ho
    obtain ⟨x, hx, rfl⟩ := ho
    split
    · exact Nat.zero_le _
    · exact h _ hx
  · rw [List.mem_append, List.mem_singleton] at ho
    rcases ho with ho | rfl
    · exact h _ ho
    · exact Nat.zero_le _

theorem ackOne_bound (ep mid : Nat) (o : Observer) (B : Nat) (h : o.unacked ≤ B) :
    (ackOne ep mid o).unacked ≤ B := by
  unfold ackOne
  split
  · exact Nat.zero_le _
  · exact h

theorem bound_mk (rs : List (String × Resource)) (l : Nat) (h1 : l ≤ 255)
    (h2 : ∀ kv ∈ rs, ∀ o ∈ kv.2.observers, o.unacked ≤ 255) :
    (Subject.mk rs l).limit ≤ 255 ∧
      ∀ kv ∈ (Subject.mk rs l).resources, ∀ o ∈ kv.2.observers, o.unacked ≤ 255 := ⟨h1, h2⟩

/-- the strengthened invariant behind `unacked_le` -/
theorem step_bound (s : Subject) (op : Op) (hi : Inv s) (hop : ∀ l, op = .limit l → l ≤ 255)
    (hl : s.limit ≤ 255) (hb : ∀ kv ∈ s.resources, ∀ o ∈ kv.2.observers, o.unacked ≤ 255) :
    (step s op).limit ≤ 255 ∧ ∀ kv ∈ (step s op).resources, ∀ o ∈ kv.2.observers, o.unacked ≤ 255 := by
  have hP : ∀ kv ∈ s.resources, (fun r : Resource => (r.observers.map (·.endpoint)).Nodup ∧
      ∀ o ∈ r.observers, o.unacked ≤ 255) kv.2 := fun kv hkv => ⟨hi.2 kv hkv, hb kv hkv⟩
  cases op with
  | reg ep p t =>
    show (register s ep p t).limit ≤ 255 ∧ ∀ kv ∈ (register s ep p t).resources, _
    rw [register_eq]
    refine bound_mk _ _ hl ?_
    intro kv hkv
    refine (forall_upsertRes (fun r : Resource => (r.observers.map (·.endpoint)).Nodup ∧ ∀ o ∈ r.observers, o.unacked ≤ 255) _ _ _ hP ?_ ?_ kv hkv).2
    · intro r hr
      rw [regF_eq r ep t hr.1]
      exact ⟨regList_nodup _ _ _ hr.1, regList_bound _ _ _ _ hr.2⟩
    · exact ⟨List.nodup_nil, fun o ho => by cases ho⟩
  | dereg ep p t =>
    refine bound_mk _ _ hl ?_
    intro kv hkv
    refine (forall_modifyRes (fun r : Resource => (r.observers.map (·.endpoint)).Nodup ∧ ∀ o ∈ r.observers, o.unacked ≤ 255) _ _ _ hP ?_ kv hkv).2
    intro r hr
    simp only
    rw [removeFirst_eq _ _ _ hr.1]
    exact ⟨filter_nodup _ _ hr.1, fun o ho => hr.2 o (List.mem_filter.mp ho).1⟩
  | chg p m c =>
    refine bound_mk _ _ hl ?_
    intro kv hkv
    refine forall_modifyRes (fun r => ∀ o ∈ r.observers, o.unacked ≤ 255) _ _ _ hb ?_ kv hkv
    intro r _ o ho
    have := (List.mem_filter.mp ho).2
    simp only [decide_eq_true_eq] at this
    exact Nat.le_trans this hl
  | ack ep m =>
    refine ⟨hl, ?_⟩
    intro kv hkv
    change kv ∈ s.resources.map _ at hkv
    rw [List.mem_map] at hkv
    obtain ⟨kv0, hkv0, rfl⟩ := hkv
    simp only
    rw [ackFirst_eq _ _ _ (hi.2 _ hkv0)]
    intro o ho
    rw [List.mem_map] at ho
    obtain ⟨x, hx, rfl⟩ := ho
    exact ackOne_bound _ _ _ _ (hb _ hkv0 _ hx)
  | limit l => exact ⟨hop l rfl, hb⟩

theorem bound_foldl (ops : List Op) (hlo : LimitsOk ops) : ∀ s, Inv s → s.limit ≤ 255 →
    (∀ kv ∈ s.resources, ∀ o ∈ kv.2.observers, o.unacked ≤ 255) →
    (ops.foldl step s).limit ≤ 255 ∧
      ∀ kv ∈ (ops.foldl step s).resources, ∀ o ∈ kv.2.observers, o.unacked ≤ 255 := by
  induction ops with
  | nil => intro s _ hl hb; exact ⟨hl, hb⟩
  | cons op ops ih =>
    intro s hi hl hb
    have hs := step_bound s op hi (fun l e => hlo op (List.mem_cons_self ..) l e) hl hb
    exact ih (fun op' h' => hlo op' (List.mem_cons_of_mem _ h')) _ (step_inv s op hi) hs.1 hs.2

/-- counter bound: with u8 limits, no stored counter ever exceeds 255, so the
increment in a notification round stays below 2^16 (the width of the counter) -/
theorem unacked_le (ops : List Op) (hl : LimitsOk ops) :
    (run ops).limit ≤ 255 ∧ ∀ kv ∈ (run ops).resources, ∀ o ∈ kv.2.observers, o.unacked ≤ 255 := by
  apply bound_foldl ops hl _ inv_default
  · decide
  · intro kv hkv; cases hkv

theorem seqNext_spec (n : Nat) :
    seqNext n < 2 ^ 32 ∧ (n + 1 < 2 ^ 32 → seqNext n = n + 1) ∧ (n = 2 ^ 32 - 1 → seqNext n = 0) := by
  unfold seqNext
  refine ⟨Nat.mod_lt _ (by decide), fun h => Nat.mod_eq_of_lt h, fun h => ?_⟩
  subst h; decide

/-- every operation leaves a resource's sequence number alone, except a notification round on
that resource, which advances it by one (modulo 2^32) -/
theorem sequence_step (s : Subject) (op : Op) (p : String) (r : Resource) (h : Inv s)
    (hr : s.get p = some r) :
    ∃ r', (step s op).get p = some r' ∧
      (r'.sequence = r.sequence ∨ ((∃ m c, op = .chg p m c) ∧ r'.sequence = seqNext r.sequence)) := by
  cases op with
  | reg ep q t =>
    show ∃ r', (register s ep q t).get p = some r' ∧ _
    by_cases hq : p = q
    · subst hq
      rw [(register_spec s h ep p t).1, hr]
      exact ⟨_, rfl, Or.inl rfl⟩
    · rw [(frame s q p hq ep 0 t false).1, hr]
      exact ⟨_, rfl, Or.inl rfl⟩
  | dereg ep q t =>
    show ∃ r', (deregister s ep q t).get p = some r' ∧ _
    by_cases hq : p = q
    · subst hq
      rw [(deregister_spec s h ep p t).1, hr]
      exact ⟨_, rfl, Or.inl rfl⟩
    · rw [(frame s q p hq ep 0 t false).2.1, hr]
      exact ⟨_, rfl, Or.inl rfl⟩
  | chg q m c =>
    show ∃ r', (resourceChanged s q m c).get p = some r' ∧ _
    by_cases hq : p = q
    · subst hq
      rw [(changed_spec s h p m c).1, hr]
      exact ⟨_, rfl, Or.inr ⟨⟨m, c, rfl⟩, rfl⟩⟩
    · rw [(frame s q p hq 0 m [] c).2.2, hr]
      exact ⟨_, rfl, Or.inl rfl⟩
  | ack ep m =>
    show ∃ r', (acknowledge s ep m).get p = some r' ∧ _
    rw [(acknowledge_spec s h ep m p).1, hr]
    exact ⟨_, rfl, Or.inl rfl⟩
  | limit l => exact ⟨r, hr, Or.inl rfl⟩

/-- sequence numbers never decrease along a history as long as the 32-bit counter has not
wrapped (fewer than 2^32 rounds on the resource) -/
theorem sequence_mono (s : Subject) (op : Op) (p : String) (r : Resource) (h : Inv s)
    (hr : s.get p = some r) (hw : r.sequence + 1 < 2 ^ 32) :
    ∃ r', (step s op).get p = some r' ∧ r.sequence ≤ r'.sequence := by
  obtain ⟨r', h1, h2⟩ := sequence_step s op p r h hr
  refine ⟨r', h1, ?_⟩
  rcases h2 with e | ⟨_, e⟩
  · omega
  · rw [e, (seqNext_spec r.sequence).2.1 hw]; omega

/-! ### `create_notification` -/

theorem notif_fin : ∀ (k : Fin 16), ∀ rt ∈ [MessageType.Confirmable, MessageType.NonConfirmable],
    (0xF0 &&& UInt8.ofNat (k.val % 256) = 0) ∧
    (let h : Header := { vtt := UInt8.ofNat (k.val % 256) |||
        (0xF0 &&& ((Header.default.setVersion 1).setType rt).vtt), code := .Response .Content, mid := 0 }
     h.getVersion = 1 ∧ h.getType = .ok rt ∧ h.getTkl.toNat = k.val) := by
  decide +kernel

theorem notification_spec (mid : Nat) (tok : Bytes) (seq : Nat) (payload : Bytes) (con : Bool)
    (ht : tok.length ≤ 15) (hs : seq < 2 ^ 32) :
    ∃ p, createNotification mid tok seq payload con = .ok p ∧
      p.header.getVersion = 1 ∧
      p.header.getType = .ok (if con then .Confirmable else .NonConfirmable) ∧
      p.header.getTkl.toNat = tok.length ∧
      p.header.code = .Response .Content ∧ p.header.mid = mid ∧ p.token = tok ∧
      p.payload = payload ∧ p.options = [(6, [Spec.minimalBE seq])] ∧
      p.getObserveValue = some (.ok seq) := by
  have hf := notif_fin ⟨tok.length, by omega⟩ (if con then .Confirmable else .NonConfirmable)
    (by cases con <;> simp)
  simp only at hf
  obtain ⟨h0, hv, htb, htk⟩ := hf
  have hseq : seq < 256 ^ 4 := by omega
  unfold createNotification Packet.setToken Header.setTkl
  simp only [h0, ne_eq, not_true_eq_false, ↓reduceIte]
  unfold Packet.setObserveValue Packet.addOptionUint
  rw [optionFromUint_eq seq 4 hseq]
  refine ⟨_, rfl, hv, ?_, htk, rfl, rfl, rfl, rfl, rfl, ?_⟩
  · exact htb
  · show Packet.getFirstOptionUint _ _ 4 = _
    unfold Packet.getFirstOptionUint Packet.getFirstOption
    show Option.map (fun bs => optionToUint bs 4) (some (Spec.minimalBE seq)) = _
    simp only [Option.map_some]
    rw [optionToUint_eq, if_pos (minimalBE_length_le seq 4 hseq), beValue_minimalBE]

end CoapLite.Observe
