import CoapLite.Model.Builder
import CoapLite.Lemmas.CodecFwd
import CoapLite.Lemmas.OptMapExtra

namespace CoapLite
namespace Builder

/-! ### byte algebra behind the header setters (for an arbitrary argument byte) -/

private theorem and_or (x y z : UInt8) : x &&& (y ||| z) = (x &&& y) ||| (x &&& z) := by
  simp [← UInt8.toBitVec_inj, BitVec.and_or_distrib_left]

private theorem ver_arg (v : UInt8) :
    (v <<< 6) >>> 6 = v &&& 3 ∧ (0x30 : UInt8) &&& (v <<< 6) = 0 ∧ (0x0F : UInt8) &&& (v <<< 6) = 0 :=
  Codec.byte_forall (fun v => (v <<< 6) >>> 6 = v &&& 3 ∧ (0x30 : UInt8) &&& (v <<< 6) = 0 ∧
    (0x0F : UInt8) &&& (v <<< 6) = 0) (by decide +kernel) v

private theorem keep3F (a : UInt8) :
    ((0x3F : UInt8) &&& a) >>> 6 = 0 ∧ (0x30 : UInt8) &&& (0x3F &&& a) = 0x30 &&& a ∧
    (0x0F : UInt8) &&& (0x3F &&& a) = 0x0F &&& a :=
  Codec.byte_forall (fun a => ((0x3F : UInt8) &&& a) >>> 6 = 0 ∧
    (0x30 : UInt8) &&& (0x3F &&& a) = 0x30 &&& a ∧
    (0x0F : UInt8) &&& (0x3F &&& a) = 0x0F &&& a) (by decide +kernel) a

private theorem keepCF (a : UInt8) :
    ((0xCF : UInt8) &&& a) >>> 6 = a >>> 6 ∧ (0x30 : UInt8) &&& (0xCF &&& a) = 0 ∧
    (0x0F : UInt8) &&& (0xCF &&& a) = 0x0F &&& a :=
  Codec.byte_forall (fun a => ((0xCF : UInt8) &&& a) >>> 6 = a >>> 6 ∧
    (0x30 : UInt8) &&& (0xCF &&& a) = 0 ∧
    (0x0F : UInt8) &&& (0xCF &&& a) = 0x0F &&& a) (by decide +kernel) a

private theorem keepF0 (a : UInt8) :
    ((0xF0 : UInt8) &&& a) >>> 6 = a >>> 6 ∧ (0x30 : UInt8) &&& (0xF0 &&& a) = 0x30 &&& a ∧
    (0x0F : UInt8) &&& (0xF0 &&& a) = 0 :=
  Codec.byte_forall (fun a => ((0xF0 : UInt8) &&& a) >>> 6 = a >>> 6 ∧
    (0x30 : UInt8) &&& (0xF0 &&& a) = 0x30 &&& a ∧
    (0x0F : UInt8) &&& (0xF0 &&& a) = 0) (by decide +kernel) a

private theorem typ_arg : ∀ t : MessageType,
    (UInt8.ofNat (MessageType.toBits t) <<< 4) >>> 6 = 0 ∧
    (0x30 : UInt8) &&& (UInt8.ofNat (MessageType.toBits t) <<< 4) = UInt8.ofNat (MessageType.toBits t) <<< 4 ∧
    (0x0F : UInt8) &&& (UInt8.ofNat (MessageType.toBits t) <<< 4) = 0 ∧
    MessageType.ofBits? ((UInt8.ofNat (MessageType.toBits t) <<< 4) >>> 4).toNat = some t := by
  intro t; cases t <;> decide

private theorem tkl_arg (n : UInt8) : (0xF0 : UInt8) &&& n = 0 →
    n >>> 6 = 0 ∧ (0x30 : UInt8) &&& n = 0 ∧ (0x0F : UInt8) &&& n = n :=
  Codec.byte_forall (fun n => (0xF0 : UInt8) &&& n = 0 →
    n >>> 6 = 0 ∧ (0x30 : UInt8) &&& n = 0 ∧ (0x0F : UInt8) &&& n = n) (by decide +kernel) n

private theorem tkl_assert (n : UInt8) : (0xF0 : UInt8) &&& n = 0 ↔ n.toNat < 16 :=
  Codec.byte_forall (fun n => (0xF0 : UInt8) &&& n = 0 ↔ n.toNat < 16) (by decide +kernel) n

private theorem vtt_recompose (a : UInt8) :
    a = ((a >>> 6) <<< 6) ||| ((((0x30 : UInt8) &&& a) >>> 4) <<< 4) ||| ((0x0F : UInt8) &&& a) :=
  Codec.byte_forall (fun a =>
    a = ((a >>> 6) <<< 6) ||| ((((0x30 : UInt8) &&& a) >>> 4) <<< 4) ||| ((0x0F : UInt8) &&& a))
    (by decide +kernel) a

private theorem vtt_ext (a b : UInt8) (h1 : a >>> 6 = b >>> 6)
    (h2 : ((0x30 : UInt8) &&& a) >>> 4 = ((0x30 : UInt8) &&& b) >>> 4)
    (h3 : (0x0F : UInt8) &&& a = (0x0F : UInt8) &&& b) : a = b := by
  rw [vtt_recompose a, vtt_recompose b, h1, h2, h3]

/-! ### header setters: each one writes its own field and leaves the two others alone -/

private theorem getVersion_setVersion (h : Header) (v : UInt8) :
    (h.setVersion v).getVersion = v &&& 3 := by
  simp only [Header.setVersion, Header.getVersion, UInt8.shiftRight_or, (ver_arg v).1,
    (keep3F h.vtt).1, UInt8.or_zero]

private theorem getType_setVersion (h : Header) (v : UInt8) :
    (h.setVersion v).getType = h.getType := by
  simp only [Header.setVersion, Header.getType, Header.typeBits, and_or, (ver_arg v).2.1,
    (keep3F h.vtt).2.1, UInt8.zero_or]

private theorem getTkl_setVersion (h : Header) (v : UInt8) :
    (h.setVersion v).getTkl = h.getTkl := by
  simp only [Header.setVersion, Header.getTkl, and_or, (ver_arg v).2.2,
    (keep3F h.vtt).2.2, UInt8.zero_or]

private theorem getVersion_setType (h : Header) (t : MessageType) :
    (h.setType t).getVersion = h.getVersion := by
  simp only [Header.setType, Header.getVersion, UInt8.shiftRight_or, (typ_arg t).1,
    (keepCF h.vtt).1, UInt8.zero_or]

private theorem getType_setType (h : Header) (t : MessageType) :
    (h.setType t).getType = .ok t := by
  simp only [Header.setType, Header.getType, Header.typeBits, and_or, (typ_arg t).2.1,
    (keepCF h.vtt).2.1, UInt8.or_zero, (typ_arg t).2.2.2]

private theorem getTkl_setType (h : Header) (t : MessageType) :
    (h.setType t).getTkl = h.getTkl := by
  simp only [Header.setType, Header.getTkl, and_or, (typ_arg t).2.2.1,
    (keepCF h.vtt).2.2, UInt8.zero_or]

/-- the header after a successful `set_token_length(n)` -/
private def withTkl (h : Header) (n : UInt8) : Header := { h with vtt := n ||| (0xF0 &&& h.vtt) }

private theorem setTkl_eq (h : Header) (n : UInt8) :
    h.setTkl n = if n.toNat < 16 then .ok (withTkl h n) else .panic := by
  unfold Header.setTkl withTkl
  by_cases hn : n.toNat < 16
  · have := (tkl_assert n).2 hn
    simp [hn, this]
  · have : ¬ (0xF0 : UInt8) &&& n = 0 := fun e => hn ((tkl_assert n).1 e)
    simp [hn, this]

private theorem getVersion_withTkl (h : Header) (n : UInt8) (hn : n.toNat < 16) :
    (withTkl h n).getVersion = h.getVersion := by
  have a := tkl_arg n ((tkl_assert n).2 hn)
  simp only [withTkl, Header.getVersion, UInt8.shiftRight_or, a.1, (keepF0 h.vtt).1, UInt8.zero_or]

private theorem getType_withTkl (h : Header) (n : UInt8) (hn : n.toNat < 16) :
    (withTkl h n).getType = h.getType := by
  have a := tkl_arg n ((tkl_assert n).2 hn)
  simp only [withTkl, Header.getType, Header.typeBits, and_or, a.2.1, (keepF0 h.vtt).2.1,
    UInt8.zero_or]

private theorem getTkl_withTkl (h : Header) (n : UInt8) (hn : n.toNat < 16) :
    (withTkl h n).getTkl = n := by
  have a := tkl_arg n ((tkl_assert n).2 hn)
  simp only [withTkl, Header.getTkl, and_or, a.2.2, (keepF0 h.vtt).2.2, UInt8.or_zero]

private theorem code_withTkl (h : Header) (n : UInt8) : (withTkl h n).code = h.code := rfl
private theorem mid_withTkl (h : Header) (n : UInt8) : (withTkl h n).mid = h.mid := rfl

private theorem tokLen_toNat (t : Bytes) : (UInt8.ofNat (t.length % 256)).toNat = t.length % 256 :=
  Codec.toNat_ofNat_lt (Nat.mod_lt _ (by decide))

private theorem setToken_eq (p : Packet) (t : Bytes) :
    p.setToken t = if t.length % 256 < 16
      then .ok { p with header := withTkl p.header (UInt8.ofNat (t.length % 256)), token := t }
      else .panic := by
  unfold Packet.setToken
  rw [setTkl_eq, tokLen_toNat]
  by_cases hn : t.length % 256 < 16 <;> simp [hn]

/-! ### one call -/

/-- the documented assertion, for one call -/
private def OpOK (op : BOp) : Prop :=
  (∀ n, op = .tkl n → n.toNat < 16) ∧ (∀ t, op = .tok t → t.length % 256 < 16)

private theorem noAssert_cons (op : BOp) (ops : List BOp) :
    NoAssert (op :: ops) ↔ OpOK op ∧ NoAssert ops := by
  simp only [NoAssert, OpOK, List.mem_cons, forall_eq_or_imp]

private theorem noAssert_nil : NoAssert [] := by
  intro op h; cases h

private theorem apply_ne_err (p : Packet) (op : BOp) (e : Err) : apply p op ≠ .err e := by
  cases op <;> simp only [apply, ne_eq, reduceCtorEq, not_false_eq_true]
  · rename_i n
    rw [setTkl_eq]; split <;> simp [Res.map]
  · rename_i t
    rw [setToken_eq]; split <;> simp

private theorem apply_ok_iff (p : Packet) (op : BOp) : (∃ q, apply p op = .ok q) ↔ OpOK op := by
  cases op <;> simp only [apply, OpOK, reduceCtorEq, false_implies, implies_true, and_self,
    Res.ok.injEq, exists_eq', BOp.tkl.injEq, BOp.tok.injEq, forall_eq', and_true, true_and]
  · rename_i n
    rw [setTkl_eq]; split <;> simp [Res.map, *]
  · rename_i t
    rw [setToken_eq]; split <;> simp [*]

/-- the state of `build`'s fold -/
private def run (r : Res Packet) (ops : List BOp) : Res Packet :=
  ops.foldl (fun r op => r.bind (fun p => apply p op)) r

private theorem build_eq (ops : List BOp) : build ops = run (.ok Packet.new) ops := rfl

private theorem run_cons (r : Res Packet) (op : BOp) (ops : List BOp) :
    run r (op :: ops) = run (r.bind (fun p => apply p op)) ops := rfl

private theorem run_panic (ops : List BOp) : run .panic ops = .panic := by
  induction ops with
  | nil => rfl
  | cons op ops ih => rw [run_cons]; exact ih

private theorem run_err (e : Err) (ops : List BOp) : run (.err e) ops = .err e := by
  induction ops with
  | nil => rfl
  | cons op ops ih => rw [run_cons]; exact ih

private theorem apply_cases (p : Packet) (op : BOp) :
    (∃ q, apply p op = .ok q) ∨ apply p op = .panic := by
  cases h : apply p op with
  | ok q => exact .inl ⟨q, rfl⟩
  | err e => exact absurd h (apply_ne_err p op e)
  | panic => exact .inr rfl

private theorem run_ok_iff (ops : List BOp) (p₀ : Packet) :
    (∃ p, run (.ok p₀) ops = .ok p) ↔ NoAssert ops := by
  induction ops generalizing p₀ with
  | nil => simp [run, noAssert_nil]
  | cons op ops ih =>
    rw [run_cons, noAssert_cons, ← apply_ok_iff p₀ op]
    simp only [Res.bind]
    rcases apply_cases p₀ op with ⟨q, hq⟩ | hq
    · rw [hq, ih q]; simp
    · rw [hq, run_panic]; simp

private theorem run_ne_err (ops : List BOp) (p₀ : Packet) (e : Err) : run (.ok p₀) ops ≠ .err e := by
  induction ops generalizing p₀ with
  | nil => simp [run]
  | cons op ops ih =>
    rw [run_cons]
    simp only [Res.bind]
    rcases apply_cases p₀ op with ⟨q, hq⟩ | hq
    · rw [hq]; exact ih q
    · rw [hq, run_panic]; simp

/-- a call sequence panics only through the token-length assertion -/
theorem build_ok_iff (ops : List BOp) : (∃ p, build ops = .ok p) ↔ NoAssert ops :=
  run_ok_iff ops Packet.new

theorem build_never_err (ops : List BOp) (e : Err) : build ops ≠ .err e :=
  run_ne_err ops Packet.new e

/-! ### the invariant -/

/-- `p` is what the reference semantics says after the calls `r` (newest first) -/
private structure Spec (r : List BOp) (p : Packet) : Prop where
  opts : ∀ n, p.getOption n = refOpts r n
  sorted : p.options.Sorted
  ver : p.header.getVersion = refVer r
  typ : p.header.getType = .ok (refTyp r)
  tkl : p.header.getTkl.toNat = refTkl r
  code : p.header.code = refCode r
  mid : p.header.mid = refMid r
  tok : p.token = refTok r
  pay : p.payload = refPay r

private theorem spec_new : Spec [] Packet.new := by
  refine ⟨fun n => rfl, trivial, ?_, ?_, ?_, rfl, rfl, rfl, rfl⟩
  · decide
  · decide
  · decide

private theorem spec_step (r : List BOp) (p q : Packet) (op : BOp) (hs : Spec r p)
    (h : apply p op = .ok q) : Spec (op :: r) q := by
  obtain ⟨ho, hso, hv, ht, hk, hc, hm, htk, hp⟩ := hs
  cases op with
  | ver v =>
    simp only [apply, Res.ok.injEq] at h; subst h
    exact ⟨fun n => by simpa [refOpts, Packet.getOption] using ho n, hso,
      by simp [refVer, getVersion_setVersion],
      by simpa [refTyp, getType_setVersion] using ht,
      by simpa [refTkl, getTkl_setVersion] using hk,
      by simpa [refCode, Header.setVersion] using hc,
      by simpa [refMid, Header.setVersion] using hm,
      by simpa [refTok] using htk, by simpa [refPay] using hp⟩
  | typ t =>
    simp only [apply, Res.ok.injEq] at h; subst h
    exact ⟨fun n => by simpa [refOpts, Packet.getOption] using ho n, hso,
      by simpa [refVer, getVersion_setType] using hv,
      by simp [refTyp, getType_setType],
      by simpa [refTkl, getTkl_setType] using hk,
      by simpa [refCode, Header.setType] using hc,
      by simpa [refMid, Header.setType] using hm,
      by simpa [refTok] using htk, by simpa [refPay] using hp⟩
  | tkl n =>
    simp only [apply] at h
    rw [setTkl_eq] at h
    split at h
    · rename_i hn
      simp only [Res.map, Res.ok.injEq] at h; subst h
      exact ⟨fun n => by simpa [refOpts, Packet.getOption] using ho n, hso,
        by simpa [refVer, getVersion_withTkl _ _ hn] using hv,
        by simpa [refTyp, getType_withTkl _ _ hn] using ht,
        by simp [refTkl, getTkl_withTkl _ _ hn],
        by simpa [refCode, code_withTkl] using hc,
        by simpa [refMid, mid_withTkl] using hm,
        by simpa [refTok] using htk, by simpa [refPay] using hp⟩
    · simp [Res.map] at h
  | tok t =>
    simp only [apply] at h
    rw [setToken_eq] at h
    split at h
    · rename_i hn
      have hn' : (UInt8.ofNat (t.length % 256)).toNat < 16 := by rw [tokLen_toNat]; exact hn
      simp only [Res.ok.injEq] at h; subst h
      exact ⟨fun n => by simpa [refOpts, Packet.getOption] using ho n, hso,
        by simpa [refVer, getVersion_withTkl _ _ hn'] using hv,
        by simpa [refTyp, getType_withTkl _ _ hn'] using ht,
        by simp [refTkl, getTkl_withTkl _ _ hn'],
        by simpa [refCode, code_withTkl] using hc,
        by simpa [refMid, mid_withTkl] using hm,
        by simp [refTok], by simpa [refPay] using hp⟩
    · simp at h
  | add k v =>
    simp only [apply, Res.ok.injEq] at h; subst h
    refine ⟨fun n => ?_, (Codec.mutators_keep_sorted p hso k v []).1,
      by simpa [refVer, Packet.addOption] using hv,
      by simpa [refTyp, Packet.addOption] using ht,
      by simpa [refTkl, Packet.addOption] using hk,
      by simpa [refCode, Packet.addOption] using hc,
      by simpa [refMid, Packet.addOption] using hm,
      by simpa [refTok, Packet.addOption] using htk, by simpa [refPay, Packet.addOption] using hp⟩
    rw [Codec.addOption_get p hso k n v, ho k, ho n]
    simp [refOpts]
  | set k vs =>
    simp only [apply, Res.ok.injEq] at h; subst h
    refine ⟨fun n => ?_, (Codec.mutators_keep_sorted p hso k [] vs).2.1,
      by simpa [refVer, Packet.setOption] using hv,
      by simpa [refTyp, Packet.setOption] using ht,
      by simpa [refTkl, Packet.setOption] using hk,
      by simpa [refCode, Packet.setOption] using hc,
      by simpa [refMid, Packet.setOption] using hm,
      by simpa [refTok, Packet.setOption] using htk, by simpa [refPay, Packet.setOption] using hp⟩
    have := ho n
    simp only [Packet.getOption] at this
    simp only [Packet.setOption, Packet.getOption, OptMap.get_insert, refOpts, this]
  | clr k =>
    simp only [apply, Res.ok.injEq] at h; subst h
    refine ⟨fun n => ?_, (Codec.mutators_keep_sorted p hso k [] []).2.2.1,
      by simpa [refVer, Packet.clearOption] using hv,
      by simpa [refTyp, Packet.clearOption] using ht,
      by simpa [refTkl, Packet.clearOption] using hk,
      by simpa [refCode, Packet.clearOption] using hc,
      by simpa [refMid, Packet.clearOption] using hm,
      by simpa [refTok, Packet.clearOption] using htk, by simpa [refPay, Packet.clearOption] using hp⟩
    have h1 := ho n
    have h2 := ho k
    simp only [Packet.getOption] at h1 h2
    simp only [Packet.clearOption, Packet.getOption, OptMap.get_modify, refOpts, h1, h2]
  | clrAll =>
    simp only [apply, Res.ok.injEq] at h; subst h
    exact ⟨fun n => by simp [refOpts, Packet.clearAllOptions, Packet.getOption, OptMap.get],
      OptMap.sorted_nil,
      by simpa [refVer, Packet.clearAllOptions] using hv,
      by simpa [refTyp, Packet.clearAllOptions] using ht,
      by simpa [refTkl, Packet.clearAllOptions] using hk,
      by simpa [refCode, Packet.clearAllOptions] using hc,
      by simpa [refMid, Packet.clearAllOptions] using hm,
      by simpa [refTok, Packet.clearAllOptions] using htk,
      by simpa [refPay, Packet.clearAllOptions] using hp⟩
  | code c =>
    simp only [apply, Res.ok.injEq] at h; subst h
    exact ⟨fun n => by simpa [refOpts, Packet.getOption] using ho n, hso,
      by simpa [refVer, Header.getVersion] using hv,
      by simpa [refTyp, Header.getType, Header.typeBits] using ht,
      by simpa [refTkl, Header.getTkl] using hk,
      by simp [refCode],
      by simpa [refMid] using hm,
      by simpa [refTok] using htk, by simpa [refPay] using hp⟩
  | mid m =>
    simp only [apply, Res.ok.injEq] at h; subst h
    exact ⟨fun n => by simpa [refOpts, Packet.getOption] using ho n, hso,
      by simpa [refVer, Header.getVersion] using hv,
      by simpa [refTyp, Header.getType, Header.typeBits] using ht,
      by simpa [refTkl, Header.getTkl] using hk,
      by simpa [refCode] using hc,
      by simp [refMid],
      by simpa [refTok] using htk, by simpa [refPay] using hp⟩
  | pay b =>
    simp only [apply, Res.ok.injEq] at h; subst h
    exact ⟨fun n => by simpa [refOpts, Packet.getOption] using ho n, hso,
      by simpa [refVer] using hv,
      by simpa [refTyp] using ht,
      by simpa [refTkl] using hk,
      by simpa [refCode] using hc,
      by simpa [refMid] using hm,
      by simpa [refTok] using htk, by simp [refPay]⟩

private theorem run_spec (ops : List BOp) (r : List BOp) (p₀ p : Packet) (hs : Spec r p₀)
    (h : run (.ok p₀) ops = .ok p) : Spec (ops.reverse ++ r) p := by
  induction ops generalizing r p₀ with
  | nil =>
    simp only [run, List.foldl_nil, Res.ok.injEq] at h; subst h
    simpa using hs
  | cons op ops ih =>
    rw [run_cons] at h
    simp only [Res.bind] at h
    rcases apply_cases p₀ op with ⟨q, hq⟩ | hq
    · rw [hq] at h
      have := ih (op :: r) q (spec_step r p₀ q op hs hq) h
      simpa [List.reverse_cons, List.append_assoc] using this
    · rw [hq, run_panic] at h; cases h

/-- For every sequence of API calls (any calls, any order, any repetitions): the
resulting packet is exactly what the reference semantics says – per header field
the last value written (fields are independent: writing one never disturbs
another), per option number the values of the calls for that number in order,
cleared options stay as empty entries, and the option map is sorted. `ops.reverse`
because the reference functions read the newest call first. -/
theorem build_spec (ops : List BOp) (p : Packet) (h : build ops = .ok p) :
    (∀ n, p.getOption n = refOpts ops.reverse n) ∧ p.options.Sorted ∧
    p.header.getVersion = refVer ops.reverse ∧
    p.header.getType = .ok (refTyp ops.reverse) ∧
    p.header.getTkl.toNat = refTkl ops.reverse ∧
    p.header.code = refCode ops.reverse ∧ p.header.mid = refMid ops.reverse ∧
    p.token = refTok ops.reverse ∧ p.payload = refPay ops.reverse := by
  have := run_spec ops [] Packet.new p spec_new h
  rw [List.append_nil] at this
  obtain ⟨a, b, c, d, e, f, g, i, j⟩ := this
  exact ⟨a, b, c, d, e, f, g, i, j⟩

/-! ### extensionality -/

private theorem optMap_ext : ∀ (m₁ m₂ : OptMap), m₁.Sorted → m₂.Sorted →
    (∀ n, m₁.get n = m₂.get n) → m₁ = m₂
  | [], [], _, _, _ => rfl
  | [], (k, v) :: _, _, _, h => by
    have := h k; simp [OptMap.get] at this
  | (k, v) :: _, [], _, _, h => by
    have := h k; simp [OptMap.get] at this
  | (k₁, v₁) :: r₁, (k₂, v₂) :: r₂, s₁, s₂, h => by
    obtain ⟨l₁, t₁⟩ := (OptMap.sorted_cons (k₁, v₁) r₁).1 s₁
    obtain ⟨l₂, t₂⟩ := (OptMap.sorted_cons (k₂, v₂) r₂).1 s₂
    have n₁ : OptMap.get r₁ k₁ = none := OptMap.get_none_of_lt l₁
    have n₂ : OptMap.get r₂ k₂ = none := OptMap.get_none_of_lt l₂
    rcases Nat.lt_trichotomy k₁ k₂ with hlt | heq | hgt
    · have := h k₁
      have e : OptMap.get r₂ k₁ = none :=
        OptMap.get_none_of_lt (fun b hb => Nat.lt_trans hlt (l₂ b hb))
      have hne : ¬ k₂ = k₁ := by omega
      simp [OptMap.get, hne, e] at this
    · subst heq
      have hv : v₁ = v₂ := by
        have := h k₁; simpa [OptMap.get] using this
      subst hv
      have : r₁ = r₂ := by
        apply optMap_ext r₁ r₂ t₁ t₂
        intro n
        by_cases hn : n = k₁
        · subst hn; rw [n₁, n₂]
        · have hne : ¬ k₁ = n := fun e => hn e.symm
          have := h n
          simpa [OptMap.get, hne] using this
      rw [this]
    · have := h k₂
      have e : OptMap.get r₁ k₂ = none :=
        OptMap.get_none_of_lt (fun b hb => Nat.lt_trans hgt (l₁ b hb))
      have hne : ¬ k₁ = k₂ := by omega
      simp [OptMap.get, hne, e] at this

private theorem ofBits_eq {x : Nat} {t : MessageType} (h : MessageType.ofBits? x = some t) :
    x = MessageType.toBits t := by
  unfold MessageType.ofBits? at h
  split at h <;> simp at h <;> subst h <;> rfl

private theorem typeBits_of_getType {h : Header} {t : MessageType} (e : h.getType = .ok t) :
    h.typeBits = MessageType.toBits t := by
  unfold Header.getType at e
  split at e
  · rename_i t' ht
    simp only [Res.ok.injEq] at e; subst e
    exact ofBits_eq ht
  · cases e

private theorem header_ext (h₁ h₂ : Header) (hv : h₁.getVersion = h₂.getVersion)
    (t : MessageType) (ht₁ : h₁.getType = .ok t) (ht₂ : h₂.getType = .ok t)
    (hk : h₁.getTkl.toNat = h₂.getTkl.toNat) (hc : h₁.code = h₂.code) (hm : h₁.mid = h₂.mid) :
    h₁ = h₂ := by
  have hb : h₁.typeBits = h₂.typeBits := by
    rw [typeBits_of_getType ht₁, typeBits_of_getType ht₂]
  have hvtt : h₁.vtt = h₂.vtt :=
    vtt_ext _ _ hv (UInt8.toNat_inj.1 hb) (UInt8.toNat_inj.1 hk)
  cases h₁; cases h₂
  simp only [Header.mk.injEq] at *
  exact ⟨hvtt, hc, hm⟩

/-- hence two call sequences with the same reference meaning build packets that
agree on every header field, every option number, token and payload -/
theorem build_order_irrelevant (ops₁ ops₂ : List BOp) (p₁ p₂ : Packet)
    (h₁ : build ops₁ = .ok p₁) (h₂ : build ops₂ = .ok p₂)
    (ho : ∀ n, refOpts ops₁.reverse n = refOpts ops₂.reverse n)
    (hv : refVer ops₁.reverse = refVer ops₂.reverse) (ht : refTyp ops₁.reverse = refTyp ops₂.reverse)
    (hk : refTkl ops₁.reverse = refTkl ops₂.reverse) (hc : refCode ops₁.reverse = refCode ops₂.reverse)
    (hm : refMid ops₁.reverse = refMid ops₂.reverse) (hto : refTok ops₁.reverse = refTok ops₂.reverse)
    (hp : refPay ops₁.reverse = refPay ops₂.reverse) :
    p₁ = p₂ := by
  obtain ⟨a₁, b₁, c₁, d₁, e₁, f₁, g₁, i₁, j₁⟩ := build_spec ops₁ p₁ h₁
  obtain ⟨a₂, b₂, c₂, d₂, e₂, f₂, g₂, i₂, j₂⟩ := build_spec ops₂ p₂ h₂
  have hh : p₁.header = p₂.header :=
    header_ext _ _ (by rw [c₁, c₂, hv]) (refTyp ops₁.reverse) d₁ (by rw [d₂, ht])
      (by rw [e₁, e₂, hk]) (by rw [f₁, f₂, hc]) (by rw [g₁, g₂, hm])
  have hopt : p₁.options = p₂.options :=
    optMap_ext _ _ b₁ b₂ (fun n => by
      have x := a₁ n; have y := a₂ n
      simp only [Packet.getOption] at x y
      rw [x, y, ho n])
  have htok : p₁.token = p₂.token := by rw [i₁, i₂, hto]
  have hpay : p₁.payload = p₂.payload := by rw [j₁, j₂, hp]
  cases p₁; cases p₂
  simp only [Packet.mk.injEq] at *
  exact ⟨hh, htok, hopt, hpay⟩

end Builder
end CoapLite
