import CoapLite.Model.Builder
import CoapLite.Lemmas.CodecFwd
import CoapLite.Lemmas.OptMapExtra

namespace CoapLite
namespace Builder

/-- a call sequence panics only through the token-length assertion -/
theorem build_ok_iff (ops : List BOp) : (∃ p, build ops = .ok p) ↔ NoAssert ops := by
  sorry

theorem build_never_err (ops : List BOp) (e : Err) : build ops ≠ .err e := by
  sorry

/-- For every sequence of API calls (any calls, any order, any repetitions): the
resulting packet is exactly what the reference semantics says – per header field
the last value written (fields are independent: writing one never disturbs
another), per option number the values of the calls for that number in order,
cleared options stay as empty entries, and the option map is sorted. `ops.reverse`
because the reference functions read the newest call first. -/
theorem build_spec (ops : List BOp) (p : Packet) (h : build ops = .ok p) :
    (∀ n, p.getOption n = refOpts ops.reverse n) ∧ p.options.Sorted ∧
    p.header.getVersion = refVer ops.reverse ∧
    p.header.getType = .ok (refTyp ops.reverse) ∧
    p.header.getTkl.toNat = refTkl ops.reverse ∧
    p.header.code = refCode ops.reverse ∧ p.header.mid = refMid ops.reverse ∧
    p.token = refTok ops.reverse ∧ p.payload = refPay ops.reverse := by
  sorry

/-- hence two call sequences with the same reference meaning build packets that
agree on every header field, every option number, token and payload -/
theorem build_order_irrelevant (ops₁ ops₂ : List BOp) (p₁ p₂ : Packet)
    (h₁ : build ops₁ = .ok p₁) (h₂ : build ops₂ = .ok p₂)
    (ho : ∀ n, refOpts ops₁.reverse n = refOpts ops₂.reverse n)
    (hv : refVer ops₁.reverse = refVer ops₂.reverse) (ht : refTyp ops₁.reverse = refTyp ops₂.reverse)
    (hk : refTkl ops₁.reverse = refTkl ops₂.reverse) (hc : refCode ops₁.reverse = refCode ops₂.reverse)
    (hm : refMid ops₁.reverse = refMid ops₂.reverse) (hto : refTok ops₁.reverse = refTok ops₂.reverse)
    (hp : refPay ops₁.reverse = refPay ops₂.reverse) :
    p₁ = p₂ := by
  sorry

end Builder
end CoapLite
