/-
The link-format writer's output parses back to the same content.  Used by
Props/C16.
-/
import CoapLite.Model.LinkFormat
import CoapLite.Lemmas.LinkWrite
import CoapLite.Lemmas.LinkRtWrite
import CoapLite.Lemmas.LinkRtScan

namespace CoapLite.Link

/-- the text a written attribute value stands for -/
def render : AttrSpec → List Char × List Char
  | .plain k v => (k, v)
  | .quoted k v => (k, v)
  | .num k n => (k, Nat.toDigits 10 n)

/-- keys are free of separators (`; , = "`) and whitespace, and non-empty -/
def KeyOk (k : List Char) : Prop :=
  ∀ c ∈ k, c ≠ ';' ∧ c ≠ ',' ∧ c ≠ '=' ∧ c ≠ '"' ∧ isWs c = false

def AttrOk : AttrSpec → Prop
  | .plain k _ => KeyOk k
  | .quoted k _ => KeyOk k
  | .num k _ => KeyOk k

instance : DecidablePred KeyOk := fun k => by unfold KeyOk; exact inferInstance
instance : DecidablePred AttrOk := fun a => by cases a <;> (unfold AttrOk; exact inferInstance)

/-- any target text without '>'; any attribute values -/
def DocWF (d : Doc) : Prop := ∀ l ∈ d, (∀ c ∈ l.1, c ≠ '>') ∧ ∀ a ∈ l.2, AttrOk a

instance : DecidablePred DocWF := fun d => by unfold DocWF; exact inferInstance

/-- what parsing a document yields: `none` if an error item occurs, otherwise
per link the target text and per attribute the key and the unquoted value -/
def content (input : List Char) : Option (List (List Char × List (List Char × List Char))) :=
  (parseLinks input).foldr (fun it acc =>
    match it, acc with
    | .link t a, some rest => some ((t.s, (parseAttrs a).map (fun kv => (kv.1.s, unquote kv.2.s))) :: rest)
    | _, _ => none) (some [])

namespace R

/-! ### small list facts -/

theorem last_snoc (x : List Char) (c : Char) : (x ++ [c]).getLast? = some c := by
  simp [List.getLast?_append]

theorem last_append_ne (x y : List Char) (hy : y ≠ []) : (x ++ y).getLast? = y.getLast? := by
  rw [List.getLast?_append]
  cases h : y.getLast? with
  | none => simp at h; contradiction
  | some e => rfl

theorem last_cons_ne (c : Char) (y : List Char) (hy : y ≠ []) :
    (c :: y).getLast? = y.getLast? := by
  cases y with
  | nil => contradiction
  | cons d ds => exact List.getLast?_cons_cons

theorem take_snoc (x : List Char) (c : Char) (rest : List Char) :
    (x ++ c :: rest).take (x.length + 1) = x ++ [c] := by
  induction x with
  | nil => simp
  | cons e es ih => simpa using ih

theorem takeWhile_stop (p : Char → Bool) (ws : List Char) (c : Char) (r : List Char)
    (hws : ∀ e ∈ ws, p e = true) (hc : p c = false) :
    (ws ++ c :: r).takeWhile p = ws := by
  induction ws with
  | nil => simp [hc]
  | cons e es ih =>
    simp only [List.cons_append]
    rw [List.takeWhile_cons, hws e (by simp)]
    simp only [if_true]
    rw [ih (fun d hd => hws d (List.mem_cons_of_mem _ hd))]

theorem findEq_key (k r : List Char) (hk : ∀ c ∈ k, c ≠ '=') :
    findEq (k ++ '=' :: r) = some k.length := by
  induction k with
  | nil => simp [findEq]
  | cons c cs ih =>
    simp only [List.cons_append, List.length_cons]
    rw [findEq, if_neg (hk c (by simp)), ih (fun d hd => hk d (List.mem_cons_of_mem _ hd))]
    rfl

theorem unquote_plain (s : List Char) (h : ∀ e, s.head? = some e → e ≠ '"') : unquote s = s := by
  unfold unquote
  split
  · exact absurd rfl (h '"' rfl)
  · rfl

/-! ### value text -/

theorem valText_shape (a : AttrSpec) :
    (∃ v, valText a = quote v) ∨ (∀ c ∈ valText a, isAsciiAlnum c = true) := by
  cases a with
  | plain k v =>
    show (∃ w, (if v.any (fun c => !isAsciiAlnum c) then quote v else v) = quote w) ∨
      (∀ c ∈ (if v.any (fun c => !isAsciiAlnum c) then quote v else v), isAsciiAlnum c = true)
    by_cases hv : v.any (fun c => !isAsciiAlnum c) = true
    · rw [if_pos hv]; exact Or.inl ⟨v, rfl⟩
    · rw [if_neg hv]
      right
      intro c hc
      cases hcc : isAsciiAlnum c with
      | true => rfl
      | false =>
        exact absurd (List.any_eq_true.mpr ⟨c, hc, by simp [hcc]⟩) hv
  | quoted k v => exact Or.inl ⟨v, rfl⟩
  | num k n => exact Or.inr (digit_alnum n)

theorem unquote_valText (a : AttrSpec) : unquote (valText a) = (render a).2 := by
  cases a with
  | plain k v =>
    show unquote (if v.any (fun c => !isAsciiAlnum c) then quote v else v) = v
    by_cases hv : v.any (fun c => !isAsciiAlnum c) = true
    · rw [if_pos hv]; exact unquote_quote v
    · rw [if_neg hv]
      apply unquote_plain
      intro e he hq
      subst hq
      have := List.mem_of_head? he
      exact hv (List.any_eq_true.mpr ⟨'"', this, by decide⟩)
  | quoted k v => exact unquote_quote v
  | num k n =>
    show unquote (Nat.toDigits 10 n) = Nat.toDigits 10 n
    apply unquote_plain
    intro e he hq
    subst hq
    have := digit_alnum n _ (List.mem_of_head? he)
    revert this; decide

theorem render_fst (a : AttrSpec) : (render a).1 = keyOf a := by
  cases a <;> rfl

theorem valText_transp (a : AttrSpec) (sep : Char) (h1 : '"' ≠ sep)
    (h2 : ∀ c, isAsciiAlnum c = true → c ≠ sep) : Transp sep (valText a) := by
  rcases valText_shape a with ⟨v, hv⟩ | h
  · rw [hv]; exact Transp.quote h1 v
  · exact Transp.of_all (fun c hc => ⟨h2 c (h c hc), (alnum_props c (h c hc)).2.2.1⟩)

theorem quote_head (v : List Char) : (quote v).head? = some '"' := rfl

theorem quote_last (v : List Char) : (quote v).getLast? = some '"' := by
  unfold quote
  rw [last_cons_ne _ _ (by simp), last_snoc]

theorem valText_head (a : AttrSpec) (e : Char) (h : (valText a).head? = some e) :
    isWs e = false := by
  rcases valText_shape a with ⟨v, hv⟩ | ha
  · rw [hv, quote_head] at h
    cases h; decide
  · exact (alnum_props e (ha e (List.mem_of_head? h))).2.2.2.2

theorem valText_last (a : AttrSpec) (e : Char) (h : (valText a).getLast? = some e) :
    isWs e = false ∧ e ≠ ';' ∧ e ≠ ',' := by
  rcases valText_shape a with ⟨v, hv⟩ | ha
  · rw [hv, quote_last] at h
    cases h; decide
  · have := alnum_props e (ha e (List.mem_of_getLast? h))
    exact ⟨this.2.2.2.2, this.1, this.2.1⟩

/-! ### attribute text `key=value` -/

theorem keyOk_of (a : AttrSpec) (h : AttrOk a) : KeyOk (keyOf a) := by
  cases a <;> exact h

theorem attrText_ne_nil (a : AttrSpec) : attrText a ≠ [] := by
  unfold attrText; simp

theorem attrText_transp_semi (a : AttrSpec) (h : AttrOk a) : Transp ';' (attrText a) := by
  unfold attrText
  refine Transp.append (Transp.of_all fun c hc => ?_) (Transp.cons (by decide) (by decide) ?_)
  · have := keyOk_of a h c hc
    exact ⟨this.1, this.2.2.2.1⟩
  · exact valText_transp a ';' (by decide) (fun c hc => (alnum_props c hc).1)

theorem attrText_transp_comma (a : AttrSpec) (h : AttrOk a) : Transp ',' (attrText a) := by
  unfold attrText
  refine Transp.append (Transp.of_all fun c hc => ?_) (Transp.cons (by decide) (by decide) ?_)
  · have := keyOk_of a h c hc
    exact ⟨this.2.1, this.2.2.2.1⟩
  · exact valText_transp a ',' (by decide) (fun c hc => (alnum_props c hc).2.1)

theorem attrText_last (a : AttrSpec) (e : Char) (h : (attrText a).getLast? = some e) :
    e ≠ ';' ∧ e ≠ ',' := by
  unfold attrText at h
  rw [last_append_ne _ _ (by simp)] at h
  cases hv : valText a with
  | nil =>
    rw [hv] at h
    cases h; decide
  | cons c cs =>
    rw [last_cons_ne _ _ (by rw [hv]; simp)] at h
    exact (valText_last a e h).2

theorem attrText_head (a : AttrSpec) (h : AttrOk a) (rest : List Char) (e : Char)
    (he : (attrText a ++ rest).head? = some e) : e ≠ ';' := by
  unfold attrText at he
  cases hk : keyOf a with
  | nil =>
    rw [hk] at he
    cases he; decide
  | cons c cs =>
    rw [hk] at he
    cases he
    exact (keyOk_of a h e (by rw [hk]; simp)).1

/-! ### attribute blocks -/

/-- `key=value;key=value…` without the leading `;` -/
def body (a : AttrSpec) (as : List AttrSpec) : List Char := attrText a ++ block as

theorem block_cons (a : AttrSpec) (as : List AttrSpec) : block (a :: as) = ';' :: body a as := rfl

theorem body_ne_nil (a : AttrSpec) (as : List AttrSpec) : body a as ≠ [] := by
  unfold body attrText; simp

theorem block_transp_comma (as : List AttrSpec) (h : ∀ a ∈ as, AttrOk a) :
    Transp ',' (block as) := by
  induction as with
  | nil => exact Transp.nil _
  | cons a as ih =>
    rw [block_cons]
    exact Transp.cons (by decide) (by decide)
      (Transp.append (attrText_transp_comma a (h a (by simp)))
        (ih (fun b hb => h b (List.mem_cons_of_mem _ hb))))

theorem body_last (as : List AttrSpec) : ∀ (a : AttrSpec) (e : Char),
    (body a as).getLast? = some e → e ≠ ';' ∧ e ≠ ',' := by
  induction as with
  | nil =>
    intro a e h
    unfold body block at h
    rw [List.append_nil] at h
    exact attrText_last a e h
  | cons b bs ih =>
    intro a e h
    unfold body at h
    rw [block_cons, last_append_ne _ _ (by simp),
      last_cons_ne _ _ (body_ne_nil b bs)] at h
    exact ih b e h

theorem block_last (as : List AttrSpec) (e : Char) (h : (block as).getLast? = some e) :
    e ≠ ',' := by
  cases as with
  | nil => simp [block] at h
  | cons a as =>
    rw [block_cons, last_cons_ne _ _ (body_ne_nil a as)] at h
    exact (body_last as a e h).2

/-- the block with `;` trimmed on both sides -/
theorem block_trim (as : List AttrSpec) (h : ∀ a ∈ as, AttrOk a) :
    dropWhileEnd (fun c => decide (c = ';')) ((block as).dropWhile (fun c => decide (c = ';'))) =
      (block as).drop 1 := by
  cases as with
  | nil => simp [block, dropWhileEnd]
  | cons a as =>
    rw [block_cons, List.dropWhile_cons]
    simp only [decide_true, if_true, List.drop_succ_cons, List.drop_zero]
    rw [dw_id _ _ (fun e he => by
      have := attrText_head a (h a (by simp)) (block as) e he
      simpa using this)]
    exact dwe_id _ _ (fun e he => by
      have := (body_last as a e he).1
      simpa using this)

/-! ### the attribute parser on a written block -/

theorem trimWs_key (k : List Char) (hk : KeyOk k) (off : Nat) :
    ((⟨off, k⟩ : Sl).trimBoth isWs).s = k := by
  show dropWhileEnd isWs (k.dropWhile isWs) = k
  rw [dw_id _ _ (fun e he => (hk e (List.mem_of_head? he)).2.2.2.2)]
  exact dwe_id _ _ (fun e he => (hk e (List.mem_of_getLast? he)).2.2.2.2)

theorem trimWs_val (a : AttrSpec) (off : Nat) :
    ((⟨off, valText a⟩ : Sl).trimBoth isWs).s = valText a := by
  show dropWhileEnd isWs ((valText a).dropWhile isWs) = valText a
  rw [dw_id _ _ (fun e he => valText_head a e he)]
  exact dwe_id _ _ (fun e he => (valText_last a e he).1)

theorem attrNext_out (off : Nat) (a : AttrSpec) (ha : AttrOk a) (tail : List Char)
    (ht : tail = [] ∨ ∃ rest, tail = ';' :: rest) :
    ∃ K V R, attrNext ⟨off, attrText a ++ tail⟩ = (some (K, V), R) ∧
      K.s = keyOf a ∧ V.s = valText a ∧ R.s = tail.drop 1 := by
  have hne : (attrText a ++ tail).isEmpty = false := by
    unfold attrText; simp
  have hfe : findEq (attrText a) = some (keyOf a).length :=
    findEq_key _ _ (fun c hc => (keyOk_of a ha c hc).2.2.1)
  have hlast : ∀ e, (attrText a).getLast? = some e → decide (e = ';') = false := by
    intro e he; simpa using (attrText_last a e he).1
  have htake : dropWhileEnd (fun c => decide (c = ';'))
      ((attrText a ++ tail).take (scanSep ';' (attrText a ++ tail) false)) = attrText a := by
    rcases ht with rfl | ⟨rest, rfl⟩
    · rw [List.append_nil, (attrText_transp_semi a ha).scan_end, List.take_length]
      exact dwe_id _ _ hlast
    · rw [(attrText_transp_semi a ha).scan_sep]
      rw [take_snoc, dwe_snoc _ _ _ (by simp)]
      exact dwe_id _ _ hlast
  have hdrop : (attrText a ++ tail).drop (scanSep ';' (attrText a ++ tail) false) = tail.drop 1 := by
    rcases ht with rfl | ⟨rest, rfl⟩
    · rw [List.append_nil, (attrText_transp_semi a ha).scan_end]; simp
    · rw [(attrText_transp_semi a ha).scan_sep, List.drop_append]; simp
  unfold attrNext
  simp only [hne, Bool.false_eq_true, if_false, Sl.take, Sl.trimEnd, Sl.drop, htake, hfe, hdrop]
  refine ⟨_, _, _, rfl, ?_, ?_, rfl⟩
  · have : (attrText a).take (keyOf a).length = keyOf a := by
      unfold attrText; exact List.take_left
    rw [this]; exact trimWs_key _ (keyOk_of a ha) _
  · have : (attrText a).drop ((keyOf a).length + 1) = valText a := by
      unfold attrText; rw [List.drop_append]; simp
    rw [this]; exact trimWs_val a _

theorem attrAll_nil (fuel off : Nat) : attrAll fuel ⟨off, []⟩ = [] := by
  cases fuel with
  | zero => rfl
  | succ f => rfl

def kvOut (kv : Sl × Sl) : List Char × List Char := (kv.1.s, unquote kv.2.s)

theorem attrAll_body (as : List AttrSpec) : ∀ (a : AttrSpec) (off fuel : Nat),
    (∀ b ∈ a :: as, AttrOk b) → (body a as).length < fuel →
    (attrAll fuel ⟨off, body a as⟩).map kvOut = (a :: as).map render := by
  induction as with
  | nil =>
    intro a off fuel h hf
    cases fuel with
    | zero => omega
    | succ f =>
      obtain ⟨K, V, ⟨ro, rs⟩, hn, hk, hv, hr⟩ := attrNext_out off a (h a (by simp)) [] (Or.inl rfl)
      have hb : body a [] = attrText a ++ [] := rfl
      rw [hb, attrAll, hn]
      simp only [List.drop_nil] at hr
      subst hr
      simp only [attrAll_nil, List.map_cons, List.map_nil, kvOut, hk, hv, unquote_valText]
      rw [← render_fst]
  | cons b bs ih =>
    intro a off fuel h hf
    cases fuel with
    | zero => omega
    | succ f =>
      obtain ⟨K, V, ⟨ro, rs⟩, hn, hk, hv, hr⟩ :=
        attrNext_out off a (h a (by simp)) (block (b :: bs)) (Or.inr ⟨body b bs, rfl⟩)
      have hb : body a (b :: bs) = attrText a ++ block (b :: bs) := rfl
      rw [hb, attrAll, hn]
      simp only [block_cons, List.drop_succ_cons, List.drop_zero] at hr
      subst hr
      have hlen : (body b bs).length < f := by
        rw [hb, block_cons] at hf
        simp only [List.length_append, List.length_cons] at hf
        omega
      simp only [List.map_cons]
      rw [ih b ro f (fun c hc => h c (List.mem_cons_of_mem _ hc)) hlen]
      simp only [kvOut, hk, hv, unquote_valText, List.map_cons]
      rw [← render_fst]

theorem parseAttrs_block (as : List AttrSpec) (h : ∀ a ∈ as, AttrOk a) (A : Sl)
    (hA : A.s = (block as).drop 1) : (parseAttrs A).map kvOut = as.map render := by
  obtain ⟨ao, s⟩ := A
  simp only at hA
  subst hA
  unfold parseAttrs
  cases as with
  | nil => simp [block, attrAll_nil]
  | cons a as =>
    simp only [block_cons, List.drop_succ_cons, List.drop_zero]
    exact attrAll_body as a ao _ h (Nat.lt_succ_self _)

/-! ### the link parser on a written link -/

theorem linkNext_out (off : Nat) (ws t : List Char) (as : List AttrSpec) (tail : List Char)
    (hws : ∀ c ∈ ws, isAsciiWs c = true) (ht : ∀ c ∈ t, c ≠ '>') (has : ∀ a ∈ as, AttrOk a)
    (htail : tail = [] ∨ ∃ rest, tail = ',' :: rest) :
    ∃ T A R, linkNext ⟨off, ws ++ (outLink (t, as) ++ tail)⟩ = (some (.link T A), R) ∧
      T.s = t ∧ A.s = (block as).drop 1 ∧ R.s = tail.drop 1 := by
  have hshape : ws ++ (outLink (t, as) ++ tail) = ws ++ '<' :: (t ++ '>' :: (block as ++ tail)) := by
    simp [outLink]
  rw [hshape]
  have hne : (ws ++ '<' :: (t ++ '>' :: (block as ++ tail))).isEmpty = false := by simp
  have htw : (ws ++ '<' :: (t ++ '>' :: (block as ++ tail))).takeWhile isAsciiWs = ws :=
    takeWhile_stop _ _ _ _ hws (by decide)
  have hgt : scanGt (t ++ '>' :: (block as ++ tail)) = t.length + 1 := scanGt_target _ _ ht
  have htgt : dropWhileEnd (fun c => decide (c = '>'))
      ((t ++ '>' :: (block as ++ tail)).take (t.length + 1)) = t := by
    rw [take_snoc, dwe_snoc _ _ _ (by simp)]
    exact dwe_id _ _ (fun e he => by simpa using ht e (List.mem_of_getLast? he))
  have hak : (t ++ '>' :: (block as ++ tail)).drop (t.length + 1) = block as ++ tail := by
    rw [List.drop_append]; simp
  have hlast : ∀ e, (block as).getLast? = some e → decide (e = ',') = false := by
    intro e he; simpa using block_last as e he
  have htake : dropWhileEnd (fun c => decide (c = ','))
      ((block as ++ tail).take (scanSep ',' (block as ++ tail) false)) = block as := by
    rcases htail with rfl | ⟨rest, rfl⟩
    · rw [List.append_nil, (block_transp_comma as has).scan_end, List.take_length]
      exact dwe_id _ _ hlast
    · rw [(block_transp_comma as has).scan_sep]
      rw [take_snoc, dwe_snoc _ _ _ (by simp)]
      exact dwe_id _ _ hlast
  have hdrop : (block as ++ tail).drop (scanSep ',' (block as ++ tail) false) = tail.drop 1 := by
    rcases htail with rfl | ⟨rest, rfl⟩
    · rw [List.append_nil, (block_transp_comma as has).scan_end]; simp
    · rw [(block_transp_comma as has).scan_sep, List.drop_append]; simp
  unfold linkNext
  simp only [hne, Bool.false_eq_true, if_false, htw, Sl.drop, Sl.take, Sl.trimEnd, Sl.trimBoth,
    Sl.trimStart, List.drop_left, ne_eq, not_true_eq_false, List.drop_succ_cons, List.drop_zero,
    hgt, htgt, hak, htake, hdrop]
  exact ⟨_, _, _, rfl, rfl, block_trim as has, rfl⟩

/-! ### the document -/

theorem linkAll_nil (fuel off : Nat) : linkAll fuel ⟨off, []⟩ = [] := by
  cases fuel with
  | zero => rfl
  | succ f => rfl

/-- the folding step of `content` -/
def stepC (it : Item) (acc : Option (List (List Char × List (List Char × List Char)))) :
    Option (List (List Char × List (List Char × List Char))) :=
  match it, acc with
  | .link t a, some rest => some ((t.s, (parseAttrs a).map kvOut) :: rest)
  | _, _ => none

theorem content_eq (input : List Char) :
    content input = (parseLinks input).foldr stepC (some []) := rfl

def linkOut (l : List Char × List AttrSpec) : List Char × List (List Char × List Char) :=
  (l.1, l.2.map render)

theorem wsOf_ws (nl : Bool) : ∀ c ∈ wsOf nl, isAsciiWs c = true := by
  cases nl <;> decide

theorem linkAll_doc (nl : Bool) (d : Doc) : ∀ (l : List Char × List AttrSpec) (ws : List Char)
    (off fuel : Nat), (∀ c ∈ ws, isAsciiWs c = true) → DocWF (l :: d) →
    (ws ++ (outLink l ++ sepText nl d)).length < fuel →
    (linkAll fuel ⟨off, ws ++ (outLink l ++ sepText nl d)⟩).foldr stepC (some []) =
      some ((l :: d).map linkOut) := by
  induction d with
  | nil =>
    intro l ws off fuel hws hwf hf
    cases fuel with
    | zero => omega
    | succ f =>
      obtain ⟨t, as⟩ := l
      have hl := hwf (t, as) (by simp)
      obtain ⟨T, A, ⟨ro, rs⟩, hn, hT, hA, hR⟩ :=
        linkNext_out off ws t as [] hws hl.1 hl.2 (Or.inl rfl)
      simp only [List.drop_nil] at hR
      subst hR
      have hs : sepText nl [] = [] := rfl
      rw [hs, linkAll, hn]
      simp only [linkAll_nil, List.foldr_cons, List.foldr_nil, stepC, hT,
        parseAttrs_block as hl.2 A hA, List.map_cons, List.map_nil, linkOut]
  | cons l' d ih =>
    intro l ws off fuel hws hwf hf
    cases fuel with
    | zero => omega
    | succ f =>
      obtain ⟨t, as⟩ := l
      have hl := hwf (t, as) (by simp)
      have hs : sepText nl (l' :: d) = ',' :: (wsOf nl ++ (outLink l' ++ sepText nl d)) := rfl
      obtain ⟨T, A, ⟨ro, rs⟩, hn, hT, hA, hR⟩ :=
        linkNext_out off ws t as (sepText nl (l' :: d)) hws hl.1 hl.2 (Or.inr ⟨_, hs⟩)
      rw [hs] at hR
      simp only [List.drop_succ_cons, List.drop_zero] at hR
      subst hR
      have hlen : (wsOf nl ++ (outLink l' ++ sepText nl d)).length < f := by
        rw [hs] at hf
        simp only [List.length_append, List.length_cons] at hf ⊢
        omega
      rw [linkAll, hn]
      simp only [List.foldr_cons]
      rw [ih l' (wsOf nl) ro f (wsOf_ws nl) (fun x hx => hwf x (List.mem_cons_of_mem _ hx)) hlen]
      simp only [stepC, hT, parseAttrs_block as hl.2 A hA, List.map_cons, linkOut]

end R

theorem parse_write (nl : Bool) (d : Doc) (h : DocWF d) :
    content (writeDoc noFault nl d).sink = some (d.map (fun l => (l.1, l.2.map render))) := by
  rw [R.writeDoc_sink, R.content_eq]
  cases d with
  | nil => rfl
  | cons l d =>
    unfold parseLinks
    have := R.linkAll_doc nl d l [] 0 ((R.outDoc nl (l :: d)).length + 1) (by simp) h
      (Nat.lt_succ_self _)
    exact this

end CoapLite.Link
