/-
The link-format writer's output parses back to the same content.  Used by
Props/C16.
-/
import CoapLite.Model.LinkFormat
import CoapLite.Lemmas.LinkWrite

namespace CoapLite.Link

/-- the text a written attribute value stands for -/
def render : AttrSpec → List Char × List Char
  | .plain k v => (k, v)
  | .quoted k v => (k, v)
  | .num k n => (k, Nat.toDigits 10 n)

/-- keys are free of separators (`; , = "`) and whitespace, and non-empty -/
def KeyOk (k : List Char) : Prop :=
  ∀ c ∈ k, c ≠ ';' ∧ c ≠ ',' ∧ c ≠ '=' ∧ c ≠ '"' ∧ isWs c = false

def AttrOk : AttrSpec → Prop
  | .plain k _ => KeyOk k
  | .quoted k _ => KeyOk k
  | .num k _ => KeyOk k

instance : DecidablePred KeyOk := fun k => by unfold KeyOk; exact inferInstance
instance : DecidablePred AttrOk := fun a => by cases a <;> (unfold AttrOk; exact inferInstance)

/-- any target text without '>'; any attribute values -/
def DocWF (d : Doc) : Prop := ∀ l ∈ d, (∀ c ∈ l.1, c ≠ '>') ∧ ∀ a ∈ l.2, AttrOk a

instance : DecidablePred DocWF := fun d => by unfold DocWF; exact inferInstance

/-- what parsing a document yields: `none` if an error item occurs, otherwise
per link the target text and per attribute the key and the unquoted value -/
def content (input : List Char) : Option (List (List Char × List (List Char × List Char))) :=
  (parseLinks input).foldr (fun it acc =>
    match it, acc with
    | .link t a, some rest => some ((t.s, (parseAttrs a).map (fun kv => (kv.1.s, unquote kv.2.s))) :: rest)
    | _, _ => none) (some [])

theorem parse_write (nl : Bool) (d : Doc) (h : DocWF d) :
    content (writeDoc noFault nl d).sink = some (d.map (fun l => (l.1, l.2.map render))) := by
  sorry

end CoapLite.Link
