/-
The low-level link-format parsers (`Model/LinkLow.lean`: byte offsets from pointer differences, `&str`
slicing that panics off a character boundary) compute exactly the high-level ones (`Model/LinkFormat.lean`)
for every input; hence they never panic.
-/
import CoapLite.Model.LinkLow

namespace CoapLite
namespace LinkLow
open Link

theorem blen_append (a b : List Char) : blen (a ++ b) = blen a + blen b := by
  induction a with
  | nil => simp [blen]
  | cons c a ih => simp only [List.cons_append, blen, ih]; omega

theorem blen_take_drop (l : List Char) (n : Nat) : blen (l.take n) + blen (l.drop n) = blen l := by
  rw [← blen_append, List.take_append_drop]

theorem sliceTo_append (a b : List Char) : sliceTo (a ++ b) (blen a) = .ok a := by
  induction a with
  | nil => cases b <;> simp [sliceTo, blen]
  | cons c a ih =>
    have hp := Char.utf8Size_pos c
    simp only [List.cons_append, sliceTo, blen]
    rw [if_neg (by omega), if_pos (by omega)]
    have : c.utf8Size + blen a - c.utf8Size = blen a := by omega
    rw [this, ih]
    rfl

theorem sliceFrom_append (a b : List Char) : sliceFrom (a ++ b) (blen a) = .ok b := by
  induction a with
  | nil => cases b <;> simp [sliceFrom, blen]
  | cons c a ih =>
    have hp := Char.utf8Size_pos c
    simp only [List.cons_append, sliceFrom, blen]
    rw [if_neg (by omega), if_pos (by omega)]
    have : c.utf8Size + blen a - c.utf8Size = blen a := by omega
    rw [this, ih]

/-- slicing at the byte length of a character prefix is the prefix -/
theorem sliceTo_take (l : List Char) (n : Nat) : sliceTo l (blen (l.take n)) = .ok (l.take n) := by
  have := sliceTo_append (l.take n) (l.drop n)
  rwa [List.take_append_drop] at this

theorem sliceFrom_take (l : List Char) (n : Nat) : sliceFrom l (blen (l.take n)) = .ok (l.drop n) := by
  have := sliceFrom_append (l.take n) (l.drop n)
  rwa [List.take_append_drop] at this

/-- a pointer difference between a string and one of its suffixes is the byte length of the prefix -/
theorem subW_drop (l : List Char) (n : Nat) : subW (blen l) (blen (l.drop n)) = .ok (blen (l.take n)) := by
  have := blen_take_drop l n
  unfold subW
  rw [if_pos (by omega)]
  congr 1
  omega

theorem gtLoop_eq (l : List Char) : gtLoop l = l.drop (scanGt l) := by
  induction l with
  | nil => rfl
  | cons c cs ih =>
    simp only [gtLoop, scanGt]
    split
    · simp
    · rw [ih, Nat.add_comm]; rfl

theorem sepLoop_eq (sep : Char) (l : List Char) (q : Bool) :
    sepLoop sep l q = l.drop (scanSep sep l q) := by
  fun_induction scanSep sep l q
  all_goals (first | (simp_all [sepLoop]; done) | skip)
  all_goals (first | (simp only [sepLoop, *, ↓reduceIte]; rw [Nat.add_comm]; rfl) | (unfold sepLoop; simp [*]; try (rw [Nat.add_comm]; rfl)) | trace_state)

theorem wsLoop_eq (l : List Char) :
    wsLoop l = match l.drop (l.takeWhile isAsciiWs).length with
      | [] => .eof
      | c :: cs => if c = '<' then .lt cs else .err := by
  induction l with
  | nil => rfl
  | cons c cs ih =>
    simp only [wsLoop, List.takeWhile_cons]
    by_cases hw : isAsciiWs c = true
    · simp only [hw, ↓reduceIte, List.length_cons, List.drop_succ_cons]
      exact ih
    · simp only [hw, Bool.false_eq_true, ↓reduceIte, List.length_nil, List.drop_zero]

theorem findByte_eq (l : List Char) :
    findByte '=' l = (findEq l).map (fun i => blen (l.take i)) := by
  induction l with
  | nil => rfl
  | cons c cs ih =>
    simp only [findByte, findEq]
    split
    · simp [blen]
    · rw [ih]
      cases findEq cs with
      | none => rfl
      | some i => simp [blen, Nat.add_comm]

theorem findEq_spec : ∀ (l : List Char) (i : Nat), findEq l = some i → (l.drop i).head? = some '=' := by
  intro l
  induction l with
  | nil => intro i h; simp [findEq] at h
  | cons c cs ih =>
    intro i h
    simp only [findEq] at h
    split at h
    · rename_i hc
      simp only [Option.some.injEq] at h
      subst h
      simp [hc]
    · cases hf : findEq cs with
      | none => rw [hf] at h; simp at h
      | some j =>
        rw [hf] at h
        simp only [Option.map_some, Option.some.injEq] at h
        subst h
        simpa using ih j hf

theorem trimBoth_s (x : Sl) (p : Char → Bool) : (x.trimBoth p).s = trimBoth p x.s := rfl

/-- `LinkFormatParser::next`, low level = high level, for every input -/
theorem linkNextLow_eq (inner : Sl) :
    linkNextLow inner.s = .ok ((linkNext inner).1.map itemChars, (linkNext inner).2.s) := by
  unfold linkNextLow linkNext
  by_cases he : inner.s.isEmpty = true
  · simp [he]
  · simp only [he, Bool.false_eq_true, ↓reduceIte, wsLoop_eq, Sl.drop]
    cases hd : List.drop (List.takeWhile isAsciiWs inner.s).length inner.s with
    | nil => simp
    | cons c cs =>
      simp only
      by_cases hc : c = '<'
      · subst hc
        simp only [↓reduceIte, ne_eq, not_true_eq_false, List.drop_succ_cons, List.drop_zero]
        rw [gtLoop_eq, subW_drop]
        simp only
        rw [sliceTo_take]
        simp only
        rw [sepLoop_eq, subW_drop]
        simp only
        rw [sliceTo_take]
        simp [itemChars, Sl.take, Sl.trimEnd, Sl.trimBoth, Sl.trimStart, trimBoth, Sl.drop]
      · simp [hc, itemChars]

theorem sliceFrom_zero (l : List Char) : sliceFrom l 0 = .ok l := by
  cases l <;> simp [sliceFrom]

theorem splitAt_take (l : List Char) (i : Nat) :
    splitAt l (blen (l.take i)) = .ok (l.take i, l.drop i) := by
  unfold splitAt
  rw [sliceTo_take, sliceFrom_take]

/-- `&value[1..]` where `value` starts at the `=` that `find` located -/
theorem sliceFrom_one (l : List Char) (i : Nat) (h : (l.drop i).head? = some '=') :
    sliceFrom (l.drop i) 1 = .ok (l.drop (i + 1)) := by
  cases hd : l.drop i with
  | nil => rw [hd] at h; simp at h
  | cons c rest =>
    rw [hd] at h
    simp only [List.head?_cons, Option.some.injEq] at h
    subst h
    have hr : l.drop (i + 1) = rest := by
      rw [← List.drop_drop, hd]; rfl
    rw [hr]
    simp only [sliceFrom]
    rw [if_neg (by omega), if_pos (by decide)]
    exact sliceFrom_zero rest

/-- `LinkAttributeParser::next`, low level = high level, for every input -/
theorem attrNextLow_eq (inner : Sl) :
    attrNextLow inner.s =
      .ok ((attrNext inner).1.map (fun kv => (kv.1.s, kv.2.s)), (attrNext inner).2.s) := by
  unfold attrNextLow attrNext
  by_cases he : inner.s.isEmpty = true
  · simp [he]
  · simp only [he, Bool.false_eq_true, ↓reduceIte]
    rw [sepLoop_eq, subW_drop]
    simp only
    rw [sliceTo_take]
    simp only [findByte_eq, Sl.take, Sl.trimEnd]
    cases hf : findEq (dropWhileEnd (fun x => decide (x = ';')) (List.take (scanSep ';' inner.s false) inner.s)) with
    | none => simp [Sl.trimBoth, Sl.trimStart, Sl.trimEnd, trimBoth, Sl.drop]
    | some i =>
      simp only [Option.map_some]
      rw [splitAt_take]
      simp only
      rw [sliceFrom_one _ _ (findEq_spec _ _ hf)]
      simp [Sl.trimBoth, Sl.trimStart, Sl.trimEnd, trimBoth, Sl.drop, Sl.take]

theorem linkAllLow_eq : ∀ (fuel : Nat) (inner : Sl),
    linkAllLow fuel inner.s = .ok ((linkAll fuel inner).map itemChars) := by
  intro fuel
  induction fuel with
  | zero => intro inner; rfl
  | succ n ih =>
    intro inner
    simp only [linkAllLow, linkAll, linkNextLow_eq]
    rcases hn : linkNext inner with ⟨o, inner'⟩
    cases o with
    | none => simp
    | some it =>
      simp only [Option.map_some]
      rw [ih inner']
      rfl

theorem attrAllLow_eq : ∀ (fuel : Nat) (inner : Sl),
    attrAllLow fuel inner.s = .ok ((attrAll fuel inner).map (fun kv => (kv.1.s, kv.2.s))) := by
  intro fuel
  induction fuel with
  | zero => intro inner; rfl
  | succ n ih =>
    intro inner
    simp only [attrAllLow, attrAll, attrNextLow_eq]
    rcases hn : attrNext inner with ⟨o, inner'⟩
    cases o with
    | none => simp
    | some kv =>
      simp only [Option.map_some]
      rw [ih inner']
      rfl

/-! ### `Unquote::to_cow` -/

theorem findByte_isSome (ch : Char) (l : List Char) : (findByte ch l).isSome = l.contains ch := by
  induction l with
  | nil => rfl
  | cons c cs ih =>
    by_cases h : c = ch
    · subst h
      simp only [findByte, ↓reduceIte, Option.isSome_some, List.contains_cons, BEq.rfl, Bool.true_or]
    · have h' : (ch == c) = false := by
        rw [beq_eq_false_iff_ne]; exact fun e => h e.symm
      simp only [findByte, h, ↓reduceIte, Option.isSome_map, ih, List.contains_cons, h', Bool.false_or]

theorem findByte_takeWhile (ch : Char) : ∀ (l : List Char),
    (∀ e, findByte ch l = some e → e = blen (l.takeWhile (fun x => decide (x ≠ ch)))) ∧
    (findByte ch l = none → l.takeWhile (fun x => decide (x ≠ ch)) = l) := by
  intro l
  induction l with
  | nil => exact ⟨by intro e h; simp [findByte] at h, by intro _; rfl⟩
  | cons c cs ih =>
    by_cases h : c = ch
    · subst h
      have ht : List.takeWhile (fun x => decide (x ≠ c)) (c :: cs) = [] := by
        rw [List.takeWhile_cons]; simp
      refine ⟨?_, by intro hn; simp [findByte] at hn⟩
      intro e he
      simp only [findByte, ↓reduceIte, Option.some.injEq] at he
      rw [ht, ← he]; rfl
    · have ht : List.takeWhile (fun x => decide (x ≠ ch)) (c :: cs) =
          c :: List.takeWhile (fun x => decide (x ≠ ch)) cs := by
        rw [List.takeWhile_cons]; simp [h]
      constructor
      · intro e he
        simp only [findByte, h, ↓reduceIte] at he
        cases hf : findByte ch cs with
        | none => rw [hf] at he; simp at he
        | some e' =>
          rw [hf] at he
          simp only [Option.map_some, Option.some.injEq] at he
          rw [ht, ← he, ih.1 e' hf]
          simp only [blen]
          omega
      · intro hn
        simp only [findByte, h, ↓reduceIte, Option.map_eq_none_iff] at hn
        rw [ht, ih.2 hn]

theorem sliceTo_takeWhile (p : Char → Bool) (l : List Char) :
    sliceTo l (blen (l.takeWhile p)) = .ok (l.takeWhile p) := by
  have := sliceTo_append (l.takeWhile p) (l.dropWhile p)
  rwa [List.takeWhile_append_dropWhile] at this

theorem cut_at_quote (b : List Char) :
    (match findByte '"' b with
      | some e => sliceTo b e
      | none => Res.ok b) = .ok (b.takeWhile (fun x => decide (x ≠ '"'))) := by
  obtain ⟨h1, h2⟩ := findByte_takeWhile '"' b
  cases hf : findByte '"' b with
  | none => simp only; rw [h2 hf]
  | some e => simp only; rw [h1 e hf]; exact sliceTo_takeWhile _ b

/-- `to_cow()`, low level = high level, in every state of the iterator and for every remaining string -/
theorem toCowLow_eq (u : Uq) : toCowLow u = .ok u.toCow := by
  unfold toCowLow Uq.toCow
  by_cases hq : u.isQuoted = true
  · rw [if_pos hq, if_pos hq, findByte_isSome]
    by_cases hb : u.inner.contains '\\' = true
    · rw [if_pos hb, if_pos hb]
    · rw [if_neg hb, if_neg hb]
      cases hs : u.state with
      | notStarted =>
        -- quoted and not started: the string starts with the opening quote (one byte)
        have hstart : ∃ cs, u.inner = '"' :: cs := by
          unfold Uq.isQuoted at hq
          rw [hs] at hq
          change Link.isQuoted u.inner = true at hq
          unfold Link.isQuoted at hq
          split at hq
          · rename_i cs hi; exact ⟨cs, hi⟩
          · simp at hq
        obtain ⟨cs, hcs⟩ := hstart
        rw [hcs]
        have h1 : sliceFrom ('"' :: cs) 1 = .ok cs := by
          simp only [sliceFrom]
          rw [if_neg (by omega), if_pos (by decide)]
          exact sliceFrom_zero cs
        simp only [h1, List.drop_succ_cons, List.drop_zero]
        exact cut_at_quote cs
      | notQuoted => exact cut_at_quote u.inner
      | quoted => exact cut_at_quote u.inner
  · rw [if_neg hq, if_neg hq]

end LinkLow
end CoapLite
