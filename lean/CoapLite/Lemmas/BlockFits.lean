/-
Block-wise messages fit the size budget (C10): inserting a block option adds at
most 5 bytes to the wire image, so a fragment whose block size was negotiated
against `overhead + 12` encodes within the budget.
-/
import CoapLite.Lemmas.BlockArith
import CoapLite.Lemmas.CodecFwd
import CoapLite.Lemmas.OptMapExtra

namespace CoapLite.Block
open Codec Spec

/-- inserting one option instance with a short value (no extended length) and a
number below 269 (at most one extended-delta byte) into a sorted option map that
does not have that number yet grows the encoded options by at most
`2 + |v|` bytes: one header byte, at most one extended-delta byte, the value –
and the delta of the following option only shrinks -/
theorem optsLen_insert_le (m : OptMap) (n : Nat) (v : Bytes)
    (hs : m.Sorted) (hk : ∀ kv ∈ m, kv.1 ≤ 65535) (hg : m.get n = none)
    (hv : v.length ≤ 12) (hn : n < 269) :
    wireOptsLen 0 (m.insert n [v]).flatten ≤ wireOptsLen 0 m.flatten + 2 + v.length := by
  sorry

/-- the size the handler measures: the message without its payload -/
theorem computeMessageSize_eq (p : Packet) (size : Nat) (h : computeMessageSize p = .ok size) :
    size = wireLen (toMsg { p with payload := [] }) + p.payload.length := by
  sorry

/-- wire length of a message after a block option (value of at most 3 bytes,
option number 23 or 27) is set and a payload `pl` is put in: at most the
payload-free length plus 5 (option) plus 1 (marker) plus `|pl|` -/
theorem wireLen_block_message (p : Packet) (n : Nat) (v pl : Bytes)
    (hs : p.options.Sorted) (hk : ∀ kv ∈ p.options, kv.1 ≤ 65535)
    (hg : p.getOption n = none) (hv : v.length ≤ 3) (hn : n = block1Num ∨ n = block2Num) :
    wireLen (toMsg { (p.setOption n [v]) with payload := pl }) ≤
      wireLen (toMsg { p with payload := [] }) + 5 + 1 + pl.length := by
  sorry

/-- encoded block values are at most 3 bytes long -/
theorem enc_length_le_3 (b : BlockValue) (hb : BvOk b) (bs : Bytes) (h : b.enc = .ok bs) :
    bs.length ≤ 3 := by
  sorry

/-- a fragment fits: if the block size was negotiated for a message `p` (payload
`p.payload`, no block option yet) under budget `M` with at least 16 bytes of
block budget, then `p` with the block option set and any chunk of at most the
negotiated size encodes within `M` -/
theorem fragment_fits (p : Packet) (lb : Option BlockValue) (M size : Nat) (b : BlockValue)
    (n : Nat) (bs chunk : Bytes)
    (hs : p.options.Sorted) (hk : ∀ kv ∈ p.options, kv.1 ≤ 65535)
    (hg : p.getOption n = none) (hn : n = block1Num ∨ n = block2Num)
    (hlb : ∀ r, lb = some r → BvOk r)
    (hsz : computeMessageSize p = .ok size)
    (hneg : negotiate lb size p.payload.length M = .ok (some b))
    (h16 : 16 ≤ blockBudget size p.payload.length M)
    (hbs : ({ b with more := true } : BlockValue).enc = .ok bs ∨ ({ b with more := false } : BlockValue).enc = .ok bs)
    (hc : chunk.length ≤ b.size) :
    wireLen (toMsg { (p.setOption n [bs]) with payload := chunk }) ≤ M := by
  sorry

/-- a response the handler leaves unfragmented fits the budget too -/
theorem unfragmented_fits (p : Packet) (M size : Nat)
    (hsz : computeMessageSize p = .ok size)
    (hneg : negotiate none size p.payload.length M = .ok none) :
    wireLen (toMsg p) ≤ M := by
  sorry

end CoapLite.Block
