/-
Block-wise messages fit the size budget (C10): inserting a block option adds at
most 5 bytes to the wire image, so a fragment whose block size was negotiated
against `overhead + 12` encodes within the budget.
-/
import CoapLite.Lemmas.BlockArith
import CoapLite.Lemmas.CodecFwd
import CoapLite.Lemmas.OptMapExtra

namespace CoapLite.Block
open Codec Spec

theorem fieldLen_mono {a b : Nat} (h : a ≤ b) : fieldLen a ≤ fieldLen b := by
  unfold fieldLen
  split <;> split <;> (try split) <;> (try split) <;> omega

theorem fieldLen_le_one {a : Nat} (h : a < 269) : fieldLen a ≤ 1 := by
  unfold fieldLen
  split <;> (try split) <;> omega

theorem fieldLen_small {a : Nat} (h : a ≤ 12) : fieldLen a = 0 := by
  unfold fieldLen
  split <;> omega

/-- moving the running option number closer to the head only shrinks the encoding -/
theorem wireOptsLen_prev_mono (os : List (Nat × Bytes)) (prev n : Nat) (hp : prev ≤ n)
    (h : ∀ o ∈ os, n ≤ o.1) : wireOptsLen n os ≤ wireOptsLen prev os := by
  cases os with
  | nil => simp [wireOptsLen]
  | cons o rest =>
    obtain ⟨k, w⟩ := o
    have hk : n ≤ k := h (k, w) (by simp)
    have := fieldLen_mono (a := k - n) (b := k - prev) (by omega)
    simp only [wireOptsLen]
    omega

/-- instances of one option number followed by further options -/
theorem wireOptsLen_map_append (k : Nat) (vs : List Bytes) (os : List (Nat × Bytes)) :
    wireOptsLen k (vs.map (fun v => (k, v)) ++ os) =
      wireOptsLen k (vs.map (fun v => (k, v))) + wireOptsLen k os := by
  induction vs with
  | nil => simp [wireOptsLen]
  | cons v vs ih =>
    simp only [List.map_cons, List.cons_append, wireOptsLen, ih]
    omega

theorem optsLen_insert_le_aux (v : Bytes) (n : Nat) (hv : v.length ≤ 12) (hn : n < 269) :
    ∀ (m : OptMap) (prev : Nat), m.Sorted → prev ≤ n → (∀ kv ∈ m, prev ≤ kv.1) → m.get n = none →
      wireOptsLen prev (m.insert n [v]).flatten ≤ wireOptsLen prev m.flatten + 2 + v.length := by
  intro m
  induction m with
  | nil =>
    intro prev _ hp _ _
    have h1 := fieldLen_le_one (a := n - prev) (by omega)
    have h2 := fieldLen_small hv
    simp [OptMap.insert, OptMap.flatten, wireOptsLen]
    omega
  | cons kv rest ih =>
    intro prev hs hp hge hg
    obtain ⟨k, vs⟩ := kv
    have hs' := (OptMap.X.sorted_cons k vs rest).1 hs
    have hkn : ¬ k = n := by
      intro h; simp [OptMap.get, h] at hg
    have hg' : OptMap.get rest n = none := by
      simpa [OptMap.get, hkn] using hg
    by_cases hlt : n < k
    · -- new entry in front
      have h1 := fieldLen_le_one (a := n - prev) (by omega)
      have h2 := fieldLen_small hv
      have hmono := wireOptsLen_prev_mono (OptMap.flatten ((k, vs) :: rest)) prev n hp (by
        intro o ho
        obtain ⟨kv, hkv, hk⟩ := OptMap.X.mem_flatten_key _ o ho
        rcases List.mem_cons.1 hkv with h | h
        · subst h; simp at hk; omega
        · have := hs'.1 kv h; omega)
      have hins : OptMap.insert ((k, vs) :: rest) n [v] = (n, [v]) :: (k, vs) :: rest := by
        simp [OptMap.insert, hlt]
      rw [hins, OptMap.X.flatten_cons]
      simp only [List.map_cons, List.map_nil, List.cons_append, List.nil_append, wireOptsLen]
      omega
    · have hgt : k < n := by omega
      have hne : ¬ n = k := by omega
      have hins : OptMap.insert ((k, vs) :: rest) n [v] = (k, vs) :: OptMap.insert rest n [v] := by
        simp [OptMap.insert, hlt, hne]
      rw [hins, OptMap.X.flatten_cons, OptMap.X.flatten_cons]
      have hpk : prev ≤ k := hge (k, vs) (by simp)
      cases vs with
      | nil =>
        simp only [List.map_nil, List.nil_append]
        exact ih prev hs'.2 hp (fun kv hkv => hge kv (by simp [hkv])) hg'
      | cons w ws =>
        have ih' := ih k hs'.2 (by omega) (fun kv hkv => by have := hs'.1 kv hkv; omega) hg'
        simp only [List.map_cons, List.cons_append, wireOptsLen, wireOptsLen_map_append]
        omega

/-- inserting one option instance with a short value (no extended length) and a
number below 269 (at most one extended-delta byte) into a sorted option map that
does not have that number yet grows the encoded options by at most
`2 + |v|` bytes: one header byte, at most one extended-delta byte, the value –
and the delta of the following option only shrinks -/
theorem optsLen_insert_le (m : OptMap) (n : Nat) (v : Bytes)
    (hs : m.Sorted) (hk : ∀ kv ∈ m, kv.1 ≤ 65535) (hg : m.get n = none)
    (hv : v.length ≤ 12) (hn : n < 269) :
    wireOptsLen 0 (m.insert n [v]).flatten ≤ wireOptsLen 0 m.flatten + 2 + v.length :=
  optsLen_insert_le_aux v n hv hn m 0 hs (Nat.zero_le _) (fun _ _ => Nat.zero_le _) hg

/-- closed form of the wire length of a packet's abstract message -/
theorem wireLen_toMsg (p : Packet) :
    wireLen (toMsg p) = 4 + p.token.length + wireOptsLen 0 p.options.flatten +
      (if sent p then 1 + p.payload.length else 0) := by
  rw [wireLen, payload_len]; rfl

theorem wireLen_toMsg_nopayload (p : Packet) :
    wireLen (toMsg { p with payload := [] }) =
      4 + p.token.length + wireOptsLen 0 p.options.flatten := by
  rw [wireLen_toMsg]
  simp [sent]

/-- the payload (with its marker) costs at most `1 + |payload|` -/
theorem wireLen_toMsg_le (p : Packet) :
    wireLen (toMsg p) ≤ wireLen (toMsg { p with payload := [] }) + 1 + p.payload.length := by
  rw [wireLen_toMsg, wireLen_toMsg_nopayload]
  split <;> omega

/-- the size the handler measures: the message without its payload -/
theorem computeMessageSize_eq (p : Packet) (size : Nat) (h : computeMessageSize p = .ok size) :
    size = wireLen (toMsg { p with payload := [] }) + p.payload.length := by
  unfold computeMessageSize at h
  split at h
  · rename_i b hb
    have hl := Codec.enc_length _ _ _ hb
    simp only [HRes.ok.injEq] at h
    omega
  · simp [internal] at h
  · simp at h

/-- wire length of a message after a block option (value of at most 3 bytes,
option number 23 or 27) is set and a payload `pl` is put in: at most the
payload-free length plus 5 (option) plus 1 (marker) plus `|pl|` -/
theorem wireLen_block_message (p : Packet) (n : Nat) (v pl : Bytes)
    (hs : p.options.Sorted) (hk : ∀ kv ∈ p.options, kv.1 ≤ 65535)
    (hg : p.getOption n = none) (hv : v.length ≤ 3) (hn : n = block1Num ∨ n = block2Num) :
    wireLen (toMsg { (p.setOption n [v]) with payload := pl }) ≤
      wireLen (toMsg { p with payload := [] }) + 5 + 1 + pl.length := by
  have hn' : n < 269 := by
    rcases hn with h | h <;> subst h <;> decide
  have hins := optsLen_insert_le p.options n v hs hk hg (by omega) hn'
  have hw := wireLen_toMsg_le { (p.setOption n [v]) with payload := pl }
  rw [wireLen_toMsg_nopayload] at hw
  rw [wireLen_toMsg_nopayload]
  simp only [Packet.setOption] at hw ⊢
  omega

/-- encoded block values are at most 3 bytes long -/
theorem enc_length_le_3 (b : BlockValue) (hb : BvOk b) (bs : Bytes) (h : b.enc = .ok bs) :
    bs.length ≤ 3 := by
  obtain ⟨hnum, hszx⟩ := hb
  rw [C13.enc_minimal b (by omega)] at h
  simp only [Res.ok.injEq] at h
  subst h
  apply minimalBE_length_le
  have : (if b.more then 8 else 0) ≤ 8 := by split <;> omega
  have : b.szx % 8 < 8 := Nat.mod_lt _ (by omega)
  have : (256 : Nat) ^ 3 = 16777216 := by decide
  omega

/-- a fragment fits: if the block size was negotiated for a message `p` (payload
`p.payload`, no block option yet) under budget `M` with at least 16 bytes of
block budget, then `p` with the block option set and any chunk of at most the
negotiated size encodes within `M` -/
theorem fragment_fits (p : Packet) (lb : Option BlockValue) (M size : Nat) (b : BlockValue)
    (n : Nat) (bs chunk : Bytes)
    (hs : p.options.Sorted) (hk : ∀ kv ∈ p.options, kv.1 ≤ 65535)
    (hg : p.getOption n = none) (hn : n = block1Num ∨ n = block2Num)
    (hlb : ∀ r, lb = some r → BvOk r)
    (hsz : computeMessageSize p = .ok size)
    (hneg : negotiate lb size p.payload.length M = .ok (some b))
    (h16 : 16 ≤ blockBudget size p.payload.length M)
    (hbs : ({ b with more := true } : BlockValue).enc = .ok bs ∨ ({ b with more := false } : BlockValue).enc = .ok bs)
    (hc : chunk.length ≤ b.size) :
    wireLen (toMsg { (p.setOption n [bs]) with payload := chunk }) ≤ M := by
  have hsize := computeMessageSize_eq p size hsz
  have hneg' := negotiate_some lb size p.payload.length M b hlb (by omega) hneg
  obtain ⟨hbv, _, hbud, _, _⟩ := hneg'
  have hle := hbud h16
  have hbs3 : bs.length ≤ 3 := by
    rcases hbs with h | h
    · exact enc_length_le_3 { b with more := true } ⟨hbv.1, hbv.2⟩ bs h
    · exact enc_length_le_3 { b with more := false } ⟨hbv.1, hbv.2⟩ bs h
  have hw := wireLen_block_message p n bs chunk hs hk hg hbs3 hn
  unfold blockBudget at hle h16
  simp only [Consts.blockOptionsMaxLength] at hle h16
  omega

/-- negotiating against a larger measured size only tightens the budget: the block budget for
`size + slack` is the budget for `size` minus `slack` -/
theorem blockBudget_slack (size slack tp M : Nat) (h : tp ≤ size) :
    blockBudget (size + slack) tp M = blockBudget size tp M - slack := by
  unfold blockBudget
  omega

/-- D19: every block of a fragmented response fits, whatever token (of at most 8 bytes) the
request for that block carries and whatever its block number is. The block size `b` was
negotiated for the application's reply `p` with room reserved for a maximum-length token
(`size + (8 - |p.token|)`); the reply to a later request is `p`'s header fields and options with
that request's token `tok`, a Block2 value `b'` of the same size, and a chunk of at most that size. -/
theorem followup_fits (p : Packet) (lb : Option BlockValue) (M size : Nat) (b b' : BlockValue)
    (bs chunk tok : Bytes)
    (hs : p.options.Sorted) (hk : ∀ kv ∈ p.options, kv.1 ≤ 65535)
    (hg : p.getOption block2Num = none)
    (hlb : ∀ r, lb = some r → BvOk r)
    (hsz : computeMessageSize p = .ok size)
    (hneg : negotiate lb (size + tokenReserve p) p.payload.length M = .ok (some b))
    (h16 : 16 ≤ blockBudget (size + tokenReserve p) p.payload.length M)
    (hb' : BvOk b') (hbs : b'.enc = .ok bs)
    (hc : chunk.length ≤ b.size) (htok : tok.length ≤ 8) (hptok : p.token.length ≤ 8) :
    wireLen (toMsg { (p.setOption block2Num [bs]) with payload := chunk, token := tok }) ≤ M := by
  have hsize := computeMessageSize_eq p size hsz
  have hneg' := negotiate_some lb (size + tokenReserve p) p.payload.length M b hlb (by omega) hneg
  obtain ⟨_, _, hbud, _, _⟩ := hneg'
  have hle := hbud h16
  have hbs3 : bs.length ≤ 3 := enc_length_le_3 b' hb' bs hbs
  have hw := wireLen_block_message p block2Num bs chunk hs hk hg hbs3 (Or.inr rfl)
  rw [wireLen_toMsg] at hw ⊢
  simp only [Packet.setOption, sent] at hw ⊢
  unfold blockBudget at hle h16
  unfold tokenReserve at hle h16
  simp only [Consts.blockOptionsMaxLength, Consts.maximumTokenLength] at hle h16
  rw [wireLen_toMsg_nopayload] at hsize hw
  by_cases hd : p.header.code ≠ MessageClass.Empty ∧ chunk ≠ []
  · simp only [hd, and_self, decide_true, if_true, not_false_eq_true, ne_eq] at hw ⊢
    omega
  · simp only [hd, decide_false, Bool.false_eq_true, if_false] at hw ⊢
    omega

/-- a response the handler leaves unfragmented fits the budget too -/
theorem unfragmented_fits (p : Packet) (M size : Nat)
    (hsz : computeMessageSize p = .ok size)
    (hneg : negotiate none size p.payload.length M = .ok none) :
    wireLen (toMsg p) ≤ M := by
  have hsize := computeMessageSize_eq p size hsz
  have h := (negotiate_none size p.payload.length M (by omega)).1 hneg
  have hw := wireLen_toMsg_le p
  unfold blockBudget at h
  simp only [Consts.blockOptionsMaxLength] at h
  omega

end CoapLite.Block
