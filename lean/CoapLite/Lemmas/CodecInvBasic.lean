/-
Helper lemmas for the inverse direction of the codec proofs (CodecInv.lean):
byte arithmetic, `rdExt` inversion, `OptMap.add` on a sorted accumulator, the
flat view of the encoder (`encFlat`) and the main invariant of `decOpts`.
-/
import CoapLite.Model.CodecAbs

namespace CoapLite
namespace Codec
namespace Inv
open Spec

/-! ### bytes -/

theorem u8_ofNat_toNat (b : UInt8) : UInt8.ofNat b.toNat = b := UInt8.ofNat_toNat

theorem u8_split (b : UInt8) : UInt8.ofNat (b.toNat / 16 * 16 + b.toNat % 16) = b := by
  have : b.toNat / 16 * 16 + b.toNat % 16 = b.toNat := by omega
  rw [this]; exact UInt8.ofNat_toNat

theorem u8_eq_zero_of_toNat {b : UInt8} (h : b.toNat = 0) : b = 0 := by
  have := u8_ofNat_toNat b
  rw [h] at this
  exact this.symm

theorem code_round (n : Nat) : MessageClass.toU8 (MessageClass.ofU8 n) = n := by
  unfold MessageClass.ofU8; split <;> simp [MessageClass.toU8]

theorem ofU8_empty_iff (n : Nat) : MessageClass.ofU8 n = .Empty ↔ n = 0 := by
  constructor
  · intro h
    have := code_round n
    rw [h] at this
    simpa [MessageClass.toU8] using this.symm
  · rintro rfl; rfl

/-! ### `rdExt` -/

theorem rdExt_ne_panic (d : Bool) (nib : Nat) (bs : Bytes) : rdExt d nib bs ≠ .panic := by
  unfold rdExt
  split
  · split <;> simp
  · split
    · split <;> simp
    · split <;> simp

/-- the decoder's reading of a nibble + extension is exactly the encoder's choice -/
theorem rdExt_inv {d : Bool} {nib : Nat} {bs : Bytes} {x : Nat} {r : Bytes}
    (h : rdExt d nib bs = .ok (x, r)) (hn : nib < 16) :
    nibble x = nib ∧ bs = ext x ++ r ∧ x ≤ 65804 := by
  unfold rdExt at h
  split at h
  · split at h
    · rename_i b rest
      simp only [Res.ok.injEq, Prod.mk.injEq] at h
      obtain ⟨rfl, rfl⟩ := h
      have hb := b.toNat_lt
      have e : b.toNat + 13 - 13 = b.toNat := by omega
      refine ⟨?_, ?_, by omega⟩
      · unfold nibble; rw [if_neg (by omega), if_pos (by omega)]; omega
      · unfold ext; rw [if_neg (by omega), if_pos (by omega), e, UInt8.ofNat_toNat]; rfl
    · simp at h
  · split at h
    · split at h
      · rename_i b1 b2 rest
        simp only [Res.ok.injEq, Prod.mk.injEq] at h
        obtain ⟨rfl, rfl⟩ := h
        have h1 := b1.toNat_lt
        have h2 := b2.toNat_lt
        have e1 : (b1.toNat * 256 + b2.toNat + 269 - 269) / 256 = b1.toNat := by omega
        have e2 : (b1.toNat * 256 + b2.toNat + 269 - 269) % 256 = b2.toNat := by omega
        refine ⟨?_, ?_, by omega⟩
        · unfold nibble; rw [if_neg (by omega), if_neg (by omega)]; omega
        · unfold ext
          rw [if_neg (by omega), if_neg (by omega), e1, e2, UInt8.ofNat_toNat, UInt8.ofNat_toNat]; rfl
      · simp at h
    · split at h
      · simp at h
      · simp only [Res.ok.injEq, Prod.mk.injEq] at h
        obtain ⟨rfl, rfl⟩ := h
        have : nib ≤ 12 := by omega
        refine ⟨?_, ?_, by omega⟩
        · unfold nibble; rw [if_pos this]
        · unfold ext; rw [if_pos this]; rfl

theorem rdExt_len {d : Bool} {nib : Nat} {bs : Bytes} {x : Nat} {r : Bytes}
    (h : rdExt d nib bs = .ok (x, r)) : r.length + extBytesOf nib = bs.length := by
  unfold rdExt at h
  unfold extBytesOf
  split at h
  · split at h
    · simp only [Res.ok.injEq, Prod.mk.injEq] at h
      obtain ⟨_, rfl⟩ := h
      simp [*]
    · simp at h
  · split at h
    · split at h
      · simp only [Res.ok.injEq, Prod.mk.injEq] at h
        obtain ⟨_, rfl⟩ := h
        simp [*]
      · simp at h
    · split at h
      · simp at h
      · simp only [Res.ok.injEq, Prod.mk.injEq] at h
        obtain ⟨rfl, rfl⟩ := h
        simp [*]

theorem rdExt_short {d : Bool} {nib : Nat} {bs : Bytes} (h : bs.length < extBytesOf nib) :
    ∃ e, rdExt d nib bs = .err e := by
  unfold extBytesOf at h
  unfold rdExt
  split at h
  · rename_i h13
    rw [if_pos h13]
    match bs, h with
    | [], _ => exact ⟨_, rfl⟩
  · split at h
    · rename_i h13 h14
      rw [if_neg h13, if_pos h14]
      match bs, h with
      | [], _ => exact ⟨_, rfl⟩
      | [_], _ => exact ⟨_, rfl⟩
    · omega

theorem rdExt_15 (d : Bool) (bs : Bytes) : ∃ e, rdExt d 15 bs = .err e := by
  simp [rdExt]

end Inv
end Codec

/-! ### `OptMap.add` on a sorted accumulator whose keys are all `≤` the new key -/

namespace OptMap
namespace Inv

theorem sorted_cons (a : Nat) (va : List Bytes) (m : OptMap) :
    Sorted ((a, va) :: m) ↔ (∀ kv ∈ m, a < kv.1) ∧ Sorted m := by
  induction m generalizing a va with
  | nil => simp [Sorted]
  | cons x rest ih =>
    obtain ⟨b, vb⟩ := x
    simp only [Sorted, List.mem_cons, forall_eq_or_imp]
    rw [ih b vb]
    constructor
    · rintro ⟨hab, hall, hs⟩
      exact ⟨⟨hab, fun kv hkv => Nat.lt_trans hab (hall kv hkv)⟩, hall, hs⟩
    · rintro ⟨⟨hab, _⟩, hall, hs⟩
      exact ⟨hab, hall, hs⟩

theorem add_nil (k : Nat) (v : Bytes) : add [] k v = [(k, [v])] := rfl

theorem add_cons_eq (k : Nat) (vs : List Bytes) (rest : OptMap) (v : Bytes) :
    add ((k, vs) :: rest) k v = (k, vs ++ [v]) :: rest := by
  simp [add, get, modify]

theorem add_cons_ne (k' k : Nat) (vs : List Bytes) (rest : OptMap) (v : Bytes) (h : k' < k) :
    add ((k', vs) :: rest) k v = (k', vs) :: add rest k v := by
  have h1 : ¬ k' = k := by omega
  have h2 : ¬ k < k' := by omega
  have h3 : ¬ k = k' := by omega
  unfold add
  simp only [get, if_neg h1]
  split <;> simp [modify, insert, h1, h2, h3]

theorem flatten_nil : flatten [] = [] := rfl

theorem flatten_cons (k : Nat) (vs : List Bytes) (m : OptMap) :
    flatten ((k, vs) :: m) = vs.map (fun v => (k, v)) ++ flatten m := by
  simp [flatten]

theorem mem_flatten (m : OptMap) (x : Nat × Bytes) :
    x ∈ flatten m ↔ ∃ kv ∈ m, x.1 = kv.1 ∧ x.2 ∈ kv.2 := by
  obtain ⟨n, w⟩ := x
  simp only [flatten, List.mem_flatMap, List.mem_map, Prod.mk.injEq]
  constructor
  · rintro ⟨kv, hkv, a, ha, rfl, rfl⟩; exact ⟨kv, hkv, rfl, ha⟩
  · rintro ⟨kv, hkv, rfl, hw⟩; exact ⟨kv, hkv, w, hw, rfl, rfl⟩

theorem add_spec (m : OptMap) (k : Nat) (v : Bytes) (hs : Sorted m) (hk : ∀ kv ∈ m, kv.1 ≤ k) :
    flatten (add m k v) = flatten m ++ [(k, v)] ∧ Sorted (add m k v) ∧
      (∀ kv ∈ add m k v, kv.1 = k ∨ ∃ kv' ∈ m, kv'.1 = kv.1) := by
  induction m with
  | nil => simp [add_nil, flatten, Sorted]
  | cons x rest ih =>
    obtain ⟨k', vs⟩ := x
    rw [sorted_cons] at hs
    obtain ⟨hlt, hsr⟩ := hs
    have hk' : k' ≤ k := hk (k', vs) (by simp)
    by_cases hkk : k' = k
    · subst hkk
      have : rest = [] := by
        cases rest with
        | nil => rfl
        | cons y ys =>
          have h1 := hlt y (by simp)
          have h2 := hk y (by simp)
          omega
      subst this
      rw [add_cons_eq]
      simp [flatten, Sorted]
    · have hlt' : k' < k := by omega
      rw [add_cons_ne _ _ _ _ _ hlt']
      obtain ⟨ih1, ih2, ih3⟩ := ih hsr (fun kv hkv => hk kv (by simp [hkv]))
      refine ⟨?_, ?_, ?_⟩
      · rw [flatten_cons, flatten_cons, ih1, List.append_assoc]
      · rw [sorted_cons]
        refine ⟨?_, ih2⟩
        intro kv hkv
        rcases ih3 kv hkv with h | ⟨kv', hkv', h⟩
        · omega
        · have := hlt kv' hkv'; omega
      · intro kv hkv
        rcases List.mem_cons.1 hkv with rfl | hkv
        · exact Or.inr ⟨_, by simp, rfl⟩
        · rcases ih3 kv hkv with h | ⟨kv', hkv', h⟩
          · exact Or.inl h
          · exact Or.inr ⟨kv', by simp [hkv'], h⟩

end Inv
end OptMap

/-! ### the encoder on the flat option list -/

namespace Codec
namespace Inv
open Spec

def encFlat (prev : Nat) : List (Nat × Bytes) → Res Bytes
  | [] => .ok []
  | (n, v) :: rest =>
    match encOpt prev n v with
    | .ok b =>
      match encFlat n rest with
      | .ok bs => .ok (b ++ bs)
      | .err e => .err e
      | .panic => .panic
    | .err e => .err e
    | .panic => .panic

theorem encFlat_values (prev num : Nat) (vs : List Bytes) (L : List (Nat × Bytes)) :
    encFlat prev (vs.map (fun v => (num, v)) ++ L) =
      match encValues prev num vs with
      | .ok (b, p') =>
        match encFlat p' L with
        | .ok bs => .ok (b ++ bs)
        | .err e => .err e
        | .panic => .panic
      | .err e => .err e
      | .panic => .panic := by
  induction vs generalizing prev with
  | nil =>
    simp only [List.map_nil, List.nil_append, encValues]
    cases encFlat prev L <;> simp
  | cons v vs ih =>
    simp only [List.map_cons, List.cons_append, encFlat, encValues]
    rw [ih num]
    cases encOpt prev num v with
    | ok b =>
      simp only
      cases encValues num num vs with
      | ok r =>
        obtain ⟨bs, p'⟩ := r
        simp only
        cases encFlat p' L <;> simp
      | err e => simp
      | panic => simp
    | err e => simp
    | panic => simp

theorem encOpts_eq_encFlat (prev : Nat) (m : OptMap) : encOpts prev m = encFlat prev m.flatten := by
  induction m generalizing prev with
  | nil => simp [encOpts, OptMap.flatten, encFlat]
  | cons x rest ih =>
    obtain ⟨num, vs⟩ := x
    rw [OptMap.Inv.flatten_cons, encFlat_values, encOpts]
    cases encValues prev num vs with
    | ok r =>
      obtain ⟨b, p'⟩ := r
      simp only
      rw [ih p']
      cases encFlat p' (OptMap.flatten rest) <;> rfl
    | err e => simp
    | panic => simp

/-! ### one decoder step inverted, and the invariant of `decOpts` -/

theorem encOpt_step {b : UInt8} {rest r1 r2 : Bytes} {delta len : Nat} (prev : Nat)
    (h1 : rdExt true (b.toNat / 16) rest = .ok (delta, r1))
    (h2 : rdExt false (b.toNat % 16) r1 = .ok (len, r2))
    (hl : len ≤ r2.length) :
    encOpt prev (prev + delta) (r2.take len) = .ok (b :: (ext delta ++ ext len ++ r2.take len)) ∧
    b :: rest = (b :: (ext delta ++ ext len ++ r2.take len)) ++ r2.drop len ∧ len ≤ 65804 := by
  have hb := b.toNat_lt
  obtain ⟨n1, e1, _⟩ := rdExt_inv h1 (by omega)
  obtain ⟨n2, e2, hl2⟩ := rdExt_inv h2 (by omega)
  have hlen : (r2.take len).length = len := by rw [List.length_take]; omega
  refine ⟨?_, ?_, hl2⟩
  · unfold encOpt
    simp only [hlen, Nat.add_sub_cancel_left]
    rw [if_neg (by omega), n1, n2, u8_split]
  · rw [e1, e2]
    simp [List.append_assoc, List.take_append_drop]

/-- invariant of the accumulator of `decOpts` -/
structure AccInv (prev : Nat) (acc : OptMap) : Prop where
  sorted : acc.Sorted
  keys : ∀ kv ∈ acc, kv.1 ≤ prev
  vals : ∀ x ∈ acc.flatten, x.2.length ≤ 65804
  prev_le : prev ≤ 65535

theorem AccInv.nil : AccInv 0 [] :=
  ⟨trivial, by simp, by simp [OptMap.flatten], by omega⟩

theorem decOpts_inv (prev : Nat) (acc : OptMap) (bs : Bytes) (m : OptMap) (pl : Bytes)
    (h : decOpts prev acc bs = .ok (m, pl)) (hi : AccInv prev acc) :
    ∃ L consumed, m.flatten = acc.flatten ++ L ∧ encFlat prev L = .ok consumed ∧
      ((bs = consumed ∧ pl = []) ∨ bs = consumed ++ 0xFF :: pl) ∧
      m.Sorted ∧ (∀ kv ∈ m, kv.1 ≤ 65535) ∧ (∀ x ∈ m.flatten, x.2.length ≤ 65804) := by
  fun_induction decOpts prev acc bs
  case case1 prev acc =>
    simp only [Res.ok.injEq, Prod.mk.injEq] at h
    obtain ⟨rfl, rfl⟩ := h
    exact ⟨[], [], by simp, rfl, Or.inl ⟨rfl, rfl⟩, hi.sorted,
      fun kv hkv => Nat.le_trans (hi.keys kv hkv) hi.prev_le, hi.vals⟩
  case case2 prev acc rest =>
    simp only [Res.ok.injEq, Prod.mk.injEq] at h
    obtain ⟨rfl, rfl⟩ := h
    exact ⟨[], [], by simp, rfl, Or.inr rfl, hi.sorted,
      fun kv hkv => Nat.le_trans (hi.keys kv hkv) hi.prev_le, hi.vals⟩
  case case5 prev acc b rest hb delta r1 h1 len r2 h2 num hn hl ih =>
    have hl' : len ≤ r2.length := by omega
    obtain ⟨s1, s2, s3⟩ := encOpt_step prev h1 h2 hl'
    have hkeys : ∀ kv ∈ acc, kv.1 ≤ num := fun kv hkv =>
      Nat.le_trans (hi.keys kv hkv) (Nat.le_add_right _ _)
    obtain ⟨a1, a2, a3⟩ := OptMap.Inv.add_spec acc num (r2.take len) hi.sorted hkeys
    have hlen : (r2.take len).length = len := by rw [List.length_take]; omega
    have hi' : AccInv num (acc.add num (r2.take len)) := by
      refine ⟨a2, ?_, ?_, by omega⟩
      · intro kv hkv
        rcases a3 kv hkv with e | ⟨kv', hkv', e⟩
        · omega
        · rw [← e]; exact hkeys kv' hkv'
      · intro x hx
        rw [a1, List.mem_append] at hx
        rcases hx with hx | hx
        · exact hi.vals x hx
        · simp only [List.mem_singleton] at hx
          subst hx
          simp only [hlen]; exact s3
    obtain ⟨L, consumed, f1, f2, f3, f4, f5, f6⟩ := ih h hi'
    refine ⟨(num, r2.take len) :: L, (b :: (ext delta ++ ext len ++ r2.take len)) ++ consumed,
      ?_, ?_, ?_, f4, f5, f6⟩
    · rw [f1, a1, List.append_assoc]; rfl
    · simp only [encFlat]
      rw [show num = prev + delta from rfl] at f2 ⊢
      rw [s1, f2]
    · rw [s2]
      rcases f3 with ⟨e, rfl⟩ | e
      · left; rw [e]; exact ⟨rfl, rfl⟩
      · right; rw [e]; simp only [List.append_assoc, List.cons_append]
  all_goals simp at h

/-! ### `dec` -/

theorem decOpts_ne_panic (prev : Nat) (acc : OptMap) (bs : Bytes) : decOpts prev acc bs ≠ .panic := by
  fun_induction decOpts prev acc bs
  case case7 h2 => exact absurd h2 (rdExt_ne_panic _ _ _)
  case case9 h2 => exact absurd h2 (rdExt_ne_panic _ _ _)
  all_goals first | assumption | simp

theorem dec_cons_ok {b0 b1 b2 b3 : UInt8} {rest : Bytes} {p : Packet}
    (h : dec (b0 :: b1 :: b2 :: b3 :: rest) = .ok p) :
    (0x0F &&& b0).toNat ≤ 8 ∧ (0x0F &&& b0).toNat ≤ rest.length ∧
    ∃ opts pl, decOpts 0 [] (rest.drop (0x0F &&& b0).toNat) = .ok (opts, pl) ∧
      p = { header := { vtt := b0, code := MessageClass.ofU8 b1.toNat, mid := b2.toNat * 256 + b3.toNat },
            token := rest.take (0x0F &&& b0).toNat, options := opts, payload := pl } := by
  simp only [dec] at h
  split at h
  · simp at h
  · split at h
    · simp at h
    · split at h
      · rename_i opts pl hd
        simp only [Res.ok.injEq] at h
        exact ⟨by omega, by omega, opts, pl, hd, h.symm⟩
      · simp at h
      · simp at h

theorem dec_ok_cons {b : Bytes} {p : Packet} (h : dec b = .ok p) :
    ∃ b0 b1 b2 b3 rest, b = b0 :: b1 :: b2 :: b3 :: rest := by
  match b, h with
  | b0 :: b1 :: b2 :: b3 :: rest, _ => exact ⟨b0, b1, b2, b3, rest, rfl⟩
  | [], h => simp [dec] at h
  | [_], h => simp [dec] at h
  | [_, _], h => simp [dec] at h
  | [_, _, _], h => simp [dec] at h



theorem headerBytes_dec (b0 b1 b2 b3 : UInt8) :
    headerBytes { vtt := b0, code := MessageClass.ofU8 b1.toNat, mid := b2.toNat * 256 + b3.toNat }
      = [b0, b1, b2, b3] := by
  have h2 := b2.toNat_lt
  have h3 := b3.toNat_lt
  have e1 : (b2.toNat * 256 + b3.toNat) / 256 = b2.toNat := by omega
  have e2 : (b2.toNat * 256 + b3.toNat) % 256 = b3.toNat := by omega
  simp only [headerBytes, code_round, e1, e2, UInt8.ofNat_toNat]

/-- precise shape of every accepted datagram -/
theorem dec_shape (b : Bytes) (p : Packet) (h : dec b = .ok p) :
    ∃ ob, encOpts 0 p.options = .ok ob ∧
      ((b = headerBytes p.header ++ p.token ++ ob ∧ p.payload = []) ∨
        b = headerBytes p.header ++ p.token ++ ob ++ 0xFF :: p.payload) ∧
      (b[1]? = some 0 ↔ p.header.code = .Empty) ∧ PktWF p := by
  obtain ⟨b0, b1, b2, b3, rest, rfl⟩ := dec_ok_cons h
  obtain ⟨ht8, htl, opts, pl, hd, rfl⟩ := dec_cons_ok h
  obtain ⟨L, consumed, f1, f2, f3, f4, f5, f6⟩ := decOpts_inv 0 [] _ opts pl hd AccInv.nil
  simp only [OptMap.Inv.flatten_nil, List.nil_append] at f1
  refine ⟨consumed, ?_, ?_, ?_, ?_⟩
  · rw [encOpts_eq_encFlat, f1, f2]
  · simp only [headerBytes_dec]
    have hsplit : rest = rest.take (0x0F &&& b0).toNat ++ rest.drop (0x0F &&& b0).toNat :=
      (List.take_append_drop _ _).symm
    rcases f3 with ⟨e, rfl⟩ | e
    · left
      refine ⟨?_, rfl⟩
      rw [← e]; simp
    · right
      simp only [List.append_assoc]
      rw [← e]; simp
  · simp only [List.getElem?_cons_succ, List.getElem?_cons_zero, Option.some.injEq, ofU8_empty_iff]
    constructor
    · rintro rfl; rfl
    · exact u8_eq_zero_of_toNat
  · have h2 := b2.toNat_lt
    have h3 := b3.toNat_lt
    have h1 := b1.toNat_lt
    refine ⟨?_, ?_, ?_, ?_, f4, ?_⟩
    · simp only [List.length_take]; omega
    · simp only [List.length_take]; omega
    · simp only; omega
    · simp only [code_round]; omega
    · intro kv hkv
      refine ⟨f5 kv hkv, fun v hv => ?_⟩
      exact f6 (kv.1, v) ((OptMap.Inv.mem_flatten _ _).2 ⟨kv, hkv, rfl, hv⟩)


/-! ### one-step equations of `decOpts`, and decoding a valid RFC prefix -/

theorem decOpts_cons (prev : Nat) (acc : OptMap) (b : UInt8) (rest : Bytes) (hb : b ≠ 255)
    {delta len : Nat} {r1 r2 : Bytes}
    (h1 : rdExt true (b.toNat / 16) rest = .ok (delta, r1))
    (h2 : rdExt false (b.toNat % 16) r1 = .ok (len, r2)) :
    decOpts prev acc (b :: rest) =
      if prev + delta > 65535 then .err .invalidOptionDelta
      else if len > r2.length then .err .invalidOptionLength
      else decOpts (prev + delta) (acc.add (prev + delta) (r2.take len)) (r2.drop len) := by
  rw [decOpts, if_neg hb]
  split
  · rename_i d' r1' h1'
    rw [h1] at h1'
    simp only [Res.ok.injEq, Prod.mk.injEq] at h1'
    obtain ⟨rfl, rfl⟩ := h1'
    split
    · rename_i l' r2' h2'
      rw [h2] at h2'
      simp only [Res.ok.injEq, Prod.mk.injEq] at h2'
      obtain ⟨rfl, rfl⟩ := h2'
      rfl
    · rename_i h2'; rw [h2] at h2'; simp at h2'
    · rename_i h2'; rw [h2] at h2'; simp at h2'
  · rename_i h1'; rw [h1] at h1'; simp at h1'
  · rename_i h1'; rw [h1] at h1'; simp at h1'

theorem decOpts_cons_err1 (prev : Nat) (acc : OptMap) (b : UInt8) (rest : Bytes) (hb : b ≠ 255)
    {e : Err} (h1 : rdExt true (b.toNat / 16) rest = .err e) :
    decOpts prev acc (b :: rest) = .err e := by
  rw [decOpts, if_neg hb]
  split
  · rename_i h1'; rw [h1] at h1'; simp at h1'
  · rename_i h1'; rw [h1] at h1'; simp only [Res.err.injEq] at h1'; rw [h1']
  · rename_i h1'; rw [h1] at h1'; simp at h1'

theorem decOpts_cons_err2 (prev : Nat) (acc : OptMap) (b : UInt8) (rest : Bytes) (hb : b ≠ 255)
    {delta : Nat} {r1 : Bytes} {e : Err}
    (h1 : rdExt true (b.toNat / 16) rest = .ok (delta, r1))
    (h2 : rdExt false (b.toNat % 16) r1 = .err e) :
    decOpts prev acc (b :: rest) = .err e := by
  rw [decOpts, if_neg hb]
  split
  · rename_i d' r1' h1'
    rw [h1] at h1'
    simp only [Res.ok.injEq, Prod.mk.injEq] at h1'
    obtain ⟨rfl, rfl⟩ := h1'
    split
    · rename_i h2'; rw [h2] at h2'; simp at h2'
    · rename_i h2'; rw [h2] at h2'; simp only [Res.err.injEq] at h2'; rw [h2']
    · rename_i h2'; rw [h2] at h2'; simp at h2'
  · rename_i h1'; rw [h1] at h1'; simp at h1'
  · rename_i h1'; rw [h1] at h1'; simp at h1'

/-! forward reading of an RFC-encoded field -/

theorem optField_fst_le (x : Nat) : (optField x).1 ≤ 14 := by
  unfold optField; split
  · simp only; omega
  · split <;> simp

theorem rdExt_optField (d : Bool) (x : Nat) (r : Bytes) (hx : x ≤ 65804) :
    rdExt d (optField x).1 ((optField x).2 ++ r) = .ok (x, r) := by
  unfold optField
  split
  · simp only [List.nil_append]
    unfold rdExt
    rw [if_neg (by omega), if_neg (by omega), if_neg (by omega)]
  · split
    · have e : (x - 13) % 2 ^ 8 + 13 = x := by omega
      simp only [rdExt, if_pos, List.cons_append, List.nil_append, UInt8.toNat_ofNat', e]
    · have e : (x - 269) / 2 ^ 8 % 2 ^ 8 * 256 + (x - 269) % 2 ^ 8 % 2 ^ 8 + 269 = x := by omega
      have : (0xFF : Nat) = 2 ^ 8 - 1 := rfl
      simp only [rdExt, List.cons_append, List.nil_append, UInt8.toNat_ofNat',
        Nat.shiftRight_eq_div_pow, this, Nat.and_two_pow_sub_one_eq_mod, e]
      simp

theorem hdr_toNat (d l : Nat) (hd : d ≤ 14) (hl : l ≤ 14) :
    (UInt8.ofNat (d <<< 4 ||| l)).toNat = d * 16 + l := by
  rw [← Nat.shiftLeft_add_eq_or_of_lt (by omega : l < 2 ^ 4) d, Nat.shiftLeft_eq,
    UInt8.toNat_ofNat']
  omega

theorem decOpts_wire_step (prev : Nat) (acc : OptMap) (n : Nat) (v : Bytes)
    (os : List (Nat × Bytes)) (rest : Bytes)
    (hp : prev ≤ n) (hn : n ≤ 65535) (hv : v.length ≤ 65804) :
    decOpts prev acc (wireOpts prev ((n, v) :: os) ++ rest) =
      decOpts n (acc.add n v) (wireOpts n os ++ rest) := by
  have hd := optField_fst_le (n - prev)
  have hl := optField_fst_le v.length
  have ht := hdr_toNat _ _ hd hl
  have hne : UInt8.ofNat ((optField (n - prev)).1 <<< 4 ||| (optField v.length).1) ≠ 255 := by
    intro h
    rw [h] at ht
    have : (255 : UInt8).toNat = 255 := rfl
    omega
  have e1 : (UInt8.ofNat ((optField (n - prev)).1 <<< 4 ||| (optField v.length).1)).toNat / 16
      = (optField (n - prev)).1 := by omega
  have e2 : (UInt8.ofNat ((optField (n - prev)).1 <<< 4 ||| (optField v.length).1)).toNat % 16
      = (optField v.length).1 := by omega
  simp only [wireOpts, List.cons_append, List.append_assoc]
  rw [decOpts_cons prev acc _ _ hne
    (by rw [e1]; exact rdExt_optField true (n - prev) _ (by omega))
    (by rw [e2]; exact rdExt_optField false v.length _ hv)]
  have e3 : prev + (n - prev) = n := by omega
  rw [e3, if_neg (by omega), if_neg (by simp), List.take_left, List.drop_left]

theorem decOpts_wire_prefix (prev : Nat) (acc : OptMap) (os : List (Nat × Bytes)) (rest : Bytes)
    (hs : (os.map (·.1)).Pairwise (· ≤ ·)) (hb : ∀ o ∈ os, o.1 ≤ 65535 ∧ o.2.length ≤ 65804)
    (hp : ∀ o ∈ os, prev ≤ o.1) :
    ∃ acc', decOpts prev acc (wireOpts prev os ++ rest) =
      decOpts ((os.getLast?.map (·.1)).getD prev) acc' rest := by
  induction os generalizing prev acc with
  | nil => exact ⟨acc, by simp [wireOpts]⟩
  | cons o os ih =>
    obtain ⟨n, v⟩ := o
    simp only [List.map_cons, List.pairwise_cons, List.mem_map, forall_exists_index, and_imp,
      forall_apply_eq_imp_iff₂] at hs
    have hbo := hb (n, v) (by simp)
    rw [decOpts_wire_step prev acc n v os rest (hp (n, v) (by simp)) hbo.1 hbo.2]
    obtain ⟨acc', h⟩ := ih n (acc.add n v) hs.2 (fun o ho => hb o (by simp [ho])) (fun o ho => hs.1 o ho)
    refine ⟨acc', ?_⟩
    rw [h]
    cases os with
    | nil => simp
    | cons o' os' => rw [List.getLast?_cons_cons, List.getLast?_cons]; rfl

/-! ### `enc` unfolded; framing of the rejection classes -/

theorem enc_none_eq (p : Packet) (ob : Bytes) (h : encOpts 0 p.options = .ok ob) :
    enc p none = .ok (headerBytes p.header ++ p.token ++ ob ++ (if sent p then 0xFF :: p.payload else [])) := by
  simp only [enc, h]

theorem sent_iff (p : Packet) : sent p = true ↔ p.header.code ≠ .Empty ∧ p.payload ≠ [] := by
  simp [sent]

theorem dec_framed_err (b0 b1 b2 b3 : UInt8) (tok : Bytes) (os : List (Nat × Bytes)) (bad : Bytes)
    (htk : (0x0F &&& b0).toNat = tok.length) (ht : tok.length ≤ 8)
    (hos : (os.map (·.1)).Pairwise (· ≤ ·) ∧ ∀ o ∈ os, o.1 ≤ 65535 ∧ o.2.length ≤ 65804)
    (H : ∀ acc', (decOpts ((os.getLast?.map (·.1)).getD 0) acc' bad).isErr = true) :
    (dec (b0 :: b1 :: b2 :: b3 :: (tok ++ wireOpts 0 os ++ bad))).isErr = true := by
  simp only [dec]
  rw [if_neg (by omega), if_neg (by simp only [List.length_append]; omega), htk,
    List.append_assoc, List.drop_left]
  obtain ⟨acc', h⟩ := decOpts_wire_prefix 0 [] os bad hos.1 hos.2 (by simp)
  rw [h]
  have := H acc'
  revert this
  cases decOpts ((os.getLast?.map (·.1)).getD 0) acc' bad with
  | ok r => simp [Res.isErr]
  | err e => simp [Res.isErr]
  | panic => simp [Res.isErr]

theorem isErr_err {α} (e : Err) : (Res.err e : Res α).isErr = true := rfl

end Inv
end Codec
end CoapLite
