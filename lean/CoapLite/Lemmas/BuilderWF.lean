/-
Every message assembled through the API with arguments of the API's own types is well-formed in the
sense of the codec theorems (`PktWF`): links `Builder.build` to the hypothesis of C01 `enc_eq_wire` /
`dec_enc`.
-/
import CoapLite.Lemmas.Builder

namespace CoapLite
open Codec

/-- in a sorted map every entry is what `get` returns for its key -/
theorem OptMap.get_of_mem : ∀ (m : OptMap), m.Sorted → ∀ kv ∈ m, m.get kv.1 = some kv.2 := by
  intro m
  induction m with
  | nil => intro _ kv h; cases h
  | cons x rest ih =>
    intro hs kv hkv
    obtain ⟨a, va⟩ := x
    have hrest : OptMap.Sorted rest := by
      cases rest with
      | nil => trivial
      | cons y ys => obtain ⟨b, vb⟩ := y; exact hs.2
    -- every key in `rest` is larger than `a`
    have hgt : ∀ kv' ∈ rest, a < kv'.1 := by
      intro kv' h'
      clear ih hkv
      induction rest generalizing a va with
      | nil => cases h'
      | cons y ys ih2 =>
        obtain ⟨b, vb⟩ := y
        have hab : a < b := hs.1
        rcases List.mem_cons.1 h' with h' | h'
        · subst h'; exact hab
        · have hys : OptMap.Sorted ((b, vb) :: ys) := hs.2
          have hys' : OptMap.Sorted ys := by
            cases ys with
            | nil => trivial
            | cons z zs => obtain ⟨c, vc⟩ := z; exact hys.2
          have := ih2 b vb hys hys' h'
          omega
    rcases List.mem_cons.1 hkv with h | h
    · subst h; simp [OptMap.get]
    · have hne : ¬ (a = kv.1) := by have := hgt kv h; omega
      have hne' : ¬ (kv.1 = a) := fun e => hne e.symm
      simp only [OptMap.get]
      rw [if_neg (by simpa using hne)] <;> first | exact ih hrest kv h | skip
      all_goals first | exact ih hrest kv h | simp_all


namespace Builder

/-- ASSEMBLED THROUGHTHE API ⇒ WELL-FORMED. `ops` is any sequence of API calls that succeeds; the
reference semantics (`ref*`, Model/Builder.lean: "the last setter wins", options accumulate) tell
what was set last. If those last-set values are of the API's own types – token of at most 8 bytes
with the header nibble agreeing with it, 16-bit message id, a code with a byte, option numbers that
are `u16` and values that fit the 16-bit extended length – the assembled message is `PktWF`, the
hypothesis of `enc_eq_wire` and `dec_enc`. -/
theorem build_wf (ops : List BOp) (p : Packet) (h : build ops = .ok p)
    (htok : (refTok ops.reverse).length ≤ 8)
    (htkl : refTkl ops.reverse = (refTok ops.reverse).length)
    (hmid : refMid ops.reverse < 65536)
    (hcode : MessageClass.toU8 (refCode ops.reverse) < 256)
    (hopts : ∀ n vs, refOpts ops.reverse n = some vs → n ≤ 65535 ∧ ∀ v ∈ vs, v.length ≤ 65804) :
    PktWF p := by
  obtain ⟨hget, hsorted, _, _, htk, hc, hm, ht, _⟩ := build_spec ops p h
  refine ⟨by rw [ht]; exact htok, ?_, by rw [hm]; exact hmid, by rw [hc]; exact hcode, hsorted, ?_⟩
  · have : p.header.getTkl.toNat = p.token.length := by rw [htk, ht, htkl]
    simpa [Header.getTkl] using this
  · intro kv hkv
    have hg := OptMap.get_of_mem p.options hsorted kv hkv
    have := hget kv.1
    unfold Packet.getOption at this
    rw [hg] at this
    exact hopts kv.1 kv.2 this.symm

end Builder
end CoapLite
