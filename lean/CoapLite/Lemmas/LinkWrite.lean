/-
Lemmas about the link-format writer model under an arbitrary sink fault
schedule.  Used by Props/C18.
-/
import CoapLite.Model.LinkFormat

namespace CoapLite.Link

/-- index of the first failing call among the first `n`, if any -/
def firstFail (fails : Nat → Bool) (n : Nat) : Option Nat :=
  (List.range n).find? fails

def noFault : Nat → Bool := fun _ => false

namespace P

/-- run a script of sink calls -/
def run (fails : Nat → Bool) (w : W) (cs : List (List Char)) : W := cs.foldl (W.put fails) w

def setFirst (w : W) (b : Bool) : W := { w with isFirst := b }

theorem run_nil (fails : Nat → Bool) (w : W) : run fails w [] = w := rfl

theorem run_cons (fails : Nat → Bool) (w : W) (c : List Char) (cs : List (List Char)) :
    run fails w (c :: cs) = run fails (W.put fails w c) cs := rfl

theorem run_append (fails : Nat → Bool) (w : W) (cs ds : List (List Char)) :
    run fails w (cs ++ ds) = run fails (run fails w cs) ds := by
  simp [run, List.foldl_append]

theorem setFirst_self (w : W) : setFirst w w.isFirst = w := by
  cases w; rfl

theorem setFirst_setFirst (w : W) (a b : Bool) : setFirst (setFirst w a) b = setFirst w b := rfl

theorem put_setFirst (fails : Nat → Bool) (w : W) (b : Bool) (s : List Char) :
    W.put fails (setFirst w b) s = setFirst (W.put fails w s) b := by
  unfold W.put setFirst
  by_cases h1 : w.error = true <;> by_cases h2 : fails w.calls = true <;> simp [h1, h2]

theorem run_setFirst (fails : Nat → Bool) (w : W) (b : Bool) (cs : List (List Char)) :
    run fails (setFirst w b) cs = setFirst (run fails w cs) b := by
  induction cs generalizing w with
  | nil => rfl
  | cons c cs ih => simp only [run_cons, put_setFirst, ih]

theorem put_isFirst (fails : Nat → Bool) (w : W) (s : List Char) :
    (W.put fails w s).isFirst = w.isFirst := by
  unfold W.put
  by_cases h1 : w.error = true <;> by_cases h2 : fails w.calls = true <;> simp [h1, h2]

theorem put_nl (fails : Nat → Bool) (w : W) (s : List Char) :
    (W.put fails w s).nl = w.nl := by
  unfold W.put
  by_cases h1 : w.error = true <;> by_cases h2 : fails w.calls = true <;> simp [h1, h2]

theorem run_isFirst (fails : Nat → Bool) (w : W) (cs : List (List Char)) :
    (run fails w cs).isFirst = w.isFirst := by
  induction cs generalizing w with
  | nil => rfl
  | cons c cs ih => rw [run_cons, ih, put_isFirst]

theorem run_nl (fails : Nat → Bool) (w : W) (cs : List (List Char)) :
    (run fails w cs).nl = w.nl := by
  induction cs generalizing w with
  | nil => rfl
  | cons c cs ih => rw [run_cons, ih, put_nl]

/-- an operation of the writer is a fixed script of sink calls (depending only
on the fault-independent fields `isFirst`, `nl`), plus an update of `isFirst` -/
def Scripted (op : (Nat → Bool) → W → W) : Prop :=
  ∀ first nl : Bool, ∃ (cs : List (List Char)) (b : Bool), ∀ (fails : Nat → Bool) (w : W),
    w.isFirst = first → w.nl = nl → op fails w = run fails (setFirst w b) cs

theorem Scripted.id : Scripted (fun _ w => w) := by
  intro first nl
  refine ⟨[], first, ?_⟩
  intro fails w hf _
  rw [run_nil, ← hf, setFirst_self]

theorem Scripted.put (s : List Char) : Scripted (fun fails w => W.put fails w s) := by
  intro first nl
  refine ⟨[s], first, ?_⟩
  intro fails w hf _
  rw [← hf, setFirst_self]; rfl

theorem Scripted.comp {op1 op2 : (Nat → Bool) → W → W} (h1 : Scripted op1) (h2 : Scripted op2) :
    Scripted (fun fails w => op2 fails (op1 fails w)) := by
  intro first nl
  obtain ⟨cs1, b1, e1⟩ := h1 first nl
  obtain ⟨cs2, b2, e2⟩ := h2 b1 nl
  refine ⟨cs1 ++ cs2, b2, ?_⟩
  intro fails w hf hn
  have h3 : (run fails (setFirst w b1) cs1).isFirst = b1 := by rw [run_isFirst]; rfl
  have h4 : (run fails (setFirst w b1) cs1).nl = nl := by rw [run_nl]; exact hn
  show op2 fails (op1 fails w) = _
  rw [e1 fails w hf hn, e2 fails _ h3 h4, ← run_setFirst, setFirst_setFirst, run_append]

theorem Scripted.foldl {α : Type} (f : α → (Nat → Bool) → W → W) (hf : ∀ a, Scripted (f a))
    (l : List α) : Scripted (fun fails w => l.foldl (fun w a => f a fails w) w) := by
  induction l with
  | nil => exact Scripted.id
  | cons a l ih => exact Scripted.comp (hf a) ih

theorem scripted_link (target : List Char) : Scripted (fun fails w => W.link fails w target) := by
  intro first nl
  cases first
  · cases nl
    · refine ⟨[[','], ['<'], target, ['>']], false, ?_⟩
      intro fails w hf hn
      rw [← hf, setFirst_self]
      simp [W.link, hf, hn, run]
    · refine ⟨[[','], ['\n', '\r'], ['<'], target, ['>']], false, ?_⟩
      intro fails w hf hn
      rw [← hf, setFirst_self]
      simp [W.link, hf, hn, run]
  · refine ⟨[['<'], target, ['>']], false, ?_⟩
    intro fails w hf hn
    simp [W.link, hf, run, setFirst]

theorem scripted_keyEq (key : List Char) : Scripted (fun fails w => W.keyEq fails w key) :=
  ((Scripted.put [';']).comp (Scripted.put key)).comp (Scripted.put ['='])

theorem scripted_attrQuoted (key value : List Char) :
    Scripted (fun fails w => W.attrQuoted fails w key value) := by
  have hc : ∀ c : Char, Scripted (fun fails w =>
      (if c = '"' || c = '\\' then W.put fails w ['\\'] else w).put fails [c]) := by
    intro c
    by_cases h : (c = '"' || c = '\\') = true
    · simp only [h, if_true]
      exact (Scripted.put ['\\']).comp (Scripted.put [c])
    · simp only [h]
      exact Scripted.put [c]
  exact (((scripted_keyEq key).comp (Scripted.put ['"'])).comp
    (Scripted.foldl (fun c fails w =>
      (if c = '"' || c = '\\' then W.put fails w ['\\'] else w).put fails [c]) hc value)).comp
    (Scripted.put ['"'])

theorem scripted_attr (key value : List Char) :
    Scripted (fun fails w => W.attr fails w key value) := by
  by_cases h : value.any (fun c => !isAsciiAlnum c) = true
  · have : (fun fails w => W.attr fails w key value) =
        (fun fails w => W.attrQuoted fails w key value) := by
      funext fails w; simp [W.attr, h]
    rw [this]; exact scripted_attrQuoted key value
  · have : (fun fails w => W.attr fails w key value) =
        (fun fails w => (W.keyEq fails w key).put fails value) := by
      funext fails w; simp only [W.attr, h]; rfl
    rw [this]; exact (scripted_keyEq key).comp (Scripted.put value)

theorem scripted_attrNum (key : List Char) (n : Nat) :
    Scripted (fun fails w => W.attrNum fails w key n) :=
  (scripted_keyEq key).comp (Scripted.put (Nat.toDigits 10 n))

theorem scripted_attrSpec (a : AttrSpec) : Scripted (fun fails w => W.attrSpec fails w a) := by
  cases a with
  | plain k v => exact scripted_attr k v
  | quoted k v => exact scripted_attrQuoted k v
  | num k n => exact scripted_attrNum k n

/-- the whole document is one script, independent of the fault schedule -/
theorem writeDoc_script (nl : Bool) (d : Doc) : ∃ (cs : List (List Char)) (b : Bool),
    ∀ fails, writeDoc fails nl d = run fails (setFirst (W.new nl) b) cs := by
  have h : Scripted (fun fails w =>
      d.foldl (fun w l => (fun (l : List Char × List AttrSpec) fails w =>
        l.2.foldl (fun w a => W.attrSpec fails w a) (W.link fails w l.1)) l fails w) w) :=
    Scripted.foldl _ (fun l => (scripted_link l.1).comp (Scripted.foldl _ scripted_attrSpec l.2)) d
  obtain ⟨cs, b, e⟩ := h true nl
  exact ⟨cs, b, fun fails => e fails (W.new nl) rfl rfl⟩

/-! ### facts about running a script under a fault schedule -/

theorem run_err (fails : Nat → Bool) (w : W) (cs : List (List Char)) (hw : w.error = true) :
    run fails w cs = w := by
  induction cs with
  | nil => rfl
  | cons c cs ih =>
    rw [run_cons]
    have : W.put fails w c = w := by simp [W.put, hw]
    rw [this, ih]

theorem run_ok (fails : Nat → Bool) (w : W) (cs : List (List Char)) (hw : w.error = false)
    (h : ∀ i, w.calls ≤ i → i < w.calls + cs.length → fails i = false) :
    run fails w cs = { w with calls := w.calls + cs.length, sink := w.sink ++ cs.flatten } := by
  induction cs generalizing w with
  | nil => cases w; simp [run]
  | cons c cs ih =>
    have h0 : fails w.calls = false := h _ (Nat.le_refl _) (by simp)
    have hp : W.put fails w c = { w with calls := w.calls + 1, sink := w.sink ++ c } := by
      simp [W.put, hw, h0]
    rw [run_cons, hp]
    refine (ih _ (by exact hw) ?_).trans ?_
    · intro i h1 h2
      apply h i
      · simp at h1; omega
      · simp at h2 ⊢; omega
    · simp [Nat.add_assoc, Nat.add_comm 1]

theorem run_fail (fails : Nat → Bool) (w : W) (cs : List (List Char)) (k : Nat)
    (hw : w.error = false) (hk1 : w.calls ≤ k) (hk2 : k < w.calls + cs.length)
    (hf : fails k = true) (hlt : ∀ i, w.calls ≤ i → i < k → fails i = false) :
    run fails w cs = { w with calls := k + 1, error := true,
                              sink := w.sink ++ (cs.take (k - w.calls)).flatten } := by
  induction cs generalizing w with
  | nil => simp at hk2; omega
  | cons c cs ih =>
    rw [run_cons]
    by_cases hk : k = w.calls
    · subst hk
      have hp : W.put fails w c = { w with calls := w.calls + 1, error := true } := by
        simp [W.put, hw, hf]
      rw [hp, run_err _ _ _ rfl]
      simp
    · have h0 : fails w.calls = false := hlt _ (Nat.le_refl _) (by omega)
      have hp : W.put fails w c = { w with calls := w.calls + 1, sink := w.sink ++ c } := by
        simp [W.put, hw, h0]
      rw [hp]
      refine (ih _ (by exact hw) ?_ ?_ ?_).trans ?_
      rotate_left 3
      · have : k - w.calls = (k - (w.calls + 1)) + 1 := by omega
        rw [this, List.take_succ_cons]
        simp
      · show w.calls + 1 ≤ k; omega
      · show k < w.calls + 1 + cs.length; simp at hk2; omega
      · intro i h1 h2
        exact hlt i (by simp at h1; omega) h2

theorem firstFail_none {fails : Nat → Bool} {n : Nat} (h : firstFail fails n = none) :
    ∀ i, i < n → fails i = false := by
  unfold firstFail at h
  rw [List.find?_range_eq_none] at h
  intro i hi
  simpa using h i hi

theorem firstFail_some {fails : Nat → Bool} {n k : Nat} (h : firstFail fails n = some k) :
    k < n ∧ fails k = true ∧ ∀ i, i < k → fails i = false := by
  unfold firstFail at h
  rw [List.find?_range_eq_some] at h
  refine ⟨by simpa using h.2.1, h.1, ?_⟩
  intro i hi
  simpa using h.2.2 i hi

theorem noFault_facts (nl : Bool) (d : Doc) {cs : List (List Char)} {b : Bool}
    (e : ∀ fails, writeDoc fails nl d = run fails (setFirst (W.new nl) b) cs) :
    (writeDoc noFault nl d).calls = cs.length ∧ (writeDoc noFault nl d).sink = cs.flatten ∧
    (writeDoc noFault nl d).error = false := by
  have e0 := run_ok noFault (setFirst (W.new nl) b) cs rfl (fun _ _ _ => rfl)
  rw [e noFault, e0]
  simp [setFirst, W.new]

theorem write_faults_aux (fails : Nat → Bool) (nl : Bool) (d : Doc) :
    ((writeDoc fails nl d).finish = false ↔
      ∃ k, k < (writeDoc noFault nl d).calls ∧ fails k = true) ∧
    (writeDoc fails nl d).sink <+: (writeDoc noFault nl d).sink ∧
    (match firstFail fails (writeDoc noFault nl d).calls with
     | some k => (writeDoc fails nl d).calls = k + 1 ∧ (writeDoc fails nl d).error = true
     | none => writeDoc fails nl d = writeDoc noFault nl d) := by
  obtain ⟨cs, b, e⟩ := writeDoc_script nl d
  obtain ⟨hc, hs, he⟩ := noFault_facts nl d e
  have e0 := run_ok noFault (setFirst (W.new nl) b) cs rfl (fun _ _ _ => rfl)
  rw [hc]
  cases hff : firstFail fails cs.length with
  | none =>
    have hall := firstFail_none hff
    have hw : writeDoc fails nl d = writeDoc noFault nl d := by
      rw [e fails, e noFault, e0,
        run_ok fails _ cs rfl (fun i _ hi => hall i (by simpa [setFirst, W.new] using hi))]
    refine ⟨?_, ?_, hw⟩
    · rw [hw]
      simp only [W.finish, he]
      constructor
      · intro h; simp at h
      · rintro ⟨k, hk, hfk⟩
        rw [hall k hk] at hfk
        simp at hfk
    · rw [hw]; exact List.prefix_refl _
  | some k =>
    obtain ⟨hk, hfk, hlt⟩ := firstFail_some hff
    have hr := run_fail fails (setFirst (W.new nl) b) cs k rfl (Nat.zero_le _)
      (by simpa [setFirst, W.new] using hk) hfk (fun i _ hi => hlt i hi)
    have hcalls : (writeDoc fails nl d).calls = k + 1 := by rw [e fails, hr]
    have herr : (writeDoc fails nl d).error = true := by rw [e fails, hr]
    have hsink : (writeDoc fails nl d).sink = (cs.take k).flatten := by
      rw [e fails, hr]; simp [setFirst, W.new]
    refine ⟨?_, ?_, hcalls, herr⟩
    · simp only [W.finish, herr]
      constructor
      · intro _; exact ⟨k, hk, hfk⟩
      · intro _; rfl
    · rw [hsink, hs]
      have : cs.flatten = (cs.take k).flatten ++ (cs.drop k).flatten := by
        rw [← List.flatten_append, List.take_append_drop]
      rw [this]
      exact List.prefix_append _ _

theorem sink_fail_eq (f g : Nat → Bool) (nl : Bool) (d : Doc) (k : Nat)
    (hk : k < (writeDoc noFault nl d).calls)
    (hf : f k = true) (hf' : ∀ i, i < k → f i = false)
    (hg : g k = true) (hg' : ∀ i, i < k → g i = false) :
    (writeDoc f nl d).sink = (writeDoc g nl d).sink := by
  obtain ⟨cs, b, e⟩ := writeDoc_script nl d
  obtain ⟨hc, _, _⟩ := noFault_facts nl d e
  rw [hc] at hk
  have hr1 := run_fail f (setFirst (W.new nl) b) cs k rfl (Nat.zero_le _)
      (by simpa [setFirst, W.new] using hk) hf (fun i _ hi => hf' i hi)
  have hr2 := run_fail g (setFirst (W.new nl) b) cs k rfl (Nat.zero_le _)
      (by simpa [setFirst, W.new] using hk) hg (fun i _ hi => hg' i hi)
  rw [e f, e g, hr1, hr2]

end P

/-- the fault-free run is complete and successful -/
theorem write_ok (nl : Bool) (d : Doc) :
    (writeDoc noFault nl d).finish = true ∧ (writeDoc noFault nl d).error = false := by
  obtain ⟨cs, b, e⟩ := P.writeDoc_script nl d
  obtain ⟨_, _, he⟩ := P.noFault_facts nl d e
  simp [W.finish, he]

/-- For every fault schedule: the result is an error iff some call that the
fault-free run issues fails; the sink holds a prefix of the fault-free output;
exactly the calls up to and including the first failing one are issued (no
write after the failure). -/
theorem write_faults (fails : Nat → Bool) (nl : Bool) (d : Doc) :
    let w := writeDoc fails nl d
    let w0 := writeDoc noFault nl d
    (w.finish = false ↔ ∃ k, k < w0.calls ∧ fails k = true) ∧
    w.sink <+: w0.sink ∧
    (match firstFail fails w0.calls with
     | some k => w.calls = k + 1 ∧ w.error = true
     | none => w = w0) := by
  exact P.write_faults_aux fails nl d

/-- the sink content after a failure at call `k` is exactly what the fault-free
run had written after its first `k` calls (the failed call contributes nothing) -/
theorem sink_at_failure (fails : Nat → Bool) (nl : Bool) (d : Doc) (k : Nat)
    (hk : firstFail fails (writeDoc noFault nl d).calls = some k) :
    (writeDoc fails nl d).sink =
      (writeDoc (fun i => decide (i ≥ k)) nl d).sink ∧
    (writeDoc fails nl d).sink = (writeDoc (fun i => decide (i = k)) nl d).sink := by
  obtain ⟨hk', hfk, hlt⟩ := P.firstFail_some hk
  constructor
  · apply P.sink_fail_eq fails _ nl d k hk' hfk hlt
    · simp
    · intro i hi; simp; omega
  · apply P.sink_fail_eq fails _ nl d k hk' hfk hlt
    · simp
    · intro i hi; simp; omega

end CoapLite.Link
