/-
Lemmas about the link-format writer model under an arbitrary sink fault
schedule.  Used by Props/C18.
-/
import CoapLite.Model.LinkFormat

namespace CoapLite.Link

/-- index of the first failing call among the first `n`, if any -/
def firstFail (fails : Nat → Bool) (n : Nat) : Option Nat :=
  (List.range n).find? fails

def noFault : Nat → Bool := fun _ => false

/-- the fault-free run is complete and successful -/
theorem write_ok (nl : Bool) (d : Doc) :
    (writeDoc noFault nl d).finish = true ∧ (writeDoc noFault nl d).error = false := by
  sorry

/-- For every fault schedule: the result is an error iff some call that the
fault-free run issues fails; the sink holds a prefix of the fault-free output;
exactly the calls up to and including the first failing one are issued (no
write after the failure). -/
theorem write_faults (fails : Nat → Bool) (nl : Bool) (d : Doc) :
    let w := writeDoc fails nl d
    let w0 := writeDoc noFault nl d
    (w.finish = false ↔ ∃ k, k < w0.calls ∧ fails k = true) ∧
    w.sink <+: w0.sink ∧
    (match firstFail fails w0.calls with
     | some k => w.calls = k + 1 ∧ w.error = true
     | none => w = w0) := by
  sorry

/-- the sink content after a failure at call `k` is exactly what the fault-free
run had written after its first `k` calls (the failed call contributes nothing) -/
theorem sink_at_failure (fails : Nat → Bool) (nl : Bool) (d : Doc) (k : Nat)
    (hk : firstFail fails (writeDoc noFault nl d).calls = some k) :
    (writeDoc fails nl d).sink =
      (writeDoc (fun i => decide (i ≥ k)) nl d).sink ∧
    (writeDoc fails nl d).sink = (writeDoc (fun i => decide (i = k)) nl d).sink := by
  sorry

end CoapLite.Link
