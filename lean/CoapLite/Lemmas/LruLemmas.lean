/-
Lemmas about the LRU/expiry cache model (Model/Lru.lean).  Used by Props/C20
and C12.
-/
import CoapLite.Model.Lru

namespace CoapLite.Lru
variable {K V : Type} [DecidableEq K]

/-- keys distinct, timestamps non-decreasing along the LRU list, and no
timestamp in the future of `now` -/
def Inv (c : Cache K V) (now : Nat) : Prop :=
  (c.entries.map (·.1)).Nodup ∧ (c.entries.map (·.2.2)).Pairwise (· ≤ ·) ∧
  ∀ e ∈ c.entries, e.2.2 ≤ now

theorem inv_empty (ttl now : Nat) : Inv (empty ttl : Cache K V) now := by
  sorry

/-- the invariant survives the passage of time -/
theorem inv_mono (c : Cache K V) (now now' : Nat) (h : Inv c now) (hle : now ≤ now') : Inv c now' := by
  sorry

theorem entry_inv (c : Cache K V) (k : K) (d : V) (now : Nat) (h : Inv c now) :
    Inv (entryOrInsert c k d now).1 now ∧ (entryOrInsert c k d now).1.ttl = c.ttl := by
  sorry

theorem store_inv (c : Cache K V) (k : K) (v : V) (now : Nat) (h : Inv c now) :
    Inv (store c k v) now ∧ (store c k v).ttl = c.ttl := by
  sorry

/-- `entry(..).or_insert(default)` hands out the live value, or the default when
the key is absent or its entry has been idle for longer than the expiry time -/
theorem entry_value (c : Cache K V) (k : K) (d : V) (now : Nat) (h : Inv c now) :
    (entryOrInsert c k d now).2 = (peek c k now).getD d := by
  sorry

/-- after `entry` + `store` the key holds the stored value, touched at `now`:
it is visible exactly until `now + ttl` -/
theorem peek_after_store_self (c : Cache K V) (k : K) (d v : V) (now now' : Nat)
    (h : Inv c now) (hle : now ≤ now') :
    peek (store (entryOrInsert c k d now).1 k v) k now' =
      if now' ≤ now + c.ttl then some v else none := by
  sorry

/-- retention / frame: a use of the cache for key `k` at `now` leaves the
effective entry of every other key unchanged, at `now` and at all later times -/
theorem peek_after_store_other (c : Cache K V) (k k' : K) (d v : V) (now now' : Nat)
    (h : Inv c now) (hne : k' ≠ k) (hle : now ≤ now') :
    peek (store (entryOrInsert c k d now).1 k v) k' now' = peek c k' now' := by
  sorry

/-- expiry: an entry idle for longer than `ttl` is never seen again -/
theorem peek_expired (c : Cache K V) (k : K) (v : V) (t now : Nat)
    (hf : find c k = some (v, t)) (hexp : t + c.ttl < now) : peek c k now = none := by
  sorry

/-- reclamation: after any use of the cache at `now`, no physical entry that had
expired by `now` remains (this is where sortedness matters: `remove_expired`
stops at the first live entry) -/
theorem reclaimed (c : Cache K V) (k : K) (d v : V) (now : Nat) (h : Inv c now) :
    ∀ e ∈ (store (entryOrInsert c k d now).1 k v).entries, now ≤ e.2.2 + c.ttl := by
  sorry

/-- the number of physical entries never exceeds the number of keys alive at
`now` plus the one just used -/
theorem entries_alive (c : Cache K V) (k : K) (d : V) (now : Nat) (h : Inv c now) :
    ∀ e ∈ (entryOrInsert c k d now).1.entries, e.1 = k ∨ (e ∈ c.entries ∧ alive c.ttl now e.2.2 = true) := by
  sorry

end CoapLite.Lru
