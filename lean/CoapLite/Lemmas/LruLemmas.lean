/-
Lemmas about the LRU/expiry cache model (Model/Lru.lean).  Used by Props/C20
and C12.
-/
import CoapLite.Model.Lru

namespace CoapLite.Lru
variable {K V : Type} [DecidableEq K]

/-- keys distinct, timestamps non-decreasing along the LRU list, and no
timestamp in the future of `now` -/
def Inv (c : Cache K V) (now : Nat) : Prop :=
  (c.entries.map (·.1)).Nodup ∧ (c.entries.map (·.2.2)).Pairwise (· ≤ ·) ∧
  ∀ e ∈ c.entries, e.2.2 ≤ now


/-! ### list-level helpers -/

/-- `find` at the level of the entry list -/
def lfind (l : List (K × V × Nat)) (k : K) : Option (V × Nat) :=
  (l.find? (fun e => e.1 = k)).map (·.2)

theorem find_eq_lfind (c : Cache K V) (k : K) : find c k = lfind c.entries k := rfl

theorem lfind_nil (k : K) : lfind ([] : List (K × V × Nat)) k = none := rfl

theorem lfind_cons (e : K × V × Nat) (l : List (K × V × Nat)) (k : K) :
    lfind (e :: l) k = if e.1 = k then some e.2 else lfind l k := by
  unfold lfind
  rw [List.find?_cons]
  by_cases h : e.1 = k <;> simp [h]

theorem lfind_some_mem {l : List (K × V × Nat)} {k : K} {p : V × Nat}
    (h : lfind l k = some p) : (k, p) ∈ l := by
  induction l with
  | nil => simp [lfind_nil] at h
  | cons e l ih =>
    rw [lfind_cons] at h
    by_cases he : e.1 = k
    · simp [he] at h
      have : e = (k, p) := by rw [← he, ← h]
      simp [this]
    · simp [he] at h
      exact List.mem_cons_of_mem _ (ih h)

theorem lfind_none_of_not_mem {l : List (K × V × Nat)} {k : K}
    (h : k ∉ l.map (·.1)) : lfind l k = none := by
  induction l with
  | nil => rfl
  | cons e l ih =>
    rw [lfind_cons]
    simp only [List.map_cons, List.mem_cons, not_or] at h
    have h1 : ¬ e.1 = k := fun h' => h.1 h'.symm
    simp [h1, ih h.2]

/-- find in `filter (key ≠ k) ++ [(k, v, now)]` -/
theorem lfind_filter_append (l : List (K × V × Nat)) (k k' : K) (v : V) (now : Nat) :
    lfind (l.filter (fun e' => e'.1 ≠ k) ++ [(k, v, now)]) k' =
      if k' = k then some (v, now) else lfind l k' := by
  induction l with
  | nil =>
    simp only [List.filter_nil, List.nil_append, lfind_cons, lfind_nil]
    by_cases h : k' = k
    · simp [h]
    · have : ¬ k = k' := fun h' => h h'.symm
      simp [h, this]
  | cons e l ih =>
    by_cases he : e.1 = k
    · have : (e :: l).filter (fun e' => e'.1 ≠ k) = l.filter (fun e' => e'.1 ≠ k) := by
        simp [he]
      rw [this, ih, lfind_cons]
      by_cases h : k' = k
      · simp [h]
      · have : ¬ e.1 = k' := fun h' => h (h'.symm.trans he)
        simp [h, this]
    · have : (e :: l).filter (fun e' => e'.1 ≠ k) = e :: l.filter (fun e' => e'.1 ≠ k) := by
        simp [he]
      rw [this, List.cons_append, lfind_cons, lfind_cons, ih]
      by_cases h : k' = k
      · subst h
        simp [he]
      · simp [h]

/-- find after `store` -/
theorem lfind_store (l : List (K × V × Nat)) (k k' : K) (v : V) :
    lfind (l.map (fun e => if e.1 = k then (e.1, v, e.2.2) else e)) k' =
      if k' = k then (lfind l k).map (fun p => (v, p.2)) else lfind l k' := by
  induction l with
  | nil => simp [lfind_nil]
  | cons e l ih =>
    rw [List.map_cons, lfind_cons, ih]
    simp only [lfind_cons]
    by_cases he : e.1 = k
    · by_cases h : k' = k
      · subst h; simp [he]
      · have : ¬ e.1 = k' := fun h' => h (h'.symm.trans he)
        have : ¬ k = k' := fun h' => h h'.symm
        simp [*]
    · by_cases h : k' = k
      · subst h; simp [he]
      · simp [he, h]

omit [DecidableEq K] in
theorem dropWhile_all_alive (ttl now : Nat) (l : List (K × V × Nat))
    (h : ∀ e ∈ l, alive ttl now e.2.2 = true) :
    l.dropWhile (fun e => !alive ttl now e.2.2) = l := by
  cases l with
  | nil => rfl
  | cons e l => simp [h e (List.mem_cons_self ..)]

omit [DecidableEq K] in
theorem alive_of_sorted_cons (ttl now : Nat) (e : K × V × Nat) (l : List (K × V × Nat))
    (hs : ((e :: l).map (·.2.2)).Pairwise (· ≤ ·)) (ha : alive ttl now e.2.2 = true) :
    ∀ e' ∈ e :: l, alive ttl now e'.2.2 = true := by
  intro e' he'
  rw [List.map_cons, List.pairwise_cons] at hs
  rcases List.mem_cons.1 he' with rfl | hm
  · exact ha
  · have := hs.1 e'.2.2 (List.mem_map.2 ⟨e', hm, rfl⟩)
    simp [alive] at ha ⊢
    omega

omit [DecidableEq K] in
theorem dropWhile_alive (ttl now : Nat) (l : List (K × V × Nat))
    (hs : (l.map (·.2.2)).Pairwise (· ≤ ·)) :
    ∀ e ∈ l.dropWhile (fun e => !alive ttl now e.2.2), alive ttl now e.2.2 = true := by
  induction l with
  | nil => simp
  | cons e l ih =>
    by_cases ha : alive ttl now e.2.2 = true
    · have : (e :: l).dropWhile (fun e => !alive ttl now e.2.2) = e :: l := by
        simp [ha]
      rw [this]
      exact alive_of_sorted_cons ttl now e l hs ha
    · have : (e :: l).dropWhile (fun e => !alive ttl now e.2.2) =
          l.dropWhile (fun e => !alive ttl now e.2.2) := by
        simp [ha]
      rw [this]
      rw [List.map_cons, List.pairwise_cons] at hs
      exact ih hs.2

theorem lfind_dropWhile (ttl now : Nat) (k : K) (l : List (K × V × Nat))
    (hnd : (l.map (·.1)).Nodup) (hs : (l.map (·.2.2)).Pairwise (· ≤ ·)) :
    lfind (l.dropWhile (fun e => !alive ttl now e.2.2)) k =
      (lfind l k).filter (fun p => alive ttl now p.2) := by
  induction l with
  | nil => rfl
  | cons e l ih =>
    by_cases ha : alive ttl now e.2.2 = true
    · have : (e :: l).dropWhile (fun e => !alive ttl now e.2.2) = e :: l := by
        simp [ha]
      rw [this]
      cases hf : lfind (e :: l) k with
      | none => rfl
      | some p =>
        have := alive_of_sorted_cons ttl now e l hs ha _ (lfind_some_mem hf)
        simp at this
        simp [Option.filter, this]
    · have : (e :: l).dropWhile (fun e => !alive ttl now e.2.2) =
          l.dropWhile (fun e => !alive ttl now e.2.2) := by
        simp [ha]
      rw [this]
      rw [List.map_cons, List.pairwise_cons] at hs
      rw [List.map_cons, List.nodup_cons] at hnd
      rw [ih hnd.2 hs.2, lfind_cons]
      by_cases he : e.1 = k
      · rw [lfind_none_of_not_mem (he ▸ hnd.1)]
        simp [he, Option.filter, ha]
      · simp [he]

/-! ### cache-level characterisations -/

theorem find_removeExpired (c : Cache K V) (k : K) (now : Nat) (h : Inv c now) :
    find (removeExpired c now) k = (find c k).filter (fun p => alive c.ttl now p.2) :=
  lfind_dropWhile c.ttl now k c.entries h.1 h.2.1

omit [DecidableEq K] in
theorem removeExpired_alive (c : Cache K V) (now : Nat) (h : Inv c now) :
    ∀ e ∈ (removeExpired c now).entries, alive c.ttl now e.2.2 = true :=
  dropWhile_alive c.ttl now c.entries h.2.1

omit [DecidableEq K] in
theorem removeExpired_sublist (c : Cache K V) (now : Nat) :
    (removeExpired c now).entries.Sublist c.entries :=
  (List.dropWhile_suffix _).sublist

theorem touch_of_find (c : Cache K V) (k : K) (v : V) (t now : Nat)
    (hf : find c k = some (v, t)) :
    touch c k now = ⟨c.entries.filter (fun e' => e'.1 ≠ k) ++ [(k, v, now)], c.ttl⟩ := by
  unfold find at hf
  unfold touch
  cases he : c.entries.find? (fun e => e.1 = k) with
  | none => simp [he] at hf
  | some e =>
    simp [he] at hf
    simp [hf]

theorem peek_eq (c : Cache K V) (k : K) (now : Nat) :
    peek c k now = ((find c k).filter (fun p => alive c.ttl now p.2)).map (·.1) := by
  unfold peek
  cases hf : find c k with
  | none => rfl
  | some p =>
    obtain ⟨v, t⟩ := p
    by_cases ha : alive c.ttl now t = true <;> simp [Option.filter, ha]

/-- the cache after `entry(k).or_insert(d)` at `now` -/
theorem entry_char (c : Cache K V) (k : K) (d : V) (now : Nat) (h : Inv c now) :
    entryOrInsert c k d now =
      (⟨(removeExpired c now).entries.filter (fun e' => e'.1 ≠ k) ++
          [(k, (peek c k now).getD d, now)], c.ttl⟩, (peek c k now).getD d) := by
  have hfr := find_removeExpired c k now h
  have hpk := peek_eq c k now
  unfold entryOrInsert
  cases hp : peek c k now with
  | some v0 =>
    rw [hp] at hpk
    cases hf : find c k with
    | none => simp [hf, Option.filter] at hpk
    | some p =>
      obtain ⟨v, t⟩ := p
      by_cases ha : alive c.ttl now t = true
      · simp [hf, Option.filter, ha] at hpk hfr
        subst hpk
        have ht := touch_of_find (removeExpired c now) k v0 t now hfr
        simp only [notifyGetMut, hfr, ht, Option.getD_some]
        rfl
      · simp [hf, Option.filter, ha] at hpk
  | none =>
    have hall : ∀ e ∈ (notifyInsert c k d now).entries, alive c.ttl now e.2.2 = true := by
      intro e he
      simp only [notifyInsert, List.mem_append, List.mem_filter, List.mem_singleton] at he
      rcases he with ⟨he, _⟩ | rfl
      · exact removeExpired_alive c now h e he
      · simp [alive]
    have hre : removeExpired (notifyInsert c k d now) now = notifyInsert c k d now := by
      show (⟨_, _⟩ : Cache K V) = _
      rw [show (notifyInsert c k d now).ttl = c.ttl from rfl, dropWhile_all_alive c.ttl now _ hall]
      rfl
    have hfi : find (notifyInsert c k d now) k = some (d, now) := by
      rw [find_eq_lfind]
      show lfind (_ ++ [(k, d, now)]) k = _
      rw [lfind_filter_append]; simp
    have ht := touch_of_find (notifyInsert c k d now) k d now now hfi
    simp only [notifyGetMut, hre, hfi, ht, Option.getD_none]
    simp [notifyInsert, List.filter_append, List.filter_filter]
    rfl

theorem inv_filter_append (c : Cache K V) (l : List (K × V × Nat)) (k : K) (v : V)
    (now ttl : Nat) (h : Inv c now) (hl : l.Sublist c.entries) :
    Inv ⟨l.filter (fun e' => e'.1 ≠ k) ++ [(k, v, now)], ttl⟩ now := by
  have hsub : (l.filter (fun e' => e'.1 ≠ k)).Sublist c.entries :=
    (List.filter_sublist).trans hl
  have hb : ∀ e ∈ l.filter (fun e' => e'.1 ≠ k), e.2.2 ≤ now :=
    fun e he => h.2.2 e (hsub.subset he)
  refine ⟨?_, ?_, ?_⟩
  · show ((l.filter (fun e' => e'.1 ≠ k) ++ [(k, v, now)]).map (·.1)).Nodup
    rw [List.map_append, List.nodup_append]
    refine ⟨h.1.sublist (hsub.map _), by simp, ?_⟩
    intro a ha b hb
    simp only [List.map_cons, List.map_nil, List.mem_singleton] at hb
    subst hb
    simp only [List.mem_map, List.mem_filter] at ha
    obtain ⟨e, ⟨_, hne⟩, rfl⟩ := ha
    simpa using hne
  · show ((l.filter (fun e' => e'.1 ≠ k) ++ [(k, v, now)]).map (·.2.2)).Pairwise (· ≤ ·)
    rw [List.map_append, List.pairwise_append]
    refine ⟨h.2.1.sublist (hsub.map _), by simp, ?_⟩
    intro a ha b hb'
    simp only [List.map_cons, List.map_nil, List.mem_singleton] at hb'
    subst hb'
    obtain ⟨e, he, rfl⟩ := List.mem_map.1 ha
    exact hb e he
  · intro e he
    rcases List.mem_append.1 he with he | he
    · exact hb e he
    · simp only [List.mem_singleton] at he
      subst he
      exact Nat.le_refl _

theorem store_map_fst (c : Cache K V) (k : K) (v : V) :
    (store c k v).entries.map (·.1) = c.entries.map (·.1) := by
  unfold store
  simp only [List.map_map]
  apply List.map_congr_left
  intro e _
  by_cases he : e.1 = k <;> simp [he]

theorem store_map_time (c : Cache K V) (k : K) (v : V) :
    (store c k v).entries.map (·.2.2) = c.entries.map (·.2.2) := by
  unfold store
  simp only [List.map_map]
  apply List.map_congr_left
  intro e _
  by_cases he : e.1 = k <;> simp [he]

theorem mem_store_time (c : Cache K V) (k : K) (v : V) (e : K × V × Nat)
    (he : e ∈ (store c k v).entries) : ∃ e0 ∈ c.entries, e.2.2 = e0.2.2 := by
  unfold store at he
  obtain ⟨e0, he0, rfl⟩ := List.mem_map.1 he
  refine ⟨e0, he0, ?_⟩
  by_cases h : e0.1 = k <;> simp [h]

theorem find_store_entry (c : Cache K V) (k k' : K) (d v : V) (now : Nat) (h : Inv c now) :
    find (store (entryOrInsert c k d now).1 k v) k' =
      if k' = k then some (v, now) else find (removeExpired c now) k' := by
  rw [entry_char c k d now h, find_eq_lfind]
  show lfind (List.map _ (_ ++ [(k, (peek c k now).getD d, now)])) k' = _
  rw [lfind_store]
  simp only [lfind_filter_append]
  by_cases hk : k' = k
  · simp [hk]
  · simp only [if_neg hk]; rfl

theorem store_entry_ttl (c : Cache K V) (k : K) (d v : V) (now : Nat) (h : Inv c now) :
    (store (entryOrInsert c k d now).1 k v).ttl = c.ttl := by
  rw [entry_char c k d now h]; rfl

omit [DecidableEq K] in
theorem inv_empty (ttl now : Nat) : Inv (empty ttl : Cache K V) now := by
  exact ⟨List.nodup_nil, List.Pairwise.nil, fun e he => by cases he⟩

omit [DecidableEq K] in
/-- the invariant survives the passage of time -/
theorem inv_mono (c : Cache K V) (now now' : Nat) (h : Inv c now) (hle : now ≤ now') : Inv c now' := by
  exact ⟨h.1, h.2.1, fun e he => Nat.le_trans (h.2.2 e he) hle⟩

theorem entry_inv (c : Cache K V) (k : K) (d : V) (now : Nat) (h : Inv c now) :
    Inv (entryOrInsert c k d now).1 now ∧ (entryOrInsert c k d now).1.ttl = c.ttl := by
  rw [entry_char c k d now h]
  exact ⟨inv_filter_append c _ k _ now c.ttl h (removeExpired_sublist c now), rfl⟩

theorem store_inv (c : Cache K V) (k : K) (v : V) (now : Nat) (h : Inv c now) :
    Inv (store c k v) now ∧ (store c k v).ttl = c.ttl := by
  refine ⟨⟨?_, ?_, ?_⟩, rfl⟩
  · rw [store_map_fst]; exact h.1
  · rw [store_map_time]; exact h.2.1
  · intro e he
    obtain ⟨e0, he0, heq⟩ := mem_store_time c k v e he
    rw [heq]; exact h.2.2 e0 he0

/-- `entry(..).or_insert(default)` hands out the live value, or the default when
the key is absent or its entry has been idle for longer than the expiry time -/
theorem entry_value (c : Cache K V) (k : K) (d : V) (now : Nat) (h : Inv c now) :
    (entryOrInsert c k d now).2 = (peek c k now).getD d := by
  rw [entry_char c k d now h]

/-- after `entry` + `store` the key holds the stored value, touched at `now`:
it is visible exactly until `now + ttl` -/
theorem peek_after_store_self (c : Cache K V) (k : K) (d v : V) (now now' : Nat)
    (h : Inv c now) (hle : now ≤ now') :
    peek (store (entryOrInsert c k d now).1 k v) k now' =
      if now' ≤ now + c.ttl then some v else none := by
  have _ := hle
  rw [peek_eq, find_store_entry c k k d v now h, store_entry_ttl c k d v now h]
  by_cases hn : now' ≤ now + c.ttl
  · simp [Option.filter, alive, hn]
  · simp [Option.filter, alive, hn]

/-- retention / frame: a use of the cache for key `k` at `now` leaves the
effective entry of every other key unchanged, at `now` and at all later times -/
theorem peek_after_store_other (c : Cache K V) (k k' : K) (d v : V) (now now' : Nat)
    (h : Inv c now) (hne : k' ≠ k) (hle : now ≤ now') :
    peek (store (entryOrInsert c k d now).1 k v) k' now' = peek c k' now' := by
  rw [peek_eq, find_store_entry c k k' d v now h, store_entry_ttl c k d v now h, if_neg hne,
    find_removeExpired c k' now h, peek_eq c k' now']
  cases hf : find c k' with
  | none => rfl
  | some p =>
    by_cases ha : alive c.ttl now p.2 = true
    · simp [Option.filter, ha]
    · have ha' : alive c.ttl now' p.2 = false := by
        simp [alive] at ha ⊢; omega
      simp [Option.filter, ha, ha']

/-- expiry: an entry idle for longer than `ttl` is never seen again -/
theorem peek_expired (c : Cache K V) (k : K) (v : V) (t now : Nat)
    (hf : find c k = some (v, t)) (hexp : t + c.ttl < now) : peek c k now = none := by
  unfold peek
  rw [hf]
  have : alive c.ttl now t = false := by simp [alive]; omega
  simp [this]

/-- reclamation: after any use of the cache at `now`, no physical entry that had
expired by `now` remains (this is where sortedness matters: `remove_expired`
stops at the first live entry) -/
theorem reclaimed (c : Cache K V) (k : K) (d v : V) (now : Nat) (h : Inv c now) :
    ∀ e ∈ (store (entryOrInsert c k d now).1 k v).entries, now ≤ e.2.2 + c.ttl := by
  intro e he
  obtain ⟨e0, he0, heq⟩ := mem_store_time _ k v e he
  rw [heq]
  rw [entry_char c k d now h] at he0
  rcases List.mem_append.1 he0 with he0 | he0
  · have := removeExpired_alive c now h e0 (List.mem_filter.1 he0).1
    simpa [alive] using this
  · simp only [List.mem_singleton] at he0
    subst he0
    exact Nat.le_add_right _ _

/-- the number of physical entries never exceeds the number of keys alive at
`now` plus the one just used -/
theorem entries_alive (c : Cache K V) (k : K) (d : V) (now : Nat) (h : Inv c now) :
    ∀ e ∈ (entryOrInsert c k d now).1.entries, e.1 = k ∨ (e ∈ c.entries ∧ alive c.ttl now e.2.2 = true) := by
  intro e he
  rw [entry_char c k d now h] at he
  rcases List.mem_append.1 he with he | he
  · have hm := (List.mem_filter.1 he).1
    exact Or.inr ⟨(removeExpired_sublist c now).subset hm, removeExpired_alive c now h e hm⟩
  · simp only [List.mem_singleton] at he
    subst he
    exact Or.inl rfl

end CoapLite.Lru
