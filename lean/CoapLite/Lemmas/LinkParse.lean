/-
Lemmas about the link-format parser model (Model/LinkFormat.lean): slices,
order, fusedness, fuel sufficiency, and agreement of the two unquoting paths.
Used by Props/C17.
-/
import CoapLite.Model.LinkFormat

namespace CoapLite.Link

/-- `x` is a slice of `input`: its characters are those of `input` at `x.off` -/
def IsSlice (input : List Char) (x : Sl) : Prop :=
  x.off + x.s.length ≤ input.length ∧ x.s = (input.drop x.off).take x.s.length

/-- end offset of a slice -/
def Sl.stop (x : Sl) : Nat := x.off + x.s.length

/-- the literal `""` yielded for an attribute without '=' -/
def IsEmptyLit (x : Sl) : Prop := x.s = []

theorem toCow_eq_unquote (s : List Char) : toCow s = unquote s := by
  sorry

/-- every yielded target and attribute block is a slice of the input -/
theorem parseLinks_slices (input : List Char) :
    ∀ it ∈ parseLinks input, ∀ t a, it = .link t a → IsSlice input t ∧ IsSlice input a := by
  sorry

/-- … in left-to-right order: each link's target precedes its attribute block,
which precedes the next link's target -/
theorem parseLinks_ordered (input : List Char) :
    (parseLinks input).Pairwise (fun x y =>
      ∀ t a t' a', x = .link t a → y = .link t' a' →
        t.stop ≤ t'.off ∧ (a.s ≠ [] → t.stop ≤ a.off ∧ a.stop ≤ t'.off)) := by
  sorry

/-- nothing is yielded after the first reported error -/
theorem parseLinks_error_last (input : List Char) (i : Nat) (h : i < (parseLinks input).length)
    (he : (parseLinks input)[i] = .error) : i + 1 = (parseLinks input).length := by
  sorry

/-- the fuel bound is not what ends the iteration: with any larger fuel the
result is the same (every step that yields an item consumes at least one
character), i.e. iteration terminates on its own -/
theorem linkAll_fuel (input : List Char) (extra : Nat) :
    linkAll (input.length + 1 + extra) { off := 0, s := input } = parseLinks input := by
  sorry

/-- attribute keys and raw values are slices of the attribute block's input (or
the empty literal), keys before values, attributes left to right -/
theorem parseAttrs_slices (input : List Char) (a : Sl) (ha : IsSlice input a) :
    ∀ kv ∈ parseAttrs a,
      (IsSlice input kv.1 ∨ kv.1.s = []) ∧ (IsSlice input kv.2 ∨ IsEmptyLit kv.2) ∧
      (kv.1.s ≠ [] → kv.2.s ≠ [] → kv.1.stop ≤ kv.2.off) ∧
      (kv.1.s ≠ [] → a.off ≤ kv.1.off ∧ kv.1.stop ≤ a.stop) ∧
      (kv.2.s ≠ [] → a.off ≤ kv.2.off ∧ kv.2.stop ≤ a.stop) := by
  sorry

theorem parseAttrs_ordered (a : Sl) :
    (parseAttrs a).Pairwise (fun x y =>
      (x.1.s ≠ [] → y.1.s ≠ [] → x.1.stop ≤ y.1.off) ∧
      (x.2.s ≠ [] → y.1.s ≠ [] → x.2.stop ≤ y.1.off) ∧
      (x.2.s ≠ [] → y.2.s ≠ [] → x.2.stop ≤ y.2.off)) := by
  sorry

theorem attrAll_fuel (a : Sl) (extra : Nat) :
    attrAll (a.s.length + 1 + extra) a = parseAttrs a := by
  sorry

end CoapLite.Link
