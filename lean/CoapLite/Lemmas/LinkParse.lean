/-
Lemmas about the link-format parser model (Model/LinkFormat.lean): slices,
order, fusedness, fuel sufficiency, and agreement of the two unquoting paths.
Used by Props/C17.
-/
import CoapLite.Model.LinkFormat
import CoapLite.Lemmas.LinkBasic

namespace CoapLite.Link

/-- `x` is a slice of `input`: its characters are those of `input` at `x.off` -/
def IsSlice (input : List Char) (x : Sl) : Prop :=
  x.off + x.s.length ≤ input.length ∧ x.s = (input.drop x.off).take x.s.length

/-- end offset of a slice -/
def Sl.stop (x : Sl) : Nat := x.off + x.s.length

/-- the literal `""` yielded for an attribute without '=' -/
def IsEmptyLit (x : Sl) : Prop := x.s = []

namespace P

/-! ### unquoting, slices -/

theorem unqQuoted_noesc (rest : List Char) (h : '\\' ∉ rest) :
    unqQuoted rest = rest.takeWhile (· ≠ '"') := by
  induction rest with
  | nil => simp [unqQuoted]
  | cons c cs ih =>
    have hc : c ≠ '\\' := fun e => h (by simp [e])
    have hcs : '\\' ∉ cs := fun e => h (by simp [e])
    unfold unqQuoted
    by_cases h1 : c = '"'
    · simp [h1]
    · simp [h1, hc, ih hcs]

theorem isSlice_iff (input : List Char) (y : Sl) : IsSlice input y ↔ Sub y ⟨0, input⟩ := by
  constructor
  · rintro ⟨h1, h2⟩
    refine ⟨input.take y.off, input.drop (y.off + y.s.length), ?_, ?_⟩
    · show input = _
      have h3 := List.take_append_drop y.s.length (input.drop y.off)
      rw [← h2, List.drop_drop] at h3
      rw [List.append_assoc, h3, List.take_append_drop]
    · simp [List.length_take]; omega
  · rintro ⟨pre, post, e, o⟩
    simp at e o
    subst e
    constructor
    · simp; omega
    · rw [o]; simp

/-! ### link iterator -/

def lkAfter (inner : Sl) : Sl := inner.drop (inner.s.takeWhile isAsciiWs).length
def lkRef (inner : Sl) : Sl := (lkAfter inner).drop 1
def lkN (inner : Sl) : Nat := scanGt (lkRef inner).s
def lkTarget (inner : Sl) : Sl := ((lkRef inner).take (lkN inner)).trimEnd (· = '>')
def lkKeys (inner : Sl) : Sl := (lkRef inner).drop (lkN inner)
def lkM (inner : Sl) : Nat := scanSep ',' (lkKeys inner).s false
def lkAttrs (inner : Sl) : Sl :=
  (((lkKeys inner).take (lkM inner)).trimEnd (· = ',')).trimBoth (· = ';')
def lkNext (inner : Sl) : Sl := (lkKeys inner).drop (lkM inner)
def lkEmpty (inner : Sl) : Sl := { off := inner.off + inner.s.length, s := [] }

theorem linkNext_eq (inner : Sl) : linkNext inner =
    if inner.s.isEmpty then (none, inner)
    else match (lkAfter inner).s with
      | [] => (none, lkEmpty inner)
      | c :: _ =>
        if c ≠ '<' then (some .error, lkEmpty inner)
        else (some (.link (lkTarget inner) (lkAttrs inner)), lkNext inner) := rfl

theorem linkNext_cases (inner : Sl) :
    (linkNext inner).1 = none ∨
    (inner.s ≠ [] ∧ linkNext inner = (some .error, lkEmpty inner)) ∨
    (inner.s ≠ [] ∧ (lkAfter inner).s ≠ [] ∧
      linkNext inner = (some (.link (lkTarget inner) (lkAttrs inner)), lkNext inner)) := by
  rw [linkNext_eq]
  split
  · left; rfl
  · rename_i hne
    have hne' : inner.s ≠ [] := by simpa using hne
    split
    · left; rfl
    · rename_i c rest hc
      split
      · right; left; exact ⟨hne', rfl⟩
      · right; right; exact ⟨hne', by simp [hc], rfl⟩

/-- facts about one successful link step -/
theorem link_step (inner : Sl) (h : (lkAfter inner).s ≠ []) :
    Sub (lkTarget inner) inner ∧ Sub (lkAttrs inner) inner ∧ Sub (lkNext inner) inner ∧
    (lkTarget inner).off + (lkTarget inner).s.length ≤ (lkAttrs inner).off ∧
    (lkTarget inner).off + (lkTarget inner).s.length ≤ (lkNext inner).off ∧
    (lkAttrs inner).off + (lkAttrs inner).s.length ≤ (lkNext inner).off ∧
    (lkNext inner).s.length < inner.s.length := by
  have s1 : Sub (lkAfter inner) inner := sub_drop _ _
  have s2 : Sub (lkRef inner) inner := (sub_drop _ _).trans s1
  have s3 : Sub (lkKeys inner) inner := (sub_drop _ _).trans s2
  have t1 : Sub (lkTarget inner) ((lkRef inner).take (lkN inner)) := sub_trimEnd _ _
  have a1 : Sub (lkAttrs inner) ((lkKeys inner).take (lkM inner)) :=
    (sub_trimBoth _ _).trans (sub_trimEnd _ _)
  have b1 := t1.bounds
  have b2 := a1.bounds
  have k1 : (lkKeys inner).off = (lkRef inner).off + min (lkN inner) (lkRef inner).s.length := rfl
  have n1 : (lkNext inner).off = (lkKeys inner).off + min (lkM inner) (lkKeys inner).s.length := rfl
  have ts := take_stop (lkRef inner) (lkN inner)
  have as := take_stop (lkKeys inner) (lkM inner)
  have to := take_off (lkRef inner) (lkN inner)
  have ao := take_off (lkKeys inner) (lkM inner)
  refine ⟨(t1.trans (sub_take _ _)).trans s2, (a1.trans (sub_take _ _)).trans s3,
    (sub_drop _ _).trans s3, by omega, by omega, by omega, ?_⟩
  have l1 : (lkNext inner).s.length ≤ (lkKeys inner).s.length := by simp [lkNext, Sl.drop]
  have l2 : (lkKeys inner).s.length ≤ (lkRef inner).s.length := by simp [lkKeys, Sl.drop]
  have l3 : (lkRef inner).s.length < (lkAfter inner).s.length := by
    have : 0 < (lkAfter inner).s.length := List.length_pos_iff.mpr h
    simp [lkRef, Sl.drop]; omega
  have l4 : (lkAfter inner).s.length ≤ inner.s.length := by simp [lkAfter, Sl.drop]
  omega


theorem sub_lkEmpty (inner : Sl) : Sub (lkEmpty inner) inner :=
  ⟨inner.s, [], by simp [lkEmpty], rfl⟩

theorem linkNext_some {inner inner' : Sl} {it : Item} (h : linkNext inner = (some it, inner')) :
    inner'.s.length < inner.s.length ∧ Sub inner' inner ∧
    (it = .error → inner'.s = []) ∧
    (∀ t a, it = .link t a → Sub t inner ∧ Sub a inner ∧
      t.off + t.s.length ≤ a.off ∧ t.off + t.s.length ≤ inner'.off ∧
      a.off + a.s.length ≤ inner'.off) := by
  rcases linkNext_cases inner with h1 | ⟨hne, h2⟩ | ⟨hne, hafter, h3⟩
  · rw [h] at h1; cases h1
  · rw [h] at h2
    injection h2 with e1 e2
    injection e1 with e1
    subst e1 e2
    refine ⟨?_, sub_lkEmpty inner, fun _ => rfl, fun t a e => by cases e⟩
    exact List.length_pos_iff.mpr hne
  · rw [h] at h3
    injection h3 with e1 e2
    injection e1 with e1
    subst e1 e2
    obtain ⟨s1, s2, s3, o1, o2, o3, l⟩ := link_step inner hafter
    refine ⟨l, s3, (fun e => by cases e), ?_⟩
    intro t a e
    injection e with e1 e2
    subst e1 e2
    exact ⟨s1, s2, o1, o2, o3⟩

theorem linkAll_none {inner : Sl} (fuel : Nat) (h : (linkNext inner).1 = none) :
    linkAll (fuel + 1) inner = [] := by
  unfold linkAll
  split
  · rfl
  · rename_i heq; rw [heq] at h; cases h

theorem linkAll_some {inner inner' : Sl} {it : Item} (fuel : Nat)
    (h : linkNext inner = (some it, inner')) :
    linkAll (fuel + 1) inner = it :: linkAll fuel inner' := by
  simp only [linkAll, h]

theorem linkNext_nil {inner : Sl} (h : inner.s = []) : (linkNext inner).1 = none := by
  rw [linkNext_eq]; simp [h]

theorem linkAll_nil (fuel : Nat) {inner : Sl} (h : inner.s = []) : linkAll fuel inner = [] := by
  cases fuel with
  | zero => rfl
  | succ n => exact linkAll_none n (linkNext_nil h)

/-- case analysis of one iteration -/
theorem linkAll_cases (fuel : Nat) (inner : Sl) :
    linkAll (fuel + 1) inner = [] ∨
    ∃ it inner', linkNext inner = (some it, inner') ∧
      linkAll (fuel + 1) inner = it :: linkAll fuel inner' := by
  cases h : linkNext inner with
  | mk o inner' =>
    cases o with
    | none => left; exact linkAll_none fuel (by rw [h])
    | some it => right; exact ⟨it, inner', rfl, linkAll_some fuel h⟩

theorem linkAll_sub (fuel : Nat) (inner : Sl) :
    ∀ it ∈ linkAll fuel inner, ∀ t a, it = .link t a → Sub t inner ∧ Sub a inner := by
  induction fuel generalizing inner with
  | zero => intro it h; cases h
  | succ n ih =>
    rcases linkAll_cases n inner with h | ⟨it0, inner', hn, h⟩
    · rw [h]; intro it h; cases h
    · rw [h]
      obtain ⟨_, hs, _, hl⟩ := linkNext_some hn
      intro it hm t a e
      rcases List.mem_cons.mp hm with rfl | hm
      · obtain ⟨s1, s2, _⟩ := hl t a e
        exact ⟨s1, s2⟩
      · obtain ⟨s1, s2⟩ := ih inner' it hm t a e
        exact ⟨s1.trans hs, s2.trans hs⟩

theorem linkAll_ordered (fuel : Nat) (inner : Sl) :
    (linkAll fuel inner).Pairwise (fun x y =>
      ∀ t a t' a', x = .link t a → y = .link t' a' →
        t.off + t.s.length ≤ t'.off ∧
        (a.s ≠ [] → t.off + t.s.length ≤ a.off ∧ a.off + a.s.length ≤ t'.off)) := by
  induction fuel generalizing inner with
  | zero => exact List.Pairwise.nil
  | succ n ih =>
    rcases linkAll_cases n inner with h | ⟨it0, inner', hn, h⟩
    · rw [h]; exact List.Pairwise.nil
    · rw [h, List.pairwise_cons]
      refine ⟨?_, ih inner'⟩
      obtain ⟨_, _, _, hl⟩ := linkNext_some hn
      intro y hy t a t' a' e1 e2
      obtain ⟨_, _, o1, o2, o3⟩ := hl t a e1
      obtain ⟨s1, _⟩ := linkAll_sub n inner' y hy t' a' e2
      have := s1.bounds
      exact ⟨by omega, fun _ => ⟨o1, by omega⟩⟩

theorem linkAll_error_last (fuel : Nat) (inner : Sl) (i : Nat)
    (h : i < (linkAll fuel inner).length) (he : (linkAll fuel inner)[i] = .error) :
    i + 1 = (linkAll fuel inner).length := by
  induction fuel generalizing inner i with
  | zero => simp [linkAll] at h
  | succ n ih =>
    rcases linkAll_cases n inner with h0 | ⟨it0, inner', hn, h0⟩
    · rw [h0] at h; simp at h
    · obtain ⟨_, _, herr, _⟩ := linkNext_some hn
      simp only [h0] at he h ⊢
      cases i with
      | zero =>
        simp at he
        rw [linkAll_nil n (herr he)]
        rfl
      | succ j =>
        simp at he h ⊢
        exact ih inner' j h he

theorem linkAll_fuel_indep (fuel : Nat) (inner : Sl) (hf : inner.s.length < fuel) (extra : Nat) :
    linkAll (fuel + extra) inner = linkAll fuel inner := by
  induction fuel generalizing inner with
  | zero => omega
  | succ n ih =>
    have e : n + 1 + extra = (n + extra) + 1 := by omega
    rw [e]
    cases h : linkNext inner with
    | mk o inner' =>
      cases o with
      | none => rw [linkAll_none _ (by rw [h]), linkAll_none _ (by rw [h])]
      | some it =>
        rw [linkAll_some _ h, linkAll_some _ h]
        obtain ⟨hl, _⟩ := linkNext_some h
        rw [ih inner' (by omega)]

/-! ### attribute iterator -/

def atN (inner : Sl) : Nat := scanSep ';' inner.s false
def atStr (inner : Sl) : Sl := (inner.take (atN inner)).trimEnd (· = ';')
def atNext (inner : Sl) : Sl := inner.drop (atN inner)

theorem attrNext_eq (inner : Sl) : attrNext inner =
    if inner.s.isEmpty then (none, inner)
    else match findEq (atStr inner).s with
      | some i => (some (((atStr inner).take i).trimBoth isWs,
                         ((atStr inner).drop (i + 1)).trimBoth isWs), atNext inner)
      | none => (some ((atStr inner).trimBoth isWs, { off := 0, s := [] }), atNext inner) := rfl

theorem scanSep_pos (sep : Char) (l : List Char) (h : l ≠ []) : 1 ≤ scanSep sep l false := by
  cases l with
  | nil => exact absurd rfl h
  | cons c cs =>
    simp only [scanSep]
    split
    · omega
    · split <;> omega

theorem attrNext_nil {inner : Sl} (h : inner.s = []) : (attrNext inner).1 = none := by
  rw [attrNext_eq]; simp [h]

theorem attrNext_some {inner inner' : Sl} {kv : Sl × Sl} (h : attrNext inner = (some kv, inner')) :
    inner'.s.length < inner.s.length ∧ Sub inner' inner ∧ Sub kv.1 inner ∧
    (Sub kv.2 inner ∨ kv.2 = { off := 0, s := [] }) ∧
    kv.1.off + kv.1.s.length ≤ inner'.off ∧
    (kv.2.s ≠ [] → kv.1.off + kv.1.s.length ≤ kv.2.off ∧ kv.2.off + kv.2.s.length ≤ inner'.off) := by
  rw [attrNext_eq] at h
  split at h
  · cases h
  · rename_i hne
    have hne' : inner.s ≠ [] := by simpa using hne
    have hpos : 0 < inner.s.length := List.length_pos_iff.mpr hne'
    have hn : 1 ≤ atN inner := scanSep_pos _ _ hne'
    have s0 : Sub (atStr inner) (inner.take (atN inner)) := sub_trimEnd _ _
    have s1 : Sub (atStr inner) inner := s0.trans (sub_take _ _)
    have b0 := s0.bounds
    have ts := take_stop inner (atN inner)
    have to := take_off inner (atN inner)
    have no : (atNext inner).off = inner.off + min (atN inner) inner.s.length := rfl
    have nl : (atNext inner).s.length < inner.s.length := by
      simp [atNext, Sl.drop]; omega
    split at h
    · rename_i i hi
      injection h with e1 e2
      injection e1 with e1
      subst e1 e2
      have k1 : Sub (((atStr inner).take i).trimBoth isWs) ((atStr inner).take i) := sub_trimBoth _ _
      have v1 : Sub (((atStr inner).drop (i + 1)).trimBoth isWs) ((atStr inner).drop (i + 1)) :=
        sub_trimBoth _ _
      have kb := k1.bounds
      have vb := v1.bounds
      have ks := take_stop (atStr inner) i
      have ko := take_off (atStr inner) i
      have vs := drop_stop (atStr inner) (i + 1)
      have vo := drop_off (atStr inner) (i + 1)
      refine ⟨nl, sub_drop _ _, (k1.trans (sub_take _ _)).trans s1,
        Or.inl ((v1.trans (sub_drop _ _)).trans s1), ?_, fun _ => ⟨?_, ?_⟩⟩
      · dsimp only; omega
      · dsimp only; omega
      · dsimp only; omega
    · injection h with e1 e2
      injection e1 with e1
      subst e1 e2
      have k1 : Sub ((atStr inner).trimBoth isWs) (atStr inner) := sub_trimBoth _ _
      have kb := k1.bounds
      refine ⟨nl, sub_drop _ _, k1.trans s1, Or.inr rfl, ?_, fun hh => absurd rfl hh⟩
      dsimp only; omega

theorem attrAll_none {inner : Sl} (fuel : Nat) (h : (attrNext inner).1 = none) :
    attrAll (fuel + 1) inner = [] := by
  unfold attrAll
  split
  · rfl
  · rename_i heq; rw [heq] at h; cases h

theorem attrAll_some {inner inner' : Sl} {kv : Sl × Sl} (fuel : Nat)
    (h : attrNext inner = (some kv, inner')) :
    attrAll (fuel + 1) inner = kv :: attrAll fuel inner' := by
  simp only [attrAll, h]

theorem attrAll_cases (fuel : Nat) (inner : Sl) :
    attrAll (fuel + 1) inner = [] ∨
    ∃ kv inner', attrNext inner = (some kv, inner') ∧
      attrAll (fuel + 1) inner = kv :: attrAll fuel inner' := by
  cases h : attrNext inner with
  | mk o inner' =>
    cases o with
    | none => left; exact attrAll_none fuel (by rw [h])
    | some kv => right; exact ⟨kv, inner', rfl, attrAll_some fuel h⟩

theorem attrAll_sub (fuel : Nat) (inner : Sl) :
    ∀ kv ∈ attrAll fuel inner, Sub kv.1 inner ∧ (Sub kv.2 inner ∨ kv.2 = { off := 0, s := [] }) ∧
      (kv.2.s ≠ [] → kv.1.off + kv.1.s.length ≤ kv.2.off) := by
  induction fuel generalizing inner with
  | zero => intro kv h; cases h
  | succ n ih =>
    rcases attrAll_cases n inner with h | ⟨kv0, inner', hn, h⟩
    · rw [h]; intro kv h; cases h
    · rw [h]
      obtain ⟨_, hs, h1, h2, _, h3⟩ := attrNext_some hn
      intro kv hm
      rcases List.mem_cons.mp hm with rfl | hm
      · exact ⟨h1, h2, fun hh => (h3 hh).1⟩
      · obtain ⟨s1, s2, s3⟩ := ih inner' kv hm
        exact ⟨s1.trans hs, s2.imp (fun s => s.trans hs) id, s3⟩

theorem attrAll_ordered (fuel : Nat) (inner : Sl) :
    (attrAll fuel inner).Pairwise (fun x y =>
      (x.1.s ≠ [] → y.1.s ≠ [] → x.1.off + x.1.s.length ≤ y.1.off) ∧
      (x.2.s ≠ [] → y.1.s ≠ [] → x.2.off + x.2.s.length ≤ y.1.off) ∧
      (x.2.s ≠ [] → y.2.s ≠ [] → x.2.off + x.2.s.length ≤ y.2.off)) := by
  induction fuel generalizing inner with
  | zero => exact List.Pairwise.nil
  | succ n ih =>
    rcases attrAll_cases n inner with h | ⟨kv0, inner', hn, h⟩
    · rw [h]; exact List.Pairwise.nil
    · rw [h, List.pairwise_cons]
      refine ⟨?_, ih inner'⟩
      obtain ⟨_, _, _, _, o1, o2⟩ := attrNext_some hn
      intro y hy
      obtain ⟨s1, s2, _⟩ := attrAll_sub n inner' y hy
      have b1 := s1.bounds
      refine ⟨fun _ _ => by omega, fun hx _ => by have := (o2 hx).2; omega, fun hx hy2 => ?_⟩
      rcases s2 with s2 | s2
      · have b2 := s2.bounds
        have := (o2 hx).2
        omega
      · rw [s2] at hy2; exact absurd rfl hy2

theorem attrAll_fuel_indep (fuel : Nat) (inner : Sl) (hf : inner.s.length < fuel) (extra : Nat) :
    attrAll (fuel + extra) inner = attrAll fuel inner := by
  induction fuel generalizing inner with
  | zero => omega
  | succ n ih =>
    have e : n + 1 + extra = (n + extra) + 1 := by omega
    rw [e]
    cases h : attrNext inner with
    | mk o inner' =>
      cases o with
      | none => rw [attrAll_none _ (by rw [h]), attrAll_none _ (by rw [h])]
      | some it =>
        rw [attrAll_some _ h, attrAll_some _ h]
        obtain ⟨hl, _⟩ := attrNext_some h
        rw [ih inner' (by omega)]

end P

theorem toCow_eq_unquote (s : List Char) : toCow s = unquote s := by
  unfold toCow unquote
  split
  · rename_i rest
    split
    · rfl
    · rename_i h
      rw [P.unqQuoted_noesc]
      intro hm
      apply h
      simp [hm]
  · rfl

/-- every yielded target and attribute block is a slice of the input -/
theorem parseLinks_slices (input : List Char) :
    ∀ it ∈ parseLinks input, ∀ t a, it = .link t a → IsSlice input t ∧ IsSlice input a := by
  intro it hm t a e
  obtain ⟨s1, s2⟩ := P.linkAll_sub _ _ it hm t a e
  exact ⟨(P.isSlice_iff _ _).mpr s1, (P.isSlice_iff _ _).mpr s2⟩

/-- … in left-to-right order: each link's target precedes its attribute block,
which precedes the next link's target -/
theorem parseLinks_ordered (input : List Char) :
    (parseLinks input).Pairwise (fun x y =>
      ∀ t a t' a', x = .link t a → y = .link t' a' →
        t.stop ≤ t'.off ∧ (a.s ≠ [] → t.stop ≤ a.off ∧ a.stop ≤ t'.off)) := by
  exact P.linkAll_ordered _ _

/-- nothing is yielded after the first reported error -/
theorem parseLinks_error_last (input : List Char) (i : Nat) (h : i < (parseLinks input).length)
    (he : (parseLinks input)[i] = .error) : i + 1 = (parseLinks input).length := by
  exact P.linkAll_error_last _ _ i h he

/-- the fuel bound is not what ends the iteration: with any larger fuel the
result is the same (every step that yields an item consumes at least one
character), i.e. iteration terminates on its own -/
theorem linkAll_fuel (input : List Char) (extra : Nat) :
    linkAll (input.length + 1 + extra) { off := 0, s := input } = parseLinks input := by
  exact P.linkAll_fuel_indep (input.length + 1) _ (Nat.lt_succ_self _) extra

/-- attribute keys and raw values are slices of the attribute block's input (or
the empty literal), keys before values, attributes left to right -/
theorem parseAttrs_slices (input : List Char) (a : Sl) (ha : IsSlice input a) :
    ∀ kv ∈ parseAttrs a,
      (IsSlice input kv.1 ∨ kv.1.s = []) ∧ (IsSlice input kv.2 ∨ IsEmptyLit kv.2) ∧
      (kv.1.s ≠ [] → kv.2.s ≠ [] → kv.1.stop ≤ kv.2.off) ∧
      (kv.1.s ≠ [] → a.off ≤ kv.1.off ∧ kv.1.stop ≤ a.stop) ∧
      (kv.2.s ≠ [] → a.off ≤ kv.2.off ∧ kv.2.stop ≤ a.stop) := by
  intro kv hm
  have ha' := (P.isSlice_iff _ _).mp ha
  obtain ⟨s1, s2, s3⟩ := P.attrAll_sub _ _ kv hm
  have b1 := s1.bounds
  refine ⟨Or.inl ((P.isSlice_iff _ _).mpr (s1.trans ha')), ?_, fun _ h2 => s3 h2,
    fun _ => b1, fun h2 => ?_⟩
  · rcases s2 with s2 | s2
    · exact Or.inl ((P.isSlice_iff _ _).mpr (s2.trans ha'))
    · right; rw [s2]; rfl
  · rcases s2 with s2 | s2
    · exact s2.bounds
    · rw [s2] at h2; exact absurd rfl h2

theorem parseAttrs_ordered (a : Sl) :
    (parseAttrs a).Pairwise (fun x y =>
      (x.1.s ≠ [] → y.1.s ≠ [] → x.1.stop ≤ y.1.off) ∧
      (x.2.s ≠ [] → y.1.s ≠ [] → x.2.stop ≤ y.1.off) ∧
      (x.2.s ≠ [] → y.2.s ≠ [] → x.2.stop ≤ y.2.off)) := by
  exact P.attrAll_ordered _ _

theorem attrAll_fuel (a : Sl) (extra : Nat) :
    attrAll (a.s.length + 1 + extra) a = parseAttrs a := by
  exact P.attrAll_fuel_indep (a.s.length + 1) a (Nat.lt_succ_self _) extra

end CoapLite.Link
