/-
Lemmas about Model/Request.lean (response preparation, error application,
convenience accessors, coap-message views).  Used by Props/C07, C19.
-/
import CoapLite.Model.Request
import CoapLite.Lemmas.Uint
import CoapLite.Lemmas.CodecFwd
import CoapLite.Props.C05
import CoapLite.Props.C06

namespace CoapLite.Lemmas
open CoapLite Spec

/-- same definition as `C07.prepared` -/
def prepared (req : Packet) (rtBits : Nat) : Packet :=
  { header := { vtt := UInt8.ofNat (64 + rtBits * 16 + req.token.length),
                code := .Response .Content, mid := req.header.mid },
    token := req.token, options := [], payload := [] }

theorem response_new_spec (req : Packet) (ht : req.token.length ≤ 15) :
    Response.new req = .ok
      (if req.header.typeBits = 0 then some (prepared req 2)
       else if req.header.typeBits = 1 then some (prepared req 1)
       else none) := by
  sorry

theorem response_new_isSome_iff (req : Packet) (ht : req.token.length ≤ 15) :
    (∃ q, Response.new req = .ok (some q)) ↔
      (req.header.getType = .ok .Confirmable ∨ req.header.getType = .ok .NonConfirmable) := by
  sorry

theorem prepared_fields (req : Packet) (ht : req.token.length ≤ 15) (rtBits : Nat) (hr : rtBits = 1 ∨ rtBits = 2) :
    (prepared req rtBits).header.getVersion = 1 ∧
    (prepared req rtBits).header.typeBits = rtBits ∧
    (prepared req rtBits).header.getTkl.toNat = req.token.length ∧
    MessageClass.toU8 (prepared req rtBits).header.code = 0x45 := by
  sorry

theorem response_new_long_token (req : Packet) (ht : 16 ≤ req.token.length % 256)
    (hc : req.header.typeBits ≤ 1) : Response.new req = .panic := by
  sorry

theorem fromPacket_spec (p : Packet) (src : Nat) (ht : p.token.length ≤ 15) :
    ∃ r, Request.fromPacket p src = .ok r ∧ r.message = p ∧ r.source = some src ∧
      Response.new p = .ok r.response := by
  sorry

theorem apply_fails (r : Request) (code : Option ResponseType) (msg : Bytes)
    (h : r.response = none ∨ code = none) :
    r.applyFromError code msg = .ok (r, false) := by
  sorry

theorem apply_spec (r : Request) (reply : Packet) (c : ResponseType) (msg : Bytes)
    (hr : r.response = some reply) (hs : reply.options.Sorted) :
    ∃ r' m', r.applyFromError (some c) msg = .ok (r', true) ∧
      r'.response = some m' ∧ r'.message = r.message ∧ r'.source = r.source ∧
      m'.header.vtt = reply.header.vtt ∧ m'.header.mid = reply.header.mid ∧ m'.token = reply.token ∧
      m'.header.code = .Response c ∧ m'.payload = msg ∧
      m'.getOption (CoapOption.toU16 .ContentFormat) = some [[]] ∧
      m'.getContentFormat = some .TextPlain ∧
      (∀ n, n ≠ CoapOption.toU16 .ContentFormat → m'.getOption n = reply.getOption n) := by
  sorry

theorem method_of_non_request (r : Request) (h : ∀ m, r.message.header.code ≠ .Request m) :
    r.getMethod = .UnKnown := by
  sorry

theorem status_of_non_response (m : Packet) (h : ∀ s, m.header.code ≠ .Response s) :
    ResponseM.getStatus m = .UnKnown := by
  sorry

def stripLead : List Char → List Char
  | '/' :: t => t
  | cs => cs

def segments (cs : List Char) : List (List Char) :=
  match Request.splitSlash cs with
  | [] :: rest => rest
  | s => s

theorem segments_join (cs : List Char) : List.intercalate ['/'] (segments cs) = stripLead cs := by
  sorry

theorem path_roundtrip (r : Request) (cs : List Char) (hs : r.message.options.Sorted) :
    (r.setPath cs).getPath = stripLead cs ∧
    (r.setPath cs).getPathAsVec = .ok ((segments cs).map String.ofList) ∧
    ((r.setPath cs).message.getOption Request.uriPath).getD [] =
      (segments cs).map (fun s => strEnc (String.ofList s)) ∧
    (∀ n, n ≠ Request.uriPath → (r.setPath cs).message.getOption n = r.message.getOption n) := by
  sorry

theorem content_format_roundtrip (p : Packet) (f : ContentFormat) (hs : p.options.Sorted) :
    ∃ q, p.setContentFormat f = .ok q ∧ q.getContentFormat = some f ∧
      q.getOption (CoapOption.toU16 .ContentFormat) = some [minimalBE f.toUsize] ∧
      (∀ n, n ≠ CoapOption.toU16 .ContentFormat → q.getOption n = p.getOption n) ∧
      q.header = p.header ∧ q.token = p.token ∧ q.payload = p.payload := by
  sorry

theorem content_format_unnamed (p : Packet) (v : Bytes) (rest : List Bytes)
    (h : p.getOption (CoapOption.toU16 .ContentFormat) = some (v :: rest))
    (hn : v.length > 2 ∨ ContentFormat.ofUsize? (beValue v) = none) :
    p.getContentFormat = none := by
  sorry

theorem observe_flag_roundtrip (r : Request) (f : ObserveOption) (hs : r.message.options.Sorted) :
    ∃ r', r.setObserveFlag f = .ok r' ∧ r'.getObserveFlag = some (.ok f) ∧
      r'.message.getOption (CoapOption.toU16 .Observe) = some [minimalBE f.toUsize] := by
  sorry

theorem observe_flag_garbage (r : Request) :
    (r.message.getOption (CoapOption.toU16 .Observe) = none → r.getObserveFlag = none) ∧
    (∀ v rest, r.message.getOption (CoapOption.toU16 .Observe) = some (v :: rest) →
        (v.length > 4 ∨ beValue v ≥ 2) → r.getObserveFlag = some (.err .other)) := by
  sorry

theorem view_options_sorted (p : Packet) (hs : p.options.Sorted) :
    MsgView.options p = p.options.flatten ∧ ((MsgView.options p).map (·.1)).Pairwise (· ≤ ·) := by
  sorry

theorem copy_via_trait (src : Packet) (hs : src.options.Sorted)
    (hk : ∀ kv ∈ src.options, kv.1 ≤ 65535) :
    let d := MsgView.setFromMessage Packet.new src
    MessageClass.toU8 (MsgView.code d) = MessageClass.toU8 (MsgView.code src) ∧
    MsgView.options d = MsgView.options src ∧ MsgView.payload d = MsgView.payload src ∧
    d.options.Sorted := by
  sorry

end CoapLite.Lemmas
