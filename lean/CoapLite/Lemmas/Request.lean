/-
Lemmas about Model/Request.lean (response preparation, error application,
convenience accessors, coap-message views).  Used by Props/C07, C19.
-/
import CoapLite.Model.Request
import CoapLite.Lemmas.Uint
import CoapLite.Lemmas.CodecFwd
import CoapLite.Lemmas.OptMapExtra
import CoapLite.Props.C05
import CoapLite.Props.C06
namespace CoapLite.Lemmas
open CoapLite Spec

/-- same definition as `C07.prepared` -/
def prepared (req : Packet) (rtBits : Nat) : Packet :=
  { header := { vtt := UInt8.ofNat (64 + rtBits * 16 + req.token.length),
                code := .Response .Content, mid := req.header.mid },
    token := req.token, options := [], payload := [] }

theorem typeBits_fin : ∀ b : Fin 256, ((0x30 &&& UInt8.ofNat b.val) >>> 4).toNat < 4 := by
  decide +kernel

theorem typeBits_lt (h : Header) : h.typeBits < 4 := by
  have := typeBits_fin ⟨h.vtt.toNat, h.vtt.toNat_lt⟩
  simpa [Header.typeBits] using this

theorem tkl_fin : ∀ (k : Fin 16), ∀ rt ∈ [MessageType.Acknowledgement, MessageType.NonConfirmable],
    (0xF0 &&& UInt8.ofNat (k.val % 256) = 0) ∧
    UInt8.ofNat (k.val % 256) ||| (0xF0 &&& ((Header.default.setVersion 1).setType rt).vtt)
      = UInt8.ofNat (64 + MessageType.toBits rt * 16 + k.val) := by
  decide +kernel

theorem tkl_hi_fin : ∀ (k : Fin 256), 16 ≤ k.val → 0xF0 &&& UInt8.ofNat (k.val % 256) ≠ 0 := by
  decide +kernel

theorem prepared_fin : ∀ (k : Fin 16), ∀ b ∈ [1, 2],
    let h : Header := { vtt := UInt8.ofNat (64 + b * 16 + k.val), code := .Response .Content, mid := 0 }
    h.getVersion = 1 ∧ h.typeBits = b ∧ h.getTkl.toNat = k.val := by
  decide +kernel

theorem new_aux (req : Packet) (ht : req.token.length ≤ 15) (rt : MessageType)
    (hrt : rt ∈ [MessageType.Acknowledgement, MessageType.NonConfirmable]) :
    (({ Packet.new with header := { ((Packet.new.header.setVersion 1).setType rt) with
          code := .Response .Content, mid := req.header.mid } } : Packet).setToken req.token).map some
      = .ok (some (prepared req (MessageType.toBits rt))) := by
  have h := tkl_fin ⟨req.token.length, by omega⟩ rt hrt
  simp only at h
  unfold Packet.setToken Header.setTkl
  simp only [h.1, ne_eq, not_true_eq_false, ↓reduceIte, Res.map]
  simp only [Packet.new]
  rw [h.2]
  rfl

theorem response_new_spec (req : Packet) (ht : req.token.length ≤ 15) :
    Response.new req = .ok
      (if req.header.typeBits = 0 then some (prepared req 2)
       else if req.header.typeBits = 1 then some (prepared req 1)
       else none) := by
  have hlt := typeBits_lt req.header
  unfold Response.new Header.getType
  have : req.header.typeBits = 0 ∨ req.header.typeBits = 1 ∨ req.header.typeBits = 2 ∨ req.header.typeBits = 3 := by omega
  rcases this with h | h | h | h <;> rw [h] <;> simp only [MessageType.ofBits?, responseTypeFor]
  · exact new_aux req ht .Acknowledgement (by simp)
  · exact new_aux req ht .NonConfirmable (by simp)
  · rfl
  · rfl

theorem response_new_isSome_iff (req : Packet) (ht : req.token.length ≤ 15) :
    (∃ q, Response.new req = .ok (some q)) ↔
      (req.header.getType = .ok .Confirmable ∨ req.header.getType = .ok .NonConfirmable) := by
  rw [response_new_spec req ht]
  have hlt := typeBits_lt req.header
  unfold Header.getType
  have : req.header.typeBits = 0 ∨ req.header.typeBits = 1 ∨ req.header.typeBits = 2 ∨ req.header.typeBits = 3 := by omega
  rcases this with h | h | h | h <;> rw [h] <;> simp [MessageType.ofBits?]

theorem prepared_fields (req : Packet) (ht : req.token.length ≤ 15) (rtBits : Nat) (hr : rtBits = 1 ∨ rtBits = 2) :
    (prepared req rtBits).header.getVersion = 1 ∧
    (prepared req rtBits).header.typeBits = rtBits ∧
    (prepared req rtBits).header.getTkl.toNat = req.token.length ∧
    MessageClass.toU8 (prepared req rtBits).header.code = 0x45 := by
  have h := prepared_fin ⟨req.token.length, by omega⟩ rtBits (by rcases hr with h | h <;> simp [h])
  simp only at h
  refine ⟨h.1, h.2.1, h.2.2, rfl⟩

theorem response_new_long_token (req : Packet) (ht : 16 ≤ req.token.length % 256)
    (hc : req.header.typeBits ≤ 1) : Response.new req = .panic := by
  have hk := tkl_hi_fin ⟨req.token.length % 256, by omega⟩ ht
  simp only [Nat.mod_mod] at hk
  have hset : ∀ p : Packet, (p.setToken req.token).map some = .panic := by
    intro p
    unfold Packet.setToken Header.setTkl
    simp only [hk, ne_eq, not_false_eq_true, ↓reduceIte, Res.map]
  unfold Response.new Header.getType
  have : req.header.typeBits = 0 ∨ req.header.typeBits = 1 := by omega
  rcases this with h | h <;> rw [h] <;> simp only [MessageType.ofBits?, responseTypeFor] <;> exact hset _

theorem fromPacket_spec (p : Packet) (src : Nat) (ht : p.token.length ≤ 15) :
    ∃ r, Request.fromPacket p src = .ok r ∧ r.message = p ∧ r.source = some src ∧
      Response.new p = .ok r.response := by
  unfold Request.fromPacket
  rw [response_new_spec p ht]
  exact ⟨_, rfl, rfl, rfl, rfl⟩

theorem apply_fails (r : Request) (code : Option ResponseType) (msg : Bytes)
    (h : r.response = none ∨ code = none) :
    r.applyFromError code msg = .ok (r, false) := by
  unfold Request.applyFromError
  rcases h with h | h
  · rw [h]
  · rw [h]; cases r.response <;> rfl

theorem method_of_non_request (r : Request) (h : ∀ m, r.message.header.code ≠ .Request m) :
    r.getMethod = .UnKnown := by
  unfold Request.getMethod getMethodTable
  split <;> first | rfl | (exfalso; exact h _ (by assumption))

theorem status_of_non_response (m : Packet) (h : ∀ s, m.header.code ≠ .Response s) :
    ResponseM.getStatus m = .UnKnown := by
  unfold ResponseM.getStatus getStatusTable
  split
  · exact absurd (by assumption) (h _)
  · rfl

/-! ### options -/

theorem clearOption_get (p : Packet) (k k' : Nat) :
    (p.clearOption k).getOption k' =
      if k' = k then (p.getOption k).map (fun _ => []) else p.getOption k' := by
  unfold Packet.clearOption Packet.getOption
  exact OptMap.X.get_modify _ _ _ _

theorem clearOption_sorted (p : Packet) (hs : p.options.Sorted) (k : Nat) :
    (p.clearOption k).options.Sorted :=
  (Codec.mutators_keep_sorted p hs k [] []).2.2.1

theorem addOption_sorted (p : Packet) (hs : p.options.Sorted) (k : Nat) (v : Bytes) :
    (p.addOption k v).options.Sorted :=
  (Codec.mutators_keep_sorted p hs k v []).1

/-- `clear_option(k)` followed by `add_option_as::<uint>(k, n)` -/
theorem replaceUint_spec (p : Packet) (hs : p.options.Sorted) (k w n : Nat) (hn : n < 256 ^ w) :
    ∃ q, (p.clearOption k).addOptionUint k w n = .ok q ∧
      q.getOption k = some [minimalBE n] ∧
      q.getFirstOptionUint k w = some (.ok n) ∧
      (∀ m, m ≠ k → q.getOption m = p.getOption m) ∧
      q.header = p.header ∧ q.token = p.token ∧ q.payload = p.payload := by
  unfold Packet.addOptionUint
  rw [optionFromUint_eq n w hn]
  have hg : ((p.clearOption k).addOption k (minimalBE n)).getOption k = some [minimalBE n] := by
    rw [Codec.addOption_get _ (clearOption_sorted p hs k), if_pos rfl, clearOption_get, if_pos rfl]
    cases p.getOption k <;> rfl
  refine ⟨_, rfl, hg, ?_, ?_, rfl, rfl, rfl⟩
  · unfold Packet.getFirstOptionUint Packet.getFirstOption
    unfold Packet.getOption at hg
    rw [hg]
    simp only [Option.map_some]
    rw [optionToUint_eq, if_pos (minimalBE_length_le n w hn), beValue_minimalBE]
  · intro m hm
    rw [Codec.addOption_get _ (clearOption_sorted p hs k), if_neg hm, clearOption_get, if_neg hm]

theorem content_format_roundtrip (p : Packet) (f : ContentFormat) (hs : p.options.Sorted) :
    ∃ q, p.setContentFormat f = .ok q ∧ q.getContentFormat = some f ∧
      q.getOption (CoapOption.toU16 .ContentFormat) = some [minimalBE f.toUsize] ∧
      (∀ n, n ≠ CoapOption.toU16 .ContentFormat → q.getOption n = p.getOption n) ∧
      q.header = p.header ∧ q.token = p.token ∧ q.payload = p.payload := by
  have hf := C05.cf_fits_u16 f
  obtain ⟨q, h1, h2, h3, h4, h5, h6, h7⟩ :=
    replaceUint_spec p hs (CoapOption.toU16 .ContentFormat) 2 f.toUsize (by simpa using hf)
  refine ⟨q, ?_, ?_, h2, h4, h5, h6, h7⟩
  · unfold Packet.setContentFormat
    have : ¬ f.toUsize > 65535 := by omega
    simp only [this, ↓reduceIte]
    exact h1
  · unfold Packet.getContentFormat
    rw [h3]
    exact C05.cf_name_num_name f

theorem apply_spec (r : Request) (reply : Packet) (c : ResponseType) (msg : Bytes)
    (hr : r.response = some reply) (hs : reply.options.Sorted) :
    ∃ r' m', r.applyFromError (some c) msg = .ok (r', true) ∧
      r'.response = some m' ∧ r'.message = r.message ∧ r'.source = r.source ∧
      m'.header.vtt = reply.header.vtt ∧ m'.header.mid = reply.header.mid ∧ m'.token = reply.token ∧
      m'.header.code = .Response c ∧ m'.payload = msg ∧
      m'.getOption (CoapOption.toU16 .ContentFormat) = some [[]] ∧
      m'.getContentFormat = some .TextPlain ∧
      (∀ n, n ≠ CoapOption.toU16 .ContentFormat → m'.getOption n = reply.getOption n) := by
  obtain ⟨q, h1, h2, h3, h4, h5, h6, h7⟩ :=
    content_format_roundtrip { reply with header := { reply.header with code := .Response c } }
      .TextPlain hs
  have hz : minimalBE (ContentFormat.toUsize .TextPlain) = [] := minimalBE_zero
  rw [hz] at h3
  unfold Request.applyFromError
  rw [hr]
  simp only [h1]
  refine ⟨_, _, rfl, rfl, rfl, rfl, ?_, ?_, h6, ?_, rfl, h3, ?_, h4⟩
  · simp only [h5]
  · simp only [h5]
  · simp only [h5]
  · unfold Packet.getContentFormat Packet.getFirstOptionUint Packet.getFirstOption at h2 ⊢
    exact h2

theorem content_format_unnamed (p : Packet) (v : Bytes) (rest : List Bytes)
    (h : p.getOption (CoapOption.toU16 .ContentFormat) = some (v :: rest))
    (hn : v.length > 2 ∨ ContentFormat.ofUsize? (beValue v) = none) :
    p.getContentFormat = none := by
  unfold Packet.getOption at h
  unfold Packet.getContentFormat Packet.getFirstOptionUint Packet.getFirstOption
  rw [h]
  simp only [Option.map_some, optionToUint_eq]
  by_cases hl : v.length ≤ 2
  · rw [if_pos hl]
    rcases hn with hn | hn
    · omega
    · exact hn
  · rw [if_neg hl]

theorem observe_flag_roundtrip (r : Request) (f : ObserveOption) (hs : r.message.options.Sorted) :
    ∃ r', r.setObserveFlag f = .ok r' ∧ r'.getObserveFlag = some (.ok f) ∧
      r'.message.getOption (CoapOption.toU16 .Observe) = some [minimalBE f.toUsize] := by
  have hf : f.toUsize < 256 ^ 4 := by cases f <;> decide
  obtain ⟨q, h1, h2, h3, -⟩ :=
    replaceUint_spec r.message hs (CoapOption.toU16 .Observe) 4 f.toUsize hf
  refine ⟨{ r with message := q }, ?_, ?_, h2⟩
  · unfold Request.setObserveFlag Packet.setObserveValue
    rw [h1]; rfl
  · unfold Request.getObserveFlag Packet.getObserveValue
    simp only [h3, C05.obs_name_num_name]

theorem observe_flag_garbage (r : Request) :
    (r.message.getOption (CoapOption.toU16 .Observe) = none → r.getObserveFlag = none) ∧
    (∀ v rest, r.message.getOption (CoapOption.toU16 .Observe) = some (v :: rest) →
        (v.length > 4 ∨ beValue v ≥ 2) → r.getObserveFlag = some (.err .other)) := by
  unfold Request.getObserveFlag Packet.getObserveValue Packet.getFirstOptionUint
    Packet.getFirstOption Packet.getOption
  constructor
  · intro h; rw [h]; rfl
  · intro v rest h hv
    rw [h]
    simp only [Option.map_some, optionToUint_eq]
    by_cases hl : v.length ≤ 4
    · rw [if_pos hl]
      have hb : beValue v ≥ 2 := by rcases hv with hv | hv <;> omega
      have : ObserveOption.ofUsize? (beValue v) = none := by
        unfold ObserveOption.ofUsize?
        split <;> first | omega | rfl
      simp only [this]
    · rw [if_neg hl]

/-! ### URI path -/

def stripLead : List Char → List Char
  | '/' :: t => t
  | cs => cs

def segments (cs : List Char) : List (List Char) :=
  match Request.splitSlash cs with
  | [] :: rest => rest
  | s => s

theorem splitSlash_ne_nil (cs : List Char) : Request.splitSlash cs ≠ [] := by
  cases cs with
  | nil => simp [Request.splitSlash]
  | cons c cs =>
    unfold Request.splitSlash
    split
    · simp
    · split <;> simp

theorem splitSlash_cons (c : Char) (cs : List Char) :
    ∃ hd tl, Request.splitSlash cs = hd :: tl ∧
      Request.splitSlash (c :: cs) = if c = '/' then [] :: hd :: tl else (c :: hd) :: tl := by
  cases h : Request.splitSlash cs with
  | nil => exact absurd h (splitSlash_ne_nil cs)
  | cons hd tl =>
    refine ⟨hd, tl, rfl, ?_⟩
    conv => lhs; unfold Request.splitSlash
    simp only [h]

theorem intercalate_cons_cons' (sep : List Char) (c : Char) (hd : List Char) (tl : List (List Char)) :
    List.intercalate sep ((c :: hd) :: tl) = c :: List.intercalate sep (hd :: tl) := by
  cases tl with
  | nil => simp [List.intercalate_singleton]
  | cons y t => simp [List.intercalate_cons_cons]

theorem intercalate_splitSlash (cs : List Char) :
    List.intercalate ['/'] (Request.splitSlash cs) = cs := by
  induction cs with
  | nil => simp [Request.splitSlash, List.intercalate_singleton]
  | cons c cs ih =>
    obtain ⟨hd, tl, h1, h2⟩ := splitSlash_cons c cs
    rw [h2]
    rw [h1] at ih
    by_cases hc : c = '/'
    · subst hc
      simp only [↓reduceIte]
      rw [List.intercalate_cons_cons, ih]; rfl
    · simp only [hc, ↓reduceIte]
      rw [intercalate_cons_cons', ih]

theorem segments_join (cs : List Char) : List.intercalate ['/'] (segments cs) = stripLead cs := by
  cases cs with
  | nil => simp [segments, Request.splitSlash, stripLead]
  | cons c cs =>
    obtain ⟨hd, tl, h1, h2⟩ := splitSlash_cons c cs
    unfold segments
    rw [h2]
    by_cases hc : c = '/'
    · subst hc
      simp only [↓reduceIte, stripLead]
      rw [← h1]; exact intercalate_splitSlash cs
    · simp only [hc, ↓reduceIte]
      have hs : stripLead (c :: cs) = c :: cs := by
        unfold stripLead
        split
        · simp_all
        · rfl
      rw [hs, intercalate_cons_cons', ← h1, intercalate_splitSlash]


theorem foldl_add_spec (k : Nat) (f : List Char → Bytes) (segs : List (List Char)) (m0 : Packet)
    (hs : m0.options.Sorted) :
    let m := segs.foldl (fun m s => m.addOption k (f s)) m0
    m.options.Sorted ∧
    m.getOption k = (if segs = [] then m0.getOption k
                     else some ((m0.getOption k).getD [] ++ segs.map f)) ∧
    (∀ n, n ≠ k → m.getOption n = m0.getOption n) := by
  induction segs generalizing m0 with
  | nil => simp [hs]
  | cons s segs ih =>
    have hs1 := addOption_sorted m0 hs k (f s)
    have ih' := ih (m0.addOption k (f s)) hs1
    simp only [List.foldl_cons] at ih' ⊢
    refine ⟨ih'.1, ?_, ?_⟩
    · rw [ih'.2.1, Codec.addOption_get m0 hs, if_pos rfl]
      by_cases hn : segs = []
      · subst hn; simp
      · simp [hn]
    · intro n hn
      rw [ih'.2.2 n hn, Codec.addOption_get m0 hs, if_neg hn]

theorem filterMap_dec (g : Bytes → Option (List Char))
    (hg : ∀ s, g (strEnc (String.ofList s)) = some s) (l : List (List Char)) :
    (l.map (fun s => strEnc (String.ofList s))).filterMap g = l := by
  induction l with
  | nil => rfl
  | cons a l ih =>
    simp only [List.map_cons, List.filterMap_cons, hg, ih]

theorem foldr_dec (l : List (List Char)) :
    ((l.map (fun s => strEnc (String.ofList s))).map strDec).foldr
      (fun x acc => match x, acc with
        | .ok s, .ok ss => .ok (s :: ss)
        | .err e, _ => .err e
        | .panic, _ => .panic
        | .ok _, .err e => .err e
        | .ok _, .panic => .panic) (Res.ok []) = Res.ok (l.map String.ofList) := by
  induction l with
  | nil => rfl
  | cons a l ih =>
    simp only [List.map_cons, List.foldr_cons, C06.str_roundtrip]
    rw [ih]

theorem path_roundtrip (r : Request) (cs : List Char) (hs : r.message.options.Sorted) :
    (r.setPath cs).getPath = stripLead cs ∧
    (r.setPath cs).getPathAsVec = .ok ((segments cs).map String.ofList) ∧
    ((r.setPath cs).message.getOption Request.uriPath).getD [] =
      (segments cs).map (fun s => strEnc (String.ofList s)) ∧
    (∀ n, n ≠ Request.uriPath → (r.setPath cs).message.getOption n = r.message.getOption n) := by
  have hmsg : (r.setPath cs).message =
      (segments cs).foldl (fun m s => m.addOption Request.uriPath (strEnc (String.ofList s)))
        (r.message.clearOption Request.uriPath) := rfl
  obtain ⟨-, hget, hoth⟩ := foldl_add_spec Request.uriPath (fun s => strEnc (String.ofList s))
    (segments cs) _ (clearOption_sorted r.message hs Request.uriPath)
  rw [← hmsg] at hget hoth
  rw [clearOption_get, if_pos rfl] at hget
  -- the stored option: `some (encoded segments)`, or absent/empty when there are none
  have hval : (r.setPath cs).message.getOption Request.uriPath =
        some ((segments cs).map (fun s => strEnc (String.ofList s))) ∨
      ((r.setPath cs).message.getOption Request.uriPath = none ∧ segments cs = []) := by
    by_cases hn : segments cs = []
    · rw [hn] at hget ⊢
      simp only [↓reduceIte] at hget
      cases h : r.message.getOption Request.uriPath with
      | none => right; rw [hget, h]; exact ⟨rfl, rfl⟩
      | some l => left; rw [hget, h]; rfl
    · left
      rw [hget, if_neg hn]
      cases h : r.message.getOption Request.uriPath <;> simp
  refine ⟨?_, ?_, ?_, ?_⟩
  · rw [← segments_join]
    unfold Request.getPath
    rcases hval with h | ⟨h, hn⟩
    · rw [h]
      simp only
      rw [filterMap_dec]
      intro s
      simp only [C06.str_roundtrip, String.toList_ofList]
    · rw [h, hn]; rfl
  · unfold Request.getPathAsVec Packet.getOptionsStr
    rcases hval with h | ⟨h, hn⟩
    · rw [h]; simp only [Option.map_some]; exact foldr_dec _
    · rw [h, hn]; rfl
  · rcases hval with h | ⟨h, hn⟩
    · rw [h]; rfl
    · rw [h, hn]; rfl
  · intro n hn
    rw [hoth n hn, clearOption_get, if_neg hn]

/-! ### coap-message views -/

theorem view_options_sorted (p : Packet) (hs : p.options.Sorted) :
    MsgView.options p = p.options.flatten ∧ ((MsgView.options p).map (·.1)).Pairwise (· ≤ ·) :=
  ⟨rfl, OptMap.X.flatten_keys_pairwise p.options hs⟩

theorem viewAdd_eq (p : Packet) (n : Nat) (v : Bytes) : MsgView.addOption p n v = p.addOption n v := by
  unfold MsgView.addOption
  rw [C05.opt_num_name_num]

/-- replaying a non-decreasing option list onto a sorted map whose keys are all
below it appends to the flattened view -/
theorem foldl_viewAdd (l : List (Nat × Bytes)) (hl : (l.map (·.1)).Pairwise (· ≤ ·))
    (d : Packet) (hs : d.options.Sorted) (hd : ∀ kv ∈ d.options, ∀ x ∈ l, kv.1 ≤ x.1) :
    let d' := l.foldl (fun d o => MsgView.addOption d o.1 o.2) d
    d'.options.flatten = d.options.flatten ++ l ∧ d'.options.Sorted ∧
    d'.header = d.header ∧ d'.token = d.token ∧ d'.payload = d.payload := by
  induction l generalizing d with
  | nil => simp [hs]
  | cons o l ih =>
    obtain ⟨n, v⟩ := o
    simp only [List.map_cons, List.pairwise_cons] at hl
    have hadd := OptMap.X.add_last d.options hs n v (fun kv hkv => hd kv hkv (n, v) (by simp))
    have hs1 := addOption_sorted d hs n v
    have ih' := ih hl.2 (d.addOption n v) hs1 (by
      intro kv hkv x hx
      have h1 := hadd.2 kv hkv
      have h2 := hl.1 x.1 (List.mem_map.2 ⟨x, hx, rfl⟩)
      omega)
    simp only [List.foldl_cons, viewAdd_eq] at ih' ⊢
    refine ⟨?_, ih'.2.1, ih'.2.2.1, ih'.2.2.2.1, ih'.2.2.2.2⟩
    rw [ih'.1]
    show (d.options.add n v).flatten ++ l = _
    rw [hadd.1, List.append_assoc]; rfl

theorem copy_via_trait (src : Packet) (hs : src.options.Sorted)
    (hk : ∀ kv ∈ src.options, kv.1 ≤ 65535) :
    let d := MsgView.setFromMessage Packet.new src
    MessageClass.toU8 (MsgView.code d) = MessageClass.toU8 (MsgView.code src) ∧
    MsgView.options d = MsgView.options src ∧ MsgView.payload d = MsgView.payload src ∧
    d.options.Sorted := by
  have _ := hk
  have h := foldl_viewAdd (MsgView.options src) (view_options_sorted src hs).2
    (MsgView.setCode Packet.new (MessageClass.ofU8 (MessageClass.toU8 (MsgView.code src))))
    OptMap.X.sorted_nil (by intro kv hkv; simp [MsgView.setCode, Packet.new] at hkv)
  simp only at h
  obtain ⟨h1, h2, h3, -, -⟩ := h
  refine ⟨?_, ?_, rfl, h2⟩
  · show MessageClass.toU8 (MsgView.setFromMessage Packet.new src).header.code = _
    unfold MsgView.setFromMessage
    simp only [MsgView.setPayload, h3]
    simp only [MsgView.setCode, MsgView.code, C05.code_num_name_num]
  · show (MsgView.setFromMessage Packet.new src).options.flatten = _
    unfold MsgView.setFromMessage
    simp only [MsgView.setPayload, h1]
    simp [MsgView.setCode, Packet.new, OptMap.flatten]

end CoapLite.Lemmas
