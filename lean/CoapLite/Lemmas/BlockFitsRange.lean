/-
C10 over the property's own budget range. `followup_fits` (BlockFits) assumes that the block budget
computed WITH the token reserve is at least 16; the property only promises `budget ≥ the message's
non-payload overhead + 28`. Here: for the message actually sent – the application's reply `p` with the
token `tok` of the request being answered – `overhead + 28 ≤ M` suffices, because when the reserved
budget falls below 16 the handler falls back to the minimum block size 16, and 28 = 12 (block
options) + 16 covers it.
-/
import CoapLite.Lemmas.BlockFits

namespace CoapLite.Block
open CoapLite Codec Spec

/-- with less than 16 bytes of block budget the negotiated block is the minimum size (16 bytes) -/
theorem negotiate_small_budget (rb : Option BlockValue) (ms tp M : Nat) (b : BlockValue)
    (hB : blockBudget ms tp M < 16)
    (h : negotiate rb ms tp M = .ok (some b)) : b.szx = 0 := by
  rw [negotiate_eq] at h
  split at h
  · exact absurd h (internal_ne_ok _)
  · split at h
    · rename_i r
      rcases newBlock_cases (r.num * r.size / min r.size (blockBudget ms tp M))
        (decide (r.num * r.size + min r.size (blockBudget ms tp M) < tp))
        (min r.size (blockBudget ms tp M)) with h' | ⟨h1, h2, _, h'⟩ <;> rw [h'] at h
      · exact absurd h (internal_ne_ok _)
      · injection h with h
        injection h with h
        subst h
        exact (log_szx _ h1 h2).2.2.1 (by omega)
    · split at h
      · cases h
      · rcases newBlock_cases 0 true (min (blockBudget ms tp M) Consts.maximumBlockSize) with h' | ⟨h1, h2, _, h'⟩ <;> rw [h'] at h
        · exact absurd h (internal_ne_ok _)
        · injection h with h
          injection h with h
          subst h
          exact (log_szx _ h1 h2).2.2.1 (by omega)


/-- Without a size preference from the client, negotiation NEVER fails once the budget leaves any room
at all: either the payload fits and no block option is needed, or a block of at most 1024 bytes
(SZX 6) is proposed – also for budgets far above one block (D20) -/
theorem negotiate_none_total (ms tp M : Nat) (hB : 0 < blockBudget ms tp M) :
    negotiate none ms tp M = .ok none ∨
    ∃ b, negotiate none ms tp M = .ok (some b) ∧ b.num = 0 ∧ b.more = true ∧ b.szx ≤ 6 := by
  rw [negotiate_eq]
  have h0 : ¬ blockBudget ms tp M = 0 := by omega
  simp only [h0, ↓reduceIte]
  by_cases htp : tp < blockBudget ms tp M
  · left; simp [htp]
  · right
    simp only [htp, ↓reduceIte]
    have hmb : Consts.maximumBlockSize = 1024 := by decide
    have h1 : 1 ≤ min (blockBudget ms tp M) Consts.maximumBlockSize := by omega
    have h2 : min (blockBudget ms tp M) Consts.maximumBlockSize < 4096 := by omega
    refine ⟨_, newBlock_ok 0 true _ h1 h2 (by omega), rfl, rfl, ?_⟩
    exact (log_szx _ h1 h2).2.2.2 (by omega)

/-- EVERY block of a fragmented response fits, over the property's own range: `ov` is the non-payload
size of the application's reply `p` (as the handler measures it), the message sent carries the
token `tok` of the request being answered instead of `p`'s, so ITS non-payload overhead is
`ov - |p.token| + |tok|`; whenever the budget is at least that overhead plus 28, the message with a
chunk of at most the negotiated size fits. No hypothesis on the reserved budget. -/
theorem followup_fits_range (p : Packet) (lb : Option BlockValue) (M size : Nat) (b b' : BlockValue)
    (bs chunk tok : Bytes)
    (hs : p.options.Sorted) (hk : ∀ kv ∈ p.options, kv.1 ≤ 65535)
    (hg : p.getOption block2Num = none)
    (hlb : ∀ r, lb = some r → BvOk r)
    (hsz : computeMessageSize p = .ok size)
    (hneg : negotiate lb (size + tokenReserve p) p.payload.length M = .ok (some b))
    (hrange : (size - p.payload.length) + tok.length + 28 ≤ M + p.token.length)
    (hb' : BvOk b') (hbs : b'.enc = .ok bs)
    (hc : chunk.length ≤ b.size) (htok : tok.length ≤ 8) (hptok : p.token.length ≤ 8) :
    wireLen (toMsg { (p.setOption block2Num [bs]) with payload := chunk, token := tok }) ≤ M := by
  by_cases h16 : 16 ≤ blockBudget (size + tokenReserve p) p.payload.length M
  · exact followup_fits p lb M size b b' bs chunk tok hs hk hg hlb hsz hneg h16 hb' hbs hc htok hptok
  · have hszx := negotiate_small_budget lb _ _ M b (by omega) hneg
    have hb16 : b.size = 16 := by
      show 2 ^ (b.szx + 4) = 16
      rw [hszx]
    have hsize := computeMessageSize_eq p size hsz
    have hbs3 : bs.length ≤ 3 := enc_length_le_3 b' hb' bs hbs
    have hw := wireLen_block_message p block2Num bs chunk hs hk hg hbs3 (Or.inr rfl)
    rw [wireLen_toMsg] at hw ⊢
    simp only [Packet.setOption, sent] at hw ⊢
    rw [wireLen_toMsg_nopayload] at hsize hw
    by_cases hd : p.header.code ≠ MessageClass.Empty ∧ chunk ≠ []
    · simp only [hd, and_self, decide_true, if_true, not_false_eq_true, ne_eq] at hw ⊢
      omega
    · simp only [hd, decide_false, Bool.false_eq_true, if_false] at hw ⊢
      omega


/-- replacing the value of one option occurrence by another short value (both below the 13-byte
extension threshold) changes the encoded length by exactly the difference of the value lengths:
numbers, and therefore all deltas, stay as they are -/
theorem wireOptsLen_replace_value (n : Nat) (v0 v : Bytes) (post : List (Nat × Bytes))
    (hv0 : v0.length < 13) (hv : v.length < 13) : ∀ (pre : List (Nat × Bytes)) (prev : Nat),
    wireOptsLen prev (pre ++ (n, v) :: post) + v0.length =
      wireOptsLen prev (pre ++ (n, v0) :: post) + v.length := by
  intro pre
  induction pre with
  | nil =>
    intro prev
    simp only [List.nil_append, wireOptsLen, fieldLen, hv0, hv, if_true]
    omega
  | cons x xs ih =>
    intro prev
    obtain ⟨m, w⟩ := x
    simp only [List.cons_append, wireOptsLen]
    have := ih m
    omega

/-- ACKNOWLEDGING AN UPLOAD BLOCK: `p` is the upload request as received (it carries one Block1
value `v0` among its options), `b` the block the handler acknowledges it with, `q` the client's NEXT
upload block: the same message with the Block1 value replaced (`v`, at most 3 bytes) and a payload
of at most the acknowledged size. Over the property's range (block budget ≥ 16, i.e.
`M ≥ overhead + 28`) it encodes within the budget. -/
theorem upload_next_block_fits (p q : Packet) (pre post : List (Nat × Bytes)) (v0 v : Bytes)
    (rb b : BlockValue) (M size : Nat)
    (hp : p.options.flatten = pre ++ (block1Num, v0) :: post)
    (hq : q.options.flatten = pre ++ (block1Num, v) :: post)
    (hqt : q.token = p.token)
    (hv0 : v0.length ≤ 3) (hv : v.length ≤ 3)
    (hrb : BvOk rb) (hsz : computeMessageSize p = .ok size)
    (hneg : negotiate (some rb) size p.payload.length M = .ok (some b))
    (h16 : 16 ≤ blockBudget size p.payload.length M)
    (hc : q.payload.length ≤ b.size) :
    wireLen (toMsg q) ≤ M := by
  have hsize := computeMessageSize_eq p size hsz
  rw [wireLen_toMsg_nopayload] at hsize
  have hneg' := negotiate_some (some rb) size p.payload.length M b
    (by intro r hr; injection hr with hr; subst hr; exact hrb) (by omega) hneg
  have hle := hneg'.2.2.1 h16
  have hrep := wireOptsLen_replace_value block1Num v0 v post (by omega) (by omega) pre 0
  rw [← hp, ← hq] at hrep
  have hw := wireLen_toMsg_le q
  rw [wireLen_toMsg_nopayload] at hw
  unfold blockBudget at hle h16
  simp only [Consts.blockOptionsMaxLength] at hle h16
  rw [hqt] at hw
  omega

/-- a response the handler leaves unfragmented – as `coreResponse` decides it, i.e. with the token
reserve – fits the budget -/
theorem unfragmented_fits_reserved (p : Packet) (M size : Nat)
    (hsz : computeMessageSize p = .ok size)
    (hneg : negotiate none (size + tokenReserve p) p.payload.length M = .ok none) :
    wireLen (toMsg p) ≤ M := by
  have hsize := computeMessageSize_eq p size hsz
  have h := (negotiate_none (size + tokenReserve p) p.payload.length M (by omega)).1 hneg
  have hw := wireLen_toMsg_le p
  unfold blockBudget at h
  simp only [Consts.blockOptionsMaxLength] at h
  omega

end CoapLite.Block
