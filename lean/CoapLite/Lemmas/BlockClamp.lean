/-
D21: what a follow-up Block2 request is served once the handler remembers the size negotiated for the
cached response (`BlockState.cachedSzx`, `clampBlock`). The theorems here discharge, from the state the
handler itself keeps, the hypothesis `chunk.length ≤ negotiated size` that `followup_fits` used to take
for granted – the hypothesis through which D21 escaped.
-/
import CoapLite.Lemmas.BlockHandler
import CoapLite.Lemmas.BlockTrace

namespace CoapLite.Block
open CoapLite

theorem size_pos (b : BlockValue) : 0 < b.size := Nat.two_pow_pos _

/-- a block served from the cache carries exactly the bytes at `num * size`, at most `size` of them -/
theorem serveCached_ok_payload (req : Request) (rb2 : BlockValue) (cached : Packet) (req' : Request)
    (more : Bool) (h : serveCached req rb2 cached = (req', .ok more)) :
    ∃ resp', req'.response = some resp' ∧
      resp'.payload = (cached.payload.drop (rb2.num * rb2.size)).take rb2.size ∧
      resp'.payload.length ≤ rb2.size := by
  unfold serveCached at h
  split at h
  · simp [notHandled] at h
  · split at h
    · simp at h
    · simp at h
    · simp only at h
      split at h
      · simp [badRequest] at h
      · rename_i chunk more' hch
        split at h
        · simp only [Prod.mk.injEq, HRes.ok.injEq] at h
          obtain ⟨h1, _⟩ := h
          subst h1
          have hl := chunkAt_length _ _ _ _ _ hch (size_pos rb2)
          refine ⟨_, rfl, ?_, ?_⟩
          · exact hl.2.2.1
          · exact hl.1
        · simp [internal] at h
        · simp at h

/-- the clamped block is never larger than the negotiated size, and names the offset the client named -/
theorem clampBlock_size {b b' : BlockValue} {x : Nat} (h : clampBlock b (some x) = .ok b') :
    b'.szx ≤ x ∧ b'.szx ≤ b.szx ∧ b'.num * b'.size = b.num * b.size := by
  by_cases hx : x < b.szx
  · obtain ⟨h1, h2, _⟩ := clampBlock_gt hx h
    exact ⟨by omega, by omega, h2⟩
  · rw [clampBlock_le (by intro y hy; simp only [Option.some.injEq] at hy; omega)] at h
    simp only [HRes.ok.injEq] at h
    subst h
    exact ⟨by omega, Nat.le_refl _, rfl⟩

/-- D21, the Block2 stage: whatever block a follow-up asks for – any number, any size exponent, also one
LARGER than the negotiated one – a reply served from the cache carries at most `2^(x+4)` payload bytes,
`x` being the exponent the handler stored with the cached response, and they are the bytes at the
offset the client named -/
theorem handleBlock2_served_within (req : Request) (st : BlockState) (b2 : BlockValue) (x : Nat)
    (req' : Request) (st' : BlockState)
    (hb : firstBlock req.message block2Num = some b2) (hx : st.cachedSzx = some x)
    (h : handleBlock2 req st = (req', st', .ok true)) :
    ∃ cached resp', st.cachedResponse = some cached ∧ req'.response = some resp' ∧
      resp'.payload.length ≤ 2 ^ (x + 4) ∧
      resp'.payload = (cached.payload.drop (b2.num * b2.size)).take (2 ^ (min b2.szx x + 4)) := by
  unfold handleBlock2 at h
  simp only [hb, hx] at h
  split at h
  · rename_i b2a cached hba hc
    simp only [Option.some.injEq] at hba
    subst hba
    split at h
    · rename_i b2' hcl
      have hsz := clampBlock_size hcl
      rcases hsc : serveCached req b2' cached with ⟨r, res⟩
      rw [hsc] at h
      cases res with
      | ok more =>
        simp only [Prod.mk.injEq] at h
        obtain ⟨h1, _, _⟩ := h
        subst h1
        obtain ⟨resp', hr, hp, hl⟩ := serveCached_ok_payload req b2' cached r more hsc
        refine ⟨cached, resp', hc, hr, ?_, ?_⟩
        · have : b2'.size ≤ 2 ^ (x + 4) := Nat.pow_le_pow_right (by omega) (by omega)
          omega
        · rw [hp, hsz.2.2]
          congr 1
          show 2 ^ (b2'.szx + 4) = _
          congr 1
          by_cases hgt : x < b2.szx
          · have := (clampBlock_gt hgt hcl).1
            omega
          · rw [clampBlock_le (by intro y hy; simp only [Option.some.injEq] at hy; omega)] at hcl
            simp only [HRes.ok.injEq] at hcl
            subst hcl
            omega
      | herr c => simp at h
      | panic => simp at h
    · simp at h
    · simp at h
  · simp at h

/-! ### the stored exponent is the negotiated one, in every reachable state -/

theorem handleBlock1_szx (req : Request) (M : Nat) (st : BlockState) :
    (handleBlock1 req M st).2.1.cachedSzx = st.cachedSzx := by
  unfold handleBlock1
  simp only
  cases hsz : computeMessageSize req.message with
  | panic => simp
  | herr c => simp
  | ok size =>
    simp only
    cases hn : negotiate (firstBlock req.message block1Num) size req.message.payload.length M with
    | panic => simp
    | herr c => simp
    | ok r =>
      cases r with
      | none => simp only; split <;> simp_all
      | some resp1 =>
        simp only
        repeat' split
        all_goals simp_all

/-- what the handler remembers about a cached response: the exponent of a size that WAS negotiated for
exactly this packet under this budget (for some earlier size preference `lb` of the client) -/
def Recorded (M : Nat) (st : BlockState) : Prop :=
  (∀ r, st.lastBlock2 = some r → BvOk r) ∧
  ∀ cached, st.cachedResponse = some cached →
    ∃ x lb size b, st.cachedSzx = some x ∧ (∀ r, lb = some r → BvOk r) ∧
      computeMessageSize cached = .ok size ∧
      negotiate lb (size + tokenReserve cached) cached.payload.length M = .ok (some b) ∧
      b.szx = x ∧ cached.getOption block2Num = none

theorem recorded_default (M : Nat) : Recorded M BlockState.default :=
  ⟨by intro r h; simp [BlockState.default] at h, by intro c h; simp [BlockState.default] at h⟩

theorem handleBlock2_recorded (M : Nat) (req : Request) (st : BlockState) (h : Recorded M st) :
    Recorded M (handleBlock2 req st).2.1 := by
  have hfb : ∀ r, firstBlock req.message block2Num = some r → BvOk r := fun r hr => firstBlock_ok hr
  unfold handleBlock2
  simp only
  split
  · rename_i b2 cached hb hc
    split
    · rename_i b2' _
      rcases hsc : serveCached req b2' cached with ⟨req', r⟩
      cases r with
      | ok more =>
        cases more
        · exact ⟨by simpa using hfb, by intro c hcc; simp at hcc⟩
        · exact ⟨by simpa using hfb, by simpa using h.2⟩
      | herr c => exact ⟨by simpa using hfb, by simpa using h.2⟩
      | panic => exact ⟨by simpa using hfb, by simpa using h.2⟩
    · exact ⟨by simpa using hfb, by simpa using h.2⟩
    · exact ⟨by simpa using hfb, by simpa using h.2⟩
  · exact ⟨by simpa using hfb, by simpa using h.2⟩

theorem coreRequest_recorded (M : Nat) (req : Request) (st : BlockState) (h : Recorded M st) :
    Recorded M (coreRequest M req st).2.1 := by
  have h1 : Recorded M (handleBlock1 req M st).2.1 := by
    have hf := handleBlock1_frame req M st
    have hs := handleBlock1_szx req M st
    refine ⟨by rw [hf.2.2.2.2.2.1]; exact h.1, ?_⟩
    intro cached hc
    rw [hf.2.2.2.2.2.2] at hc
    rw [hs]
    exact h.2 cached hc
  rcases coreRequest_cases M req st with ⟨he, _⟩ | ⟨_, he⟩
  · rw [he]; exact h1
  · rw [he]; exact handleBlock2_recorded M _ _ h1

theorem coreResponse_recorded (M : Nat) (req : Request) (st : BlockState) (h : Recorded M st) :
    Recorded M (coreResponse M req st).2.1 := by
  unfold coreResponse
  cases hr : req.response with
  | none => exact h
  | some resp =>
    simp only
    split
    · exact h
    · rename_i hno
      cases hsz : computeMessageSize resp with
      | panic => exact h
      | herr c => exact h
      | ok size =>
        simp only
        cases hn : negotiate st.lastBlock2 (size + tokenReserve resp) resp.payload.length M with
        | panic => exact h
        | herr c => exact h
        | ok r =>
          cases r with
          | none => exact h
          | some rb2 =>
            simp only
            rcases hsc : serveCached req rb2 resp with ⟨req', r⟩
            cases r with
            | ok more =>
              cases more
              · exact h
              · refine ⟨h.1, ?_⟩
                intro cached hc
                simp only [Option.some.injEq] at hc
                subst hc
                refine ⟨rb2.szx, st.lastBlock2, size, rb2, rfl, h.1, hsz, hn, rfl, ?_⟩
                cases hg : resp.getOption block2Num with
                | none => rfl
                | some v => rw [hg] at hno; simp at hno
            | herr c => exact h
            | panic => exact h

/-- the state one key's calls leave behind -/
def finalState (M : Nat) : BlockState → List Ev → BlockState
  | st, [] => st
  | st, e :: es => finalState M (coreEv M e st).2.1 es

theorem recorded_reachable (M : Nat) (evs : List Ev) : ∀ st, Recorded M st → Recorded M (finalState M st evs) := by
  induction evs with
  | nil => intro st h; exact h
  | cons e es ih =>
    intro st h
    apply ih
    unfold coreEv
    split
    · exact coreResponse_recorded M _ _ h
    · exact coreRequest_recorded M _ _ h

/-- D21 in any history: after ANY sequence of calls for a key, a follow-up of ANY size served from the
cache carries at most as many payload bytes as the size that was negotiated for the cached response -/
theorem served_within_negotiated_in_any_history (M : Nat) (evs : List Ev) (req : Request) (b2 : BlockValue)
    (req' : Request) (st' : BlockState)
    (hb : firstBlock req.message block2Num = some b2)
    (h : handleBlock2 req (finalState M BlockState.default evs) = (req', st', .ok true)) :
    ∃ cached resp' lb size b,
      (finalState M BlockState.default evs).cachedResponse = some cached ∧ req'.response = some resp' ∧
      (∀ r, lb = some r → BvOk r) ∧ computeMessageSize cached = .ok size ∧
      cached.getOption block2Num = none ∧
      negotiate lb (size + tokenReserve cached) cached.payload.length M = .ok (some b) ∧
      resp'.payload.length ≤ b.size ∧
      resp'.payload = (cached.payload.drop (b2.num * b2.size)).take (2 ^ (min b2.szx b.szx + 4)) := by
  have hrec := recorded_reachable M evs _ (recorded_default M)
  -- a served block means a response is cached
  have hc : ∃ cached, (finalState M BlockState.default evs).cachedResponse = some cached := by
    cases hcr : (finalState M BlockState.default evs).cachedResponse with
    | some c => exact ⟨c, rfl⟩
    | none =>
      rw [handleBlock2_pass _ _ (Or.inr hcr)] at h
      simp at h
  obtain ⟨cached, hcached⟩ := hc
  obtain ⟨x, lb, size, b, hx, hlb, hsz, hn, hbx, hno⟩ := hrec.2 cached hcached
  obtain ⟨cached', resp', hc', hr, hlen, hpay⟩ := handleBlock2_served_within req _ b2 x req' st' hb hx h
  rw [hcached] at hc'
  simp only [Option.some.injEq] at hc'
  subst hc'
  subst hbx
  exact ⟨cached, resp', lb, size, b, hcached, hr, hlb, hsz, hno, hn, hlen, hpay⟩

end CoapLite.Block
