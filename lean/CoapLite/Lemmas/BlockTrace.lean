/-
Histories of handler calls and non-interference between keys (C12), retention
and expiry at the level of histories (C20).
-/
import CoapLite.Lemmas.BlockHandler

namespace CoapLite.Block

/-- one call of an entry point at time `now` -/
structure Ev where
  now : Nat
  isResp : Bool            -- `intercept_response` (true) or `intercept_request`
  req : Request
  deriving Repr

def Ev.key (e : Ev) : Key := keyOf e.req

def stepEv (h : Handler) (e : Ev) : Handler × (Request × HRes Bool) :=
  let out := if e.isResp then interceptResponse h e.now e.req else interceptRequest h e.now e.req
  (out.1, (out.2.1, out.2.2))

/-- run a history; yields, per call, the key it used and what the caller
observes (the mutated request incl. its reply, and the result) -/
def runEvs : Handler → List Ev → List (Key × Request × HRes Bool)
  | _, [] => []
  | h, e :: es => let (h', o) := stepEv h e; (e.key, o) :: runEvs h' es

/-- timestamps never go backwards (monotone clock), starting at `t0` -/
def Mono : Nat → List Ev → Prop
  | _, [] => True
  | t0, e :: es => t0 ≤ e.now ∧ Mono e.now es

/-! ### uniform step lemma -/

/-- the pure core an event runs on the effective state -/
def coreEv (M : Nat) (e : Ev) (st : BlockState) : Request × BlockState × HRes Bool :=
  if e.isResp then coreResponse M e.req st else coreRequest M e.req st

theorem stepEv_spec (h : Handler) (e : Ev) (hi : Lru.Inv h.cache e.now) :
    (stepEv h e).2 = ((coreEv h.maxSize e (effective h e.key e.now)).1,
                      (coreEv h.maxSize e (effective h e.key e.now)).2.2) ∧
    (stepEv h e).1.maxSize = h.maxSize ∧ (stepEv h e).1.cache.ttl = h.cache.ttl ∧
    Lru.Inv (stepEv h e).1.cache e.now ∧
    (∀ now', e.now ≤ now' → Lru.peek (stepEv h e).1.cache e.key now' =
        if now' ≤ e.now + h.cache.ttl then
          some (coreEv h.maxSize e (effective h e.key e.now)).2.1 else none) ∧
    (∀ k' now', k' ≠ e.key → e.now ≤ now' →
        Lru.peek (stepEv h e).1.cache k' now' = Lru.peek h.cache k' now') ∧
    (∀ x ∈ (stepEv h e).1.cache.entries, e.now ≤ x.2.2 + h.cache.ttl) := by
  cases hr : e.isResp with
  | true =>
    have H := interceptResponse_eq h e.now e.req hi
    simp only [stepEv, coreEv, Ev.key, hr, if_true] at H ⊢
    obtain ⟨a, b, c, d, f, g, i, j⟩ := H
    exact ⟨by rw [a, b], c, d, f, g, i, j⟩
  | false =>
    have H := interceptRequest_eq h e.now e.req hi
    simp only [stepEv, coreEv, Ev.key, hr] at H ⊢
    obtain ⟨a, b, c, d, f, g, i, j⟩ := H
    exact ⟨by simp [a, b], c, d, f, g, i, j⟩

theorem runEvs_cons (h : Handler) (e : Ev) (es : List Ev) :
    runEvs h (e :: es) = (e.key, (stepEv h e).2) :: runEvs (stepEv h e).1 es := rfl

theorem nonint_gen (κ : Key) : ∀ (evs : List Ev) (t : Nat) (h₁ h₂ : Handler),
    h₁.maxSize = h₂.maxSize → h₁.cache.ttl = h₂.cache.ttl →
    Lru.Inv h₁.cache t → Lru.Inv h₂.cache t →
    (∀ now', t ≤ now' → Lru.peek h₁.cache κ now' = Lru.peek h₂.cache κ now') →
    Mono t evs →
    (runEvs h₁ evs).filter (fun o => o.1 = κ) =
      runEvs h₂ (evs.filter (fun e => e.key = κ)) := by
  intro evs
  induction evs with
  | nil => intros; rfl
  | cons e es ih =>
    intro t h₁ h₂ hM httl hi₁ hi₂ hp hm
    obtain ⟨hte, hm'⟩ := hm
    have hi₁' := Lru.inv_mono _ _ _ hi₁ hte
    have hi₂' := Lru.inv_mono _ _ _ hi₂ hte
    obtain ⟨o₁, M₁, T₁, I₁, P₁, Q₁, _⟩ := stepEv_spec h₁ e hi₁'
    by_cases hk : e.key = κ
    · obtain ⟨o₂, M₂, T₂, I₂, P₂, Q₂, _⟩ := stepEv_spec h₂ e hi₂'
      have heff : effective h₁ e.key e.now = effective h₂ e.key e.now := by
        unfold effective; rw [hk, hp _ hte]
      rw [runEvs_cons, List.filter_cons_of_pos (by simpa using hk),
        List.filter_cons_of_pos (by simpa using hk), runEvs_cons]
      congr 1
      · rw [o₁, o₂, heff, hM]
      · apply ih e.now
        · rw [M₁, M₂, hM]
        · rw [T₁, T₂, httl]
        · exact I₁
        · exact I₂
        · intro now' hn
          rw [← hk, P₁ _ hn, P₂ _ hn, heff, hM, httl]
        · exact hm'
    · rw [runEvs_cons, List.filter_cons_of_neg (by simpa using hk),
        List.filter_cons_of_neg (by simpa using hk)]
      apply ih e.now
      · rw [M₁, hM]
      · rw [T₁, httl]
      · exact I₁
      · exact hi₂'
      · intro now' hn
        rw [Q₁ κ now' (fun h => hk h.symm) hn]
        exact hp _ (Nat.le_trans hte hn)
      · exact hm'

/-- Non-interference: in every history (every interleaving, every monotone
timestamping) the calls for key `κ` observe exactly what they observe when all
calls for other keys are removed from the history. -/
theorem noninterference (M ttl : Nat) (evs : List Ev) (κ : Key) (hm : Mono 0 evs) :
    (runEvs (Handler.new M ttl) evs).filter (fun o => o.1 = κ) =
      runEvs (Handler.new M ttl) (evs.filter (fun e => e.key = κ)) :=
  nonint_gen κ evs 0 _ _ rfl rfl (Lru.inv_empty _ _) (Lru.inv_empty _ _) (fun _ _ => rfl) hm

/-! ### reachable states -/

theorem reach_gen : ∀ (evs : List Ev) (t0 : Nat) (h0 : Handler),
    Lru.Inv h0.cache t0 → Mono t0 evs →
    (∀ x ∈ h0.cache.entries, t0 ≤ x.2.2 + h0.cache.ttl) →
    let h := evs.foldl (fun h e => (stepEv h e).1) h0
    h.maxSize = h0.maxSize ∧ h.cache.ttl = h0.cache.ttl ∧
    (∀ t, t0 ≤ t → (∀ e ∈ evs, e.now ≤ t) → Lru.Inv h.cache t) ∧
    (∀ last, evs.getLast? = some last →
      ∀ x ∈ h.cache.entries, last.now ≤ x.2.2 + h0.cache.ttl) := by
  intro evs
  induction evs with
  | nil =>
    intro t0 h0 hi _ _
    refine ⟨rfl, rfl, fun t ht _ => Lru.inv_mono _ _ _ hi ht, ?_⟩
    intro last hl; simp at hl
  | cons e es ih =>
    intro t0 h0 hi hm hx
    obtain ⟨hte, hm'⟩ := hm
    have hi' := Lru.inv_mono _ _ _ hi hte
    obtain ⟨_, M₁, T₁, I₁, _, _, R₁⟩ := stepEv_spec h0 e hi'
    have IH := ih e.now (stepEv h0 e).1 I₁ hm' (by rw [T₁]; exact R₁)
    simp only [List.foldl_cons] at IH ⊢
    obtain ⟨a, b, c, d⟩ := IH
    refine ⟨by rw [a, M₁], by rw [b, T₁], ?_, ?_⟩
    · intro t _ hall
      exact c t (hall e (List.mem_cons_self ..)) (fun e' he' => hall e' (List.mem_cons_of_mem _ he'))
    · intro last hl
      cases es with
      | nil =>
        simp at hl
        subst hl
        simpa using R₁
      | cons e2 es2 =>
        rw [List.getLast?_cons_cons] at hl
        rw [← T₁]
        exact d last hl

/-- the handler state reachable by any monotone history satisfies the cache
invariant and holds no entry that has expired by the time of the last call -/
theorem reachable_inv (M ttl : Nat) (evs : List Ev) (hm : Mono 0 evs) (h : Handler)
    (hr : h = evs.foldl (fun h e => (stepEv h e).1) (Handler.new M ttl)) :
    h.maxSize = M ∧ h.cache.ttl = ttl ∧
    (∀ t, (∀ e ∈ evs, e.now ≤ t) → Lru.Inv h.cache t) ∧
    (∀ last, evs.getLast? = some last → ∀ e ∈ h.cache.entries, last.now ≤ e.2.2 + ttl) := by
  subst hr
  have H := reach_gen evs 0 (Handler.new M ttl) (Lru.inv_empty _ _) hm
    (by intro x hx; simp [Handler.new, Lru.empty] at hx)
  obtain ⟨a, b, c, d⟩ := H
  exact ⟨a, b, fun t ht => c t (Nat.zero_le _) ht, d⟩

/-! ### retention and expiry -/

theorem retain_gen (κ : Key) : ∀ (others : List Ev) (t0 : Nat) (h0 : Handler),
    Lru.Inv h0.cache t0 → Mono t0 others → (∀ o ∈ others, o.key ≠ κ) →
    let h := others.foldl (fun h o => (stepEv h o).1) h0
    ∀ t', t0 ≤ t' → (∀ o ∈ others, o.now ≤ t') →
      Lru.peek h.cache κ t' = Lru.peek h0.cache κ t' := by
  intro others
  induction others with
  | nil => intro t0 h0 _ _ _ h t' _ _; rfl
  | cons o os ih =>
    intro t0 h0 hi hm hk
    obtain ⟨hte, hm'⟩ := hm
    have hi' := Lru.inv_mono _ _ _ hi hte
    obtain ⟨_, _, _, I₁, _, Q₁, _⟩ := stepEv_spec h0 o hi'
    intro h t' ht' hall
    have hot : o.now ≤ t' := hall o (List.mem_cons_self ..)
    have IH := ih o.now (stepEv h0 o).1 I₁ hm' (fun o' ho' => hk o' (List.mem_cons_of_mem _ ho'))
      t' hot (fun o' ho' => hall o' (List.mem_cons_of_mem _ ho'))
    show Lru.peek (List.foldl _ (stepEv h0 o).1 os).cache κ t' = _
    rw [IH]
    exact Q₁ κ t' (fun hh => hk o (List.mem_cons_self ..) hh.symm) hot

/-- Retention (C20): the state left for key `κ` by a call at time `t` is what
the next call for `κ` at time `t' ≤ t + ttl` works on – whatever calls for other
keys happen in between. Expiry: after `t + ttl` the next call starts from the
default state. -/
theorem retention_and_expiry (h : Handler) (t : Nat) (e : Ev) (others : List Ev) (t' : Nat)
    (hi : Lru.Inv h.cache t) (ht : t ≤ e.now)
    (hm : Mono e.now others) (hk : ∀ o ∈ others, o.key ≠ e.key)
    (hlast : ∀ o ∈ others, o.now ≤ t') (hle : e.now ≤ t') :
    let h1 := (stepEv h e).1
    let st1 := (if e.isResp then coreResponse h.maxSize e.req (effective h e.key e.now)
                else coreRequest h.maxSize e.req (effective h e.key e.now)).2.1
    let h2 := others.foldl (fun h o => (stepEv h o).1) h1
    effective h2 e.key t' = if t' ≤ e.now + h.cache.ttl then st1 else BlockState.default := by
  intro h1 st1 h2
  have hi' := Lru.inv_mono _ _ _ hi ht
  obtain ⟨_, _, _, I₁, P₁, _, _⟩ := stepEv_spec h e hi'
  have H := retain_gen e.key others e.now h1 I₁ hm hk t' hle hlast
  show (Lru.peek h2.cache e.key t').getD BlockState.default = _
  rw [show Lru.peek h2.cache e.key t' = _ from H, P₁ t' hle]
  by_cases hc : t' ≤ e.now + h.cache.ttl
  · simp only [hc, if_true, Option.getD_some]; rfl
  · simp only [hc, if_false, Option.getD_none]

end CoapLite.Block
