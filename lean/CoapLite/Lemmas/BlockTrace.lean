/-
Histories of handler calls and non-interference between keys (C12), retention
and expiry at the level of histories (C20).
-/
import CoapLite.Lemmas.BlockHandler

namespace CoapLite.Block

/-- one call of an entry point at time `now` -/
structure Ev where
  now : Nat
  isResp : Bool            -- `intercept_response` (true) or `intercept_request`
  req : Request
  deriving Repr

def Ev.key (e : Ev) : Key := keyOf e.req

def stepEv (h : Handler) (e : Ev) : Handler × (Request × HRes Bool) :=
  let out := if e.isResp then interceptResponse h e.now e.req else interceptRequest h e.now e.req
  (out.1, (out.2.1, out.2.2))

/-- run a history; yields, per call, the key it used and what the caller
observes (the mutated request incl. its reply, and the result) -/
def runEvs : Handler → List Ev → List (Key × Request × HRes Bool)
  | _, [] => []
  | h, e :: es => let (h', o) := stepEv h e; (e.key, o) :: runEvs h' es

/-- timestamps never go backwards (monotone clock), starting at `t0` -/
def Mono : Nat → List Ev → Prop
  | _, [] => True
  | t0, e :: es => t0 ≤ e.now ∧ Mono e.now es

/-- Non-interference: in every history (every interleaving, every monotone
timestamping) the calls for key `κ` observe exactly what they observe when all
calls for other keys are removed from the history. -/
theorem noninterference (M ttl : Nat) (evs : List Ev) (κ : Key) (hm : Mono 0 evs) :
    (runEvs (Handler.new M ttl) evs).filter (fun o => o.1 = κ) =
      runEvs (Handler.new M ttl) (evs.filter (fun e => e.key = κ)) := by
  sorry

/-- the handler state reachable by any monotone history satisfies the cache
invariant and holds no entry that has expired by the time of the last call -/
theorem reachable_inv (M ttl : Nat) (evs : List Ev) (hm : Mono 0 evs) (h : Handler)
    (hr : h = evs.foldl (fun h e => (stepEv h e).1) (Handler.new M ttl)) :
    h.maxSize = M ∧ h.cache.ttl = ttl ∧
    (∀ t, (∀ e ∈ evs, e.now ≤ t) → Lru.Inv h.cache t) ∧
    (∀ last, evs.getLast? = some last → ∀ e ∈ h.cache.entries, last.now ≤ e.2.2 + ttl) := by
  sorry

/-- Retention (C20): the state left for key `κ` by a call at time `t` is what
the next call for `κ` at time `t' ≤ t + ttl` works on – whatever calls for other
keys happen in between. Expiry: after `t + ttl` the next call starts from the
default state. -/
theorem retention_and_expiry (h : Handler) (t : Nat) (e : Ev) (others : List Ev) (t' : Nat)
    (hi : Lru.Inv h.cache t) (ht : t ≤ e.now)
    (hm : Mono e.now others) (hk : ∀ o ∈ others, o.key ≠ e.key)
    (hlast : ∀ o ∈ others, o.now ≤ t') (hle : e.now ≤ t') :
    let h1 := (stepEv h e).1
    let st1 := (if e.isResp then coreResponse h.maxSize e.req (effective h e.key e.now)
                else coreRequest h.maxSize e.req (effective h e.key e.now)).2.1
    let h2 := others.foldl (fun h o => (stepEv h o).1) h1
    effective h2 e.key t' = if t' ≤ e.now + h.cache.ttl then st1 else BlockState.default := by
  sorry

end CoapLite.Block
