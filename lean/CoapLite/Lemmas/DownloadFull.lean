/-
From the application's reply to the reassembled body: `coreResponse` on a reply that needs
fragmenting serves block 0 and caches the reply; the follow-up requests at the negotiated size get the
rest (`download_tail`). Composes `coreResponse_fragment`, `serveCached_spec` and `download_tail`.
-/
import CoapLite.Lemmas.Download

namespace CoapLite.Block
open CoapLite

/-- END TO END from the application's reply. `resp` is what the application produced for `req` (no
Block2 option of its own), `rb2` the block the handler negotiates for it – block 0 – and the body is
longer than one block. Then `intercept_response` (core) answers with block 0 = the first `size`
bytes, `more` set, and keeps `resp`; the follow-up requests for blocks 1, 2, … at that size
(`IsFollowUp`) are all answered from the cache, and block 0 followed by their payloads is exactly the
body the application produced. -/
theorem download_from_reply (M : Nat) (req : Request) (st : BlockState) (resp : Packet) (size : Nat)
    (rb2 : BlockValue)
    (hr : req.response = some resp) (hno : resp.getOption block2Num = none)
    (hs : resp.options.Sorted) (hk : ∀ kv ∈ resp.options, kv.1 ≤ 65535)
    (hsz : computeMessageSize resp = .ok size)
    (hn : negotiate st.lastBlock2 (size + tokenReserve resp) resp.payload.length M = .ok (some rb2))
    (hbv : BvOk rb2) (h0 : rb2.num = 0)
    (hmore : rb2.size < resp.payload.length)
    (reqs : List Request)
    (hfu : ∀ i (h : i < reqs.length), IsFollowUp M reqs[i] (1 + i) rb2.szx)
    (hne : reqs ≠ [])
    (hlast : (1 + reqs.length - 1) * 2 ^ (rb2.szx + 4) < resp.payload.length)
    (hcover : resp.payload.length ≤ (1 + reqs.length) * 2 ^ (rb2.szx + 4)) :
    (coreResponse M req st).2.2 = .ok true ∧
    (coreResponse M req st).1.response.map (·.payload) = some (resp.payload.take rb2.size) ∧
    (resp.payload.take rb2.size ++
        ((fetchAll M reqs (coreResponse M req st).2.1).1.flatMap (·.1))) = resp.payload ∧
    (∀ o ∈ (fetchAll M reqs (coreResponse M req st).2.1).1, o.2 = .ok true) ∧
    (fetchAll M reqs (coreResponse M req st).2.1).2.cachedResponse = none := by
  have hsize : rb2.size = 2 ^ (rb2.szx + 4) := rfl
  have hpos : 0 < rb2.size := by rw [hsize]; exact Nat.two_pow_pos _
  have hchunk : chunkAt resp.payload rb2.size rb2.num = some (resp.payload.take rb2.size, true) := by
    unfold chunkAt
    rw [h0]
    have h1 : 0 < resp.payload.length := by omega
    simp [h1, hmore]
  obtain ⟨resp', bs, hserve, _, hpay, _⟩ := serveCached_spec req resp rb2 resp _ true hr hbv hs hs hk hchunk
  have hcore := coreResponse_fragment M req st resp size rb2 hr hno hsz hn
  rw [hserve] at hcore
  simp only at hcore
  rw [hcore]
  have htail := download_tail M resp rb2.szx hs hk reqs 1
    { st with cachedResponse := some resp, cachedSzx := some rb2.szx } rfl
    (fun x hx => by simp only [Option.some.injEq] at hx; omega) hfu hne hlast hcover
  refine ⟨rfl, ?_, ?_, htail.2.1, htail.2.2⟩
  · simp [hpay]
  · rw [htail.1, Nat.one_mul, ← hsize]
    exact List.take_append_drop _ _

end CoapLite.Block
