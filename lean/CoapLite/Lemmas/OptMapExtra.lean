/-
Extra facts about `OptMap` (Model/Packet.lean) used by Lemmas/Request.lean:
get-after-modify, sortedness in terms of membership, flatten after `add`
at the largest key.
-/
import CoapLite.Model.Packet

namespace CoapLite
namespace OptMap
namespace X

theorem get_modify (m : OptMap) (k k' : Nat) (f : List Bytes → List Bytes) :
    (m.modify k f).get k' = if k' = k then (m.get k).map f else m.get k' := by
  induction m with
  | nil => simp [modify, get]
  | cons kv rest ih =>
    obtain ⟨a, va⟩ := kv
    by_cases h1 : a = k
    · subst h1
      by_cases h2 : k' = a
      · subst h2; simp [modify, get]
      · have h3 : ¬ a = k' := fun h => h2 h.symm
        simp [modify, get, h2, h3]
    · by_cases h2 : k' = k
      · subst h2
        simp [modify, get, h1, ih]
      · simp only [modify, h1, ↓reduceIte, get, ih, h2]

theorem sorted_cons (a : Nat) (va : List Bytes) (rest : OptMap) :
    Sorted ((a, va) :: rest) ↔ (∀ kv ∈ rest, a < kv.1) ∧ Sorted rest := by
  induction rest generalizing a va with
  | nil => simp [Sorted]
  | cons kv rest ih =>
    obtain ⟨b, vb⟩ := kv
    simp only [Sorted, List.mem_cons, forall_eq_or_imp]
    rw [ih b vb]
    constructor
    · rintro ⟨hab, hb, hs⟩
      exact ⟨⟨hab, fun kv hkv => Nat.lt_trans hab (hb kv hkv)⟩, hb, hs⟩
    · rintro ⟨⟨hab, _⟩, hb, hs⟩
      exact ⟨hab, hb, hs⟩

theorem sorted_nil : Sorted ([] : OptMap) := trivial

theorem sorted_tail {kv : Nat × List Bytes} {rest : OptMap} (h : Sorted (kv :: rest)) : Sorted rest := by
  obtain ⟨a, va⟩ := kv
  exact ((sorted_cons a va rest).1 h).2

theorem get_eq_none_of_lt (m : OptMap) (n : Nat) (h : ∀ kv ∈ m, kv.1 < n) : m.get n = none := by
  induction m with
  | nil => rfl
  | cons kv rest ih =>
    obtain ⟨a, va⟩ := kv
    have h1 : a < n := h (a, va) (by simp)
    have h2 : ¬ a = n := by omega
    simp only [get, h2, ↓reduceIte]
    exact ih (fun kv hkv => h kv (by simp [hkv]))

theorem insert_of_lt (m : OptMap) (n : Nat) (vs : List Bytes) (h : ∀ kv ∈ m, kv.1 < n) :
    m.insert n vs = m ++ [(n, vs)] := by
  induction m with
  | nil => rfl
  | cons kv rest ih =>
    obtain ⟨a, va⟩ := kv
    have h1 : a < n := h (a, va) (by simp)
    have h2 : ¬ n < a := by omega
    have h3 : ¬ n = a := by omega
    simp only [insert, h2, h3, ↓reduceIte, List.cons_append]
    rw [ih (fun kv hkv => h kv (by simp [hkv]))]

theorem flatten_nil : flatten ([] : OptMap) = [] := rfl

theorem flatten_cons (a : Nat) (va : List Bytes) (rest : OptMap) :
    flatten ((a, va) :: rest) = va.map (fun v => (a, v)) ++ flatten rest := by
  simp [flatten]

theorem flatten_append (m₁ m₂ : OptMap) : flatten (m₁ ++ m₂) = flatten m₁ ++ flatten m₂ := by
  simp [flatten]

theorem add_cons_lt (a : Nat) (va : List Bytes) (rest : OptMap) (n : Nat) (v : Bytes) (h : a < n) :
    add ((a, va) :: rest) n v = (a, va) :: add rest n v := by
  have h1 : ¬ a = n := by omega
  have h2 : ¬ n < a := by omega
  have h3 : ¬ n = a := by omega
  unfold add
  simp only [get, h1, ↓reduceIte]
  cases hg : get rest n with
  | none => simp only [insert, h2, h3, ↓reduceIte]
  | some l => simp only [modify, h1, ↓reduceIte]

/-- adding at a key that is ≥ every key present appends to the flattened view -/
theorem add_last (m : OptMap) (hs : Sorted m) (n : Nat) (v : Bytes) (h : ∀ kv ∈ m, kv.1 ≤ n) :
    flatten (m.add n v) = flatten m ++ [(n, v)] ∧ (∀ kv ∈ m.add n v, kv.1 ≤ n) := by
  induction m with
  | nil => simp [add, get, insert, flatten]
  | cons kv rest ih =>
    obtain ⟨a, va⟩ := kv
    have ha : a ≤ n := h (a, va) (by simp)
    have hs' := (sorted_cons a va rest).1 hs
    by_cases han : a = n
    · subst han
      have hrest : rest = [] := by
        cases rest with
        | nil => rfl
        | cons kv' r =>
          have h1 := hs'.1 kv' (by simp)
          have h2 := h kv' (by simp)
          omega
      subst hrest
      simp [add, get, modify, flatten]
    · have hlt : a < n := by omega
      rw [add_cons_lt a va rest n v hlt]
      have ih' := ih hs'.2 (fun kv hkv => h kv (by simp [hkv]))
      refine ⟨?_, ?_⟩
      · rw [flatten_cons, flatten_cons, ih'.1, List.append_assoc]
      · intro kv hkv
        rcases List.mem_cons.1 hkv with hk | hk
        · subst hk; exact ha
        · exact ih'.2 kv hk

/-- keys of the flattened view of a sorted map are non-decreasing -/
theorem flatten_keys_pairwise (m : OptMap) (hs : Sorted m) :
    ((flatten m).map (·.1)).Pairwise (· ≤ ·) := by
  induction m with
  | nil => simp [flatten]
  | cons kv rest ih =>
    obtain ⟨a, va⟩ := kv
    have hs' := (sorted_cons a va rest).1 hs
    rw [flatten_cons, List.map_append, List.pairwise_append]
    refine ⟨?_, ih hs'.2, ?_⟩
    · simp only [List.map_map]
      rw [List.pairwise_map]
      exact List.Pairwise.imp (fun _ => Nat.le_refl _) (List.pairwise_of_forall (R := fun _ _ => True) (fun _ _ => trivial))
    · intro x hx y hy
      simp only [List.map_map, List.mem_map, Function.comp] at hx
      obtain ⟨_, _, rfl⟩ := hx
      simp only [flatten, List.mem_map, List.mem_flatMap] at hy
      obtain ⟨⟨k, w⟩, ⟨kv, hkv, hw⟩, rfl⟩ := hy
      obtain ⟨_, _, hw⟩ := hw
      have := hs'.1 kv hkv
      have hk : k = kv.1 := by
        have := congrArg Prod.fst hw; simpa using this.symm
      omega

theorem mem_flatten_key (m : OptMap) (x : Nat × Bytes) (hx : x ∈ flatten m) :
    ∃ kv ∈ m, kv.1 = x.1 := by
  simp only [flatten, List.mem_flatMap, List.mem_map] at hx
  obtain ⟨kv, hkv, _, _, rfl⟩ := hx
  exact ⟨kv, hkv, rfl⟩

end X
end OptMap
end CoapLite
