/-
Lemmas about the `MutableWritableMessage` part of the coap-message views
(`truncate`, `payload_mut_with_len`, `payload_mut`, `mutate_options`).
-/
import CoapLite.Lemmas.Request

namespace CoapLite.Lemmas
open CoapLite

theorem cbNumber_eq (n : Nat) : MsgView.cbNumber n = n := by
  unfold MsgView.cbNumber
  unfold CoapOption.ofU16; split <;> simp [CoapOption.toU16]

theorem resize0_length (b : Bytes) (len : Nat) : (MsgView.resize0 b len).length = len := by
  unfold MsgView.resize0
  simp [List.length_take]
  omega

theorem resize0_get (b : Bytes) (len i : Nat) (hi : i < len) :
    (MsgView.resize0 b len)[i]? = some (if h : i < b.length then b[i] else 0) := by
  unfold MsgView.resize0
  have hl : (b.take len).length = min len b.length := List.length_take
  by_cases h : i < b.length
  · have : i < (b.take len).length := by omega
    rw [List.getElem?_append_left this]
    simp [h, hi]
  · have hge : (b.take len).length ≤ i := by omega
    rw [List.getElem?_append_right hge]
    have : i - min len b.length < len - b.length := by omega
    simp only [h, hl, dite_false]
    rw [List.getElem?_replicate]
    simp [this]

theorem flatten_map_values (m : OptMap) (f : Nat → Bytes → Bytes) :
    OptMap.flatten (m.map (fun kv => (kv.1, kv.2.map (f kv.1)))) =
      (OptMap.flatten m).map (fun o => (o.1, f o.1 o.2)) := by
  unfold OptMap.flatten
  induction m with
  | nil => rfl
  | cons kv rest ih =>
    simp only [List.map_cons, List.flatMap_cons, List.map_append, ih]
    simp [List.map_map, Function.comp_def]

theorem sorted_map_values (m : OptMap) (g : Nat → List Bytes → List Bytes) (hs : m.Sorted) :
    OptMap.Sorted (m.map (fun kv => (kv.1, g kv.1 kv.2))) := by
  induction m with
  | nil => trivial
  | cons a rest ih =>
    cases rest with
    | nil => trivial
    | cons b rest2 =>
      obtain ⟨hab, hrest⟩ := hs
      exact ⟨hab, ih hrest⟩

theorem mutateOptions_eq (p : Packet) (f : Nat → Bytes → Bytes) :
    (MsgView.mutateOptions p f).options = p.options.map (fun kv => (kv.1, kv.2.map (f kv.1))) := by
  unfold MsgView.mutateOptions
  simp [cbNumber_eq]

theorem mutate_options_spec (p : Packet) (f : Nat → Bytes → Bytes) (hs : p.options.Sorted) :
    let q := MsgView.mutateOptions p f
    MsgView.options q = (MsgView.options p).map (fun o => (o.1, f o.1 o.2)) ∧
    MsgView.mutateCalls p = MsgView.options p ∧
    q.options.Sorted ∧ q.payload = p.payload ∧ q.header = p.header ∧ q.token = p.token := by
  refine ⟨?_, ?_, ?_, rfl, rfl, rfl⟩
  · show OptMap.flatten (MsgView.mutateOptions p f).options = _
    rw [mutateOptions_eq]
    exact flatten_map_values p.options f
  · unfold MsgView.mutateCalls MsgView.options
    simp [cbNumber_eq]
  · show OptMap.Sorted (MsgView.mutateOptions p f).options
    rw [mutateOptions_eq]
    exact sorted_map_values p.options (fun k l => l.map (f k)) hs

theorem payload_mut_with_len_spec (p : Packet) (len : Nat) (w : Bytes → Bytes)
    (hw : ∀ b, (w b).length = b.length) :
    let q := MsgView.payloadMutWithLen p len w
    q.payload = w (MsgView.resize0 p.payload len) ∧ q.payload.length = len ∧
    (∀ i, i < len → (MsgView.resize0 p.payload len)[i]? =
        some (if h : i < p.payload.length then p.payload[i] else 0)) ∧
    q.options = p.options ∧ q.header = p.header ∧ q.token = p.token := by
  refine ⟨rfl, ?_, fun i hi => resize0_get p.payload len i hi, rfl, rfl, rfl⟩
  show (w (MsgView.resize0 p.payload len)).length = len
  rw [hw, resize0_length]

end CoapLite.Lemmas
