/-
Scanner / unquote / trimming lemmas of the link-format parser model on the
text shapes the writer produces.  Used by Lemmas/LinkRoundtrip.
-/
import CoapLite.Model.LinkFormat
import CoapLite.Lemmas.LinkRtWrite

namespace CoapLite.Link.R
open CoapLite.Link

/-! ### `scanSep` equations -/

theorem scanSep_nil (sep : Char) (b : Bool) : scanSep sep [] b = 0 := by
  cases b <;> rfl

theorem scanSep_false_sep (sep : Char) (cs : List Char) : scanSep sep (sep :: cs) false = 1 := by
  rw [scanSep]; simp

theorem scanSep_false_quote (sep : Char) (cs : List Char) (h : '"' ≠ sep) :
    scanSep sep ('"' :: cs) false = 1 + scanSep sep cs true := by
  rw [scanSep.eq_def]; simp [h]

theorem scanSep_false_other (sep c : Char) (cs : List Char) (h1 : c ≠ sep) (h2 : c ≠ '"') :
    scanSep sep (c :: cs) false = 1 + scanSep sep cs false := by
  rw [scanSep]; simp [h1, h2]

theorem scanSep_true_quote (sep : Char) (cs : List Char) :
    scanSep sep ('"' :: cs) true = 1 + scanSep sep cs false := by
  rw [scanSep.eq_def]; simp

theorem scanSep_true_bs (sep d : Char) (cs : List Char) :
    scanSep sep ('\\' :: d :: cs) true = 2 + scanSep sep cs true := by
  rw [scanSep]; simp

theorem scanSep_true_other (sep c : Char) (cs : List Char) (h1 : c ≠ '"') (h2 : c ≠ '\\') :
    scanSep sep (c :: cs) true = 1 + scanSep sep cs true := by
  rw [scanSep.eq_def]; simp [h1, h2]

/-! ### escape -/

theorem escape_nil : escape [] = [] := rfl

theorem escape_cons_esc (c : Char) (cs : List Char) (h : c = '"' ∨ c = '\\') :
    escape (c :: cs) = '\\' :: c :: escape cs := by
  rw [escape]; rcases h with h | h <;> simp [h]

theorem escape_cons_other (c : Char) (cs : List Char) (h1 : c ≠ '"') (h2 : c ≠ '\\') :
    escape (c :: cs) = c :: escape cs := by
  rw [escape]; simp [h1, h2]

theorem scanSep_escape (sep : Char) (v rest : List Char) :
    scanSep sep (escape v ++ '"' :: rest) true =
      (escape v).length + 1 + scanSep sep rest false := by
  induction v with
  | nil => simp [escape_nil, scanSep_true_quote]
  | cons c cs ih =>
    by_cases h1 : c = '"'
    · rw [escape_cons_esc c cs (Or.inl h1)]
      simp only [List.cons_append, List.length_cons]
      rw [scanSep_true_bs, ih]; omega
    · by_cases h2 : c = '\\'
      · rw [escape_cons_esc c cs (Or.inr h2)]
        simp only [List.cons_append, List.length_cons]
        rw [scanSep_true_bs, ih]; omega
      · rw [escape_cons_other c cs h1 h2]
        simp only [List.cons_append, List.length_cons]
        rw [scanSep_true_other _ _ _ h1 h2, ih]; omega

theorem unqQuoted_escape (v rest : List Char) : unqQuoted (escape v ++ '"' :: rest) = v := by
  induction v with
  | nil => rw [unqQuoted.eq_def]; simp [escape_nil]
  | cons c cs ih =>
    by_cases h1 : c = '"'
    · rw [escape_cons_esc c cs (Or.inl h1)]
      simp only [List.cons_append]
      rw [unqQuoted.eq_def]; simp [ih]
    · by_cases h2 : c = '\\'
      · rw [escape_cons_esc c cs (Or.inr h2)]
        simp only [List.cons_append]
        rw [unqQuoted.eq_def]; simp [ih]
      · rw [escape_cons_other c cs h1 h2]
        simp only [List.cons_append]
        rw [unqQuoted.eq_def]; simp [ih, h1, h2]

theorem unquote_quote (v : List Char) : unquote (quote v) = v := by
  show unqQuoted (escape v ++ ['"']) = v
  exact unqQuoted_escape v []

/-! ### transparent text: the scanner walks over it in unquoted state -/

def Transp (sep : Char) (x : List Char) : Prop :=
  ∀ rest, scanSep sep (x ++ rest) false = x.length + scanSep sep rest false

theorem Transp.nil (sep : Char) : Transp sep [] := by
  intro rest; simp

theorem Transp.append {sep : Char} {x y : List Char} (hx : Transp sep x) (hy : Transp sep y) :
    Transp sep (x ++ y) := by
  intro rest
  rw [List.append_assoc, hx, hy, List.length_append]; omega

theorem Transp.single {sep c : Char} (h1 : c ≠ sep) (h2 : c ≠ '"') : Transp sep [c] := by
  intro rest
  simp only [List.cons_append, List.nil_append, List.length_cons, List.length_nil]
  rw [scanSep_false_other _ _ _ h1 h2]

theorem Transp.cons {sep c : Char} {x : List Char} (h1 : c ≠ sep) (h2 : c ≠ '"')
    (hx : Transp sep x) : Transp sep (c :: x) :=
  Transp.append (Transp.single h1 h2) hx

theorem Transp.of_all {sep : Char} {x : List Char} (h : ∀ c ∈ x, c ≠ sep ∧ c ≠ '"') :
    Transp sep x := by
  induction x with
  | nil => exact Transp.nil sep
  | cons c cs ih =>
    exact Transp.cons (h c (by simp)).1 (h c (by simp)).2
      (ih (fun d hd => h d (List.mem_cons_of_mem _ hd)))

theorem Transp.quote {sep : Char} (h : '"' ≠ sep) (v : List Char) : Transp sep (quote v) := by
  intro rest
  unfold R.quote
  simp only [List.cons_append, List.append_assoc, List.nil_append, List.length_cons,
    List.length_append, List.length_nil]
  rw [scanSep_false_quote _ _ h, scanSep_escape]; omega

theorem Transp.scan_end {sep : Char} {x : List Char} (hx : Transp sep x) :
    scanSep sep x false = x.length := by
  have := hx []
  simpa [scanSep_nil] using this

theorem Transp.scan_sep {sep : Char} {x : List Char} (hx : Transp sep x) (rest : List Char) :
    scanSep sep (x ++ sep :: rest) false = x.length + 1 := by
  rw [hx, scanSep_false_sep]

/-! ### scanGt -/

theorem scanGt_target (t rest : List Char) (h : ∀ c ∈ t, c ≠ '>') :
    scanGt (t ++ '>' :: rest) = t.length + 1 := by
  induction t with
  | nil => simp [scanGt]
  | cons c cs ih =>
    simp only [List.cons_append, List.length_cons]
    rw [scanGt, if_neg (h c (by simp)), ih (fun d hd => h d (List.mem_cons_of_mem _ hd))]
    omega

/-! ### trimming -/

theorem dwe_id (p : Char → Bool) (x : List Char)
    (h : ∀ e, x.getLast? = some e → p e = false) : dropWhileEnd p x = x := by
  unfold dropWhileEnd
  cases hr : x.reverse with
  | nil =>
    have : x = [] := by simpa using hr
    simp [this]
  | cons e r =>
    have he : x.getLast? = some e := by
      rw [← List.head?_reverse, hr]; rfl
    rw [List.dropWhile_cons, h e he]
    simp only [Bool.false_eq_true, if_false]
    rw [← hr, List.reverse_reverse]

theorem dwe_snoc (p : Char → Bool) (x : List Char) (c : Char) (hc : p c = true) :
    dropWhileEnd p (x ++ [c]) = dropWhileEnd p x := by
  unfold dropWhileEnd
  simp [hc]

theorem dw_id (p : Char → Bool) (x : List Char)
    (h : ∀ e, x.head? = some e → p e = false) : x.dropWhile p = x := by
  cases x with
  | nil => rfl
  | cons e r => rw [List.dropWhile_cons, h e rfl]; simp

/-! ### character classes -/

theorem alnum_props (c : Char) (h : isAsciiAlnum c = true) :
    c ≠ ';' ∧ c ≠ ',' ∧ c ≠ '"' ∧ c ≠ '=' ∧ isWs c = false := by
  have hr : (48 ≤ c.toNat ∧ c.toNat ≤ 57) ∨ (97 ≤ c.toNat ∧ c.toNat ≤ 122) ∨
      (65 ≤ c.toNat ∧ c.toNat ≤ 90) := by
    simp only [isAsciiAlnum, Bool.or_eq_true, Bool.and_eq_true, decide_eq_true_eq,
      Char.le_def, UInt32.le_iff_toNat_le] at h
    rcases h with (h | h) | h
    · exact Or.inl h
    · exact Or.inr (Or.inl h)
    · exact Or.inr (Or.inr h)
  refine ⟨?_, ?_, ?_, ?_, ?_⟩
  · intro hc; subst hc; revert hr; decide
  · intro hc; subst hc; revert hr; decide
  · intro hc; subst hc; revert hr; decide
  · intro hc; subst hc; revert hr; decide
  · unfold isWs
    simp only [Bool.or_eq_false_iff, Bool.and_eq_false_iff, decide_eq_false_iff_not]
    omega

theorem digit_alnum (n : Nat) : ∀ c ∈ Nat.toDigits 10 n, isAsciiAlnum c = true := by
  intro c hc
  have hd := Nat.isDigit_of_mem_toDigits (by decide) (by decide) hc
  simp only [Char.isDigit, Bool.and_eq_true, decide_eq_true_eq, ge_iff_le] at hd
  simp only [isAsciiAlnum, Bool.or_eq_true, Bool.and_eq_true, decide_eq_true_eq, Char.le_def]
  exact Or.inl (Or.inl hd)

end CoapLite.Link.R
