/-
Forward direction of the codec proofs: encoder = RFC wire image, exact length,
limit behaviour, decode ∘ encode, completeness of the decoder on RFC images.
Used by Props/C01, C03, C04.
-/
import CoapLite.Lemmas.CodecBasic

namespace CoapLite
namespace Codec
open Spec

/-! ### the option map the decoder accumulates -/

/-- fold of `add` over a flat option list: what `decOpts` builds -/
def accOpts (acc : OptMap) (os : List (Nat × Bytes)) : OptMap :=
  os.foldl (fun a o => a.add o.1 o.2) acc

theorem accOpts_nil (acc : OptMap) : accOpts acc [] = acc := rfl

theorem accOpts_cons (acc : OptMap) (n : Nat) (v : Bytes) (os : List (Nat × Bytes)) :
    accOpts acc ((n, v) :: os) = accOpts (acc.add n v) os := rfl

theorem accOpts_spec (os : List (Nat × Bytes)) (prev : Nat) (acc : OptMap)
    (hs : acc.Sorted) (hle : ∀ b ∈ acc, b.1 ≤ prev)
    (hp : (prev :: os.map (·.1)).Pairwise (· ≤ ·)) :
    (accOpts acc os).flatten = acc.flatten ++ os ∧ (accOpts acc os).Sorted := by
  induction os generalizing prev acc with
  | nil => simp [accOpts_nil, hs]
  | cons o os ih =>
    obtain ⟨n, v⟩ := o
    simp only [List.map_cons, List.pairwise_cons] at hp
    have hpn : prev ≤ n := hp.1 n List.mem_cons_self
    have hle' : ∀ b ∈ acc, b.1 ≤ n := fun b hb => Nat.le_trans (hle b hb) hpn
    have hs' := OptMap.sorted_add hs n v
    have hle2 : ∀ b ∈ acc.add n v, b.1 ≤ n := by
      intro b hb
      rcases OptMap.mem_add_key hb with e | ⟨b', hb', e⟩
      · omega
      · rw [← e]; exact hle' b' hb'
    have hp' : (n :: os.map (·.1)).Pairwise (· ≤ ·) := List.pairwise_cons.2 hp.2
    obtain ⟨h1, h2⟩ := ih n (acc.add n v) hs' hle2 hp'
    rw [accOpts_cons]
    refine ⟨?_, h2⟩
    rw [h1, OptMap.add_last hs n v hle']
    simp

theorem decOpts_wire (os : List (Nat × Bytes)) (prev : Nat) (acc : OptMap) (tail pl : Bytes)
    (hp : (prev :: os.map (·.1)).Pairwise (· ≤ ·))
    (hb : ∀ o ∈ os, o.1 ≤ 65535 ∧ o.2.length ≤ 65804)
    (ht : (tail = [] ∧ pl = []) ∨ tail = 0xFF :: pl) :
    decOpts prev acc (wireOpts prev os ++ tail) = .ok (accOpts acc os, pl) := by
  induction os generalizing prev acc with
  | nil =>
    rcases ht with ⟨rfl, rfl⟩ | rfl
    · simp [wireOpts, decOpts, accOpts_nil]
    · simp only [wireOpts, List.nil_append, accOpts_nil]
      rw [decOpts]
      simp
  | cons o os ih =>
    obtain ⟨n, v⟩ := o
    simp only [List.map_cons, List.pairwise_cons] at hp
    have hpn : prev ≤ n := hp.1 n List.mem_cons_self
    have hp' : (n :: os.map (·.1)).Pairwise (· ≤ ·) := List.pairwise_cons.2 hp.2
    have hnv := hb (n, v) List.mem_cons_self
    have hb' : ∀ o ∈ os, o.1 ≤ 65535 ∧ o.2.length ≤ 65804 := fun o ho => hb o (List.mem_cons_of_mem _ ho)
    have step := decOpts_step prev n acc v (wireOpts n os ++ tail) hpn hnv.1 hnv.2
    rw [wireOpts_cons, accOpts_cons, ← ih n (acc.add n v) hp' hb', ← step]
    simp only [List.cons_append, List.append_assoc]

/-! ### the decoder on a framed RFC image -/

theorem dec_frame (b0 b1 b2 b3 : UInt8) (tok : Bytes) (os : List (Nat × Bytes)) (pl : Bytes)
    (htk : (0x0F &&& b0).toNat = tok.length) (ht : tok.length ≤ 8)
    (hp : (os.map (·.1)).Pairwise (· ≤ ·))
    (hb : ∀ o ∈ os, o.1 ≤ 65535 ∧ o.2.length ≤ 65804) :
    dec (b0 :: b1 :: b2 :: b3 :: (tok ++ wireOpts 0 os ++ (if pl.isEmpty then [] else 0xFF :: pl))) =
      .ok { header := { vtt := b0, code := MessageClass.ofU8 b1.toNat, mid := b2.toNat * 256 + b3.toNat },
            token := tok, options := accOpts [] os, payload := pl } := by
  have hp0 : (0 :: os.map (·.1)).Pairwise (· ≤ ·) :=
    List.pairwise_cons.2 ⟨fun _ _ => Nat.zero_le _, hp⟩
  have htail : ((if pl.isEmpty then [] else 0xFF :: pl) = [] ∧ pl = []) ∨
      (if pl.isEmpty then [] else 0xFF :: pl) = 0xFF :: pl := by
    cases pl <;> simp
  have hd := decOpts_wire os 0 [] _ pl hp0 hb htail
  unfold dec
  simp only [htk]
  have h1 : ¬ tok.length > 8 := by omega
  have h2 : ¬ tok.length > (tok ++ wireOpts 0 os ++ (if pl.isEmpty then [] else 0xFF :: pl)).length := by
    simp only [List.length_append]; omega
  rw [if_neg h1, if_neg h2]
  have h3 : (tok ++ wireOpts 0 os ++ (if pl.isEmpty then [] else 0xFF :: pl)).drop tok.length =
      wireOpts 0 os ++ (if pl.isEmpty then [] else 0xFF :: pl) := by
    rw [List.append_assoc, List.drop_left]
  have h4 : (tok ++ wireOpts 0 os ++ (if pl.isEmpty then [] else 0xFF :: pl)).take tok.length = tok := by
    rw [List.append_assoc, List.take_left]
  rw [h3, h4, hd]

/-! ### encoder, closed form -/

theorem sent_payload_ne {p : Packet} (h : sent p = true) : p.payload ≠ [] := by
  simp [sent] at h; exact h.2

theorem payload_tail (p : Packet) :
    (if (toMsg p).payload.isEmpty then [] else 0xFF :: (toMsg p).payload) =
      (if sent p then 0xFF :: p.payload else []) := by
  unfold toMsg
  by_cases h : sent p = true
  · have := sent_payload_ne h
    simp [h, this]
  · simp [h]

theorem payload_len (p : Packet) :
    (if (toMsg p).payload.isEmpty then 0 else 1 + (toMsg p).payload.length) =
      (if sent p then 1 + p.payload.length else 0) := by
  unfold toMsg
  by_cases h : sent p = true
  · have := sent_payload_ne h
    simp [h, this]
  · simp [h]

/-- closed form of `enc` when every value fits -/
theorem enc_fit (p : Packet) (lim : Option Nat) (h : AllFit p) :
    enc p lim =
      match lim with
      | some l =>
        if wireLen (toMsg p) > l then .err .invalidPacketLength
        else .ok (headerBytes p.header ++ p.token ++ wireOpts 0 p.options.flatten ++
          (if sent p then 0xFF :: p.payload else []))
      | none => .ok (headerBytes p.header ++ p.token ++ wireOpts 0 p.options.flatten ++
          (if sent p then 0xFF :: p.payload else [])) := by
  have hl : wireLen (toMsg p) = 4 + p.token.length + (wireOpts 0 p.options.flatten).length +
      (if sent p then 1 + p.payload.length else 0) := by
    rw [wireLen, payload_len, wireOpts_length]; rfl
  unfold enc
  rw [encOpts_ok 0 p.options h]
  cases lim <;> simp only [hl]

theorem enc_unfit (p : Packet) (lim : Option Nat) (h : ¬ AllFit p) :
    enc p lim = .err .invalidOptionLength := by
  unfold enc
  rw [encOpts_err 0 p.options h]

theorem wire_toMsg (p : Packet) (htk : (0x0F &&& p.header.vtt).toNat = p.token.length)  :
    wire (toMsg p) = headerBytes p.header ++ p.token ++ wireOpts 0 p.options.flatten ++
      (if sent p then 0xFF :: p.payload else []) := by
  rw [wire, payload_tail]
  have h0 : UInt8.ofNat ((toMsg p).ver <<< 6 ||| (toMsg p).typ <<< 4 ||| (toMsg p).token.length) = p.header.vtt := by
    show UInt8.ofNat ((p.header.vtt.toNat / 64) <<< 6 ||| (p.header.vtt.toNat / 16 % 4) <<< 4 ||| p.token.length) = _
    rw [← htk, and0F_toNat, vtt_recompose]
  rw [h0, shr8, and_ff]
  rfl

theorem pktwf_fit {p : Packet} (h : PktWF p) : AllFit p :=
  fun kv hkv => (h.2.2.2.2.2 kv hkv).2

theorem enc_eq_wire (p : Packet) (h : PktWF p) : enc p none = .ok (wire (toMsg p)) := by
  rw [enc_fit p none (pktwf_fit h), wire_toMsg p h.2.1]

theorem empty_drops_payload (p : Packet) (h : PktWF p) (hc : p.header.code = .Empty) :
    enc p none = .ok (wire { toMsg p with payload := [] }) ∧ (toMsg p).payload = [] := by
  have hs : sent p = false := by simp [sent, hc]
  have hp : (toMsg p).payload = [] := by simp [toMsg, hs]
  refine ⟨?_, hp⟩
  have : ({ toMsg p with payload := [] } : Msg) = toMsg p := by
    rw [← hp]
  rw [this]; exact enc_eq_wire p h

theorem enc_length (p : Packet) (lim : Option Nat) (bs : Bytes) (h : enc p lim = .ok bs) :
    bs.length = wireLen (toMsg p) := by
  by_cases hf : AllFit p
  · rw [enc_fit p lim hf] at h
    have hl : wireLen (toMsg p) = 4 + p.token.length + (wireOpts 0 p.options.flatten).length +
        (if sent p then 1 + p.payload.length else 0) := by
      rw [wireLen, payload_len, wireOpts_length]; rfl
    have hlen : (headerBytes p.header ++ p.token ++ wireOpts 0 p.options.flatten ++
          (if sent p then 0xFF :: p.payload else [])).length = wireLen (toMsg p) := by
      rw [hl]
      by_cases hs : sent p = true <;> simp [hs, headerBytes] <;> omega
    cases lim with
    | none =>
      simp only [Res.ok.injEq] at h
      rw [← h, hlen]
    | some l =>
      simp only at h
      split at h
      · cases h
      · simp only [Res.ok.injEq] at h
        rw [← h, hlen]
  · rw [enc_unfit p lim hf] at h; cases h

theorem enc_limit (p : Packet) (L : Nat) (h : AllFit p) :
    enc p (some L) =
      if wireLen (toMsg p) ≤ L then enc p none else .err .invalidPacketLength := by
  rw [enc_fit p (some L) h, enc_fit p none h]
  simp only
  by_cases hl : wireLen (toMsg p) ≤ L
  · have : ¬ wireLen (toMsg p) > L := by omega
    rw [if_neg this, if_pos hl]
  · have : wireLen (toMsg p) > L := by omega
    rw [if_pos this, if_neg hl]

theorem enc_unlimited_ok (p : Packet) (h : AllFit p) : ∃ bs, enc p none = .ok bs := by
  rw [enc_fit p none h]; exact ⟨_, rfl⟩

theorem enc_refuses_long (p : Packet) (lim : Option Nat) (h : ¬ AllFit p) :
    enc p lim = .err .invalidOptionLength := enc_unfit p lim h

theorem enc_never_panics (p : Packet) (lim : Option Nat) : enc p lim ≠ .panic := by
  by_cases hf : AllFit p
  · rw [enc_fit p lim hf]
    cases lim with
    | none => simp
    | some l => simp only; split <;> simp
  · rw [enc_unfit p lim hf]; simp


/-! ### decode ∘ encode, completeness -/

theorem mem_flatten {m : OptMap} {o : Nat × Bytes} :
    o ∈ m.flatten ↔ ∃ kv ∈ m, o.1 = kv.1 ∧ o.2 ∈ kv.2 := by
  simp only [OptMap.flatten, List.mem_flatMap, List.mem_map]
  constructor
  · rintro ⟨kv, hkv, v, hv, rfl⟩
    exact ⟨kv, hkv, rfl, hv⟩
  · rintro ⟨kv, hkv, h1, h2⟩
    exact ⟨kv, hkv, o.2, h2, by rw [← h1]⟩

theorem flatten_keys_sorted {m : OptMap} (hs : m.Sorted) :
    (m.flatten.map (·.1)).Pairwise (· ≤ ·) := by
  induction m with
  | nil => simp [OptMap.flatten_nil]
  | cons a m ih =>
    obtain ⟨k, vs⟩ := a
    rw [OptMap.sorted_cons] at hs
    rw [OptMap.flatten_cons, List.map_append, List.pairwise_append]
    refine ⟨?_, ih hs.2, ?_⟩
    · clear ih hs
      induction vs with
      | nil => simp
      | cons v vs ihv => simp_all
    · intro a ha b hb
      simp only [List.map_map, List.mem_map] at ha hb
      obtain ⟨v, _, rfl⟩ := ha
      obtain ⟨o, ho, rfl⟩ := hb
      obtain ⟨kv, hkv, e, _⟩ := mem_flatten.1 ho
      have := hs.1 kv hkv
      simp only [Function.comp] at *
      omega

theorem dec_enc (p : Packet) (h : PktWF p)
    (hc : MessageClass.toU8 p.header.code = 0 → p.payload = []) :
    ∃ b q, enc p none = .ok b ∧ dec b = .ok q ∧
      q.header.vtt = p.header.vtt ∧ q.header.mid = p.header.mid ∧
      q.header.code = MessageClass.ofU8 (MessageClass.toU8 p.header.code) ∧
      q.token = p.token ∧ q.options.flatten = p.options.flatten ∧ q.options.Sorted ∧
      q.payload = p.payload := by
  obtain ⟨htl, htk, hmid, hcode, hs, hb⟩ := h
  have hfit : AllFit p := fun kv hkv => (hb kv hkv).2
  have hsent : (if sent p then 0xFF :: p.payload else []) =
      (if p.payload.isEmpty then [] else 0xFF :: p.payload) := by
    by_cases hp : p.payload = []
    · simp [sent, hp]
    · have hne : p.header.code ≠ MessageClass.Empty := by
        intro e; apply hp; apply hc; rw [e]; rfl
      simp [sent, hp, hne]
  have hbnd : ∀ o ∈ p.options.flatten, o.1 ≤ 65535 ∧ o.2.length ≤ 65804 := by
    intro o ho
    obtain ⟨kv, hkv, e1, e2⟩ := mem_flatten.1 ho
    have := hb kv hkv
    exact ⟨by rw [e1]; exact this.1, this.2 _ e2⟩
  have hpw := flatten_keys_sorted hs
  have hspec := accOpts_spec p.options.flatten 0 [] OptMap.sorted_nil (by simp)
    (List.pairwise_cons.2 ⟨fun _ _ => Nat.zero_le _, hpw⟩)
  have henc := enc_fit p none hfit
  simp only [headerBytes, hsent, List.cons_append, List.nil_append] at henc
  have hdec := dec_frame p.header.vtt (UInt8.ofNat (MessageClass.toU8 p.header.code))
    (UInt8.ofNat (p.header.mid / 256)) (UInt8.ofNat (p.header.mid % 256))
    p.token p.options.flatten p.payload htk htl hpw hbnd
  refine ⟨_, _, henc, hdec, rfl, mid_bytes _ hmid, ?_, rfl, ?_, hspec.2, rfl⟩
  · simp only [toNat_ofNat_lt hcode]
  · simpa [OptMap.flatten_nil] using hspec.1

theorem dec_complete (m : Msg) (h : m.WF) :
    ∃ q, dec (wire m) = .ok q ∧
      q.header.vtt.toNat = m.ver * 64 + m.typ * 16 + m.token.length ∧
      q.header.code = MessageClass.ofU8 m.code ∧ q.header.mid = m.mid ∧
      q.token = m.token ∧ q.options.flatten = m.opts ∧ q.payload = m.payload := by
  obtain ⟨hv, ht, hcode, hmid, htl, hpw, hb⟩ := h
  have hb0 : (UInt8.ofNat (m.ver <<< 6 ||| m.typ <<< 4 ||| m.token.length)).toNat =
      m.ver * 64 + m.typ * 16 + m.token.length := by
    rw [vtt_compose _ _ _ hv ht htl, toNat_ofNat_lt (by omega)]
  have htk : ((0x0F : UInt8) &&& UInt8.ofNat (m.ver <<< 6 ||| m.typ <<< 4 ||| m.token.length)).toNat = m.token.length := by
    rw [and0F_toNat, hb0]; omega
  have hspec := accOpts_spec m.opts 0 [] OptMap.sorted_nil (by simp)
    (List.pairwise_cons.2 ⟨fun _ _ => Nat.zero_le _, hpw⟩)
  have hdec := dec_frame _ (UInt8.ofNat m.code) (UInt8.ofNat (m.mid >>> 8)) (UInt8.ofNat (m.mid &&& 0xFF))
    m.token m.opts m.payload htk htl hpw hb
  have hw : wire m = UInt8.ofNat (m.ver <<< 6 ||| m.typ <<< 4 ||| m.token.length) :: UInt8.ofNat m.code ::
      UInt8.ofNat (m.mid >>> 8) :: UInt8.ofNat (m.mid &&& 0xFF) ::
      (m.token ++ wireOpts 0 m.opts ++ (if m.payload.isEmpty then [] else 0xFF :: m.payload)) := by
    simp only [wire, List.cons_append, List.nil_append]
  rw [hw]
  refine ⟨_, hdec, hb0, ?_, ?_, rfl, ?_, rfl⟩
  · simp only [toNat_ofNat_lt hcode]
  · simp only [shr8, and_ff]; exact mid_bytes _ hmid
  · simpa [OptMap.flatten_nil] using hspec.1

/-! ### option mutators -/

theorem addOption_comm (p : Packet) (n₁ n₂ : Nat) (v₁ v₂ : Bytes) (hne : n₁ ≠ n₂)
    (hs : p.options.Sorted) :
    (p.addOption n₁ v₁).addOption n₂ v₂ = (p.addOption n₂ v₂).addOption n₁ v₁ := by
  simp only [Packet.addOption, OptMap.add_comm hs n₁ n₂ v₁ v₂ hne]

theorem mutators_keep_sorted (p : Packet) (hs : p.options.Sorted) (n : Nat) (v : Bytes) (vs : List Bytes) :
    (p.addOption n v).options.Sorted ∧ (p.setOption n vs).options.Sorted ∧
    (p.clearOption n).options.Sorted ∧ (p.clearAllOptions).options.Sorted :=
  ⟨OptMap.sorted_add hs n v, OptMap.sorted_insert hs n vs, OptMap.sorted_modify hs n _, OptMap.sorted_nil⟩

theorem addOption_get (p : Packet) (hs : p.options.Sorted) (n m : Nat) (v : Bytes) :
    (p.addOption n v).getOption m =
      if m = n then some ((p.getOption n).getD [] ++ [v]) else p.getOption m := by
  have _ := hs   -- (holds without sortedness: first-occurrence semantics)
  simp only [Packet.addOption, Packet.getOption, OptMap.get_add]

end Codec
end CoapLite
