/-
Forward direction of the codec proofs: encoder = RFC wire image, exact length,
limit behaviour, decode ∘ encode, completeness of the decoder on RFC images.
Used by Props/C01, C03, C04.
-/
import CoapLite.Model.CodecAbs

namespace CoapLite
namespace Codec
open Spec

theorem enc_eq_wire (p : Packet) (h : PktWF p) : enc p none = .ok (wire (toMsg p)) := by
  sorry

theorem dec_enc (p : Packet) (h : PktWF p)
    (hc : MessageClass.toU8 p.header.code = 0 → p.payload = []) :
    ∃ b q, enc p none = .ok b ∧ dec b = .ok q ∧
      q.header.vtt = p.header.vtt ∧ q.header.mid = p.header.mid ∧
      q.header.code = MessageClass.ofU8 (MessageClass.toU8 p.header.code) ∧
      q.token = p.token ∧ q.options.flatten = p.options.flatten ∧ q.options.Sorted ∧
      q.payload = p.payload := by
  sorry

theorem empty_drops_payload (p : Packet) (h : PktWF p) (hc : p.header.code = .Empty) :
    enc p none = .ok (wire { toMsg p with payload := [] }) ∧ (toMsg p).payload = [] := by
  sorry

theorem addOption_comm (p : Packet) (n₁ n₂ : Nat) (v₁ v₂ : Bytes) (hne : n₁ ≠ n₂)
    (hs : p.options.Sorted) :
    (p.addOption n₁ v₁).addOption n₂ v₂ = (p.addOption n₂ v₂).addOption n₁ v₁ := by
  sorry

theorem mutators_keep_sorted (p : Packet) (hs : p.options.Sorted) (n : Nat) (v : Bytes) (vs : List Bytes) :
    (p.addOption n v).options.Sorted ∧ (p.setOption n vs).options.Sorted ∧
    (p.clearOption n).options.Sorted ∧ (p.clearAllOptions).options.Sorted := by
  sorry

theorem addOption_get (p : Packet) (hs : p.options.Sorted) (n m : Nat) (v : Bytes) :
    (p.addOption n v).getOption m =
      if m = n then some ((p.getOption n).getD [] ++ [v]) else p.getOption m := by
  sorry

theorem dec_complete (m : Msg) (h : m.WF) :
    ∃ q, dec (wire m) = .ok q ∧
      q.header.vtt.toNat = m.ver * 64 + m.typ * 16 + m.token.length ∧
      q.header.code = MessageClass.ofU8 m.code ∧ q.header.mid = m.mid ∧
      q.token = m.token ∧ q.options.flatten = m.opts ∧ q.payload = m.payload := by
  sorry

theorem enc_length (p : Packet) (lim : Option Nat) (bs : Bytes) (h : enc p lim = .ok bs) :
    bs.length = wireLen (toMsg p) := by
  sorry

theorem enc_limit (p : Packet) (L : Nat) (h : AllFit p) :
    enc p (some L) =
      if wireLen (toMsg p) ≤ L then enc p none else .err .invalidPacketLength := by
  sorry

theorem enc_unlimited_ok (p : Packet) (h : AllFit p) : ∃ bs, enc p none = .ok bs := by
  sorry

theorem enc_refuses_long (p : Packet) (lim : Option Nat) (h : ¬ AllFit p) :
    enc p lim = .err .invalidOptionLength := by
  sorry

theorem enc_never_panics (p : Packet) (lim : Option Nat) : enc p lim ≠ .panic := by
  sorry

end Codec
end CoapLite
