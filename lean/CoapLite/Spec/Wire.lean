/-
Specification: the RFC 7252 §3 message format, written from the RFC text and
independently of the model of `to_bytes`/`from_bytes`.

    0                   1                   2                   3
    0 1 2 3 4 5 6 7 8 9 0 1 2 3 4 5 6 7 8 9 0 1 2 3 4 5 6 7 8 9 0 1
   +-+-+-+-+-+-+-+-+-+-+-+-+-+-+-+-+-+-+-+-+-+-+-+-+-+-+-+-+-+-+-+-+
   |Ver| T |  TKL  |      Code     |          Message ID           |
   |   Token (if any, TKL bytes) ...
   |   Options (if any) ...
   |1 1 1 1 1 1 1 1|    Payload (if any) ...

An abstract message carries its options as a flat list sorted by option number
(instances of one number in their order); §3.1: each option is
`delta nibble | length nibble`, extended delta (0–2 bytes), extended length
(0–2 bytes), value; nibble 13 ⇒ one extension byte holding `x − 13`, nibble 14
⇒ two bytes in network order holding `x − 269`.
-/
import CoapLite.Basic

namespace CoapLite.Spec

structure Msg where
  ver : Nat                       -- 2 bits
  typ : Nat                       -- 2 bits
  code : Nat                      -- 8 bits
  mid : Nat                       -- 16 bits
  token : Bytes                   -- 0..8 bytes; TKL = its length
  opts : List (Nat × Bytes)       -- sorted by number, numbers ≤ 65535
  payload : Bytes
  deriving DecidableEq, Repr

/-- nibble and extension bytes for an option delta or length (§3.1) -/
def optField (x : Nat) : Nat × Bytes :=
  if x < 13 then (x, [])
  else if x < 269 then (13, [UInt8.ofNat (x - 13)])
  else (14, [UInt8.ofNat ((x - 269) >>> 8), UInt8.ofNat ((x - 269) &&& 0xFF)])

def wireOpts (prev : Nat) : List (Nat × Bytes) → Bytes
  | [] => []
  | (n, v) :: rest =>
    let d := optField (n - prev)
    let l := optField v.length
    UInt8.ofNat (d.1 <<< 4 ||| l.1) :: (d.2 ++ l.2 ++ v ++ wireOpts n rest)

/-- the wire image of a message; the payload marker is present iff the payload
is non-empty -/
def wire (m : Msg) : Bytes :=
  [UInt8.ofNat (m.ver <<< 6 ||| m.typ <<< 4 ||| m.token.length), UInt8.ofNat m.code,
   UInt8.ofNat (m.mid >>> 8), UInt8.ofNat (m.mid &&& 0xFF)]
  ++ m.token ++ wireOpts 0 m.opts
  ++ (if m.payload.isEmpty then [] else 0xFF :: m.payload)

/-- exact length of the wire image -/
def fieldLen (x : Nat) : Nat := if x < 13 then 0 else if x < 269 then 1 else 2

def wireOptsLen (prev : Nat) : List (Nat × Bytes) → Nat
  | [] => 0
  | (n, v) :: rest => 1 + fieldLen (n - prev) + fieldLen v.length + v.length + wireOptsLen n rest

def wireLen (m : Msg) : Nat :=
  4 + m.token.length + wireOptsLen 0 m.opts + (if m.payload.isEmpty then 0 else 1 + m.payload.length)

/-- well-formedness of an abstract message (the ranges of the fields) -/
def Msg.WF (m : Msg) : Prop :=
  m.ver < 4 ∧ m.typ < 4 ∧ m.code < 256 ∧ m.mid < 65536 ∧ m.token.length ≤ 8 ∧
  (m.opts.map (·.1)).Pairwise (· ≤ ·) ∧ (∀ o ∈ m.opts, o.1 ≤ 65535 ∧ o.2.length ≤ 65804)

end CoapLite.Spec
