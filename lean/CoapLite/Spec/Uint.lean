/-
Specification: the minimal-length big-endian representation of a natural
number (RFC 7252 §3.2 "uint": "a non-negative integer that is represented in
network byte order using the number of bytes given by the Option Length field
... a sender SHOULD represent the integer with as few bytes as possible").
Written independently of the model of `option_from_uint`.
-/
import CoapLite.Basic

namespace CoapLite.Spec

/-- base-256 digits, most significant first, no leading zero; `[]` for 0 -/
def minimalBE (n : Nat) : Bytes :=
  if _h : n = 0 then [] else minimalBE (n / 256) ++ [UInt8.ofNat (n % 256)]
termination_by n
decreasing_by omega

end CoapLite.Spec
