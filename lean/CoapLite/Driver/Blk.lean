import CoapLite.Driver.Acc
import CoapLite.Model.Block

namespace CoapLite.Driver
open CoapLite Block

def outcomeTok (r : HRes Bool) : String :=
  match r with
  | .ok b => s!"ok {boolStr b}"
  | .herr (some c) => s!"herr {MessageClass.toU8 (.Response c)}"
  | .herr none => "herr none"
  | .panic => "panic"

def peekTok (h : Handler) (now : Nat) (k : Key) : String :=
  match Lru.peek h.cache k now with
  | none => "Knone"
  | some st =>
    let buf := match st.cachedPayload with | some b => toString b.length | none => "n"
    let b2 := match st.lastBlock2 with
      | some b => s!"{b.num}/{boolStr b.more}/{b.szx}" | none => "n"
    let szx := match st.cachedSzx with | some x => toString x | none => "n"
    s!"Kbuf={buf},resp={boolStr st.cachedResponse.isSome},b2={b2},szx={szx}"

structure BlkSess where
  h : Handler
  now : Nat
  last : Option Request
  held : Option Request := none

def respTok (r : Request) : String :=
  match r.response with | some p => dumpPacket p | none => "none"

/-- parse `<code> <n> (<num> <val>)*n <payload>` -/
def parseApp (ws : List String) : Option (Nat × List (Nat × Bytes) × Bytes) :=
  match ws with
  | code :: n :: rest =>
    let rec go (k : Nat) (ws : List String) (acc : List (Nat × Bytes)) : Option (List (Nat × Bytes) × Bytes) :=
      match k, ws with
      | 0, [pay] => some (acc.reverse, parseVal pay)
      | k + 1, num :: v :: rest => go k rest ((nat! num, parseVal v) :: acc)
      | _, _ => none
    (go (nat! n) rest []).map (fun (o, p) => (nat! code, o, p))
  | _ => none

def blkOp (s : BlkSess) (op : String) : BlkSess × String :=
  match words op with
  | ["tick", ms] => ({ s with now := s.now + nat! ms }, "T")
  | "req" :: ep :: spec =>
    -- endpoint 255 stands for a request object without a source
    match (buildSpec spec).bind (fun p => (Request.fromPacket p (nat! ep)).map (fun r =>
      if nat! ep = 255 then { r with source := none } else r)) with
    | .ok req =>
      let (h', req', r) := interceptRequest s.h s.now req
      ({ s with h := h', last := some req' },
       s!"R {outcomeTok r} {respTok req'} P{valToken req'.message.payload} {peekTok h' s.now (keyOf req')}")
    | _ => ({ s with last := none }, "R panic none P- Knone")
  | "app" :: rest =>
    match s.last, parseApp rest with
    | some req, some (code, opts, pay) =>
      let req1 := { req with response := req.response.map (fun m =>
        let m1 := { m with header := { m.header with code := MessageClass.ofU8 code } }
        let m2 := opts.foldl (fun (m : Packet) (kv : Nat × Bytes) => m.addOption (optNum (toString kv.1)) kv.2) m1
        { m2 with payload := pay }) }
      let (h', req', r) := interceptResponse s.h s.now req1
      ({ s with h := h', last := some req' },
       s!"A {outcomeTok r} {respTok req'} {peekTok h' s.now (keyOf req')}")
    | _, _ => ({ s with last := none }, "A skip")
  | ["swap"] => ({ s with last := s.held, held := s.last }, "S")
  | ["appclr", ns] =>
    let nums := (ns.splitOn ",").map optNum
    ({ s with last := s.last.map (fun req => { req with response := req.response.map (fun m =>
        nums.foldl (fun (m : Packet) n => m.clearOption n) m) }) }, "C")
  | "peek" :: ep :: spec =>
    match (buildSpec spec).bind (fun p => (Request.fromPacket p (nat! ep)).map (fun r =>
      if nat! ep = 255 then { r with source := none } else r)) with
    | .ok req => (s, peekTok s.h s.now (keyOf req))
    | _ => (s, "Knone")
  | _ => (s, "bad-op")

def blk (ws : List String) : String :=
  match ws with
  | "sess" :: m :: ttl :: rest =>
    let ops := (" ".intercalate rest).splitOn "|"
    let s0 : BlkSess := { h := Handler.new (nat! m) (nat! ttl), now := 0, last := none }
    let (_, outs) := ops.foldl (fun (acc : BlkSess × List String) op =>
      let (s', o) := blkOp acc.1 op
      (s', o :: acc.2)) (s0, [])
    " | ".intercalate outs.reverse
  | ["splice", dstlen, start, stop, paylen, maxres] =>
    -- `extending_splice` called directly: dst = 1,2,3,…; payload = 0xAA…; `stop` is the exclusive end
    let dst : Bytes := (List.range (nat! dstlen)).map (fun i => UInt8.ofNat (i + 1))
    let pay : Bytes := List.replicate (nat! paylen) 0xAA
    -- the low-level version (Vec::splice's own panics made explicit) must agree whenever start ≤ stop
    let lowOk := if nat! start ≤ nat! stop then
        decide (extendingSpliceLow dst (nat! start) (nat! stop) pay (nat! maxres) =
          .ok (extendingSplice dst (nat! start) (nat! stop) pay (nat! maxres)))
      else true
    if !lowOk then "LOW-LEVEL-MODEL-DISAGREES" else
    match extendingSplice dst (nat! start) (nat! stop) pay (nat! maxres) with
    | some d => s!"ok {d.length} {hexOfBytes (d.take 40)} {hexOfBytes (d.drop (d.length - 8))}"
    | none => "err"
  | _ => "bad-op"

end CoapLite.Driver
