import CoapLite.Driver.Util
import CoapLite.Model.BlockValue

namespace CoapLite.Driver
open CoapLite

def showBv (r : Res BlockValue) : String :=
  match r with
  | .ok b => s!"ok {b.num} {boolStr b.more} {b.szx}"
  | .err _ => "err"
  | .panic => "panic"

def bv (ws : List String) : String :=
  match ws with
  | ["new", n, m, s] => showBv (BlockValue.new (nat! n) (m == "1") (nat! s))
  | ["enc", n, m, s] =>
      match BlockValue.enc { num := nat! n, more := m == "1", szx := nat! s } with
      | .ok bs => hexOfBytes bs
      | .err _ => "err"
      | .panic => "panic"
  | ["dec", h] => showBv (BlockValue.dec (bytesOfHex h))
  | ["size", s] => toString (BlockValue.size { num := 0, more := false, szx := nat! s })
  | _ => "bad-op"

end CoapLite.Driver
