/- Line-protocol helpers for the driver (parsing / printing only; no model logic). -/
import CoapLite.Basic

namespace CoapLite.Driver

def hexDigit (n : Nat) : Char :=
  if n < 10 then Char.ofNat (48 + n) else Char.ofNat (87 + n)

def hexOfBytes (bs : Bytes) : String :=
  if bs.isEmpty then "-"
  else String.ofList (bs.foldr (fun b acc => hexDigit (b.toNat / 16) :: hexDigit (b.toNat % 16) :: acc) [])

def hexVal (c : Char) : Nat :=
  if '0' ≤ c ∧ c ≤ '9' then c.toNat - 48
  else if 'a' ≤ c ∧ c ≤ 'f' then c.toNat - 87
  else if 'A' ≤ c ∧ c ≤ 'F' then c.toNat - 55
  else 0

def bytesOfHexChars : List Char → Bytes
  | a :: b :: rest => UInt8.ofNat (hexVal a * 16 + hexVal b) :: bytesOfHexChars rest
  | _ => []

def bytesOfHex (s : String) : Bytes :=
  if s == "-" then [] else bytesOfHexChars s.toList

def nat! (s : String) : Nat := s.toNat?.getD 0

def boolStr (b : Bool) : String := if b then "1" else "0"

def words (line : String) : List String :=
  (line.trimAscii.toString.splitOn " ").filter (· ≠ "")

/-- UTF-8 bytes → chars (driver-side only; strings in the protocol are hex of UTF-8) -/
def charsOfHex (s : String) : List Char :=
  let bs := bytesOfHex s
  match String.fromUTF8? (ByteArray.mk bs.toArray) with
  | some str => str.toList
  | none => []

def hexOfChars (cs : List Char) : String :=
  hexOfBytes (String.ofList cs).toUTF8.toList

end CoapLite.Driver
