import CoapLite.Driver.Pkt
import CoapLite.Model.Str

namespace CoapLite.Driver
open CoapLite

def optNum (s : String) : Nat := CoapOption.toU16 (CoapOption.ofU16 (nat! s))

def showResNat (r : Res Nat) : String :=
  match r with | .ok v => toString v | .err _ => "err" | .panic => "panic"

def showResStr (r : Res String) : String :=
  match r with | .ok s => hexOfBytes (strEnc s) | .err _ => "err" | .panic => "panic"

def strOfHex (h : String) : String :=
  match strDec (parseVal h) with | .ok s => s | _ => ""

/-- one accessor op: returns the new packet and an optional output -/
def accOp (p : Packet) (op : String) : Res (Packet × Option String) :=
  match words op with
  | ["addu", w, num, x] => (p.addOptionUint (optNum num) (nat! w) (nat! x)).map (·, none)
  | ["adds", num, h] => .ok (p.addOptionStr (optNum num) (strOfHex h), none)
  | ["addraw", num, h] => .ok (p.addOption (optNum num) (parseVal h), none)
  | ["setu", w, num, xs] =>
      let l := if xs == "_" then [] else (xs.splitOn ",").map nat!
      (p.setOptionsUint (optNum num) (nat! w) l).map (·, none)
  | ["sets", num, xs] =>
      let l := if xs == "_" then [] else (xs.splitOn ",").map strOfHex
      .ok (p.setOptionsStr (optNum num) l, none)
  | ["clr", num] => .ok (p.clearOption (optNum num), none)
  | ["obs", x] => (p.setObserveValue (nat! x)).map (·, none)
  | ["getobs"] => .ok (p, some (match p.getObserveValue with
      | none => "none" | some (.ok v) => s!"ok {v}" | some _ => "err"))
  | ["getu", w, num] => .ok (p, some (match p.getOptionsUint (optNum num) (nat! w) with
      | none => "none" | some l => "[" ++ ",".intercalate (l.map showResNat) ++ "]"))
  | ["firstu", w, num] => .ok (p, some (match p.getFirstOptionUint (optNum num) (nat! w) with
      | none => "none" | some r => showResNat r))
  | ["gets", num] => .ok (p, some (match p.getOptionsStr (optNum num) with
      | none => "none" | some l => "[" ++ ",".intercalate (l.map showResStr) ++ "]"))
  | ["firsts", num] => .ok (p, some (match p.getFirstOptionStr (optNum num) with
      | none => "none" | some r => showResStr r))
  | ["raw", num] => .ok (p, some (match p.getOption (optNum num) with
      | none => "none" | some l => "[" ++ ",".intercalate (l.map valToken) ++ "]"))
  | _ => .panic

def uint (ws : List String) : String :=
  match ws with
  | ["enc", w, n] => match optionFromUint (nat! n) (nat! w) with
      | .ok b => hexOfBytes b | .err _ => "err" | .panic => "panic"
  | ["dec", w, h] => match optionToUint (bytesOfHex h) (nat! w) with
      | .ok v => s!"ok {v}" | .err _ => "err" | .panic => "panic"
  | ["sdec", h] => match strDec (bytesOfHex h) with
      | .ok s => "ok " ++ hexOfBytes (strEnc s) | _ => "err"
  | "acc" :: rest =>
      let ops := (" ".intercalate rest).splitOn ";"
      let r := ops.foldl (fun (acc : Res (Packet × List String)) op =>
        acc.bind (fun (p, outs) => (accOp p op).map (fun (p', o) =>
          (p', match o with | some s => outs ++ [s] | none => outs)))) (.ok (Packet.new, []))
      match r with
      | .ok (_, outs) => " / ".intercalate outs
      | _ => "panic"
  | _ => "bad-op"

end CoapLite.Driver
