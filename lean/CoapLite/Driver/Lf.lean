import CoapLite.Driver.Util
import CoapLite.Model.LinkFormat
import CoapLite.Model.LinkLow

namespace CoapLite.Driver
open CoapLite Link

def byteOff (input : List Char) (k : Nat) : Nat :=
  (input.take k).foldl (fun a c => a + c.utf8Size) 0

def offStr (input : List Char) (x : Sl) : String :=
  if x.s.isEmpty then "-" else toString (byteOff input x.off)

def showItems (input : List Char) (items : List Item) : String :=
  " ; ".intercalate (items.map (fun it =>
    match it with
    | .error => "E"
    | .link t a =>
      let attrs := (parseAttrs a).map (fun kv =>
        let k := kv.1
        let v := kv.2
        s!"A{offStr input k}:{hexOfChars k.s}={offStr input v}:{hexOfChars v.s}~{hexOfChars (unquote v.s)}~{hexOfChars (toCow v.s)}~{boolStr (isQuoted v.s)}")
      s!"L{offStr input t}:{hexOfChars t.s}[" ++ ",".intercalate attrs ++ "]"))

def parseAttrSpec (s : String) : Option AttrSpec :=
  match s.splitOn ":" with
  | ["a", k, v] => some (.plain (charsOfHex k) (charsOfHex v))
  | ["q", k, v] => some (.quoted (charsOfHex k) (charsOfHex v))
  | ["u", k, n] => some (.num (charsOfHex k) (nat! n))
  | ["h", k, n] => some (.num (charsOfHex k) (nat! n))
  | _ => none

def parseDoc (s : String) : Doc :=
  if s == "_" then [] else
  (s.splitOn "|").map (fun l =>
    match l.splitOn ";" with
    | t :: attrs => (charsOfHex t, attrs.filterMap parseAttrSpec)
    | [] => ([], []))

def showW (w : W) : String :=
  (if w.finish then "ok" else "err") ++ s!" {w.calls} {hexOfChars w.sink}"

def lf (ws : List String) : String :=
  match ws with
  | ["parse", h] =>
      let input := charsOfHex h
      -- the low-level models of both parsers (byte offsets from pointer differences, `&str` slicing that
      -- panics off a character boundary) are run as well; they must agree (C17 proves they do)
      let lowLinks := decide (LinkLow.linkAllLow (input.length + 1) input =
        .ok ((parseLinks input).map LinkLow.itemChars))
      let lowAttrs := (parseLinks input).all (fun it => match it with
        | .link _ a => decide (LinkLow.attrAllLow (a.s.length + 1) a.s =
            .ok ((parseAttrs a).map (fun kv => (kv.1.s, kv.2.s))))
        | .error => true)
      if !(lowLinks && lowAttrs) then "LOW-LEVEL-MODEL-DISAGREES" else
      showItems input (parseLinks input)
  | ["cow", h] =>
      let s := charsOfHex h
      s!"{hexOfChars (unquote s)} {hexOfChars (toCow s)} {boolStr (isQuoted s)}"
  | ["cowk", k, h] =>
      let u := (Uq.new (charsOfHex h)).advance (nat! k)
      -- the low-level `to_cow` (byte indices from `find`, slices that panic off a boundary) must agree
      if !(decide (LinkLow.toCowLow u = .ok u.toCow)) then "LOW-LEVEL-MODEL-DISAGREES" else
      s!"{hexOfChars u.rest} {hexOfChars u.toCow} {boolStr u.isQuoted}"
  | ["writenf", nl, _mask, d] =>
      -- attribute writers dropped without their optional finish(): same document
      showW (writeDoc (fun _ => false) (nl == "1") (parseDoc d))
  | ["write", nl, d] => showW (writeDoc (fun _ => false) (nl == "1") (parseDoc d))
  | ["writef", nl, k, mode, d] =>
      let kk := nat! k
      let fails := if mode == "persist" then (fun i => decide (i ≥ kk)) else (fun i => decide (i = kk))
      showW (writeDoc fails (nl == "1") (parseDoc d))
  | ["writeo", nl, k, mode, flags, d] =>
      let doc := parseDoc d
      let fl := flags.toList
      let flagOp (i : Nat) : List WOp :=
        match fl[i]? with
        | some '0' => [WOp.setNl false]
        | some '1' => [WOp.setNl true]
        | _ => []
      let ops := (doc.zipIdx.flatMap (fun li =>
        flagOp li.2 ++ (WOp.link li.1.1 :: li.1.2.map WOp.attr))) ++ flagOp doc.length
      let fails : Nat → Bool :=
        if k == "-" then (fun _ => false)
        else
          let kk := nat! k
          if mode == "persist" then (fun i => decide (i ≥ kk)) else (fun i => decide (i = kk))
      showW (writeOps fails (nl == "1") ops)
  | ["rt", nl, d] =>
      let out := (writeDoc (fun _ => false) (nl == "1") (parseDoc d)).sink
      showItems out (parseLinks out)
  | _ => "bad-op"

end CoapLite.Driver
