import CoapLite.Driver.Util
import CoapLite.Model.Header

namespace CoapLite.Driver
open CoapLite

def dbgOpt (o : CoapOption) : String :=
  match o with
  | .Unknown n => s!"Unknown({n})"
  | o => o.ctorName

def dbgClass (c : MessageClass) : String :=
  match c with
  | .Empty => "Empty"
  | .Request r => s!"Request({r.ctorName})"
  | .Response r => s!"Response({r.ctorName})"
  | .Reserved n => s!"Reserved({n})"

def mtypeOf (t : Nat) : MessageType :=
  match t with
  | 0 => .Confirmable | 1 => .NonConfirmable | 2 => .Acknowledgement | _ => .Reset

def hdrOf (b : Nat) : Header := { vtt := UInt8.ofNat b, code := MessageClass.ofU8 1, mid := 0 }

def tbl (ws : List String) : String :=
  match ws with
  | ["optof", n] => dbgOpt (CoapOption.ofU16 (nat! n))
  | ["optto", n] => toString (CoapOption.toU16 (CoapOption.ofU16 (nat! n)))
  | ["optunk", n] => toString (CoapOption.toU16 (.Unknown (nat! n)))
  | ["cfof", n] => match ContentFormat.ofUsize? (nat! n) with
      | some c => c.ctorName | none => "none"
  | ["cfto", n] => match ContentFormat.ofUsize? (nat! n) with
      | some c => toString c.toUsize | none => "none"
  | ["obsof", n] => match ObserveOption.ofUsize? (nat! n) with
      | some c => c.ctorName | none => "none"
  | ["obsto", n] => match ObserveOption.ofUsize? (nat! n) with
      | some c => toString c.toUsize | none => "none"
  | ["clsof", b] => dbgClass (MessageClass.ofU8 (nat! b))
  | ["clsto", b] => toString (MessageClass.toU8 (MessageClass.ofU8 (nat! b)))
  | ["clsunk", "req"] => toString (MessageClass.toU8 (.Request .UnKnown))
  | ["clsunk", "resp"] => toString (MessageClass.toU8 (.Response .UnKnown))
  | ["fmt", b] => hexOfChars (fmtCode (nat! b))
  | ["fmtspec", _, b] => hexOfChars (fmtCode (nat! b))
  | ["parse", h] => match parseCode (charsOfHex h) with
      | .ok c => toString (MessageClass.toU8 (MessageClass.ofU8 c))
      | _ => "panic"
  | ["iserr", b] => match MessageClass.ofU8 (nat! b) with
      | .Response r => toString r.isError
      | _ => "na"
  | ["iserrunk"] => toString (ResponseType.isError .UnKnown)
  | ["method", b] => (getMethodTable (MessageClass.ofU8 (nat! b))).ctorName
  | ["status", b] => (getStatusTable (MessageClass.ofU8 (nat! b))).ctorName
  | ["hdr", b] =>
      let h := hdrOf (nat! b)
      let ty := match h.getType with | .ok t => t.ctorName | _ => "panic"
      s!"{ty} {h.getVersion.toNat} {h.getTkl.toNat}"
  | ["settype", b, t] =>
      let h := (hdrOf (nat! b)).setType (mtypeOf (nat! t))
      let ty := match h.getType with | .ok t => t.ctorName | _ => "panic"
      s!"{h.vtt.toNat} {ty}"
  | ["setver", b, v] => toString ((hdrOf (nat! b)).setVersion (UInt8.ofNat (nat! v))).vtt.toNat
  | ["settkl", b, k] => match (hdrOf (nat! b)).setTkl (UInt8.ofNat (nat! k)) with
      | .ok h => toString h.vtt.toNat
      | _ => "panic"
  | ["deccode", b] =>
      let c := MessageClass.ofU8 (nat! b)
      let n := c.toU8
      s!"{n} {n / 32}.{if n % 32 < 10 then "0" else ""}{n % 32} {n}"
  | ["errctor", name] =>
      let c : Option (Option ResponseType) := match name with
        | "notHandled" => some HandlingErrorCode.notHandled
        | "notFound" => some HandlingErrorCode.notFound
        | "badRequest" => some HandlingErrorCode.badRequest
        | "internal" => some HandlingErrorCode.internal
        | "methodNotSupported" => some HandlingErrorCode.methodNotSupported
        | _ => none
      match c with
      | some (some r) => toString (MessageClass.toU8 (.Response r))
      | some none => "none"
      | none => "bad-op"
  | ["hdrser", cap, b0, code, mid] =>
      if nat! cap < 4 then "err"
      else
        let m := nat! mid
        "ok " ++ hexOfBytes [UInt8.ofNat (nat! b0), UInt8.ofNat (nat! code), UInt8.ofNat (m / 256), UInt8.ofNat (m % 256)]
  | ["const", "maxsize"] => toString Consts.maxSize
  | ["const", "maxsizeudp"] => toString Consts.maxSizeUdp
  | ["const", "header"] =>
      let h := Header.default
      s!"{h.vtt.toNat} {h.code.toU8} {h.mid}"
  | _ => "bad-op"

end CoapLite.Driver
