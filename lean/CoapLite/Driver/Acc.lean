import CoapLite.Driver.Uint
import CoapLite.Model.Request

namespace CoapLite.Driver
open CoapLite

def respOfByte (b : Nat) : ResponseType :=
  match MessageClass.ofU8 b with
  | .Response r => r
  | _ => .UnKnown

def parsePre (s : String) : List (Nat × Bytes) :=
  if s == "_" then [] else
  (s.splitOn ",").filterMap (fun kv => match kv.splitOn ":" with
    | [n, v] => some (nat! n, bytesOfHex v)
    | _ => none)

/-- tweaks of the reply between `from_packet` and `apply_from_error`: mid= tok= typ= -/
def applyReplyTweaks (s : String) (m : Packet) : Res Packet :=
  if s == "_" then .ok m else
  (s.splitOn ",").foldl (fun (acc : Res Packet) kv => acc.bind (fun m =>
    match kv.splitOn "=" with
    | ["mid", n] => .ok { m with header := { m.header with mid := nat! n } }
    | ["tok", h] => m.setToken (bytesOfHex h)
    | ["typ", t] => .ok { m with header := m.header.setType (mtypeOf (nat! t)) }
    | ["clr", n] => .ok (m.clearOption (optNum n))
    | ["code", c] => .ok { m with header := { m.header with code := MessageClass.ofU8 (nat! c) } }
    | ["pay", h] => .ok { m with payload := bytesOfHex h }
    | _ => .ok m)) (.ok m)

/-- tweaks of the request message: rmid= rtok= -/
def applyReqTweaks (s : String) (m : Packet) : Res Packet :=
  if s == "_" then .ok m else
  (s.splitOn ",").foldl (fun (acc : Res Packet) kv => acc.bind (fun m =>
    match kv.splitOn "=" with
    | ["rmid", n] => .ok { m with header := { m.header with mid := nat! n } }
    | ["rtok", h] => m.setToken (bytesOfHex h)
    | _ => .ok m)) (.ok m)

def errStep (r0 : Request) (resp1 : Res (Option Packet)) (msg1 : Res Packet)
    (c : Option ResponseType) (text : Bytes) : String :=
  match resp1, msg1 with
  | .ok resp1, .ok msg1 =>
    let r1 := { r0 with response := resp1, message := msg1 }
    -- the harness passes the message through `String::from_utf8_lossy`; all
    -- generated messages are valid UTF-8 so the bytes are unchanged
    match r1.applyFromError c text with
    | .ok (r2, ok) => s!"{ok} " ++ (match r2.response with | some m => dumpPacket m | none => "none")
    | _ => "panic"
  | _, _ => "panic"

def resp (ws : List String) : String :=
  match ws with
  | "new" :: spec =>
    match buildSpec spec with
    | .ok p =>
      match Response.new p with
      | .ok none => "none"
      | .ok (some q) => "some " ++ dumpPacket q
      | _ => "panic"
    | _ => "panic"
  | "err" :: code :: msg :: pre :: spec =>
    match buildSpec spec with
    | .ok p =>
      match Request.fromPacket p 7 with
      | .ok r0 =>
        let noresp := (pre.splitOn ",").contains "noresp"
        let resp1 : Res (Option Packet) := match (if noresp then none else r0.response) with
          | none => .ok none
          | some m =>
            (applyReplyTweaks pre ((parsePre pre).foldl (fun (m : Packet) (kv : Nat × Bytes) =>
              m.addOption (optNum (toString kv.1)) kv.2) m)).map some
        let c := if code == "none" then none else some (respOfByte (nat! code))
        errStep r0 resp1 (applyReqTweaks pre r0.message) c (bytesOfHex msg)
      | _ => "panic"
    | _ => "panic"
  | _ => "bad-op"

structure AccState where
  req : Request
  resp : Packet

def accReqOp (st : AccState) (op : String) : Res (AccState × Option String) :=
  let msg := st.req.message
  match words op with
  | ["addraw", n, h] => .ok ({ st with req := { st.req with message := msg.addOption (optNum n) (parseVal h) } }, none)
  | ["clr", n] => .ok ({ st with req := { st.req with message := msg.clearOption (optNum n) } }, none)
  | ["path", h] => .ok ({ st with req := st.req.setPath (charsOfHex h) }, none)
  | ["pathsame"] => .ok ({ st with req := st.req.setPath st.req.getPath }, none)
  | ["method", b] =>
      match MessageClass.ofU8 (nat! b) with
      | .Request m => .ok ({ st with req := st.req.setMethod m }, none)
      | _ => .ok (st, none)
  | ["status", b] =>
      match MessageClass.ofU8 (nat! b) with
      | .Response s => .ok ({ st with resp := ResponseM.setStatus st.resp s }, none)
      | _ => .ok (st, none)
  | ["obsflag", n] =>
      match ObserveOption.ofUsize? (nat! n) with
      | some f => (st.req.setObserveFlag f).map (fun r => ({ st with req := r }, none))
      | none => .panic
  | ["cf", n] =>
      match ContentFormat.ofUsize? (nat! n) with
      | some c => (msg.setContentFormat c).map (fun m => ({ st with req := { st.req with message := m } }, none))
      | none => .panic
  | ["getpath"] => .ok (st, some (hexOfChars st.req.getPath))
  | ["getvec"] => .ok (st, some (match st.req.getPathAsVec with
      | .ok l => "[" ++ ",".intercalate (l.map (fun s => hexOfBytes (strEnc s))) ++ "]"
      | _ => "err"))
  | ["raw", n] => .ok (st, some (match msg.getOption (optNum n) with
      | none => "none" | some l => "[" ++ ",".intercalate (l.map valToken) ++ "]"))
  | ["getobs"] => .ok (st, some (match st.req.getObserveFlag with
      | none => "none" | some (.ok f) => f.ctorName | some _ => "err"))
  | ["getcf"] => .ok (st, some (match msg.getContentFormat with
      | none => "none" | some c => c.ctorName))
  | ["getmethod"] => .ok (st, some st.req.getMethod.ctorName)
  | ["getstatus"] => .ok (st, some (ResponseM.getStatus st.resp).ctorName)
  | ["code"] => .ok (st, some s!"{msg.header.code.toU8} {st.resp.header.code.toU8}")
  | _ => .panic

def viewStr (p : Packet) : String :=
  s!"c{(MsgView.code p).toU8} o[" ++
    ",".intercalate ((MsgView.options p).map (fun o => s!"{o.1}:{valToken o.2}")) ++
    s!"] p{valToken (MsgView.payload p)}"

def buildCleared (cl : String) (spec : List String) : Res Packet :=
  (buildSpec spec).map (fun p =>
    if cl == "_" then p else (cl.splitOn ",").foldl (fun p n => p.clearOption (optNum n)) p)

def acc (ws : List String) : String :=
  match ws with
  | "req" :: rest =>
      let ops := (" ".intercalate rest).splitOn ";"
      let resp0 := match Response.new Packet.new with | .ok (some m) => m | _ => Packet.new
      let r := ops.foldl (fun (a : Res (AccState × List String)) op =>
        a.bind (fun (st, outs) => (accReqOp st op).map (fun (st', o) =>
          (st', match o with | some s => outs ++ [s] | none => outs))))
        (.ok ({ req := Request.new, resp := resp0 }, []))
      match r with
      | .ok (_, outs) => " / ".intercalate outs
      | _ => "panic"
  | "view" :: cl :: spec =>
      match buildCleared cl spec with
      | .ok p => viewStr p ++ " | " ++ viewStr p
      | _ => "panic"
  | "copy" :: cl :: spec =>
      match buildCleared cl spec with
      | .ok p =>
        let d := MsgView.setFromMessage Packet.new p
        dumpPacket d ++ " | " ++ dumpPacket d
      | _ => "panic"
  | "copyinto" :: cl :: pre :: spec =>
      match buildCleared cl spec with
      | .ok p =>
        let prel : List (Nat × Bytes) := if pre == "_" then [] else
          (pre.splitOn ",").filterMap (fun kv => match kv.splitOn ":" with
            | [n, v] => some (nat! n, parseVal v)
            | _ => none)
        let t0 : Packet := prel.foldl (fun (m : Packet) (kv : Nat × Bytes) => m.addOption (optNum (toString kv.1)) kv.2) Packet.new
        let d := MsgView.setFromMessage { t0 with payload := [9, 9, 9] } p
        dumpPacket d ++ " | " ++ dumpPacket d
      | _ => "panic"
  | "wadd" :: cl :: adds :: code :: pay :: spec =>
      match buildCleared cl spec with
      | .ok p =>
        let addl : List (Nat × Bytes) := if adds == "_" then [] else
          (adds.splitOn ",").filterMap (fun kv => match kv.splitOn ":" with
            | [n, v] => some (nat! n, parseVal v)
            | _ => none)
        let p1 := addl.foldl (fun (m : Packet) (kv : Nat × Bytes) => m.addOption (optNum (toString kv.1)) kv.2) p
        let d : Packet := { p1 with header := { p1.header with code := MessageClass.ofU8 (nat! code) }, payload := parseVal pay }
        dumpPacket d ++ " | " ++ dumpPacket d
      | _ => "panic"
  | "mut" :: cl :: x :: len :: t :: spec =>
      match buildCleared cl spec with
      | .ok p =>
        let xb : UInt8 := UInt8.ofNat (nat! x)
        let f : Nat → Bytes → Bytes := fun n v => v.mapIdx (fun i b => b ^^^ UInt8.ofNat ((n + i) % 256) ^^^ xb)
        let trace := "T[" ++ ",".intercalate ((MsgView.mutateCalls p).map (fun o => s!"{o.1}:{o.2.length}")) ++ "]"
        let sp := if MsgView.availableSpace p == 18446744073709551615 then "Sok" else "Sx"
        let q1 := MsgView.mutateOptions p f
        let q2 := MsgView.payloadMutWithLen q1 (nat! len) (fun b => b.map (· ^^^ xb))
        let q3 := MsgView.truncate q2 (nat! t)
        let q4 := MsgView.payloadMut q3 (fun b => b.map (· + 1))
        s!"{trace} {dumpPacket q4} {sp} | {trace} {dumpPacket q3} {sp}"
      | _ => "panic"
  | _ => "bad-op"

end CoapLite.Driver
