import CoapLite.Model.CodecLow
import CoapLite.Model.CodecEncLow
import CoapLite.Driver.Util
import CoapLite.Driver.Tbl
import CoapLite.Model.Codec
import CoapLite.Model.CopyTrace
import CoapLite.Model.Builder

namespace CoapLite.Driver
open CoapLite Codec

/-- value token: parts joined by `+`; a part is hex, `-`, or `r<len>x<hexbyte>` -/
def parseValPart (s : String) : Bytes :=
  if s.startsWith "r" then
    match (s.drop 1).toString.splitOn "x" with
    | [n, b] => List.replicate (nat! n) (UInt8.ofNat (hexVal (b.toList.getD 0 '0') * 16 + hexVal (b.toList.getD 1 '0')))
    | _ => []
  else bytesOfHex s

def parseVal (s : String) : Bytes :=
  (s.splitOn "+").foldr (fun part acc => parseValPart part ++ acc) []

/-- split into maximal runs of equal bytes -/
def runs : Bytes → List (UInt8 × Nat)
  | [] => []
  | b :: rest =>
    match runs rest with
    | (b', n) :: tl => if b' == b then (b, n + 1) :: tl else (b, 1) :: (b', n) :: tl
    | [] => [(b, 1)]

def hexPlain (bs : Bytes) : String :=
  String.ofList (bs.foldr (fun b acc => hexDigit (b.toNat / 16) :: hexDigit (b.toNat % 16) :: acc) [])

def valToken (v : Bytes) : String :=
  if v.isEmpty then "-" else
  let step := fun (acc : List String × Bytes) (r : UInt8 × Nat) =>
    let (parts, plain) := acc
    if r.2 > 64 then
      let parts := if plain.isEmpty then parts else parts ++ [hexPlain plain]
      (parts ++ [s!"r{r.2}x{String.ofList [hexDigit (r.1.toNat / 16), hexDigit (r.1.toNat % 16)]}"], [])
    else (parts, plain ++ List.replicate r.2 r.1)
  let (parts, plain) := (runs v).foldl step ([], [])
  let parts := if plain.isEmpty then parts else parts ++ [hexPlain plain]
  "+".intercalate parts

def parseCodeSpec (s : String) : MessageClass :=
  if s == "UQ" then .Request .UnKnown
  else if s == "US" then .Response .UnKnown
  else if s.startsWith "R" then .Reserved (nat! (s.drop 1).toString)
  else MessageClass.ofU8 (nat! s)

def dumpPacket (p : Packet) : String :=
  let opts := p.options.map (fun kv => s!"{kv.1}=" ++ ",".intercalate (kv.2.map valToken))
  s!"v{p.header.vtt.toNat} c{p.header.code.toU8}/{dbgClass p.header.code} m{p.header.mid} t{hexOfBytes p.token} o[" ++
    ";".intercalate opts ++ s!"] p{valToken p.payload}"

def showBytes (r : Res Bytes) : String :=
  match r with
  | .ok b => "ok " ++ valToken b
  | .err .invalidPacketLength => "err InvalidPacketLength"
  | .err _ => "err Other"
  | .panic => "panic"

/-- parse `<vtt> <code> <mid> <tok> <n> (<num> <val>)*n <payload>` and build the
packet the way the harness does (new; header from raw; set_token;
set_token_length(vtt & 15); add_option…; payload) -/
def buildSpec (ws : List String) : Res Packet :=
  match ws with
  | vtt :: code :: mid :: tok :: n :: rest =>
    let vttB := UInt8.ofNat (nat! vtt)
    let p0 : Packet := { Packet.new with header := { vtt := vttB, code := parseCodeSpec code, mid := nat! mid } }
    match p0.setToken (parseVal tok) with
    | .ok p1 =>
      match p1.header.setTkl (0x0F &&& vttB) with
      | .ok h =>
        let p2 := { p1 with header := h }
        let rec addAll (k : Nat) (ws : List String) (p : Packet) : Packet × List String :=
          match k, ws with
          | k + 1, num :: v :: rest => addAll k rest (p.addOption (CoapOption.toU16 (CoapOption.ofU16 (nat! num))) (parseVal v))
          | _, ws => (p, ws)
        let (p3, rest') := addAll (nat! n) rest p2
        match rest' with
        | [pay] => .ok { p3 with payload := parseVal pay }
        | _ => .panic
      | _ => .panic
    | _ => .panic
  | _ => .panic

def parseLimit (s : String) : Option Nat :=
  if s == "none" then none else if s == "default" then some Consts.maxSize
  else if s == "defaultudp" then some Consts.maxSizeUdp else some (nat! s)

/-- parse one builder call of the protocol into `Builder.BOp` -/
def parseBOp (op : String) : Option Builder.BOp :=
  match words op with
  | ["ver", v] => some (.ver (UInt8.ofNat (nat! v)))
  | ["typ", t] => some (.typ (mtypeOf (nat! t)))
  | ["tkl", n] => some (.tkl (UInt8.ofNat (nat! n)))
  | ["tok", t] => some (.tok (parseVal t))
  | ["add", n, v] => some (.add (CoapOption.toU16 (CoapOption.ofU16 (nat! n))) (parseVal v))
  | ["set", n, vs] =>
      let l := if vs == "_" then [] else (vs.splitOn ",").map parseVal
      some (.set (CoapOption.toU16 (CoapOption.ofU16 (nat! n))) l)
  | ["clr", n] => some (.clr (CoapOption.toU16 (CoapOption.ofU16 (nat! n))))
  | ["clrall"] => some .clrAll
  | ["code", c] => some (.code (parseCodeSpec c))
  | ["mid", m] => some (.mid (nat! m))
  | ["pay", x] => some (.pay (parseVal x))
  | _ => none

def pkt (ws : List String) : String :=
  match ws with
  | "enc" :: lim :: spec =>
    match buildSpec spec with
    | .ok p =>
      -- the low-level model of the serialiser (fixed-width arithmetic, vectors with a capacity, raw copies
      -- that panic outside the allocation) is run as well; it must agree (C04 proves it does)
      let n := (p.options.map (fun kv => kv.2.length)).sum
      let lowOk := if n ≤ 2000 then decide (CodecEncLow.encLow p (parseLimit lim) = enc p (parseLimit lim)) else true
      if !lowOk then "LOW-LEVEL-MODEL-DISAGREES" else
      showBytes (enc p (parseLimit lim))
    | _ => "panic"
  | "trace" :: lim :: spec =>
    match buildSpec spec with
    | .ok p =>
      " ".intercalate ((encTrace p (parseLimit lim)).map (fun e =>
        match e with
        | .reserve _ len add => s!"R{len}+{add}"
        | .copy _ off n => s!"C{off}+{n}"))
    | _ => "panic"
  | "rt" :: spec =>
    match buildSpec spec with
    | .ok p =>
      match enc p none with
      | .ok b =>
        match dec b with
        | .ok q => "ok " ++ dumpPacket q
        | .err _ => "decerr"
        | .panic => "panic"
      | .err _ => "err"
      | .panic => "panic"
    | _ => "panic"
  | ["dec", h] =>
    let b := parseVal h
    -- the low-level model (index cursor, partial reads, fixed-width additions) is run as well on
    -- datagrams of moderate size (list indexing makes it quadratic); it must agree (C03 proves it does)
    let lowOk := if b.length ≤ 1500 then decide (CodecLow.decLow b = dec b) else true
    if !lowOk then "LOW-LEVEL-MODEL-DISAGREES" else
    match dec b with
    | .ok p => "ok " ++ dumpPacket p ++ " | " ++ showBytes (enc p none)
    | .err _ => "err"
    | .panic => "panic"
  | "apitrace" :: rest =>
    let ops := ((" ".intercalate rest).splitOn ";").filterMap parseBOp
    match Builder.build ops with
    | .ok p =>
      " ".intercalate ((encTrace p none).map (fun e =>
        match e with
        | .reserve _ len add => s!"R{len}+{add}"
        | .copy _ off n => s!"C{off}+{n}"))
    | _ => "panic"
  | "api" :: rest =>
    let ops := ((" ".intercalate rest).splitOn ";").filterMap parseBOp
    match Builder.build ops with
    | .ok p => dumpPacket p ++ " | " ++ showBytes (enc p none)
    | _ => "panic"
  | _ => "bad-op"

end CoapLite.Driver
