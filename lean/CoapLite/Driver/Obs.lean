import CoapLite.Driver.Acc
import CoapLite.Model.Observe

namespace CoapLite.Driver
open CoapLite Observe

def strOfHexUtf8 (h : String) : String := String.ofList (charsOfHex h)

/-- the registry key of a register/deregister request: `get_path()` after `set_path(path)` -/
def regKey (h : String) : String :=
  String.ofList ((Request.new.setPath (charsOfHex h)).getPath)

/-- registry key of a request whose Uri-Path options are the given raw segments: `get_path()` -/
def rawKey (segs : String) : String :=
  let l := if segs == "_" then [] else (segs.splitOn ",").map bytesOfHex
  let m := l.foldl (fun (m : Packet) s => m.addOption Request.uriPath s) Packet.new
  String.ofList ({ Request.new with message := m }).getPath

def parseObsOp (op : String) : Option Op :=
  match words op with
  | ["reg", e, p, t] => some (.reg (nat! e) (regKey p) (bytesOfHex t))
  | ["dereg", e, p, t] => some (.dereg (nat! e) (regKey p) (bytesOfHex t))
  | ["chg", p, m, c] => some (.chg (strOfHexUtf8 p) (nat! m) (c == "1"))
  | ["ack", e, m] => some (.ack (nat! e) (nat! m))
  | ["ackp", e, m, _] => some (.ack (nat! e) (nat! m))
  | ["regraw", e, segs, t] => some (.reg (nat! e) (rawKey segs) (bytesOfHex t))
  | ["deregraw", e, segs, t] => some (.dereg (nat! e) (rawKey segs) (bytesOfHex t))
  | ["limit", l] => some (.limit (nat! l))
  | _ => none

/-- test hook `verif_set_sequence(path, n)`: not an operation of the public API (so not an `Op`);
sets the sequence number of an existing resource -/
def setSeq (s : Subject) (path : String) (n : Nat) : Subject :=
  { s with resources := modifyRes s.resources path (fun r => { r with sequence := n }) }

/-- an operation of the line protocol: a public operation or the test hook -/
def stepLine (s : Subject) (op : String) : Option Subject :=
  match words op with
  | ["seq", p, n] => some (setSeq s (strOfHexUtf8 p) (nat! n))
  | _ => (parseObsOp op).map (step s)

def dumpSubject (s : Subject) (paths : List String) : String :=
  let parts := paths.map (fun ph =>
    let key := strOfHexUtf8 ph
    match s.get key with
    | none => ph ++ "{-}"
    | some r =>
      let obs := r.observers.map (fun o =>
        s!"{o.endpoint}:{hexOfBytes o.token}:{o.unacked}:" ++
          (match o.mid with | some m => toString m | none => "n"))
      ph ++ "{" ++ toString r.sequence ++ ";" ++ ",".intercalate obs ++ "}")
  " ".intercalate (s!"L{s.limit}" :: parts)

def obs (ws : List String) : String :=
  match ws with
  | mode :: pl :: rest =>
    if mode == "run" || mode == "trace" then
      let paths := if pl == "_" then [] else pl.splitOn ","
      let ops := (" ".intercalate rest).splitOn ";"
      if mode == "run" then
        dumpSubject (ops.foldl (fun s op => (stepLine s op).getD s) Subject.default) paths
      else
        let (_, outs) := ops.foldl (fun (acc : Subject × List String) op =>
          match stepLine acc.1 op with
          | some s' => (s', dumpSubject s' paths :: acc.2)
          | none => acc) (Subject.default, [])
        " | ".intercalate outs.reverse
    else if mode == "soak" then
      -- n real notification rounds on a fresh observed resource: n mod 2^32 (seqNext iterated)
      toString ((nat! pl) % 2 ^ 32)
    else if mode == "notif" then
      match ws with
      | [_, mid, tok, seq, pay, con] =>
        match createNotification (nat! mid) (bytesOfHex tok) (nat! seq) (bytesOfHex pay) (con == "1") with
        | .ok p => dumpPacket p ++ " | " ++ (match Codec.enc p none with
            | .ok b => "ok " ++ valToken b | _ => "err")
        | _ => "panic"
      | _ => "bad-op"
    else "bad-op"
  | _ => "bad-op"

end CoapLite.Driver
