/-
Model of `src/block_handler/block_value.rs` (RFC 7959 §2.2).
-/
import CoapLite.Model.Uint

namespace CoapLite

structure BlockValue where
  num : Nat     -- u16
  more : Bool
  szx : Nat     -- u8, `size_exponent`
  deriving DecidableEq, Repr, Inhabited

namespace BlockValue

/-- `largest_power_of_2_not_in_excess(target)`: index of the first power of two
(among 2^0..2^63) exceeding `target`, minus one; 64 if none does. -/
def largestPow2NotInExcess (target : Nat) : Option Nat :=
  if target = 0 then none
  else
    match (List.range 64).find? (fun i => 2 ^ i > target) with
    | some i => some (i - 1)
    | none => some 64

/-- `BlockValue::new(num, more, size)` (`num`, `size` are `usize`) -/
def new (num : Nat) (more : Bool) (size : Nat) : Res BlockValue :=
  match largestPow2NotInExcess size with
  | none => .err .other
  | some e =>
    let szx := e - 4          -- saturating_sub
    if szx > 7 then .err .other
    else if num > 65535 then .err .other
    else .ok { num := num, more := more, szx := szx }

/-- `size()` = `1 << (size_exponent + 4)` -/
def size (b : BlockValue) : Nat := 2 ^ (b.szx + 4)

/-- the option scalar `NUM << 4 | M << 3 | (SZX & 7)` (fields are disjoint, so
`|` is `+`) -/
def scalar (b : BlockValue) : Nat :=
  b.num * 16 + (if b.more then 8 else 0) + b.szx % 8

/-- `From<BlockValue> for Vec<u8>` -/
def enc (b : BlockValue) : Res Bytes := optionFromUint b.scalar 4

/-- `TryFrom<Vec<u8>> for BlockValue` -/
def dec (bs : Bytes) : Res BlockValue :=
  if bs.length > 3 then .err .other
  else
    match optionToUint bs 4 with
    | .ok s =>
      if s / 16 > 65535 then .err .other
      else .ok { num := s / 16, more := (s / 8) % 2 == 1, szx := s % 8 }
    | .err e => .err e
    | .panic => .panic

end BlockValue
end CoapLite
