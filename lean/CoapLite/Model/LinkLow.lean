/-
A LOW-LEVEL model of the two link-format parsers (`LinkFormatParser::next`, `LinkAttributeParser::next`,
src/link_format.rs). `Model/LinkFormat.lean` works on character lists with `take` / `drop`, so "never
panics" has no content there: the real code walks a `Chars` iterator, computes BYTE lengths as pointer
differences (`iter.as_str().as_ptr() as usize - start.as_ptr() as usize`) and slices `&str`s at those
byte offsets – `&s[..n]`, `split_at(i)`, `&value[1..]` – each of which PANICS when the offset is beyond
the end or not on a UTF-8 character boundary. Here:

* a `&str` is its list of characters, its byte length is `blen` (sum of `utf8Size`);
* `sliceTo s n` / `sliceFrom s n` / `splitAt s n` are the slicing operations with exactly those panics;
* a pointer difference is a `usize` subtraction (`subW`: panics on underflow) of remaining byte lengths;
* `str::find(c)` returns a byte index; the `Chars` loops are transcribed statement by statement and
  return the iterator's remaining string.

`Lemmas/LinkLow.lean` proves that `linkNextLow` / `attrNextLow` compute exactly `linkNext` / `attrNext`
for EVERY input string, hence never panic: every slice the parsers take is on a character boundary
inside the string – also with multi-byte characters before, inside and after quoted strings.
-/
import CoapLite.Model.LinkFormat

namespace CoapLite
namespace LinkLow
open Link

/-- byte length of a `&str` -/
def blen : List Char → Nat
  | [] => 0
  | c :: cs => c.utf8Size + blen cs

/-- `&s[..n]`: panics when `n` is beyond the end or inside a character -/
def sliceTo : List Char → Nat → Res (List Char)
  | [], n => if n = 0 then .ok [] else .panic
  | c :: cs, n =>
    if n = 0 then .ok []
    else if c.utf8Size ≤ n then (sliceTo cs (n - c.utf8Size)).map (c :: ·)
    else .panic

/-- `&s[n..]` -/
def sliceFrom : List Char → Nat → Res (List Char)
  | [], n => if n = 0 then .ok [] else .panic
  | c :: cs, n =>
    if n = 0 then .ok (c :: cs)
    else if c.utf8Size ≤ n then sliceFrom cs (n - c.utf8Size)
    else .panic

/-- `s.split_at(n)` -/
def splitAt (s : List Char) (n : Nat) : Res (List Char × List Char) :=
  match sliceTo s n, sliceFrom s n with
  | .ok a, .ok b => .ok (a, b)
  | _, _ => .panic

/-- `s.find(ch)`: BYTE index of the first occurrence -/
def findByte (ch : Char) : List Char → Option Nat
  | [] => none
  | c :: cs => if c = ch then some 0 else (findByte ch cs).map (· + c.utf8Size)

/-- `usize` subtraction: panics on underflow -/
def subW (a b : Nat) : Res Nat := if b ≤ a then .ok (a - b) else .panic

inductive WsOut where
  | lt (rest : List Char)     -- found '<'; `rest` = `iter.as_str()`
  | err                        -- another character
  | eof
  deriving Repr

/-- `loop { match iter.next() { Some(c) if c.is_ascii_whitespace() => continue, Some('<') => break, … } }` -/
def wsLoop : List Char → WsOut
  | [] => .eof
  | c :: cs => if isAsciiWs c then wsLoop cs else if c = '<' then .lt cs else .err

/-- `for c in iter.by_ref() { if c == '>' { break; } }`: the iterator's remaining string -/
def gtLoop : List Char → List Char
  | [] => []
  | c :: cs => if c = '>' then cs else gtLoop cs

/-- the "skip to the separator" loop of both parsers (`quoted` = inside the inner quote loop): the
iterator's remaining string -/
def sepLoop (sep : Char) : List Char → Bool → List Char
  | [], _ => []
  | c :: cs, false =>
    if c = sep then cs
    else if c = '"' then sepLoop sep cs true
    else sepLoop sep cs false
  | c :: cs, true =>
    if c = '"' then sepLoop sep cs false
    else if c = '\\' then
      match cs with
      | [] => []
      | _ :: cs' => sepLoop sep cs' true      -- `iter.next();` skips the escaped character
    else sepLoop sep cs true

inductive ItemLow where
  | link (target attrs : List Char)
  | error
  deriving DecidableEq, Repr

/-- `str::trim_matches(c)` / `str::trim()` on character lists (safe code) -/
def trimBoth (p : Char → Bool) (l : List Char) : List Char := dropWhileEnd p (l.dropWhile p)

/-- `LinkFormatParser::next`: the item (if any) and the new `self.inner` -/
def linkNextLow (inner : List Char) : Res (Option ItemLow × List Char) :=
  if inner.isEmpty then .ok (none, inner)
  else
    match wsLoop inner with
    | .eof => .ok (none, [])
    | .err => .ok (some .error, [])
    | .lt linkRef =>
      let iter1 := gtLoop linkRef
      -- let link_len = iter.as_str().as_ptr() as usize - link_ref.as_ptr() as usize;
      match subW (blen linkRef) (blen iter1) with
      | .ok linkLen =>
        -- (link_ref[..link_len]).trim_end_matches('>')
        match sliceTo linkRef linkLen with
        | .ok lr =>
          let target := dropWhileEnd (· = '>') lr
          let attrKeys := iter1
          let iter2 := sepLoop ',' iter1 false
          -- let attr_len = iter.as_str().as_ptr() as usize - attr_keys.as_ptr() as usize;
          match subW (blen attrKeys) (blen iter2) with
          | .ok attrLen =>
            -- attr_keys[..attr_len].trim_end_matches(',')
            match sliceTo attrKeys attrLen with
            | .ok ak =>
              .ok (some (.link target (trimBoth (· = ';') (dropWhileEnd (· = ',') ak))), iter2)
            | _ => .panic
          | _ => .panic
        | _ => .panic
      | _ => .panic

/-- `LinkAttributeParser::next`: `(key, raw value)` and the new `self.inner` -/
def attrNextLow (inner : List Char) : Res (Option (List Char × List Char) × List Char) :=
  if inner.isEmpty then .ok (none, inner)
  else
    let iter := sepLoop ';' inner false
    -- let attr_len = iter.as_str().as_ptr() as usize - self.inner.as_ptr() as usize;
    match subW (blen inner) (blen iter) with
    | .ok attrLen =>
      -- let attr_str = &self.inner[..attr_len];
      match sliceTo inner attrLen with
      | .ok attrStr0 =>
        let attrStr := dropWhileEnd (· = ';') attrStr0
        -- if let Some(i) = attr_str.find('=') { let (key, value) = attr_str.split_at(i); (key, &value[1..]) }
        match findByte '=' attrStr with
        | some i =>
          match splitAt attrStr i with
          | .ok (key, value) =>
            match sliceFrom value 1 with
            | .ok v => .ok (some (trimBoth isWs key, trimBoth isWs v), iter)
            | _ => .panic
          | _ => .panic
        | none => .ok (some (trimBoth isWs attrStr, []), iter)
      | _ => .panic
    | _ => .panic

def itemChars : Item → ItemLow
  | .link t a => .link t.s a.s
  | .error => .error

/-- iterating the low-level parsers -/
def linkAllLow : Nat → List Char → Res (List ItemLow)
  | 0, _ => .ok []
  | fuel + 1, inner =>
    match linkNextLow inner with
    | .ok (none, _) => .ok []
    | .ok (some it, inner') => (linkAllLow fuel inner').map (it :: ·)
    | .err e => .err e
    | .panic => .panic

def attrAllLow : Nat → List Char → Res (List (List Char × List Char))
  | 0, _ => .ok []
  | fuel + 1, inner =>
    match attrNextLow inner with
    | .ok (none, _) => .ok []
    | .ok (some kv, inner') => (attrAllLow fuel inner').map (kv :: ·)
    | .err e => .err e
    | .panic => .panic

/-- `Unquote::to_cow()` in any state of the iterator: `str::find` gives byte indices, `&str_ref[1..]` and
`&body[..end]` panic off a character boundary -/
def toCowLow (u : Uq) : Res (List Char) :=
  if u.isQuoted then
    if (findByte '\\' u.inner).isSome then .ok u.rest          -- `Cow::from(self.to_string())`: the iterator
    else
      let body : Res (List Char) := match u.state with
        | .notStarted => sliceFrom u.inner 1                    -- &str_ref[1..]
        | _ => .ok u.inner
      match body with
      | .ok b =>
        match findByte '"' b with
        | some e => sliceTo b e                                 -- &body[..end]
        | none => .ok b
      | .err e => .err e
      | .panic => .panic
  else .ok u.inner

end LinkLow
end CoapLite
