/-
Model of `OptionValueString` (`src/option_value.rs`) and of the string-typed
accessors of `Packet`: encode = the UTF-8 bytes, decode = `String::from_utf8`.
Core Lean's `String.fromUTF8?` decides `ByteArray.IsValidUTF8`
(`∃ l : List Char, b = l.utf8Encode`), the mathematical definition.
-/
import CoapLite.Model.Packet

namespace CoapLite

def strEnc (s : String) : Bytes := s.toUTF8.data.toList

def strDec (bs : Bytes) : Res String :=
  match String.fromUTF8? (ByteArray.mk bs.toArray) with
  | some s => .ok s
  | none => .err .other

namespace Packet

def addOptionStr (p : Packet) (num : Nat) (s : String) : Packet := p.addOption num (strEnc s)

def setOptionsStr (p : Packet) (num : Nat) (ss : List String) : Packet :=
  p.setOption num (ss.map strEnc)

def getOptionsStr (p : Packet) (num : Nat) : Option (List (Res String)) :=
  (p.getOption num).map (fun l => l.map strDec)

def getFirstOptionStr (p : Packet) (num : Nat) : Option (Res String) :=
  (p.getFirstOption num).map strDec

end Packet
end CoapLite
