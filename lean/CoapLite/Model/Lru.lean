/-
Model of `lru_time_cache 0.11.11` as used by the block handler
(`LruCache::with_expiry_duration`, `entry(..).or_insert(..)`, `peek`),
transcribed from the crate's source.  The crate keeps a `BTreeMap<Key,(Value,
Instant)>` and a `VecDeque<Key>` in least-recently-used order; the model keeps
one list of `(key, value, time)` in that order (oldest first).  Time is an
explicit `now` (milliseconds), one reading per API call.  Capacity is
`usize::MAX`, so `remove_lru` never fires.
-/
import CoapLite.Basic

namespace CoapLite
namespace Lru

structure Cache (K V : Type) where
  entries : List (K × V × Nat)     -- LRU order, oldest first; Nat = time of last touch
  ttl : Nat
  deriving Repr

variable {K V : Type} [DecidableEq K]

def empty (ttl : Nat) : Cache K V := { entries := [], ttl := ttl }

/-- entry still alive at `now`: `t + ttl >= now` -/
def alive (ttl now t : Nat) : Bool := decide (t + ttl ≥ now)

/-- `remove_expired(now)`: drops entries from the front while they are expired
and stops at the first live one (`break`) -/
def removeExpired (c : Cache K V) (now : Nat) : Cache K V :=
  { c with entries := c.entries.dropWhile (fun e => !alive c.ttl now e.2.2) }

def find (c : Cache K V) (k : K) : Option (V × Nat) :=
  (c.entries.find? (fun e => e.1 = k)).map (·.2)

/-- `do_peek(key, now)` / `peek`: present and not expired; no state change -/
def peek (c : Cache K V) (k : K) (now : Nat) : Option V :=
  match find c k with
  | some (v, t) => if alive c.ttl now t then some v else none
  | none => none

/-- `update_key` + timestamp refresh: move `k` to the back with time `now` -/
def touch (c : Cache K V) (k : K) (now : Nat) : Cache K V :=
  match c.entries.find? (fun e => e.1 = k) with
  | some e => { c with entries := c.entries.filter (fun e' => e'.1 ≠ k) ++ [(k, e.2.1, now)] }
  | none => c

/-- `do_notify_get_mut(key, now)`: expire, then touch if present -/
def notifyGetMut (c : Cache K V) (k : K) (now : Nat) : Cache K V × Option V :=
  let c1 := removeExpired c now
  match find c1 k with
  | some (v, _) => (touch c1 k now, some v)
  | none => (c1, none)

/-- `do_notify_insert(key, value, now)` -/
def notifyInsert (c : Cache K V) (k : K) (v : V) (now : Nat) : Cache K V :=
  let c1 := removeExpired c now
  { c1 with entries := c1.entries.filter (fun e' => e'.1 ≠ k) ++ [(k, v, now)] }

/-- `entry(key).or_insert(default)`: returns the cache with `key` present,
touched at `now`, and the value the handler will mutate -/
def entryOrInsert (c : Cache K V) (k : K) (dflt : V) (now : Nat) : Cache K V × V :=
  match peek c k now with
  | some _ =>
    match notifyGetMut c k now with
    | (c', some v) => (c', v)
    | (c', none) => (c', dflt)          -- `expect("key not found")`; unreachable (theorem `entry_occupied`)
  | none =>
    let c1 := notifyInsert c k dflt now
    let c2 := (notifyGetMut c1 k now).1
    (c2, dflt)

/-- write back the value mutated through the `&mut` reference `entry` returned
(the key is the last entry after `entryOrInsert`) -/
def store (c : Cache K V) (k : K) (v : V) : Cache K V :=
  { c with entries := c.entries.map (fun e => if e.1 = k then (e.1, v, e.2.2) else e) }

end Lru
end CoapLite
