/-
Ghost model of the memory bookkeeping of `Packet::to_bytes_internal`
(`src/packet.rs`): the sequence of `Vec::reserve` calls and raw-pointer copies
the serialiser performs.  `vec = 0` is `options_bytes`, `vec = 1` is the output
buffer `buf`.  A `reserve (len, additional)` guarantees capacity
`≥ len + additional`; a `copy (off, n)` writes bytes `[off, off+n)`.
The theorem `C04.copies_in_bounds` shows that every copy lies within the
capacity guaranteed by the reservations made before it (requested capacity – a
lower bound on the real one, which the hook reports and the harness checks).
-/
import CoapLite.Model.Codec

namespace CoapLite
namespace Codec

inductive CopyEv where
  | reserve (vec len additional : Nat)
  | copy (vec off n : Nat)
  deriving DecidableEq, Repr

/-- events for one option instance appended at length `len` of `options_bytes` -/
def optEvents (len : Nat) (prev num : Nat) (v : Bytes) : List CopyEv :=
  let h := 1 + (ext (num - prev)).length + (ext v.length).length
  [.reserve 0 len (h + v.length), .copy 0 len h, .copy 0 (len + h) v.length]

/-- the option loops: returns the events, the final length of `options_bytes`,
and whether the loop ran to completion (`false` = an over-long value made the
serialiser return early, after the events so far) -/
def valuesEvents (len prev num : Nat) : List Bytes → List CopyEv × Nat × Nat × Bool
  | [] => ([], len, prev, true)
  | v :: vs =>
    if v.length ≥ 269 ∧ v.length - 269 > 65535 then ([], len, prev, false)
    else
      let h := 1 + (ext (num - prev)).length + (ext v.length).length
      let (evs, len', prev', ok) := valuesEvents (len + h + v.length) num num vs
      (optEvents len prev num v ++ evs, len', prev', ok)

def optsEvents (len prev : Nat) : OptMap → List CopyEv × Nat × Bool
  | [] => ([], len, true)
  | (num, vs) :: rest =>
    match valuesEvents len prev num vs with
    | (evs, len', prev', true) =>
      let (evs2, len'', ok) := optsEvents len' prev' rest
      (evs ++ evs2, len'', ok)
    | (evs, len', _, false) => (evs, len', false)

/-- all events of `to_bytes_internal(limit)` -/
def encTrace (p : Packet) (limit : Option Nat) : List CopyEv :=
  match optsEvents 0 0 p.options with
  | (evs, _, false) => evs
  | (evs, olen, true) =>
    let total := 4 + p.token.length + olen + (if sent p then 1 + p.payload.length else 0)
    let over := match limit with | some l => decide (total > l) | none => false
    if over then evs
    else
      let body := [CopyEv.reserve 1 4 (p.token.length + olen), .copy 1 4 p.token.length,
                   .copy 1 (4 + p.token.length) olen]
      let pay := if sent p then
          [CopyEv.reserve 1 (4 + p.token.length + olen + 1) p.payload.length,
           .copy 1 (4 + p.token.length + olen + 1) p.payload.length]
        else []
      evs ++ body ++ pay

/-- every copy stays within the capacity guaranteed so far: `caps v` is the
guaranteed capacity of vector `v` -/
def boundsOk : (Nat → Nat) → List CopyEv → Bool
  | _, [] => true
  | caps, .reserve v len add :: rest =>
    boundsOk (fun w => if w = v then max (caps v) (len + add) else caps w) rest
  | caps, .copy v off n :: rest => decide (off + n ≤ caps v) && boundsOk caps rest

end Codec
end CoapLite
