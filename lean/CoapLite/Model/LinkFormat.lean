/-
Model of `src/link_format.rs`: `LinkFormatParser`, `LinkAttributeParser`,
`Unquote` (parsing side) on `List Char` with explicit slice offsets, and
`LinkFormatWrite` / `LinkAttributeWrite` (writer side) as a sequence of guarded
sink calls under an arbitrary fault schedule.

A `Sl` is a slice of the original input: `s` are its characters and `off` the
character offset at which it starts.  Every parser result is an `Sl`, so "yields
only substrings of the input, left to right" is a statement about `off`/`s`.
-/
import CoapLite.Basic

namespace CoapLite
namespace Link

structure Sl where
  off : Nat
  s : List Char
  deriving DecidableEq, Repr, Inhabited

def Sl.len (x : Sl) : Nat := x.s.length
def Sl.drop (x : Sl) (n : Nat) : Sl := { off := x.off + min n x.s.length, s := x.s.drop n }
def Sl.take (x : Sl) (n : Nat) : Sl := { off := x.off, s := x.s.take n }

/-- Rust `char::is_ascii_whitespace`: space, \t, \n, form feed, \r -/
def isAsciiWs (c : Char) : Bool :=
  c = ' ' || c = '\t' || c = '\n' || c = '\x0c' || c = '\r'

/-- Rust `char::is_whitespace` (Unicode White_Space), used by `str::trim` -/
def isWs (c : Char) : Bool :=
  let n := c.toNat
  (0x09 ≤ n && n ≤ 0x0D) || n = 0x20 || n = 0x85 || n = 0xA0 || n = 0x1680 ||
  (0x2000 ≤ n && n ≤ 0x200A) || n = 0x2028 || n = 0x2029 || n = 0x202F || n = 0x205F || n = 0x3000

/-- Rust `char::is_ascii_alphanumeric` -/
def isAsciiAlnum (c : Char) : Bool :=
  ('0' ≤ c && c ≤ '9') || ('a' ≤ c && c ≤ 'z') || ('A' ≤ c && c ≤ 'Z')

def dropWhileEnd (p : Char → Bool) (l : List Char) : List Char :=
  (l.reverse.dropWhile p).reverse

/-- `str::trim_end_matches(c)` -/
def Sl.trimEnd (x : Sl) (p : Char → Bool) : Sl := { off := x.off, s := dropWhileEnd p x.s }

/-- `str::trim_start_matches` -/
def Sl.trimStart (x : Sl) (p : Char → Bool) : Sl :=
  let rest := x.s.dropWhile p
  { off := x.off + (x.s.length - rest.length), s := rest }

def Sl.trimBoth (x : Sl) (p : Char → Bool) : Sl := (x.trimStart p).trimEnd p

/-- number of characters consumed by the "skip to the separator" loops of both
parsers: stops after the first unquoted `sep` (which is consumed) or at the end;
inside double quotes a backslash skips the next character -/
def scanSep (sep : Char) : List Char → Bool → Nat
  | [], _ => 0
  | c :: cs, false =>
    if c = sep then 1
    else if c = '"' then 1 + scanSep sep cs true
    else 1 + scanSep sep cs false
  | c :: cs, true =>
    if c = '"' then 1 + scanSep sep cs false
    else if c = '\\' then
      match cs with
      | [] => 1
      | _ :: cs' => 2 + scanSep sep cs' true
    else 1 + scanSep sep cs true

/-- number of characters consumed looking for '>' (consumed too) -/
def scanGt : List Char → Nat
  | [] => 0
  | c :: cs => if c = '>' then 1 else 1 + scanGt cs

inductive Item where
  | link (target : Sl) (attrs : Sl)
  | error
  deriving DecidableEq, Repr

/-- `LinkFormatParser::next`: result item (if any) and the new `inner` -/
def linkNext (inner : Sl) : Option Item × Sl :=
  let empty : Sl := { off := inner.off + inner.s.length, s := [] }
  if inner.s.isEmpty then (none, inner)
  else
    -- skip ASCII whitespace until '<'
    let ws := inner.s.takeWhile isAsciiWs
    let after := inner.drop ws.length
    match after.s with
    | [] => (none, empty)
    | c :: _ =>
      if c ≠ '<' then (some .error, empty)
      else
        let linkRef := after.drop 1
        let n := scanGt linkRef.s
        let target := (linkRef.take n).trimEnd (· = '>')
        let attrKeys := linkRef.drop n
        let m := scanSep ',' attrKeys.s false
        let attrs := ((attrKeys.take m).trimEnd (· = ',')).trimBoth (· = ';')
        (some (.link target attrs), attrKeys.drop m)

/-- iterate `LinkFormatParser` to exhaustion (fuel = input length + 1; every
successful step consumes at least one character) -/
def linkAll : Nat → Sl → List Item
  | 0, _ => []
  | fuel + 1, inner =>
    match linkNext inner with
    | (none, _) => []
    | (some it, inner') => it :: linkAll fuel inner'

def parseLinks (input : List Char) : List Item :=
  linkAll (input.length + 1) { off := 0, s := input }

/-- position of the first '=' -/
def findEq : List Char → Option Nat
  | [] => none
  | c :: cs => if c = '=' then some 0 else (findEq cs).map (· + 1)

/-- `LinkAttributeParser::next`: `(key, raw value)` and the new `inner`.
An attribute without '=' yields the literal `""` as value, which is not a slice
of the input: it is represented with `off := 0, s := []`. -/
def attrNext (inner : Sl) : Option (Sl × Sl) × Sl :=
  if inner.s.isEmpty then (none, inner)
  else
    let n := scanSep ';' inner.s false
    let attrStr := (inner.take n).trimEnd (· = ';')
    let inner' := inner.drop n
    match findEq attrStr.s with
    | some i =>
      let key := attrStr.take i
      let value := attrStr.drop (i + 1)
      (some (key.trimBoth isWs, value.trimBoth isWs), inner')
    | none => (some (attrStr.trimBoth isWs, { off := 0, s := [] }), inner')

def attrAll : Nat → Sl → List (Sl × Sl)
  | 0, _ => []
  | fuel + 1, inner =>
    match attrNext inner with
    | (none, _) => []
    | (some kv, inner') => kv :: attrAll fuel inner'

def parseAttrs (attrs : Sl) : List (Sl × Sl) := attrAll (attrs.s.length + 1) attrs

/-! ### Unquote -/

/-- characters produced by the `Quoted` state of `Unquote::next` -/
def unqQuoted : List Char → List Char
  | [] => []
  | c :: cs =>
    if c = '"' then []
    else if c = '\\' then
      match cs with
      | [] => []
      | d :: cs' => d :: unqQuoted cs'
    else c :: unqQuoted cs

/-- `Unquote::new(s).to_string()`: the character-by-character unquoted form -/
def unquote (s : List Char) : List Char :=
  match s with
  | '"' :: rest => unqQuoted rest
  | _ => s

/-- `is_quoted()` of a fresh `Unquote` -/
def isQuoted (s : List Char) : Bool :=
  match s with
  | '"' :: _ => true
  | _ => false

/-- `to_cow()` of a fresh `Unquote` (after the D11 fix): unquoted strings and
quoted strings without escapes are borrowed – the latter up to the closing
quote, or to the end when unterminated; strings with a backslash go through the
character iterator -/
def toCow (s : List Char) : List Char :=
  match s with
  | '"' :: rest =>
    if s.contains '\\' then unquote s
    else rest.takeWhile (· ≠ '"')
  | _ => s

/-! ### `Unquote` as the iterator it is: any number of `next()` calls, then `to_cow()` /
`to_string()` / `is_quoted()` on what is left -/

inductive UqState where
  | notStarted | notQuoted | quoted
  deriving DecidableEq, Repr

/-- `Unquote { inner: Chars, state }` -/
structure Uq where
  inner : List Char
  state : UqState
  deriving DecidableEq, Repr

namespace Uq

def new (s : List Char) : Uq := ⟨s, .notStarted⟩

/-- the `Quoted` arm of `next` -/
def nextQuoted : List Char → Option Char × Uq
  | [] => (none, ⟨[], .quoted⟩)
  | c :: cs =>
    if c = '"' then (none, ⟨[], .quoted⟩)       -- finished: `self.inner = "".chars()`
    else if c = '\\' then
      match cs with
      | [] => (none, ⟨[], .quoted⟩)
      | d :: cs' => (some d, ⟨cs', .quoted⟩)
    else (some c, ⟨cs, .quoted⟩)

/-- `Iterator::next` -/
def next (u : Uq) : Option Char × Uq :=
  match u.state with
  | .notStarted =>
    match u.inner with
    | [] => (none, ⟨[], .notQuoted⟩)
    | c :: cs => if c = '"' then nextQuoted cs else (some c, ⟨cs, .notQuoted⟩)
  | .notQuoted =>
    match u.inner with
    | [] => (none, u)
    | c :: cs => (some c, ⟨cs, .notQuoted⟩)
  | .quoted => nextQuoted u.inner

/-- `k` calls of `next` (results discarded) -/
def advance : Nat → Uq → Uq
  | 0, u => u
  | k + 1, u => advance k u.next.2

/-- `is_quoted()` -/
def isQuoted (u : Uq) : Bool :=
  match u.state with
  | .notStarted => Link.isQuoted u.inner
  | .notQuoted => false
  | .quoted => true

/-- what the iterator yields from here on (`to_string()`, `collect()`) -/
def rest (u : Uq) : List Char :=
  match u.state with
  | .notStarted => unquote u.inner
  | .notQuoted => u.inner
  | .quoted => unqQuoted u.inner

/-- `to_cow()` in any state -/
def toCow (u : Uq) : List Char :=
  if u.isQuoted then
    if u.inner.contains '\\' then u.rest
    else
      let body := match u.state with
        | .notStarted => u.inner.drop 1
        | _ => u.inner
      body.takeWhile (· ≠ '"')
  else u.inner

end Uq

/-! ### writer -/

/-- the writer and its sink: `calls` counts the sink calls issued so far, a call
with index `k` fails iff `fails k`; a failed call writes nothing and latches
`error`; once `error` is set no further call is issued -/
structure W where
  calls : Nat
  sink : List Char
  error : Bool
  isFirst : Bool
  nl : Bool
  deriving DecidableEq, Repr, Inhabited

def W.new (nl : Bool) : W := { calls := 0, sink := [], error := false, isFirst := true, nl := nl }

/-- one guarded sink call: `if self.error.is_none() { self.error = write(..).err() }` -/
def W.put (fails : Nat → Bool) (w : W) (s : List Char) : W :=
  if w.error then w
  else if fails w.calls then { w with calls := w.calls + 1, error := true }
  else { w with calls := w.calls + 1, sink := w.sink ++ s }

/-- `LinkFormatWrite::link(target)` -/
def W.link (fails : Nat → Bool) (w : W) (target : List Char) : W :=
  let w1 :=
    if w.isFirst then { w with isFirst := false }
    else
      let a := w.put fails [',']
      if w.nl then a.put fails ['\n', '\r'] else a
  ((w1.put fails ['<']).put fails target).put fails ['>']

def W.keyEq (fails : Nat → Bool) (w : W) (key : List Char) : W :=
  ((w.put fails [';']).put fails key).put fails ['=']

/-- `attr_quoted` -/
def W.attrQuoted (fails : Nat → Bool) (w : W) (key value : List Char) : W :=
  let w1 := (w.keyEq fails key).put fails ['"']
  let w2 := value.foldl (fun w c =>
    let w' := if c = '"' || c = '\\' then w.put fails ['\\'] else w
    w'.put fails [c]) w1
  w2.put fails ['"']

/-- `attr`: quoted iff the value contains a non-ASCII-alphanumeric character -/
def W.attr (fails : Nat → Bool) (w : W) (key value : List Char) : W :=
  if value.any (fun c => !isAsciiAlnum c) then w.attrQuoted fails key value
  else (w.keyEq fails key).put fails value

/-- `attr_u32` / `attr_u16` -/
def W.attrNum (fails : Nat → Bool) (w : W) (key : List Char) (n : Nat) : W :=
  (w.keyEq fails key).put fails (Nat.toDigits 10 n)

inductive AttrSpec where
  | plain (key value : List Char)
  | quoted (key value : List Char)
  | num (key : List Char) (n : Nat)
  deriving DecidableEq, Repr

abbrev Doc := List (List Char × List AttrSpec)

def W.attrSpec (fails : Nat → Bool) (w : W) : AttrSpec → W
  | .plain k v => w.attr fails k v
  | .quoted k v => w.attrQuoted fails k v
  | .num k n => w.attrNum fails k n

def writeDoc (fails : Nat → Bool) (nl : Bool) (d : Doc) : W :=
  d.foldl (fun w l => l.2.foldl (W.attrSpec fails) (w.link fails l.1)) (W.new nl)

/-! the writer as the API it is: any sequence of `link`, attribute calls and `set_add_newlines`
(the real API only allows the latter between links – the model allows it anywhere) -/
inductive WOp where
  | link (target : List Char)
  | attr (a : AttrSpec)
  | setNl (b : Bool)
  deriving DecidableEq, Repr

/-- `set_add_newlines(b)`: changes the flag and nothing else -/
def W.setNl (w : W) (b : Bool) : W := { w with nl := b }

def W.op (fails : Nat → Bool) (w : W) : WOp → W
  | .link t => w.link fails t
  | .attr a => w.attrSpec fails a
  | .setNl b => w.setNl b

def writeOps (fails : Nat → Bool) (nl : Bool) (ops : List WOp) : W :=
  ops.foldl (W.op fails) (W.new nl)

/-- a document as an operation sequence -/
def Doc.ops (d : Doc) : List WOp := d.flatMap (fun l => WOp.link l.1 :: l.2.map WOp.attr)

/-- `finish()`: `true` = Ok -/
def W.finish (w : W) : Bool := !w.error

end Link
end CoapLite
