/-
The public builder API of `Packet` as a list of calls, and the reference
semantics "per header field the last value written, per option number the calls
for that number in order" (C01: *all orders of API calls that build a message*).
-/
import CoapLite.Model.Packet

namespace CoapLite
namespace Builder

inductive BOp where
  | ver (v : UInt8)                -- header.set_version
  | typ (t : MessageType)          -- header.set_type
  | tkl (n : UInt8)                -- header.set_token_length
  | tok (t : Bytes)                -- set_token
  | add (n : Nat) (v : Bytes)      -- add_option
  | set (n : Nat) (vs : List Bytes) -- set_option
  | clr (n : Nat)                  -- clear_option
  | clrAll                         -- clear_all_options
  | code (c : MessageClass)        -- header.code = …
  | mid (m : Nat)                  -- header.message_id = …
  | pay (b : Bytes)                -- payload = …
  deriving DecidableEq, Repr

/-- one API call on the model -/
def apply (p : Packet) : BOp → Res Packet
  | .ver v => .ok { p with header := p.header.setVersion v }
  | .typ t => .ok { p with header := p.header.setType t }
  | .tkl n => (p.header.setTkl n).map (fun h => { p with header := h })
  | .tok t => p.setToken t
  | .add n v => .ok (p.addOption n v)
  | .set n vs => .ok (p.setOption n vs)
  | .clr n => .ok (p.clearOption n)
  | .clrAll => .ok p.clearAllOptions
  | .code c => .ok { p with header := { p.header with code := c } }
  | .mid m => .ok { p with header := { p.header with mid := m } }
  | .pay b => .ok { p with payload := b }

/-- a whole call sequence on a fresh `Packet::new()` -/
def build (ops : List BOp) : Res Packet :=
  ops.foldl (fun r op => r.bind (fun p => apply p op)) (.ok Packet.new)

/-! ### reference semantics (independent of the packet representation) -/

/-- the values stored for option number `n` after the calls `ops`
(`none` = the number was never touched, or everything was cleared since) -/
def refOpts : List BOp → Nat → Option (List Bytes)
  | [], _ => none
  | op :: rest, n =>
    -- `rest` are the EARLIER calls: the list is processed newest-first
    match op with
    | .add k v => if n = k then some ((refOpts rest k).getD [] ++ [v]) else refOpts rest n
    | .set k vs => if n = k then some vs else refOpts rest n
    | .clr k => if n = k then (refOpts rest k).map (fun _ => []) else refOpts rest n
    | .clrAll => none
    | _ => refOpts rest n

/-- last value written to a header field, newest-first; default of `Packet::new()` otherwise -/
def refVer : List BOp → UInt8
  | [] => 1
  | .ver v :: _ => v &&& 3
  | _ :: rest => refVer rest

def refTyp : List BOp → MessageType
  | [] => .Confirmable
  | .typ t :: _ => t
  | _ :: rest => refTyp rest

/-- token-length nibble: written by `set_token_length` and by `set_token` -/
def refTkl : List BOp → Nat
  | [] => 0
  | .tkl n :: _ => n.toNat
  | .tok t :: _ => t.length % 256
  | _ :: rest => refTkl rest

def refTok : List BOp → Bytes
  | [] => []
  | .tok t :: _ => t
  | _ :: rest => refTok rest

def refCode : List BOp → MessageClass
  | [] => MessageClass.ofU8 Consts.headerDefaultCode
  | .code c :: _ => c
  | _ :: rest => refCode rest

def refMid : List BOp → Nat
  | [] => 0
  | .mid m :: _ => m
  | _ :: rest => refMid rest

def refPay : List BOp → Bytes
  | [] => []
  | .pay b :: _ => b
  | _ :: rest => refPay rest

/-- the API's documented assertion: a token length with a high nibble panics -/
def NoAssert (ops : List BOp) : Prop :=
  ∀ op ∈ ops, (∀ n, op = .tkl n → n.toNat < 16) ∧ (∀ t, op = .tok t → t.length % 256 < 16)

end Builder
end CoapLite
