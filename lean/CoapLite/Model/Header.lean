/-
Model of `src/header.rs`: the bit-packed first header byte, the message-code
text form (`Display for MessageClass`, `Header::set_code`/`get_code`) and
`ResponseType::is_error`.
-/
import CoapLite.Basic
import CoapLite.Generated.Tables
import CoapLite.Generated.Consts

namespace CoapLite

structure Header where
  vtt : UInt8            -- ver_type_tkl
  code : MessageClass
  mid : Nat              -- u16
  deriving DecidableEq, Repr, Inhabited

namespace Header

/-- `Header::default()` = `from_raw(HeaderRaw::default())` -/
def default : Header :=
  { vtt := UInt8.ofNat Consts.headerDefaultVtt,
    code := MessageClass.ofU8 Consts.headerDefaultCode,
    mid := Consts.headerDefaultMid }

/-- `set_version(v)`: `v << 6 | (0x3F & vtt)` (u8 shift drops high bits) -/
def setVersion (h : Header) (v : UInt8) : Header :=
  { h with vtt := (v <<< 6) ||| (0x3F &&& h.vtt) }

def getVersion (h : Header) : UInt8 := h.vtt >>> 6

/-- `set_type(t)`: `tn << 4 | (0xCF & vtt)` -/
def setType (h : Header) (t : MessageType) : Header :=
  { h with vtt := (UInt8.ofNat (MessageType.toBits t) <<< 4) ||| (0xCF &&& h.vtt) }

def typeBits (h : Header) : Nat := ((0x30 &&& h.vtt) >>> 4).toNat

/-- `get_type()`; the `_ => unreachable!()` arm is a visible `panic` -/
def getType (h : Header) : Res MessageType :=
  match MessageType.ofBits? h.typeBits with
  | some t => .ok t
  | none => .panic

/-- `set_token_length(tkl)`: `assert_eq!(0xF0 & tkl, 0)` -/
def setTkl (h : Header) (tkl : UInt8) : Res Header :=
  if 0xF0 &&& tkl ≠ 0 then .panic
  else .ok { h with vtt := tkl ||| (0xF0 &&& h.vtt) }

def getTkl (h : Header) : UInt8 := 0x0F &&& h.vtt

end Header

/-! ### code text form -/

/-- `Display for MessageClass`: `"{}.{:02}"` of `(code >> 5, code & 0x1F)` -/
def fmtCode (code : Nat) : List Char :=
  let cls := (code &&& 0xE0) >>> 5
  let det := code &&& 0x1F
  let d := Nat.toDigits 10 det
  Nat.toDigits 10 cls ++ ['.'] ++ (if d.length < 2 then '0' :: d else d)

/-- Rust `str::parse::<u8>`: optional leading `+`, at least one ASCII digit,
value ≤ 255. -/
def parseU8Digits : List Char → Nat → Option Nat
  | [], acc => some acc
  | c :: cs, acc =>
    if '0' ≤ c ∧ c ≤ '9' then
      let acc' := acc * 10 + (c.toNat - 48)
      if acc' > 255 then none else parseU8Digits cs acc'
    else none

def parseU8 (s : List Char) : Option Nat :=
  match s with
  | [] => none
  | '+' :: rest => if rest.isEmpty then none else parseU8Digits rest 0
  | _ => parseU8Digits s 0

/-- split on `'.'` (Rust `str::split('.')`) -/
def splitDot : List Char → List (List Char)
  | [] => [[]]
  | c :: cs =>
    match splitDot cs with
    | [] => [[]]   -- unreachable: splitDot never returns []
    | hd :: tl => if c = '.' then [] :: hd :: tl else (c :: hd) :: tl

/-- `Header::set_code(&str)`: returns the new code byte; asserts and
`unwrap`s are `panic`. -/
def parseCode (s : List Char) : Res Nat :=
  match splitDot s with
  | [a, b] =>
    match parseU8 a, parseU8 b with
    | some cls, some det =>
      if 0xF8 &&& cls ≠ 0 then .panic
      else if 0xE0 &&& det ≠ 0 then .panic
      else .ok ((cls <<< 5 ||| det) % 256)
    | _, _ => .panic
  | _ => .panic

/-- `ResponseType::is_error`: derived `PartialOrd` on
`MessageClass::Response(_)` compares the variant index of the inner enum. -/
def ResponseType.isError (r : ResponseType) : Bool :=
  decide (ResponseType.idx r ≥ ResponseType.idx .BadRequest)

end CoapLite
