/-
Model of `src/block_handler/mod.rs` (RFC 7959 block-wise transfer handler),
after the D13–D16 fixes.  The handler's `LruCache<RequestCacheKey, BlockState>`
is `Lru.Cache Key BlockState`; time is an explicit `now` per entry-point call.
A `HandlingError` is `HRes.herr code` (the message text is not modelled).
State mutations that the Rust code performs before returning an error are kept
(the handler works through `&mut` references into the cache and the request).
-/
import CoapLite.Model.Request
import CoapLite.Model.BlockValue
import CoapLite.Model.Codec
import CoapLite.Model.Lru

namespace CoapLite
namespace Block

inductive HRes (α : Type) where
  | ok : α → HRes α
  | herr : Option ResponseType → HRes α     -- HandlingError { code, .. }
  | panic : HRes α
  deriving DecidableEq, Repr

def internal {α} : HRes α := .herr (some .InternalServerError)
def badRequest {α} : HRes α := .herr (some .BadRequest)
def notHandled {α} : HRes α := .herr none

structure Key where
  method : Nat                 -- request_type_ord: the raw code byte
  path : List Bytes            -- raw Uri-Path segments
  requester : Option Nat
  deriving DecidableEq, Repr

structure BlockState where
  lastBlock2 : Option BlockValue      -- last_request_block2
  cachedResponse : Option Packet      -- cached_response
  cachedSzx : Option Nat              -- cached_response_size_exponent (D21 fix)
  cachedPayload : Option Bytes        -- cached_request_payload
  deriving DecidableEq, Repr

def BlockState.default : BlockState :=
  { lastBlock2 := none, cachedResponse := none, cachedSzx := none, cachedPayload := none }

structure Handler where
  maxSize : Nat                        -- config.max_total_message_size
  cache : Lru.Cache Key BlockState
  deriving Repr

def Handler.new (maxSize ttl : Nat) : Handler := { maxSize := maxSize, cache := Lru.empty ttl }

/-- `From<&CoapRequest> for RequestCacheKey` -/
def keyOf (r : Request) : Key :=
  { method := MessageClass.toU8 r.message.header.code,
    path := (r.message.getOption Request.uriPath).getD [],
    requester := r.source }

def block1Num : Nat := CoapOption.toU16 .Block1
def block2Num : Nat := CoapOption.toU16 .Block2

/-- `get_first_option_as::<BlockValue>(opt).and_then(|x| x.ok())` -/
def firstBlock (p : Packet) (num : Nat) : Option BlockValue :=
  match p.getFirstOption num with
  | some bs => match BlockValue.dec bs with | .ok b => some b | _ => none
  | none => none

/-- `compute_message_size_hack` (after the D15 fix: unlimited encoder, error
propagated instead of `expect`) -/
def computeMessageSize (p : Packet) : HRes Nat :=
  match Codec.enc { p with payload := [] } none with
  | .ok b => .ok (b.length + p.payload.length)
  | .err _ => internal
  | .panic => .panic

def newBlock (num : Nat) (more : Bool) (size : Nat) : HRes (Option BlockValue) :=
  match BlockValue.new num more size with
  | .ok b => .ok (some b)
  | .err _ => internal
  | .panic => .panic

/-- `negotiate_block_size_if_necessary` (after the D14 fix: a zero block budget
is an error instead of a division by zero; after the D20 fix: a budget that leaves more room than the
largest block size, 1024 = SZX 6, proposes that size instead of failing) -/
def negotiate (reqBlock : Option BlockValue) (messageSize totalPayload maxTotal : Nat) :
    HRes (Option BlockValue) :=
  let maxNonPayload := (messageSize + Consts.blockOptionsMaxLength) - totalPayload
  if maxTotal < maxNonPayload then internal
  else
    let maxBlock := maxTotal - maxNonPayload
    if maxBlock = 0 then internal
    else
      match reqBlock with
      | some rb =>
        let negotiated := min rb.size maxBlock
        let start := rb.num * rb.size
        let stop := start + negotiated
        newBlock (start / negotiated) (decide (stop < totalPayload)) negotiated
      | none =>
        if totalPayload < maxBlock then .ok none
        else newBlock 0 true (min maxBlock Consts.maximumBlockSize)

/-- `extending_splice(dst, start..stop, payload, max_reserve)` -/
def extendingSplice (dst : Bytes) (start stop : Nat) (payload : Bytes) (maxReserve : Nat) :
    Option Bytes :=
  let dst' :=
    if stop ≥ dst.length then
      if stop - dst.length > maxReserve then none
      else some (dst ++ List.replicate (stop - dst.length) 0)
    else some dst
  dst'.map (fun d => d.take start ++ payload ++ d.drop stop)

/-! the same at the level of `Vec::splice`'s own preconditions (it panics when `start > end` or
`end > len`); `Lemmas/SpliceLow.lean` proves it equal to `extendingSplice` for `start ≤ stop` -/

/-- `dst.splice(start..stop, payload)` -/
def spliceLow (dst : Bytes) (start stop : Nat) (payload : Bytes) : Res Bytes :=
  if start > stop then .panic                 -- "slice index starts at … but ends at …"
  else if stop > dst.length then .panic       -- "range end index … out of range"
  else .ok (dst.take start ++ payload ++ dst.drop stop)

/-- `extending_splice(dst, start..stop, payload, max_reserve)`; `none` = the `Err(String)` result -/
def extendingSpliceLow (dst : Bytes) (start stop : Nat) (payload : Bytes) (maxReserve : Nat) :
    Res (Option Bytes) :=
  -- if let Some(extend_len) = end_index_plus_1.checked_sub(dst.len())
  if stop ≥ dst.length then
    let extendLen := stop - dst.length
    if extendLen > maxReserve then .ok none
    else
      -- dst.extend(iter::repeat(T::default()).take(extend_len));
      (spliceLow (dst ++ List.replicate extendLen 0) start stop payload).map some
  else (spliceLow dst start stop payload).map some

/-- `response.message.add_option_as(opt, block)` -/
def addBlockOption (p : Packet) (num : Nat) (b : BlockValue) : HRes Packet :=
  match b.enc with
  | .ok bs => .ok (p.addOption num bs)
  | .err _ => internal
  | .panic => .panic

def setCode (p : Packet) (c : ResponseType) : Packet :=
  { p with header := { p.header with code := .Response c } }

/-- `maybe_handle_request_block1`; returns the (possibly mutated) request and
state together with the outcome -/
def handleBlock1 (req : Request) (maxTotal : Nat) (st : BlockState) :
    Request × BlockState × HRes Bool :=
  let rb1 := firstBlock req.message block1Num
  match computeMessageSize req.message with
  | .herr c => (req, st, .herr c)
  | .panic => (req, st, .panic)
  | .ok size =>
    match negotiate rb1 size req.message.payload.length maxTotal with
    | .herr c => (req, st, .herr c)
    | .panic => (req, st, .panic)
    | .ok resp1? =>
      match rb1, resp1? with
      | some rb1, some resp1 =>
        -- D16 fix: block 0 starts a fresh body
        let st0 := if rb1.num = 0 then { st with cachedPayload := some [] } else st
        let buf := st0.cachedPayload.getD []
        let st1 := { st0 with cachedPayload := some buf }
        let off := rb1.num * rb1.size
        match extendingSplice buf off (off + rb1.size) req.message.payload Consts.maxUncommittedReserve with
        | none => (req, st1, internal)
        | some buf' =>
          if rb1.more then
            let st2 := { st1 with cachedPayload := some buf' }
            match req.response with
            | none => (req, st2, notHandled)
            | some resp =>
              match addBlockOption resp block1Num resp1 with
              | .ok resp' => ({ req with response := some (setCode resp' .Continue) }, st2, .ok true)
              | .herr c => (req, st2, .herr c)
              | .panic => (req, st2, .panic)
          else
            let st2 := { st1 with cachedPayload := none }
            let req1 := { req with message := { req.message with payload := buf' } }
            match req1.response with
            | none => (req1, st2, notHandled)
            | some resp =>
              match addBlockOption resp block1Num resp1 with
              | .ok resp' => ({ req1 with response := some resp' }, st2, .ok false)
              | .herr c => (req1, st2, .herr c)
              | .panic => (req1, st2, .panic)
      | none, some resp1 =>
        match req.response with
        | none => (req, st, notHandled)
        | some resp =>
          match addBlockOption resp block1Num resp1 with
          | .ok resp' => ({ req with response := some (setCode resp' .RequestEntityTooLarge) }, st, .ok true)
          | .herr c => (req, st, .herr c)
          | .panic => (req, st, .panic)
      | _, _ => (req, st, .ok false)

/-- `packet_clone_limited(dst, src)`: version, type, code and options; neither
message id, token nor payload -/
def packetCloneLimited (dst src : Packet) : Res Packet :=
  match src.header.getType with
  | .ok t =>
    let h := ((dst.header.setVersion src.header.getVersion).setType t)
    let d1 := { dst with header := { h with code := src.header.code } }
    .ok (src.options.foldl (fun d kv => d.setOption (CoapOption.toU16 (CoapOption.ofU16 kv.1)) kv.2) d1)
  | .err e => .err e
  | .panic => .panic

/-- the `k`-th chunk of `body` for chunk size `size` (`slice::chunks`) and
whether a later chunk exists; after the D13 fix block 0 of an empty body is the
empty block -/
def chunkAt (body : Bytes) (size k : Nat) : Option (Bytes × Bool) :=
  if k * size < body.length then
    some ((body.drop (k * size)).take size, decide ((k + 1) * size < body.length))
  else if k = 0 ∧ body.length = 0 then some ([], false)
  else none

/-- `maybe_serve_cached_response(request, request_block2, cached_response)` -/
def serveCached (req : Request) (rb2 : BlockValue) (cached : Packet) : Request × HRes Bool :=
  match req.response with
  | none => (req, notHandled)
  | some resp =>
    match packetCloneLimited resp cached with
    | .panic => (req, .panic)
    | .err _ => (req, .panic)
    | .ok resp1 =>
      let req1 := { req with response := some resp1 }
      match chunkAt cached.payload rb2.size rb2.num with
      | none => (req1, badRequest)
      | some (chunk, more) =>
        match ({ rb2 with more := more } : BlockValue).enc with
        | .ok bs =>
          let resp2 := { resp1 with payload := chunk }
          ({ req with response := some (resp2.setOption block2Num [bs]) }, .ok more)
        | .err _ => ({ req with response := some { resp1 with payload := chunk } }, internal)
        | .panic => (req1, .panic)

/-- D21 fix: a follow-up naming a larger block size than the one negotiated for the cached response is
served the same offset at the negotiated size (`BlockValue::new(num * ratio, more, 16 << szx)`; a block
number that no longer fits 20 bits is a 4.00) -/
def clampBlock (b2 : BlockValue) (cachedSzx : Option Nat) : HRes BlockValue :=
  match cachedSzx with
  | some s =>
    if b2.szx > s then
      match BlockValue.new (b2.num * 2 ^ (b2.szx - s)) b2.more (16 * 2 ^ s) with
      | .ok b => .ok b
      | .err _ => badRequest
      | .panic => .panic
    else .ok b2
  | none => .ok b2

/-- `maybe_handle_request_block2` -/
def handleBlock2 (req : Request) (st : BlockState) : Request × BlockState × HRes Bool :=
  let mb2 := firstBlock req.message block2Num
  let st1 := { st with lastBlock2 := mb2 }
  match mb2, st1.cachedResponse with
  | some b2, some cached =>
    match clampBlock b2 st1.cachedSzx with
    | .ok b2' =>
      match serveCached req b2' cached with
      | (req', .ok more) =>
        (req', (if more then st1 else { st1 with cachedResponse := none, cachedSzx := none }), .ok true)
      | (req', .herr c) => (req', st1, .herr c)
      | (req', .panic) => (req', st1, .panic)
    | .herr c => (req, st1, .herr c)
    | .panic => (req, st1, .panic)
  | _, _ => (req, st1, .ok false)

/-- the state-passing core of `intercept_request`: Block1 handling, then (if
not handled) Block2 handling, on the state cached for the request's key -/
def coreRequest (maxTotal : Nat) (req : Request) (st : BlockState) : Request × BlockState × HRes Bool :=
  match handleBlock1 req maxTotal st with
  | (req1, st1, .ok true) => (req1, st1, .ok true)
  | (req1, st1, .ok false) => handleBlock2 req1 st1
  | (req1, st1, r) => (req1, st1, r)

/-- `MAXIMUM_TOKEN_LENGTH.saturating_sub(token.len())` -/
def tokenReserve (p : Packet) : Nat := Consts.maximumTokenLength - p.token.length

/-- the state-passing core of `intercept_response` -/
def coreResponse (maxTotal : Nat) (req : Request) (st : BlockState) : Request × BlockState × HRes Bool :=
  match req.response with
  | none => (req, st, .ok false)
  | some resp =>
    if (resp.getOption block2Num).isSome then (req, st, .ok false)
    else
      match computeMessageSize resp with
      | .herr c => (req, st, .herr c)
      | .panic => (req, st, .panic)
      | .ok size =>
        -- D19 fix: room for a maximum-length token in the follow-up replies
        match negotiate st.lastBlock2 (size + tokenReserve resp) resp.payload.length maxTotal with
        | .herr c => (req, st, .herr c)
        | .panic => (req, st, .panic)
        | .ok none => (req, st, .ok false)
        | .ok (some rb2) =>
          match serveCached req rb2 resp with
          | (req', .ok true) => (req', { st with cachedResponse := some resp, cachedSzx := some rb2.szx }, .ok true)
          | (req', r) => (req', st, r)

/-- `BlockHandler::intercept_request` at time `now`: look up / create the state
for the request's key (touching it), run the core, write the state back -/
def interceptRequest (h : Handler) (now : Nat) (req : Request) : Handler × Request × HRes Bool :=
  let k := keyOf req
  let (c1, st) := Lru.entryOrInsert h.cache k BlockState.default now
  let (req', st', r) := coreRequest h.maxSize req st
  ({ h with cache := Lru.store c1 k st' }, req', r)

/-- `BlockHandler::intercept_response` at time `now` -/
def interceptResponse (h : Handler) (now : Nat) (req : Request) : Handler × Request × HRes Bool :=
  let k := keyOf req
  let (c1, st) := Lru.entryOrInsert h.cache k BlockState.default now
  let (req', st', r) := coreResponse h.maxSize req st
  ({ h with cache := Lru.store c1 k st' }, req', r)

end Block
end CoapLite
