/-
Model of `src/request.rs`, `src/response.rs` and the coap-message trait views
(`src/impl_coap_message.rs`, `src/impl_coap_message_0_3.rs`, plus the crates'
default `set_from_message`).
-/
import CoapLite.Model.Str

namespace CoapLite

/-- `CoapResponse::new(request)`: `None` unless the request is CON or NON. -/
def Response.new (req : Packet) : Res (Option Packet) :=
  let p0 := Packet.new
  let p1 := { p0 with header := p0.header.setVersion 1 }
  match req.header.getType with
  | .ok t =>
    match responseTypeFor t with
    | none => .ok none
    | some rt =>
      let p2 := { p1 with header := { (p1.header.setType rt) with
                    code := .Response .Content, mid := req.header.mid } }
      (p2.setToken req.token).map some
  | .err e => .err e
  | .panic => .panic

structure Request where
  message : Packet
  response : Option Packet
  source : Option Nat
  deriving DecidableEq, Repr, Inhabited

namespace Request

/-- `CoapRequest::new()` -/
def new : Request := { message := Packet.new, response := none, source := none }

/-- `CoapRequest::from_packet(packet, source)` -/
def fromPacket (p : Packet) (src : Nat) : Res Request :=
  (Response.new p).map (fun r => { message := p, response := r, source := some src })

/-- `apply_from_error(HandlingError { code, message })` -/
def applyFromError (r : Request) (code : Option ResponseType) (msg : Bytes) : Res (Request × Bool) :=
  match r.response, code with
  | some reply, some c =>
    let m1 := { reply with header := { reply.header with code := .Response c } }
    match m1.setContentFormat .TextPlain with
    | .ok m2 => .ok ({ r with response := some { m2 with payload := msg } }, true)
    | .err e => .err e
    | .panic => .panic
  | _, _ => .ok (r, false)

def setMethod (r : Request) (m : RequestType) : Request :=
  { r with message := { r.message with header := { r.message.header with code := .Request m } } }

def getMethod (r : Request) : RequestType := getMethodTable r.message.header.code

/-- `str::split('/')` on characters -/
def splitSlash : List Char → List (List Char)
  | [] => [[]]
  | c :: cs =>
    match splitSlash cs with
    | [] => [[]]   -- unreachable
    | hd :: tl => if c = '/' then [] :: hd :: tl else (c :: hd) :: tl

def uriPath : Nat := CoapOption.toU16 .UriPath

/-- `set_path(path)`: clear Uri-Path, split on '/', skip an empty first segment -/
def setPath (r : Request) (path : List Char) : Request :=
  let m0 := r.message.clearOption uriPath
  let segs := splitSlash path
  let segs' := match segs with
    | [] :: rest => rest
    | s => s
  { r with message := segs'.foldl (fun m s => m.addOption uriPath (strEnc (String.ofList s))) m0 }

/-- `get_path()`: UTF-8 segments joined by '/' (non-UTF-8 segments skipped) -/
def getPath (r : Request) : List Char :=
  match r.message.getOption uriPath with
  | some opts =>
    let segs := opts.filterMap (fun o => match strDec o with | .ok s => some s.toList | _ => none)
    List.intercalate ['/'] segs
  | none => []

/-- `get_path_as_vec()`: first non-UTF-8 segment is an error -/
def getPathAsVec (r : Request) : Res (List String) :=
  match r.message.getOptionsStr uriPath with
  | none => .ok []
  | some l =>
    l.foldr (fun x acc => match x, acc with
      | .ok s, .ok ss => .ok (s :: ss)
      | .err e, _ => .err e
      | .panic, _ => .panic
      | .ok _, .err e => .err e
      | .ok _, .panic => .panic) (.ok [])

/-- `get_observe_flag()`: `none` = no Observe option; `some (err)` = present but not a known flag -/
def getObserveFlag (r : Request) : Option (Res ObserveOption) :=
  match r.message.getObserveValue with
  | none => none
  | some (.ok v) =>
    match ObserveOption.ofUsize? v with
    | some f => some (.ok f)
    | none => some (.err .other)
  | some _ => some (.err .other)

def setObserveFlag (r : Request) (f : ObserveOption) : Res Request :=
  (r.message.setObserveValue f.toUsize).map (fun m => { r with message := m })

end Request

namespace ResponseM
/-- `set_status` / `get_status` on a response message -/
def setStatus (m : Packet) (s : ResponseType) : Packet :=
  { m with header := { m.header with code := .Response s } }
def getStatus (m : Packet) : ResponseType := getStatusTable m.header.code
end ResponseM

/-! ### coap-message views (identical for 0.2 and 0.3) -/
namespace MsgView

def code (p : Packet) : MessageClass := p.header.code
def payload (p : Packet) : Bytes := p.payload
/-- `ReadableMessage::options()`: flattening iterator, ascending number order -/
def options (p : Packet) : List (Nat × Bytes) := p.options.flatten
def setCode (p : Packet) (c : MessageClass) : Packet := { p with header := { p.header with code := c } }
def addOption (p : Packet) (num : Nat) (v : Bytes) : Packet :=
  p.addOption (CoapOption.toU16 (CoapOption.ofU16 num)) v
def setPayload (p : Packet) (b : Bytes) : Packet := { p with payload := b }

/-- default `set_from_message`: code via its byte, options one by one in
iteration order, payload -/
def setFromMessage (dst src : Packet) : Packet :=
  let d1 := setCode dst (MessageClass.ofU8 (MessageClass.toU8 (code src)))
  let d2 := (options src).foldl (fun d o => addOption d o.1 o.2) d1
  setPayload d2 (payload src)

/-! ### `MutableWritableMessage` (0.2 and 0.3; 0.2 additionally has `payload_mut`) -/

/-- `available_space()` = `usize::MAX` (64-bit target) -/
def availableSpace (_p : Packet) : Nat := 2 ^ 64 - 1

/-- `truncate(length)`: `Vec::truncate` on the payload -/
def truncate (p : Packet) (len : Nat) : Packet := { p with payload := p.payload.take len }

/-- `Vec::resize(len, 0)` -/
def resize0 (b : Bytes) (len : Nat) : Bytes := b.take len ++ List.replicate (len - b.length) 0

/-- `payload_mut_with_len(len)`: resize with zeros, then the caller writes through the returned
slice; `w` is the caller's (length-preserving) write -/
def payloadMutWithLen (p : Packet) (len : Nat) (w : Bytes → Bytes) : Packet :=
  { p with payload := w (resize0 p.payload len) }

/-- `payload_mut()` (0.2): the caller writes through the slice -/
def payloadMut (p : Packet) (w : Bytes → Bytes) : Packet := { p with payload := w p.payload }

/-- the option number a `mutate_options` callback is handed: `number.into()` (u16 → CoapOption) -/
def cbNumber (n : Nat) : Nat := CoapOption.toU16 (CoapOption.ofU16 n)

/-- `mutate_options(callback)`: the callback is applied to every value in place, map order
then list order; `f num value` is the caller's (length-preserving) write -/
def mutateOptions (p : Packet) (f : Nat → Bytes → Bytes) : Packet :=
  { p with options := p.options.map (fun kv => (kv.1, kv.2.map (f (cbNumber kv.1)))) }

/-- the sequence of (number, value) pairs the callback is invoked with -/
def mutateCalls (p : Packet) : List (Nat × Bytes) :=
  p.options.flatten.map (fun o => (cbNumber o.1, o.2))

end MsgView
end CoapLite
