/-
A LOW-LEVEL model of `Packet::to_bytes_internal` (src/packet.rs), the counterpart of `Model/CodecLow.lean`
for the serialiser. `Model/Codec.lean` (`enc`) computes in `Nat` and appends lists, so "no addition
overflows, no raw copy writes outside the allocation, `set_len` never exceeds the capacity" has no content
there. Here it has:

* a `Vec<u8>` is its initialised bytes plus a capacity; `reserve(n)` guarantees `len + n` (the addition
  at `usize` width – Rust panics with "capacity overflow" otherwise), `push` grows when full;
* the `unsafe` block – two `ptr::copy` into the spare capacity followed by `set_len` – is ONE step
  (`appendRaw2`) that checks every precondition those calls have: each destination range
  `[off, off + count)` lies within the capacity, the offsets are computed at `usize` width, the new
  length does not exceed the capacity. A violated precondition is undefined behaviour in Rust; the model
  makes it `panic`, so "never panics" below includes "never writes outside the allocation";
* `number - options_delta_length` and `options_delta_length += delta` are `u16` operations that panic on
  underflow / overflow; the `as u8` conversions truncate; `u16::try_from(len - 269)` fails for values
  longer than 65 804 bytes; the size sums are `usize` additions.

Guards and statements are in the order of the source. `Lemmas/CodecEncLow.lean` proves
`encLow p limit = enc p limit` for every message whose option map is what a `BTreeMap<u16, _>` can be
(numbers ascending, ≤ 65535) and whose total size is below 2^63, hence `encLow p limit ≠ panic`.
-/
import CoapLite.Model.CodecLow

namespace CoapLite
namespace CodecEncLow
open Codec CodecLow

structure Vec where
  data : Bytes
  cap : Nat
  deriving Repr

/-- `Vec::new()` -/
def Vec.empty : Vec := { data := [], cap := 0 }

/-- `Vec::with_capacity(n)`: panics ("capacity overflow") beyond `isize::MAX` -/
def Vec.withCapacity (n : Nat) : Res Vec :=
  if n < 2 ^ 63 then .ok { data := [], cap := n } else .panic

/-- `v.push(b)`: grows the allocation when it is full (safe code) -/
def Vec.push (v : Vec) (b : UInt8) : Vec :=
  { data := v.data ++ [b], cap := max v.cap (v.data.length + 1) }

/-- `v.reserve(additional)` -/
def Vec.reserve (v : Vec) (additional : Nat) : Res Vec :=
  match addW usizeBits v.data.length additional with
  | .ok n => if n < 2 ^ 63 then .ok { v with cap := max v.cap n } else .panic
  | _ => .panic

/-- the `unsafe` block that appends two slices through raw pointers:
`ptr::copy(a, p.add(len), a.len()); ptr::copy(b, p.add(len + a.len()), b.len()); set_len(len + a.len() + b.len())` -/
def Vec.appendRaw2 (v : Vec) (a b : Bytes) : Res Vec :=
  let len := v.data.length
  -- first copy: destination [len, len + |a|)
  match addW usizeBits len a.length with
  | .ok off2 =>
    if off2 > v.cap then .panic                    -- write outside the allocation
    else
      -- second copy: destination [len + |a|, len + |a| + |b|)
      match addW usizeBits off2 b.length with
      | .ok newLen =>
        if newLen > v.cap then .panic              -- write outside the allocation / set_len beyond capacity
        else .ok { v with data := v.data ++ a ++ b }
      | _ => .panic
  | _ => .panic

/-- subtraction at a fixed width: panics on underflow -/
def subW (a b : Nat) : Res Nat := if b ≤ a then .ok (a - b) else .panic

/-- `x as u8` -/
def asU8 (x : Nat) : UInt8 := UInt8.ofNat (x % 256)

/-- the header byte as the source assembles it: `byte |= …` twice -/
def headerByte (delta len : Nat) : UInt8 :=
  let hi := if delta ≤ 12 then (delta * 16) % 256 else if delta < 269 then 13 * 16 else 14 * 16
  let lo := if len ≤ 12 then len % 256 else if len < 269 then 13 else 14
  UInt8.ofNat (hi ||| lo)

/-- the option header as the source assembles it in `header: Vec<u8>` (pushes into a vector with capacity
5; `push` is safe code): the nibble byte, the extended delta, the extended length -/
def optHeaderLow (delta len : Nat) : Res Bytes :=
  let h0 : Bytes := [headerByte delta len]
  -- extended delta
  let h1 : Bytes :=
    if delta > 12 ∧ delta < 269 then h0 ++ [asU8 (delta - 13)]
    else if delta ≥ 269 then
      let fix := delta - 269
      h0 ++ [asU8 (fix / 256), asU8 (fix % 256)]      -- (fix >> 8) as u8, (fix & 0xFF) as u8
    else h0
  -- extended length
  if len > 12 ∧ len < 269 then .ok (h1 ++ [asU8 (len - 13)])
  else if len ≥ 269 then
    -- u16::try_from(value.len() - 269).map_err(|_| InvalidOptionLength)?
    if len - 269 > 65535 then .err .invalidOptionLength
    else
      let fix := len - 269
      .ok (h1 ++ [asU8 (fix / 256), asU8 (fix % 256)])
  else .ok h1

/-- one option instance appended to `options_bytes`; `prev` is `options_delta_length`. Returns the
vector and the new `options_delta_length`. -/
def encOptLow (ob : Vec) (prev num : Nat) (v : Bytes) : Res (Vec × Nat) :=
  -- let delta = number - options_delta_length;            (u16)
  match subW num prev with
  | .ok delta =>
    match optHeaderLow delta v.length with
    | .ok header =>
      -- options_delta_length += delta;                     (u16)
      match addW 16 prev delta with
      | .ok prev' =>
        -- options_bytes.reserve(header.len() + value.len());
        match addW usizeBits header.length v.length with
        | .ok need =>
          match ob.reserve need with
          | .ok ob1 =>
            match ob1.appendRaw2 header v with
            | .ok ob2 => .ok (ob2, prev')
            | _ => .panic
          | _ => .panic
        | _ => .panic
      | _ => .panic
    | .err e => .err e
    | .panic => .panic
  | _ => .panic

/-- `for value in value_list.iter()` -/
def encValuesLow (ob : Vec) (prev num : Nat) : List Bytes → Res (Vec × Nat)
  | [] => .ok (ob, prev)
  | v :: vs =>
    match encOptLow ob prev num v with
    | .ok (ob', prev') => encValuesLow ob' prev' num vs
    | .err e => .err e
    | .panic => .panic

/-- `for (number, value_list) in self.options.iter()` -/
def encOptsLow (ob : Vec) (prev : Nat) : OptMap → Res Vec
  | [] => .ok ob
  | (num, vs) :: rest =>
    match encValuesLow ob prev num vs with
    | .ok (ob', prev') => encOptsLow ob' prev' rest
    | .err e => .err e
    | .panic => .panic

/-- the second half of `to_bytes_internal`: allocate `buf_length` bytes and fill them -/
def assemble (p : Packet) (ob : Bytes) (bufLength : Nat) : Res Bytes :=
  match Vec.withCapacity bufLength with
  | .ok buf0 =>
    -- serialize_into: `if buf.capacity() < 4 { return Err }`, then four pushes
    if buf0.cap < 4 then .err .invalidHeader
    else
      let buf1 := (headerBytes p.header).foldl Vec.push buf0
      -- buf.reserve(self.token.len() + options_bytes.len());
      match addW usizeBits p.token.length ob.length with
      | .ok need =>
        match buf1.reserve need with
        | .ok buf2 =>
          match buf2.appendRaw2 p.token ob with
          | .ok buf3 =>
            if sent p then
              let buf4 := buf3.push 0xFF
              match buf4.reserve p.payload.length with
              | .ok buf5 =>
                -- one copy at `buf.len()`, then set_len(buf_len + payload.len())
                match buf5.appendRaw2 p.payload [] with
                | .ok buf6 => .ok buf6.data
                | _ => .panic
              | _ => .panic
            else .ok buf3.data
          | _ => .panic
        | _ => .panic
      | _ => .panic
  | _ => .panic

/-- `buf_length`: `4 + token.len()`, `+= 1 + payload.len()` when a payload is sent, `+= options_bytes.len()` -/
def bufLengthLow (p : Packet) (obLen : Nat) : Res Nat :=
  match addW usizeBits 4 p.token.length with
  | .ok l0 =>
    let l1 : Res Nat :=
      if sent p then
        match addW usizeBits 1 p.payload.length with
        | .ok x => addW usizeBits l0 x
        | _ => .panic
      else .ok l0
    match l1 with
    | .ok l1 => addW usizeBits l1 obLen
    | _ => .panic
  | _ => .panic

/-- `to_bytes_internal(limit)` -/
def encLow (p : Packet) (limit : Option Nat) : Res Bytes :=
  match encOptsLow Vec.empty 0 p.options with
  | .ok ob =>
    match bufLengthLow p ob.data.length with
    | .ok bufLength =>
      -- if limit.is_some() && buf_length > limit.unwrap() { return Err(InvalidPacketLength) }
      let over := match limit with | some l => decide (bufLength > l) | none => false
      if over then .err .invalidPacketLength
      else assemble p ob.data bufLength
    | _ => .panic
  | .err e => .err e
  | .panic => .panic

end CodecEncLow
end CoapLite
