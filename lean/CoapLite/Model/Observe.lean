/-
Model of `src/observe.rs`: the `Subject` registry of observers per resource
path, notification-round accounting and `create_notification`.
`BTreeMap<String, Resource>` is an association list keyed by the path string
(iteration order is irrelevant: `acknowledge` treats every resource
independently); the per-observer counter is a `Nat` (after the D7 fix the
private counter is wider than the `u8` limit, and `count_le` in C15 shows it
never exceeds `limit + 1 ≤ 256`).
-/
import CoapLite.Model.Packet

namespace CoapLite
namespace Observe

structure Observer where
  endpoint : Nat
  token : Bytes
  unacked : Nat            -- unacknowledged_messages
  mid : Option Nat         -- message_id awaiting acknowledgement
  deriving DecidableEq, Repr, Inhabited

structure Resource where
  observers : List Observer
  sequence : Nat           -- u32
  deriving DecidableEq, Repr, Inhabited

structure Subject where
  resources : List (String × Resource)     -- at most one entry per path
  limit : Nat                              -- unacknowledged_limit : u8
  deriving DecidableEq, Repr, Inhabited

def Subject.default : Subject := { resources := [], limit := Consts.defaultUnackLimit }

def Subject.get (s : Subject) (path : String) : Option Resource :=
  (s.resources.find? (fun kv => kv.1 == path)).map (·.2)

/-- apply `f` to the resource stored under `path` (no-op if absent) -/
def modifyRes (rs : List (String × Resource)) (path : String) (f : Resource → Resource) :
    List (String × Resource) :=
  rs.map (fun kv => if kv.1 == path then (kv.1, f kv.2) else kv)

/-- `entry(path).or_insert(empty)` then `f` -/
def upsertRes (rs : List (String × Resource)) (path : String) (f : Resource → Resource) :
    List (String × Resource) :=
  if rs.any (fun kv => kv.1 == path) then modifyRes rs path f
  else rs ++ [(path, f { observers := [], sequence := 0 })]

/-- replace the first element satisfying `p` -/
def replaceFirst (p : Observer → Bool) (o : Observer) : List Observer → Option (List Observer)
  | [] => none
  | x :: xs => if p x then some (o :: xs) else (replaceFirst p o xs).map (x :: ·)

/-- remove the first element satisfying `p` -/
def removeFirst (p : Observer → Bool) : List Observer → List Observer
  | [] => []
  | x :: xs => if p x then xs else x :: removeFirst p xs

/-- `register`: same endpoint ⇒ replaced in place (fresh counter), else appended -/
def register (s : Subject) (ep : Nat) (path : String) (tok : Bytes) : Subject :=
  let o : Observer := { endpoint := ep, token := tok, unacked := 0, mid := none }
  { s with resources := upsertRes s.resources path (fun r =>
      match replaceFirst (fun x => x.endpoint == ep) o r.observers with
      | some l => { r with observers := l }
      | none => { r with observers := r.observers ++ [o] }) }

/-- `deregister`: removes the first observer whose endpoint and token both match -/
def deregister (s : Subject) (ep : Nat) (path : String) (tok : Bytes) : Subject :=
  { s with resources := modifyRes s.resources path (fun r =>
      { r with observers := removeFirst (fun x => x.endpoint == ep && x.token == tok) r.observers }) }

/-- `sequence.wrapping_add(1)` on the `u32` sequence number (after the D18 fix; RFC 7641 §3.4 and
§4.4: Observe sequence numbers wrap and are compared modulo) -/
def seqNext (n : Nat) : Nat := (n + 1) % 2 ^ 32

/-- `resource_changed(path, message_id, is_confirmable)` -/
def resourceChanged (s : Subject) (path : String) (mid : Nat) (con : Bool) : Subject :=
  { s with resources := modifyRes s.resources path (fun r =>
      let obs := r.observers.map (fun o =>
        { o with mid := some mid, unacked := if con then o.unacked + 1 else o.unacked })
      { sequence := seqNext r.sequence,
        observers := obs.filter (fun o => o.unacked ≤ s.limit) }) }

/-- reset the first observer (per resource) from `ep` whose pending id is `mid` -/
def ackFirst (ep mid : Nat) : List Observer → List Observer
  | [] => []
  | x :: xs =>
    if x.mid == some mid && x.endpoint == ep then { x with unacked := 0, mid := none } :: xs
    else x :: ackFirst ep mid xs

/-- `acknowledge(request)` with the request's source endpoint and message id -/
def acknowledge (s : Subject) (ep : Nat) (mid : Nat) : Subject :=
  { s with resources := s.resources.map (fun kv =>
      (kv.1, { kv.2 with observers := ackFirst ep mid kv.2.observers })) }

def setLimit (s : Subject) (l : Nat) : Subject := { s with limit := l }

inductive Op where
  | reg (ep : Nat) (path : String) (tok : Bytes)
  | dereg (ep : Nat) (path : String) (tok : Bytes)
  | chg (path : String) (mid : Nat) (con : Bool)
  | ack (ep : Nat) (mid : Nat)
  | limit (l : Nat)
  deriving DecidableEq, Repr

def step (s : Subject) : Op → Subject
  | .reg ep p t => register s ep p t
  | .dereg ep p t => deregister s ep p t
  | .chg p m c => resourceChanged s p m c
  | .ack ep m => acknowledge s ep m
  | .limit l => setLimit s l

def run (ops : List Op) : Subject := ops.foldl step Subject.default

/-- `create_notification(message_id, token, sequence, payload, is_confirmable)` -/
def createNotification (mid : Nat) (tok : Bytes) (seq : Nat) (payload : Bytes) (con : Bool) : Res Packet :=
  let p0 := Packet.new
  let h1 := (p0.header.setVersion 1).setType (if con then .Confirmable else .NonConfirmable)
  let p1 := { p0 with header := { h1 with code := .Response .Content, mid := mid } }
  match p1.setToken tok with
  | .ok p2 => ({ p2 with payload := payload }).setObserveValue seq
  | .err e => .err e
  | .panic => .panic

end Observe
end CoapLite
