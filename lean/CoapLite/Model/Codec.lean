/-
Model of `src/packet.rs`, part 2: `Packet::from_bytes` and
`Packet::to_bytes{,_with_limit,_unlimited}` (after the D1–D6 fixes: extended
deltas/lengths computed without narrowing, cumulative option number > 65535
and option values > 65804 bytes refused, payload counted only when sent).
-/
import CoapLite.Model.Packet

namespace CoapLite
namespace Codec

/-! ### encoder -/

/-- nibble for a delta / length: `<= 12` literal, `< 269` → 13, else 14 -/
def nibble (x : Nat) : Nat := if x ≤ 12 then x else if x < 269 then 13 else 14

/-- extension bytes for a delta / length -/
def ext (x : Nat) : Bytes :=
  if x ≤ 12 then []
  else if x < 269 then [UInt8.ofNat (x - 13)]
  else [UInt8.ofNat ((x - 269) / 256), UInt8.ofNat ((x - 269) % 256)]

/-- one option instance: header byte, extensions, value.
A value longer than 269 + 65535 bytes cannot be expressed and is refused. -/
def encOpt (prev num : Nat) (v : Bytes) : Res Bytes :=
  let delta := num - prev
  if v.length ≥ 269 ∧ v.length - 269 > 65535 then .err .invalidOptionLength
  else .ok (UInt8.ofNat (nibble delta * 16 + nibble v.length) :: (ext delta ++ ext v.length ++ v))

/-- the inner `for value in value_list` loop; returns bytes and the new
`options_delta_length` (unchanged when the list is empty) -/
def encValues (prev num : Nat) : List Bytes → Res (Bytes × Nat)
  | [] => .ok ([], prev)
  | v :: vs =>
    match encOpt prev num v with
    | .ok b =>
      match encValues num num vs with
      | .ok (bs, p') => .ok (b ++ bs, p')
      | .err e => .err e
      | .panic => .panic
    | .err e => .err e
    | .panic => .panic

/-- the outer `for (number, value_list) in self.options` loop -/
def encOpts (prev : Nat) : OptMap → Res Bytes
  | [] => .ok []
  | (num, vs) :: rest =>
    match encValues prev num vs with
    | .ok (b, p') =>
      match encOpts p' rest with
      | .ok bs => .ok (b ++ bs)
      | .err e => .err e
      | .panic => .panic
    | .err e => .err e
    | .panic => .panic

/-- is the payload (and its marker) put on the wire? -/
def sent (p : Packet) : Bool := p.header.code ≠ MessageClass.Empty ∧ p.payload ≠ []

def headerBytes (h : Header) : Bytes :=
  [h.vtt, UInt8.ofNat (MessageClass.toU8 h.code), UInt8.ofNat (h.mid / 256), UInt8.ofNat (h.mid % 256)]

/-- `to_bytes_internal(limit)` -/
def enc (p : Packet) (limit : Option Nat) : Res Bytes :=
  match encOpts 0 p.options with
  | .ok ob =>
    let len := 4 + p.token.length + ob.length + (if sent p then 1 + p.payload.length else 0)
    match limit with
    | some l =>
      if len > l then .err .invalidPacketLength
      else .ok (headerBytes p.header ++ p.token ++ ob ++ (if sent p then 0xFF :: p.payload else []))
    | none => .ok (headerBytes p.header ++ p.token ++ ob ++ (if sent p then 0xFF :: p.payload else []))
  | .err e => .err e
  | .panic => .panic

def toBytes (p : Packet) : Res Bytes := enc p (some Consts.maxSize)

/-! ### decoder -/

/-- read the extension of a delta (`isDelta`) or length nibble -/
def rdExt (isDelta : Bool) (nib : Nat) (bs : Bytes) : Res (Nat × Bytes) :=
  if nib = 13 then
    match bs with
    | b :: rest => .ok (b.toNat + 13, rest)
    | [] => .err .invalidOptionLength
  else if nib = 14 then
    match bs with
    | b1 :: b2 :: rest => .ok (b1.toNat * 256 + b2.toNat + 269, rest)
    | _ => .err .invalidOptionLength
  else if nib = 15 then
    .err (if isDelta then .invalidOptionDelta else .invalidOptionLength)
  else .ok (nib, bs)

theorem rdExt_length_le {d nib bs x rest} (h : rdExt d nib bs = .ok (x, rest)) :
    rest.length ≤ bs.length := by
  unfold rdExt at h
  split at h
  · split at h
    · simp only [Res.ok.injEq, Prod.mk.injEq] at h; obtain ⟨_, rfl⟩ := h; simp
    · simp at h
  · split at h
    · split at h
      · simp only [Res.ok.injEq, Prod.mk.injEq] at h; obtain ⟨_, rfl⟩ := h; simp; omega
      · simp at h
    · split at h
      · simp at h
      · simp only [Res.ok.injEq, Prod.mk.injEq] at h; obtain ⟨_, rfl⟩ := h; simp

/-- the option loop of `from_bytes` on the bytes after the token; returns the
options and the payload -/
def decOpts (prev : Nat) (acc : OptMap) (bs : Bytes) : Res (OptMap × Bytes) :=
  match bs with
  | [] => .ok (acc, [])
  | b :: rest =>
    if b = 255 then .ok (acc, rest)
    else
      match h1 : rdExt true (b.toNat / 16) rest with
      | .ok (delta, r1) =>
        match h2 : rdExt false (b.toNat % 16) r1 with
        | .ok (len, r2) =>
          let num := prev + delta
          if num > 65535 then .err .invalidOptionDelta
          else if len > r2.length then .err .invalidOptionLength
          else decOpts num (acc.add num (r2.take len)) (r2.drop len)
        | .err e => .err e
        | .panic => .panic
      | .err e => .err e
      | .panic => .panic
termination_by bs.length
decreasing_by
  have := rdExt_length_le h1
  have := rdExt_length_le h2
  simp only [List.length_drop, List.length_cons]
  omega

/-- `Packet::from_bytes` -/
def dec (buf : Bytes) : Res Packet :=
  match buf with
  | b0 :: b1 :: b2 :: b3 :: rest =>
    let tkl := (0x0F &&& b0).toNat
    if tkl > 8 then .err .invalidTokenLength
    else if tkl > rest.length then .err .invalidTokenLength
    else
      match decOpts 0 [] (rest.drop tkl) with
      | .ok (opts, pl) =>
        .ok { header := { vtt := b0, code := MessageClass.ofU8 b1.toNat, mid := b2.toNat * 256 + b3.toNat },
              token := rest.take tkl, options := opts, payload := pl }
      | .err e => .err e
      | .panic => .panic
  | _ => .err .invalidHeader

end Codec
end CoapLite
