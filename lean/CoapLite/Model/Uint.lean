/-
Model of `src/option_value.rs`: `option_from_uint`, `option_to_uint`
(minimal big-endian unsigned integers) and the UTF-8 string option value.
-/
import CoapLite.Basic

namespace CoapLite

/-- the `while draining_value > 0` loop of `option_from_uint`.  The Rust code
pushes the low byte (little endian) and reverses at the end; the model conses
onto the big-endian accumulator, which is the same list.  `assert!(output.len()
< value_size)` is the `panic` branch. -/
def drainUint (w : Nat) (v : Nat) (acc : Bytes) : Res Bytes :=
  if h : v = 0 then .ok acc
  else if acc.length < w then drainUint w (v / 256) (UInt8.ofNat (v % 256) :: acc)
  else .panic
termination_by v
decreasing_by omega

/-- `option_from_uint(value, value_size)` -/
def optionFromUint (v : Nat) (w : Nat) : Res Bytes :=
  if v = 0 then .ok []
  else if v < 256 then .ok [UInt8.ofNat v]
  else drainUint w v []

/-- `option_to_uint(encoded, value_size)`: more bytes than the width is an
error, otherwise the big-endian value (leading zeros allowed). -/
def optionToUint (bs : Bytes) (w : Nat) : Res Nat :=
  if bs.length > w then .err .other else .ok (beValue bs)

end CoapLite
