/-
A LOW-LEVEL model of `Packet::from_bytes` (src/packet.rs): the buffer is read through an index cursor,
every read `buf[i]` and every slice `buf[a..b]` is a partial operation that PANICS outside the buffer,
and every addition is done at the width of the Rust type that holds it and PANICS on overflow (that is
what a build with overflow checks does; a build without them would wrap – proving that no addition
overflows makes the two builds agree). Guards and statements are in the order of the source.

`Model/Codec.lean` (`dec`) is the high-level model the driver runs and the codec theorems are about; it
pattern-matches on lists and computes in `Nat`, so "never panics, never overflows, never reads outside
the buffer" has no content there. Here it has: `Lemmas/CodecLow.lean` proves `decLow b = dec b` for
every buffer a Rust slice can be (`b.length < 2^63`), hence `decLow b ≠ panic`.
-/
import CoapLite.Model.Codec

namespace CoapLite
namespace CodecLow
open Codec

/-- `buf[i]`: panics when `i` is outside the buffer -/
def rd (buf : Bytes) (i : Nat) : Res UInt8 :=
  match buf[i]? with
  | some b => .ok b
  | none => .panic

/-- `buf[a..b].to_vec()`: panics unless `a ≤ b ≤ len` -/
def slice (buf : Bytes) (a b : Nat) : Res Bytes :=
  if a ≤ b ∧ b ≤ buf.length then .ok ((buf.drop a).take (b - a)) else .panic

/-- addition at a fixed width: panics on overflow -/
def addW (bits : Nat) (a b : Nat) : Res Nat :=
  if a + b < 2 ^ bits then .ok (a + b) else .panic

/-- `usize` is 64 bits on the targets the harness builds for -/
def usizeBits : Nat := 64

/-- one extension field. `isDelta`: the delta is computed in `u32`, the length in `usize`.
Returns the value and the new cursor. -/
def rdExtLow (isDelta : Bool) (buf : Bytes) (nib idx : Nat) : Res (Nat × Nat) :=
  let bits := if isDelta then 32 else usizeBits
  if nib = 13 then
    -- `if idx >= buf.len() { return Err(InvalidOptionLength) }`
    if idx ≥ buf.length then .err .invalidOptionLength
    else
      match rd buf idx with                                    -- buf[idx]
      | .ok b =>
        match addW bits b.toNat 13, addW usizeBits idx 1 with   -- `.. + 13`, `idx += 1`
        | .ok v, .ok i' => .ok (v, i')
        | _, _ => .panic
      | _ => .panic
  else if nib = 14 then
    -- `if idx + 1 >= buf.len() { return Err(InvalidOptionLength) }`
    match addW usizeBits idx 1 with
    | .ok i1 =>
      if i1 ≥ buf.length then .err .invalidOptionLength
      else
        match rd buf idx, rd buf i1 with                       -- u8_to_unsigned_be!(buf, idx, idx + 1, u16)
        | .ok b1, .ok b2 =>
          -- a u16 assembled from two bytes cannot overflow; widened, then `+ 269`
          match addW bits (b1.toNat * 256 + b2.toNat) 269, addW usizeBits idx 2 with
          | .ok v, .ok i' => .ok (v, i')
          | _, _ => .panic
        | _, _ => .panic
    | _ => .panic
  else if nib = 15 then
    .err (if isDelta then .invalidOptionDelta else .invalidOptionLength)
  else .ok (nib, idx)

/-- the option loop: `while idx < buf.len() { … }`; `fuel` bounds the iterations (each one advances
the cursor). Returns the options and the final cursor. -/
def loopLow (buf : Bytes) : Nat → Nat → Nat → OptMap → Res (OptMap × Nat)
  | 0, _, _, _ => .panic                                        -- out of fuel: never reached (theorem)
  | fuel + 1, idx, number, acc =>
    if ¬ idx < buf.length then .ok (acc, idx)
    else
      match rd buf idx with                                      -- let byte = buf[idx];
      | .ok byte =>
        if byte = 255 then .ok (acc, idx)                        -- `|| idx > buf.len()` is dead code
        else
          match addW usizeBits idx 1 with                        -- idx += 1;
          | .ok i1 =>
            match rdExtLow true buf (byte.toNat / 16) i1 with
            | .ok (delta, i2) =>
              match rdExtLow false buf (byte.toNat % 16) i2 with
              | .ok (len, i3) =>
                match addW 32 number delta with                  -- options_number += delta;  (u32)
                | .ok n' =>
                  if n' > 65535 then .err .invalidOptionDelta    -- u16::try_from(options_number)
                  else
                    match addW usizeBits i3 len with             -- let end = idx + length;
                    | .ok e =>
                      if e > buf.length then .err .invalidOptionLength
                      else
                        match slice buf i3 e with                -- buf[idx..end].to_vec()
                        | .ok v => loopLow buf fuel e n' (acc.add n' v)   -- idx += length;
                        | _ => .panic
                    | _ => .panic
                | _ => .panic
              | .err er => .err er
              | .panic => .panic
            | .err er => .err er
            | .panic => .panic
          | _ => .panic
      | _ => .panic

/-- `Packet::from_bytes(buf)` -/
def decLow (buf : Bytes) : Res Packet :=
  -- HeaderRaw::try_from: `if buf.len() < 4 { Err }`, then buf[0], buf[1], buf[2..4]
  if buf.length < 4 then .err .invalidHeader
  else
    match rd buf 0, rd buf 1, rd buf 2, rd buf 3 with
    | .ok b0, .ok b1, .ok b2, .ok b3 =>
      let tkl := (0x0F &&& b0).toNat                              -- header.get_token_length()
      match addW usizeBits 4 tkl with                             -- let options_start = 4 + token_length as usize;
      | .ok start =>
        if tkl > 8 then .err .invalidTokenLength
        else if start > buf.length then .err .invalidTokenLength
        else
          match slice buf 4 start with                            -- buf[4..options_start].to_vec()
          | .ok token =>
            match loopLow buf (buf.length + 1) start 0 [] with
            | .ok (opts, idx) =>
              -- let payload = if idx < buf.len() { buf[(idx + 1)..buf.len()].to_vec() } else { Vec::new() };
              let payload : Res Bytes :=
                if idx < buf.length then
                  match addW usizeBits idx 1 with
                  | .ok i1 => slice buf i1 buf.length
                  | _ => .panic
                else .ok []
              match payload with
              | .ok pl =>
                .ok { header := { vtt := b0, code := MessageClass.ofU8 b1.toNat, mid := b2.toNat * 256 + b3.toNat },
                      token := token, options := opts, payload := pl }
              | _ => .panic
            | .err e => .err e
            | .panic => .panic
          | _ => .panic
      | _ => .panic
    | _, _, _, _ => .panic

end CodecLow
end CoapLite
