/-
Model of `src/packet.rs`, part 1: the `Packet` structure and its public
mutators / accessors.  `BTreeMap<u16, LinkedList<Vec<u8>>>` is modelled as an
association list kept strictly sorted by key (`OptMap`); sortedness is a
separate invariant (`OptMap.Sorted`, proved preserved in Lemmas/Packet.lean),
not a subtype.
-/
import CoapLite.Model.Header
import CoapLite.Model.Uint

namespace CoapLite

abbrev OptMap := List (Nat × List Bytes)

namespace OptMap

/-- `BTreeMap::get` -/
def get (m : OptMap) (k : Nat) : Option (List Bytes) :=
  match m with
  | [] => none
  | (k', v) :: rest => if k' = k then some v else get rest k

/-- `BTreeMap::insert` (replace or sorted insert) -/
def insert (m : OptMap) (k : Nat) (v : List Bytes) : OptMap :=
  match m with
  | [] => [(k, v)]
  | (k', v') :: rest =>
    if k < k' then (k, v) :: (k', v') :: rest
    else if k = k' then (k, v) :: rest
    else (k', v') :: insert rest k v

/-- apply `f` to the value list stored under `k` (no-op if absent): the
`get_mut(..)` + in-place mutation idiom -/
def modify (m : OptMap) (k : Nat) (f : List Bytes → List Bytes) : OptMap :=
  match m with
  | [] => []
  | (k', v) :: rest => if k' = k then (k', f v) :: rest else (k', v) :: modify rest k f

/-- `add_option`: push to the existing list, else insert a singleton;
also `entry(k).or_default().push_back(v)` -/
def add (m : OptMap) (k : Nat) (v : Bytes) : OptMap :=
  match get m k with
  | some _ => modify m k (fun l => l ++ [v])
  | none => insert m k [v]

def Sorted : OptMap → Prop
  | [] => True
  | [_] => True
  | (a, _) :: (b, vb) :: rest => a < b ∧ Sorted ((b, vb) :: rest)

instance Sorted.instDecidable : (m : OptMap) → Decidable (Sorted m)
  | [] => isTrue trivial
  | [_] => isTrue trivial
  | (a, _) :: (b, vb) :: rest =>
    have := Sorted.instDecidable ((b, vb) :: rest)
    inferInstanceAs (Decidable (a < b ∧ Sorted ((b, vb) :: rest)))

/-- the flattening iterator of the coap-message views (`MessageOptionAdapter`) -/
def flatten (m : OptMap) : List (Nat × Bytes) :=
  m.flatMap (fun kv => kv.2.map (fun v => (kv.1, v)))

end OptMap

structure Packet where
  header : Header
  token : Bytes
  options : OptMap
  payload : Bytes
  deriving DecidableEq, Repr, Inhabited

namespace Packet

/-- `Packet::new()` -/
def new : Packet := { header := Header.default, token := [], options := [], payload := [] }

/-- `set_token`: `header.set_token_length(token.len() as u8)` (panics through
the `assert_eq!` when the truncated length has a high nibble), then stores. -/
def setToken (p : Packet) (tok : Bytes) : Res Packet :=
  match p.header.setTkl (UInt8.ofNat (tok.length % 256)) with
  | .ok h => .ok { p with header := h, token := tok }
  | .err e => .err e
  | .panic => .panic

def setOption (p : Packet) (num : Nat) (vs : List Bytes) : Packet :=
  { p with options := p.options.insert num vs }

def getOption (p : Packet) (num : Nat) : Option (List Bytes) := p.options.get num

def getFirstOption (p : Packet) (num : Nat) : Option Bytes :=
  match p.options.get num with
  | some (v :: _) => some v
  | _ => none

def addOption (p : Packet) (num : Nat) (v : Bytes) : Packet :=
  { p with options := p.options.add num v }

/-- `clear_option`: empties the list but keeps the key -/
def clearOption (p : Packet) (num : Nat) : Packet :=
  { p with options := p.options.modify num (fun _ => []) }

def clearAllOptions (p : Packet) : Packet := { p with options := [] }

/-! typed accessors (`*_as::<OptionValueU..>`): width in bytes -/

def addOptionUint (p : Packet) (num : Nat) (w : Nat) (x : Nat) : Res Packet :=
  (optionFromUint x w).map (fun bs => p.addOption num bs)

def getOptionsUint (p : Packet) (num : Nat) (w : Nat) : Option (List (Res Nat)) :=
  (p.getOption num).map (fun l => l.map (fun bs => optionToUint bs w))

def getFirstOptionUint (p : Packet) (num : Nat) (w : Nat) : Option (Res Nat) :=
  (p.getFirstOption num).map (fun bs => optionToUint bs w)

/-- `set_options_as`: convert every element, then `set_option` -/
def setOptionsUint (p : Packet) (num : Nat) (w : Nat) (xs : List Nat) : Res Packet :=
  let rec go : List Nat → Res (List Bytes)
    | [] => .ok []
    | x :: rest =>
      match optionFromUint x w, go rest with
      | .ok b, .ok bs => .ok (b :: bs)
      | .panic, _ => .panic
      | _, .panic => .panic
      | .err e, _ => .err e
      | _, .err e => .err e
  (go xs).map (fun vs => p.setOption num vs)

/-- `set_content_format` (after the D10 fix: replaces instead of appending) -/
def setContentFormat (p : Packet) (cf : ContentFormat) : Res Packet :=
  let n := cf.toUsize
  if n > 65535 then .panic      -- `u16::try_from(..).unwrap()`
  else (p.clearOption (CoapOption.toU16 .ContentFormat)).addOptionUint (CoapOption.toU16 .ContentFormat) 2 n

/-- `get_content_format` -/
def getContentFormat (p : Packet) : Option ContentFormat :=
  match p.getFirstOptionUint (CoapOption.toU16 .ContentFormat) 2 with
  | some (.ok v) => ContentFormat.ofUsize? v
  | _ => none

/-- `set_observe_value` -/
def setObserveValue (p : Packet) (v : Nat) : Res Packet :=
  (p.clearOption (CoapOption.toU16 .Observe)).addOptionUint (CoapOption.toU16 .Observe) 4 v

/-- `get_observe_value` -/
def getObserveValue (p : Packet) : Option (Res Nat) :=
  p.getFirstOptionUint (CoapOption.toU16 .Observe) 4

end Packet
end CoapLite
