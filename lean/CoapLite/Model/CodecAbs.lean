/-
Abstraction from the model's `Packet` to the RFC-level abstract message
(`Spec.Msg`) and the well-formedness predicate under which a `Packet` denotes
one.  Shared by the C01–C04 theorem files.
-/
import CoapLite.Model.Codec
import CoapLite.Spec.Wire

namespace CoapLite
namespace Codec

/-- the abstract message a packet denotes: empty option lists left behind by
`clear_option` vanish, and the payload of a packet that does not send one
(0.00 Empty) is absent -/
def toMsg (p : Packet) : Spec.Msg :=
  { ver := p.header.vtt.toNat / 64,
    typ := p.header.vtt.toNat / 16 % 4,
    code := MessageClass.toU8 p.header.code,
    mid := p.header.mid,
    token := p.token,
    opts := p.options.flatten,
    payload := if sent p then p.payload else [] }

/-- what the public API guarantees (or, for the token-length nibble, what holds
after `set_token`): decidable, and satisfied by every packet `from_bytes`
returns (theorem `dec_wf` in C03). -/
def PktWF (p : Packet) : Prop :=
  p.token.length ≤ 8 ∧
  (0x0F &&& p.header.vtt).toNat = p.token.length ∧
  p.header.mid < 65536 ∧
  MessageClass.toU8 p.header.code < 256 ∧
  p.options.Sorted ∧
  (∀ kv ∈ p.options, kv.1 ≤ 65535 ∧ ∀ v ∈ kv.2, v.length ≤ 65804)

instance (p : Packet) : Decidable (PktWF p) := by unfold PktWF; exact inferInstance

/-- every option value fits the 16-bit extended length field -/
def AllFit (p : Packet) : Prop := ∀ kv ∈ p.options, ∀ v ∈ kv.2, v.length ≤ 65804

/-- number of extension bytes a delta/length nibble announces -/
def extBytesOf (nib : Nat) : Nat := if nib = 13 then 1 else if nib = 14 then 2 else 0

end Codec
end CoapLite
