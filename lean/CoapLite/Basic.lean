/-
Common vocabulary of the executable model.

`Res α` is the outcome of a modelled Rust call: `ok`, a reported error
(`err`, carrying a small error-kind enum), or `panic` (index out of bounds,
`unwrap` on `None`, `assert!`, division by zero, arithmetic overflow with
overflow-checks on, ...).  "Never panics" is therefore an ordinary theorem
about the model rather than an artefact of Lean's totality.
-/
namespace CoapLite

/-- error kinds (`MessageError` of the crate plus a catch-all) -/
inductive Err where
  | invalidHeader | invalidPacketLength | invalidTokenLength
  | invalidOptionDelta | invalidOptionLength | other
  deriving DecidableEq, Repr, Inhabited

def Err.name : Err → String
  | .invalidHeader => "InvalidHeader"
  | .invalidPacketLength => "InvalidPacketLength"
  | .invalidTokenLength => "InvalidTokenLength"
  | .invalidOptionDelta => "InvalidOptionDelta"
  | .invalidOptionLength => "InvalidOptionLength"
  | .other => "Other"

inductive Res (α : Type) where
  | ok : α → Res α
  | err : Err → Res α
  | panic : Res α
  deriving DecidableEq, Repr, Inhabited

namespace Res
def bind {α β} (r : Res α) (f : α → Res β) : Res β :=
  match r with
  | ok a => f a
  | err e => err e
  | panic => panic

def map {α β} (f : α → β) (r : Res α) : Res β :=
  match r with
  | ok a => ok (f a)
  | err e => err e
  | panic => panic

def isOk {α} : Res α → Bool
  | ok _ => true
  | _ => false

def isErr {α} : Res α → Bool
  | err _ => true
  | _ => false
end Res

abbrev Bytes := List UInt8

/-- big-endian value of a byte string -/
def beValue : Bytes → Nat
  | bs => bs.foldl (fun acc b => acc * 256 + b.toNat) 0

end CoapLite
