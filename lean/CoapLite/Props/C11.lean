/-
C11 — Block handler survives hostile traffic: no panic, bounded buffers, clean
errors.  Model: Model/Block.lean, in which every `expect`, division, `chunks`,
shift, slice and conversion of the Rust code is an explicit failure point.
-/
import CoapLite.Lemmas.Shape.Api
import CoapLite.Lemmas.BlockTrace
import CoapLite.Lemmas.SpliceLow
import CoapLite.Lemmas.Shape.Block
import CoapLite.Lemmas.Shape.BlockValue
import CoapLite.Lemmas.Shape.Request
import CoapLite.Lemmas.Shape.Packet
import CoapLite.Lemmas.Shape.Global

namespace CoapLite.C11
open CoapLite Block

/-- for every request (any options, block numbers, size exponents, payloads,
message types – with or without a prepared reply), every cached state and every
budget from 0 upward, the core of `intercept_request` returns normally -/
theorem request_never_panics (M : Nat) (req : Request) (st : BlockState) :
    (coreRequest M req st).2.2 ≠ .panic :=
  coreRequest_never_panics M req st

/-- … and so does the core of `intercept_response`, for every application reply -/
theorem response_never_panics (M : Nat) (req : Request) (st : BlockState) :
    (coreResponse M req st).2.2 ≠ .panic :=
  coreResponse_never_panics M req st

/-- … hence the entry points themselves, in every reachable handler state -/
theorem entry_points_never_panic (h : Handler) (now : Nat) (req : Request) (hi : Lru.Inv h.cache now) :
    (interceptRequest h now req).2.2 ≠ .panic ∧ (interceptResponse h now req).2.2 ≠ .panic := by
  constructor
  · rw [(interceptRequest_eq h now req hi).2.1]; exact coreRequest_never_panics _ _ _
  · rw [(interceptResponse_eq h now req hi).2.1]; exact coreResponse_never_panics _ _ _

/-- the error values of the model carry the codes the source's constructors carry
(`HandlingErrorCode.*` is regenerated from `src/error.rs` on every run) -/
theorem error_codes_match_source :
    (internal : HRes Unit) = .herr HandlingErrorCode.internal ∧
    (badRequest : HRes Unit) = .herr HandlingErrorCode.badRequest ∧
    (notHandled : HRes Unit) = .herr HandlingErrorCode.notHandled ∧
    (∀ rt, HandlingErrorCode.notFound = some rt → MessageClass.toU8 (.Response rt) ≥ 0x80) ∧
    (∀ rt, HandlingErrorCode.methodNotSupported = some rt → MessageClass.toU8 (.Response rt) ≥ 0x80) := by
  refine ⟨rfl, rfl, rfl, ?_, ?_⟩ <;> intro rt h <;> cases h <;> decide

/-- a situation the handler cannot serve is a handling error that can be
rendered as a 4.xx/5.xx reply: coded errors are exactly 4.00 Bad Request or 5.00 Internal Server Error (never a 6.xx/7.xx byte); the code-less
`not_handled` occurs only when no reply was prepared (nothing to render into) -/
theorem errors_renderable (M : Nat) (req : Request) (st : BlockState) (c : Option ResponseType)
    (h : (coreRequest M req st).2.2 = .herr c ∨ (coreResponse M req st).2.2 = .herr c) :
    (c = none → req.response = none) ∧
    (∀ rt, c = some rt → (rt = .InternalServerError ∨ rt = .BadRequest) ∧
      (MessageClass.toU8 (.Response rt) = 0xA0 ∨ MessageClass.toU8 (.Response rt) = 0x80)) := by
  have key : (c = none → req.response = none) ∧
      (∀ rt, c = some rt → rt = .InternalServerError ∨ rt = .BadRequest) := by
    rcases h with h | h
    · exact coreRequest_err M req st c h
    · exact coreResponse_err M req st c h
  refine ⟨key.1, ?_⟩
  intro rt hrt
  refine ⟨key.2 rt hrt, ?_⟩
  rcases key.2 rt hrt with h | h <;> subst h <;> decide

/-- no single request makes the buffered upload for its resource grow by more
than 16 KiB beyond that request's own payload -/
theorem buffer_growth_bounded (M : Nat) (req : Request) (st : BlockState) :
    ((coreRequest M req st).2.1.cachedPayload.getD []).length ≤
      (st.cachedPayload.getD []).length + 16384 + req.message.payload.length := by
  have := coreRequest_buffer_growth M req st
  simpa [Consts.maxUncommittedReserve] using this

theorem reserve_is_16k : Consts.maxUncommittedReserve = 16 * 1024 := by decide

/-- a block whose offset would need a larger jump is rejected (5.00) and leaves
the buffered data unchanged -/
theorem oversize_jump_rejected (M : Nat) (req : Request) (st : BlockState) (rb1 resp1 : BlockValue)
    (size : Nat)
    (hb : firstBlock req.message block1Num = some rb1)
    (hsz : computeMessageSize req.message = .ok size)
    (hn : negotiate (some rb1) size req.message.payload.length M = .ok (some resp1))
    (hjump : rb1.num * rb1.size + rb1.size - (st.cachedPayload.getD []).length > 16384) :
    (coreRequest M req st).2.2 = .herr (some .InternalServerError) ∧
    (coreRequest M req st).2.1.cachedPayload.getD [] = st.cachedPayload.getD [] :=
  coreRequest_oversize_jump M req st rb1 resp1 size hb hsz hn (by simpa [Consts.maxUncommittedReserve] using hjump)

/-! non-vacuity: the former panic sites (budget = overhead + 12 with a block
option; zero budget) are errors now -/
example : negotiate (some { num := 0, more := true, szx := 0 }) 26 16 22 = .herr (some .InternalServerError) := by
  decide
example : negotiate none 10 0 0 = .herr (some .InternalServerError) := by decide

/-- `extending_splice` at the level of `Vec::splice`'s own preconditions (`splice` panics when `start > end` or
`end > len`): for the range the handler passes – `num · size .. num · size + size` – the low-level function
equals the model's and never panics, whatever the buffer, the block number, the size, the payload and the
reserve -/
theorem block1_splice_never_panics (dst : Bytes) (num size : Nat) (payload : Bytes) (maxReserve : Nat) :
    extendingSpliceLow dst (num * size) (num * size + size) payload maxReserve =
      .ok (extendingSplice dst (num * size) (num * size + size) payload maxReserve) ∧
    extendingSpliceLow dst (num * size) (num * size + size) payload maxReserve ≠ .panic :=
  ⟨extendingSpliceLow_eq _ _ _ _ _ (Nat.le_add_right _ _), Block.block1_splice_never_panics dst num size payload maxReserve⟩

/-- … and the premise is not idle: a reversed range panics -/
example : extendingSpliceLow [1, 2, 3] 2 1 [9] 16 = .panic := by decide

/-! ### tie to the source: the state the model carries is the state the code carries

`Shapes.*` (Generated/Shapes.lean) is re-read from /repo/src on every run: the field lists of the
structs this property's model mirrors, and every construct that introduces state outside the values
the API passes around (thread-locals, `static mut`, cells, locks, atomics). The model accounts for
exactly these fields (Lemmas/Shape/*.lean say which model field mirrors which); a field or a
global added to the code – a memo, a marker, a digest in place of the data – breaks this theorem
even if no explored input behaves differently. -/
theorem state_shape_matches_source :
    Shapes.globalState = [] ∧
    Shapes.blockHandler = [("config", "BlockHandlerConfig"), ("states", "LruCache<RequestCacheKey<Endpoint>,BlockState>")] ∧
    Shapes.blockHandlerConfig = [("cache_expiry_duration", "Duration"), ("max_total_message_size", "usize")] ∧
    Shapes.requestCacheKey = [("path", "Vec<Vec<u8>>"), ("request_type_ord", "u8"), ("requester", "Option<Endpoint>")] ∧
    Shapes.blockState = [("cached_request_payload", "Option<Vec<u8>>"), ("cached_response", "Option<Packet>"),
     ("cached_response_size_exponent", "Option<u8>"), ("last_request_block2", "Option<BlockValue>")] ∧
    Shapes.blockValue = [("more", "bool"), ("num", "u16"), ("size_exponent", "u8")] ∧
    Shapes.coapRequest = [("message", "Packet"), ("response", "Option<CoapResponse>"), ("source", "Option<Endpoint>")] ∧
    Shapes.coapResponse = [("message", "Packet")] ∧
    Shapes.packet = [("header", "Header"), ("options", "BTreeMap<u16,LinkedList<Vec<u8>>>"), ("payload", "Vec<u8>"), ("token", "Vec<u8>")] ∧
    Shapes.header = [("code", "MessageClass"), ("message_id", "u16"), ("ver_type_tkl", "u8")] ∧
    Shapes.headerRaw = [("code", "u8"), ("message_id", "u16"), ("ver_type_tkl", "u8")] :=
  ⟨ShapeTie.no_global_state, ShapeTie.blockHandler, ShapeTie.blockHandlerConfig, ShapeTie.requestCacheKey, ShapeTie.blockState, ShapeTie.blockValue, ShapeTie.coapRequest, ShapeTie.coapResponse, ShapeTie.packet, ShapeTie.header, ShapeTie.headerRaw⟩

/-- the public entry points of the modelled source files – re-read from /repo/src on every run – are
exactly the ones the model was written against (`Lemmas/Shape/Api.lean`): a new public way to change the
state this property is about, or a receiver that became `&mut self`, breaks this theorem -/
theorem api_surface_matches_source :
    Shapes.apiBlockHandler = ShapeTie.expectedApiBlockHandler ∧
    Shapes.apiBlockValue = ShapeTie.expectedApiBlockValue :=
  ⟨ShapeTie.apiBlockHandler, ShapeTie.apiBlockValue⟩

end CoapLite.C11
