/-
C09 — Block1: uploaded blocks are reassembled into exactly the body sent.
Model: `coreRequest` (Model/Block.lean) folded over the delivery sequence.

KNOWN FINDING K1 (recorded in known_findings.json, not repaired): the clause
"the final block reaches the application exactly once" is false of code and
model alike when the FINAL block is re-delivered: the buffer was released by
the first delivery, so the second one reaches the application again (with a
zero-filled prefix when its number is ≥ 1).  `final_redelivery_reaches_app`
proves that negation on a concrete witness; the theorems below are the full
statement for every delivery sequence in which the final block is delivered
once (`…_partial` in the sense of DESIGN.md).
-/
import CoapLite.Lemmas.Shape.Api
import CoapLite.Lemmas.BlockTransfer
import CoapLite.Lemmas.Upload
import CoapLite.Lemmas.BlockFitsRange
import CoapLite.Lemmas.BlockSession
import CoapLite.Lemmas.Shape.Block
import CoapLite.Lemmas.Shape.BlockValue
import CoapLite.Lemmas.Shape.Request
import CoapLite.Lemmas.Shape.Packet
import CoapLite.Lemmas.Shape.Global

namespace CoapLite.C09
open CoapLite Block

/-- every non-final block – first delivery, consecutive re-delivery, and for
block 0 regardless of what an abandoned earlier upload left in the buffer – is
answered 2.31 Continue with a Block1 option echoing its number and the client's
size, without reaching the application, and leaves exactly the first `i+1`
blocks of the body buffered -/
theorem nonfinal_block (M : Nat) (B : Bytes) (szx i : Nat) (req : Request) (st : BlockState)
    (h : UploadReq M B szx i req) (hnf : i + 1 < nBlocks B (2 ^ (szx + 4)))
    (hbuf : i = 0 ∨ st.cachedPayload.getD [] = B.take (i * 2 ^ (szx + 4)) ∨
            st.cachedPayload.getD [] = B.take ((i + 1) * 2 ^ (szx + 4))) :
    ∃ req' st' resp' bs more',
      coreRequest M req st = (req', st', .ok true) ∧
      st'.cachedPayload = some (B.take ((i + 1) * 2 ^ (szx + 4))) ∧
      st'.cachedResponse = st.cachedResponse ∧
      req'.response = some resp' ∧ resp'.header.code = .Response .Continue ∧
      ({ num := i, more := more', szx := szx } : BlockValue).enc = .ok bs ∧
      (resp'.getOption block1Num).map (·.getLast?) = some (some bs) ∧
      req'.message = req.message :=
  upload_nonfinal M B szx i req st h hnf hbuf

/-- for EVERY in-order delivery sequence of non-final blocks starting with block
0 (each block delivered any number of times in a row; any stale state before):
none reaches the application and the buffer holds exactly the blocks sent -/
theorem upload_prefix_partial (M : Nat) (B : Bytes) (szx : Nat) (st0 : BlockState)
    (d : Nat × Request) (ds : List (Nat × Request))
    (h0 : d.1 = 0) (hord : InOrder 0 (d :: ds))
    (hreq : ∀ x ∈ d :: ds, UploadReq M B szx x.1 x.2 ∧ x.1 + 1 < nBlocks B (2 ^ (szx + 4))) :
    let last := ((d :: ds).getLast?.map (·.1)).getD 0
    (runCore M st0 (d :: ds)).1.cachedPayload = some (B.take ((last + 1) * 2 ^ (szx + 4))) ∧
    ∀ o ∈ (runCore M st0 (d :: ds)).2, o.2 = .ok true :=
  upload_prefix M B szx st0 d ds h0 hord hreq

/-- the first delivery of the final block hands the application the complete
body byte for byte, releases the buffer, and its reply carries the Block1
acknowledgement -/
theorem final_block (M : Nat) (B : Bytes) (szx i : Nat) (req : Request) (st : BlockState)
    (h : UploadReq M B szx i req) (hf : i + 1 = nBlocks B (2 ^ (szx + 4)))
    (hbuf : i = 0 ∨ st.cachedPayload.getD [] = B.take (i * 2 ^ (szx + 4))) :
    (coreRequest M req st).1.message.payload = B ∧
    (coreRequest M req st).2.1.cachedPayload = none ∧
    ((firstBlock req.message block2Num = none ∨ st.cachedResponse = none) →
      ∃ resp' bs more',
        (coreRequest M req st).2.2 = .ok false ∧
        (coreRequest M req st).1.response = some resp' ∧
        ({ num := i, more := more', szx := szx } : BlockValue).enc = .ok bs ∧
        (resp'.getOption block1Num).map (·.getLast?) = some (some bs)) :=
  upload_final M B szx i req st h hf hbuf

/-- END TO END, for every body, block size and delivery schedule: `ds` are the deliveries of the
non-final blocks (in order from block 0, each any number of times in a row), `f` the single
delivery of the final block; `st0` is ANY prior state of the transfer's cache entry (e.g. what an
abandoned earlier upload left behind). No delivery in `ds` reaches the application (`ok true` =
answered by the handler), the transcript of the whole run is that of `ds` followed by the final
delivery, the request handed on by the final delivery carries exactly the body, and the buffer
is released. Composes `upload_prefix_partial` and `final_block` by induction over the
deliveries. ("Partial" only in K1's sense: the final block is delivered once.) -/
theorem upload_whole_body_partial (M : Nat) (B : Bytes) (szx : Nat) (st0 : BlockState)
    (ds : List (Nat × Request)) (f : Nat × Request)
    (hf1 : f.1 + 1 = nBlocks B (2 ^ (szx + 4)))
    (h0 : ∀ d ∈ (ds ++ [f]).head?, d.1 = 0)
    (hord : InOrder 0 (ds ++ [f]))
    (hreq : ∀ x ∈ ds, UploadReq M B szx x.1 x.2 ∧ x.1 + 1 < nBlocks B (2 ^ (szx + 4)))
    (hf : UploadReq M B szx f.1 f.2) :
    (∀ o ∈ (runCore M st0 ds).2, o.2 = .ok true) ∧
    (runCore M st0 (ds ++ [f])).2 =
      (runCore M st0 ds).2 ++ [((coreRequest M f.2 (runCore M st0 ds).1).1, (coreRequest M f.2 (runCore M st0 ds).1).2.2)] ∧
    (coreRequest M f.2 (runCore M st0 ds).1).1.message.payload = B ∧
    (runCore M st0 (ds ++ [f])).1.cachedPayload = none :=
  upload_whole M B szx st0 ds f hf1 h0 hord hreq hf

/-- … AT THE LEVEL OF THE HANDLER, with its cache and clock, inside arbitrary traffic: fresh handler,
ANY monotone history `evs` (other transfers interleaved at will). The calls for key `κ` are
request-side calls, at most `ttl` apart, delivering the blocks of body `B`: the non-final ones `ds`
in order from block 0 (each any number of times in a row), then the final one `f` once. Every
non-final delivery is answered by the handler (`ok true`, the application is not reached), and the
request the final call hands on carries exactly `B`. -/
theorem upload_in_any_history_partial (M ttl : Nat) (evs : List Ev) (κ : Key) (B : Bytes) (szx : Nat)
    (ds : List (Nat × Request)) (f : Nat × Request)
    (hm : Mono 0 evs) (hsp : Spaced ttl (evs.filter (fun e => e.key = κ)))
    (hreqs : ∀ e ∈ evs.filter (fun e => e.key = κ), e.isResp = false)
    (hκ : (evs.filter (fun e => e.key = κ)).map (·.req) = (ds ++ [f]).map (·.2))
    (hf1 : f.1 + 1 = nBlocks B (2 ^ (szx + 4)))
    (h0 : ∀ d ∈ (ds ++ [f]).head?, d.1 = 0)
    (hord : InOrder 0 (ds ++ [f]))
    (hreq : ∀ x ∈ ds, UploadReq M B szx x.1 x.2 ∧ x.1 + 1 < nBlocks B (2 ^ (szx + 4)))
    (hf : UploadReq M B szx f.1 f.2) :
    ∃ pre last,
      ((runEvs (Handler.new M ttl) evs).filter (fun o => o.1 = κ)).map (·.2) = pre ++ [last] ∧
      pre.length = ds.length ∧ (∀ o ∈ pre, o.2 = .ok true) ∧ last.1.message.payload = B :=
  Block.upload_in_any_history M ttl evs κ B szx ds f hm hsp hreqs hκ hf1 h0 hord hreq hf

/-- a request too large for the budget that carries no Block1 option is answered
4.13 with a Block1 size hint instead of being processed -/
theorem too_large_413 (req : Request) (M : Nat) (st : BlockState) (resp1 : BlockValue)
    (size : Nat) (resp : Packet)
    (hb : firstBlock req.message block1Num = none)
    (hsz : computeMessageSize req.message = .ok size)
    (hn : negotiate none size req.message.payload.length M = .ok (some resp1))
    (hr : req.response = some resp) (hok : BvOk resp1) :
    ∃ bs, resp1.enc = .ok bs ∧
      handleBlock1 req M st =
        ({ req with response := some (setCode (resp.addOption block1Num bs) .RequestEntityTooLarge) }, st, .ok true) :=
  handleBlock1_too_large req M st resp1 size resp hb hsz hn hr hok

/-- … and under every budget that leaves any room the size hint can be produced (the negotiation never
fails, D20): a Block1-less request is either small enough to be passed on or gets a hint of at most
1024 bytes -/
theorem too_large_hint_exists (ms tp M : Nat) (hB : 0 < blockBudget ms tp M) :
    negotiate none ms tp M = .ok none ∨
    ∃ b, negotiate none ms tp M = .ok (some b) ∧ b.num = 0 ∧ b.more = true ∧ b.szx ≤ 6 :=
  negotiate_none_total ms tp M hB

/-- when is a Block1-less request "too large": exactly when its payload is not
smaller than the block budget -/
theorem too_large_iff (ms tp M : Nat) (hms : tp ≤ ms) :
    negotiate none ms tp M = .ok none ↔
      ((ms + Consts.blockOptionsMaxLength) - tp ≤ M ∧ tp < blockBudget ms tp M) :=
  negotiate_none ms tp M hms

/-! ### K1: the negation of "exactly once" for a re-delivered final block -/

/-- with the buffer already released, a (re-)delivered final block number 1 of
size 16 carrying 8 bytes reaches the application with a zero-filled prefix -/
theorem final_redelivery_reaches_app :
    extendingSplice [] 16 32 [1, 2, 3, 4, 5, 6, 7, 8] 16384 =
      some (List.replicate 16 0 ++ [1, 2, 3, 4, 5, 6, 7, 8]) := by decide

/-! ### tie to the source: the state the model carries is the state the code carries

`Shapes.*` (Generated/Shapes.lean) is re-read from /repo/src on every run: the field lists of the
structs this property's model mirrors, and every construct that introduces state outside the values
the API passes around (thread-locals, `static mut`, cells, locks, atomics). The model accounts for
exactly these fields (Lemmas/Shape/*.lean say which model field mirrors which); a field or a
global added to the code – a memo, a marker, a digest in place of the data – breaks this theorem
even if no explored input behaves differently. -/
theorem state_shape_matches_source :
    Shapes.globalState = [] ∧
    Shapes.blockHandler = [("config", "BlockHandlerConfig"), ("states", "LruCache<RequestCacheKey<Endpoint>,BlockState>")] ∧
    Shapes.blockHandlerConfig = [("cache_expiry_duration", "Duration"), ("max_total_message_size", "usize")] ∧
    Shapes.requestCacheKey = [("path", "Vec<Vec<u8>>"), ("request_type_ord", "u8"), ("requester", "Option<Endpoint>")] ∧
    Shapes.blockState = [("cached_request_payload", "Option<Vec<u8>>"), ("cached_response", "Option<Packet>"),
     ("cached_response_size_exponent", "Option<u8>"), ("last_request_block2", "Option<BlockValue>")] ∧
    Shapes.blockValue = [("more", "bool"), ("num", "u16"), ("size_exponent", "u8")] ∧
    Shapes.coapRequest = [("message", "Packet"), ("response", "Option<CoapResponse>"), ("source", "Option<Endpoint>")] ∧
    Shapes.coapResponse = [("message", "Packet")] ∧
    Shapes.packet = [("header", "Header"), ("options", "BTreeMap<u16,LinkedList<Vec<u8>>>"), ("payload", "Vec<u8>"), ("token", "Vec<u8>")] ∧
    Shapes.header = [("code", "MessageClass"), ("message_id", "u16"), ("ver_type_tkl", "u8")] ∧
    Shapes.headerRaw = [("code", "u8"), ("message_id", "u16"), ("ver_type_tkl", "u8")] :=
  ⟨ShapeTie.no_global_state, ShapeTie.blockHandler, ShapeTie.blockHandlerConfig, ShapeTie.requestCacheKey, ShapeTie.blockState, ShapeTie.blockValue, ShapeTie.coapRequest, ShapeTie.coapResponse, ShapeTie.packet, ShapeTie.header, ShapeTie.headerRaw⟩

/-- the public entry points of the modelled source files – re-read from /repo/src on every run – are
exactly the ones the model was written against (`Lemmas/Shape/Api.lean`): a new public way to change the
state this property is about, or a receiver that became `&mut self`, breaks this theorem -/
theorem api_surface_matches_source :
    Shapes.apiBlockHandler = ShapeTie.expectedApiBlockHandler ∧
    Shapes.apiBlockValue = ShapeTie.expectedApiBlockValue :=
  ⟨ShapeTie.apiBlockHandler, ShapeTie.apiBlockValue⟩

end CoapLite.C09
