/-
C17 — Link-format parser is total and its two unquoting paths agree.
Model: Model/LinkFormat.lean (parser side).  All functions of the model are
total; slicing never leaves the input (`IsSlice`); the iteration ends on its
own, not by the fuel bound.
-/
import CoapLite.Lemmas.Shape.Api
import CoapLite.Lemmas.LinkParse
import CoapLite.Lemmas.Unquote
import CoapLite.Lemmas.LinkLow
import CoapLite.Lemmas.Shape.Link
import CoapLite.Lemmas.Shape.Global

namespace CoapLite.C17
open CoapLite Link

/-- for every attribute value the copy-on-write unquoted form equals the
character-by-character unquoted form – including a lone quote, unterminated
quoted strings, and text following a closing quote -/
theorem cow_eq_string (s : List Char) : toCow s = unquote s := toCow_eq_unquote s

/-- the same for the iterator in EVERY state: after any number of `next()` calls, `to_cow()` is
exactly what the character iterator still yields (the unquoted text minus what was taken) -/
theorem cow_eq_rest_in_every_state (u : Uq) : u.toCow = u.rest := U.toCow_eq_rest u

theorem cow_after_steps (s : List Char) (k : Nat) :
    ((Uq.new s).advance k).toCow = (unquote s).drop k := Link.cow_after_steps s k

/-- `next()` yields the unquoted text character by character and then `none` for ever (fused) -/
theorem next_yields_unquote (s : List Char) (k : Nat) :
    ((Uq.new s).advance k).next.1 = (unquote s)[k]? := Link.next_yields_unquote s k

example : ((Uq.new ['"', 'a', 'b', '"', 'c', 'd']).advance 2).toCow = [] := by decide +kernel
example : ((Uq.new ['"', 'a', 'b', '"', 'c', 'd']).advance 1).toCow = ['b'] := by decide +kernel
example : ((Uq.new ['"', 'a', '\\', '"', 'b', '"', 'x']).advance 1).toCow = ['"', 'b'] := by decide +kernel

/-- iterating the link parser yields only substrings of the input … -/
theorem links_are_slices (input : List Char) :
    ∀ it ∈ parseLinks input, ∀ t a, it = .link t a → IsSlice input t ∧ IsSlice input a :=
  parseLinks_slices input

/-- … in left-to-right order … -/
theorem links_ordered (input : List Char) :
    (parseLinks input).Pairwise (fun x y =>
      ∀ t a t' a', x = .link t a → y = .link t' a' →
        t.stop ≤ t'.off ∧ (a.s ≠ [] → t.stop ≤ a.off ∧ a.stop ≤ t'.off)) :=
  parseLinks_ordered input

/-- … and nothing after the first reported error -/
theorem nothing_after_error (input : List Char) (i : Nat) (h : i < (parseLinks input).length)
    (he : (parseLinks input)[i] = .error) : i + 1 = (parseLinks input).length :=
  parseLinks_error_last input i h he

/-- every attribute iterator yields keys and raw values that are slices of the
input inside their attribute block (an attribute without '=' has the empty
literal as value), key before value -/
theorem attrs_are_slices (input : List Char) (a : Sl) (ha : IsSlice input a) :
    ∀ kv ∈ parseAttrs a,
      (IsSlice input kv.1 ∨ kv.1.s = []) ∧ (IsSlice input kv.2 ∨ IsEmptyLit kv.2) ∧
      (kv.1.s ≠ [] → kv.2.s ≠ [] → kv.1.stop ≤ kv.2.off) ∧
      (kv.1.s ≠ [] → a.off ≤ kv.1.off ∧ kv.1.stop ≤ a.stop) ∧
      (kv.2.s ≠ [] → a.off ≤ kv.2.off ∧ kv.2.stop ≤ a.stop) :=
  parseAttrs_slices input a ha

theorem attrs_ordered (a : Sl) :
    (parseAttrs a).Pairwise (fun x y =>
      (x.1.s ≠ [] → y.1.s ≠ [] → x.1.stop ≤ y.1.off) ∧
      (x.2.s ≠ [] → y.1.s ≠ [] → x.2.stop ≤ y.1.off) ∧
      (x.2.s ≠ [] → y.2.s ≠ [] → x.2.stop ≤ y.2.off)) :=
  parseAttrs_ordered a

/-! ### low-level model: byte offsets, pointer differences, `&str` slicing that panics

The parsers above work on character lists with `take` / `drop`; "without panicking" has no content there.
`Model/LinkLow.lean` transcribes `LinkFormatParser::next` and `LinkAttributeParser::next` statement by
statement over BYTE offsets: the `Chars` loops return the iterator's remaining string, lengths are `usize`
pointer differences (panic on underflow), and `&s[..n]`, `split_at(i)`, `&value[1..]` PANIC when the offset
lies beyond the end or inside a multi-byte character; `find('=')` returns a byte index. -/

/-- the low-level link parser computes exactly the model's, for EVERY input string -/
theorem low_level_link_parser_refines (input : List Char) :
    LinkLow.linkAllLow (input.length + 1) input = .ok ((parseLinks input).map LinkLow.itemChars) :=
  LinkLow.linkAllLow_eq (input.length + 1) { off := 0, s := input }

/-- … and so does the low-level attribute parser, for every attribute block -/
theorem low_level_attr_parser_refines (a : Sl) :
    LinkLow.attrAllLow (a.s.length + 1) a.s = .ok ((parseAttrs a).map (fun kv => (kv.1.s, kv.2.s))) :=
  LinkLow.attrAllLow_eq (a.s.length + 1) a

/-- hence no slice either parser takes is beyond the end of the string or off a UTF-8 character boundary,
and no pointer difference underflows – for every input, multi-byte characters anywhere -/
theorem parsers_never_slice_off_a_boundary (input : List Char) (a : Sl) :
    LinkLow.linkAllLow (input.length + 1) input ≠ .panic ∧
    LinkLow.attrAllLow (a.s.length + 1) a.s ≠ .panic := by
  rw [low_level_link_parser_refines, low_level_attr_parser_refines]
  exact ⟨by simp, by simp⟩

/-- `Unquote::to_cow()` at the same level – `find` returns byte indices, `&str_ref[1..]` and `&body[..end]`
panic off a character boundary – equals the model's `to_cow`, in every state of the iterator and for
every remaining string; hence it never panics -/
theorem low_level_to_cow_refines (u : Uq) : LinkLow.toCowLow u = .ok u.toCow :=
  LinkLow.toCowLow_eq u

/-- the slicing operations of the low-level model do panic off a boundary (`é` is two bytes) -/
example : LinkLow.sliceTo ['é', 'x'] 1 = .panic ∧ LinkLow.sliceTo ['é', 'x'] 2 = .ok ['é'] ∧
    LinkLow.sliceFrom ['é', 'x'] 4 = .panic := by decide

/-- termination: the iterations end by themselves (more fuel changes nothing) -/
theorem iteration_terminates (input : List Char) (a : Sl) (extra : Nat) :
    linkAll (input.length + 1 + extra) { off := 0, s := input } = parseLinks input ∧
    attrAll (a.s.length + 1 + extra) a = parseAttrs a :=
  ⟨linkAll_fuel input extra, attrAll_fuel a extra⟩

/-! non-vacuity -/
example : toCow "\"".toList = [] ∧ toCow "\"abc".toList = "abc".toList ∧
    toCow "\"ab\"cd".toList = "ab".toList ∧ unquote "\"a\\\"b\"".toList = "a\"b".toList := by decide
-- NOTE (proofE): this example originally expected the attribute block at offset 4
-- (`⟨4, …⟩`), which is false for the model: the ';' at offset 4 is removed by
-- `trimBoth (· = ';')`, so the block starts at 5 (`#eval` confirms).  With the wrong
-- value `decide` does not fail but hangs; with the right one plain `decide` is still
-- too slow (> 10 min, Meta-level whnf), `decide +kernel` takes < 1 s.
example : parseLinks "</a>;k=\"v,\";x,<b>".toList =
    [.link ⟨1, "/a".toList⟩ ⟨5, "k=\"v,\";x".toList⟩, .link ⟨15, "b".toList⟩ ⟨17, []⟩] := by decide +kernel
example : parseLinks "<a>,x<b>".toList = [.link ⟨1, ['a']⟩ ⟨3, []⟩, .error] := by decide

/-! ### tie to the source: the state the model carries is the state the code carries

`Shapes.*` (Generated/Shapes.lean) is re-read from /repo/src on every run: the field lists of the
structs this property's model mirrors, and every construct that introduces state outside the values
the API passes around (thread-locals, `static mut`, cells, locks, atomics). The model accounts for
exactly these fields (Lemmas/Shape/*.lean say which model field mirrors which); a field or a
global added to the code – a memo, a marker, a digest in place of the data – breaks this theorem
even if no explored input behaves differently. -/
theorem state_shape_matches_source :
    Shapes.globalState = [] ∧
    Shapes.linkFormatWrite = [("add_newlines", "bool"), ("error", "Option<Error>"), ("is_first", "bool"), ("write", "&mutT")] ∧
    Shapes.linkAttributeWrite = [("0", "&mutLinkFormatWrite<T>")] ∧
    Shapes.linkFormatParser = [("inner", "&str")] ∧
    Shapes.linkAttributeParser = [("inner", "&str")] ∧
    Shapes.unquote = [("inner", "Chars"), ("state", "UnquoteState")] :=
  ⟨ShapeTie.no_global_state, ShapeTie.linkFormatWrite, ShapeTie.linkAttributeWrite, ShapeTie.linkFormatParser, ShapeTie.linkAttributeParser, ShapeTie.unquote⟩

/-- the public entry points of the modelled source files – re-read from /repo/src on every run – are
exactly the ones the model was written against (`Lemmas/Shape/Api.lean`): a new public way to change the
state this property is about, or a receiver that became `&mut self`, breaks this theorem -/
theorem api_surface_matches_source :
    Shapes.apiLinkFormat = ShapeTie.expectedApiLinkFormat :=
  ShapeTie.apiLinkFormat

end CoapLite.C17
