/-
C12 — Concurrent block transfers are isolated; replies belong to the current
request.  Model: Model/Block.lean; histories of entry-point calls
(Lemmas/BlockTrace.lean).
-/
import CoapLite.Lemmas.Shape.Api
import CoapLite.Lemmas.BlockTrace
import CoapLite.Lemmas.Request
import CoapLite.Lemmas.BlockSession
import CoapLite.Lemmas.Shape.Block
import CoapLite.Lemmas.Shape.BlockValue
import CoapLite.Lemmas.Shape.Request
import CoapLite.Lemmas.Shape.Packet
import CoapLite.Lemmas.Shape.Global

namespace CoapLite.C12
open CoapLite Block

/-- For EVERY interleaving of calls (any number of transfers, any monotone
timestamps): what the calls for one key observe – every mutated request with its
reply, every result – is exactly what they observe when all calls for other keys
are removed from the history, i.e. when that transfer runs alone. -/
theorem noninterference (M ttl : Nat) (evs : List Ev) (κ : Key) (hm : Mono 0 evs) :
    (runEvs (Handler.new M ttl) evs).filter (fun o => o.1 = κ) =
      runEvs (Handler.new M ttl) (evs.filter (fun e => e.key = κ)) :=
  Block.noninterference M ttl evs κ hm

/-- transfers are keyed by (code byte, raw Uri-Path segment list, endpoint): two requests share
state iff all three agree (after the D17 fix the segments are compared as the bytes on the wire,
so undecodable segments and unnamed request codes are told apart too) … -/
theorem key_eq_iff (r₁ r₂ : Request) :
    keyOf r₁ = keyOf r₂ ↔
      (MessageClass.toU8 r₁.message.header.code = MessageClass.toU8 r₂.message.header.code ∧
       (r₁.message.getOption Request.uriPath).getD [] = (r₂.message.getOption Request.uriPath).getD [] ∧
       r₁.source = r₂.source) :=
  keyOf_eq_iff r₁ r₂

/-- … and the code byte determines the code (`MessageClass ↔ u8` is a bijection on the values the
decoder produces), so different methods are different keys -/
theorem key_method (c₁ c₂ : Nat)
    (h : MessageClass.toU8 (MessageClass.ofU8 c₁) = MessageClass.toU8 (MessageClass.ofU8 c₂)) : c₁ = c₂ := by
  have e1 : MessageClass.toU8 (MessageClass.ofU8 c₁) = c₁ := by
    unfold MessageClass.ofU8; split <;> simp [MessageClass.toU8]
  have e2 : MessageClass.toU8 (MessageClass.ofU8 c₂) = c₂ := by
    unfold MessageClass.ofU8; split <;> simp [MessageClass.toU8]
  omega

/-- … so paths that differ only in segmentation (["a","b"] vs ["a/b"]) or are
prefixes of one another are different keys -/
example : ([[97], [98]] : List Bytes) ≠ [[97, 47, 98]] ∧ ([[97]] : List Bytes) ≠ [[97], [98]] := by decide

/-- every reply the handler produces or rewrites – including blocks served from
its cache – keeps the message id and token of the reply prepared for the request
being answered (C07: those of that request); the request itself is unchanged
except for the reassembled upload payload -/
theorem reply_ids_request (M : Nat) (req : Request) (st : BlockState) :
    let out := coreRequest M req st
    out.1.response.map corr = req.response.map corr ∧
    out.1.source = req.source ∧ out.1.message.header = req.message.header ∧
    out.1.message.token = req.message.token ∧ out.1.message.options = req.message.options :=
  coreRequest_corr M req st

theorem reply_ids_response (M : Nat) (req : Request) (st : BlockState) :
    let out := coreResponse M req st
    out.1.response.map corr = req.response.map corr ∧ out.1.message = req.message ∧
    out.1.source = req.source :=
  coreResponse_corr M req st

/-- … composed with C07: for a request object built by `from_packet` from the message `p` (any token the
header can announce), every reply the handler leaves in it – after `intercept_request` or after the
application's reply went through `intercept_response` with its correlation fields untouched – carries
`p`'s message id and `p`'s token, whatever the cache held -/
theorem reply_carries_the_request_ids (M : Nat) (p : Packet) (src : Nat) (st : BlockState) (r : Request)
    (hr : Request.fromPacket p src = .ok r) (ht : p.token.length ≤ 15) :
    (coreRequest M r st).1.response.map corr = r.response.map corr ∧
    (∀ reply, r.response = some reply → corr reply = (p.header.mid, p.token)) ∧
    (∀ (r' : Request), r'.response.map corr = r.response.map corr →
      (coreResponse M r' st).1.response.map corr = r.response.map corr) := by
  refine ⟨(coreRequest_corr M r st).1, ?_, ?_⟩
  · intro reply hreply
    obtain ⟨r0, h0, _, _, hnew⟩ := Lemmas.fromPacket_spec p src ht
    rw [hr] at h0
    injection h0 with h0
    subst h0
    rw [Lemmas.response_new_spec p ht] at hnew
    injection hnew with hnew
    rw [hreply] at hnew
    by_cases h1 : p.header.typeBits = 0
    · rw [if_pos h1] at hnew
      injection hnew with hnew
      rw [← hnew]; rfl
    · rw [if_neg h1] at hnew
      by_cases h2 : p.header.typeBits = 1
      · rw [if_pos h2] at hnew
        injection hnew with hnew
        rw [← hnew]; rfl
      · rw [if_neg h2] at hnew
        cases hnew
  · intro r' hr'
    rw [(coreResponse_corr M r' st).1, hr']

/-- the entry points are exactly the core run on the effective (live) state of
the request's own key, and leave every other key's effective state untouched -/
theorem entry_point_frame (h : Handler) (now : Nat) (req : Request) (hi : Lru.Inv h.cache now) :
    let out := interceptRequest h now req
    let core := coreRequest h.maxSize req (effective h (keyOf req) now)
    out.2.1 = core.1 ∧ out.2.2 = core.2.2 ∧
    (∀ k' now', k' ≠ keyOf req → now ≤ now' → Lru.peek out.1.cache k' now' = Lru.peek h.cache k' now') := by
  have h1 := interceptRequest_eq h now req hi
  exact ⟨h1.1, h1.2.1, h1.2.2.2.2.2.2.1⟩

/-- SYSTEM LEVEL, with the cache and the clock: in EVERY monotone history of entry-point calls – any
number of transfers interleaved in any way – the calls of the transfer with key `κ`, provided its
consecutive calls are at most `ttl` apart (C20), observe exactly what the per-key core computes for
them alone, threading one `BlockState` from the default state (`runKey`). So every statement proved
about the core (C08 `whole_body`, C09 `upload_whole_body_partial`, C10, C11) holds for that transfer
inside any traffic. -/
theorem transfer_in_any_history (M ttl : Nat) (evs : List Ev) (κ : Key) (hm : Mono 0 evs)
    (hsp : Spaced ttl (evs.filter (fun e => e.key = κ))) :
    ((runEvs (Handler.new M ttl) evs).filter (fun o => o.1 = κ)).map (·.2) =
      runKey M BlockState.default (evs.filter (fun e => e.key = κ)) :=
  Block.transfer_in_any_history M ttl evs κ hm hsp

/-- … and from any reachable handler state, with `st` the state in effect for `κ` at its first call -/
theorem transfer_from_state (h : Handler) (t : Nat) (evs : List Ev) (κ : Key) (st : BlockState)
    (hi : Lru.Inv h.cache t) (hm : Mono t evs)
    (hsp : Spaced h.cache.ttl (evs.filter (fun e => e.key = κ)))
    (hst : ∀ e ∈ (evs.filter (fun e => e.key = κ)).head?, effective h κ e.now = st) :
    ((runEvs h evs).filter (fun o => o.1 = κ)).map (·.2) =
      runKey h.maxSize st (evs.filter (fun e => e.key = κ)) :=
  Block.transfer_from_state h t evs κ st hi hm hsp hst

/-! ### tie to the source: the state the model carries is the state the code carries

`Shapes.*` (Generated/Shapes.lean) is re-read from /repo/src on every run: the field lists of the
structs this property's model mirrors, and every construct that introduces state outside the values
the API passes around (thread-locals, `static mut`, cells, locks, atomics). The model accounts for
exactly these fields (Lemmas/Shape/*.lean say which model field mirrors which); a field or a
global added to the code – a memo, a marker, a digest in place of the data – breaks this theorem
even if no explored input behaves differently. -/
theorem state_shape_matches_source :
    Shapes.globalState = [] ∧
    Shapes.blockHandler = [("config", "BlockHandlerConfig"), ("states", "LruCache<RequestCacheKey<Endpoint>,BlockState>")] ∧
    Shapes.blockHandlerConfig = [("cache_expiry_duration", "Duration"), ("max_total_message_size", "usize")] ∧
    Shapes.requestCacheKey = [("path", "Vec<Vec<u8>>"), ("request_type_ord", "u8"), ("requester", "Option<Endpoint>")] ∧
    Shapes.blockState = [("cached_request_payload", "Option<Vec<u8>>"), ("cached_response", "Option<Packet>"),
     ("cached_response_size_exponent", "Option<u8>"), ("last_request_block2", "Option<BlockValue>")] ∧
    Shapes.blockValue = [("more", "bool"), ("num", "u16"), ("size_exponent", "u8")] ∧
    Shapes.coapRequest = [("message", "Packet"), ("response", "Option<CoapResponse>"), ("source", "Option<Endpoint>")] ∧
    Shapes.coapResponse = [("message", "Packet")] ∧
    Shapes.packet = [("header", "Header"), ("options", "BTreeMap<u16,LinkedList<Vec<u8>>>"), ("payload", "Vec<u8>"), ("token", "Vec<u8>")] ∧
    Shapes.header = [("code", "MessageClass"), ("message_id", "u16"), ("ver_type_tkl", "u8")] ∧
    Shapes.headerRaw = [("code", "u8"), ("message_id", "u16"), ("ver_type_tkl", "u8")] :=
  ⟨ShapeTie.no_global_state, ShapeTie.blockHandler, ShapeTie.blockHandlerConfig, ShapeTie.requestCacheKey, ShapeTie.blockState, ShapeTie.blockValue, ShapeTie.coapRequest, ShapeTie.coapResponse, ShapeTie.packet, ShapeTie.header, ShapeTie.headerRaw⟩

/-- the public entry points of the modelled source files – re-read from /repo/src on every run – are
exactly the ones the model was written against (`Lemmas/Shape/Api.lean`): a new public way to change the
state this property is about, or a receiver that became `&mut self`, breaks this theorem -/
theorem api_surface_matches_source :
    Shapes.apiBlockHandler = ShapeTie.expectedApiBlockHandler ∧
    Shapes.apiRequest = ShapeTie.expectedApiRequest :=
  ⟨ShapeTie.apiBlockHandler, ShapeTie.apiRequest⟩

end CoapLite.C12
