/-
C06 — Typed option values use the minimal big-endian uint form and round-trip.
Model: `optionFromUint`/`optionToUint` (Model/Uint.lean), `strEnc`/`strDec`
(Model/Str.lean), typed accessors (Model/Packet.lean, Model/Str.lean).
Spec: `Spec.minimalBE`.
-/
import CoapLite.Lemmas.Shape.Api
import CoapLite.Model.Str
import CoapLite.Lemmas.Uint
import CoapLite.Lemmas.CodecFwd
import CoapLite.Lemmas.Shape.Packet
import CoapLite.Lemmas.Shape.Global

namespace CoapLite.C06
open CoapLite Spec

/-- the supported widths (`OptionValueU8/U16/U32/U64`) -/
def Width (w : Nat) : Prop := w = 1 ∨ w = 2 ∨ w = 4 ∨ w = 8

/-- for every unsigned value of every supported width the encoded option value
is the shortest big-endian byte string for that number (zero is the empty
string) and never the `assert!` panic … -/
theorem enc_minimal (w n : Nat) (_hw : Width w) (h : n < 256 ^ w) :
    optionFromUint n w = .ok (minimalBE n) :=
  optionFromUint_eq n w h

/-- … where "shortest big-endian byte string" means: it has value `n`, no
leading zero byte, and no byte string with the same value is shorter -/
theorem minimalBE_spec (n : Nat) :
    beValue (minimalBE n) = n ∧ (minimalBE n).head? ≠ some 0 ∧
    (∀ bs : Bytes, beValue bs = n → (minimalBE n).length ≤ bs.length) ∧
    (n = 0 → minimalBE n = []) := by
  refine ⟨beValue_minimalBE n, minimalBE_head_ne_zero n, ?_, ?_⟩
  · intro bs hb; rw [← hb]; exact minimalBE_shortest bs
  · intro h; subst h; exact minimalBE_zero

/-- decoding the encoding returns the same number -/
theorem dec_enc (w n : Nat) (hw : Width w) (h : n < 256 ^ w) :
    ∃ bs, optionFromUint n w = .ok bs ∧ optionToUint bs w = .ok n := by
  refine ⟨minimalBE n, enc_minimal w n hw h, ?_⟩
  rw [optionToUint_eq, if_pos (minimalBE_length_le n w h), beValue_minimalBE]

/-- decoding accepts any byte string up to the width – leading zeros included –
as its big-endian value, and rejects longer ones with an error -/
theorem dec_spec (w : Nat) (bs : Bytes) :
    optionToUint bs w = if bs.length ≤ w then .ok (beValue bs) else .err .other :=
  optionToUint_eq bs w

/-- the decoded value fits the width (the `as u8/u16/u32` cast after decoding
never truncates) -/
theorem dec_fits (w : Nat) (bs : Bytes) (v : Nat) (h : optionToUint bs w = .ok v) : v < 256 ^ w := by
  rw [optionToUint_eq] at h
  split at h
  · injection h with h; subst h
    exact Nat.lt_of_lt_of_le (beValue_lt bs) (Nat.pow_le_pow_right (by omega) (by assumption))
  · simp at h

/-! ### text options -/

theorem str_roundtrip (s : String) : strDec (strEnc s) = .ok s := by
  unfold strDec strEnc
  have h1 : (ByteArray.mk s.toUTF8.data.toList.toArray) = s.toUTF8 := by simp
  rw [h1]
  have hv : s.toUTF8.IsValidUTF8 := s.isValidUTF8
  simp only [String.fromUTF8?, hv, ↓reduceDIte]
  congr 1

/-- a byte string decodes as text iff it is well-formed UTF-8, and then the
text's encoding is that byte string (nothing is normalised or dropped) -/
theorem str_dec_iff (bs : Bytes) :
    (∃ s, strDec bs = .ok s ∧ strEnc s = bs) ↔ (ByteArray.mk bs.toArray).IsValidUTF8 := by
  unfold strDec strEnc
  constructor
  · rintro ⟨s, h, _⟩
    by_cases hv : (ByteArray.mk bs.toArray).IsValidUTF8
    · exact hv
    · simp [String.fromUTF8?, hv] at h
  · intro hv
    simp only [String.fromUTF8?, hv, ↓reduceDIte]
    refine ⟨_, rfl, ?_⟩
    simp [String.fromUTF8]

theorem str_invalid (bs : Bytes) (h : ¬ (ByteArray.mk bs.toArray).IsValidUTF8) :
    strDec bs = .err .other := by
  unfold strDec
  simp [String.fromUTF8?, h]

/-! ### typed getters and setters store and return exactly these encodings,
element by element and in order -/

theorem get_after_add_uint (p : Packet) (hs : p.options.Sorted) (num w x : Nat)
    (hw : Width w) (hx : x < 256 ^ w) :
    ∃ q, p.addOptionUint num w x = .ok q ∧
      q.getOption num = some ((p.getOption num).getD [] ++ [minimalBE x]) ∧
      q.getOptionsUint num w = some ((p.getOptionsUint num w).getD [] ++ [.ok x]) ∧
      (∀ m, m ≠ num → q.getOption m = p.getOption m) := by
  unfold Packet.addOptionUint
  rw [enc_minimal w x hw hx]
  refine ⟨_, rfl, ?_, ?_, ?_⟩
  · rw [Codec.addOption_get p hs]; simp
  · unfold Packet.getOptionsUint
    rw [Codec.addOption_get p hs]
    simp only [↓reduceIte, Option.map_some, List.map_append, List.map_cons, List.map_nil]
    have : optionToUint (minimalBE x) w = .ok x := by
      rw [optionToUint_eq, if_pos (minimalBE_length_le x w hx), beValue_minimalBE]
    rw [this]
    cases p.getOption num <;> simp
  · intro m hm
    rw [Codec.addOption_get p hs]; simp [hm]

theorem get_after_add_str (p : Packet) (hs : p.options.Sorted) (num : Nat) (s : String) :
    (p.addOptionStr num s).getOptionsStr num =
      some ((p.getOptionsStr num).getD [] ++ [.ok s]) := by
  unfold Packet.addOptionStr Packet.getOptionsStr
  rw [Codec.addOption_get p hs]
  simp only [↓reduceIte, Option.map_some, List.map_append, List.map_cons, List.map_nil, str_roundtrip]
  cases p.getOption num <;> simp

/-- `set_options_as`: the conversion of a whole list -/
theorem setOptionsUint_go (w : Nat) (hw : Width w) : ∀ (xs : List Nat), (∀ x ∈ xs, x < 256 ^ w) →
    Packet.setOptionsUint.go w xs = .ok (xs.map minimalBE) := by
  intro xs
  induction xs with
  | nil => intro _; rfl
  | cons x rest ih =>
    intro h
    have hx := h x (List.mem_cons_self ..)
    unfold Packet.setOptionsUint.go
    rw [enc_minimal w x hw hx, ih (fun y hy => h y (List.mem_cons_of_mem _ hy))]
    rfl

/-- `set_options_as` stores exactly the minimal encodings, element by element and in order, replacing
whatever the option held before (also a longer list), and `get_options_as` returns the same numbers;
other options are untouched -/
theorem get_after_set_uint (p : Packet) (num w : Nat) (xs : List Nat)
    (hw : Width w) (hx : ∀ x ∈ xs, x < 256 ^ w) :
    ∃ q, p.setOptionsUint num w xs = .ok q ∧
      q.getOption num = some (xs.map minimalBE) ∧
      q.getOptionsUint num w = some (xs.map (fun x => .ok x)) ∧
      (∀ m, m ≠ num → q.getOption m = p.getOption m) := by
  unfold Packet.setOptionsUint
  rw [setOptionsUint_go w hw xs hx]
  refine ⟨_, rfl, ?_, ?_, ?_⟩
  · simp [Packet.getOption, Packet.setOption, OptMap.get_insert]
  · simp only [Packet.getOptionsUint, Packet.getOption, Packet.setOption, OptMap.get_insert, ↓reduceIte,
      Option.map_some, List.map_map]
    congr 1
    apply List.map_congr_left
    intro x hxm
    have hxb := hx x hxm
    show optionToUint (minimalBE x) w = .ok x
    rw [optionToUint_eq, if_pos (minimalBE_length_le x w hxb), beValue_minimalBE]
  · intro m hm
    simp [Packet.getOption, Packet.setOption, OptMap.get_insert, hm]

/-- `get_first_option_as` is the head of `get_options_as` -/
theorem first_is_head_uint (p : Packet) (num w : Nat) :
    p.getFirstOptionUint num w = (p.getOptionsUint num w).bind List.head? := by
  unfold Packet.getFirstOptionUint Packet.getOptionsUint Packet.getFirstOption Packet.getOption
  cases h : p.options.get num with
  | none => simp
  | some l => cases l <;> simp

/-! non-vacuity -/
example : optionFromUint 0 4 = .ok [] := by decide
example : optionFromUint 255 2 = .ok [255] := by decide
example : optionToUint [0, 0, 1, 0] 4 = .ok 256 := by decide
example : optionToUint [0, 0, 1, 0, 0] 4 = .err .other := by decide
example : Width 8 ∧ (18446744073709551615 : Nat) < 256 ^ 8 := ⟨by simp [Width], by decide⟩

/-! ### tie to the source: the state the model carries is the state the code carries

`Shapes.*` (Generated/Shapes.lean) is re-read from /repo/src on every run: the field lists of the
structs this property's model mirrors, and every construct that introduces state outside the values
the API passes around (thread-locals, `static mut`, cells, locks, atomics). The model accounts for
exactly these fields (Lemmas/Shape/*.lean say which model field mirrors which); a field or a
global added to the code – a memo, a marker, a digest in place of the data – breaks this theorem
even if no explored input behaves differently. -/
theorem state_shape_matches_source :
    Shapes.globalState = [] ∧
    Shapes.packet = [("header", "Header"), ("options", "BTreeMap<u16,LinkedList<Vec<u8>>>"), ("payload", "Vec<u8>"), ("token", "Vec<u8>")] ∧
    Shapes.header = [("code", "MessageClass"), ("message_id", "u16"), ("ver_type_tkl", "u8")] ∧
    Shapes.headerRaw = [("code", "u8"), ("message_id", "u16"), ("ver_type_tkl", "u8")] :=
  ⟨ShapeTie.no_global_state, ShapeTie.packet, ShapeTie.header, ShapeTie.headerRaw⟩

/-- the public entry points of the modelled source files – re-read from /repo/src on every run – are
exactly the ones the model was written against (`Lemmas/Shape/Api.lean`): a new public way to change the
state this property is about, or a receiver that became `&mut self`, breaks this theorem -/
theorem api_surface_matches_source :
    Shapes.apiPacket = ShapeTie.expectedApiPacket :=
  ShapeTie.apiPacket

end CoapLite.C06
