/-
C16 — Link-format documents produced by the writer parse back to the same
content.  Model: Model/LinkFormat.lean (writer with a sink that never fails,
then the parser).
-/
import CoapLite.Lemmas.Shape.Api
import CoapLite.Lemmas.LinkRoundtrip
import CoapLite.Lemmas.Shape.Link
import CoapLite.Lemmas.Shape.Global

namespace CoapLite.C16
open CoapLite Link

/-- For every list of links (any target text without '>') with any attributes
(keys free of separators and whitespace; values arbitrary Unicode text –
quotes, backslashes, commas, semicolons, angle brackets, spaces, newlines – or
integers), written with or without the newline option: parsing the writer's
output reports no error and yields the same links in order, the same keys in
order, and for each value an unquoted text equal to the original string (the
decimal numeral for integer attributes), whether or not the writer chose to
quote it. -/
theorem parse_write (nl : Bool) (d : Doc) (h : DocWF d) :
    content (writeDoc noFault nl d).sink = some (d.map (fun l => (l.1, l.2.map render))) :=
  Link.parse_write nl d h

/-! non-vacuity: value with quote, comma, backslash, semicolon, angle bracket
and a multi-byte character; newline option on -/
def ex : Doc :=
  [("/s".toList, [.quoted "t".toList "\",\\;>€".toList, .num "sz".toList 40]),
   ("x,y".toList, [.plain "e".toList []])]

example : DocWF ex := by decide
example : (writeDoc noFault true ex).sink = "</s>;t=\"\\\",\\\\;>€\";sz=40,\n\r<x,y>;e=".toList := by decide

/-! ### tie to the source: the state the model carries is the state the code carries

`Shapes.*` (Generated/Shapes.lean) is re-read from /repo/src on every run: the field lists of the
structs this property's model mirrors, and every construct that introduces state outside the values
the API passes around (thread-locals, `static mut`, cells, locks, atomics). The model accounts for
exactly these fields (Lemmas/Shape/*.lean say which model field mirrors which); a field or a
global added to the code – a memo, a marker, a digest in place of the data – breaks this theorem
even if no explored input behaves differently. -/
theorem state_shape_matches_source :
    Shapes.globalState = [] ∧
    Shapes.linkFormatWrite = [("add_newlines", "bool"), ("error", "Option<Error>"), ("is_first", "bool"), ("write", "&mutT")] ∧
    Shapes.linkAttributeWrite = [("0", "&mutLinkFormatWrite<T>")] ∧
    Shapes.linkFormatParser = [("inner", "&str")] ∧
    Shapes.linkAttributeParser = [("inner", "&str")] ∧
    Shapes.unquote = [("inner", "Chars"), ("state", "UnquoteState")] :=
  ⟨ShapeTie.no_global_state, ShapeTie.linkFormatWrite, ShapeTie.linkAttributeWrite, ShapeTie.linkFormatParser, ShapeTie.linkAttributeParser, ShapeTie.unquote⟩

/-- the public entry points of the modelled source files – re-read from /repo/src on every run – are
exactly the ones the model was written against (`Lemmas/Shape/Api.lean`): a new public way to change the
state this property is about, or a receiver that became `&mut self`, breaks this theorem -/
theorem api_surface_matches_source :
    Shapes.apiLinkFormat = ShapeTie.expectedApiLinkFormat :=
  ShapeTie.apiLinkFormat

end CoapLite.C16
