/-
C16 — Link-format documents produced by the writer parse back to the same
content.  Model: Model/LinkFormat.lean (writer with a sink that never fails,
then the parser).
-/
import CoapLite.Lemmas.LinkRoundtrip

namespace CoapLite.C16
open CoapLite Link

/-- For every list of links (any target text without '>') with any attributes
(keys free of separators and whitespace; values arbitrary Unicode text –
quotes, backslashes, commas, semicolons, angle brackets, spaces, newlines – or
integers), written with or without the newline option: parsing the writer's
output reports no error and yields the same links in order, the same keys in
order, and for each value an unquoted text equal to the original string (the
decimal numeral for integer attributes), whether or not the writer chose to
quote it. -/
theorem parse_write (nl : Bool) (d : Doc) (h : DocWF d) :
    content (writeDoc noFault nl d).sink = some (d.map (fun l => (l.1, l.2.map render))) :=
  Link.parse_write nl d h

/-! non-vacuity: value with quote, comma, backslash, semicolon, angle bracket
and a multi-byte character; newline option on -/
def ex : Doc :=
  [("/s".toList, [.quoted "t".toList "\",\\;>€".toList, .num "sz".toList 40]),
   ("x,y".toList, [.plain "e".toList []])]

example : DocWF ex := by decide
example : (writeDoc noFault true ex).sink = "</s>;t=\"\\\",\\\\;>€\";sz=40,\n\r<x,y>;e=".toList := by decide

end CoapLite.C16
