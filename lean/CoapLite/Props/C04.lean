/-
C04 — Serialiser enforces the size limit exactly and stays inside its buffers.
-/
import CoapLite.Lemmas.CodecFwd
import CoapLite.Lemmas.CopyTrace
import CoapLite.Lemmas.Shape.Packet
import CoapLite.Lemmas.Shape.Global

namespace CoapLite.C04
open CoapLite Codec Spec

/-- the exact wire length: 4 + token + encoded options + (marker and payload
when a payload is sent) -/
theorem enc_length (p : Packet) (lim : Option Nat) (bs : Bytes) (h : enc p lim = .ok bs) :
    bs.length = wireLen (toMsg p) :=
  Codec.enc_length p lim bs h

/-- with a limit `L`, serialisation succeeds iff the exact wire length is at
most `L`, produces the same bytes as the unlimited call, and otherwise returns
the packet-length error -/
theorem enc_limit (p : Packet) (L : Nat) (h : AllFit p) :
    enc p (some L) =
      if wireLen (toMsg p) ≤ L then enc p none else .err .invalidPacketLength :=
  Codec.enc_limit p L h

theorem enc_unlimited_ok (p : Packet) (h : AllFit p) : ∃ bs, enc p none = .ok bs :=
  Codec.enc_unlimited_ok p h

/-- `to_bytes()` is the limited call with `Packet::MAX_SIZE`; the constants are
re-read from the source on every run -/
theorem toBytes_eq (p : Packet) : toBytes p = enc p (some 1280) := by
  simp [toBytes, Consts.maxSize]

theorem max_size_values : Consts.maxSize = 1280 ∧ Consts.maxSizeUdp = 64000 := by decide

/-- a message with an option value too long for the 16-bit extended length
field is refused (whatever the limit) rather than emitted with a wrong length -/
theorem enc_refuses_long (p : Packet) (lim : Option Nat) (h : ¬ AllFit p) :
    enc p lim = .err .invalidOptionLength :=
  Codec.enc_refuses_long p lim h

theorem enc_never_panics (p : Packet) (lim : Option Nat) : enc p lim ≠ .panic :=
  Codec.enc_never_panics p lim

/-- memory bookkeeping (ghost model `Codec.encTrace`, compared event by event
with the hook trace of the real serialiser): for every message and every limit,
every raw-pointer copy lies within the capacity guaranteed by the `reserve`
calls made before it.  (Requested capacity – a lower bound on the real one; the
harness additionally checks every copy against the real capacity.) -/
theorem copies_in_bounds (p : Packet) (limit : Option Nat) :
    boundsOk (fun _ => 0) (encTrace p limit) = true :=
  Codec.encTrace_boundsOk p limit

/-- … and the copies account for every byte of the result: 4 header bytes, the
bytes copied into the output buffer, and the payload marker -/
theorem copies_account_for_output (p : Packet) (limit : Option Nat) (bs : Bytes)
    (h : enc p limit = .ok bs) :
    bs.length = 4 + copied 1 (encTrace p limit) + (if sent p then 1 else 0) :=
  Codec.encTrace_copied p limit bs h

/-! non-vacuity: landing exactly on the limit -/
example : enc { Packet.new with payload := List.replicate 3 0x55 } (some 8) =
    .ok [0x40, 1, 0, 0, 0xFF, 0x55, 0x55, 0x55] := by decide
example : enc { Packet.new with payload := List.replicate 3 0x55 } (some 7) =
    .err .invalidPacketLength := by decide

/-! ### tie to the source: the state the model carries is the state the code carries

`Shapes.*` (Generated/Shapes.lean) is re-read from /repo/src on every run: the field lists of the
structs this property's model mirrors, and every construct that introduces state outside the values
the API passes around (thread-locals, `static mut`, cells, locks, atomics). The model accounts for
exactly these fields (Lemmas/Shape/*.lean say which model field mirrors which); a field or a
global added to the code – a memo, a marker, a digest in place of the data – breaks this theorem
even if no explored input behaves differently. -/
theorem state_shape_matches_source :
    Shapes.globalState = [] ∧
    Shapes.packet = [("header", "Header"), ("options", "BTreeMap<u16,LinkedList<Vec<u8>>>"), ("payload", "Vec<u8>"), ("token", "Vec<u8>")] ∧
    Shapes.header = [("code", "MessageClass"), ("message_id", "u16"), ("ver_type_tkl", "u8")] ∧
    Shapes.headerRaw = [("code", "u8"), ("message_id", "u16"), ("ver_type_tkl", "u8")] :=
  ⟨ShapeTie.no_global_state, ShapeTie.packet, ShapeTie.header, ShapeTie.headerRaw⟩

end CoapLite.C04
