/-
C04 — Serialiser enforces the size limit exactly and stays inside its buffers.
-/
import CoapLite.Lemmas.Shape.Api
import CoapLite.Lemmas.CodecFwd
import CoapLite.Lemmas.CopyTrace
import CoapLite.Lemmas.CodecEncLow
import CoapLite.Lemmas.Shape.Packet
import CoapLite.Lemmas.Shape.Global

namespace CoapLite.C04
open CoapLite Codec Spec

/-- the exact wire length: 4 + token + encoded options + (marker and payload
when a payload is sent) -/
theorem enc_length (p : Packet) (lim : Option Nat) (bs : Bytes) (h : enc p lim = .ok bs) :
    bs.length = wireLen (toMsg p) :=
  Codec.enc_length p lim bs h

/-- with a limit `L`, serialisation succeeds iff the exact wire length is at
most `L`, produces the same bytes as the unlimited call, and otherwise returns
the packet-length error -/
theorem enc_limit (p : Packet) (L : Nat) (h : AllFit p) :
    enc p (some L) =
      if wireLen (toMsg p) ≤ L then enc p none else .err .invalidPacketLength :=
  Codec.enc_limit p L h

theorem enc_unlimited_ok (p : Packet) (h : AllFit p) : ∃ bs, enc p none = .ok bs :=
  Codec.enc_unlimited_ok p h

/-- `to_bytes()` is the limited call with `Packet::MAX_SIZE`; the constants are
re-read from the source on every run -/
theorem toBytes_eq (p : Packet) : toBytes p = enc p (some 1280) := by
  simp [toBytes, Consts.maxSize]

theorem max_size_values : Consts.maxSize = 1280 ∧ Consts.maxSizeUdp = 64000 := by decide

/-- a message with an option value too long for the 16-bit extended length
field is refused (whatever the limit) rather than emitted with a wrong length -/
theorem enc_refuses_long (p : Packet) (lim : Option Nat) (h : ¬ AllFit p) :
    enc p lim = .err .invalidOptionLength :=
  Codec.enc_refuses_long p lim h

theorem enc_never_panics (p : Packet) (lim : Option Nat) : enc p lim ≠ .panic :=
  Codec.enc_never_panics p lim

/-- memory bookkeeping (ghost model `Codec.encTrace`, compared event by event
with the hook trace of the real serialiser): for every message and every limit,
every raw-pointer copy lies within the capacity guaranteed by the `reserve`
calls made before it.  (Requested capacity – a lower bound on the real one; the
harness additionally checks every copy against the real capacity.) -/
theorem copies_in_bounds (p : Packet) (limit : Option Nat) :
    boundsOk (fun _ => 0) (encTrace p limit) = true :=
  Codec.encTrace_boundsOk p limit

/-- … and the copies account for every byte of the result: 4 header bytes, the
bytes copied into the output buffer, and the payload marker -/
theorem copies_account_for_output (p : Packet) (limit : Option Nat) (bs : Bytes)
    (h : enc p limit = .ok bs) :
    bs.length = 4 + copied 1 (encTrace p limit) + (if sent p then 1 else 0) :=
  Codec.encTrace_copied p limit bs h

/-! ### low-level model: fixed-width arithmetic, vectors with a capacity, raw copies

`enc` computes in `Nat` and appends lists; "stays inside its buffers" and "no size computation overflows"
have no content there (the ghost trace above covers the copies' bookkeeping only). `CodecEncLow.encLow`
(Model/CodecEncLow.lean) is a second transcription of `to_bytes_internal`, statement by statement: `u16`
subtraction / addition and `usize` additions that PANIC on underflow or overflow, `as u8` truncations,
`u16::try_from`, `Vec::with_capacity` / `reserve` with Rust's capacity-overflow panic, and each `unsafe`
block (two `ptr::copy` + `set_len`) as one step that PANICS unless both destination ranges lie inside the
allocation and the new length does not exceed the capacity. -/

/-- the low-level serialiser computes exactly `enc`, for every message whose option map is what a
`BTreeMap<u16, _>` can be (`Sorted`, numbers ≤ 65535) and whose size is below 2^63 (`optsSize`: 5 header
bytes + the value per option instance), under every limit -/
theorem low_level_serialiser_refines (p : Packet) (limit : Option Nat) (hs : p.options.Sorted)
    (hk : ∀ kv ∈ p.options, kv.1 ≤ 65535)
    (hsz : 4 + p.token.length + CodecEncLow.optsSize p.options + 1 + p.payload.length < 2 ^ 63) :
    CodecEncLow.encLow p limit = enc p limit :=
  CodecEncLow.encLow_refines p limit hs hk hsz

/-- … hence no `u16` / `usize` operation of the serialiser overflows, no raw copy writes outside the
allocation it was reserved in, and `set_len` never exceeds the capacity – for every such message and
every limit (also when the limit refuses the message: the refusal comes before the allocation) -/
theorem serialiser_stays_inside_its_buffers_and_never_overflows (p : Packet) (limit : Option Nat)
    (hs : p.options.Sorted) (hk : ∀ kv ∈ p.options, kv.1 ≤ 65535)
    (hsz : 4 + p.token.length + CodecEncLow.optsSize p.options + 1 + p.payload.length < 2 ^ 63) :
    CodecEncLow.encLow p limit ≠ .panic := by
  rw [CodecEncLow.encLow_refines p limit hs hk hsz]
  exact Codec.enc_never_panics p limit

/-- the premise is not idle: with numbers out of order the `u16` subtraction underflows (panics) -/
example : CodecEncLow.encLow { Packet.new with options := [(11, [[1]]), (4, [[2]])] } none = .panic := by decide
example : CodecEncLow.encLow { Packet.new with options := [(4, [[2]]), (11, [[1], []])], payload := [7] } none =
    enc { Packet.new with options := [(4, [[2]]), (11, [[1], []])], payload := [7] } none := by decide

/-! non-vacuity: landing exactly on the limit -/
example : enc { Packet.new with payload := List.replicate 3 0x55 } (some 8) =
    .ok [0x40, 1, 0, 0, 0xFF, 0x55, 0x55, 0x55] := by decide
example : enc { Packet.new with payload := List.replicate 3 0x55 } (some 7) =
    .err .invalidPacketLength := by decide

/-! ### tie to the source: the state the model carries is the state the code carries

`Shapes.*` (Generated/Shapes.lean) is re-read from /repo/src on every run: the field lists of the
structs this property's model mirrors, and every construct that introduces state outside the values
the API passes around (thread-locals, `static mut`, cells, locks, atomics). The model accounts for
exactly these fields (Lemmas/Shape/*.lean say which model field mirrors which); a field or a
global added to the code – a memo, a marker, a digest in place of the data – breaks this theorem
even if no explored input behaves differently. -/
theorem state_shape_matches_source :
    Shapes.globalState = [] ∧
    Shapes.packet = [("header", "Header"), ("options", "BTreeMap<u16,LinkedList<Vec<u8>>>"), ("payload", "Vec<u8>"), ("token", "Vec<u8>")] ∧
    Shapes.header = [("code", "MessageClass"), ("message_id", "u16"), ("ver_type_tkl", "u8")] ∧
    Shapes.headerRaw = [("code", "u8"), ("message_id", "u16"), ("ver_type_tkl", "u8")] :=
  ⟨ShapeTie.no_global_state, ShapeTie.packet, ShapeTie.header, ShapeTie.headerRaw⟩

/-- the public entry points of the modelled source files – re-read from /repo/src on every run – are
exactly the ones the model was written against (`Lemmas/Shape/Api.lean`): a new public way to change the
state this property is about, or a receiver that became `&mut self`, breaks this theorem -/
theorem api_surface_matches_source :
    Shapes.apiPacket = ShapeTie.expectedApiPacket ∧
    Shapes.apiHeader = ShapeTie.expectedApiHeader :=
  ⟨ShapeTie.apiPacket, ShapeTie.apiHeader⟩

end CoapLite.C04
