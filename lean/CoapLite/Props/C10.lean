/-
C10 — Block-wise messages respect the size budget and the client's block size.
Model: `negotiate` (Model/Block.lean) + the RFC wire length (Spec/Wire.lean).
`Consts.blockOptionsMaxLength` is re-read from the source on every run.
-/
import CoapLite.Lemmas.Shape.Api
import CoapLite.Lemmas.BlockFits
import CoapLite.Lemmas.BlockFitsRange
import CoapLite.Lemmas.BlockClamp
import CoapLite.Lemmas.BlockStateInv
import CoapLite.Lemmas.Shape.Block
import CoapLite.Lemmas.Shape.BlockValue
import CoapLite.Lemmas.Shape.Request
import CoapLite.Lemmas.Shape.Packet
import CoapLite.Lemmas.Shape.Global

namespace CoapLite.C10
open CoapLite Block Codec Spec

theorem block_options_reserve : Consts.blockOptionsMaxLength = 12 := by decide

/-- Whenever the handler chooses a block size – fragmenting a response or
acknowledging an upload block – under a budget `M ≤ 1280` that leaves at least
16 bytes beyond the message's non-payload overhead plus the 12 reserved bytes
(`M ≥ overhead + 28`): the size is a power of two between 16 and 1024, never
larger than the size the client asked for, and at most the block budget. -/
theorem chosen_size (rb : Option BlockValue) (ms tp M : Nat) (b : BlockValue)
    (hrb : ∀ r, rb = some r → BvOk r) (hms : tp ≤ ms) (hM : M ≤ 1280)
    (h16 : 16 ≤ blockBudget ms tp M)
    (h : negotiate rb ms tp M = .ok (some b)) :
    b.size = 2 ^ (b.szx + 4) ∧ b.szx ≤ 6 ∧ 16 ≤ b.size ∧ b.size ≤ 1024 ∧
    (∀ r, rb = some r → b.size ≤ r.size) ∧ b.size ≤ blockBudget ms tp M := by
  have hs := negotiate_some rb ms tp M b hrb hms h
  have h6 := negotiate_szx_le_6 rb ms tp M b hrb hms hM h
  refine ⟨hs.2.1, h6, ?_, ?_, hs.2.2.2.1, hs.2.2.1 h16⟩
  · rw [hs.2.1]
    have : 2 ^ 4 ≤ 2 ^ (b.szx + 4) := Nat.pow_le_pow_right (by omega) (by omega)
    simpa using this
  · rw [hs.2.1]
    have : 2 ^ (b.szx + 4) ≤ 2 ^ 10 := Nat.pow_le_pow_right (by omega) (by omega)
    simpa using this

/-- when the client's requested size fits the block budget, exactly that size
(and the client's block number) is used -/
theorem exact_when_room (r : BlockValue) (ms tp M : Nat) (hr : BvOk r) (hms : tp ≤ ms)
    (hfit : r.size ≤ blockBudget ms tp M) :
    negotiate (some r) ms tp M =
      .ok (some { num := r.num, more := decide (r.num * r.size + r.size < tp), szx := r.szx }) :=
  negotiate_exact r ms tp M hr hms hfit hr.2

/-- "fits with at least 32 bytes to spare" in the property's terms: if
`client size + overhead + 32 ≤ M` (overhead = non-payload size `ms - tp`), the
client's size fits the block budget -/
theorem room_32_suffices (r : BlockValue) (ms tp M : Nat) (hms : tp ≤ ms)
    (h : r.size + (ms - tp) + 32 ≤ M) : r.size ≤ blockBudget ms tp M := by
  unfold blockBudget
  simp only [block_options_reserve]
  omega

/-- the message carrying a block of the chosen size – the fragmented response
(Block2) or, symmetrically, an upload message with a Block1 option – encodes
within the configured maximum message size: `p` is the message as measured
(payload-free size + payload), `bs` the encoded block option, `chunk` any
payload of at most the chosen size -/
theorem fragment_fits (p : Packet) (lb : Option BlockValue) (M size : Nat) (b : BlockValue)
    (n : Nat) (bs chunk : Bytes)
    (hs : p.options.Sorted) (hk : ∀ kv ∈ p.options, kv.1 ≤ 65535)
    (hg : p.getOption n = none) (hn : n = block1Num ∨ n = block2Num)
    (hlb : ∀ r, lb = some r → BvOk r)
    (hsz : computeMessageSize p = .ok size)
    (hneg : negotiate lb size p.payload.length M = .ok (some b))
    (h16 : 16 ≤ blockBudget size p.payload.length M)
    (hbs : ({ b with more := true } : BlockValue).enc = .ok bs ∨ ({ b with more := false } : BlockValue).enc = .ok bs)
    (hc : chunk.length ≤ b.size) :
    wireLen (toMsg { (p.setOption n [bs]) with payload := chunk }) ≤ M :=
  Block.fragment_fits p lb M size b n bs chunk hs hk hg hn hlb hsz hneg h16 hbs hc

/-- … and so does EVERY later block of a fragmented response, whatever token (0–8 bytes) the
request for that block carries and whatever its block number is (D19 fix: the handler measures
the reply to the first request with room for a maximum-length token). `p` is the application's
reply, `b` the size negotiated for it, `b'`/`bs` the Block2 value of the block being served,
`tok` the token of the request being answered. No hypothesis ties `tok` to the first request's
token. -/
theorem followup_fits (p : Packet) (lb : Option BlockValue) (M size : Nat) (b b' : BlockValue)
    (bs chunk tok : Bytes)
    (hs : p.options.Sorted) (hk : ∀ kv ∈ p.options, kv.1 ≤ 65535)
    (hg : p.getOption block2Num = none)
    (hlb : ∀ r, lb = some r → BvOk r)
    (hsz : computeMessageSize p = .ok size)
    (hneg : negotiate lb (size + tokenReserve p) p.payload.length M = .ok (some b))
    (h16 : 16 ≤ blockBudget (size + tokenReserve p) p.payload.length M)
    (hb' : BvOk b') (hbs : b'.enc = .ok bs)
    (hc : chunk.length ≤ b.size) (htok : tok.length ≤ 8) (hptok : p.token.length ≤ 8) :
    wireLen (toMsg { (p.setOption block2Num [bs]) with payload := chunk, token := tok }) ≤ M :=
  Block.followup_fits p lb M size b b' bs chunk tok hs hk hg hlb hsz hneg h16 hb' hbs hc htok hptok

/-- … stated over the property's OWN range, with no hypothesis about the reserved budget: the message
actually sent is the application's reply `p` with the token `tok` of the request being answered, so
its non-payload overhead is `(size − |payload|) − |p.token| + |tok|`; whenever the budget is at least
that overhead plus 28, the block fits. (When the budget computed with the 8-byte token reserve
falls below 16, the handler uses the minimum block size 16 – `negotiate_small_budget` – and
28 = 12 + 16 covers it.) -/
theorem followup_fits_over_the_range (p : Packet) (lb : Option BlockValue) (M size : Nat) (b b' : BlockValue)
    (bs chunk tok : Bytes)
    (hs : p.options.Sorted) (hk : ∀ kv ∈ p.options, kv.1 ≤ 65535)
    (hg : p.getOption block2Num = none)
    (hlb : ∀ r, lb = some r → BvOk r)
    (hsz : computeMessageSize p = .ok size)
    (hneg : negotiate lb (size + tokenReserve p) p.payload.length M = .ok (some b))
    (hrange : (size - p.payload.length) + tok.length + 28 ≤ M + p.token.length)
    (hb' : BvOk b') (hbs : b'.enc = .ok bs)
    (hc : chunk.length ≤ b.size) (htok : tok.length ≤ 8) (hptok : p.token.length ≤ 8) :
    wireLen (toMsg { (p.setOption block2Num [bs]) with payload := chunk, token := tok }) ≤ M :=
  Block.followup_fits_range p lb M size b b' bs chunk tok hs hk hg hlb hsz hneg hrange hb' hbs hc htok hptok

/-- ACKNOWLEDGING AN UPLOAD BLOCK: `p` is the upload request as received – it carries one Block1 value
`v0` among its (flattened) options –, `b` the block the handler acknowledges it with, `q` the client's
NEXT upload block: the same message with the Block1 value replaced by `v` (any block number, ≤ 3
bytes) and a payload of at most the acknowledged size. Over the property's range it encodes within
the configured maximum message size. -/
theorem upload_next_block_fits (p q : Packet) (pre post : List (Nat × Bytes)) (v0 v : Bytes)
    (rb b : BlockValue) (M size : Nat)
    (hp : p.options.flatten = pre ++ (block1Num, v0) :: post)
    (hq : q.options.flatten = pre ++ (block1Num, v) :: post)
    (hqt : q.token = p.token)
    (hv0 : v0.length ≤ 3) (hv : v.length ≤ 3)
    (hrb : BvOk rb) (hsz : computeMessageSize p = .ok size)
    (hneg : negotiate (some rb) size p.payload.length M = .ok (some b))
    (h16 : 16 ≤ blockBudget size p.payload.length M)
    (hc : q.payload.length ≤ b.size) :
    wireLen (toMsg q) ≤ M :=
  Block.upload_next_block_fits p q pre post v0 v rb b M size hp hq hqt hv0 hv hrb hsz hneg h16 hc

/-- a response the handler leaves unfragmented – decided, as `coreResponse` does, with the token
reserve – fits the budget -/
theorem unfragmented_fits_reserved (p : Packet) (M size : Nat)
    (hsz : computeMessageSize p = .ok size)
    (hneg : negotiate none (size + tokenReserve p) p.payload.length M = .ok none) :
    wireLen (toMsg p) ≤ M :=
  Block.unfragmented_fits_reserved p M size hsz hneg

theorem token_reserve (p : Packet) : tokenReserve p = 8 - p.token.length := by
  unfold tokenReserve; rfl

/-- the room reserved for a response (12 bytes of block options + up to 8 of token = at most 20)
stays within the property's 32 spare bytes: a client size that fits the budget with at least 32
bytes to spare is used exactly, also with the token reserve -/
theorem room_32_suffices_with_reserve (r : BlockValue) (p : Packet) (ms tp M : Nat) (hms : tp ≤ ms)
    (h : r.size + (ms - tp) + 32 ≤ M) : r.size ≤ blockBudget (ms + tokenReserve p) tp M := by
  unfold blockBudget tokenReserve
  simp only [block_options_reserve, Consts.maximumTokenLength]
  omega

/-- and that wire length is what the serialiser produces (C04) -/
theorem wireLen_is_encoded_length (p : Packet) (bs : Bytes) (h : enc p none = .ok bs) :
    bs.length = wireLen (toMsg p) :=
  Codec.enc_length p none bs h

/-- a response the handler leaves unfragmented fits the budget too -/
theorem unfragmented_fits (p : Packet) (M size : Nat)
    (hsz : computeMessageSize p = .ok size)
    (hneg : negotiate none size p.payload.length M = .ok none) :
    wireLen (toMsg p) ≤ M :=
  Block.unfragmented_fits p M size hsz hneg

/-! ### D21: a follow-up may name ANY block size; what it is served never exceeds the negotiated one

`followup_fits` / `followup_fits_over_the_range` take `chunk.length ≤ b.size` (the block being served is no
larger than the negotiated size) as a hypothesis. Nothing in the handler used to guarantee it: a follow-up
naming a larger size was served at that size (D21, fixed in /repo d3955bc). The handler now stores the
negotiated exponent with the cached response; the theorems below derive the hypothesis from that state. -/

/-- the Block2 stage, any request: a reply served from the cache carries at most `2^(x+4)` payload bytes,
`x` the stored exponent, and they are the bytes at the offset the client named – also when the client
named a LARGER size (then the same offset at the negotiated size) -/
theorem follow_up_of_any_size_served_within (req : Request) (st : BlockState) (b2 : BlockValue) (x : Nat)
    (req' : Request) (st' : BlockState)
    (hb : firstBlock req.message block2Num = some b2) (hx : st.cachedSzx = some x)
    (h : handleBlock2 req st = (req', st', .ok true)) :
    ∃ cached resp', st.cachedResponse = some cached ∧ req'.response = some resp' ∧
      resp'.payload.length ≤ 2 ^ (x + 4) ∧
      resp'.payload = (cached.payload.drop (b2.num * b2.size)).take (2 ^ (min b2.szx x + 4)) :=
  handleBlock2_served_within req st b2 x req' st' hb hx h

/-- … and the stored exponent IS the negotiated one in every state the per-key core can reach: after ANY
sequence of calls, a follow-up of ANY size served from the cache carries at most as many payload bytes as
the size `b` that was negotiated for exactly this cached response under this budget -/
theorem served_within_negotiated_in_any_history (M : Nat) (evs : List Ev) (req : Request) (b2 : BlockValue)
    (req' : Request) (st' : BlockState)
    (hb : firstBlock req.message block2Num = some b2)
    (h : handleBlock2 req (finalState M BlockState.default evs) = (req', st', .ok true)) :
    ∃ cached resp' lb size b,
      (finalState M BlockState.default evs).cachedResponse = some cached ∧ req'.response = some resp' ∧
      (∀ r, lb = some r → BvOk r) ∧ computeMessageSize cached = .ok size ∧
      cached.getOption block2Num = none ∧
      negotiate lb (size + tokenReserve cached) cached.payload.length M = .ok (some b) ∧
      resp'.payload.length ≤ b.size ∧
      resp'.payload = (cached.payload.drop (b2.num * b2.size)).take (2 ^ (min b2.szx b.szx + 4)) :=
  Block.served_within_negotiated_in_any_history M evs req b2 req' st' hb h

/-- … hence it fits the budget over the property's own range, with NO hypothesis about the size of the
served block: `followup_fits_over_the_range` with `hc` discharged by the state of the handler -/
theorem follow_up_of_any_size_fits (M : Nat) (evs : List Ev) (req : Request) (b2 : BlockValue)
    (req' : Request) (st' : BlockState)
    (hb : firstBlock req.message block2Num = some b2)
    (h : handleBlock2 req (finalState M BlockState.default evs) = (req', st', .ok true)) :
    ∃ cached resp' size, (finalState M BlockState.default evs).cachedResponse = some cached ∧
      req'.response = some resp' ∧ computeMessageSize cached = .ok size ∧
      ∀ (b' : BlockValue) (bs tok : Bytes), cached.options.Sorted → (∀ kv ∈ cached.options, kv.1 ≤ 65535) →
        (size - cached.payload.length) + tok.length + 28 ≤ M + cached.token.length →
        BvOk b' → b'.enc = .ok bs → tok.length ≤ 8 → cached.token.length ≤ 8 →
        wireLen (toMsg { (cached.setOption block2Num [bs]) with payload := resp'.payload, token := tok }) ≤ M := by
  obtain ⟨cached, resp', lb, size, b, hc, hr, hlb, hsz, hno, hn, hlen, _⟩ :=
    Block.served_within_negotiated_in_any_history M evs req b2 req' st' hb h
  refine ⟨cached, resp', size, hc, hr, hsz, ?_⟩
  intro b' bs tok hs hk hrange hb' hbs htok hptok
  exact Block.followup_fits_range cached lb M size b b' bs resp'.payload tok hs hk hno hlb hsz hn hrange
    hb' hbs hlen htok hptok

/-- … AT THE LEVEL OF THE HANDLER, with its cache and clock, inside arbitrary traffic: after ANY monotone
history of calls on a fresh handler (any keys, any interleaving, entries expiring), a request `e` – for any
key, at any later time – whose Block1 stage passes and whose Block2 option, naming ANY size, is served
from the cache gets as `intercept_request`'s observable result a reply with at most as many payload bytes
as the size `b` negotiated for the cached response under this handler's budget, and they are the bytes
at the offset the client named. (`state_inv_gen`, `Lemmas/BlockStateInv.lean`: an invariant of the
per-key core holds of the state in effect for every key in every reachable handler.) -/
theorem served_follow_up_in_any_handler_history (M ttl : Nat) (evs : List Ev) (hm : Mono 0 evs) (e : Ev)
    (hreq : e.isResp = false) (hlate : ∀ e' ∈ evs, e'.now ≤ e.now)
    (req1 req' : Request) (st1 st' : BlockState) (b2 : BlockValue) :
    let h := evs.foldl (fun h e => (stepEv h e).1) (Handler.new M ttl)
    handleBlock1 e.req M (effective h e.key e.now) = (req1, st1, .ok false) →
    firstBlock req1.message block2Num = some b2 →
    handleBlock2 req1 st1 = (req', st', .ok true) →
    (stepEv h e).2 = (req', .ok true) ∧
    ∃ cached resp' lb size b, st1.cachedResponse = some cached ∧ req'.response = some resp' ∧
      (∀ r, lb = some r → BvOk r) ∧ computeMessageSize cached = .ok size ∧
      cached.getOption block2Num = none ∧
      negotiate lb (size + tokenReserve cached) cached.payload.length M = .ok (some b) ∧
      resp'.payload.length ≤ b.size ∧
      resp'.payload = (cached.payload.drop (b2.num * b2.size)).take (2 ^ (min b2.szx b.szx + 4)) :=
  Block.served_follow_up_in_any_handler_history M ttl evs hm e hreq hlate req1 req' st1 st' b2

/-! non-vacuity, through the cores: budget 64, a 200-byte body – the handler negotiates 32-byte blocks and
stores exponent 1; a follow-up asking for block 0 at size 1024 (`Block2 = 0x06`) is served from the cache
with 32 payload bytes -/
private def exBody : Bytes := List.replicate 200 0x41
private def exReq0 : Request :=
  { message := { Packet.new with options := [(11, [[0x74]])] },
    response := some { Packet.new with payload := exBody }, source := some 1 }
private def exFollowUp : Request :=
  { message := { Packet.new with options := [(11, [[0x74]]), (23, [[0x06]])] },
    response := some Packet.new, source := some 1 }
example : (coreResponse 64 exReq0 BlockState.default).2.1.cachedSzx = some 1 := by decide +kernel
example : (coreRequest 64 exFollowUp (coreResponse 64 exReq0 BlockState.default).2.1).2.2 = .ok true ∧
    (coreRequest 64 exFollowUp (coreResponse 64 exReq0 BlockState.default).2.1).1.response.map
      (·.payload.length) = some 32 := by decide +kernel

/-- renumbering: block 1 at size 1024 under a negotiated size of 32 is block 32 at size 32; a number that
no longer fits 20 bits is refused (4.00) -/
example : clampBlock { num := 1, more := false, szx := 6 } (some 1) =
    .ok { num := 32, more := false, szx := 1 } := by decide
example : clampBlock { num := 40000, more := false, szx := 6 } (some 1) = badRequest := by decide
example : clampBlock { num := 3, more := true, szx := 0 } (some 1) =
    .ok { num := 3, more := true, szx := 0 } := by decide

/-! non-vacuity: budget 64, overhead 6+… -/
example : negotiate none 106 100 64 = .ok (some { num := 0, more := true, szx := 1 }) := by decide
example : negotiate (some { num := 0, more := false, szx := 6 }) 106 100 64 =
    .ok (some { num := 0, more := true, szx := 1 }) := by decide
example : negotiate (some { num := 2, more := false, szx := 0 }) 106 100 64 =
    .ok (some { num := 2, more := true, szx := 0 }) := by decide

/-! ### tie to the source: the state the model carries is the state the code carries

`Shapes.*` (Generated/Shapes.lean) is re-read from /repo/src on every run: the field lists of the
structs this property's model mirrors, and every construct that introduces state outside the values
the API passes around (thread-locals, `static mut`, cells, locks, atomics). The model accounts for
exactly these fields (Lemmas/Shape/*.lean say which model field mirrors which); a field or a
global added to the code – a memo, a marker, a digest in place of the data – breaks this theorem
even if no explored input behaves differently. -/
theorem state_shape_matches_source :
    Shapes.globalState = [] ∧
    Shapes.blockHandler = [("config", "BlockHandlerConfig"), ("states", "LruCache<RequestCacheKey<Endpoint>,BlockState>")] ∧
    Shapes.blockHandlerConfig = [("cache_expiry_duration", "Duration"), ("max_total_message_size", "usize")] ∧
    Shapes.requestCacheKey = [("path", "Vec<Vec<u8>>"), ("request_type_ord", "u8"), ("requester", "Option<Endpoint>")] ∧
    Shapes.blockState = [("cached_request_payload", "Option<Vec<u8>>"), ("cached_response", "Option<Packet>"),
     ("cached_response_size_exponent", "Option<u8>"), ("last_request_block2", "Option<BlockValue>")] ∧
    Shapes.blockValue = [("more", "bool"), ("num", "u16"), ("size_exponent", "u8")] ∧
    Shapes.coapRequest = [("message", "Packet"), ("response", "Option<CoapResponse>"), ("source", "Option<Endpoint>")] ∧
    Shapes.coapResponse = [("message", "Packet")] ∧
    Shapes.packet = [("header", "Header"), ("options", "BTreeMap<u16,LinkedList<Vec<u8>>>"), ("payload", "Vec<u8>"), ("token", "Vec<u8>")] ∧
    Shapes.header = [("code", "MessageClass"), ("message_id", "u16"), ("ver_type_tkl", "u8")] ∧
    Shapes.headerRaw = [("code", "u8"), ("message_id", "u16"), ("ver_type_tkl", "u8")] :=
  ⟨ShapeTie.no_global_state, ShapeTie.blockHandler, ShapeTie.blockHandlerConfig, ShapeTie.requestCacheKey, ShapeTie.blockState, ShapeTie.blockValue, ShapeTie.coapRequest, ShapeTie.coapResponse, ShapeTie.packet, ShapeTie.header, ShapeTie.headerRaw⟩

/-- the public entry points of the modelled source files – re-read from /repo/src on every run – are
exactly the ones the model was written against (`Lemmas/Shape/Api.lean`): a new public way to change the
state this property is about, or a receiver that became `&mut self`, breaks this theorem -/
theorem api_surface_matches_source :
    Shapes.apiBlockHandler = ShapeTie.expectedApiBlockHandler ∧
    Shapes.apiBlockValue = ShapeTie.expectedApiBlockValue :=
  ⟨ShapeTie.apiBlockHandler, ShapeTie.apiBlockValue⟩

end CoapLite.C10
