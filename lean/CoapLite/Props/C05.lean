/-
C05 — protocol numbers match the IANA/RFC registries and map one-to-one.

Every table mentioned here is REGENERATED from /repo/src on every run
(`CoapLite.Generated.Tables`); the registry is hand-transcribed
(`spec/registry.json` → `CoapLite.Spec.Registry`).  All statements quantify
over the whole number space (unbounded `Nat`, a fortiori all u8/u16 values).
-/
import CoapLite.Lemmas.Shape.Api
import CoapLite.Model.Header
import CoapLite.Spec.Registry
import CoapLite.Lemmas.Shape.Packet
import CoapLite.Lemmas.Shape.Global

namespace CoapLite.C05
open CoapLite

/-! ## option numbers -/

theorem opt_num_name_num (n : Nat) : CoapOption.toU16 (CoapOption.ofU16 n) = n := by
  unfold CoapOption.ofU16; split <;> simp [CoapOption.toU16]

theorem opt_name_num_name (o : CoapOption) :
    CoapOption.ofU16 (CoapOption.toU16 o) = o ∨ ∃ k, o = .Unknown k := by
  cases o <;> simp [CoapOption.toU16, CoapOption.ofU16]

theorem opt_registry :
    ∀ p ∈ Registry.options, CoapOption.ofU16 p.2 = p.1 ∧ CoapOption.toU16 p.1 = p.2 := by
  decide

theorem opt_unassigned (n : Nat) (h : n ∉ Registry.options.map (·.2)) :
    CoapOption.ofU16 n = .Unknown n := by
  unfold CoapOption.ofU16; split <;> simp_all [Registry.options]

theorem opt_named_in_registry (o : CoapOption) :
    o ∈ Registry.options.map (·.1) ∨ ∃ k, o = .Unknown k := by
  cases o <;> simp [Registry.options]


/-! ## content formats (`TryFrom<usize>` / `From<ContentFormat> for usize`) -/

theorem cf_num_name_num (n : Nat) (c : ContentFormat) (h : ContentFormat.ofUsize? n = some c) :
    ContentFormat.toUsize c = n := by
  unfold ContentFormat.ofUsize? at h
  split at h <;> first | (injection h with h; subst h; rfl) | simp at h

theorem cf_name_num_name (c : ContentFormat) :
    ContentFormat.ofUsize? (ContentFormat.toUsize c) = some c := by
  cases c <;> rfl

theorem cf_registry :
    ∀ p ∈ Registry.contentFormats,
      ContentFormat.ofUsize? p.2 = some p.1 ∧ ContentFormat.toUsize p.1 = p.2 := by
  decide

theorem cf_assigned_or_none (n : Nat) :
    n ∈ Registry.contentFormats.map (·.2) ∨ ContentFormat.ofUsize? n = none := by
  unfold ContentFormat.ofUsize?
  split <;> first | (left; decide) | (right; rfl)

theorem cf_unassigned (n : Nat) (h : n ∉ Registry.contentFormats.map (·.2)) :
    ContentFormat.ofUsize? n = none := by
  rcases cf_assigned_or_none n with h' | h'
  · exact absurd h' h
  · exact h'

theorem cf_named_in_registry (c : ContentFormat) : c ∈ Registry.contentFormats.map (·.1) := by
  cases c <;> simp [Registry.contentFormats]

/-- every content-format id fits the 16-bit option value (`u16::try_from(..).unwrap()`
in `set_content_format` never panics) -/
theorem cf_fits_u16 (c : ContentFormat) : ContentFormat.toUsize c < 65536 := by
  cases c <;> decide

/-! ## observe actions -/

theorem obs_num_name_num (n : Nat) (o : ObserveOption) (h : ObserveOption.ofUsize? n = some o) :
    ObserveOption.toUsize o = n := by
  unfold ObserveOption.ofUsize? at h
  split at h <;> first | (injection h with h; subst h; rfl) | simp at h

theorem obs_name_num_name (o : ObserveOption) :
    ObserveOption.ofUsize? (ObserveOption.toUsize o) = some o := by
  cases o <;> rfl

theorem obs_registry :
    ∀ p ∈ Registry.observe,
      ObserveOption.ofUsize? p.2 = some p.1 ∧ ObserveOption.toUsize p.1 = p.2 := by
  decide

theorem obs_unassigned (n : Nat) (h : n ∉ Registry.observe.map (·.2)) :
    ObserveOption.ofUsize? n = none := by
  unfold ObserveOption.ofUsize?; split <;> simp_all [Registry.observe]

theorem obs_named_in_registry (o : ObserveOption) : o ∈ Registry.observe.map (·.1) := by
  cases o <;> simp [Registry.observe]

/-! ## message codes (`From<u8> for MessageClass` / `From<MessageClass> for u8`) -/

theorem code_num_name_num (n : Nat) : MessageClass.toU8 (MessageClass.ofU8 n) = n := by
  unfold MessageClass.ofU8; split <;> simp [MessageClass.toU8]

/-- every named method / response code goes name → number → name -/
theorem method_registry :
    ∀ p ∈ Registry.methods,
      MessageClass.ofU8 p.2 = .Request p.1 ∧ MessageClass.toU8 (.Request p.1) = p.2 := by
  decide

theorem response_registry :
    ∀ p ∈ Registry.responses,
      MessageClass.ofU8 p.2 = .Response p.1 ∧ MessageClass.toU8 (.Response p.1) = p.2 := by
  decide

theorem method_named_in_registry (m : RequestType) :
    m ∈ Registry.methods.map (·.1) ∨ m = .UnKnown := by
  cases m <;> simp [Registry.methods]

theorem response_named_in_registry (r : ResponseType) :
    r ∈ Registry.responses.map (·.1) ∨ r = .UnKnown := by
  cases r <;> simp [Registry.responses]

/-- unassigned code bytes are reported as `Reserved`, never aliased to a name -/
theorem code_unassigned (n : Nat) (h0 : n ≠ 0)
    (h1 : n ∉ Registry.methods.map (·.2)) (h2 : n ∉ Registry.responses.map (·.2)) :
    MessageClass.ofU8 n = .Reserved n := by
  unfold MessageClass.ofU8; split <;> simp_all [Registry.methods, Registry.responses]

theorem code_zero_is_empty : MessageClass.ofU8 0 = .Empty ∧ MessageClass.toU8 .Empty = 0 := by
  decide

/-! ## message types (2-bit field of the first header byte) -/

theorem type_registry :
    ∀ p ∈ Registry.types,
      MessageType.ofBits? p.2 = some p.1 ∧ MessageType.toBits p.1 = p.2 := by
  decide

theorem type_num_name_num (n : Nat) (t : MessageType) (h : MessageType.ofBits? n = some t) :
    MessageType.toBits t = n := by
  unfold MessageType.ofBits? at h
  split at h <;> first | (injection h with h; subst h; rfl) | simp at h

theorem type_total (n : Nat) (h : n < 4) : (MessageType.ofBits? n).isSome := by
  have : n = 0 ∨ n = 1 ∨ n = 2 ∨ n = 3 := by omega
  rcases this with h | h | h | h <;> subst h <;> rfl

theorem type_named_in_registry (t : MessageType) : t ∈ Registry.types.map (·.1) := by
  cases t <;> simp [Registry.types]

/-- over all 256 first header bytes: `get_type` never hits `unreachable!()` and
`set_type` then `get_type` is the identity, leaving version and token length alone -/
theorem header_type_all_bytes :
    ∀ (b : Fin 256), ∀ t ∈ MessageType.allNullary,
      let h : Header := { vtt := UInt8.ofNat b.val, code := .Empty, mid := 0 }
      h.getType.map MessageType.toBits = .ok h.typeBits ∧
      (h.setType t).getType = .ok t ∧
      (h.setType t).getVersion = h.getVersion ∧
      (h.setType t).getTkl = h.getTkl := by
  decide +kernel

theorem type_allNullary_complete (t : MessageType) : t ∈ MessageType.allNullary := by
  cases t <;> decide

/-! ## dotted text form `c.dd` -/

theorem code_text_roundtrip :
    ∀ b : Fin 256, parseCode (fmtCode b.val) = .ok b.val := by
  decide +kernel

theorem code_text_shape :
    ∀ b : Fin 256, (fmtCode b.val).length = 4 ∧ (fmtCode b.val)[1]? = some '.' := by
  decide +kernel

/-! ## `is_error` ⇔ code byte ≥ 4.00 -/

theorem is_error_iff (r : ResponseType) :
    ResponseType.isError r = true ↔ MessageClass.toU8 (.Response r) ≥ 0x80 := by
  cases r <;> decide

/-! ### tie to the source: the state the model carries is the state the code carries

`Shapes.*` (Generated/Shapes.lean) is re-read from /repo/src on every run: the field lists of the
structs this property's model mirrors, and every construct that introduces state outside the values
the API passes around (thread-locals, `static mut`, cells, locks, atomics). The model accounts for
exactly these fields (Lemmas/Shape/*.lean say which model field mirrors which); a field or a
global added to the code – a memo, a marker, a digest in place of the data – breaks this theorem
even if no explored input behaves differently. -/
theorem state_shape_matches_source :
    Shapes.globalState = [] ∧
    Shapes.packet = [("header", "Header"), ("options", "BTreeMap<u16,LinkedList<Vec<u8>>>"), ("payload", "Vec<u8>"), ("token", "Vec<u8>")] ∧
    Shapes.header = [("code", "MessageClass"), ("message_id", "u16"), ("ver_type_tkl", "u8")] ∧
    Shapes.headerRaw = [("code", "u8"), ("message_id", "u16"), ("ver_type_tkl", "u8")] :=
  ⟨ShapeTie.no_global_state, ShapeTie.packet, ShapeTie.header, ShapeTie.headerRaw⟩

/-- the public entry points of the modelled source files – re-read from /repo/src on every run – are
exactly the ones the model was written against (`Lemmas/Shape/Api.lean`): a new public way to change the
state this property is about, or a receiver that became `&mut self`, breaks this theorem -/
theorem api_surface_matches_source :
    Shapes.apiPacket = ShapeTie.expectedApiPacket ∧
    Shapes.apiHeader = ShapeTie.expectedApiHeader :=
  ⟨ShapeTie.apiPacket, ShapeTie.apiHeader⟩

end CoapLite.C05
