/-
C20 — Cached block-transfer state lives exactly as long as configured.
Model: Model/Lru.lean (transcribed from lru_time_cache 0.11.11) under
Model/Block.lean; time is an explicit, monotone `now`.  Heap reclamation itself
is observed by the harness (counting allocator), not proved: the theorems show
removal from the cache.
-/
import CoapLite.Lemmas.BlockTrace

namespace CoapLite.C20
open CoapLite Block

/-- every handler state reachable by a monotone history satisfies the cache
invariant (distinct keys, timestamps sorted in LRU order) and – reclamation –
right after a call no physical entry remains that had expired by then -/
theorem reachable (M ttl : Nat) (evs : List Ev) (hm : Mono 0 evs) (h : Handler)
    (hr : h = evs.foldl (fun h e => (stepEv h e).1) (Handler.new M ttl)) :
    h.maxSize = M ∧ h.cache.ttl = ttl ∧
    (∀ t, (∀ e ∈ evs, e.now ≤ t) → Lru.Inv h.cache t) ∧
    (∀ last, evs.getLast? = some last → ∀ e ∈ h.cache.entries, last.now ≤ e.2.2 + ttl) :=
  reachable_inv M ttl evs hm h hr

/-- Retention and expiry: the state a call at time `e.now` leaves for its key is
exactly what the next call for that key works on at any time
`t' ≤ e.now + ttl`, whatever calls for other keys happen in between (any number
of them); once it has been idle for longer than `ttl` the next call starts from
the default state: no cached response (a follow-up block request goes to the
application) and no upload buffer (an upload continues from an empty one). -/
theorem retention_and_expiry (h : Handler) (t : Nat) (e : Ev) (others : List Ev) (t' : Nat)
    (hi : Lru.Inv h.cache t) (ht : t ≤ e.now)
    (hm : Mono e.now others) (hk : ∀ o ∈ others, o.key ≠ e.key)
    (hlast : ∀ o ∈ others, o.now ≤ t') (hle : e.now ≤ t') :
    let h1 := (stepEv h e).1
    let st1 := (if e.isResp then coreResponse h.maxSize e.req (effective h e.key e.now)
                else coreRequest h.maxSize e.req (effective h e.key e.now)).2.1
    let h2 := others.foldl (fun h o => (stepEv h o).1) h1
    effective h2 e.key t' = if t' ≤ e.now + h.cache.ttl then st1 else BlockState.default :=
  Block.retention_and_expiry h t e others t' hi ht hm hk hlast hle

/-- the default state has neither a cached response nor an upload buffer -/
theorem default_state_is_empty :
    BlockState.default.cachedResponse = none ∧ BlockState.default.cachedPayload = none ∧
    BlockState.default.lastBlock2 = none := ⟨rfl, rfl, rfl⟩

/-- the cache itself: an entry idle for longer than `ttl` is never seen again -/
theorem expired_entry_invisible {K V : Type} [DecidableEq K] (c : Lru.Cache K V) (k : K) (v : V)
    (t now : Nat) (hf : Lru.find c k = some (v, t)) (hexp : t + c.ttl < now) :
    Lru.peek c k now = none :=
  Lru.peek_expired c k v t now hf hexp

/-- the boundary is exact: idle for exactly `ttl` is still alive -/
example : Lru.alive 1000 2000 1000 = true ∧ Lru.alive 1000 2001 1000 = false := by decide

end CoapLite.C20
