/-
C20 — Cached block-transfer state lives exactly as long as configured.
Model: Model/Lru.lean (transcribed from lru_time_cache 0.11.11) under
Model/Block.lean; time is an explicit, monotone `now`.  Heap reclamation itself
is observed by the harness (counting allocator), not proved: the theorems show
removal from the cache.
-/
import CoapLite.Lemmas.Shape.Api
import CoapLite.Lemmas.BlockTrace
import CoapLite.Lemmas.Shape.Block
import CoapLite.Lemmas.Shape.BlockValue
import CoapLite.Lemmas.Shape.Request
import CoapLite.Lemmas.Shape.Packet
import CoapLite.Lemmas.Shape.Global

namespace CoapLite.C20
open CoapLite Block

/-- every handler state reachable by a monotone history satisfies the cache
invariant (distinct keys, timestamps sorted in LRU order) and – reclamation –
right after a call no physical entry remains that had expired by then -/
theorem reachable (M ttl : Nat) (evs : List Ev) (hm : Mono 0 evs) (h : Handler)
    (hr : h = evs.foldl (fun h e => (stepEv h e).1) (Handler.new M ttl)) :
    h.maxSize = M ∧ h.cache.ttl = ttl ∧
    (∀ t, (∀ e ∈ evs, e.now ≤ t) → Lru.Inv h.cache t) ∧
    (∀ last, evs.getLast? = some last → ∀ e ∈ h.cache.entries, last.now ≤ e.2.2 + ttl) :=
  reachable_inv M ttl evs hm h hr

/-- Retention and expiry: the state a call at time `e.now` leaves for its key is
exactly what the next call for that key works on at any time
`t' ≤ e.now + ttl`, whatever calls for other keys happen in between (any number
of them); once it has been idle for longer than `ttl` the next call starts from
the default state: no cached response (a follow-up block request goes to the
application) and no upload buffer (an upload continues from an empty one). -/
theorem retention_and_expiry (h : Handler) (t : Nat) (e : Ev) (others : List Ev) (t' : Nat)
    (hi : Lru.Inv h.cache t) (ht : t ≤ e.now)
    (hm : Mono e.now others) (hk : ∀ o ∈ others, o.key ≠ e.key)
    (hlast : ∀ o ∈ others, o.now ≤ t') (hle : e.now ≤ t') :
    let h1 := (stepEv h e).1
    let st1 := (if e.isResp then coreResponse h.maxSize e.req (effective h e.key e.now)
                else coreRequest h.maxSize e.req (effective h e.key e.now)).2.1
    let h2 := others.foldl (fun h o => (stepEv h o).1) h1
    effective h2 e.key t' = if t' ≤ e.now + h.cache.ttl then st1 else BlockState.default :=
  Block.retention_and_expiry h t e others t' hi ht hm hk hlast hle

/-- the default state has neither a cached response nor an upload buffer -/
theorem default_state_is_empty :
    BlockState.default.cachedResponse = none ∧ BlockState.default.cachedPayload = none ∧
    BlockState.default.lastBlock2 = none := ⟨rfl, rfl, rfl⟩

/-- … so once the state has expired (the effective state is the default one), a follow-up block request –
no Block1 option, small enough to pass the Block1 stage – is passed to the application like a fresh
request (`ok false`), with no reply filled in by the handler -/
theorem expired_follow_up_reaches_the_application (M : Nat) (req : Request) (size : Nat)
    (hb1 : firstBlock req.message block1Num = none)
    (hsz : computeMessageSize req.message = .ok size)
    (hn : negotiate none size req.message.payload.length M = .ok none) :
    coreRequest M req BlockState.default =
      (req, { BlockState.default with lastBlock2 := firstBlock req.message block2Num }, .ok false) := by
  have hp := handleBlock1_pass req M BlockState.default size hb1 hsz hn
  rcases coreRequest_cases M req BlockState.default with ⟨_, hne⟩ | ⟨_, h⟩
  · rw [hp] at hne; exact absurd rfl hne
  · rw [h, hp]
    exact handleBlock2_pass req BlockState.default (Or.inr rfl)

/-- … and an upload continues from an EMPTY buffer: block `num` of an upload arriving after the state has
expired (default state) is spliced at its offset into nothing – what is buffered (non-final block) or
handed to the application (final block) is `num · size` zero bytes followed by the block's payload,
nothing of what was buffered before the expiry -/
theorem expired_upload_continues_from_empty (req : Request) (M : Nat) (rb1 resp1 : BlockValue)
    (size : Nat) (resp : Packet)
    (hb : firstBlock req.message block1Num = some rb1)
    (hsz : computeMessageSize req.message = .ok size)
    (hn : negotiate (some rb1) size req.message.payload.length M = .ok (some resp1))
    (hr : req.response = some resp) (hok : BvOk resp1)
    (hjump : rb1.num * rb1.size + rb1.size ≤ Consts.maxUncommittedReserve) :
    ∃ bs resp', resp1.enc = .ok bs ∧ resp' = resp.addOption block1Num bs ∧
      handleBlock1 req M BlockState.default =
        if rb1.more then
          ({ req with response := some (setCode resp' .Continue) },
           { BlockState.default with
               cachedPayload := some (List.replicate (rb1.num * rb1.size) 0 ++ req.message.payload) }, .ok true)
        else
          ({ req with
              message := { req.message with payload := (List.replicate (rb1.num * rb1.size) 0 ++ req.message.payload) },
              response := some resp' },
           { BlockState.default with cachedPayload := none }, .ok false) := by
  apply handleBlock1_step req M BlockState.default rb1 resp1 size resp _ hb hsz hn hr hok
  have he : (if rb1.num = 0 then ([] : Bytes) else BlockState.default.cachedPayload.getD []) = [] := by
    split <;> rfl
  rw [he]
  unfold extendingSplice
  simp only [List.length_nil, ge_iff_le, Nat.zero_le, ↓reduceIte, Nat.sub_zero, List.nil_append]
  rw [if_neg (by omega)]
  simp

/-- the cache itself: an entry idle for longer than `ttl` is never seen again -/
theorem expired_entry_invisible {K V : Type} [DecidableEq K] (c : Lru.Cache K V) (k : K) (v : V)
    (t now : Nat) (hf : Lru.find c k = some (v, t)) (hexp : t + c.ttl < now) :
    Lru.peek c k now = none :=
  Lru.peek_expired c k v t now hf hexp

/-- the boundary is exact: idle for exactly `ttl` is still alive -/
example : Lru.alive 1000 2000 1000 = true ∧ Lru.alive 1000 2001 1000 = false := by decide

/-! ### tie to the source: the state the model carries is the state the code carries

`Shapes.*` (Generated/Shapes.lean) is re-read from /repo/src on every run: the field lists of the
structs this property's model mirrors, and every construct that introduces state outside the values
the API passes around (thread-locals, `static mut`, cells, locks, atomics). The model accounts for
exactly these fields (Lemmas/Shape/*.lean say which model field mirrors which); a field or a
global added to the code – a memo, a marker, a digest in place of the data – breaks this theorem
even if no explored input behaves differently. -/
theorem state_shape_matches_source :
    Shapes.globalState = [] ∧
    Shapes.blockHandler = [("config", "BlockHandlerConfig"), ("states", "LruCache<RequestCacheKey<Endpoint>,BlockState>")] ∧
    Shapes.blockHandlerConfig = [("cache_expiry_duration", "Duration"), ("max_total_message_size", "usize")] ∧
    Shapes.requestCacheKey = [("path", "Vec<Vec<u8>>"), ("request_type_ord", "u8"), ("requester", "Option<Endpoint>")] ∧
    Shapes.blockState = [("cached_request_payload", "Option<Vec<u8>>"), ("cached_response", "Option<Packet>"),
     ("cached_response_size_exponent", "Option<u8>"), ("last_request_block2", "Option<BlockValue>")] ∧
    Shapes.blockValue = [("more", "bool"), ("num", "u16"), ("size_exponent", "u8")] ∧
    Shapes.coapRequest = [("message", "Packet"), ("response", "Option<CoapResponse>"), ("source", "Option<Endpoint>")] ∧
    Shapes.coapResponse = [("message", "Packet")] ∧
    Shapes.packet = [("header", "Header"), ("options", "BTreeMap<u16,LinkedList<Vec<u8>>>"), ("payload", "Vec<u8>"), ("token", "Vec<u8>")] ∧
    Shapes.header = [("code", "MessageClass"), ("message_id", "u16"), ("ver_type_tkl", "u8")] ∧
    Shapes.headerRaw = [("code", "u8"), ("message_id", "u16"), ("ver_type_tkl", "u8")] :=
  ⟨ShapeTie.no_global_state, ShapeTie.blockHandler, ShapeTie.blockHandlerConfig, ShapeTie.requestCacheKey, ShapeTie.blockState, ShapeTie.blockValue, ShapeTie.coapRequest, ShapeTie.coapResponse, ShapeTie.packet, ShapeTie.header, ShapeTie.headerRaw⟩

/-- the public entry points of the modelled source files – re-read from /repo/src on every run – are
exactly the ones the model was written against (`Lemmas/Shape/Api.lean`): a new public way to change the
state this property is about, or a receiver that became `&mut self`, breaks this theorem -/
theorem api_surface_matches_source :
    Shapes.apiBlockHandler = ShapeTie.expectedApiBlockHandler :=
  ShapeTie.apiBlockHandler

end CoapLite.C20
