/-
C13 — Block option values encode and decode per RFC 7959 §2.2.
Model: `CoapLite.Model.BlockValue` (tied to the code by domain BV).
-/
import CoapLite.Lemmas.Shape.Api
import CoapLite.Model.BlockValue
import CoapLite.Lemmas.Uint
import CoapLite.Lemmas.Shape.BlockValue
import CoapLite.Lemmas.Shape.Global

namespace CoapLite.C13
open CoapLite Spec BlockValue

/-- the encoding is the minimal-length unsigned integer `NUM<<4 | M<<3 | SZX`,
for every value the type can hold -/
theorem enc_minimal (b : BlockValue) (hn : b.num < 65536) :
    enc b = .ok (minimalBE (b.num * 16 + (if b.more then 8 else 0) + b.szx % 8)) := by
  unfold enc scalar
  apply optionFromUint_eq
  have : (if b.more then 8 else 0) ≤ 8 := by split <;> omega
  have : b.szx % 8 < 8 := Nat.mod_lt _ (by omega)
  have : (256 : Nat) ^ 4 = 4294967296 := by decide
  omega

/-- decoding reads every byte string of at most three bytes whose number fits
16 bits as `(value/16, bit 3, value mod 8)` and rejects everything else: a block
number is never silently truncated -/
theorem dec_spec (bs : Bytes) :
    dec bs =
      if bs.length ≤ 3 ∧ beValue bs / 16 ≤ 65535 then
        .ok { num := beValue bs / 16, more := (beValue bs / 8) % 2 == 1, szx := beValue bs % 8 }
      else .err .other := by
  unfold dec
  by_cases h : bs.length > 3
  · simp [h]; omega
  · have h4 : bs.length ≤ 4 := by omega
    simp only [h, ↓reduceIte, optionToUint_eq, h4]
    by_cases h2 : beValue bs / 16 > 65535
    · simp [h2]
    · simp [h2]; omega

theorem dec_never_panics (bs : Bytes) : dec bs ≠ .panic := by
  rw [dec_spec]; split <;> simp

/-- encode then decode is the identity on the whole type
(num 0..65535 × more × szx 0..7) -/
theorem dec_enc (b : BlockValue) (hn : b.num < 65536) (hs : b.szx < 8) :
    ∃ bs, enc b = .ok bs ∧ dec bs = .ok b := by
  refine ⟨_, enc_minimal b hn, ?_⟩
  rw [dec_spec, beValue_minimalBE]
  have hsz : b.szx % 8 = b.szx := Nat.mod_eq_of_lt hs
  rw [hsz]
  obtain ⟨num, more, szx⟩ := b
  simp only at hn hs ⊢
  have hlen : (minimalBE (num * 16 + (if more then 8 else 0) + szx)).length ≤ 3 := by
    apply minimalBE_length_le
    have : (256 : Nat) ^ 3 = 16777216 := by decide
    have : (if more then 8 else 0) ≤ 8 := by split <;> omega
    omega
  cases more
  · simp only [Bool.false_eq_true, ↓reduceIte, Nat.add_zero] at hlen ⊢
    have h1 : (num * 16 + szx) / 16 = num := by omega
    have h2 : (num * 16 + szx) / 8 % 2 = 0 := by omega
    have h3 : (num * 16 + szx) % 8 = szx := by omega
    simp [hlen, h1, h2, h3]; omega
  · simp only [↓reduceIte] at hlen ⊢
    have h1 : (num * 16 + 8 + szx) / 16 = num := by omega
    have h2 : (num * 16 + 8 + szx) / 8 % 2 = 1 := by omega
    have h3 : (num * 16 + 8 + szx) % 8 = szx := by omega
    simp [hlen, h1, h2, h3]; omega

/-! ### construction from a byte size -/

theorem largest_small_aux :
    ∀ a : Fin 64, ∀ b : Fin 64, a.val * 64 + b.val ≠ 0 →
      largestPow2NotInExcess (a.val * 64 + b.val) = some (Nat.log2 (a.val * 64 + b.val)) := by
  decide +kernel

theorem largest_small (sz : Fin 4096) (h : sz.val ≠ 0) :
    largestPow2NotInExcess sz.val = some (Nat.log2 sz.val) := by
  have := largest_small_aux ⟨sz.val / 64, by omega⟩ ⟨sz.val % 64, by omega⟩
  simp only at this
  have e : sz.val / 64 * 64 + sz.val % 64 = sz.val := by omega
  rw [e] at this
  exact this h

theorem largest_big (sz : Nat) (h : 4096 ≤ sz) :
    ∃ e, largestPow2NotInExcess sz = some e ∧ 12 ≤ e := by
  unfold largestPow2NotInExcess
  have h0 : sz ≠ 0 := by omega
  simp only [h0, ↓reduceIte]
  cases hf : (List.range 64).find? (fun i => 2 ^ i > sz) with
  | none => exact ⟨64, rfl, by omega⟩
  | some i =>
    refine ⟨i - 1, rfl, ?_⟩
    have hp := List.find?_some hf
    simp only [gt_iff_lt, decide_eq_true_eq] at hp
    have : ¬ i ≤ 12 := by
      intro hi
      have : 2 ^ i ≤ 2 ^ 12 := Nat.pow_le_pow_right (by omega) hi
      omega
    omega

/-- `BlockValue::new` picks the largest power of two not exceeding `size`
(exponent `⌊log₂ size⌋`), but at least 16 -/
theorem new_ok (num : Nat) (more : Bool) (sz : Nat)
    (h1 : 1 ≤ sz) (h2 : sz < 4096) (hn : num ≤ 65535) :
    BlockValue.new num more sz = .ok { num := num, more := more, szx := Nat.log2 sz - 4 } := by
  unfold BlockValue.new
  have := largest_small ⟨sz, h2⟩ (by simpa using (by omega : sz ≠ 0))
  simp only at this
  rw [this]
  have hl : Nat.log2 sz < 12 := by
    have : sz < 2 ^ 12 := by simpa using h2
    exact (Nat.log2_lt (by omega)).2 this
  have h7 : ¬ (Nat.log2 sz - 4 > 7) := by omega
  have hn' : ¬ (num > 65535) := by omega
  simp [h7, hn']

/-- what `⌊log₂⌋` means here: the chosen block size is a power of two, at most
`size` (when `size ≥ 16`) and more than half of it; never below 16 -/
theorem new_size_bounds (num : Nat) (more : Bool) (sz : Nat) (b : BlockValue)
    (h1 : 1 ≤ sz) (h2 : sz < 4096) (hn : num ≤ 65535)
    (hb : BlockValue.new num more sz = .ok b) :
    16 ≤ b.size ∧ (16 ≤ sz → b.size ≤ sz ∧ sz < 2 * b.size) := by
  rw [new_ok num more sz h1 h2 hn] at hb
  injection hb with hb
  subst hb
  simp only [BlockValue.size]
  have hne : sz ≠ 0 := by omega
  constructor
  · have : 2 ^ 4 ≤ 2 ^ (Nat.log2 sz - 4 + 4) := Nat.pow_le_pow_right (by omega) (by omega)
    simpa using this
  · intro h16
    have hge : 4 ≤ Nat.log2 sz := (Nat.le_log2 hne).2 (by simpa using h16)
    have he : Nat.log2 sz - 4 + 4 = Nat.log2 sz := by omega
    rw [he]
    refine ⟨Nat.log2_self_le hne, ?_⟩
    have := Nat.lt_log2_self (n := sz)
    rw [Nat.pow_succ] at this
    omega

/-- it fails – rather than wrapping or truncating – when the size is 0, is 4096
or above, or the block number cannot be represented -/
theorem new_err (num : Nat) (more : Bool) (sz : Nat)
    (h : sz = 0 ∨ 4096 ≤ sz ∨ 65535 < num) :
    BlockValue.new num more sz = .err .other := by
  unfold BlockValue.new
  rcases h with h | h | h
  · subst h; simp [largestPow2NotInExcess]
  · obtain ⟨e, he, h12⟩ := largest_big sz h
    rw [he]
    have : e - 4 > 7 := by omega
    simp [this]
  · cases hl : largestPow2NotInExcess sz with
    | none => rfl
    | some e =>
      simp only
      split
      · rfl
      · simp

theorem new_never_panics (num : Nat) (more : Bool) (sz : Nat) :
    BlockValue.new num more sz ≠ .panic := by
  unfold BlockValue.new
  split
  · simp
  · simp only; split
    · simp
    · split <;> simp

/-! non-vacuity -/
example : BlockValue.new 3 true 1158 = .ok { num := 3, more := true, szx := 6 } := by decide
example : BlockValue.new 0 false 5 = .ok { num := 0, more := false, szx := 0 } := by decide
example : ∃ bs, BlockValue.enc { num := 4096, more := false, szx := 0 } = .ok bs ∧
    BlockValue.dec bs = .ok { num := 4096, more := false, szx := 0 } :=
  dec_enc _ (by decide) (by decide)
example : BlockValue.dec [0x10, 0x00, 0x00] = .err .other := by decide

/-- the reported block size is `2^(SZX+4)` -/
theorem size_eq (b : BlockValue) : b.size = 2 ^ (b.szx + 4) := rfl

/-! ### tie to the source: the state the model carries is the state the code carries

`Shapes.*` (Generated/Shapes.lean) is re-read from /repo/src on every run: the field lists of the
structs this property's model mirrors, and every construct that introduces state outside the values
the API passes around (thread-locals, `static mut`, cells, locks, atomics). The model accounts for
exactly these fields (Lemmas/Shape/*.lean say which model field mirrors which); a field or a
global added to the code – a memo, a marker, a digest in place of the data – breaks this theorem
even if no explored input behaves differently. -/
theorem state_shape_matches_source :
    Shapes.globalState = [] ∧
    Shapes.blockValue = [("more", "bool"), ("num", "u16"), ("size_exponent", "u8")] :=
  ⟨ShapeTie.no_global_state, ShapeTie.blockValue⟩

/-- the public entry points of the modelled source files – re-read from /repo/src on every run – are
exactly the ones the model was written against (`Lemmas/Shape/Api.lean`): a new public way to change the
state this property is about, or a receiver that became `&mut self`, breaks this theorem -/
theorem api_surface_matches_source :
    Shapes.apiBlockValue = ShapeTie.expectedApiBlockValue :=
  ShapeTie.apiBlockValue

end CoapLite.C13
