/-
C15 — Observe accounting: sequence strictly increases; eviction exactly past
limit.  Model: Model/Observe.lean.
-/
import CoapLite.Lemmas.Shape.Api
import CoapLite.Lemmas.Observe
import CoapLite.Lemmas.ObserveRefine
import CoapLite.Lemmas.Shape.Observe
import CoapLite.Lemmas.Shape.Global

namespace CoapLite.C15
open CoapLite Observe

/-- each notification round on an observed resource increases its sequence
number by exactly one; every observer gets the round's message id; a
confirmable round adds one to each count, a non-confirmable round adds nothing;
an observer is dropped exactly when its count then exceeds the limit -/
theorem round_spec (s : Subject) (h : Inv s) (path : String) (mid : Nat) (con : Bool) :
    (resourceChanged s path mid con).get path =
      (s.get path).map (fun r =>
        { sequence := seqNext r.sequence,
          observers := (r.observers.map (bump mid con)).filter (fun o => o.unacked ≤ s.limit) }) :=
  (changed_spec s h path mid con).1

/-- "by exactly one": the sequence number is a 32-bit counter; it goes up by one and, after 2^32
rounds, wraps to 0 instead of overflowing (RFC 7641 sequence numbers are compared modulo) -/
theorem seq_next_spec (n : Nat) :
    seqNext n < 2 ^ 32 ∧ (n + 1 < 2 ^ 32 → seqNext n = n + 1) ∧ (n = 2 ^ 32 - 1 → seqNext n = 0) :=
  seqNext_spec n

/-- only a notification round on the resource itself changes its sequence number -/
theorem sequence_step (s : Subject) (op : Op) (p : String) (r : Resource) (h : Inv s)
    (hr : s.get p = some r) :
    ∃ r', (step s op).get p = some r' ∧
      (r'.sequence = r.sequence ∨ ((∃ m c, op = .chg p m c) ∧ r'.sequence = seqNext r.sequence)) :=
  Observe.sequence_step s op p r h hr

theorem bump_spec (mid : Nat) (o : Observer) :
    (bump mid true o).unacked = o.unacked + 1 ∧ (bump mid false o).unacked = o.unacked ∧
    (bump mid true o).mid = some mid ∧ (bump mid false o).mid = some mid ∧
    (bump mid true o).token = o.token ∧ (bump mid true o).endpoint = o.endpoint := by
  simp [bump]

/-- no operation ever decreases a sequence number before the 32-bit counter wraps, so successive
notifications are strictly ordered -/
theorem sequence_mono (s : Subject) (op : Op) (p : String) (r : Resource) (h : Inv s)
    (hr : s.get p = some r) (hw : r.sequence + 1 < 2 ^ 32) :
    ∃ r', (step s op).get p = some r' ∧ r.sequence ≤ r'.sequence :=
  Observe.sequence_mono s op p r h hr hw

/-- an acknowledgement from the same endpoint for the most recent notification's
message id resets the count; acknowledgements with another endpoint or message
id change nothing -/
theorem acknowledge_spec (s : Subject) (h : Inv s) (ep mid : Nat) (path : String) :
    (acknowledge s ep mid).get path =
      (s.get path).map (fun r => { r with observers := r.observers.map (ackOne ep mid) }) :=
  (Observe.acknowledge_spec s h ep mid path).1

theorem ackOne_spec (ep mid : Nat) (o : Observer) :
    (o.endpoint = ep ∧ o.mid = some mid → ackOne ep mid o = { o with unacked := 0, mid := none }) ∧
    (¬ (o.endpoint = ep ∧ o.mid = some mid) → ackOne ep mid o = o) := by
  unfold ackOne
  constructor
  · rintro ⟨h1, h2⟩; simp [h1, h2]
  · intro h
    by_cases h1 : o.endpoint = ep <;> by_cases h2 : o.mid = some mid <;> simp_all

/-- counting never overflows whatever the limit (0..255) and however long the
history: stored counts stay ≤ 255, so `count + 1 ≤ 256 < 2^16` -/
theorem count_never_overflows (ops : List Op) (hl : LimitsOk ops) :
    (run ops).limit ≤ 255 ∧
    ∀ kv ∈ (run ops).resources, ∀ o ∈ kv.2.observers, o.unacked + 1 < 2 ^ 16 := by
  obtain ⟨h1, h2⟩ := unacked_le ops hl
  refine ⟨h1, ?_⟩
  intro kv hkv o ho
  have := h2 kv hkv o ho
  omega

/-- the notification builder: version 1, the requested type, 2.05, the given
message id, token and payload, Observe = minimal big-endian sequence -/
theorem notification_spec (mid : Nat) (tok : Bytes) (seq : Nat) (payload : Bytes) (con : Bool)
    (ht : tok.length ≤ 15) (hs : seq < 2 ^ 32) :
    ∃ p, createNotification mid tok seq payload con = .ok p ∧
      p.header.getVersion = 1 ∧
      p.header.getType = .ok (if con then .Confirmable else .NonConfirmable) ∧
      p.header.getTkl.toNat = tok.length ∧
      p.header.code = .Response .Content ∧ p.header.mid = mid ∧ p.token = tok ∧
      p.payload = payload ∧ p.options = [(6, [Spec.minimalBE seq])] ∧
      p.getObserveValue = some (.ok seq) :=
  Observe.notification_spec mid tok seq payload con ht hs

/-! ### every history, one observer at a time (refinement to a per-observer rule book)

`specStep limit p ep` (Lemmas/ObserveRefine.lean) is the whole accounting rule for the observer of
resource `p` at endpoint `ep`, written without reference to lists, other observers or other
resources: registration from `ep` on `p` ⇒ a fresh entry with count 0; a round on `p` ⇒ the count
goes up by one iff the round is confirmable, the entry records the round's message id, and the
entry disappears iff the new count exceeds the limit; an acknowledgement ⇒ count 0 iff it comes
from `ep` with the recorded id, nothing otherwise; everything else ⇒ nothing. -/

/-- for EVERY history, what the registry holds for (p, ep) is what the rule book computes for
that pair alone from the same history -/
theorem per_observer_refinement (p : String) (ep : Nat) (ops : List Op) :
    ((run ops).limit, viewOf (run ops) p ep) = specRun p ep ops (Consts.defaultUnackLimit, none) :=
  view_run p ep ops

/-- … one step at a time, from every reachable state -/
theorem per_observer_step (s : Subject) (h : Inv s) (op : Op) (p : String) (ep : Nat) :
    viewOf (step s op) p ep = specStep s.limit p ep (viewOf s p ep) op ∧
    (step s op).limit = specLimit s.limit op :=
  view_step s h op p ep

/-- the rule book, read off: an observer is dropped by a round exactly when its count of
confirmable notifications since its last acknowledgement or registration then exceeds the limit;
a non-confirmable round does not count -/
theorem dropped_iff (limit : Nat) (p : String) (ep m : Nat) (o : Observer) :
    (specStep limit p ep (some o) (.chg p m true) = none ↔ limit < o.unacked + 1) ∧
    (specStep limit p ep (some o) (.chg p m false) = none ↔ limit < o.unacked) ∧
    (o.unacked + 1 ≤ limit → specStep limit p ep (some o) (.chg p m true) =
      some { o with unacked := o.unacked + 1, mid := some m }) ∧
    (o.unacked ≤ limit → specStep limit p ep (some o) (.chg p m false) = some { o with mid := some m }) := by
  simp only [specStep, ↓reduceIte, Option.bind_some, bump]
  refine ⟨?_, ?_, ?_, ?_⟩
  · by_cases h : o.unacked + 1 ≤ limit <;> simp [h] <;> omega
  · by_cases h : o.unacked ≤ limit <;> simp [h] <;> omega
  · intro h; simp [h]
  · intro h; simp [h]

/-- … an acknowledgement resets the count exactly when it comes from the observer's endpoint with
the most recent notification's message id, and changes nothing otherwise; rounds on other
resources, and registrations / deregistrations of other endpoints or on other resources, change
nothing -/
theorem untouched_by_others (limit : Nat) (p p' : String) (ep ep' m : Nat) (t : Bytes) (c : Bool)
    (o : Observer) (ho : o.endpoint = ep) :
    (specStep limit p ep (some o) (.ack ep' m) =
      some (if ep' = ep ∧ o.mid = some m then { o with unacked := 0, mid := none } else o)) ∧
    (p' ≠ p → specStep limit p ep (some o) (.chg p' m c) = some o) ∧
    ((ep' ≠ ep ∨ p' ≠ p) → specStep limit p ep (some o) (.reg ep' p' t) = some o ∧
      specStep limit p ep (some o) (.dereg ep' p' t) = some o) := by
  refine ⟨?_, ?_, ?_⟩
  · simp only [specStep, Option.map_some, ackOne, ho]
    by_cases h1 : ep' = ep
    · subst h1
      by_cases h2 : o.mid = some m <;> simp [h2]
    · have h1' : ¬ ep = ep' := fun e => h1 e.symm
      simp [h1, h1']
  · intro h; simp [specStep, h]
  · intro h
    have : ¬ (ep' = ep ∧ p' = p) := by
      rintro ⟨h1, h2⟩; rcases h with h | h <;> contradiction
    simp [specStep, this]

/-! non-vacuity: eviction exactly past the limit (limit 1: second unacknowledged
CON round drops the observer; a NON round in between does not count) -/
example : (run [.limit 1, .reg 1 "p" [1], .chg "p" 5 true, .chg "p" 6 false]).get "p" =
    some { sequence := 2, observers := [{ endpoint := 1, token := [1], unacked := 1, mid := some 6 }] } := by
  decide
example : (run [.limit 1, .reg 1 "p" [1], .chg "p" 5 true, .chg "p" 6 false, .chg "p" 7 true]).get "p" =
    some { sequence := 3, observers := [] } := by decide
example : (run [.limit 1, .reg 1 "p" [1], .chg "p" 5 true, .ack 1 5, .chg "p" 7 true]).get "p" =
    some { sequence := 2, observers := [{ endpoint := 1, token := [1], unacked := 1, mid := some 7 }] } := by
  decide

/-! ### tie to the source: the state the model carries is the state the code carries

`Shapes.*` (Generated/Shapes.lean) is re-read from /repo/src on every run: the field lists of the
structs this property's model mirrors, and every construct that introduces state outside the values
the API passes around (thread-locals, `static mut`, cells, locks, atomics). The model accounts for
exactly these fields (Lemmas/Shape/*.lean say which model field mirrors which); a field or a
global added to the code – a memo, a marker, a digest in place of the data – breaks this theorem
even if no explored input behaves differently. -/
theorem state_shape_matches_source :
    Shapes.globalState = [] ∧
    Shapes.observer = [("endpoint", "Endpoint"), ("message_id", "Option<u16>"), ("token", "Vec<u8>"), ("unacknowledged_messages", "u16")] ∧
    Shapes.resource = [("observers", "Vec<Observer<Endpoint>>"), ("sequence", "u32")] ∧
    Shapes.subject = [("phantom", "PhantomData<Endpoint>"), ("resources", "BTreeMap<ResourcePath,Resource<Endpoint>>"), ("unacknowledged_limit", "u8")] :=
  ⟨ShapeTie.no_global_state, ShapeTie.observer, ShapeTie.resource, ShapeTie.subject⟩

/-- the public entry points of the modelled source files – re-read from /repo/src on every run – are
exactly the ones the model was written against (`Lemmas/Shape/Api.lean`): a new public way to change the
state this property is about, or a receiver that became `&mut self`, breaks this theorem -/
theorem api_surface_matches_source :
    Shapes.apiObserve = ShapeTie.expectedApiObserve :=
  ShapeTie.apiObserve

end CoapLite.C15
