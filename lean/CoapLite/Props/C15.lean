/-
C15 — Observe accounting: sequence strictly increases; eviction exactly past
limit.  Model: Model/Observe.lean.
-/
import CoapLite.Lemmas.Observe

namespace CoapLite.C15
open CoapLite Observe

/-- each notification round on an observed resource increases its sequence
number by exactly one; every observer gets the round's message id; a
confirmable round adds one to each count, a non-confirmable round adds nothing;
an observer is dropped exactly when its count then exceeds the limit -/
theorem round_spec (s : Subject) (h : Inv s) (path : String) (mid : Nat) (con : Bool) :
    (resourceChanged s path mid con).get path =
      (s.get path).map (fun r =>
        { sequence := seqNext r.sequence,
          observers := (r.observers.map (bump mid con)).filter (fun o => o.unacked ≤ s.limit) }) :=
  (changed_spec s h path mid con).1

/-- "by exactly one": the sequence number is a 32-bit counter; it goes up by one and, after 2^32
rounds, wraps to 0 instead of overflowing (RFC 7641 sequence numbers are compared modulo) -/
theorem seq_next_spec (n : Nat) :
    seqNext n < 2 ^ 32 ∧ (n + 1 < 2 ^ 32 → seqNext n = n + 1) ∧ (n = 2 ^ 32 - 1 → seqNext n = 0) :=
  seqNext_spec n

/-- only a notification round on the resource itself changes its sequence number -/
theorem sequence_step (s : Subject) (op : Op) (p : String) (r : Resource) (h : Inv s)
    (hr : s.get p = some r) :
    ∃ r', (step s op).get p = some r' ∧
      (r'.sequence = r.sequence ∨ ((∃ m c, op = .chg p m c) ∧ r'.sequence = seqNext r.sequence)) :=
  Observe.sequence_step s op p r h hr

theorem bump_spec (mid : Nat) (o : Observer) :
    (bump mid true o).unacked = o.unacked + 1 ∧ (bump mid false o).unacked = o.unacked ∧
    (bump mid true o).mid = some mid ∧ (bump mid false o).mid = some mid ∧
    (bump mid true o).token = o.token ∧ (bump mid true o).endpoint = o.endpoint := by
  simp [bump]

/-- no operation ever decreases a sequence number before the 32-bit counter wraps, so successive
notifications are strictly ordered -/
theorem sequence_mono (s : Subject) (op : Op) (p : String) (r : Resource) (h : Inv s)
    (hr : s.get p = some r) (hw : r.sequence + 1 < 2 ^ 32) :
    ∃ r', (step s op).get p = some r' ∧ r.sequence ≤ r'.sequence :=
  Observe.sequence_mono s op p r h hr hw

/-- an acknowledgement from the same endpoint for the most recent notification's
message id resets the count; acknowledgements with another endpoint or message
id change nothing -/
theorem acknowledge_spec (s : Subject) (h : Inv s) (ep mid : Nat) (path : String) :
    (acknowledge s ep mid).get path =
      (s.get path).map (fun r => { r with observers := r.observers.map (ackOne ep mid) }) :=
  (Observe.acknowledge_spec s h ep mid path).1

theorem ackOne_spec (ep mid : Nat) (o : Observer) :
    (o.endpoint = ep ∧ o.mid = some mid → ackOne ep mid o = { o with unacked := 0, mid := none }) ∧
    (¬ (o.endpoint = ep ∧ o.mid = some mid) → ackOne ep mid o = o) := by
  unfold ackOne
  constructor
  · rintro ⟨h1, h2⟩; simp [h1, h2]
  · intro h
    by_cases h1 : o.endpoint = ep <;> by_cases h2 : o.mid = some mid <;> simp_all

/-- counting never overflows whatever the limit (0..255) and however long the
history: stored counts stay ≤ 255, so `count + 1 ≤ 256 < 2^16` -/
theorem count_never_overflows (ops : List Op) (hl : LimitsOk ops) :
    (run ops).limit ≤ 255 ∧
    ∀ kv ∈ (run ops).resources, ∀ o ∈ kv.2.observers, o.unacked + 1 < 2 ^ 16 := by
  obtain ⟨h1, h2⟩ := unacked_le ops hl
  refine ⟨h1, ?_⟩
  intro kv hkv o ho
  have := h2 kv hkv o ho
  omega

/-- the notification builder: version 1, the requested type, 2.05, the given
message id, token and payload, Observe = minimal big-endian sequence -/
theorem notification_spec (mid : Nat) (tok : Bytes) (seq : Nat) (payload : Bytes) (con : Bool)
    (ht : tok.length ≤ 15) (hs : seq < 2 ^ 32) :
    ∃ p, createNotification mid tok seq payload con = .ok p ∧
      p.header.getVersion = 1 ∧
      p.header.getType = .ok (if con then .Confirmable else .NonConfirmable) ∧
      p.header.getTkl.toNat = tok.length ∧
      p.header.code = .Response .Content ∧ p.header.mid = mid ∧ p.token = tok ∧
      p.payload = payload ∧ p.options = [(6, [Spec.minimalBE seq])] ∧
      p.getObserveValue = some (.ok seq) :=
  Observe.notification_spec mid tok seq payload con ht hs

/-! non-vacuity: eviction exactly past the limit (limit 1: second unacknowledged
CON round drops the observer; a NON round in between does not count) -/
example : (run [.limit 1, .reg 1 "p" [1], .chg "p" 5 true, .chg "p" 6 false]).get "p" =
    some { sequence := 2, observers := [{ endpoint := 1, token := [1], unacked := 1, mid := some 6 }] } := by
  decide
example : (run [.limit 1, .reg 1 "p" [1], .chg "p" 5 true, .chg "p" 6 false, .chg "p" 7 true]).get "p" =
    some { sequence := 3, observers := [] } := by decide
example : (run [.limit 1, .reg 1 "p" [1], .chg "p" 5 true, .ack 1 5, .chg "p" 7 true]).get "p" =
    some { sequence := 2, observers := [{ endpoint := 1, token := [1], unacked := 1, mid := some 7 }] } := by
  decide

end CoapLite.C15
