/-
C19 — Convenience accessors and coap-message views agree with raw message
state.  Model: Model/Request.lean (`getMethodTable`, `getStatusTable` are
regenerated from the source), Model/Packet.lean.
-/
import CoapLite.Lemmas.Shape.Api
import CoapLite.Lemmas.Request
import CoapLite.Lemmas.MsgMut
import CoapLite.Lemmas.Shape.Request
import CoapLite.Lemmas.Shape.Packet
import CoapLite.Lemmas.Shape.Global

namespace CoapLite.C19
open CoapLite Spec

/-! ### method and status -/

/-- whatever `set_method` stores is what `get_method` shows – for every method –
and the raw code byte is the registered one (C05) -/
theorem method_roundtrip (r : Request) (m : RequestType) :
    (r.setMethod m).getMethod = m ∧ (r.setMethod m).message.header.code = .Request m := by
  constructor
  · cases m <;> rfl
  · rfl

/-- codes that are not requests surface as `UnKnown`, never as a named method -/
theorem method_of_non_request (r : Request) (h : ∀ m, r.message.header.code ≠ .Request m) :
    r.getMethod = .UnKnown :=
  Lemmas.method_of_non_request r h

/-- whatever `set_status` stores is what `get_status` shows – for every status -/
theorem status_roundtrip (m : Packet) (s : ResponseType) :
    ResponseM.getStatus (ResponseM.setStatus m s) = s ∧
    (ResponseM.setStatus m s).header.code = .Response s := by
  constructor
  · cases s <;> rfl
  · rfl

theorem status_of_non_response (m : Packet) (h : ∀ s, m.header.code ≠ .Response s) :
    ResponseM.getStatus m = .UnKnown :=
  Lemmas.status_of_non_response m h

/-! ### URI path -/

/-- one leading '/' is not part of the path -/
def stripLead : List Char → List Char := Lemmas.stripLead

theorem stripLead_def : (∀ t, stripLead ('/' :: t) = t) ∧ stripLead [] = [] ∧
    (∀ c t, c ≠ '/' → stripLead (c :: t) = c :: t) := by
  refine ⟨fun _ => rfl, rfl, ?_⟩
  intro c t h
  unfold stripLead Lemmas.stripLead
  split
  · simp_all
  · rfl

/-- the segments `set_path` stores: split on '/', a leading empty segment dropped -/
def segments (cs : List Char) : List (List Char) := Lemmas.segments cs

theorem segments_def (cs : List Char) : segments cs =
    (match Request.splitSlash cs with
     | [] :: rest => rest
     | s => s) := rfl

/-- for every path string, whatever Uri-Path options were there before: the raw
option holds exactly the UTF-8 of the segments, `get_path` returns the string
minus one leading slash, `get_path_as_vec` the segment list -/
theorem path_roundtrip (r : Request) (cs : List Char) (hs : r.message.options.Sorted) :
    (r.setPath cs).getPath = stripLead cs ∧
    (r.setPath cs).getPathAsVec = .ok ((segments cs).map String.ofList) ∧
    ((r.setPath cs).message.getOption Request.uriPath).getD [] =
      (segments cs).map (fun s => strEnc (String.ofList s)) ∧
    (∀ n, n ≠ Request.uriPath → (r.setPath cs).message.getOption n = r.message.getOption n) :=
  Lemmas.path_roundtrip r cs hs

theorem segments_join (cs : List Char) : List.intercalate ['/'] (segments cs) = stripLead cs :=
  Lemmas.segments_join cs

/-! ### content format -/

theorem content_format_roundtrip (p : Packet) (f : ContentFormat) (hs : p.options.Sorted) :
    ∃ q, p.setContentFormat f = .ok q ∧ q.getContentFormat = some f ∧
      q.getOption (CoapOption.toU16 .ContentFormat) = some [minimalBE f.toUsize] ∧
      (∀ n, n ≠ CoapOption.toU16 .ContentFormat → q.getOption n = p.getOption n) ∧
      q.header = p.header ∧ q.token = p.token ∧ q.payload = p.payload :=
  Lemmas.content_format_roundtrip p f hs

/-- `set_observe_value` / `get_observe_value`: the setter replaces whatever Observe values were there by
the one minimal encoding, the getter returns the number (32-bit width) -/
theorem observe_value_roundtrip (p : Packet) (hs : p.options.Sorted) (v : Nat) (hv : v < 2 ^ 32) :
    ∃ q, p.setObserveValue v = .ok q ∧ q.getObserveValue = some (.ok v) ∧
      q.getOption (CoapOption.toU16 .Observe) = some [minimalBE v] ∧
      (∀ n, n ≠ CoapOption.toU16 .Observe → q.getOption n = p.getOption n) := by
  obtain ⟨q, h1, h2, h3, h4, _⟩ :=
    Lemmas.replaceUint_spec p hs (CoapOption.toU16 .Observe) 4 v (by simpa using hv)
  exact ⟨q, h1, h3, h2, h4⟩

/-- an option value that is not a named format (or is longer than 2 bytes)
reads as "no content format", not as some named value -/
theorem content_format_unnamed (p : Packet) (v : Bytes) (rest : List Bytes)
    (h : p.getOption (CoapOption.toU16 .ContentFormat) = some (v :: rest))
    (hn : v.length > 2 ∨ ContentFormat.ofUsize? (beValue v) = none) :
    p.getContentFormat = none :=
  Lemmas.content_format_unnamed p v rest h hn

/-! ### observe action -/

theorem observe_flag_roundtrip (r : Request) (f : ObserveOption) (hs : r.message.options.Sorted) :
    ∃ r', r.setObserveFlag f = .ok r' ∧ r'.getObserveFlag = some (.ok f) ∧
      r'.message.getOption (CoapOption.toU16 .Observe) = some [minimalBE f.toUsize] :=
  Lemmas.observe_flag_roundtrip r f hs

/-- absent → none; more than 4 bytes or a value ≥ 2 → the documented error -/
theorem observe_flag_garbage (r : Request) :
    (r.message.getOption (CoapOption.toU16 .Observe) = none → r.getObserveFlag = none) ∧
    (∀ v rest, r.message.getOption (CoapOption.toU16 .Observe) = some (v :: rest) →
        (v.length > 4 ∨ beValue v ≥ 2) → r.getObserveFlag = some (.err .other)) :=
  Lemmas.observe_flag_garbage r

/-! ### coap-message views -/

/-- the option view lists every value, in ascending option-number order and
per-number insertion order -/
theorem view_options_sorted (p : Packet) (hs : p.options.Sorted) :
    MsgView.options p = p.options.flatten ∧ ((MsgView.options p).map (·.1)).Pairwise (· ≤ ·) :=
  Lemmas.view_options_sorted p hs

/-- a message copied through the generic interface has the same code byte,
the same options in the same order, and the same payload -/
theorem copy_via_trait (src : Packet) (hs : src.options.Sorted)
    (hk : ∀ kv ∈ src.options, kv.1 ≤ 65535) :
    let d := MsgView.setFromMessage Packet.new src
    MessageClass.toU8 (MsgView.code d) = MessageClass.toU8 (MsgView.code src) ∧
    MsgView.options d = MsgView.options src ∧ MsgView.payload d = MsgView.payload src ∧
    d.options.Sorted :=
  Lemmas.copy_via_trait src hs hk

/-! ### `MutableWritableMessage`: in-place writes through the generic interface touch exactly
the raw state they name -/

/-- `truncate(n)` keeps the first `n` payload bytes and nothing else changes -/
theorem truncate_spec (p : Packet) (n : Nat) :
    (MsgView.truncate p n).payload = p.payload.take n ∧
    (MsgView.truncate p n).payload.length = min n p.payload.length ∧
    (MsgView.truncate p n).options = p.options ∧ (MsgView.truncate p n).header = p.header ∧
    (MsgView.truncate p n).token = p.token :=
  ⟨rfl, List.length_take, rfl, rfl, rfl⟩

/-- `payload_mut_with_len(len)`: the slice handed out has exactly `len` bytes – the old payload's
prefix, zero-filled beyond it – and what the caller writes through it is the new payload -/
theorem payload_mut_with_len_spec (p : Packet) (len : Nat) (w : Bytes → Bytes)
    (hw : ∀ b, (w b).length = b.length) :
    let q := MsgView.payloadMutWithLen p len w
    q.payload = w (MsgView.resize0 p.payload len) ∧ q.payload.length = len ∧
    (∀ i, i < len → (MsgView.resize0 p.payload len)[i]? =
        some (if h : i < p.payload.length then p.payload[i] else 0)) ∧
    q.options = p.options ∧ q.header = p.header ∧ q.token = p.token :=
  Lemmas.payload_mut_with_len_spec p len w hw

/-- `mutate_options(f)`: the callback is invoked exactly once per option value, with the option's
own number, in the order of the read view; afterwards the read view shows the written values;
numbers, order, payload and header are untouched -/
theorem mutate_options_spec (p : Packet) (f : Nat → Bytes → Bytes) (hs : p.options.Sorted) :
    let q := MsgView.mutateOptions p f
    MsgView.options q = (MsgView.options p).map (fun o => (o.1, f o.1 o.2)) ∧
    MsgView.mutateCalls p = MsgView.options p ∧
    q.options.Sorted ∧ q.payload = p.payload ∧ q.header = p.header ∧ q.token = p.token :=
  Lemmas.mutate_options_spec p f hs

/-! non-vacuity -/
example : (MsgView.mutateOptions { Packet.new with options := [(11, [[1, 2], []]), (12, [[50]])] }
    (fun n v => v.map (· + UInt8.ofNat n))).options = [(11, [[12, 13], []]), (12, [[62]])] := by decide
example : MsgView.resize0 [1, 2, 3] 5 = [1, 2, 3, 0, 0] ∧ MsgView.resize0 [1, 2, 3] 2 = [1, 2] := by decide
example : segments "/a//b/".toList = ["a".toList, [], "b".toList, []] := by decide
example : stripLead "//x".toList = "/x".toList := by decide

/-! ### tie to the source: the state the model carries is the state the code carries

`Shapes.*` (Generated/Shapes.lean) is re-read from /repo/src on every run: the field lists of the
structs this property's model mirrors, and every construct that introduces state outside the values
the API passes around (thread-locals, `static mut`, cells, locks, atomics). The model accounts for
exactly these fields (Lemmas/Shape/*.lean say which model field mirrors which); a field or a
global added to the code – a memo, a marker, a digest in place of the data – breaks this theorem
even if no explored input behaves differently. -/
theorem state_shape_matches_source :
    Shapes.globalState = [] ∧
    Shapes.coapRequest = [("message", "Packet"), ("response", "Option<CoapResponse>"), ("source", "Option<Endpoint>")] ∧
    Shapes.coapResponse = [("message", "Packet")] ∧
    Shapes.packet = [("header", "Header"), ("options", "BTreeMap<u16,LinkedList<Vec<u8>>>"), ("payload", "Vec<u8>"), ("token", "Vec<u8>")] ∧
    Shapes.header = [("code", "MessageClass"), ("message_id", "u16"), ("ver_type_tkl", "u8")] ∧
    Shapes.headerRaw = [("code", "u8"), ("message_id", "u16"), ("ver_type_tkl", "u8")] :=
  ⟨ShapeTie.no_global_state, ShapeTie.coapRequest, ShapeTie.coapResponse, ShapeTie.packet, ShapeTie.header, ShapeTie.headerRaw⟩

/-- the public entry points of the modelled source files – re-read from /repo/src on every run – are
exactly the ones the model was written against (`Lemmas/Shape/Api.lean`): a new public way to change the
state this property is about, or a receiver that became `&mut self`, breaks this theorem -/
theorem api_surface_matches_source :
    Shapes.apiRequest = ShapeTie.expectedApiRequest ∧
    Shapes.apiResponse = ShapeTie.expectedApiResponse ∧
    Shapes.apiPacket = ShapeTie.expectedApiPacket :=
  ⟨ShapeTie.apiRequest, ShapeTie.apiResponse, ShapeTie.apiPacket⟩

end CoapLite.C19
