/-
C03 — Parser is total: well-formed datagrams accepted, malformed rejected, no
crash.
-/
import CoapLite.Lemmas.Shape.Api
import CoapLite.Lemmas.CodecInv
import CoapLite.Lemmas.CodecFwd
import CoapLite.Lemmas.CodecLow
import CoapLite.Lemmas.Shape.Packet
import CoapLite.Lemmas.Shape.Global

namespace CoapLite.C03
open CoapLite Codec Spec

/-- for every byte string parsing terminates (the definition's own termination
proof: every iteration consumes at least one byte) and returns a message or an
error – never a panic (out-of-bounds read, overflow) -/
theorem dec_never_panics (b : Bytes) : dec b ≠ .panic := Codec.dec_never_panics b

/-- every datagram that is well formed under RFC 7252 §3 (any version, hence in
particular version 1) is accepted, and the returned fields are exactly those of
the grammar -/
theorem dec_complete (m : Msg) (h : m.WF) :
    ∃ q, dec (wire m) = .ok q ∧
      q.header.vtt.toNat = m.ver * 64 + m.typ * 16 + m.token.length ∧
      q.header.code = MessageClass.ofU8 m.code ∧ q.header.mid = m.mid ∧
      q.token = m.token ∧ q.options.flatten = m.opts ∧ q.payload = m.payload :=
  Codec.dec_complete m h

/-- everything the parser accepts is in range (so `PktWF` holds of it) … -/
theorem dec_wf (b : Bytes) (p : Packet) (h : dec b = .ok p) : PktWF p := Codec.dec_wf b p h

/-- … and is, up to the two permitted droppings of C02, the RFC image of the
returned message: nothing outside the grammar is accepted -/
theorem dec_sound (b : Bytes) (p : Packet) (h : dec b = .ok p) :
    b = wire (toMsg p) ∨ b = wire (toMsg p) ++ [0xFF] ∨
      (∃ pl, b = wire (toMsg p) ++ 0xFF :: pl ∧ b[1]? = some 0) :=
  Codec.dec_sound b p h

/-! ### the named rejection classes -/

theorem reject_short (b : Bytes) (h : b.length < 4) : dec b = .err .invalidHeader :=
  Codec.reject_short b h

theorem reject_tkl_9_15 (b0 b1 b2 b3 : UInt8) (rest : Bytes) (h : (0x0F &&& b0).toNat ≥ 9) :
    dec (b0 :: b1 :: b2 :: b3 :: rest) = .err .invalidTokenLength :=
  Codec.reject_tkl b0 b1 b2 b3 rest h

theorem reject_truncated_token (b0 b1 b2 b3 : UInt8) (rest : Bytes)
    (h : rest.length < (0x0F &&& b0).toNat) :
    (dec (b0 :: b1 :: b2 :: b3 :: rest)).isErr = true :=
  Codec.reject_truncated_token b0 b1 b2 b3 rest h

/-- A datagram whose option area starts with any valid option sequence `os`
(as the RFC encodes it) followed by a malformed option is rejected: `hdr` is a
4-byte header with token length `tok.length ≤ 8`. -/
def Framed (b0 b1 b2 b3 : UInt8) (tok : Bytes) (os : List (Nat × Bytes)) (bad : Bytes) : Bytes :=
  b0 :: b1 :: b2 :: b3 :: (tok ++ wireOpts 0 os ++ bad)

def OptsWF (os : List (Nat × Bytes)) : Prop :=
  (os.map (·.1)).Pairwise (· ≤ ·) ∧ ∀ o ∈ os, o.1 ≤ 65535 ∧ o.2.length ≤ 65804

/-- nibble 15 in the delta or the length, other than the 0xFF marker -/
theorem reject_nibble15 (b0 b1 b2 b3 : UInt8) (tok : Bytes) (os : List (Nat × Bytes))
    (hb : UInt8) (tail : Bytes)
    (htk : (0x0F &&& b0).toNat = tok.length) (ht : tok.length ≤ 8) (hos : OptsWF os)
    (h15 : hb.toNat / 16 = 15 ∨ hb.toNat % 16 = 15) (hff : hb ≠ 255) :
    (dec (Framed b0 b1 b2 b3 tok os (hb :: tail))).isErr = true :=
  Codec.reject_nibble15 b0 b1 b2 b3 tok os hb tail htk ht hos h15 hff

/-- truncated extended delta / length -/
theorem reject_truncated_ext (b0 b1 b2 b3 : UInt8) (tok : Bytes) (os : List (Nat × Bytes))
    (hb : UInt8) (tail : Bytes)
    (htk : (0x0F &&& b0).toNat = tok.length) (ht : tok.length ≤ 8) (hos : OptsWF os)
    (hff : hb ≠ 255)
    (hshort : tail.length < extBytesOf (hb.toNat / 16) + extBytesOf (hb.toNat % 16)) :
    (dec (Framed b0 b1 b2 b3 tok os (hb :: tail))).isErr = true :=
  Codec.reject_truncated_ext b0 b1 b2 b3 tok os hb tail htk ht hos hff hshort

/-- truncated option value: the option header (with its extensions) announces
`len` value bytes but fewer remain -/
theorem reject_truncated_value (b0 b1 b2 b3 : UInt8) (tok : Bytes) (os : List (Nat × Bytes))
    (hb : UInt8) (tail : Bytes) (delta len : Nat) (r1 r2 : Bytes)
    (htk : (0x0F &&& b0).toNat = tok.length) (ht : tok.length ≤ 8) (hos : OptsWF os)
    (hff : hb ≠ 255) (hd : rdExt true (hb.toNat / 16) tail = .ok (delta, r1))
    (hl : rdExt false (hb.toNat % 16) r1 = .ok (len, r2)) (hshort : r2.length < len) :
    (dec (Framed b0 b1 b2 b3 tok os (hb :: tail))).isErr = true :=
  Codec.reject_truncated_value b0 b1 b2 b3 tok os hb tail delta len r1 r2 htk ht hos hff hd hl hshort

/-- cumulative option number above 65535 -/
theorem reject_number_overflow (b0 b1 b2 b3 : UInt8) (tok : Bytes) (os : List (Nat × Bytes))
    (hb : UInt8) (tail : Bytes) (delta : Nat) (r : Bytes)
    (htk : (0x0F &&& b0).toNat = tok.length) (ht : tok.length ≤ 8) (hos : OptsWF os)
    (hff : hb ≠ 255) (hd : rdExt true (hb.toNat / 16) tail = .ok (delta, r))
    (hover : (os.getLast?.map (·.1)).getD 0 + delta > 65535) :
    (dec (Framed b0 b1 b2 b3 tok os (hb :: tail))).isErr = true :=
  Codec.reject_number_overflow b0 b1 b2 b3 tok os hb tail delta r htk ht hos hff hd hover

/-! ### "never panics, overflows or reads outside the buffer", with content

`Codec.dec` pattern-matches on lists and computes in `Nat`: it cannot read outside anything or overflow,
so `dec_never_panics` alone says little about those three risks. `CodecLow.decLow`
(Model/CodecLow.lean) is a second, low-level transcription of `from_bytes`: an index cursor, `buf[i]`
and `buf[a..b]` as partial operations that panic outside the buffer, every addition at the width of
the Rust type that holds it (`u32` for the delta and the running option number, `usize` for cursor and
lengths) panicking on overflow, the `while` loop with bounded fuel, guards in the order of the source. -/

/-- the low-level decoder computes exactly what the high-level one does, for every buffer a Rust slice
can be (its length is below 2^63) -/
theorem low_level_decoder_refines (buf : Bytes) (hlen : buf.length < 2 ^ 63) :
    CodecLow.decLow buf = dec buf :=
  CodecLow.decLow_eq_dec buf hlen

/-- … so for EVERY byte string none of its partial operations fails: no read or slice outside the
buffer, no addition overflowing its type (both overflow-check modes therefore agree), and the loop
terminates before its fuel runs out -/
theorem decoder_stays_inside_the_buffer_and_never_overflows (buf : Bytes) (hlen : buf.length < 2 ^ 63) :
    CodecLow.decLow buf ≠ .panic :=
  CodecLow.decLow_never_panics buf hlen

/-! non-vacuity: the partial operations do fail when misused (the model can express the failure) -/
example : CodecLow.rd [1, 2, 3] 3 = .panic ∧ CodecLow.slice [1, 2, 3] 2 4 = .panic ∧
    CodecLow.addW 32 4294967295 1 = .panic ∧ CodecLow.addW 32 65535 65804 = .ok 131339 := by decide

/-! ### tie to the source: the state the model carries is the state the code carries

`Shapes.*` (Generated/Shapes.lean) is re-read from /repo/src on every run: the field lists of the
structs this property's model mirrors, and every construct that introduces state outside the values
the API passes around (thread-locals, `static mut`, cells, locks, atomics). The model accounts for
exactly these fields (Lemmas/Shape/*.lean say which model field mirrors which); a field or a
global added to the code – a memo, a marker, a digest in place of the data – breaks this theorem
even if no explored input behaves differently. -/
theorem state_shape_matches_source :
    Shapes.globalState = [] ∧
    Shapes.packet = [("header", "Header"), ("options", "BTreeMap<u16,LinkedList<Vec<u8>>>"), ("payload", "Vec<u8>"), ("token", "Vec<u8>")] ∧
    Shapes.header = [("code", "MessageClass"), ("message_id", "u16"), ("ver_type_tkl", "u8")] ∧
    Shapes.headerRaw = [("code", "u8"), ("message_id", "u16"), ("ver_type_tkl", "u8")] :=
  ⟨ShapeTie.no_global_state, ShapeTie.packet, ShapeTie.header, ShapeTie.headerRaw⟩

/-- the public entry points of the modelled source files – re-read from /repo/src on every run – are
exactly the ones the model was written against (`Lemmas/Shape/Api.lean`): a new public way to change the
state this property is about, or a receiver that became `&mut self`, breaks this theorem -/
theorem api_surface_matches_source :
    Shapes.apiPacket = ShapeTie.expectedApiPacket ∧
    Shapes.apiHeader = ShapeTie.expectedApiHeader :=
  ⟨ShapeTie.apiPacket, ShapeTie.apiHeader⟩

end CoapLite.C03
