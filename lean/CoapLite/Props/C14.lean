/-
C14 — Observe registry: one observer per endpoint per resource, removed only
on match.  Model: Model/Observe.lean; every statement is for all histories
(induction over the operation list) or for every reachable (`Inv`) state.
-/
import CoapLite.Lemmas.Shape.Api
import CoapLite.Lemmas.Observe
import CoapLite.Lemmas.ObserveRefine
import CoapLite.Lemmas.Shape.Observe
import CoapLite.Lemmas.Shape.Global

namespace CoapLite.C14
open CoapLite Observe

/-- for every history of registrations, deregistrations, notification rounds,
acknowledgements and limit changes, each resource lists at most one observer per
endpoint (and each path has one resource) -/
theorem one_observer_per_endpoint (ops : List Op) :
    ∀ kv ∈ (run ops).resources, (kv.2.observers.map (·.endpoint)).Nodup :=
  (inv_run ops).2

theorem reachable_inv (ops : List Op) : Inv (run ops) := inv_run ops

/-- registering again from the same endpoint replaces that observer's token in
place and clears its unacknowledged count (and pending id); a new endpoint is
appended after the existing ones; the sequence number is untouched -/
theorem register_spec (s : Subject) (h : Inv s) (ep : Nat) (path : String) (tok : Bytes) :
    (register s ep path tok).get path =
      some { sequence := ((s.get path).map (·.sequence)).getD 0,
             observers := regList (((s.get path).map (·.observers)).getD []) ep tok } :=
  (Observe.register_spec s h ep path tok).1

/-- `regList` spelled out: positions and all other observers are preserved -/
theorem regList_spec (obs : List Observer) (ep : Nat) (tok : Bytes) :
    (obs.any (fun o => o.endpoint == ep) = false → regList obs ep tok = obs ++ [fresh ep tok]) ∧
    (obs.any (fun o => o.endpoint == ep) = true →
      (regList obs ep tok).length = obs.length ∧
      ∀ i (hi : i < obs.length), ∃ (hi' : i < (regList obs ep tok).length),
        (regList obs ep tok)[i] = if obs[i].endpoint = ep then fresh ep tok else obs[i]) := by
  unfold regList
  constructor
  · intro h; simp [h]
  · intro h
    simp only [h, ↓reduceIte, List.length_map, true_and]
    intro i hi
    refine ⟨by simpa using hi, ?_⟩
    simp

/-- deregistration removes exactly the observer whose endpoint and token both
match on that path, and nothing else -/
theorem deregister_spec (s : Subject) (h : Inv s) (ep : Nat) (path : String) (tok : Bytes) :
    (deregister s ep path tok).get path =
      (s.get path).map (fun r => { r with observers := r.observers.filter (fun o => !(o.endpoint == ep && o.token == tok)) }) :=
  (Observe.deregister_spec s h ep path tok).1

/-- operations on one resource never change another resource's observers -/
theorem frame (s : Subject) (p p' : String) (hne : p' ≠ p) (ep mid : Nat) (tok : Bytes) (con : Bool) :
    (register s ep p tok).get p' = s.get p' ∧
    (deregister s ep p tok).get p' = s.get p' ∧
    (resourceChanged s p mid con).get p' = s.get p' :=
  Observe.frame s p p' hne ep mid tok con

/-- a notification round for an unobserved path creates nothing -/
theorem changed_unobserved_noop (s : Subject) (path : String) (mid : Nat) (con : Bool)
    (h : s.get path = none) : resourceChanged s path mid con = s :=
  Observe.changed_unobserved_noop s path mid con h

/-- acknowledgements never add, remove or reorder observers -/
theorem acknowledge_keeps_observers (s : Subject) (h : Inv s) (ep mid : Nat) (path : String) :
    ((acknowledge s ep mid).get path).map (fun r => r.observers.map (fun o => (o.endpoint, o.token))) =
      (s.get path).map (fun r => r.observers.map (fun o => (o.endpoint, o.token))) := by
  rw [(acknowledge_spec s h ep mid path).1]
  cases s.get path with
  | none => rfl
  | some r =>
    simp only [Option.map_some, List.map_map]
    congr 1
    apply List.map_congr_left
    intro o _
    simp only [Function.comp, ackOne]
    split <;> rfl

/-- every operation, seen from any one (resource, endpoint) pair: the pair's entry after the operation is
what the per-pair rule book `specStep` says – in particular a deregistration touches exactly the
pair it names, and only if the token matches; a registration touches exactly the pair it names;
nothing an operation does to one pair is visible in another pair's entry -/
theorem every_operation_per_pair (s : Subject) (h : Inv s) (op : Op) (p : String) (ep : Nat) :
    viewOf (step s op) p ep = specStep s.limit p ep (viewOf s p ep) op :=
  (view_step s h op p ep).1

theorem deregistration_only_on_match (s : Subject) (h : Inv s) (ep ep' : Nat) (p p' : String) (t : Bytes) :
    viewOf (deregister s ep p t) p' ep' =
      if ep = ep' ∧ p = p' then (viewOf s p' ep').bind (fun o => if o.token = t then none else some o)
      else viewOf s p' ep' :=
  (view_step s h (.dereg ep p t) p' ep').1

theorem registration_only_named_pair (s : Subject) (h : Inv s) (ep ep' : Nat) (p p' : String) (t : Bytes) :
    viewOf (register s ep p t) p' ep' =
      if ep = ep' ∧ p = p' then some (fresh ep' t) else viewOf s p' ep' :=
  (view_step s h (.reg ep p t) p' ep').1

/-! non-vacuity: a reachable state with two observers on one path -/
example : (run [.reg 1 "p" [0xa], .reg 2 "p" [0xb], .reg 1 "p" [0xc]]).get "p" =
    some { sequence := 0, observers := [fresh 1 [0xc], fresh 2 [0xb]] } := by decide

/-! ### tie to the source: the state the model carries is the state the code carries

`Shapes.*` (Generated/Shapes.lean) is re-read from /repo/src on every run: the field lists of the
structs this property's model mirrors, and every construct that introduces state outside the values
the API passes around (thread-locals, `static mut`, cells, locks, atomics). The model accounts for
exactly these fields (Lemmas/Shape/*.lean say which model field mirrors which); a field or a
global added to the code – a memo, a marker, a digest in place of the data – breaks this theorem
even if no explored input behaves differently. -/
theorem state_shape_matches_source :
    Shapes.globalState = [] ∧
    Shapes.observer = [("endpoint", "Endpoint"), ("message_id", "Option<u16>"), ("token", "Vec<u8>"), ("unacknowledged_messages", "u16")] ∧
    Shapes.resource = [("observers", "Vec<Observer<Endpoint>>"), ("sequence", "u32")] ∧
    Shapes.subject = [("phantom", "PhantomData<Endpoint>"), ("resources", "BTreeMap<ResourcePath,Resource<Endpoint>>"), ("unacknowledged_limit", "u8")] :=
  ⟨ShapeTie.no_global_state, ShapeTie.observer, ShapeTie.resource, ShapeTie.subject⟩

/-- the public entry points of the modelled source files – re-read from /repo/src on every run – are
exactly the ones the model was written against (`Lemmas/Shape/Api.lean`): a new public way to change the
state this property is about, or a receiver that became `&mut self`, breaks this theorem -/
theorem api_surface_matches_source :
    Shapes.apiObserve = ShapeTie.expectedApiObserve :=
  ShapeTie.apiObserve

end CoapLite.C14
