/-
C07 — Prepared responses are correlated with their request (type, message ID,
token).  Model: `Response.new`, `Request.fromPacket`, `Request.applyFromError`
(Model/Request.lean); `responseTypeFor` is regenerated from the source.
-/
import CoapLite.Lemmas.Shape.Api
import CoapLite.Lemmas.Request
import CoapLite.Lemmas.Shape.Request
import CoapLite.Lemmas.Shape.Packet
import CoapLite.Lemmas.Shape.Global

namespace CoapLite.C07
open CoapLite

/-- the response `CoapResponse::new` prepares for a request whose type maps to `rt` -/
def prepared (req : Packet) (rtBits : Nat) : Packet := Lemmas.prepared req rtBits

theorem prepared_def (req : Packet) (rtBits : Nat) : prepared req rtBits =
  { header := { vtt := UInt8.ofNat (64 + rtBits * 16 + req.token.length),
                code := .Response .Content, mid := req.header.mid },
    token := req.token, options := [], payload := [] } := rfl

/-- For every request message (any header byte, code, message id, options,
payload; token of at most 15 bytes – longer tokens trip `set_token`'s
assertion, see `new_long_token_panics`): a response is prepared iff the request
is Confirmable or Non-confirmable; it is an Acknowledgement (type bits 2) for a
Confirmable request and Non-confirmable (1) otherwise, has version 1, the
request's message ID and token byte for byte, code 2.05, no options and no
payload. -/
theorem new_spec (req : Packet) (ht : req.token.length ≤ 15) :
    Response.new req = .ok
      (if req.header.typeBits = 0 then some (prepared req 2)
       else if req.header.typeBits = 1 then some (prepared req 1)
       else none) :=
  Lemmas.response_new_spec req ht

theorem new_isSome_iff (req : Packet) (ht : req.token.length ≤ 15) :
    (∃ q, Response.new req = .ok (some q)) ↔
      (req.header.getType = .ok .Confirmable ∨ req.header.getType = .ok .NonConfirmable) :=
  Lemmas.response_new_isSome_iff req ht

/-- reading the prepared response back through the header getters -/
theorem prepared_fields (req : Packet) (ht : req.token.length ≤ 15) (rtBits : Nat) (hr : rtBits = 1 ∨ rtBits = 2) :
    (prepared req rtBits).header.getVersion = 1 ∧
    (prepared req rtBits).header.typeBits = rtBits ∧
    (prepared req rtBits).header.getTkl.toNat = req.token.length ∧
    MessageClass.toU8 (prepared req rtBits).header.code = 0x45 :=
  Lemmas.prepared_fields req ht rtBits hr

theorem new_long_token_panics (req : Packet) (ht : 16 ≤ req.token.length % 256)
    (hc : req.header.typeBits ≤ 1) : Response.new req = .panic :=
  Lemmas.response_new_long_token req ht hc

/-- `from_packet` keeps the request untouched and attaches exactly that response -/
theorem fromPacket_spec (p : Packet) (src : Nat) (ht : p.token.length ≤ 15) :
    ∃ r, Request.fromPacket p src = .ok r ∧ r.message = p ∧ r.source = some src ∧
      Response.new p = .ok r.response :=
  Lemmas.fromPacket_spec p src ht

/-- Turning a handling error into a reply reports failure – and changes nothing –
when there is no response or no code to apply … -/
theorem apply_fails_iff (r : Request) (code : Option ResponseType) (msg : Bytes)
    (h : r.response = none ∨ code = none) :
    r.applyFromError code msg = .ok (r, false) :=
  Lemmas.apply_fails r code msg h

/-- … and otherwise succeeds, changing only the code, the payload and the
Content-Format option: version/type/token-length byte, message ID, token and
every other option of the prepared reply are untouched. -/
theorem apply_spec (r : Request) (reply : Packet) (c : ResponseType) (msg : Bytes)
    (hr : r.response = some reply) (hs : reply.options.Sorted) :
    ∃ r' m', r.applyFromError (some c) msg = .ok (r', true) ∧
      r'.response = some m' ∧ r'.message = r.message ∧ r'.source = r.source ∧
      m'.header.vtt = reply.header.vtt ∧ m'.header.mid = reply.header.mid ∧ m'.token = reply.token ∧
      m'.header.code = .Response c ∧ m'.payload = msg ∧
      m'.getOption (CoapOption.toU16 .ContentFormat) = some [[]] ∧
      m'.getContentFormat = some .TextPlain ∧
      (∀ n, n ≠ CoapOption.toU16 .ContentFormat → m'.getOption n = reply.getOption n) :=
  Lemmas.apply_spec r reply c msg hr hs

/-! non-vacuity -/
example : Response.new { Packet.new with token := [1, 2, 3], header := { vtt := 0x53, code := .Request .Get, mid := 7 } }
    = .ok (some { header := { vtt := 0x53, code := .Response .Content, mid := 7 }, token := [1, 2, 3], options := [], payload := [] }) := by
  decide
example : Response.new { Packet.new with header := { vtt := 0x60, code := .Empty, mid := 7 } } = .ok none := by
  decide

/-! ### tie to the source: the state the model carries is the state the code carries

`Shapes.*` (Generated/Shapes.lean) is re-read from /repo/src on every run: the field lists of the
structs this property's model mirrors, and every construct that introduces state outside the values
the API passes around (thread-locals, `static mut`, cells, locks, atomics). The model accounts for
exactly these fields (Lemmas/Shape/*.lean say which model field mirrors which); a field or a
global added to the code – a memo, a marker, a digest in place of the data – breaks this theorem
even if no explored input behaves differently. -/
theorem state_shape_matches_source :
    Shapes.globalState = [] ∧
    Shapes.coapRequest = [("message", "Packet"), ("response", "Option<CoapResponse>"), ("source", "Option<Endpoint>")] ∧
    Shapes.coapResponse = [("message", "Packet")] ∧
    Shapes.packet = [("header", "Header"), ("options", "BTreeMap<u16,LinkedList<Vec<u8>>>"), ("payload", "Vec<u8>"), ("token", "Vec<u8>")] ∧
    Shapes.header = [("code", "MessageClass"), ("message_id", "u16"), ("ver_type_tkl", "u8")] ∧
    Shapes.headerRaw = [("code", "u8"), ("message_id", "u16"), ("ver_type_tkl", "u8")] :=
  ⟨ShapeTie.no_global_state, ShapeTie.coapRequest, ShapeTie.coapResponse, ShapeTie.packet, ShapeTie.header, ShapeTie.headerRaw⟩

/-- the public entry points of the modelled source files – re-read from /repo/src on every run – are
exactly the ones the model was written against (`Lemmas/Shape/Api.lean`): a new public way to change the
state this property is about, or a receiver that became `&mut self`, breaks this theorem -/
theorem api_surface_matches_source :
    Shapes.apiRequest = ShapeTie.expectedApiRequest ∧
    Shapes.apiResponse = ShapeTie.expectedApiResponse ∧
    Shapes.apiHeader = ShapeTie.expectedApiHeader :=
  ⟨ShapeTie.apiRequest, ShapeTie.apiResponse, ShapeTie.apiHeader⟩

end CoapLite.C07
