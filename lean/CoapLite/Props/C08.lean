/-
C08 — Block2: a client fetching blocks in order reassembles exactly the body.
Model: `coreResponse` (first block, caching) and `coreRequest`/`handleBlock2`
(follow-up blocks served from the cache) in Model/Block.lean.
-/
import CoapLite.Lemmas.Shape.Api
import CoapLite.Lemmas.BlockTransfer
import CoapLite.Lemmas.Download
import CoapLite.Lemmas.DownloadFull
import CoapLite.Lemmas.BlockFitsRange
import CoapLite.Lemmas.BlockSession
import CoapLite.Lemmas.BlockClamp
import CoapLite.Lemmas.DownloadHistory
import CoapLite.Lemmas.Shape.Block
import CoapLite.Lemmas.Shape.BlockValue
import CoapLite.Lemmas.Shape.Request
import CoapLite.Lemmas.Shape.Packet
import CoapLite.Lemmas.Shape.Global

namespace CoapLite.C08
open CoapLite Block

/-- what the handler serves for block `k` at block size `size` from a body: the
bytes `[k·size, min((k+1)·size, |body|))`, `more` iff bytes remain; block 0 of
the empty body is the empty final block -/
theorem chunk_spec (body : Bytes) (size k : Nat) (c : Bytes) (more : Bool)
    (h : chunkAt body size k = some (c, more)) (hs : 0 < size) :
    c.length ≤ size ∧ (more = true → c.length = size) ∧
    c = (body.drop (k * size)).take size ∧
    (more = true ↔ (k + 1) * size < body.length) :=
  chunkAt_length body size k c more h hs

theorem chunk_exists_iff (body : Bytes) (size k : Nat) :
    (chunkAt body size k).isSome ↔ (k * size < body.length ∨ (k = 0 ∧ body = [])) :=
  chunkAt_some_iff body size k

/-- a client that requests blocks in increasing offset order – 0,1,2,… at one
size, or with the size reduced at any point – reassembles byte for byte the
body; each non-final block carries exactly block-size bytes with `more` set, the
final one the remainder with it clear; block numbers agree with byte offsets
(that is what `Tiles` says) -/
theorem reassembly (body : Bytes) (ps : List Piece) (h : Tiles body 0 ps)
    (hs : ∀ p ∈ ps, 0 < p.size) :
    (ps.flatMap (·.chunk)) = body ∧ (∀ p ∈ ps, p.more = true → p.chunk.length = p.size) :=
  tiles_reassemble body ps h hs

/-- such a sequence exists for every body, including the empty one, and every
block size: blocks 0..n-1 at one size -/
theorem in_order_fetch_tiles (body : Bytes) (size : Nat) (hs : 0 < size) :
    Tiles body 0 (canonicalPieces body size) :=
  canonical_tiles body size hs

/-- first block: if the application's reply `resp` (no Block2 option of its
own) is fragmented, the reply carries block 0 and `resp` is cached iff more
blocks follow; otherwise it is left as it is -/
theorem first_block (M : Nat) (req : Request) (st : BlockState) (resp : Packet) (size : Nat)
    (rb2 : BlockValue)
    (hr : req.response = some resp) (hno : resp.getOption block2Num = none)
    (hsz : computeMessageSize resp = .ok size)
    (hn : negotiate st.lastBlock2 (size + tokenReserve resp) resp.payload.length M = .ok (some rb2)) :
    coreResponse M req st =
      match serveCached req rb2 resp with
      | (req', .ok true) => (req', { st with cachedResponse := some resp, cachedSzx := some rb2.szx }, .ok true)
      | (req', r) => (req', st, r) :=
  coreResponse_fragment M req st resp size rb2 hr hno hsz hn

/-- "every message-size budget that leaves room for a block": without a size preference from the client
the size negotiation for the application's reply NEVER fails once the budget leaves any room – the
reply is either left as it is or gets block 0 with `more` set and a size of at most 1024 bytes (SZX 6),
also under budgets far above one block (D20: budgets ≥ overhead + 4108 used to fail with 5.00) -/
theorem fragmentation_never_fails (ms tp M : Nat) (hB : 0 < blockBudget ms tp M) :
    negotiate none ms tp M = .ok none ∨
    ∃ b, negotiate none ms tp M = .ok (some b) ∧ b.num = 0 ∧ b.more = true ∧ b.szx ≤ 6 :=
  negotiate_none_total ms tp M hB

/-- the block the handler negotiates for the first reply is block 0 when the
client named no block or block 0 -/
theorem first_block_is_zero (ms tp M : Nat) (b : BlockValue) (hms : tp ≤ ms)
    (h : negotiate none ms tp M = .ok (some b)) : b.num = 0 ∧ b.more = true :=
  let hs := negotiate_some none ms tp M b (by intro r hr; cases hr) hms h
  ⟨(hs.2.2.2.2 rfl).1, (hs.2.2.2.2 rfl).2.1⟩

/-- what a served block contains: exactly the handler's chunk, the Block2 echo
`(num, more, szx)`, the cached reply's code and every other option of the
application's reply, and the message id / token of the request being answered -/
theorem served_block (req : Request) (resp : Packet) (rb2 : BlockValue) (cached : Packet)
    (chunk : Bytes) (more : Bool)
    (hr : req.response = some resp) (hb : BvOk rb2)
    (hs : resp.options.Sorted) (hcs : cached.options.Sorted)
    (hck : ∀ kv ∈ cached.options, kv.1 ≤ 65535)
    (hc : chunkAt cached.payload rb2.size rb2.num = some (chunk, more)) :
    ∃ resp' bs, serveCached req rb2 cached = ({ req with response := some resp' }, .ok more) ∧
      ({ rb2 with more := more } : BlockValue).enc = .ok bs ∧
      resp'.payload = chunk ∧ corr resp' = corr resp ∧
      resp'.header.code = cached.header.code ∧
      resp'.getOption block2Num = some [bs] ∧
      (∀ n, n ≠ block2Num → (cached.getOption n).isSome → resp'.getOption n = cached.getOption n) ∧
      (∀ n, n ≠ block2Num → cached.getOption n = none → resp'.getOption n = resp.getOption n) :=
  serveCached_spec req resp rb2 cached chunk more hr hb hs hcs hck hc

/-- follow-up blocks are served from the handler's cache – the application is
not consulted (`ok true`) – and the entry is released when the final block has
been served … -/
theorem follow_up (req : Request) (resp : Packet) (st : BlockState) (b2 : BlockValue) (cached : Packet)
    (chunk : Bytes) (more : Bool) (M : Nat) (size : Nat)
    (hb1 : firstBlock req.message block1Num = none)
    (hsz : computeMessageSize req.message = .ok size)
    (hn : negotiate none size req.message.payload.length M = .ok none)
    (hb : firstBlock req.message block2Num = some b2) (hc : st.cachedResponse = some cached)
    (hr : req.response = some resp) (hs : resp.options.Sorted) (hcs : cached.options.Sorted)
    (hck : ∀ kv ∈ cached.options, kv.1 ≤ 65535)
    (hch : chunkAt cached.payload b2.size b2.num = some (chunk, more))
    (hle : ∀ x, st.cachedSzx = some x → b2.szx ≤ x) :
    ∃ resp', coreRequest M req st =
        ({ req with response := some resp' },
         { st with lastBlock2 := some b2, cachedResponse := if more then some cached else none,
                   cachedSzx := if more then st.cachedSzx else none }, .ok true) ∧
      resp'.payload = chunk ∧ corr resp' = corr resp ∧ resp'.header.code = cached.header.code ∧
      (∃ bs, ({ b2 with more := more } : BlockValue).enc = .ok bs ∧ resp'.getOption block2Num = some [bs]) ∧
      (∀ n, n ≠ block2Num → (cached.getOption n).isSome → resp'.getOption n = cached.getOption n) :=
  follow_up_served req resp st b2 cached chunk more M size hb1 hsz hn hb hc hr hs hcs hck hch hle

/-- a follow-up may name ANY block size (the `hle` hypothesis of `follow_up` dropped): a reply served from
the cache carries the bytes of the body AT THE OFFSET THE CLIENT NAMED – at the size it named when that
is not above the negotiated one, else at the negotiated size (D21: block numbers and offsets still agree,
the Block2 echo names the renumbered block) -/
theorem follow_up_of_any_size_same_offset (req : Request) (st : BlockState) (b2 : BlockValue) (x : Nat)
    (req' : Request) (st' : BlockState)
    (hb : firstBlock req.message block2Num = some b2) (hx : st.cachedSzx = some x)
    (h : handleBlock2 req st = (req', st', .ok true)) :
    ∃ cached resp', st.cachedResponse = some cached ∧ req'.response = some resp' ∧
      resp'.payload = (cached.payload.drop (b2.num * b2.size)).take (2 ^ (min b2.szx x + 4)) := by
  obtain ⟨c, r, h1, h2, _, h4⟩ := handleBlock2_served_within req st b2 x req' st' hb hx h
  exact ⟨c, r, h1, h2, h4⟩

/-- END TO END, the tail of a transfer: a client that fetches blocks `k, k+1, …` of a cached
response with one follow-up request per block (`IsFollowUp`: a Block2 option naming the block, no
Block1 option, a prepared reply; tokens, message ids and other options are arbitrary), the last
request naming the body's last block, gets – concatenated – exactly the rest of the body; every
request is answered from the cache without consulting the application, and the final block
releases the cache entry. By induction over the requests, for every body, size and block count. -/
theorem follow_ups_reassemble (M : Nat) (cached : Packet) (szx : Nat)
    (hcs : cached.options.Sorted) (hck : ∀ kv ∈ cached.options, kv.1 ≤ 65535)
    (reqs : List Request) (k : Nat) (st : BlockState)
    (hst : st.cachedResponse = some cached)
    (hle : ∀ x, st.cachedSzx = some x → szx ≤ x)
    (hfu : ∀ i (h : i < reqs.length), IsFollowUp M reqs[i] (k + i) szx)
    (hne : reqs ≠ [])
    (hlast : (k + reqs.length - 1) * 2 ^ (szx + 4) < cached.payload.length)
    (hcover : cached.payload.length ≤ (k + reqs.length) * 2 ^ (szx + 4)) :
    ((fetchAll M reqs st).1.flatMap (·.1)) = cached.payload.drop (k * 2 ^ (szx + 4)) ∧
    (∀ o ∈ (fetchAll M reqs st).1, o.2 = .ok true) ∧
    (fetchAll M reqs st).2.cachedResponse = none :=
  download_tail M cached szx hcs hck reqs k st hst hle hfu hne hlast hcover

/-- … and with block 0 (the first `size` bytes, served with the application's reply, `first_block`
/ `served_block`) the client holds the whole body, byte for byte -/
theorem whole_body (M : Nat) (cached : Packet) (szx : Nat)
    (hcs : cached.options.Sorted) (hck : ∀ kv ∈ cached.options, kv.1 ≤ 65535)
    (reqs : List Request) (st : BlockState)
    (hst : st.cachedResponse = some cached)
    (hle : ∀ x, st.cachedSzx = some x → szx ≤ x)
    (hfu : ∀ i (h : i < reqs.length), IsFollowUp M reqs[i] (1 + i) szx)
    (hne : reqs ≠ [])
    (hlast : (1 + reqs.length - 1) * 2 ^ (szx + 4) < cached.payload.length)
    (hcover : cached.payload.length ≤ (1 + reqs.length) * 2 ^ (szx + 4)) :
    cached.payload.take (2 ^ (szx + 4)) ++ ((fetchAll M reqs st).1.flatMap (·.1)) = cached.payload := by
  rw [(download_tail M cached szx hcs hck reqs 1 st hst hle hfu hne hlast hcover).1, Nat.one_mul]
  exact List.take_append_drop _ _

/-- … AT THE LEVEL OF THE HANDLER, with its cache and clock, inside arbitrary traffic: from any
reachable handler state, ANY monotone history `evs`. The calls for key `κ` are request-side
follow-ups for blocks `k, k+1, …` up to the last block of the response `cached` that is in effect
for `κ` at the first of them, at most `ttl` apart. Their reply payloads, concatenated, are exactly
the rest of the body, and every one is answered from the cache (`ok true`) – whatever other
transfers do in between. -/
theorem follow_ups_in_any_history (h : Handler) (t : Nat) (evs : List Ev) (κ : Key) (st : BlockState)
    (cached : Packet) (szx k : Nat)
    (hi : Lru.Inv h.cache t) (hm : Mono t evs)
    (hsp : Spaced h.cache.ttl (evs.filter (fun e => e.key = κ)))
    (hst : ∀ e ∈ (evs.filter (fun e => e.key = κ)).head?, effective h κ e.now = st)
    (hreqs : ∀ e ∈ evs.filter (fun e => e.key = κ), e.isResp = false)
    (hcs : cached.options.Sorted) (hck : ∀ kv ∈ cached.options, kv.1 ≤ 65535)
    (hc : st.cachedResponse = some cached)
    (hle : ∀ x, st.cachedSzx = some x → szx ≤ x)
    (reqs : List Request) (hκ : (evs.filter (fun e => e.key = κ)).map (·.req) = reqs)
    (hfu : ∀ i (hlt : i < reqs.length), IsFollowUp h.maxSize reqs[i] (k + i) szx)
    (hne : reqs ≠ [])
    (hlast : (k + reqs.length - 1) * 2 ^ (szx + 4) < cached.payload.length)
    (hcover : cached.payload.length ≤ (k + reqs.length) * 2 ^ (szx + 4)) :
    let obs := ((runEvs h evs).filter (fun o => o.1 = κ)).map (·.2)
    obs.flatMap (fun o => (o.1.response.map (·.payload)).getD []) = cached.payload.drop (k * 2 ^ (szx + 4)) ∧
    ∀ o ∈ obs, o.2 = .ok true :=
  Block.follow_ups_in_any_history h t evs κ st cached szx k hi hm hsp hst hreqs hcs hck hc hle reqs hκ hfu hne
    hlast hcover

/-- a follow-up request that carries no payload passes the Block1 stage (the `small` clause of
`IsFollowUp`) exactly when its own encoded size leaves the 12 reserved bytes free within the budget;
a request nearly as large as the budget itself is refused by the handler (5.00) before the Block2
stage – "a budget that leaves room for a block" is read for every message of the transfer -/
theorem follow_up_small_iff (size M : Nat) :
    negotiate none size 0 M = .ok none ↔ size + Consts.blockOptionsMaxLength < M := by
  rw [negotiate_none size 0 M (Nat.zero_le _)]
  unfold blockBudget
  omega

/-- FROM THE APPLICATION'S REPLY TO THE REASSEMBLED BODY, in one statement: `resp` is what the application
produced for `req` (no Block2 option of its own), `rb2` the block negotiated for it – block 0 – and the
body is longer than one block. `intercept_response` (core) answers with block 0 = the first `size`
bytes and keeps `resp`; the follow-up requests for blocks 1, 2, … at that size are all answered from the
cache (the application is consulted once), block 0 followed by their payloads is byte for byte the
body, and the final block releases the cache entry. -/
theorem download_from_reply (M : Nat) (req : Request) (st : BlockState) (resp : Packet) (size : Nat)
    (rb2 : BlockValue)
    (hr : req.response = some resp) (hno : resp.getOption block2Num = none)
    (hs : resp.options.Sorted) (hk : ∀ kv ∈ resp.options, kv.1 ≤ 65535)
    (hsz : computeMessageSize resp = .ok size)
    (hn : negotiate st.lastBlock2 (size + tokenReserve resp) resp.payload.length M = .ok (some rb2))
    (hbv : BvOk rb2) (h0 : rb2.num = 0)
    (hmore : rb2.size < resp.payload.length)
    (reqs : List Request)
    (hfu : ∀ i (h : i < reqs.length), IsFollowUp M reqs[i] (1 + i) rb2.szx)
    (hne : reqs ≠ [])
    (hlast : (1 + reqs.length - 1) * 2 ^ (rb2.szx + 4) < resp.payload.length)
    (hcover : resp.payload.length ≤ (1 + reqs.length) * 2 ^ (rb2.szx + 4)) :
    (coreResponse M req st).2.2 = .ok true ∧
    (coreResponse M req st).1.response.map (·.payload) = some (resp.payload.take rb2.size) ∧
    (resp.payload.take rb2.size ++
        ((fetchAll M reqs (coreResponse M req st).2.1).1.flatMap (·.1))) = resp.payload ∧
    (∀ o ∈ (fetchAll M reqs (coreResponse M req st).2.1).1, o.2 = .ok true) ∧
    (fetchAll M reqs (coreResponse M req st).2.1).2.cachedResponse = none :=
  Block.download_from_reply M req st resp size rb2 hr hno hs hk hsz hn hbv h0 hmore reqs hfu hne hlast hcover

/-- … so the next request reaches the application again -/
theorem after_release_passes (req : Request) (st : BlockState)
    (h : firstBlock req.message block2Num = none ∨ st.cachedResponse = none) :
    handleBlock2 req st = (req, { st with lastBlock2 := firstBlock req.message block2Num }, .ok false) :=
  handleBlock2_pass req st h

/-! non-vacuity -/
example : chunkAt [1, 2, 3, 4, 5] 2 2 = some ([5], false) ∧ chunkAt [1, 2, 3, 4, 5] 2 1 = some ([3, 4], true) ∧
    chunkAt [] 16 0 = some ([], false) ∧ chunkAt [1] 16 1 = none := by decide

/-- THE WHOLE DOWNLOAD AT THE LEVEL OF THE HANDLER, inside arbitrary traffic. Fresh handler, ANY monotone
history `evs`. The calls for key `κ`, at most `ttl` apart, are: any earlier calls `pre`, then `e0` =
`intercept_response` with the application's reply `resp` (no Block2 option of its own; block 0 = `rb2` is
what the negotiation gives in the state `pre` left behind; the body is longer than one block), then the
request-side follow-ups `fus` for blocks 1, 2, … up to the last block, at the negotiated size. Observed for
`e0` and the follow-ups: every call is answered by the handler (`ok true` – the application produced the
body once), and the reply payloads, concatenated, are byte for byte the body – whatever other transfers do
in between (`transfer_in_any_history` + `download_from_reply`, `Lemmas/DownloadHistory.lean`). -/
theorem download_in_any_history (M ttl : Nat) (evs : List Ev) (κ : Key) (hm : Mono 0 evs)
    (hsp : Spaced ttl (evs.filter (fun e => e.key = κ)))
    (pre : List Ev) (e0 : Ev) (fus : List Ev) (reqs : List Request)
    (hκ : evs.filter (fun e => e.key = κ) = pre ++ e0 :: fus)
    (h0 : e0.isResp = true) (hfr : ∀ e ∈ fus, e.isResp = false) (hreqs : fus.map (·.req) = reqs)
    (resp : Packet) (size : Nat) (rb2 : BlockValue)
    (hr : e0.req.response = some resp) (hno : resp.getOption block2Num = none)
    (hs : resp.options.Sorted) (hk : ∀ kv ∈ resp.options, kv.1 ≤ 65535)
    (hsz : computeMessageSize resp = .ok size)
    (hn : negotiate (finalState M BlockState.default pre).lastBlock2 (size + tokenReserve resp)
            resp.payload.length M = .ok (some rb2))
    (hbv : BvOk rb2) (hz : rb2.num = 0) (hmore : rb2.size < resp.payload.length)
    (hfu : ∀ i (h : i < reqs.length), IsFollowUp M reqs[i] (1 + i) rb2.szx)
    (hne : reqs ≠ [])
    (hlast : (1 + reqs.length - 1) * 2 ^ (rb2.szx + 4) < resp.payload.length)
    (hcover : resp.payload.length ≤ (1 + reqs.length) * 2 ^ (rb2.szx + 4)) :
    let obs := ((runEvs (Handler.new M ttl) evs).filter (fun o => o.1 = κ)).map (·.2)
    let tail := obs.drop pre.length
    tail.length = 1 + fus.length ∧ (∀ o ∈ tail, o.2 = .ok true) ∧
    tail.flatMap (fun o => (o.1.response.map (·.payload)).getD []) = resp.payload :=
  Block.download_in_any_history M ttl evs κ hm hsp pre e0 fus reqs hκ h0 hfr hreqs resp size rb2 hr hno hs hk
    hsz hn hbv hz hmore hfu hne hlast hcover

/-! ### tie to the source: the state the model carries is the state the code carries

`Shapes.*` (Generated/Shapes.lean) is re-read from /repo/src on every run: the field lists of the
structs this property's model mirrors, and every construct that introduces state outside the values
the API passes around (thread-locals, `static mut`, cells, locks, atomics). The model accounts for
exactly these fields (Lemmas/Shape/*.lean say which model field mirrors which); a field or a
global added to the code – a memo, a marker, a digest in place of the data – breaks this theorem
even if no explored input behaves differently. -/
theorem state_shape_matches_source :
    Shapes.globalState = [] ∧
    Shapes.blockHandler = [("config", "BlockHandlerConfig"), ("states", "LruCache<RequestCacheKey<Endpoint>,BlockState>")] ∧
    Shapes.blockHandlerConfig = [("cache_expiry_duration", "Duration"), ("max_total_message_size", "usize")] ∧
    Shapes.requestCacheKey = [("path", "Vec<Vec<u8>>"), ("request_type_ord", "u8"), ("requester", "Option<Endpoint>")] ∧
    Shapes.blockState = [("cached_request_payload", "Option<Vec<u8>>"), ("cached_response", "Option<Packet>"),
     ("cached_response_size_exponent", "Option<u8>"), ("last_request_block2", "Option<BlockValue>")] ∧
    Shapes.blockValue = [("more", "bool"), ("num", "u16"), ("size_exponent", "u8")] ∧
    Shapes.coapRequest = [("message", "Packet"), ("response", "Option<CoapResponse>"), ("source", "Option<Endpoint>")] ∧
    Shapes.coapResponse = [("message", "Packet")] ∧
    Shapes.packet = [("header", "Header"), ("options", "BTreeMap<u16,LinkedList<Vec<u8>>>"), ("payload", "Vec<u8>"), ("token", "Vec<u8>")] ∧
    Shapes.header = [("code", "MessageClass"), ("message_id", "u16"), ("ver_type_tkl", "u8")] ∧
    Shapes.headerRaw = [("code", "u8"), ("message_id", "u16"), ("ver_type_tkl", "u8")] :=
  ⟨ShapeTie.no_global_state, ShapeTie.blockHandler, ShapeTie.blockHandlerConfig, ShapeTie.requestCacheKey, ShapeTie.blockState, ShapeTie.blockValue, ShapeTie.coapRequest, ShapeTie.coapResponse, ShapeTie.packet, ShapeTie.header, ShapeTie.headerRaw⟩

/-- the public entry points of the modelled source files – re-read from /repo/src on every run – are
exactly the ones the model was written against (`Lemmas/Shape/Api.lean`): a new public way to change the
state this property is about, or a receiver that became `&mut self`, breaks this theorem -/
theorem api_surface_matches_source :
    Shapes.apiBlockHandler = ShapeTie.expectedApiBlockHandler ∧
    Shapes.apiBlockValue = ShapeTie.expectedApiBlockValue :=
  ⟨ShapeTie.apiBlockHandler, ShapeTie.apiBlockValue⟩

end CoapLite.C08
