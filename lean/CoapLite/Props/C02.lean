/-
C02 — Every accepted datagram re-encodes to identical bytes (decoding is
lossless).
-/
import CoapLite.Lemmas.Shape.Api
import CoapLite.Lemmas.CodecInv
import CoapLite.Lemmas.Shape.Packet
import CoapLite.Lemmas.Shape.Global

namespace CoapLite.C02
open CoapLite Codec

/-- For every byte string the parser accepts, re-serialising the parsed message
without a size limit reproduces the input byte for byte; the only permitted
differences are (a) a trailing payload marker with nothing after it and (b) the
marker and payload of a message whose code byte is 0.00 – both are dropped. -/
theorem enc_dec (b : Bytes) (p : Packet) (h : dec b = .ok p) :
    ∃ pre, enc p none = .ok pre ∧
      (b = pre ∨
       (b = pre ++ [0xFF] ∧ p.payload = []) ∨
       (∃ pl, b = pre ++ 0xFF :: pl ∧ p.payload = pl ∧ b[1]? = some 0)) :=
  Codec.enc_dec b p h

/-- when neither permitted dropping applies the re-encoding is exactly the input -/
theorem enc_dec_exact (b : Bytes) (p : Packet) (h : dec b = .ok p)
    (hp : p.payload ≠ []) (hc : b[1]? ≠ some 0) : enc p none = .ok b :=
  Codec.enc_dec_exact b p h hp hc

/-- consequently no two different accepted datagrams parse to equal messages:
two inputs with the same parse share the re-encoding as a common prefix and can
differ only in the dropped tail; if the message sends a payload they are equal -/
theorem dec_injective (b₁ b₂ : Bytes) (p : Packet) (h₁ : dec b₁ = .ok p) (h₂ : dec b₂ = .ok p) :
    (∃ pre, enc p none = .ok pre ∧ pre <+: b₁ ∧ pre <+: b₂) ∧
    (p.payload ≠ [] → b₁ = b₂) :=
  Codec.dec_injective b₁ b₂ p h₁ h₂

/-! non-vacuity: the three cases occur -/
example : dec [0x40, 0x01, 0, 1, 0xd1, 0xf5, 0x01] =
    .ok { header := { vtt := 0x40, code := .Request .Get, mid := 1 }, token := [],
          options := [(258, [[0x01]])], payload := [] } := by
  simp [dec, decOpts, rdExt, OptMap.add, OptMap.get, OptMap.insert, MessageClass.ofU8]
example : (dec [0x40, 0x01, 0, 1, 0xFF]).isOk = true := by
  simp [dec, decOpts, Res.isOk]
example : (dec [0x40, 0x00, 0, 1, 0xFF, 0x41]).isOk = true := by
  simp [dec, decOpts, Res.isOk]

/-! ### tie to the source: the state the model carries is the state the code carries

`Shapes.*` (Generated/Shapes.lean) is re-read from /repo/src on every run: the field lists of the
structs this property's model mirrors, and every construct that introduces state outside the values
the API passes around (thread-locals, `static mut`, cells, locks, atomics). The model accounts for
exactly these fields (Lemmas/Shape/*.lean say which model field mirrors which); a field or a
global added to the code – a memo, a marker, a digest in place of the data – breaks this theorem
even if no explored input behaves differently. -/
theorem state_shape_matches_source :
    Shapes.globalState = [] ∧
    Shapes.packet = [("header", "Header"), ("options", "BTreeMap<u16,LinkedList<Vec<u8>>>"), ("payload", "Vec<u8>"), ("token", "Vec<u8>")] ∧
    Shapes.header = [("code", "MessageClass"), ("message_id", "u16"), ("ver_type_tkl", "u8")] ∧
    Shapes.headerRaw = [("code", "u8"), ("message_id", "u16"), ("ver_type_tkl", "u8")] :=
  ⟨ShapeTie.no_global_state, ShapeTie.packet, ShapeTie.header, ShapeTie.headerRaw⟩

/-- the public entry points of the modelled source files – re-read from /repo/src on every run – are
exactly the ones the model was written against (`Lemmas/Shape/Api.lean`): a new public way to change the
state this property is about, or a receiver that became `&mut self`, breaks this theorem -/
theorem api_surface_matches_source :
    Shapes.apiPacket = ShapeTie.expectedApiPacket ∧
    Shapes.apiHeader = ShapeTie.expectedApiHeader :=
  ⟨ShapeTie.apiPacket, ShapeTie.apiHeader⟩

end CoapLite.C02
