/-
C18 — Link-format writer reports every sink failure and writes nothing after
it.  Model: Model/LinkFormat.lean (writer side): every sink call is guarded by
the latched error; the sink fails according to an ARBITRARY schedule
`fails : call index → Bool` ("fail only call k" and "fail call k and all later
ones" are two instances).
-/
import CoapLite.Lemmas.Shape.Api
import CoapLite.Lemmas.LinkWrite
import CoapLite.Lemmas.LinkWriteOps
import CoapLite.Lemmas.Shape.Link
import CoapLite.Lemmas.Shape.Global

namespace CoapLite.C18
open CoapLite Link

/-- when the sink never fails the result is success and the output is complete -/
theorem no_fault_ok (nl : Bool) (d : Doc) : (writeDoc noFault nl d).finish = true :=
  (write_ok nl d).1

/-- for every document and every fault schedule: the finally reported result is
an error iff one of the calls the writer issues fails; what the sink holds is a
prefix of the fault-free output; and no call is issued after the first failed
one (so no further text reaches the sink) -/
theorem faults_reported_and_nothing_after (fails : Nat → Bool) (nl : Bool) (d : Doc) :
    let w := writeDoc fails nl d
    let w0 := writeDoc noFault nl d
    (w.finish = false ↔ ∃ k, k < w0.calls ∧ fails k = true) ∧
    w.sink <+: w0.sink ∧
    (match firstFail fails w0.calls with
     | some k => w.calls = k + 1 ∧ w.error = true
     | none => w = w0) :=
  write_faults fails nl d

/-- failing once at call `k` and failing persistently from `k` on leave the same
text in the sink as any other schedule whose first failure is `k` -/
theorem once_and_persistent_agree (fails : Nat → Bool) (nl : Bool) (d : Doc) (k : Nat)
    (hk : firstFail fails (writeDoc noFault nl d).calls = some k) :
    (writeDoc fails nl d).sink = (writeDoc (fun i => decide (i ≥ k)) nl d).sink ∧
    (writeDoc fails nl d).sink = (writeDoc (fun i => decide (i = k)) nl d).sink :=
  sink_at_failure fails nl d k hk

/-- THE WRITER AS AN API: for EVERY sequence of `link`, attribute and `set_add_newlines` calls (the
option may be switched again anywhere, also after a failure) and every fault schedule: the finally
reported result is an error iff one of the calls the writer issues fails, the sink holds a prefix of
the fault-free output of the same call sequence, and no call is issued after the first failed one -/
theorem api_faults_reported_and_nothing_after (fails : Nat → Bool) (nl : Bool) (ops : List WOp) :
    let w := writeOps fails nl ops
    let w0 := writeOps noFault nl ops
    (w.finish = false ↔ ∃ k, k < w0.calls ∧ fails k = true) ∧
    w.sink <+: w0.sink ∧
    (match firstFail fails w0.calls with
     | some k => w.calls = k + 1 ∧ w.error = true
     | none => w = w0) :=
  P.writeOps_faults fails nl ops

/-- a document written link by link is one such call sequence -/
theorem document_is_a_call_sequence (fails : Nat → Bool) (nl : Bool) (d : Doc) :
    writeDoc fails nl d = writeOps fails nl d.ops :=
  writeDoc_eq_writeOps fails nl d

/-- `set_add_newlines` touches nothing but the flag: a latched failure survives it -/
theorem set_add_newlines_keeps_error (w : W) (b : Bool) :
    (w.setNl b).error = w.error ∧ (w.setNl b).sink = w.sink ∧ (w.setNl b).calls = w.calls ∧
    (w.setNl b).isFirst = w.isFirst := ⟨rfl, rfl, rfl, rfl⟩

/-! non-vacuity: the option switched on before the second link; the ',' call (index 3) fails once -/
example : (writeOps (fun i => decide (i = 3)) false
    [.link "a".toList, .setNl true, .link "b".toList, .setNl false, .link "c".toList]).sink = "<a>".toList ∧
  (writeOps (fun i => decide (i = 3)) false
    [.link "a".toList, .setNl true, .link "b".toList, .setNl false, .link "c".toList]).finish = false ∧
  (writeOps noFault false
    [.link "a".toList, .setNl true, .link "b".toList, .setNl false, .link "c".toList]).sink = "<a>,\n\r<b>,<c>".toList := by
  decide

/-! non-vacuity: the D12 situation – newlines on, the ',' call (index 3) fails once -/
def exDoc : Doc := [("a".toList, []), ("b".toList, [])]
example : (writeDoc noFault true exDoc).sink = "<a>,\n\r<b>".toList ∧ (writeDoc noFault true exDoc).calls = 8 := by
  decide
example : (writeDoc (fun i => decide (i = 3)) true exDoc).sink = "<a>".toList ∧
    (writeDoc (fun i => decide (i = 3)) true exDoc).finish = false ∧
    (writeDoc (fun i => decide (i = 3)) true exDoc).calls = 4 := by decide

/-! ### tie to the source: the state the model carries is the state the code carries

`Shapes.*` (Generated/Shapes.lean) is re-read from /repo/src on every run: the field lists of the
structs this property's model mirrors, and every construct that introduces state outside the values
the API passes around (thread-locals, `static mut`, cells, locks, atomics). The model accounts for
exactly these fields (Lemmas/Shape/*.lean say which model field mirrors which); a field or a
global added to the code – a memo, a marker, a digest in place of the data – breaks this theorem
even if no explored input behaves differently. -/
theorem state_shape_matches_source :
    Shapes.globalState = [] ∧
    Shapes.linkFormatWrite = [("add_newlines", "bool"), ("error", "Option<Error>"), ("is_first", "bool"), ("write", "&mutT")] ∧
    Shapes.linkAttributeWrite = [("0", "&mutLinkFormatWrite<T>")] ∧
    Shapes.linkFormatParser = [("inner", "&str")] ∧
    Shapes.linkAttributeParser = [("inner", "&str")] ∧
    Shapes.unquote = [("inner", "Chars"), ("state", "UnquoteState")] :=
  ⟨ShapeTie.no_global_state, ShapeTie.linkFormatWrite, ShapeTie.linkAttributeWrite, ShapeTie.linkFormatParser, ShapeTie.linkAttributeParser, ShapeTie.unquote⟩

/-- the public entry points of the modelled source files – re-read from /repo/src on every run – are
exactly the ones the model was written against (`Lemmas/Shape/Api.lean`): a new public way to change the
state this property is about, or a receiver that became `&mut self`, breaks this theorem -/
theorem api_surface_matches_source :
    Shapes.apiLinkFormat = ShapeTie.expectedApiLinkFormat :=
  ShapeTie.apiLinkFormat

end CoapLite.C18
