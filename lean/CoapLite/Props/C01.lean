/-
C01 — Encoded messages are the exact RFC 7252 wire image and decode back
unchanged.  Model: `Codec.enc`/`Codec.dec` (+ `Packet` mutators); spec:
`Spec.wire`.
-/
import CoapLite.Lemmas.Shape.Api
import CoapLite.Lemmas.CodecFwd
import CoapLite.Lemmas.Builder
import CoapLite.Lemmas.BuilderWF
import CoapLite.Lemmas.Shape.Packet
import CoapLite.Lemmas.Shape.Global

namespace CoapLite.C01
open CoapLite Codec Spec

/-- serialising a well-formed packet yields exactly the RFC 7252 §3 image of the
message it denotes (any option numbers and value lengths, on both sides of the
13 / 269 thresholds; repeated options; cleared options; payload marker) -/
theorem enc_eq_wire (p : Packet) (h : PktWF p) : enc p none = .ok (wire (toMsg p)) :=
  Codec.enc_eq_wire p h

/-- parsing those bytes returns the same version/type/token-length byte, code
byte, message id, token, options (same values in the same per-number order) and
payload.  The excluded case – a payload on a packet whose code byte is 0 – is
`C01.empty_drops_payload`. -/
theorem dec_enc (p : Packet) (h : PktWF p)
    (hc : MessageClass.toU8 p.header.code = 0 → p.payload = []) :
    ∃ b q, enc p none = .ok b ∧ dec b = .ok q ∧
      q.header.vtt = p.header.vtt ∧ q.header.mid = p.header.mid ∧
      q.header.code = MessageClass.ofU8 (MessageClass.toU8 p.header.code) ∧
      q.token = p.token ∧ q.options.flatten = p.options.flatten ∧ q.options.Sorted ∧
      q.payload = p.payload :=
  Codec.dec_enc p h hc

/-- a 0.00 Empty message never carries its payload or a marker (RFC 7252 §4.1) -/
theorem empty_drops_payload (p : Packet) (h : PktWF p) (hc : p.header.code = .Empty) :
    enc p none = .ok (wire { toMsg p with payload := [] }) ∧ (toMsg p).payload = [] :=
  Codec.empty_drops_payload p h hc

/-! ### any order of API calls -/

/-! #### byte algebra behind the header setters -/

private theorem and_or (x y z : UInt8) : x &&& (y ||| z) = (x &&& y) ||| (x &&& z) := by
  simp [← UInt8.toBitVec_inj, BitVec.and_or_distrib_left]

private theorem or_lc (x y z : UInt8) : x ||| (y ||| z) = y ||| (x ||| z) := by
  rw [← UInt8.or_assoc, UInt8.or_comm x y, UInt8.or_assoc]

/-- masking a masked byte: combine the two constant masks -/
private theorem and_and (m₁ m₂ b : UInt8) : m₁ &&& (m₂ &&& b) = (m₁ &&& m₂) &&& b :=
  (UInt8.and_assoc m₁ m₂ b).symm

private theorem ver_field : ∀ v : Fin 4,
    (0xCF : UInt8) &&& (UInt8.ofNat v.val <<< 6) = UInt8.ofNat v.val <<< 6 ∧
    (0xF0 : UInt8) &&& (UInt8.ofNat v.val <<< 6) = UInt8.ofNat v.val <<< 6 ∧
    (UInt8.ofNat v.val <<< 6) >>> 6 = UInt8.ofNat v.val := by decide

private theorem typ_field : ∀ t : MessageType,
    (0x3F : UInt8) &&& (UInt8.ofNat (MessageType.toBits t) <<< 4) = UInt8.ofNat (MessageType.toBits t) <<< 4 ∧
    (0xF0 : UInt8) &&& (UInt8.ofNat (MessageType.toBits t) <<< 4) = UInt8.ofNat (MessageType.toBits t) <<< 4 ∧
    (0x30 : UInt8) &&& (UInt8.ofNat (MessageType.toBits t) <<< 4) = UInt8.ofNat (MessageType.toBits t) <<< 4 ∧
    MessageType.ofBits? ((UInt8.ofNat (MessageType.toBits t) <<< 4) >>> 4).toNat = some t := by
  intro t; cases t <;> decide

private theorem tkl_field : ∀ k : Fin 16,
    (0x3F : UInt8) &&& UInt8.ofNat k.val = UInt8.ofNat k.val ∧
    (0xCF : UInt8) &&& UInt8.ofNat k.val = UInt8.ofNat k.val ∧
    (0x0F : UInt8) &&& UInt8.ofNat k.val = UInt8.ofNat k.val ∧
    (0xF0 : UInt8) &&& UInt8.ofNat k.val = 0 := by decide

private theorem low6_shr (b : UInt8) : ((0x3F : UInt8) &&& b) >>> 6 = 0 :=
  byte_forall (fun b => ((0x3F : UInt8) &&& b) >>> 6 = 0) (by decide +kernel) b

private theorem masks :
    (0x3F : UInt8) &&& 0xCF = 0x0F ∧ (0xCF : UInt8) &&& 0x3F = 0x0F ∧
    (0xF0 : UInt8) &&& 0x3F = 0x30 ∧ (0x3F : UInt8) &&& 0xF0 = 0x30 ∧
    (0xF0 : UInt8) &&& 0xCF = 0xC0 ∧ (0xCF : UInt8) &&& 0xF0 = 0xC0 ∧
    (0x30 : UInt8) &&& 0xCF = 0 ∧ (0x0F : UInt8) &&& 0xF0 = 0 := by decide

/-! #### the setters, for an arbitrary header (any first byte, code, message id) -/

theorem setVersion_setType_comm (h : Header) (v : Fin 4) (t : MessageType) :
    (h.setType t).setVersion (UInt8.ofNat v.val) = (h.setVersion (UInt8.ofNat v.val)).setType t := by
  obtain ⟨v1, _, _⟩ := ver_field v
  obtain ⟨t1, _, _, _⟩ := typ_field t
  simp only [Header.setVersion, Header.setType, and_or, and_and, masks, v1, t1]
  rw [or_lc]

theorem setTkl_setVersion (h : Header) (v : Fin 4) (k : Fin 16) :
    (h.setVersion (UInt8.ofNat v.val)).setTkl (UInt8.ofNat k.val) =
      (h.setTkl (UInt8.ofNat k.val)).map (fun h => h.setVersion (UInt8.ofNat v.val)) := by
  obtain ⟨_, v2, _⟩ := ver_field v
  obtain ⟨k1, _, _, k4⟩ := tkl_field k
  simp only [Header.setVersion, Header.setTkl, k4, ne_eq, not_true_eq_false, if_false, Res.map,
    and_or, and_and, masks, v2, k1]
  rw [or_lc]

theorem setTkl_setType (h : Header) (t : MessageType) (k : Fin 16) :
    (h.setType t).setTkl (UInt8.ofNat k.val) =
      (h.setTkl (UInt8.ofNat k.val)).map (fun h => h.setType t) := by
  obtain ⟨_, t2, _, _⟩ := typ_field t
  obtain ⟨_, k2, _, k4⟩ := tkl_field k
  simp only [Header.setType, Header.setTkl, k4, ne_eq, not_true_eq_false, if_false, Res.map,
    and_or, and_and, masks, t2, k2]
  rw [or_lc]

theorem getVersion_setVersion (h : Header) (v : Fin 4) :
    (h.setVersion (UInt8.ofNat v.val)).getVersion = UInt8.ofNat v.val := by
  obtain ⟨_, _, v3⟩ := ver_field v
  simp only [Header.setVersion, Header.getVersion, UInt8.shiftRight_or, low6_shr, v3, UInt8.or_zero]

theorem getType_setType (h : Header) (t : MessageType) : (h.setType t).getType = .ok t := by
  obtain ⟨_, _, t3, t4⟩ := typ_field t
  simp only [Header.setType, Header.getType, Header.typeBits, and_or, and_and, masks, t3,
    UInt8.zero_and, UInt8.or_zero, t4]

theorem getTkl_setTkl (h : Header) (k : Fin 16) :
    (h.setTkl (UInt8.ofNat k.val)).map Header.getTkl = .ok (UInt8.ofNat k.val) := by
  obtain ⟨_, _, k3, k4⟩ := tkl_field k
  simp only [Header.setTkl, k4, ne_eq, not_true_eq_false, if_false, Res.map, Header.getTkl,
    and_or, and_and, masks, k3, UInt8.zero_and, UInt8.or_zero]

/-- header setters act on disjoint bit fields: over all 256 first bytes, all
versions 0–3, all types and all token lengths 0–15 they commute pairwise and a
later write to one field wins -/
theorem header_setters_commute :
    ∀ (b : Fin 256) (v : Fin 4) (k : Fin 16), ∀ t ∈ MessageType.allNullary,
      let h : Header := { vtt := UInt8.ofNat b.val, code := .Empty, mid := 0 }
      let V := fun (h : Header) => h.setVersion (UInt8.ofNat v.val)
      let T := fun (h : Header) => h.setType t
      let K := fun (h : Header) => (h.setTkl (UInt8.ofNat k.val))
      (V (T h)) = (T (V h)) ∧
      (K (V h)) = (K h).map V ∧ (K (T h)) = (K h).map T ∧
      (V h).getVersion = UInt8.ofNat v.val ∧ (T h).getType = .ok t ∧
      (K h).map Header.getTkl = .ok (UInt8.ofNat k.val) := by
  intro b v k t _
  exact ⟨setVersion_setType_comm _ v t, setTkl_setVersion _ v k, setTkl_setType _ t k,
    getVersion_setVersion _ v, getType_setType _ t, getTkl_setTkl _ k⟩

/-- adding values for different option numbers commutes; the resulting map
does not depend on the order of the calls -/
theorem addOption_comm (p : Packet) (n₁ n₂ : Nat) (v₁ v₂ : Bytes) (hne : n₁ ≠ n₂)
    (hs : p.options.Sorted) :
    (p.addOption n₁ v₁).addOption n₂ v₂ = (p.addOption n₂ v₂).addOption n₁ v₁ :=
  Codec.addOption_comm p n₁ n₂ v₁ v₂ hne hs

/-- every option mutator keeps the map sorted, so `PktWF` is maintained by the
API (the BTreeMap invariant) -/
theorem mutators_keep_sorted (p : Packet) (hs : p.options.Sorted) (n : Nat) (v : Bytes) (vs : List Bytes) :
    (p.addOption n v).options.Sorted ∧ (p.setOption n vs).options.Sorted ∧
    (p.clearOption n).options.Sorted ∧ (p.clearAllOptions).options.Sorted :=
  Codec.mutators_keep_sorted p hs n v vs

/-- per option number, the values are the ones added for that number, in call
order; other numbers are untouched -/
theorem addOption_get (p : Packet) (hs : p.options.Sorted) (n m : Nat) (v : Bytes) :
    (p.addOption n v).getOption m =
      if m = n then some ((p.getOption n).getD [] ++ [v]) else p.getOption m :=
  Codec.addOption_get p hs n m v

/-- ALL orders of API calls: for every sequence of builder calls (set_version,
set_type, set_token_length, set_token, add_option, set_option, clear_option,
clear_all_options, code / message id / payload writes – any calls, any order,
any repetitions) the resulting packet is exactly what the reference semantics
says: per header field the last value written, per option number the values of
the calls for that number in order (newest-first reference functions in
`Model/Builder.lean`), with a sorted option map -/
theorem build_spec (ops : List Builder.BOp) (p : Packet) (h : Builder.build ops = .ok p) :
    (∀ n, p.getOption n = Builder.refOpts ops.reverse n) ∧ p.options.Sorted ∧
    p.header.getVersion = Builder.refVer ops.reverse ∧
    p.header.getType = .ok (Builder.refTyp ops.reverse) ∧
    p.header.getTkl.toNat = Builder.refTkl ops.reverse ∧
    p.header.code = Builder.refCode ops.reverse ∧ p.header.mid = Builder.refMid ops.reverse ∧
    p.token = Builder.refTok ops.reverse ∧ p.payload = Builder.refPay ops.reverse :=
  Builder.build_spec ops p h

/-- hence two call sequences with the same meaning build the SAME packet (and so,
by `enc_eq_wire`, the same wire image) -/
theorem build_order_irrelevant (ops₁ ops₂ : List Builder.BOp) (p₁ p₂ : Packet)
    (h₁ : Builder.build ops₁ = .ok p₁) (h₂ : Builder.build ops₂ = .ok p₂)
    (ho : ∀ n, Builder.refOpts ops₁.reverse n = Builder.refOpts ops₂.reverse n)
    (hv : Builder.refVer ops₁.reverse = Builder.refVer ops₂.reverse)
    (ht : Builder.refTyp ops₁.reverse = Builder.refTyp ops₂.reverse)
    (hk : Builder.refTkl ops₁.reverse = Builder.refTkl ops₂.reverse)
    (hc : Builder.refCode ops₁.reverse = Builder.refCode ops₂.reverse)
    (hm : Builder.refMid ops₁.reverse = Builder.refMid ops₂.reverse)
    (hto : Builder.refTok ops₁.reverse = Builder.refTok ops₂.reverse)
    (hp : Builder.refPay ops₁.reverse = Builder.refPay ops₂.reverse) :
    p₁ = p₂ :=
  Builder.build_order_irrelevant ops₁ ops₂ p₁ p₂ h₁ h₂ ho hv ht hk hc hm hto hp

/-- the builder API fails only through its documented token-length assertion -/
theorem build_ok_iff (ops : List Builder.BOp) :
    (∃ p, Builder.build ops = .ok p) ↔ Builder.NoAssert ops :=
  Builder.build_ok_iff ops

/-! ### non-vacuity: No-Response (258) as first option, 269-byte value, cleared and re-added -/

def ex1 : Packet :=
  (((Packet.new.addOption 258 [0x1a]).addOption 11 (List.replicate 269 0x61)).clearOption 11).addOption 11 [0x62]

example : PktWF ex1 := by decide
example : (toMsg ex1).opts = [(11, [0x62]), (258, [0x1a])] := by decide

/-- "every message assembled through the public API" meets the hypothesis of `enc_eq_wire` / `dec_enc`:
for any successful sequence of API calls (Model/Builder.lean: header setters, `set_token`, `add_option`,
`set_option`, `clear_option`, `clear_all_options`, code, message id, payload – in any order) whose
last-set values are of the API's own types (token ≤ 8 bytes with the header's length nibble agreeing
with it, `u16` message id and option numbers, a code with a byte, values that fit the 16-bit
extended length), the assembled message is `PktWF`. -/
theorem assembled_messages_are_well_formed (ops : List Builder.BOp) (p : Packet)
    (h : Builder.build ops = .ok p)
    (htok : (Builder.refTok ops.reverse).length ≤ 8)
    (htkl : Builder.refTkl ops.reverse = (Builder.refTok ops.reverse).length)
    (hmid : Builder.refMid ops.reverse < 65536)
    (hcode : MessageClass.toU8 (Builder.refCode ops.reverse) < 256)
    (hopts : ∀ n vs, Builder.refOpts ops.reverse n = some vs → n ≤ 65535 ∧ ∀ v ∈ vs, v.length ≤ 65804) :
    PktWF p :=
  Builder.build_wf ops p h htok htkl hmid hcode hopts

/-! ### tie to the source: the state the model carries is the state the code carries

`Shapes.*` (Generated/Shapes.lean) is re-read from /repo/src on every run: the field lists of the
structs this property's model mirrors, and every construct that introduces state outside the values
the API passes around (thread-locals, `static mut`, cells, locks, atomics). The model accounts for
exactly these fields (Lemmas/Shape/*.lean say which model field mirrors which); a field or a
global added to the code – a memo, a marker, a digest in place of the data – breaks this theorem
even if no explored input behaves differently. -/
theorem state_shape_matches_source :
    Shapes.globalState = [] ∧
    Shapes.packet = [("header", "Header"), ("options", "BTreeMap<u16,LinkedList<Vec<u8>>>"), ("payload", "Vec<u8>"), ("token", "Vec<u8>")] ∧
    Shapes.header = [("code", "MessageClass"), ("message_id", "u16"), ("ver_type_tkl", "u8")] ∧
    Shapes.headerRaw = [("code", "u8"), ("message_id", "u16"), ("ver_type_tkl", "u8")] :=
  ⟨ShapeTie.no_global_state, ShapeTie.packet, ShapeTie.header, ShapeTie.headerRaw⟩

/-- the public entry points of the modelled source files – re-read from /repo/src on every run – are
exactly the ones the model was written against (`Lemmas/Shape/Api.lean`): a new public way to change the
state this property is about, or a receiver that became `&mut self`, breaks this theorem -/
theorem api_surface_matches_source :
    Shapes.apiPacket = ShapeTie.expectedApiPacket ∧
    Shapes.apiHeader = ShapeTie.expectedApiHeader :=
  ⟨ShapeTie.apiPacket, ShapeTie.apiHeader⟩

end CoapLite.C01
