import CoapLite.Basic
import CoapLite.Generated.Tables
import CoapLite.Generated.Consts
