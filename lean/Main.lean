/- Line-protocol driver: one request line in, one result line out. -/
import CoapLite.Driver.Tbl
import CoapLite.Driver.Bv
import CoapLite.Driver.Pkt
import CoapLite.Driver.Uint
import CoapLite.Driver.Acc
import CoapLite.Driver.Obs
import CoapLite.Driver.Lf
import CoapLite.Driver.Blk

open CoapLite.Driver

def dispatch (line : String) : String :=
  match words line with
  | "TBL" :: rest => tbl rest
  | "BV" :: rest => bv rest
  | "PKT" :: rest => pkt rest
  | "UINT" :: rest => uint rest
  | "RESP" :: rest => resp rest
  | "ACC" :: rest => acc rest
  | "OBS" :: rest => obs rest
  | "LF" :: rest => lf rest
  | "BLK" :: rest => blk rest
  | _ => "bad-domain"

partial def loop (hin : IO.FS.Stream) (hout : IO.FS.Stream) (buf : String) (n : Nat) : IO Unit := do
  let line ← hin.getLine
  if line.isEmpty then
    hout.putStr buf
    hout.flush
    return ()
  let buf := buf ++ dispatch line ++ "\n"
  if n ≥ 2000 then
    hout.putStr buf
    loop hin hout "" 0
  else
    loop hin hout buf (n + 1)

def main : IO Unit := do
  loop (← IO.getStdin) (← IO.getStdout) "" 0
