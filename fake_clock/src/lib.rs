//! Deterministic stand-in for `sn_fake_clock` (not in the offline registry):
//! a process-global millisecond counter that only moves when told to.
use std::ops::{Add, Sub};
use std::sync::atomic::{AtomicU64, Ordering};
use std::time::Duration;

static NOW_MS: AtomicU64 = AtomicU64::new(0);

#[derive(Clone, Copy, Debug, PartialEq, Eq, PartialOrd, Ord, Hash)]
pub struct FakeClock(u64);

impl FakeClock {
    pub fn now() -> FakeClock {
        FakeClock(NOW_MS.load(Ordering::SeqCst))
    }
    pub fn advance_time(ms: u64) {
        NOW_MS.fetch_add(ms, Ordering::SeqCst);
    }
    pub fn set_time(ms: u64) {
        NOW_MS.store(ms, Ordering::SeqCst);
    }
    pub fn elapsed(self) -> Duration {
        Duration::from_millis(NOW_MS.load(Ordering::SeqCst) - self.0)
    }
}
impl Add<Duration> for FakeClock {
    type Output = FakeClock;
    fn add(self, d: Duration) -> FakeClock {
        FakeClock(self.0.saturating_add(d.as_millis().min(u64::MAX as u128) as u64))
    }
}
impl Sub<Duration> for FakeClock {
    type Output = FakeClock;
    fn sub(self, d: Duration) -> FakeClock {
        FakeClock(self.0.saturating_sub(d.as_millis() as u64))
    }
}
impl Sub<FakeClock> for FakeClock {
    type Output = Duration;
    fn sub(self, o: FakeClock) -> Duration {
        Duration::from_millis(self.0 - o.0)
    }
}
