#!/usr/bin/env python3
"""Regenerates MANIFEST.json from props_config.py (claimed checks) + properties.jsonl."""
import json, os, sys, subprocess
V = os.path.dirname(os.path.dirname(os.path.abspath(__file__)))
sys.path.insert(0, V)
from props_config import PROPS
ids = [json.loads(l)['id'] for l in open(os.path.join(V, 'properties.jsonl'))]
try:
    commits = subprocess.check_output(['git', '-C', '/repo', 'log', '--format=%h %s', '2f5e9a0..HEAD']).decode().splitlines()
except Exception:
    commits = []
hook_commits = [c.split()[0] for c in commits if c.split(' ', 1)[1].startswith(('verif-hook', 'verif hook'))]
checks = []
for i in ids:
    if i not in PROPS or not PROPS[i].get('claimed', True):
        continue
    c = PROPS[i]
    checks.append(dict(
        property_id=i,
        quick_cmd='./check %s --tier quick' % i,
        thorough_cmd='./check %s --tier thorough' % i,
        evidence_file='/verif/evidence/%s.json' % i,
        replay_cmd_template='./check %s --replay {path}' % i,
        engine='lean4-proof+correspondence',
        level_claimed=dict(category='proof', text=c.get('level_text', 'Lean 4 theorems about an executable model, for all inputs/histories the property quantifies over; the model is tied to the current source by the translator (tables, constants, field lists of the state structs and the public API surface, regenerated every run) and by a differential correspondence check (hand-written parts) in both overflow-check builds.'), design_ref=c.get('design_ref', 'DESIGN.md §5 ' + i)),
        level_note=c.get('level_note', 'Trusted: Lean kernel; axioms propext/Classical.choice/Quot.sound only; translator + correspondence harness (agreement of model and code is established on explored inputs only); see DESIGN.md §4.'),
        technique=c.get('technique', 'Lean 4 proof over executable model + translator/correspondence tie'),
    ))
na = [dict(property_id=i, reason=PROPS.get(i, {}).get('na_reason', 'machinery for this property is still under construction in this session; not claimed yet')) for i in ids if i not in [c['property_id'] for c in checks]]
m = dict(
    version=1,
    setup_cmd='./check --setup',
    hooks=dict(guard='coap_lite_verif', enable="harness/.cargo/config.toml passes --cfg coap_lite_verif to rustc for the path dependency /repo (done by ./check)",
               baseline_off_cmd='cd /repo && cargo test --offline', source_commits=hook_commits, add_only=True),
    engines=[dict(name='lean4-proof+correspondence', path='/verif/check', serves_properties=[c['property_id'] for c in checks],
                  kind_free_text='Lean 4 theorems (lean/CoapLite/Props) about an executable model; translator (translator/gen_model.py) regenerates tables; Rust harness + compiled Lean driver diff model against implementation')],
    checks=checks,
    notes='See DESIGN.md. known_findings.json lists fixed/known defects.',
    not_applicable=na,
)
json.dump(m, open(os.path.join(V, 'MANIFEST.json'), 'w'), indent=1)
print('claimed:', [c['property_id'] for c in checks])
