#!/usr/bin/env python3
"""Negative controls: run the checks against behaviour-preserving refactorings written by
independent sub-agents, in parallel lanes, without touching /repo. Each lane applies
<worktree>/OUT/harmless.diff in the agent's scratch worktree and runs ./check for the listed
properties in a private copy of /verif with VERIF_REPO pointing at the worktree.

   tools/eval_harmless.py <id>=<worktree>:<C01,C02,...> ...

Results: seeded/<id>/{patch.diff, description.md, meta.json}. No check may raise an alarm."""
import json, os, shutil, subprocess, sys, time
from concurrent.futures import ThreadPoolExecutor
V = os.path.dirname(os.path.dirname(os.path.abspath(__file__)))
ENV = dict(os.environ, CARGO_NET_OFFLINE='true')


def sh(cmd, cwd=None, env=None, timeout=7200):
    r = subprocess.run(cmd, shell=True, cwd=cwd, capture_output=True, text=True, env=env or ENV, timeout=timeout)
    return r.returncode, r.stdout + r.stderr


def lane(spec):
    hid, rest = spec.split('=')
    wt, props = rest.split(':')
    props = props.split(',')
    diff = os.path.join(wt, 'OUT', 'harmless.diff')
    sh('git checkout -- src && rm -rf tests', wt)
    rc, o = sh('git apply %s' % diff, wt)
    if rc != 0:
        return hid, 'diff does not apply: ' + o[-200:]
    _, o2 = sh('cargo test --offline 2>&1 | grep "test result" | head -1', wt)
    ev = '/tmp/ev_%s' % hid
    shutil.rmtree(ev, ignore_errors=True)
    sh('rsync -a --exclude .git --exclude seeded --exclude work --exclude evidence %s/ %s/' % (V, ev))
    env = dict(ENV, VERIF_REPO=wt)
    results, details = {}, {}
    t0 = time.time()
    for p in props:
        rc, o = sh('./check %s' % p, ev, env)
        lines = o.strip().splitlines()
        v = 'OK' if rc == 0 else ('VIOLATION' if any(l.startswith('VIOLATION') for l in lines) else 'ERROR rc=%d' % rc)
        if any('no-failing-input-found' in l for l in lines):
            v += ' (no-failing-input-found)'
        results[p] = v
        if v != 'OK':
            details[p] = ' | '.join(l.strip()[:400] for l in lines if l.strip().startswith(('failing input:', 'no longer checks:')))[:1500]
        print(hid, p, v, flush=True)
    d = os.path.join(V, 'seeded', hid)
    os.makedirs(d, exist_ok=True)
    shutil.copy(diff, os.path.join(d, 'patch.diff'))
    md = os.path.join(wt, 'OUT', 'harmless.md')
    if os.path.exists(md):
        shutil.copy(md, os.path.join(d, 'description.md'))
    eq = os.path.join(wt, 'OUT', 'equiv.rs')
    if os.path.exists(eq):
        shutil.copy(eq, os.path.join(d, 'equiv.rs'))
    head = sh('git rev-parse --short HEAD', wt)[1].strip()
    json.dump(dict(id=hid, kind='behaviour-preserving refactoring written by an independent sub-agent (negative control: no check may raise an alarm)',
                   check_results=results, details=details, existing_suite_with_change=o2.strip(),
                   ran=['cargo test --offline (with the change, scratch worktree)',
                        'VERIF_REPO=<patched worktree> ./check <props> in a private copy of /verif'],
                   evaluated_at_repo_head=head, eval_s=round(time.time() - t0)),
              open(os.path.join(d, 'meta.json'), 'w'), indent=1)
    sh('git checkout -- src && rm -rf tests', wt)
    shutil.rmtree(ev, ignore_errors=True)
    return hid, results


with ThreadPoolExecutor(max_workers=4) as ex:
    for r in ex.map(lane, sys.argv[1:]):
        print(r, flush=True)
print('done')
