#!/usr/bin/env python3
"""Confirm a sub-agent's mutation in its scratch worktree, run our checks against it, record it.
   tools/eval_seeded.py C07 1 [--props C07,C19] """
import json, os, shutil, subprocess, sys, time
V = os.path.dirname(os.path.dirname(os.path.abspath(__file__)))
pid, k = sys.argv[1], sys.argv[2]
props = None
if '--props' in sys.argv:
    props = sys.argv[sys.argv.index('--props') + 1].split(',')
rnd = ''
if '--round' in sys.argv:
    rnd = sys.argv[sys.argv.index('--round') + 1]
wt = ('/tmp/mut%s_' % rnd if rnd else '/tmp/mut_') + pid
out = os.path.join(wt, 'OUT')
diff = os.path.join(out, 'mut%s.diff' % k)
demo = os.path.join(out, 'demo_%s.rs' % k)
def sh(cmd, cwd=None):
    r = subprocess.run(cmd, shell=True, cwd=cwd, capture_output=True, text=True)
    return r.returncode, r.stdout + r.stderr
meta = dict(id='%s-%s%s' % (pid, k, ('-r' + rnd) if rnd else ''), property=pid, confirmed={}, round=int(rnd) if rnd else 1)
# --- confirm in the scratch worktree
sh('git checkout -- src && rm -rf tests', wt)
os.makedirs(os.path.join(wt, 'tests'), exist_ok=True)
shutil.copy(demo, os.path.join(wt, 'tests', 'demo.rs'))
rc0, o0 = sh('cargo test --offline --test demo 2>&1 | tail -5', wt)
meta['confirmed']['demo_passes_without_change'] = ('test result: ok' in o0)
rc, o = sh('git apply %s' % diff, wt)
if rc != 0:
    print('diff does not apply in worktree', o); sys.exit(1)
rc1, o1 = sh('cargo test --offline --test demo 2>&1 | tail -8', wt)
meta['confirmed']['demo_fails_with_change'] = ('FAILED' in o1 or 'panicked' in o1 or 'error' in o1.lower()) and 'test result: ok' not in o1
os.remove(os.path.join(wt, 'tests', 'demo.rs'))
rc2, o2 = sh('cargo test --offline 2>&1 | grep "test result" | head -1', wt)
meta['confirmed']['existing_suite_passes_with_change'] = ('49 passed; 0 failed' in o2)
sh('git checkout -- src && rm -rf tests', wt)
print('confirmation:', meta['confirmed'])
# --- our checks
plist = props or [pid]
rc, o = sh('%s/tools/try_mutation.py %s %s' % (V, diff, ' '.join(plist)), V)
print(o)
last = o.strip().splitlines()[-1]
try:
    meta['check_results'] = json.loads(last)
except Exception:
    meta['check_results'] = {'error': o[-500:]}
meta['what_it_needs'] = open(os.path.join(out, 'mut%s.md' % k)).read()[:3000]
meta['ran'] = ['cargo test --offline --test demo (with and without the change, in a scratch worktree)', 'cargo test --offline (with the change)', './check <prop> with the patch applied to /repo, then git checkout -- .']
d = os.path.join(V, 'seeded', meta['id'])
os.makedirs(d, exist_ok=True)
# keep the verdict of the first evaluation (generators as they were when the change was written)
try:
    old = json.load(open(os.path.join(d, 'meta.json')))
    meta['first_check_results'] = old.get('first_check_results', old.get('check_results'))
except OSError:
    meta['first_check_results'] = meta['check_results']
shutil.copy(diff, os.path.join(d, 'patch.diff'))
shutil.copy(demo, os.path.join(d, 'demo.rs'))
json.dump(meta, open(os.path.join(d, 'meta.json'), 'w'), indent=1)
print('stored', d)
