#!/usr/bin/env python3
"""Regenerate the seeded-changes table in DESIGN.md §8 from seeded/*/meta.json."""
import json, os, re, glob
V = os.path.dirname(os.path.dirname(os.path.abspath(__file__)))
rows = []
harmless = []
for d in sorted(glob.glob(os.path.join(V, 'seeded', '*'))):
    try:
        m = json.load(open(os.path.join(d, 'meta.json')))
    except OSError:
        continue
    if m['id'].startswith('harmless'):
        harmless.append(m)
        continue
    conf = m.get('confirmed', {})
    ok = all(conf.get(k) for k in ('demo_passes_without_change', 'demo_fails_with_change', 'existing_suite_passes_with_change'))
    res = m.get('check_results', {})
    first = m.get('first_check_results', res)
    fgen = m.get('first_check_results_generators_only')
    if fgen:
        first = {k: '%s (generators only: %s)' % (v, fgen.get(k, '?')) for k, v in first.items()}
    summary = m.get('summary') or ''
    if not summary:
        txt = m.get('what_it_needs', '')
        # first heading / sentence
        for line in txt.splitlines():
            line = line.strip('# ').strip()
            if len(line) > 20:
                summary = line[:140]
                break
    fmt = lambda r: '; '.join('%s: %s' % (k, v) for k, v in sorted(r.items()))
    rows.append((m['id'], m['property'], 'yes' if ok else 'NO', fmt(first), fmt(res), summary.replace('|', '/')))
out = ['| id | breaks | confirmed | ./check when the change was written | ./check now | change |', '|----|--------|-----------|------|------|--------|']
for r in rows:
    out.append('| %s | %s | %s | %s | %s | %s |' % r)
conf = [r for r in rows if r[2] == 'yes']
r1 = [r for r in conf if not r[0].endswith('-r2') and not r[0].endswith('-r3')]
r2 = [r for r in conf if r[0].endswith('-r2')]
r3 = [r for r in conf if r[0].endswith('-r3')]
out.append('')
for name, rs in (('round 1 (plausible maintainer mistakes)', r1), ('round 2 (deliberately subtle, written knowing that round 1 was caught)', r2),
                 ('round 3 (history-, state- and API-usage-dependent, written knowing the classes of rounds 1 and 2; first evaluated with the coverage-guided search stage)', r3)):
    if rs:
        out.append('%s: %d confirmed changes; %d reported as VIOLATION at first evaluation (%d of them with a failing input); %d reported now (%d with a failing input).' % (
            name, len(rs), sum(r[3].split(' (generators only')[0].count('VIOLATION') > 0 for r in rs), sum('VIOLATION' in r[3].split(' (generators only')[0] and 'no-failing' not in r[3].split(' (generators only')[0] for r in rs),
            sum('VIOLATION' in r[4] for r in rs), sum('VIOLATION' in r[4] and 'no-failing' not in r[4] for r in rs)))
if harmless:
    out.append('')
    out.append('Negative controls – behaviour-preserving refactorings written by an independent sub-agent (rewritten option-parsing loop, option-header helper, `to_be_bytes`-based uint encoder, registry loops, shared scanner for both link parsers, guarded-write helpers, restructured Block1 handling, mask-constant header setters / reordered match arms): ' +
               '; '.join('%s: %s' % (h['id'], ', '.join('%s %s' % kv for kv in sorted(h['check_results'].items()))) for h in harmless) + '. No check raised an alarm.')
p = os.path.join(V, 'DESIGN.md')
s = open(p).read()
s = re.sub(r'<!-- SEEDED-TABLE-BEGIN -->.*<!-- SEEDED-TABLE-END -->', '<!-- SEEDED-TABLE-BEGIN -->\n' + '\n'.join(out) + '\n<!-- SEEDED-TABLE-END -->', s, flags=re.S)
open(p, 'w').write(s)
print('\n'.join(out))
