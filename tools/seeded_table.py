#!/usr/bin/env python3
"""Regenerate the seeded-changes table in DESIGN.md §8 from seeded/*/meta.json."""
import json, os, re, glob
V = os.path.dirname(os.path.dirname(os.path.abspath(__file__)))
rows = []
harmless = []
for d in sorted(glob.glob(os.path.join(V, 'seeded', '*'))):
    try:
        m = json.load(open(os.path.join(d, 'meta.json')))
    except OSError:
        continue
    if m['id'].startswith('harmless'):
        harmless.append(m)
        continue
    conf = m.get('confirmed', {})
    ok = all(conf.get(k) for k in ('demo_passes_without_change', 'demo_fails_with_change', 'existing_suite_passes_with_change'))
    res = m.get('check_results', {})
    first = m.get('first_check_results', res)
    fgen = m.get('first_check_results_generators_only')
    if fgen:
        first = {k: '%s (generators only: %s)' % (v, fgen.get(k, '?')) for k, v in first.items()}
    summary = m.get('summary') or ''
    if not summary:
        txt = m.get('what_it_needs', '')
        # first heading / sentence
        for line in txt.splitlines():
            line = line.strip('# ').strip()
            if len(line) > 20:
                summary = line[:140]
                break
    fmt = lambda r: '; '.join('%s: %s' % (k, v) for k, v in sorted(r.items()))
    rows.append((m['id'], m['property'], 'yes' if ok else 'NO', fmt(first), fmt(res), summary.replace('|', '/')))
out = ['| id | breaks | confirmed | ./check when the change was written | ./check now | change |', '|----|--------|-----------|------|------|--------|']
for r in rows:
    out.append('| %s | %s | %s | %s | %s | %s |' % r)
conf = [r for r in rows if r[2] == 'yes']
r1 = [r for r in conf if not r[0].endswith(('-r2', '-r3', '-r4', '-r5', '-r6', '-r7', '-r8', '-r9'))]
r2 = [r for r in conf if r[0].endswith('-r2')]
r3 = [r for r in conf if r[0].endswith('-r3')]
r4 = [r for r in conf if r[0].endswith('-r4')]
r5 = [r for r in conf if r[0].endswith('-r5')]
r6 = [r for r in conf if r[0].endswith('-r6')]
r7 = [r for r in conf if r[0].endswith('-r7')]
r8 = [r for r in conf if r[0].endswith('-r8')]
r9 = [r for r in conf if r[0].endswith('-r9')]
out.append('')
for name, rs in (('round 1 (plausible maintainer mistakes)', r1), ('round 2 (deliberately subtle, written knowing that round 1 was caught)', r2),
                 ('round 3 (history-, state- and API-usage-dependent, written knowing the classes of rounds 1 and 2; first evaluated with the coverage-guided search stage)', r3),
                 ('round 4 (session 4: narrow triggers – cooperating sites, reuse after errors, entry points that must agree, new state fields; first evaluated with the machinery as it stood before the shape tie)', r4),
                 ('round 5 (session 4: function bodies only – no new state, no table or constant changes; conjunctions of input values, equivalent paths that differ, error handling, far ends of ranges, interplay of features)', r5),
                 ('round 6 (session 4: ten properties with the most earlier misses; same rules as round 5)', r6),
                 ('round 7 (session 4: the other eleven properties; same rules)', r7),
                 ('round 8 (session 4: all twenty properties once more, two changes each, written knowing every class of rounds 1-7)', r8),
                 ('round 9 (session 4: twelve properties, after the D21 fix, the low-level models and the API-surface tie; public API surface excluded as well)', r9)):
    if rs:
        out.append('%s: %d confirmed changes; %d reported as VIOLATION at first evaluation (%d of them with a failing input); %d reported now (%d with a failing input).' % (
            name, len(rs), sum(r[3].split(' (generators only')[0].count('VIOLATION') > 0 for r in rs), sum('VIOLATION' in r[3].split(' (generators only')[0] and 'no-failing' not in r[3].split(' (generators only')[0] for r in rs),
            sum('VIOLATION' in r[4] for r in rs), sum('VIOLATION' in r[4] and 'no-failing' not in r[4] for r in rs)))
if harmless:
    out.append('')
    out.append('Negative controls – behaviour-preserving refactorings written by an independent sub-agent (rewritten option-parsing loop, option-header helper, `to_be_bytes`-based uint encoder, registry loops, shared scanner for both link parsers, guarded-write helpers, restructured Block1 handling, mask-constant header setters / reordered match arms; session 4: serialiser rebuilt around an iterator and a shared `append_parts`, block handler flattened into early returns with `leading_zeros` arithmetic, header setters with named masks and a lookup table / observe registry with let-else and `retain` passes, decoder with a slice cursor and shared scanners in the link-format parsers; harmless-19…22, evaluated after the D21 fix, the request-object noise variants, the three low-level models and the API-surface tie: observe registry delegating to private helpers on `Observer`/`Resource`, block handler flattened into early returns with four private helpers and index arithmetic instead of `chunks().skip()`, decoder with a cursor type and the three unsafe blocks of the serialiser folded into one helper, both link-format scanners merged into one byte-level helper with `strip_prefix`/`split_once`): ' +
               '; '.join('%s: %s' % (h['id'], ', '.join('%s %s' % kv for kv in sorted(h['check_results'].items()))) for h in harmless) + '. No check raised an alarm' + ('.' if all(v == 'OK' for h in harmless for v in h['check_results'].values()) else ' EXCEPT where shown.') + ' (harmless-11 made every check that depends on the translator report `no-failing-input-found` when first evaluated: `set_type`/`get_type` rewritten as a cast and a lookup array were no longer readable; see the translator fallback in §2.2.)')
p = os.path.join(V, 'DESIGN.md')
s = open(p).read()
s = re.sub(r'<!-- SEEDED-TABLE-BEGIN -->.*<!-- SEEDED-TABLE-END -->', '<!-- SEEDED-TABLE-BEGIN -->\n' + '\n'.join(out) + '\n<!-- SEEDED-TABLE-END -->', s, flags=re.S)
open(p, 'w').write(s)
print('\n'.join(out))
