#!/usr/bin/env python3
"""Regenerate the seeded-changes table in DESIGN.md §8 from seeded/*/meta.json."""
import json, os, re, glob
V = os.path.dirname(os.path.dirname(os.path.abspath(__file__)))
rows = []
for d in sorted(glob.glob(os.path.join(V, 'seeded', '*'))):
    try:
        m = json.load(open(os.path.join(d, 'meta.json')))
    except OSError:
        continue
    conf = m.get('confirmed', {})
    ok = all(conf.get(k) for k in ('demo_passes_without_change', 'demo_fails_with_change', 'existing_suite_passes_with_change'))
    res = m.get('check_results', {})
    summary = m.get('summary') or ''
    if not summary:
        txt = m.get('what_it_needs', '')
        # first heading / sentence
        for line in txt.splitlines():
            line = line.strip('# ').strip()
            if len(line) > 20:
                summary = line[:140]
                break
    rows.append((m['id'], m['property'], 'yes' if ok else 'NO', '; '.join('%s: %s' % (k, v) for k, v in sorted(res.items())), summary.replace('|', '/')))
out = ['| id | breaks | confirmed | result of ./check (patch applied to /repo) | change |', '|----|--------|-----------|------|--------|']
for r in rows:
    out.append('| %s | %s | %s | %s | %s |' % r)
caught = sum(1 for r in rows if 'VIOLATION' in r[3] and r[2] == 'yes')
out.append('')
out.append('%d confirmed changes, %d reported as VIOLATION by the check of the property they were written against.' % (sum(1 for r in rows if r[2] == 'yes'), caught))
p = os.path.join(V, 'DESIGN.md')
s = open(p).read()
s = re.sub(r'<!-- SEEDED-TABLE-BEGIN -->.*<!-- SEEDED-TABLE-END -->', '<!-- SEEDED-TABLE-BEGIN -->\n' + '\n'.join(out) + '\n<!-- SEEDED-TABLE-END -->', s, flags=re.S)
open(p, 'w').write(s)
print('\n'.join(out))
