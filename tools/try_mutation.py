#!/usr/bin/env python3
"""Apply a patch to /repo, run the given checks, undo the patch.
   tools/try_mutation.py <patch.diff> [C01 C02 ...]   (default: all claimed checks)
Prints one line per property: OK / VIOLATION (with or without failing input)."""
import json, os, subprocess, sys, time
V = os.path.dirname(os.path.dirname(os.path.abspath(__file__)))
patch = os.path.abspath(sys.argv[1])
props = sys.argv[2:] or [c['property_id'] for c in json.load(open(os.path.join(V, 'MANIFEST.json')))['checks']]
st = subprocess.run(['git', '-C', '/repo', 'status', '--porcelain', '--untracked-files=no'], capture_output=True, text=True).stdout.strip()
if st:
    print('refusing: /repo has local modifications:\n' + st); sys.exit(2)
r = subprocess.run(['git', '-C', '/repo', 'apply', patch], capture_output=True, text=True)
if r.returncode != 0:
    print('patch does not apply:', r.stderr); sys.exit(2)
res = {}
try:
    for p in props:
        t0 = time.time()
        out = subprocess.run([os.path.join(V, 'check'), p], capture_output=True, text=True, cwd=V)
        lines = out.stdout.strip().splitlines()
        verdict = 'OK' if out.returncode == 0 else ('VIOLATION' if any(l.startswith('VIOLATION') for l in lines) else 'ERROR rc=%d' % out.returncode)
        nfi = any('no-failing-input-found' in l for l in lines)
        detail = ''
        for l in lines:
            if l.strip().startswith('failing input:') or l.strip().startswith('no longer checks:'):
                detail += ' | ' + l.strip()[:260]
        res[p] = verdict + (' (no-failing-input-found)' if nfi else '')
        print('%s %s %.0fs%s' % (p, res[p], time.time() - t0, detail), flush=True)
        if verdict.startswith('ERROR'):
            print(out.stdout[-800:], out.stderr[-800:])
finally:
    subprocess.run(['git', '-C', '/repo', 'checkout', '--', '.'])
    print('reverted; /repo status:', subprocess.run(['git', '-C', '/repo', 'status', '--porcelain', '--untracked-files=no'], capture_output=True, text=True).stdout.strip() or 'clean')
print(json.dumps(res))
