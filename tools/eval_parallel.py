#!/usr/bin/env python3
"""Evaluate sub-agent mutations in parallel lanes, without touching /repo: each lane works on the
agent's own scratch worktree (/tmp/mut<round>_<pid>) and on a private copy of /verif, and runs
./check with VERIF_REPO pointing at the patched worktree. (tools/eval_seeded.py does the same
serially against /repo itself; the registered checks always run against /repo.)

   tools/eval_parallel.py --round 3 [--lanes 5] C01 C03 ...      (default: every /tmp/mut<round>_C??)

For every mutation k in {1,2} of every property: confirm (demo passes without / fails with the
change, 49 tests pass with it), then ./check twice: generators only (VERIF_NO_FUZZ=1) and with
the coverage-guided search. Results go to seeded/<pid>-<k>-r<round>/meta.json."""
import glob, json, os, shutil, subprocess, sys, time
from concurrent.futures import ThreadPoolExecutor
V = os.path.dirname(os.path.dirname(os.path.abspath(__file__)))
args = sys.argv[1:]
rnd = args[args.index('--round') + 1]
lanes = int(args[args.index('--lanes') + 1]) if '--lanes' in args else 5
only_fuzz = '--only-fuzz' in args
SRC = args[args.index('--src') + 1] if '--src' in args else V   # frozen copy of /verif to evaluate with
pids = [a for a in args if a.startswith('C') and len(a) == 3] or sorted(os.path.basename(p).split('_')[1] for p in glob.glob('/tmp/mut%s_C??' % rnd))
ENV = dict(os.environ, CARGO_NET_OFFLINE='true')


def sh(cmd, cwd=None, env=None, timeout=3600):
    r = subprocess.run(cmd, shell=True, cwd=cwd, capture_output=True, text=True, env=env or ENV, timeout=timeout)
    return r.returncode, r.stdout + r.stderr


def verdict(out, rc):
    lines = out.strip().splitlines()
    v = 'OK' if rc == 0 else ('VIOLATION' if any(l.startswith('VIOLATION') for l in lines) else 'ERROR rc=%d' % rc)
    if any('no-failing-input-found' in l for l in lines):
        v += ' (no-failing-input-found)'
    detail = ' | '.join(l.strip()[:300] for l in lines if l.strip().startswith(('failing input:', 'no longer checks:')))
    return v, detail


def lane(pid):
    wt = '/tmp/mut%s_%s' % (rnd, pid)
    out = os.path.join(wt, 'OUT')
    res = []
    for k in ('1', '2'):
        diff = os.path.join(out, 'mut%s.diff' % k)
        demo = os.path.join(out, 'demo_%s.rs' % k)
        if not (os.path.exists(diff) and os.path.exists(demo)):
            res.append((pid, k, 'missing deliverables'))
            continue
        mid = '%s-%s-r%s' % (pid, k, rnd)
        meta = dict(id=mid, property=pid, round=int(rnd), confirmed={})
        sh('git checkout -- src && rm -rf tests', wt)
        os.makedirs(os.path.join(wt, 'tests'), exist_ok=True)
        shutil.copy(demo, os.path.join(wt, 'tests', 'demo.rs'))
        _, o0 = sh('cargo test --offline --test demo 2>&1 | tail -5', wt)
        meta['confirmed']['demo_passes_without_change'] = 'test result: ok' in o0
        rc, o = sh('git apply %s' % diff, wt)
        if rc != 0:
            res.append((pid, k, 'diff does not apply'))
            continue
        _, o1 = sh('cargo test --offline --test demo 2>&1 | tail -8', wt)
        meta['confirmed']['demo_fails_with_change'] = ('FAILED' in o1 or 'panicked' in o1 or 'error' in o1.lower() or 'abort' in o1.lower()) and 'test result: ok' not in o1
        shutil.rmtree(os.path.join(wt, 'tests'))
        _, o2 = sh('cargo test --offline 2>&1 | grep "test result" | head -1', wt)
        meta['confirmed']['existing_suite_passes_with_change'] = '49 passed; 0 failed' in o2
        # private copy of /verif, checks against the patched worktree
        ev = '/tmp/ev_%s' % mid
        shutil.rmtree(ev, ignore_errors=True)
        sh('rsync -a --exclude .git --exclude seeded --exclude work --exclude evidence %s/ %s/' % (SRC, ev))
        env = dict(ENV, VERIF_REPO=wt)
        results = {}
        t0 = time.time()
        if not only_fuzz:
            rc, o = sh('./check %s' % pid, ev, dict(env, VERIF_NO_FUZZ='1'))
            results['generators'], d1 = verdict(o, rc)
        else:
            d1 = ''
        rc, o = sh('./check %s' % pid, ev, env)
        results['with_search'], d2 = verdict(o, rc)
        meta['check_results'] = {pid: results['with_search']}
        meta['check_results_generators_only'] = {pid: results.get('generators', 'not run')}
        meta['detail'] = (d2 or d1)[:600]
        meta['eval_s'] = round(time.time() - t0)
        md = os.path.join(out, 'mut%s.md' % k)
        meta['what_it_needs'] = open(md).read()[:3000] if os.path.exists(md) else ''
        meta['ran'] = ['cargo test --offline --test demo (with and without the change, in the scratch worktree)', 'cargo test --offline (with the change)',
                       'VERIF_REPO=<patched worktree> ./check <prop> in a private copy of /verif (generators only, then with the coverage-guided search)']
        d = os.path.join(V, 'seeded', mid)
        os.makedirs(d, exist_ok=True)
        try:
            old = json.load(open(os.path.join(d, 'meta.json')))
            meta['first_check_results'] = old.get('first_check_results', old.get('check_results'))
            meta['first_check_results_generators_only'] = old.get('first_check_results_generators_only', old.get('check_results_generators_only'))
        except OSError:
            meta['first_check_results'] = meta['check_results']
            meta['first_check_results_generators_only'] = meta['check_results_generators_only']
        shutil.copy(diff, os.path.join(d, 'patch.diff'))
        shutil.copy(demo, os.path.join(d, 'demo.rs'))
        json.dump(meta, open(os.path.join(d, 'meta.json'), 'w'), indent=1)
        sh('git checkout -- src && rm -rf tests', wt)
        shutil.rmtree(ev, ignore_errors=True)
        res.append((pid, k, meta['confirmed'], results, meta['detail'][:200]))
        print(res[-1], flush=True)
    return res


with ThreadPoolExecutor(max_workers=lanes) as ex:
    allres = list(ex.map(lane, pids))
print('done')
