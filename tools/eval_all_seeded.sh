#!/bin/bash
# evaluate every delivered mutation that has not been evaluated yet:  tools/eval_all_seeded.sh [round]
cd /verif
R=${1:-}
for i in $(seq -w 1 20); do for k in 1 2; do
  if [ -z "$R" ]; then D=/tmp/mut_C$i; S=/verif/seeded/C$i-$k; A=""; else D=/tmp/mut${R}_C$i; S=/verif/seeded/C$i-$k-r$R; A="--round $R"; fi
  if [ -f $D/OUT/mut$k.diff ] && [ -f $D/OUT/demo_$k.rs ] && [ ! -d $S ]; then
    echo "=== C$i $k $A"; tools/eval_seeded.py C$i $k $A 2>&1 | tail -8
  fi
done; done
