#!/bin/bash
# evaluate every delivered mutation that has not been evaluated yet
cd /verif
for i in $(seq -w 1 20); do for k in 1 2; do
  if [ -f /tmp/mut_C$i/OUT/mut$k.diff ] && [ -f /tmp/mut_C$i/OUT/demo_$k.rs ] && [ ! -d /verif/seeded/C$i-$k ]; then
    echo "=== C$i $k"; tools/eval_seeded.py C$i $k 2>&1 | tail -8
  fi
done; done
