#!/usr/bin/env python3
"""Re-run the checks against stored seeded changes (seeded/<id>/patch.diff) with the CURRENT
machinery and the CURRENT /repo HEAD, in parallel lanes, without touching /repo:
every lane makes a scratch worktree of /repo's HEAD, applies the patch there (3-way, the patch
may have been written against an earlier HEAD), and runs ./check in a private copy of /verif
with VERIF_REPO pointing at the worktree.

   tools/reeval_seeded.py [--lanes 5] [--src <frozen /verif copy>] [--match REGEX] [id ...]

Updates check_results (never first_check_results) in seeded/<id>/meta.json."""
import glob, json, os, re, shutil, subprocess, sys, time
from concurrent.futures import ThreadPoolExecutor
V = os.path.dirname(os.path.dirname(os.path.abspath(__file__)))
args = sys.argv[1:]
lanes = int(args[args.index('--lanes') + 1]) if '--lanes' in args else 5
SRC = args[args.index('--src') + 1] if '--src' in args else V
pat = args[args.index('--match') + 1] if '--match' in args else None
skip = set()
for k in ('--lanes', '--src', '--match'):
    if k in args:
        skip.add(args.index(k)); skip.add(args.index(k) + 1)
ids = [a for i, a in enumerate(args) if i not in skip]
if not ids:
    ids = sorted(os.path.basename(d) for d in glob.glob(os.path.join(V, 'seeded', '*')) if os.path.exists(os.path.join(d, 'patch.diff')))
if pat:
    ids = [i for i in ids if re.search(pat, i)]
ENV = dict(os.environ, CARGO_NET_OFFLINE='true')


def sh(cmd, cwd=None, env=None, timeout=5400):
    r = subprocess.run(cmd, shell=True, cwd=cwd, capture_output=True, text=True, env=env or ENV, timeout=timeout)
    return r.returncode, r.stdout + r.stderr


def verdict(out, rc):
    lines = out.strip().splitlines()
    v = 'OK' if rc == 0 else ('VIOLATION' if any(l.startswith('VIOLATION') for l in lines) else 'ERROR rc=%d' % rc)
    if any('no-failing-input-found' in l for l in lines):
        v += ' (no-failing-input-found)'
    return v


def lane(mid):
    d = os.path.join(V, 'seeded', mid)
    meta = json.load(open(os.path.join(d, 'meta.json')))
    props = sorted(meta.get('check_results', {}).keys()) or [meta['property']]
    props = [p for p in props if re.fullmatch(r'C\d\d', p)]
    wt = '/tmp/rw_%s' % mid
    ev = '/tmp/re_%s' % mid
    sh('git -C /repo worktree remove --force %s' % wt)
    shutil.rmtree(wt, ignore_errors=True)
    rc, o = sh('git -C /repo worktree add --detach %s HEAD' % wt)
    if rc != 0:
        return (mid, 'worktree failed: ' + o[-200:])
    shutil.copyfile('/repo/Cargo.lock', os.path.join(wt, 'Cargo.lock'))   # untracked in /repo
    rc, o = sh('git apply --3way %s' % os.path.join(d, 'patch.diff'), wt)
    if rc != 0:
        sh('git -C /repo worktree remove --force %s' % wt)
        return (mid, 'patch does not apply to the current HEAD: ' + o[-200:])
    shutil.rmtree(ev, ignore_errors=True)
    sh('rsync -a --exclude .git --exclude seeded --exclude work --exclude evidence %s/ %s/' % (SRC, ev))
    env = dict(ENV, VERIF_REPO=wt)
    res = {}
    for p in props:
        rc, o = sh('./check %s' % p, ev, env)
        res[p] = verdict(o, rc)
    meta['check_results'] = res
    meta['reevaluated_at_repo_head'] = subprocess.run('git -C /repo rev-parse --short HEAD', shell=True, capture_output=True, text=True).stdout.strip()
    json.dump(meta, open(os.path.join(d, 'meta.json'), 'w'), indent=1)
    sh('git -C /repo worktree remove --force %s' % wt)
    shutil.rmtree(wt, ignore_errors=True)
    shutil.rmtree(ev, ignore_errors=True)
    print(mid, res, flush=True)
    return (mid, res)


with ThreadPoolExecutor(max_workers=lanes) as ex:
    out = list(ex.map(lane, ids))
bad = [o for o in out if isinstance(o[1], str)]
for b in bad:
    print('PROBLEM', b)
print('done')
