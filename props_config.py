"""Per-property configuration of ./check: theorem module, correspondence domains."""

PKT_RULE = 'boundary product of <= 2 options over delta/length sets {0,1,12,13,14,243,244,255,256,268,269,270,1000,65535} x {0,1,12,13,14,268,269,270,1000} x token 0/1/8 x payload 0/1/300; values at 65803..65806; all 256 first header bytes; all code bytes; limits L-1/L/L+1 via payload and via option; random structured messages; 20000 random API call sequences + setter permutations; decoder: every byte string of <= 2 bytes after 3 headers and boundary strings after 12, every option header byte x extension values, prefixes and single-byte corruptions of well-formed messages, random strings. Non-trivial = well-formed message reaching the encoder body / datagram accepted by the decoder; distinct = distinct protocol lines.'

PROPS = {
    'C01': dict(
        lean='CoapLite.Props.C01', domains=['PKT', 'ACC'], line_filter=r'(PKT |ACC (copy|copyinto|wadd|mut|view) )', rule=PKT_RULE + ' Messages assembled through the coap-message writer traits (ACC copy / copyinto / wadd / mut) are included.',
        explanation='enc = RFC 7252 wire image and dec(enc m) = m proved for all well-formed packets; Packet/Codec model tied by domain PKT in both overflow modes',
    ),
    'C02': dict(
        lean='CoapLite.Props.C02', domains=['PKT'], line_filter=r'PKT dec ', rule=PKT_RULE,
        explanation='enc(dec b) = b up to the two permitted droppings, for every accepted byte string',
    ),
    'C03': dict(
        lean='CoapLite.Props.C03', domains=['PKT'], line_filter=r'PKT dec ', rule=PKT_RULE,
        explanation='decoder total (never panic), complete for RFC framing, sound, named rejection classes; oracle = independent three-valued reference parser',
        trusted=['the low-level decoder model Model/CodecLow.lean (index cursor, partial reads, fixed-width additions) is a hand transcription of from_bytes; it is proved equal to the high-level model and run next to it on every PKT dec line up to 1500 bytes'],
    ),
    'C04': dict(
        lean='CoapLite.Props.C04', domains=['PKT', 'TBL'], line_filter=r'(PKT (enc|trace|apitrace) |TBL hdrser )', rule=PKT_RULE,
        explanation='exact wire length, limit iff, refusal of over-long option values',
        trusted=['the low-level serialiser model Model/CodecEncLow.lean (u16/usize arithmetic that panics on overflow, Vec capacity, the unsafe copy blocks as one step that panics outside the allocation) is a hand transcription of to_bytes_internal; it is proved equal to the high-level model (hence never panics) and run next to it on every PKT enc line; the allocator and ptr::copy themselves are trusted'],
    ),
    'C06': dict(
        lean='CoapLite.Props.C06', domains=['UINT'],
        rule='exhaustive 8- and 16-bit values; 32/64-bit at every 2^k +-1 plus random; decode of all byte strings <= 2 bytes (16-bit) and boundary strings at other widths, random strings of length 0..10; random Unicode strings with truncations / bit flips / overlongs / surrogates; random typed accessor sequences. Non-trivial = value >= 256 / non-empty decodable string / accessor sequence.',
        explanation='minimal big-endian uint proved against Spec.minimalBE; UTF-8 via core ByteArray.IsValidUTF8; accessors via OptMap lemmas',
    ),
    'C05': dict(
        lean='CoapLite.Props.C05', domains=['TBL', 'ACC', 'PKT'], line_filter=r'(TBL |ACC req |PKT api )',
        rule='exhaustive: every table is queried over its whole finite domain (65536 option numbers, 65536 content-format ids, 256 code bytes, 256 first header bytes x 4 types, text forms); a case is non-trivial when the number is assigned in the registry or exercises a header byte; distinct = distinct protocol lines',
        explanation='theorems over the regenerated tables vs. the hand-transcribed registry; the translator is validated by comparing every table answer with the binary',
        trusted=['spec/registry.json transcribed by hand from the IANA CoRE Parameters registries and the RFCs'],
    ),
    'C07': dict(
        lean='CoapLite.Props.C07', domains=['RESP'],
        rule='4 versions x 4 types x token length 0..8 x message ids {0,1,255,256,0x1234,65534,65535} (every id in the thorough tier) with arbitrary code/options/payload; all 256 first header bytes with consistent and inconsistent token lengths; random ids; apply_from_error over every code byte and no code x 4 types x pre-set reply options. Every case is non-trivial (reaches CoapResponse::new / apply_from_error); distinct = distinct protocol lines.',
        explanation='Response.new / applyFromError proved for all header bytes, ids and tokens (the 65536-id product is covered by a universally quantified theorem); responseTypeFor regenerated from source',
    ),
    'C19': dict(
        lean='CoapLite.Props.C19', domains=['ACC', 'TBL'], line_filter=r'(ACC |TBL (method|status) )',
        rule='all 256 code bytes through set_method/set_status and the getter tables; every named content format (set, set twice, set after raw add) and raw bytes of length 0..3; observe flag set/get and raw Observe bytes of length 0..6; every path string over {/, a, ., e-acute} up to length 5 (6 thorough) with prior Uri-Path state varied, random paths, non-UTF-8 raw segments; random messages through both coap-message trait versions (view and set_from_message). Every case is non-trivial; distinct = distinct protocol lines.',
        explanation='accessor laws proved over the model; getMethodTable/getStatusTable regenerated from the source',
    ),
    'C14': dict(
        lean='CoapLite.Props.C14', domains=['OBS'], line_filter=r'OBS (run|trace) ',
        rule='breadth-first: every one of 31 operations (2 endpoints x 2 tokens x 2 paths x 2 mids x CON/NON x limits 0,1,2) out of every distinct full registry state reachable within depth 5 (7 thorough), full-state comparison incl. private counters through the hook; 250 (1500) random histories of length 200 over 8 endpoints, 6 paths, tokens 0-8 B, limits up to 255; directed 600-round histories. Every line is a distinct non-trivial history.',
        explanation='registry invariants by induction over arbitrary operation lists; per-operation specs for every Inv state',
    ),
    'C15': dict(
        lean='CoapLite.Props.C15', domains=['OBS'],
        rule='same histories as C14 plus directed 600-round histories at limits 0,1,10,254,255 (CON every round / every 2nd round, one acknowledgement) and the notification builder over token 0-9 B x sequence numbers across the 1/2/3/4-byte boundaries x CON/NON + 2000 random.',
        explanation='sequence/counter accounting per Inv state; counter bound for all histories with u8 limits; notification builder',
    ),
    'C08': dict(
        lean='CoapLite.Props.C08', domains=['BLK'], rule='Sessions against the real BlockHandler under the deterministic fake clock, full comparison of every outcome, reply dump, request payload and (hook) cached state: Block2 downloads of every body length 0..3*blocksize+1 for sizes 16/32/64 x client preference none/equal/larger, lengths {0,15,16,17,1023,1024,1025,5000(20000)} x budgets 38..1280 x preferences incl. mid-transfer reduction, budgets in a band of +-3 around overhead+{12,28,32,44}+2^j for 4 request shapes x 3 reply option sets; Block1 uploads at every size exponent x lengths around block multiples x duplicate patterns x abandoned prefixes; too-large requests; 8000 (60000) hostile request sequences of length 1..6 (option bloat to 1400 B, block numbers up to 65535, szx 0..7, malformed block bytes, all message types, budgets 0..5000, large replies, pre-set Block2); all interleavings of 2 transfers x 4 exchanges differing in one key component; cache lifetime at ttl-1/ttl/ttl+1/4*ttl with 0..25 (2000) intervening keys; keep-alive chains (duplicates / earlier blocks spaced just under the expiry); far jumps with announced Size1/Size2; finished transfers resumed at a later block with a grown reply; application response codes 2.01..5.03 in interleavings. Every session is non-trivial; distinct = distinct session lines.',
        explanation='chunk/tiling reassembly, served-block contents, caching and release proved over the handler core; tied by domain BLK',
    ),
    'C09': dict(
        lean='CoapLite.Props.C09', domains=['BLK'], rule='Sessions against the real BlockHandler under the deterministic fake clock, full comparison of every outcome, reply dump, request payload and (hook) cached state: Block2 downloads of every body length 0..3*blocksize+1 for sizes 16/32/64 x client preference none/equal/larger, lengths {0,15,16,17,1023,1024,1025,5000(20000)} x budgets 38..1280 x preferences incl. mid-transfer reduction, budgets in a band of +-3 around overhead+{12,28,32,44}+2^j for 4 request shapes x 3 reply option sets; Block1 uploads at every size exponent x lengths around block multiples x duplicate patterns x abandoned prefixes; too-large requests; 8000 (60000) hostile request sequences of length 1..6 (option bloat to 1400 B, block numbers up to 65535, szx 0..7, malformed block bytes, all message types, budgets 0..5000, large replies, pre-set Block2); all interleavings of 2 transfers x 4 exchanges differing in one key component; cache lifetime at ttl-1/ttl/ttl+1/4*ttl with 0..25 (2000) intervening keys; keep-alive chains (duplicates / earlier blocks spaced just under the expiry); far jumps with announced Size1/Size2; finished transfers resumed at a later block with a grown reply; application response codes 2.01..5.03 in interleavings. Every session is non-trivial; distinct = distinct session lines.',
        explanation='upload step / in-order prefix with duplicates and stale buffers / final block proved over the handler core; K1 is a recorded known finding',
    ),
    'C10': dict(
        lean='CoapLite.Props.C10', domains=['BLK'], rule='Sessions against the real BlockHandler under the deterministic fake clock, full comparison of every outcome, reply dump, request payload and (hook) cached state: Block2 downloads of every body length 0..3*blocksize+1 for sizes 16/32/64 x client preference none/equal/larger, lengths {0,15,16,17,1023,1024,1025,5000(20000)} x budgets 38..1280 x preferences incl. mid-transfer reduction, budgets in a band of +-3 around overhead+{12,28,32,44}+2^j for 4 request shapes x 3 reply option sets; Block1 uploads at every size exponent x lengths around block multiples x duplicate patterns x abandoned prefixes; too-large requests; 8000 (60000) hostile request sequences of length 1..6 (option bloat to 1400 B, block numbers up to 65535, szx 0..7, malformed block bytes, all message types, budgets 0..5000, large replies, pre-set Block2); all interleavings of 2 transfers x 4 exchanges differing in one key component; cache lifetime at ttl-1/ttl/ttl+1/4*ttl with 0..25 (2000) intervening keys; keep-alive chains (duplicates / earlier blocks spaced just under the expiry); far jumps with announced Size1/Size2; finished transfers resumed at a later block with a grown reply; application response codes 2.01..5.03 in interleavings. Every session is non-trivial; distinct = distinct session lines.',
        explanation='negotiated size bounds and wire-length-within-budget proved; blockOptionsMaxLength regenerated from source',
    ),
    'C11': dict(
        lean='CoapLite.Props.C11', domains=['BLK', 'TBL'], line_filter=r'(BLK |TBL errctor )', rule='Sessions against the real BlockHandler under the deterministic fake clock, full comparison of every outcome, reply dump, request payload and (hook) cached state: Block2 downloads of every body length 0..3*blocksize+1 for sizes 16/32/64 x client preference none/equal/larger, lengths {0,15,16,17,1023,1024,1025,5000(20000)} x budgets 38..1280 x preferences incl. mid-transfer reduction, budgets in a band of +-3 around overhead+{12,28,32,44}+2^j for 4 request shapes x 3 reply option sets; Block1 uploads at every size exponent x lengths around block multiples x duplicate patterns x abandoned prefixes; too-large requests; 8000 (60000) hostile request sequences of length 1..6 (option bloat to 1400 B, block numbers up to 65535, szx 0..7, malformed block bytes, all message types, budgets 0..5000, large replies, pre-set Block2); all interleavings of 2 transfers x 4 exchanges differing in one key component; cache lifetime at ttl-1/ttl/ttl+1/4*ttl with 0..25 (2000) intervening keys; keep-alive chains (duplicates / earlier blocks spaced just under the expiry); far jumps with announced Size1/Size2; finished transfers resumed at a later block with a grown reply; application response codes 2.01..5.03 in interleavings. Every session is non-trivial; distinct = distinct session lines.',
        explanation='never-panic, renderable errors, buffer growth bound for all requests/states/budgets',
    ),
    'C12': dict(
        lean='CoapLite.Props.C12', domains=['BLK'], rule='Sessions against the real BlockHandler under the deterministic fake clock, full comparison of every outcome, reply dump, request payload and (hook) cached state: Block2 downloads of every body length 0..3*blocksize+1 for sizes 16/32/64 x client preference none/equal/larger, lengths {0,15,16,17,1023,1024,1025,5000(20000)} x budgets 38..1280 x preferences incl. mid-transfer reduction, budgets in a band of +-3 around overhead+{12,28,32,44}+2^j for 4 request shapes x 3 reply option sets; Block1 uploads at every size exponent x lengths around block multiples x duplicate patterns x abandoned prefixes; too-large requests; 8000 (60000) hostile request sequences of length 1..6 (option bloat to 1400 B, block numbers up to 65535, szx 0..7, malformed block bytes, all message types, budgets 0..5000, large replies, pre-set Block2); all interleavings of 2 transfers x 4 exchanges differing in one key component; cache lifetime at ttl-1/ttl/ttl+1/4*ttl with 0..25 (2000) intervening keys; keep-alive chains (duplicates / earlier blocks spaced just under the expiry); far jumps with announced Size1/Size2; finished transfers resumed at a later block with a grown reply; application response codes 2.01..5.03 in interleavings. Every session is non-trivial; distinct = distinct session lines.',
        explanation='non-interference for every interleaving and monotone timestamping by simulation; reply ids',
    ),
    'C20': dict(
        lean='CoapLite.Props.C20', domains=['BLK'], rule='Sessions against the real BlockHandler under the deterministic fake clock, full comparison of every outcome, reply dump, request payload and (hook) cached state: Block2 downloads of every body length 0..3*blocksize+1 for sizes 16/32/64 x client preference none/equal/larger, lengths {0,15,16,17,1023,1024,1025,5000(20000)} x budgets 38..1280 x preferences incl. mid-transfer reduction, budgets in a band of +-3 around overhead+{12,28,32,44}+2^j for 4 request shapes x 3 reply option sets; Block1 uploads at every size exponent x lengths around block multiples x duplicate patterns x abandoned prefixes; too-large requests; 8000 (60000) hostile request sequences of length 1..6 (option bloat to 1400 B, block numbers up to 65535, szx 0..7, malformed block bytes, all message types, budgets 0..5000, large replies, pre-set Block2); all interleavings of 2 transfers x 4 exchanges differing in one key component; cache lifetime at ttl-1/ttl/ttl+1/4*ttl with 0..25 (2000) intervening keys; keep-alive chains (duplicates / earlier blocks spaced just under the expiry); far jumps with announced Size1/Size2; finished transfers resumed at a later block with a grown reply; application response codes 2.01..5.03 in interleavings. Every session is non-trivial; distinct = distinct session lines. Reclamation is additionally observed with a counting allocator (1/5/50 abandoned 10 KiB uploads).',
        explanation='LRU/expiry cache invariants, retention, expiry and removal-on-next-use proved; heap reclamation observed only',
        assumptions=['time is a monotone explicit parameter; the real code reads Instant::now() up to three times within one call (identical under the fake clock)', 'heap reclamation is observed through a counting allocator, not proved'],
    ),
    'C16': dict(
        lean='CoapLite.Props.C16', domains=['LF'], line_filter=r'LF (write|writenf|rt) ',
        rule='documents: every attribute value of length <= 3 (4 thorough) over 12 structural/multi-byte characters through attr and attr_quoted + a u32 attribute; 3000 (20000) random documents of 0..4 links x 0..4 attributes with values up to length 8 over 19 characters incl. 4-byte code points, all writer methods, newline on/off; directed 0..4 x 0..4 grid. Non-trivial = every written document; distinct = distinct lines.',
        explanation='parse(write d) = d proved for all well-formed documents',
    ),
    'C17': dict(
        lean='CoapLite.Props.C17', domains=['LF'], line_filter=r'LF (parse|cow|cowk) ',
        rule='link parser on every string of length <= 5 (7 thorough) over {< > ; , " \\ = space a e-acute} + 60000 random of length 6..8; both unquoting paths on every string of length <= 6 (7) over {" \\ a e-acute ;}; 20000 (100000) random strings up to length 40 over 19 characters incl. 4-byte code points; every prefix of 300 (2000) written documents. Offsets of all yielded slices compared. Non-trivial = at least one link parsed / quoted value.',
        explanation='slices, order, fusedness, termination and cow = string proved for every input',
        trusted=['the low-level parser model Model/LinkLow.lean (byte offsets from pointer differences, &str slicing that panics off a character boundary) is a hand transcription of LinkFormatParser::next / LinkAttributeParser::next; it is proved equal to the high-level model for every input (hence never panics) and run next to it on every LF parse line; one write!("{}", x) is one sink call (core::fmt, not derived from the crate)'],
    ),
    'C18': dict(
        lean='CoapLite.Props.C18', domains=['LF'], line_filter=r'LF write',
        rule='for a third of the random documents and the whole 0..4 x 0..4 grid: every sink-call index x {fail once, fail persistently} x newline on/off, sink overriding write_str and write_char, complete enumeration per document; the same with set_add_newlines switched again between links (5 switch patterns). Every fault injection is a distinct non-trivial case.',
        explanation='for every fault schedule: error reported iff a call fails, sink is a prefix, nothing after the failure',
    ),
    'C13': dict(
        lean='CoapLite.Props.C13', domains=['BV'],
        rule='exhaustive num x more x szx for encode/decode; all byte strings of length <= 2 and boundary-directed 3-byte strings for decode; construction over boundary block numbers x every size 0..8200 and all powers of two; non-trivial = reaches past the first guard (valid size/num, length <= 3)',
        explanation='BlockValue model proved against the RFC 7959 reading; tied by domain BV in both overflow modes',
    ),
}
