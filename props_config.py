"""Per-property configuration of ./check: theorem module, correspondence domains."""

PROPS = {
    'C05': dict(
        lean='CoapLite.Props.C05', domains=['TBL'],
        rule='exhaustive: every table is queried over its whole finite domain (65536 option numbers, 65536 content-format ids, 256 code bytes, 256 first header bytes x 4 types, text forms); a case is non-trivial when the number is assigned in the registry or exercises a header byte; distinct = distinct protocol lines',
        explanation='theorems over the regenerated tables vs. the hand-transcribed registry; the translator is validated by comparing every table answer with the binary',
        trusted=['spec/registry.json transcribed by hand from the IANA CoRE Parameters registries and the RFCs'],
    ),
    'C13': dict(
        lean='CoapLite.Props.C13', domains=['BV'],
        rule='exhaustive num x more x szx for encode/decode; all byte strings of length <= 2 and boundary-directed 3-byte strings for decode; construction over boundary block numbers x every size 0..8200 and all powers of two; non-trivial = reaches past the first guard (valid size/num, length <= 3)',
        explanation='BlockValue model proved against the RFC 7959 reading; tied by domain BV in both overflow modes',
    ),
}
